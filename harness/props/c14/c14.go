// Package c14 is the direct oracle for property C14: the scanners' tokens tile the source and every
// reported position is faithful; recorded node ranges slice the source to exactly their construct.
package c14

import (
	"encoding/hex"
	"encoding/json"
	"hash/fnv"
	"runtime/debug"
	"strconv"
	"strings"

	"github.com/hashicorp/hcl/v2"

	"hx/lib"
)

func init() { lib.Register("C14", runC14) }

var lexModes = []string{"config", "expression", "template"}

// handBytes are byte strings kept because they exercise a scanner corner.
var handBytes = []string{
	"", " ", "\n", "\r", "\r\n", "\t", "\xef\xbb\xbf", "\xef\xbb\xbfa = 1\n", "\xef\xbb\xbf\xef\xbb\xbf", "\xef\xbb", "a\xef\xbb\xbfb",
	"a = 1", "a = 1\n", "a = 1\r\n", "a \r b", "a\rb", "$", "%", "a = $", "x${", "x%{", "${", "${a", "${a}", "%{if a}x%{endif}", "~}", "a ~} b",
	"a = <<EOT\nfoo\nEOT\n", "a = <<EOT\nfoo\nEOT", "a = <<EOT\r\nfoo\r\nEOT\r\n", "a = <<-EOT\n  foo\n  EOT\n", "<<EOT\nfoo\rbar\nEOT\n",
	"<<EOT\n${a}\nEOT\n", "<<EOT\n${<<IN\nx\nIN\n}\nEOT\n", "<<EOT\n  EOT \nEOT\n", "<<EOT\nEOT", "<<EOT", "<<EOT\n", "<<\n", "<<-\n", "<<é\né\n",
	"\"a\nb\"", "\"a\r\nb\"", "\"a\rb\"", "\"\\", "\"\\\"", "\"$${a}\"", "\"%%{a}\"", "\"${\"${\"x\"}\"}\"", "\"$\"", "\"%\"", "\"$$\"", "\"$", "\"a${",
	"# c", "# c\n", "# c\r\n", "# c\r", "// c", "/* c", "/* c */", "/* \n */ a", "/**/", "/*/", "a/*\r\n*/b",
	"é", "é", "=\u0301", "a \u0301", " \u0301", "\u0600 a", "\u0600=", "👍🏽", "👨\u200d👩\u200d👧", "🇩🇪🇫🇷", "🇩 🇪", "a\u200db", "\"é\" = é", "x = \"👨\u200d👩\u200d👧\" # 🇩🇪\ny = 1",
	"\xff", "a\xffb", "\"\xff\"", "\xc0\xaf", "\xe2\x82", "\xe2\x82\n", "\"\xe2\x82\"", "# \xff\n", "<<EOT\n\xff\nEOT\n", "\xed\xa0\x80", "\xf5\x80\x80\x80",
	"\x00", "a\x00b", "\"\x00\"", "\x7f", "\x0b", "\x0c", "1.5.2", "1e+", "1ee5", "a.0.1", "a--b", "a- -b", "x-", "-x", "_", "__a-", "a::b", "a:::b", "....", "..", "=>=", "<<=", "!==",
	"a = {\n  b = 1\n}\n", "b \"l\" {\n}\n", "a = [\n 1,\n 2\n]\n", "a\t=\t1", "a =\t\"x\"\t# c", "x = \"\t\"", "\ta", "\t\xef\xbb\xbf",
	"line1\nline2\r\nline3\rline4", "\n\n\n", "\r\r\r", "\r\n\r\n", "a\n\rb", "“a”", "\u2028", "\u0085", "a\u00a0b",
}

func runC14(cx *lib.Ctx) {
	if cx.Replay == "" {
		corrPos(cx)
		corrRangeScan(cx)
		corrJSONScan(cx)
	}
	res := cx.Res
	res.MaxPerKey = 2
	// many small scans: with the default GC target the collector takes a large share of the CPU time
	defer debug.SetGCPercent(debug.SetGCPercent(400))
	if cx.Replay != "" {
		replayC14(cx, lib.ReplayInput(cx.Replay))
		return
	}
	root := seedStream(cx, "C14")
	res.Rule = "tiling/positions: byte strings from a hand corpus, fragment soups (ASCII syntax, white space with CR/LF mixtures, multi-byte and combining and emoji clusters, invalid UTF-8, control bytes), template-shaped soups, and generated configurations (heredocs, non-ASCII names) intact and mutated, each scanned by LexConfig, LexExpression and LexTemplate from a random start position, plus json.VerifScan and hcl.RangeScanner (ScanLines, ScanWords); range fidelity: generated error-free configurations under random layouts, every recorded range sliced and every expression range re-parsed; non-trivial = at least one position compared (tiling) / at least one expression re-parsed (fidelity); distinct by input bytes"

	lexAll := func(src []byte, r *lib.Rand, origin string) {
		total := 0
		for _, m := range lexModes {
			st := randomStart(r)
			cmp, skip := checkLex(cx, m, src, st)
			total += cmp
			res.Distribution["positions-compared"] += cmp
			res.Distribution["positions-skipped-unaligned"] += skip
		}
		res.Case(canon("lex", src), total > 0)
		res.Count("lex-input:" + origin)
		if !isASCII(src) {
			res.Count("lex-input-non-ascii")
		}
		if !validUTF8(src) {
			res.Count("lex-input-invalid-utf8")
		}
		if strings.Contains(string(src), "\r") {
			res.Count("lex-input-with-cr")
		}
		if strings.Contains(string(src), "<<") {
			res.Count("lex-input-with-heredoc-marker")
		}
	}
	scanAll := func(src []byte, r *lib.Rand) {
		checkRangeScanner(cx, "lines", src, randomStart(r))
		checkRangeScanner(cx, "words", src, randomStart(r))
		// split functions whose tokens end in a line terminator
		checkRangeScanner(cx, "lines-keep", src, randomStart(r))
		if len(src) <= 400 {
			checkRangeScanner(cx, "bytes", src, randomStart(r))
			checkRangeScanner(cx, "runes", src, randomStart(r))
		}
		res.Count("rangescan-input")
	}

	// ---- hand corpus, every prefix of the short ones
	for _, s := range handBytes {
		r := root.Fork()
		lexAll([]byte(s), r, "corpus")
		scanAll([]byte(s), r)
		checkJSONScan(cx, []byte(s), randomStart(r))
		if len(s) <= 24 {
			for i := 1; i < len(s); i++ {
				lexAll([]byte(s[:i]), r, "corpus-prefix")
			}
		}
	}

	// ---- soups
	flavours := [][]int{
		{10, 4, 0, 0, 0, 0}, // ASCII syntax
		{6, 4, 4, 0, 0, 0},  // with unicode clusters
		{6, 3, 2, 3, 1, 1},  // with invalid UTF-8, controls, random bytes
		{2, 6, 3, 1, 0, 0},  // mostly white space
		{0, 1, 2, 3, 1, 4},  // garbage
	}
	n := cx.Scale(60000, 900000)
	for i := 0; i < n; i++ {
		r := root.Fork()
		var src []byte
		origin := "soup"
		switch r.Intn(4) {
		case 0:
			src = templateSoup(r, 1+r.Intn(12))
			origin = "template-soup"
		default:
			src = soup(r, 1+r.Intn(30), flavours[r.Intn(len(flavours))])
		}
		if r.Chance(1, 30) {
			src = append([]byte("\xef\xbb\xbf"), src...)
		}
		lexAll(src, r, origin)
		if i%4 == 0 {
			scanAll(src, r)
		}
		if i < 2 {
			res.Sample(mkDoc("lex", "all", src, hcl.InitialPos))
		}
	}

	// ---- JSON scanner
	nj := cx.Scale(18000, 300000)
	for i := 0; i < nj; i++ {
		r := root.Fork()
		src := genJSON(r)
		if r.Chance(1, 6) {
			src = soup(r, 1+r.Intn(15), []int{3, 3, 2, 1, 1, 0})
		}
		checkJSONScan(cx, src, randomStart(r))
		res.Case(canon("json", src), true)
		res.Count("json-input")
	}

	// ---- generated configurations: range fidelity, and tiling of the same text intact and damaged
	nc := cx.Scale(14000, 200000)
	for i := 0; i < nc; i++ {
		r := root.Fork()
		src := genConfig(r)
		valid, exprs := checkRanges(cx, []byte(src), "generated")
		res.Case(canon("cfg", []byte(src)), valid && exprs > 0)
		if valid {
			res.Count("fidelity-config")
			res.Distribution["fidelity-expressions"] += exprs
			if strings.Contains(src, "<<") {
				res.Count("fidelity-config-with-heredoc")
			}
			if !isASCII([]byte(src)) {
				res.Count("fidelity-config-non-ascii")
			}
		} else {
			res.Count("fidelity-skip-invalid")
		}
		if i < 2 {
			res.Sample(src)
		}
		lexAll([]byte(src), r, "config")
		if r.Chance(1, 2) {
			m := lib.MutateBytes(r, []byte(src))
			if r.Chance(1, 3) && len(m) > 0 {
				p := r.Intn(len(m))
				ins := r.Pick(unicodeFrags)
				if r.Chance(1, 3) {
					ins = r.Pick(invalidFrags)
				}
				m = append(m[:p], append([]byte(ins), m[p:]...)...)
			}
			lexAll(m, r, "config-mutated")
		}
		if i%8 == 0 {
			scanAll([]byte(src), r)
		}
	}
	for _, s := range handConfigs {
		valid, exprs := checkRanges(cx, []byte(s), "corpus")
		res.Case(canon("cfg", []byte(s)), valid && exprs > 0)
		if !valid {
			res.Count("corpus-config-invalid")
		}
	}
	if len(res.Notes) > 8 {
		res.Notes = res.Notes[:8]
	}
}

// handConfigs are error-free configurations exercising every node kind of the range walk.
var handConfigs = []string{
	"a = 1\n",
	// namespaced function names with gaps inside the name
	"a = core :: max(1, 2)\nb = core::max(1)\nc = upper (\"a\")\nd = [\n  core ::\n    max(1, 2),\n]\ne = a /* c */ :: /* d */ b::c (1)\nf = (ns\n::\nfn(1))\ng = \"${ core\t::\tmax(1) }\"\n",
	"a = b.c[0].d\nb = f(x, y...)\nc = ns::fn(1)\n",
	"a = x[*].y[0].z\nb = x.*.y.0\nc = x[*]\nd = (x[*].y)[1]\ne = x[*].y[k + 1].z[*].w\n",
	"a = \"lit\"\nb = \"a ${b} c\"\nc = \"${x}\"\nd = \"%{if c}yes%{else}no%{endif}\"\ne = \"%{for v in l}<${v}>%{endfor}\"\n",
	"a = <<EOT\nhello ${name}\n%{if c}x%{endif}\nEOT\nb = <<-EOT\n    indented\n      more ${x}\n    EOT\n",
	"a = { k = 1, \"q\" = 2, (v) = 3, a.b = 4 }\nb = [for k, v in m : v if k]\nc = {for k, v in m : k => v...}\n",
	"a = -x + !y * (z % 2) >= 1 && b || c ? d : e\n",
	"blk \"l1\" l2 \"é 👍🏽\" {\n  inner { x = 1 }\n  y = 2\n}\n",
	"a = [\n  1, # one\n  2,\n]\nb = f(\n  1,\n)\n",
	"a = \"${ \"in ${ \"ner\" }\" }\"\nb = \"%{ if a ~} x %{~ endif }\"\nc = \"x ${~ y ~} z\"\n",
	"a = f(<<EOT\nx\nEOT\n, 2)\nb = [<<A\n1\nA\n, <<B\n2\nB\n]\n",
	"é = \"é\" + ключ\n名前 = { 名 = 前 }\n",
}

// seedStream derives the run's random stream from the seed through a hash. lib.NewRand(seed) puts the
// seed straight into a splitmix64 counter, so the stream of seed k+1 is the stream of seed k shifted by one
// draw (and Fork() inherits that): consecutive seeds would re-run almost the same cases. cx.R is consumed
// once so that everything still derives from it.
func seedStream(cx *lib.Ctx, prop string) *lib.Rand {
	h := fnv.New64a()
	h.Write([]byte(prop + "/" + strconv.FormatUint(cx.Seed, 10) + "/" + strconv.FormatUint(cx.R.U64(), 10)))
	return lib.NewRand(h.Sum64())
}

// canon identifies a case by a hash of its bytes (the distinct-case table would otherwise hold every input).
func canon(kind string, b []byte) string {
	h := fnv.New64a()
	h.Write(b)
	return kind + ":" + strconv.FormatUint(h.Sum64(), 36) + ":" + strconv.Itoa(len(b))
}

func isASCII(b []byte) bool {
	for _, c := range b {
		if c >= 0x80 {
			return false
		}
	}
	return true
}

func validUTF8(b []byte) bool { return strings.ToValidUTF8(string(b), "") == string(b) }

func replayC14(cx *lib.Ctx, input string) {
	var d caseDoc
	if err := json.Unmarshal([]byte(input), &d); err == nil && d.Kind != "" {
		src, err := hex.DecodeString(d.Hex)
		if err != nil {
			cx.Res.Notes = append(cx.Res.Notes, "replay: bad hex: "+err.Error())
			return
		}
		switch d.Kind {
		case "lex":
			modes := []string{d.Mode}
			if d.Mode == "all" || d.Mode == "" {
				modes = lexModes
			}
			for _, m := range modes {
				checkLex(cx, m, src, d.pos())
			}
		case "json":
			checkJSONScan(cx, src, d.pos())
		case "rangescan":
			checkRangeScanner(cx, d.Mode, src, d.pos())
		}
		cx.Res.Case(input, true)
		cx.Res.Sample(d)
		return
	}
	// a plain source text: the range-fidelity oracle, and tiling from the initial position
	valid, exprs := checkRanges(cx, []byte(input), "replay")
	for _, m := range lexModes {
		checkLex(cx, m, []byte(input), hcl.InitialPos)
	}
	cx.Res.Case(input, valid && exprs > 0)
	cx.Res.Sample(input)
}
