// Package c03: native and JSON syntaxes denote the same configuration.
package c03

import (
	"encoding/json"
	"fmt"
	"sort"
	"strings"

	"github.com/hashicorp/hcl/v2"
	"github.com/hashicorp/hcl/v2/hcldec"
	"github.com/hashicorp/hcl/v2/hclsyntax"
	hcljson "github.com/hashicorp/hcl/v2/json"
	"github.com/zclconf/go-cty/cty"

	"hx/lib"
	"hx/props/histgen"
	"hx/props/decgen"
)

func init() { lib.Register("C03", run) }

type caseInput struct {
	Seed     uint64 `json:"seed"`
	Depth    int    `json:"depth"`
	Check    string `json:"check,omitempty"`
	Encoding int    `json:"encoding,omitempty"`
	Template bool   `json:"strings_are_templates"`
	Spec     string `json:"spec,omitempty"`
	Native   string `json:"native,omitempty"`
	JSON     string `json:"json,omitempty"`
	Perturb  string `json:"perturbations,omitempty"`
}

const nEncodings = 3

type c03case struct {
	in    caseInput
	spec  *decgen.SNode
	base  *decgen.Body // conforming configuration
	body  *decgen.Body // possibly perturbed
	tags  []string
	ctx   *hcl.EvalContext
	nat   string
	natB  string // native text of base
	encs  []string
	encsB []string // encodings of base
	r     *lib.Rand
	used  map[string]int
}

func build(cx *lib.Ctx, seed uint64, depth int) *c03case {
	r := lib.NewRand(seed)
	c := &c03case{in: caseInput{Seed: seed, Depth: depth}, r: r, used: map[string]int{}}
	// Strings: with a nil EvalContext JSON strings are literal; with a non-nil one they are templates, and
	// the encoder escapes the template introducers so that every string denotes itself. Both are exercised;
	// the same context is used on both sides.
	if r.Chance(1, 2) {
		c.ctx = &hcl.EvalContext{}
		c.in.Template = true
	}
	sg := &decgen.SpecGen{R: r}
	c.spec = sg.Gen(depth)
	bg := &decgen.BodyGen{R: r, MixDynamic: 2}
	c.base = bg.Body(c.spec)
	c.body = c.base
	switch {
	case r.Chance(1, 6):
		// only a wrong label count, on one block anywhere in the tree
		c.body = c.base.Clone()
		var all []*decgen.Block
		var collect func(b *decgen.Body)
		collect = func(b *decgen.Body) {
			for _, k := range b.Blocks() {
				all = append(all, k)
				collect(k.Body)
			}
		}
		collect(c.body)
		if len(all) > 0 {
			k := all[r.Intn(len(all))]
			if len(k.Labels) > 0 && r.Chance(1, 2) {
				k.Labels = k.Labels[:len(k.Labels)-1]
				c.tags = []string{"label-fewer"}
			} else {
				k.Labels = append(k.Labels, bg.Label())
				c.tags = []string{"label-more"}
			}
		}
	case r.Chance(1, 2):
		c.body, c.tags = bg.Perturb(c.spec, c.base)
	}
	degenerate := map[string]int{}
	c.spec.SameBody(func(m *decgen.SNode) {
		if m.IsBlockKind() {
			degenerate[m.Name] = m.NLabels
		}
	})
	c.nat = decgen.Native(c.body, &decgen.NativeOpts{R: r})
	c.natB = decgen.Native(c.base, &decgen.NativeOpts{R: r})
	for i := 0; i < nEncodings; i++ {
		o := &decgen.JSONOpts{R: r, Template: c.in.Template, Degenerate: degenerate, Used: c.used}
		if i == 0 && r.Chance(1, 3) {
			o.R = nil // the canonical encoding now and then
		}
		c.encs = append(c.encs, decgen.JSON(c.body, o))
		// (degenerate zero-block properties are admissible only under a schema that knows the type: the
		// random schemas are drawn from the configuration's own names, so none here)
		c.encsB = append(c.encsB, decgen.JSON(c.base, &decgen.JSONOpts{R: r, Template: c.in.Template, Used: c.used}))
	}
	c.in.Spec = c.spec.Dump()
	c.in.Perturb = strings.Join(c.tags, ",")
	return c
}

func (c *c03case) input(check string, enc int, native, js string) string {
	in := c.in
	in.Check, in.Encoding, in.Native, in.JSON = check, enc, native, js
	b, _ := json.Marshal(in)
	return string(b)
}

type outcome struct {
	val      cty.Value
	diags    hcl.Diagnostics
	panicked interface{}
}

func decode(body hcl.Body, spec hcldec.Spec, ctx *hcl.EvalContext, partial bool) (o outcome) {
	defer func() {
		if p := recover(); p != nil {
			o.panicked = p
		}
	}()
	if partial {
		o.val, _, o.diags = hcldec.PartialDecode(body, spec, ctx)
	} else {
		o.val, o.diags = hcldec.Decode(body, spec, ctx)
	}
	return
}

func describe(o outcome) string {
	if o.panicked != nil {
		return fmt.Sprintf("PANIC %v", o.panicked)
	}
	return lib.DumpValue(o.val) + " ; diagnostics: " + decgen.DiagText(o.diags)
}

// firstError names one error of the set, independently of the order hcldec happens to visit an ObjectSpec in.
func firstError(d hcl.Diagnostics) string {
	best := ""
	for _, x := range d {
		if x.Severity == hcl.DiagError {
			if k := decgen.SummaryKey(x.Summary); best == "" || k < best {
				best = k
			}
		}
	}
	if best == "" {
		return "none"
	}
	return best
}

// labelCountUnambiguous: the configuration differs from a conforming one only in blocks given the wrong
// number of labels, and for each such block the JSON reading is bound to fail as well: with too few labels
// the body's properties are read as labels and their values as block bodies, which fails as soon as one of
// them is a string, number or bool; with too many labels the
// extra label is read as a property of the body, which is an unexpected item (label names are disjoint from
// attribute and block names) unless the body is read in just-attributes mode.
func labelCountUnambiguous(n *decgen.SNode, b *decgen.Body) (wrong int, ok bool) {
	ok = true
	attrS := map[string]bool{}
	blockS := map[string]*decgen.SNode{}
	n.SameBody(func(m *decgen.SNode) {
		switch {
		case m.Kind == decgen.KAttr:
			attrS[m.Name] = true
		case m.IsBlockKind():
			if _, dup := blockS[m.Name]; !dup {
				blockS[m.Name] = m
			}
		}
	})
	for _, it := range b.Items {
		if it.Attr != nil {
			if !attrS[it.Attr.Name] {
				ok = false
			}
			continue
		}
		k := it.Block
		m := blockS[k.Type]
		if m == nil {
			ok = false
			continue
		}
		switch {
		case len(k.Labels) < m.NLabels:
			wrong++
			// (an empty body would do as well, "missing block label", were it not that the encoder may put a
			// `//` property there, which at a label level is a label)
			good := false
			for _, a := range k.Body.Attrs() {
				if a.Val.IsKnown() && !a.Val.IsNull() && a.Val.Type().IsPrimitiveType() {
					good = true
				}
			}
			if !good {
				ok = false
			}
		case len(k.Labels) > m.NLabels:
			wrong++
			if m.Kind == decgen.KBlockAttrs {
				ok = false
			}
		default:
			if m.Kind == decgen.KBlockAttrs {
				if len(k.Body.Blocks()) > 0 {
					ok = false
				}
				continue
			}
			w, o := labelCountUnambiguous(m.Kids[0], k.Body)
			wrong += w
			ok = ok && o
		}
	}
	return
}

// ---------------------------------------------------------------------------------------------
// Structural comparison under a schema.

type walker struct {
	ctx   *hcl.EvalContext
	diffs []string
	errN  bool // some native Content call reported an error
	errJ  bool
	nAttr int
	nBlk  int
}

func (w *walker) diff(path, what string) {
	if len(w.diffs) < 4 {
		w.diffs = append(w.diffs, path+": "+what)
	}
}

func labelsText(ls []string) string { return fmt.Sprintf("%q", ls) }

// compareContent compares what the two syntaxes hand over for one schema, and recurses with next.
func (w *walker) compareContent(path string, nc, jc *hcl.BodyContent, next func(typ string, idx int, nb, jb hcl.Body, path string)) {
	var nn, jn []string
	for k := range nc.Attributes {
		nn = append(nn, k)
	}
	for k := range jc.Attributes {
		jn = append(jn, k)
	}
	sort.Strings(nn)
	sort.Strings(jn)
	if strings.Join(nn, ",") != strings.Join(jn, ",") {
		w.diff(path, "attributes: native ["+strings.Join(nn, ",")+"] json ["+strings.Join(jn, ",")+"]")
	}
	for _, k := range nn {
		ja := jc.Attributes[k]
		if ja == nil {
			continue
		}
		w.nAttr++
		nv, nd := nc.Attributes[k].Expr.Value(w.ctx)
		jv, jd := ja.Expr.Value(w.ctx)
		if nd.HasErrors() != jd.HasErrors() {
			w.diff(path+"."+k, "evaluation error on one side: native "+decgen.DiagText(nd)+" json "+decgen.DiagText(jd))
		} else if lib.DumpValue(nv) != lib.DumpValue(jv) {
			w.diff(path+"."+k, "attribute value: native "+lib.DumpValue(nv)+" json "+lib.DumpValue(jv))
		}
	}
	// blocks: same sequence per type with the same labels (JSON groups blocks by type)
	group := func(bs hcl.Blocks) (map[string]hcl.Blocks, []string) {
		m := map[string]hcl.Blocks{}
		var order []string
		for _, b := range bs {
			if _, ok := m[b.Type]; !ok {
				order = append(order, b.Type)
			}
			m[b.Type] = append(m[b.Type], b)
		}
		sort.Strings(order)
		return m, order
	}
	nm, no := group(nc.Blocks)
	jm, jo := group(jc.Blocks)
	if strings.Join(no, ",") != strings.Join(jo, ",") {
		w.diff(path, "block types present: native ["+strings.Join(no, ",")+"] json ["+strings.Join(jo, ",")+"]")
	}
	for _, t := range no {
		nb, jb := nm[t], jm[t]
		if len(nb) != len(jb) {
			w.diff(path+"/"+t, fmt.Sprintf("number of blocks: native %d json %d", len(nb), len(jb)))
			continue
		}
		for i := range nb {
			w.nBlk++
			if labelsText(nb[i].Labels) != labelsText(jb[i].Labels) {
				w.diff(fmt.Sprintf("%s/%s[%d]", path, t, i), "labels: native "+labelsText(nb[i].Labels)+" json "+labelsText(jb[i].Labels))
				continue
			}
			next(t, i, nb[i].Body, jb[i].Body, fmt.Sprintf("%s/%s[%d]", path, t, i))
		}
	}
}

func (w *walker) compareJustAttrs(path string, nb, jb hcl.Body) {
	na, nd := nb.JustAttributes()
	ja, jd := jb.JustAttributes()
	if nd.HasErrors() {
		w.errN = true
	}
	if jd.HasErrors() {
		w.errJ = true
	}
	w.compareContent(path, &hcl.BodyContent{Attributes: na}, &hcl.BodyContent{Attributes: ja}, nil)
}

// walkSpec compares the two bodies through the schemas implied by the spec, level by level.
func (w *walker) walkSpec(path string, spec hcldec.Spec, nb, jb hcl.Body) {
	schema := hcldec.ImpliedSchema(spec)
	nc, nd := nb.Content(schema)
	jc, jd := jb.Content(schema)
	if nd.HasErrors() {
		w.errN = true
	}
	if jd.HasErrors() {
		w.errJ = true
	}
	kids := hcldec.ChildBlockTypes(spec)
	attrsMode := map[string]bool{}
	var find func(s hcldec.Spec)
	// BlockAttrsSpec children are read in just-attributes mode
	find = func(s hcldec.Spec) {
		switch ts := s.(type) {
		case *hcldec.BlockAttrsSpec:
			attrsMode[ts.TypeName] = true
		case hcldec.ObjectSpec:
			for _, k := range ts {
				find(k)
			}
		case hcldec.TupleSpec:
			for _, k := range ts {
				find(k)
			}
		case *hcldec.DefaultSpec:
			find(ts.Primary)
			find(ts.Default)
		case *hcldec.TransformExprSpec:
			find(ts.Wrapped)
		case *hcldec.TransformFuncSpec:
			find(ts.Wrapped)
		case *hcldec.RefineValueSpec:
			find(ts.Wrapped)
		case *hcldec.ValidateSpec:
			find(ts.Wrapped)
		}
	}
	find(spec)
	w.compareContent(path, nc, jc, func(typ string, idx int, cnb, cjb hcl.Body, p string) {
		if attrsMode[typ] {
			w.compareJustAttrs(p, cnb, cjb)
			return
		}
		if child, ok := kids[typ]; ok {
			w.walkSpec(p, child, cnb, cjb)
		}
	})
}

// randomSchema draws a schema over the names a body uses (plus a few it does not use).
func randomSchema(r *lib.Rand, b *decgen.Body) (*hcl.BodySchema, map[string]bool) {
	s := &hcl.BodySchema{}
	chosen := map[string]bool{}
	for _, a := range b.Attrs() {
		if r.Chance(2, 3) {
			s.Attributes = append(s.Attributes, hcl.AttributeSchema{Name: a.Name, Required: r.Chance(1, 2)})
			chosen[a.Name] = true
		}
	}
	if r.Chance(1, 4) {
		s.Attributes = append(s.Attributes, hcl.AttributeSchema{Name: "absent_attr", Required: r.Chance(1, 2)})
	}
	seen := map[string]bool{}
	for _, k := range b.Blocks() {
		if seen[k.Type] {
			continue
		}
		seen[k.Type] = true
		if r.Chance(2, 3) {
			var names []string
			for i := range k.Labels {
				names = append(names, fmt.Sprintf("n%d", i))
			}
			s.Blocks = append(s.Blocks, hcl.BlockHeaderSchema{Type: k.Type, LabelNames: names})
			chosen[k.Type] = true
		}
	}
	if r.Chance(1, 4) {
		s.Blocks = append(s.Blocks, hcl.BlockHeaderSchema{Type: "absent_block", LabelNames: []string{"n"}[:r.Intn(2)]})
	}
	return s, chosen
}

// restSchema covers what the first schema left.
func restSchema(b *decgen.Body, chosen map[string]bool) *hcl.BodySchema {
	s := &hcl.BodySchema{}
	for _, a := range b.Attrs() {
		if !chosen[a.Name] {
			s.Attributes = append(s.Attributes, hcl.AttributeSchema{Name: a.Name})
		}
	}
	seen := map[string]bool{}
	for _, k := range b.Blocks() {
		if seen[k.Type] || chosen[k.Type] {
			continue
		}
		seen[k.Type] = true
		var names []string
		for i := range k.Labels {
			names = append(names, fmt.Sprintf("n%d", i))
		}
		s.Blocks = append(s.Blocks, hcl.BlockHeaderSchema{Type: k.Type, LabelNames: names})
	}
	return s
}

// walkRandom compares the two bodies under random schemas drawn from the abstract configuration: first
// Content or PartialContent with a random subset, then Content of the remainder with the rest.
func (w *walker) walkRandom(r *lib.Rand, path string, ab *decgen.Body, nb, jb hcl.Body) {
	schema, chosen := randomSchema(r, ab)
	byType := map[string][]*decgen.Block{}
	for _, k := range ab.Blocks() {
		byType[k.Type] = append(byType[k.Type], k)
	}
	next := func(typ string, idx int, cnb, cjb hcl.Body, p string) {
		ks := byType[typ]
		if idx < len(ks) {
			w.walkRandom(r, p, ks[idx].Body, cnb, cjb)
		}
	}
	if r.Chance(1, 2) {
		nc, nd := nb.Content(schema)
		jc, jd := jb.Content(schema)
		if nd.HasErrors() != jd.HasErrors() {
			w.diff(path, "Content: schema violation on one side only: native ["+decgen.DiagText(nd)+"] json ["+decgen.DiagText(jd)+"] schema "+schemaText(schema))
		}
		w.compareContent(path, nc, jc, next)
		return
	}
	nc, nrest, nd := nb.PartialContent(schema)
	jc, jrest, jd := jb.PartialContent(schema)
	if nd.HasErrors() != jd.HasErrors() {
		w.diff(path, "PartialContent: schema violation on one side only: native ["+decgen.DiagText(nd)+"] json ["+decgen.DiagText(jd)+"] schema "+schemaText(schema))
	}
	w.compareContent(path, nc, jc, next)
	rest := restSchema(ab, chosen)
	if r.Chance(1, 3) && len(rest.Attributes) > 0 {
		// leave one more item out: the remainder must then be rejected by both
		rest.Attributes = rest.Attributes[1:]
	}
	nc2, nd2 := nrest.Content(rest)
	jc2, jd2 := jrest.Content(rest)
	if nd2.HasErrors() != jd2.HasErrors() {
		w.diff(path+"(remain)", "Content of the remaining body: schema violation on one side only: native ["+decgen.DiagText(nd2)+"] json ["+decgen.DiagText(jd2)+"] schema "+schemaText(rest))
	}
	w.compareContent(path+"(remain)", nc2, jc2, next)
}

func schemaText(s *hcl.BodySchema) string {
	var parts []string
	for _, a := range s.Attributes {
		p := a.Name
		if a.Required {
			p += "!"
		}
		parts = append(parts, p)
	}
	for _, b := range s.Blocks {
		parts = append(parts, fmt.Sprintf("%s/%d", b.Type, len(b.LabelNames)))
	}
	return "{" + strings.Join(parts, " ") + "}"
}

// ---------------------------------------------------------------------------------------------

func parseBoth(cx *lib.Ctx, c *c03case, native, js string, enc int) (hcl.Body, hcl.Body, bool) {
	nf, nd := hclsyntax.ParseConfig([]byte(native), "case.hcl", hcl.InitialPos)
	if nd.HasErrors() {
		cx.Res.Fail(lib.Failure{Kind: "oracle", Key: "harness:native-text-does-not-parse", Desc: nd.Error(), Input: c.input("parse", enc, native, js)})
		return nil, nil, false
	}
	jf, jd := hcljson.Parse([]byte(js), "case.json")
	if jd.HasErrors() {
		cx.Res.Fail(lib.Failure{Kind: "oracle", Key: "json-encoding-rejected:" + firstError(jd), Desc: "an admissible JSON encoding of the configuration does not parse: " + jd.Error(), Input: c.input("parse", enc, native, js)})
		return nil, nil, false
	}
	return nf.Body, jf.Body, true
}

func (c *c03case) after(den decgen.Denotation) string {
	s := ""
	rud, _ := decgen.Triggers(c.spec)
	if den.Flags["required-attr-under-default"] || rud {
		s = "+after:required-attr-under-default"
	}
	return s
}

func (c *c03case) runAll(cx *lib.Ctx) {
	res := cx.Res
	spec := c.spec.Spec
	amb := decgen.JSONAmbiguous(c.spec, c.body)
	den, _ := decgen.SafeDenote(c.spec, c.body, false)
	wrong, labelOK := labelCountUnambiguous(c.spec, c.body)
	for enc, js := range c.encs {
		nb, jb, ok := parseBoth(cx, c, c.nat, js, enc)
		if !ok {
			continue
		}
		in := func(check string) string { return c.input(check, enc, c.nat, js) }
		switch {
		case !amb:
			// (1) same decoded value, and an error in one is an error in the other
			for _, partial := range []bool{false, true} {
				name := "decode"
				if partial {
					name = "partial-decode"
				}
				no, jo := decode(nb, spec, c.ctx, partial), decode(jb, spec, c.ctx, partial)
				res.Count("check:" + name)
				switch {
				case (no.panicked != nil) != (jo.panicked != nil):
					pk := no.panicked
					if pk == nil {
						pk = jo.panicked
					}
					res.Fail(lib.Failure{Kind: "oracle", Key: name + ":panic-on-one-side:" + decgen.PanicKey(pk), Desc: "decoding panics for one syntax only", Input: in(name), Impl: "native: " + describe(no) + "\njson: " + describe(jo)})
				case no.panicked != nil:
					res.Count("both-panic(recorded C08 defect)")
				case no.diags.HasErrors() != jo.diags.HasErrors():
					side := "native-only:" + firstError(no.diags)
					if jo.diags.HasErrors() {
						side = "json-only:" + firstError(jo.diags)
					}
					res.Fail(lib.Failure{Kind: "oracle", Key: name + ":schema-violation-on-one-side:" + side + c.after(den), Desc: "decoding reports an error for one syntax only", Input: in(name), Impl: "native: " + describe(no) + "\njson: " + describe(jo)})
				case lib.DumpValue(no.val) != lib.DumpValue(jo.val):
					res.Fail(lib.Failure{Kind: "oracle", Key: name + ":value-differs" + errSuffix(no) + c.after(den), Desc: "the decoded values differ between the syntaxes", Input: in(name), Impl: "native: " + describe(no) + "\njson: " + describe(jo)})
				default:
					if no.diags.HasErrors() {
						res.Count("outcome:error-in-both")
					} else {
						res.Count("outcome:same-value")
					}
				}
			}
			// (2) same attributes, same block sequence per type with the same labels, level by level under the
			// schemas the spec implies
			w := &walker{ctx: c.ctx}
			if decgen.Guard(cx, "content-walk", "", in("content-walk"), func() { w.walkSpec("", spec, nb, jb) }) {
				res.Count("check:content-walk")
				if len(w.diffs) > 0 {
					res.Fail(lib.Failure{Kind: "oracle", Key: "content-differs:" + diffClass(w.diffs[0]), Desc: "Content under the spec's implied schemas differs: " + strings.Join(w.diffs, " ;; "), Input: in("content-walk")})
				} else if w.errN != w.errJ {
					res.Fail(lib.Failure{Kind: "oracle", Key: fmt.Sprintf("content:schema-violation-on-one-side:native=%v,json=%v", w.errN, w.errJ) + c.after(den), Desc: "Content under the spec's implied schemas reports a violation for one syntax only", Input: in("content-walk")})
				}
			}
		case wrong > 0 && labelOK:
			// wrong label count (and nothing else): a violation in both
			no, jo := decode(nb, spec, c.ctx, false), decode(jb, spec, c.ctx, false)
			res.Count("check:wrong-label-count")
			if p := firstPanic(no, jo); p != nil && strings.HasPrefix(decgen.PanicKey(p), "inconsistent ") {
				// cty refusing a collection of differently typed elements: the recorded C08 defects (an empty
				// block collection typed differently from a non-empty one), reached on one side only because
				// the two syntaxes legitimately keep different blocks here
				res.Count("wrong-label-count:skipped(recorded C08 panic)")
			} else if (no.panicked != nil) != (jo.panicked != nil) {
				res.Fail(lib.Failure{Kind: "oracle", Key: "wrong-label-count:panic-on-one-side", Desc: "with a block given the wrong number of labels decoding panics for one syntax only", Input: in("wrong-label-count"), Impl: "native: " + describe(no) + "\njson: " + describe(jo)})
			} else if no.panicked == nil && !(no.diags.HasErrors() && jo.diags.HasErrors()) {
				res.Fail(lib.Failure{Kind: "oracle", Key: fmt.Sprintf("wrong-label-count:violation-on-one-side:native=%v,json=%v", no.diags.HasErrors(), jo.diags.HasErrors()), Desc: "a block with the wrong number of labels is a schema violation in one syntax only", Input: in("wrong-label-count"), Impl: "native: " + describe(no) + "\njson: " + describe(jo)})
			}
		default:
			res.Count("skipped:json-reading-depends-on-schema")
			// still: no panic on either side unless on both
			no, jo := decode(nb, spec, c.ctx, false), decode(jb, spec, c.ctx, false)
			_ = no
			_ = jo
		}
	}
	// (3) the conforming configuration under random schemas (subsets, absent names, required flags),
	// Content and PartialContent + Content of the remainder
	for enc, js := range c.encsB {
		nb, jb, ok := parseBoth(cx, c, c.natB, js, enc)
		if !ok {
			continue
		}
		w := &walker{ctx: c.ctx}
		rr := lib.NewRand(c.in.Seed ^ uint64(enc+1)*0x9E3779B9)
		if decgen.Guard(cx, "random-schema-walk", "", c.input("random-schema", enc, c.natB, js), func() { w.walkRandom(rr, "", c.base, nb, jb) }) {
			res.Count("check:random-schema-walk")
			if len(w.diffs) > 0 {
				res.Fail(lib.Failure{Kind: "oracle", Key: "random-schema:" + diffClass(w.diffs[0]), Desc: "Content/PartialContent under a random schema differs: " + strings.Join(w.diffs, " ;; "), Input: c.input("random-schema", enc, c.natB, js)})
			}
		}
	}
}

func firstPanic(a, b outcome) interface{} {
	if a.panicked != nil {
		return a.panicked
	}
	return b.panicked
}

func errSuffix(o outcome) string {
	if o.diags.HasErrors() {
		return ":with-errors"
	}
	return ""
}

// diffClass turns "path: what: details" into a signature.
func diffClass(d string) string {
	i := strings.Index(d, ": ")
	rest := d[i+2:]
	if j := strings.Index(rest, ":"); j > 0 {
		rest = rest[:j]
	}
	return strings.ReplaceAll(rest, " ", "-")
}

func run(cx *lib.Ctx) {
	res := cx.Res
	res.Rule = "one abstract configuration (generated to conform to a random hcldec spec of every kind, perturbed in half of the cases) rendered as native text and as 3 random admissible JSON encodings (object or array-of-objects root body, nested label objects or arrays of them, single block as object or one-element array, several as arrays, duplicate property names, `//` properties, shuffled property order preserving per-type block order, degenerate zero-block properties); strings are literal (nil EvalContext) or templates with escaped introducers (empty EvalContext); compared: Decode/PartialDecode value and error presence, Content level by level under the spec's implied schemas, and Content/PartialContent+remainder under random schemas; configurations whose JSON reading depends on the schema (attribute/block name clashes, wrong label counts, blocks in just-attributes bodies) are only checked for the wrong-label-count error equivalence where that is determined; non-trivial = at least one block; distinct by (spec, configuration, encoding)"
	if cx.Replay != "" {
		var in caseInput
		if err := json.Unmarshal([]byte(lib.ReplayInput(cx.Replay)), &in); err != nil {
			res.Fail(lib.Failure{Kind: "oracle", Key: "harness:bad-replay-input", Desc: err.Error()})
			return
		}
		c := build(cx, in.Seed, in.Depth)
		c.runAll(cx)
		res.Case(c.in.Spec+"|"+decgen.DumpConfig(c.body), true)
		res.Sample(c.in)
		return
	}
	histgen.Run(cx, "C03")
	root := cx.R.Fork()
	n := cx.Scale(14000, 250000)
	for i := 0; i < n; i++ {
		seed := root.U64()
		depth := 2 + int(seed%3)
		c := build(cx, seed, depth)
		c.runAll(cx)
		for _, t := range c.tags {
			res.Count("perturb:" + t)
		}
		if len(c.tags) == 0 {
			res.Count("body:conforming")
		} else {
			res.Count("body:perturbed")
		}
		if c.in.Template {
			res.Count("strings:templates(empty-context)")
		} else {
			res.Count("strings:literal(nil-context)")
		}
		for k, v := range c.used {
			res.Distribution["json:"+k] += v
		}
		for e, js := range c.encs {
			res.Case(fmt.Sprintf("%s|%s|%d|%s", c.in.Spec, decgen.DumpConfig(c.body), e, js), len(c.body.Blocks()) > 0)
		}
		if i < 2 {
			in := c.in
			in.Native, in.JSON = c.nat, strings.Join(c.encs, "\n")
			res.Sample(in)
		}
	}
	corrJBody(cx)
}
