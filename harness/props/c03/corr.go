package c03

import (
	"fmt"
	"sort"
	"strconv"
	"strings"

	"github.com/hashicorp/hcl/v2"
	"github.com/hashicorp/hcl/v2/hclsyntax"
	hcljson "github.com/hashicorp/hcl/v2/json"

	"hx/lib"
)

// corrJBody ties the Lean model of JSON bodies (HclModel/Json/Body.lean) to json/structure.go, three streams:
//
//	(a) `JBODY ops`: an arbitrary JSON value used as a body and a chain of PartialContent / Content /
//	    JustAttributes calls; per call the attributes (which JSON value was taken), the blocks (type, labels,
//	    which JSON value is the body) and the error kinds are compared; the bodies of returned blocks are
//	    explored recursively with further chains.
//	(b) `JBODY val`: expression.Value(nil) of a JSON value vs `jsonValue`.
//	(c) `JBODY layout`: a schema tree and a layout (a way of writing a configuration in JSON); the model renders
//	    the JSON, the harness renders the denoted configuration natively; both real bodies are consumed level
//	    by level with the schema tree and compared with the model's `resolveJ` / `resolveN`; for admissible
//	    layouts under a well-formed schema tree the two real results must be equal (the property itself).
//
// Wire format: see lean/Driver/OpJBody.lean.
func corrJBody(cx *lib.Ctx) {
	if !cx.HasModel() {
		return
	}
	n := cx.Scale(2500, 60000)
	for i := 0; i < n; i++ {
		jbOpsCase(cx, cx.R.Fork())
	}
	n = cx.Scale(3000, 80000)
	for i := 0; i < n; i++ {
		jbValCase(cx, cx.R.Fork())
	}
	n = cx.Scale(2500, 60000)
	for i := 0; i < n; i++ {
		jbLayoutCase(cx, cx.R.Fork())
	}
}

// ---------------------------------------------------------------------------------------------
// JSON values: tree, s-expression, text (with the byte offsets that identify a node in the real tree)

type jv struct {
	k  byte // 'n' null, 'b' bool, 's' string, 'i' number, 'a' array, 'o' object
	b  bool
	s  string
	n  int64
	xs []*jv
	ps []jprop
	// filled by the serialiser: offset of the first byte, and of the closing brace of an object
	start, closeB int
}

type jprop struct {
	name string
	v    *jv
}

func jbHex(s string) string {
	if s == "" {
		return "-"
	}
	return fmt.Sprintf("%x", []byte(s))
}

func (v *jv) sexp(sb *strings.Builder) {
	switch v.k {
	case 'n':
		sb.WriteString("n")
	case 'b':
		if v.b {
			sb.WriteString("t")
		} else {
			sb.WriteString("f")
		}
	case 's':
		sb.WriteString("(s " + jbHex(v.s) + ")")
	case 'i':
		sb.WriteString("(i " + strconv.FormatInt(v.n, 10) + ")")
	case 'a':
		sb.WriteString("(a")
		for _, x := range v.xs {
			sb.WriteString(" ")
			x.sexp(sb)
		}
		sb.WriteString(")")
	case 'o':
		sb.WriteString("(o")
		for _, p := range v.ps {
			sb.WriteString(" (" + jbHex(p.name) + " ")
			p.v.sexp(sb)
			sb.WriteString(")")
		}
		sb.WriteString(")")
	}
}

func (v *jv) String() string {
	if v == nil {
		return "?"
	}
	var sb strings.Builder
	v.sexp(&sb)
	return sb.String()
}

// jsonQuote writes a JSON string literal (the text is valid UTF-8)
func jsonQuote(s string, r *lib.Rand) string {
	var sb strings.Builder
	sb.WriteByte('"')
	for _, c := range s {
		switch {
		case c == '"':
			sb.WriteString(`\"`)
		case c == '\\':
			sb.WriteString(`\\`)
		case c == '\n' && (r == nil || r.Chance(1, 2)):
			sb.WriteString(`\n`)
		case c < 0x20:
			fmt.Fprintf(&sb, `\u%04x`, c)
		case r != nil && c < 0xd800 && r.Chance(1, 24):
			fmt.Fprintf(&sb, `\u%04x`, c)
		default:
			sb.WriteRune(c)
		}
	}
	sb.WriteByte('"')
	return sb.String()
}

type jsonWriter struct {
	sb strings.Builder
	r  *lib.Rand // nil: compact
	// the real tree hands out ranges, not nodes: a node is identified by where it starts (the value of an
	// attribute: Expr.Range) or by its "missing item range" (a body: closing brace of an object, opening
	// bracket of an array, start of anything else)
	byStart   map[int]*jv
	byMissing map[int]*jv
}

func newJSONWriter(r *lib.Rand) *jsonWriter {
	return &jsonWriter{r: r, byStart: map[int]*jv{}, byMissing: map[int]*jv{}}
}

func (w *jsonWriter) ws() {
	if w.r == nil {
		return
	}
	switch w.r.Intn(8) {
	case 0:
		w.sb.WriteString(" ")
	case 1:
		w.sb.WriteString("\n  ")
	case 2:
		w.sb.WriteString("\t")
	}
}

func (w *jsonWriter) value(v *jv) {
	v.start = w.sb.Len()
	w.byStart[v.start] = v
	switch v.k {
	case 'n':
		w.sb.WriteString("null")
	case 'b':
		if v.b {
			w.sb.WriteString("true")
		} else {
			w.sb.WriteString("false")
		}
	case 's':
		w.sb.WriteString(jsonQuote(v.s, w.r))
	case 'i':
		w.sb.WriteString(strconv.FormatInt(v.n, 10))
	case 'a':
		w.sb.WriteString("[")
		for i, x := range v.xs {
			if i > 0 {
				w.sb.WriteString(",")
			}
			w.ws()
			w.value(x)
			w.ws()
		}
		if len(v.xs) == 0 {
			w.ws()
		}
		w.sb.WriteString("]")
	case 'o':
		w.sb.WriteString("{")
		for i, p := range v.ps {
			if i > 0 {
				w.sb.WriteString(",")
			}
			w.ws()
			w.sb.WriteString(jsonQuote(p.name, w.r))
			w.ws()
			w.sb.WriteString(":")
			w.ws()
			w.value(p.v)
			w.ws()
		}
		if len(v.ps) == 0 {
			w.ws()
		}
		v.closeB = w.sb.Len()
		w.sb.WriteString("}")
	}
	switch v.k {
	case 'o':
		w.byMissing[v.closeB] = v
	default:
		w.byMissing[v.start] = v
	}
}

// ---------------------------------------------------------------------------------------------
// generators

var jbNames = []string{"a", "b", "c", "blk", "svc", "x", "//", "", "é"}
var jbStrings = []string{"", "v", "w w", "é", "q\"q", "b\\s", "l1\nl2", "$x", "100%", "//", "a"}

func jbScalar(r *lib.Rand) *jv {
	switch r.Intn(5) {
	case 0:
		return &jv{k: 'n'}
	case 1:
		return &jv{k: 'b', b: r.Chance(1, 2)}
	case 2:
		return &jv{k: 's', s: r.Pick(jbStrings)}
	case 3:
		return &jv{k: 'i', n: int64(r.Intn(7)) - 2}
	default:
		return &jv{k: 'i', n: int64(r.U64()>>12) - (1 << 50)}
	}
}

// jbValue: any JSON value; objects draw their property names (duplicates included) from names
func jbValue(r *lib.Rand, depth int, names []string) *jv {
	if depth <= 0 {
		return jbScalar(r)
	}
	switch x := r.Intn(20); {
	case x < 10:
		v := &jv{k: 'o'}
		for k := r.Intn(5); k > 0; k-- {
			v.ps = append(v.ps, jprop{r.Pick(names), jbValue(r, depth-1, names)})
		}
		return v
	case x < 14:
		v := &jv{k: 'a'}
		for k := r.Intn(4); k > 0; k-- {
			v.xs = append(v.xs, jbValue(r, depth-1, names))
		}
		return v
	default:
		return jbScalar(r)
	}
}

type jbSchema struct {
	attrs  []hcl.AttributeSchema
	blocks []hcl.BlockHeaderSchema
}

var jbLabelNames = []string{"n0", "n1", "n2"}

func (s *jbSchema) hcl() *hcl.BodySchema {
	return &hcl.BodySchema{Attributes: s.attrs, Blocks: s.blocks}
}

func (s *jbSchema) sexp(head string) string {
	var sb strings.Builder
	sb.WriteString("(" + head + " (")
	for i, a := range s.attrs {
		if i > 0 {
			sb.WriteString(" ")
		}
		req := "0"
		if a.Required {
			req = "1"
		}
		sb.WriteString("(" + jbHex(a.Name) + " " + req + ")")
	}
	sb.WriteString(") (")
	for i, b := range s.blocks {
		if i > 0 {
			sb.WriteString(" ")
		}
		fmt.Fprintf(&sb, "(%s %d)", jbHex(b.Type), len(b.LabelNames))
	}
	sb.WriteString("))")
	return sb.String()
}

func jbRandSchema(r *lib.Rand) *jbSchema {
	s := &jbSchema{}
	for k := r.Intn(4); k > 0; k-- {
		s.attrs = append(s.attrs, hcl.AttributeSchema{Name: r.Pick(jbNames), Required: r.Chance(1, 3)})
	}
	for k := r.Intn(4); k > 0; k-- {
		s.blocks = append(s.blocks, hcl.BlockHeaderSchema{Type: r.Pick(jbNames), LabelNames: jbLabelNames[:r.Weighted([]int{5, 4, 2})]})
	}
	return s
}

// ---------------------------------------------------------------------------------------------
// stream (a)

func jbErrKinds(ds hcl.Diagnostics) string {
	var es []string
	it := false
	quoted := func(detail, prefix string) string {
		rest := strings.TrimPrefix(detail, prefix)
		if q, err := strconv.QuotedPrefix(rest); err == nil {
			if u, err := strconv.Unquote(q); err == nil {
				return jbHex(u)
			}
		}
		return "?" + detail
	}
	for _, d := range ds {
		if d.Severity != hcl.DiagError {
			es = append(es, "warning:"+strings.ReplaceAll(d.Summary, " ", "_"))
			continue
		}
		switch d.Summary {
		case "Incorrect JSON value type":
			it = true
		case "Missing block label":
			rest := strings.TrimPrefix(d.Detail, "At least one object property is required, whose name represents the ")
			if i := strings.LastIndex(rest, " block's "); i >= 0 {
				es = append(es, "ml."+jbHex(rest[:i]))
			} else {
				es = append(es, "ml.?"+d.Detail)
			}
		case "Duplicate argument":
			es = append(es, "da."+quoted(d.Detail, "The argument "))
		case "Missing required argument":
			es = append(es, "mr."+quoted(d.Detail, "The argument "))
		case "Extraneous JSON object property":
			es = append(es, "ex."+quoted(d.Detail, "No argument or block type is named "))
		default:
			es = append(es, "other:"+strings.ReplaceAll(d.Summary, " ", "_"))
		}
	}
	if it {
		es = append(es, "it")
	}
	sort.Strings(es)
	return dashJ(strings.Join(es, ","))
}

func dashJ(s string) string {
	if s == "" {
		return "-"
	}
	return s
}

func jbShowAttrs(w *jsonWriter, attrs hcl.Attributes) string {
	names := make([]string, 0, len(attrs))
	for k := range attrs {
		names = append(names, k)
	}
	sort.Strings(names)
	var sb strings.Builder
	for _, k := range names {
		a := attrs[k]
		node := w.byStart[a.Expr.Range().Start.Byte]
		nm := jbHex(a.Name)
		if a.Name != k {
			nm = "map-key-differs:" + jbHex(k) + "/" + nm
		}
		sb.WriteString("(" + nm + " " + node.String() + ")")
	}
	return dashJ(sb.String())
}

func jbShowBlocks(w *jsonWriter, blocks hcl.Blocks) string {
	var sb strings.Builder
	for _, b := range blocks {
		var ls []string
		for _, l := range b.Labels {
			ls = append(ls, jbHex(l))
		}
		node := w.byMissing[b.Body.MissingItemRange().Start.Byte]
		sb.WriteString("(" + jbHex(b.Type) + " (" + strings.Join(ls, " ") + ") " + node.String() + ")")
	}
	return dashJ(sb.String())
}

func jbOpsCase(cx *lib.Ctx, r *lib.Rand) {
	v := jbValue(r, 4, jbNames)
	if v.k != 'o' && v.k != 'a' && r.Chance(3, 4) {
		// mostly something body-like at the top
		v = &jv{k: 'o', ps: []jprop{{r.Pick(jbNames), v}, {r.Pick(jbNames), jbValue(r, 3, jbNames)}}}
	}
	var wr *lib.Rand
	if r.Chance(2, 3) {
		wr = r
	}
	w := newJSONWriter(wr)
	direct := (v.k == 'o' || v.k == 'a') && r.Chance(2, 3)
	if direct {
		w.value(v)
	} else {
		// any value at all as a body: the single element of the array under a block type without labels
		w.value(&jv{k: 'o', ps: []jprop{{"w", &jv{k: 'a', xs: []*jv{v}}}}})
	}
	src := w.sb.String()
	var body hcl.Body
	ok := cx.Guard("jbody-parse", src, func() {
		f, diags := hcljson.Parse([]byte(src), "c.json")
		if diags.HasErrors() {
			cx.Res.Fail(lib.Failure{Kind: "corr", Key: "JBODY:unparseable", Desc: diags.Error(), Input: src})
			return
		}
		body = f.Body
		if !direct {
			c, ds := body.Content(&hcl.BodySchema{Blocks: []hcl.BlockHeaderSchema{{Type: "w"}}})
			if ds.HasErrors() || len(c.Blocks) != 1 {
				cx.Res.Fail(lib.Failure{Kind: "corr", Key: "JBODY:wrapper", Desc: "the wrapper block was not returned: " + ds.Error(), Input: src})
				body = nil
				return
			}
			body = c.Blocks[0].Body
		}
	})
	if !ok || body == nil {
		return
	}
	if direct {
		cx.Res.Count("corr-jbody:ops:top-level-body")
	} else {
		cx.Res.Count("corr-jbody:ops:wrapped-body")
	}
	jbChain(cx, r, w, src, body, v, 3)
}

// jbChain runs one chain of operations on a real body whose JSON value is v, compares with the model, and goes
// on with the bodies of some of the blocks that were returned.
func jbChain(cx *lib.Ctx, r *lib.Rand, w *jsonWriter, src string, body hcl.Body, v *jv, depth int) {
	line := "JBODY ops " + v.String()
	cx.Res.Count("corr-jbody:ops:body-kind:" + string(v.k))
	var outs []string
	var got hcl.Blocks
	nops := 1 + r.Intn(4)
	ok := cx.Guard("jbody-ops", src, func() {
		for k := 0; k < nops; k++ {
			switch x := r.Intn(10); {
			case x == 0:
				line += " J"
				attrs, ds := body.JustAttributes()
				f := "ok"
				if ds.HasErrors() {
					f = "err"
				}
				cx.Res.Count("corr-jbody:ops:op:J:" + f)
				outs = append(outs, "A="+jbShowAttrs(w, attrs)+";F="+f)
			default:
				s := jbRandSchema(r)
				kind := "P"
				if x <= 3 {
					kind = "C"
				}
				line += " (" + kind + " " + s.sexp("S") + ")"
				var c *hcl.BodyContent
				var ds hcl.Diagnostics
				if kind == "P" {
					var remain hcl.Body
					c, remain, ds = body.PartialContent(s.hcl())
					body = remain
				} else {
					c, ds = body.Content(s.hcl())
				}
				got = append(got, c.Blocks...)
				es := jbErrKinds(ds)
				cx.Res.Count("corr-jbody:ops:op:" + kind)
				if len(c.Blocks) > 0 {
					cx.Res.Count("corr-jbody:ops:op-returning-blocks")
				}
				if len(c.Attributes) > 0 {
					cx.Res.Count("corr-jbody:ops:op-returning-attributes")
				}
				for _, e := range strings.Split(es, ",") {
					if i := strings.Index(e, "."); i > 0 {
						e = e[:i]
					}
					cx.Res.Count("corr-jbody:ops:error:" + e)
				}
				outs = append(outs, "A="+jbShowAttrs(w, c.Attributes)+";B="+jbShowBlocks(w, c.Blocks)+";E="+es)
			}
		}
	})
	if !ok {
		return
	}
	impl := strings.Join(outs, " | ")
	model := cx.Ask(line)
	cx.Res.CorrChecked++
	cx.Res.Count("corr-jbody:ops:compared")
	if model != impl {
		cx.Res.Fail(lib.Failure{Kind: "corr", Key: "JBODY", Desc: "schema processing of a JSON body differs from the model (ops)\n" + src, Input: line, Model: model, Impl: impl})
		return
	}
	if depth <= 0 {
		return
	}
	for k := 0; k < 2 && len(got) > 0; k++ {
		b := got[r.Intn(len(got))]
		node := w.byMissing[b.Body.MissingItemRange().Start.Byte]
		if node == nil {
			continue // (already reported as a difference: the dump shows "?")
		}
		cx.Res.Count("corr-jbody:ops:nested-body")
		jbChain(cx, r, w, src, b.Body, node, depth-1)
	}
}

// ---------------------------------------------------------------------------------------------
// stream (b)

func jbValCase(cx *lib.Ctx, r *lib.Rand) {
	names := []string{"k", "l", "m", "", "//", "é é"}
	v := jbValue(r, 1+r.Intn(4), names)
	w := newJSONWriter(r)
	w.value(&jv{k: 'o', ps: []jprop{{"a", v}}})
	src := w.sb.String()
	line := "JBODY val " + v.String()
	impl := ""
	ok := cx.Guard("jbody-val", src, func() {
		f, diags := hcljson.Parse([]byte(src), "c.json")
		if diags.HasErrors() {
			cx.Res.Fail(lib.Failure{Kind: "corr", Key: "JBODY:unparseable", Desc: diags.Error(), Input: src})
			return
		}
		attrs, ds := f.Body.JustAttributes()
		if ds.HasErrors() || attrs["a"] == nil {
			cx.Res.Fail(lib.Failure{Kind: "corr", Key: "JBODY:wrapper", Desc: "the wrapper attribute was not returned: " + ds.Error(), Input: src})
			return
		}
		val, vd := attrs["a"].Expr.Value(nil)
		impl = lib.DumpValue(val)
		if vd.HasErrors() {
			impl += " err"
		} else {
			impl += " ok"
		}
	})
	if !ok || impl == "" {
		return
	}
	model := cx.Ask(line)
	cx.Res.CorrChecked++
	cx.Res.Count("corr-jbody:val:compared")
	cx.Res.Count("corr-jbody:val:kind:" + string(v.k))
	if strings.HasSuffix(impl, " err") {
		cx.Res.Count("corr-jbody:val:duplicate-key-error")
	}
	if model != impl {
		cx.Res.Fail(lib.Failure{Kind: "corr", Key: "JBODY", Desc: "the value of a JSON expression differs from the model (val)\n" + src, Input: line, Model: model, Impl: impl})
	}
}

// ---------------------------------------------------------------------------------------------
// stream (c): schema trees and layouts

type jbTree struct {
	attrs  []hcl.AttributeSchema
	blocks []jbTreeBlock
}

type jbTreeBlock struct {
	typ     string
	nlabels int
	sub     *jbTree
}

func (t *jbTree) schema() *hcl.BodySchema {
	s := &hcl.BodySchema{Attributes: t.attrs}
	for _, b := range t.blocks {
		s.Blocks = append(s.Blocks, hcl.BlockHeaderSchema{Type: b.typ, LabelNames: jbLabelNames[:b.nlabels]})
	}
	return s
}

func (t *jbTree) child(typ string) *jbTree {
	for _, b := range t.blocks {
		if b.typ == typ {
			return b.sub
		}
	}
	return nil
}

func (t *jbTree) sexp(sb *strings.Builder) {
	sb.WriteString("(T (")
	for i, a := range t.attrs {
		if i > 0 {
			sb.WriteString(" ")
		}
		req := "0"
		if a.Required {
			req = "1"
		}
		sb.WriteString("(" + jbHex(a.Name) + " " + req + ")")
	}
	sb.WriteString(") (")
	for i, b := range t.blocks {
		if i > 0 {
			sb.WriteString(" ")
		}
		fmt.Fprintf(sb, "(%s %d ", jbHex(b.typ), b.nlabels)
		b.sub.sexp(sb)
		sb.WriteString(")")
	}
	sb.WriteString("))")
}

type bodyL struct {
	arr   bool
	props []*propL   // !arr
	parts [][]*propL // arr
}

type propL struct {
	kind byte // 'c' comment, 'a' attribute, 'b' blocks
	name string
	v    *jv
	u    *underL
}

type underL struct {
	kind   string // none one many lo la
	props  []*propL
	bodies []*bodyL
	part   []labelL
	parts  [][]labelL
}

type labelL struct {
	k string
	u *underL
}

func propsSexp(sb *strings.Builder, ps []*propL) {
	for _, p := range ps {
		sb.WriteString(" ")
		switch p.kind {
		case 'c':
			sb.WriteString("(c " + p.v.String() + ")")
		case 'a':
			sb.WriteString("(at " + jbHex(p.name) + " " + p.v.String() + ")")
		case 'b':
			sb.WriteString("(b " + jbHex(p.name) + " ")
			p.u.sexp(sb)
			sb.WriteString(")")
		}
	}
}

func (b *bodyL) sexp(sb *strings.Builder) {
	if !b.arr {
		sb.WriteString("(obj")
		propsSexp(sb, b.props)
		sb.WriteString(")")
		return
	}
	sb.WriteString("(arr")
	for _, p := range b.parts {
		sb.WriteString(" (")
		var in strings.Builder
		propsSexp(&in, p)
		sb.WriteString(strings.TrimPrefix(in.String(), " "))
		sb.WriteString(")")
	}
	sb.WriteString(")")
}

func labelsSexp(sb *strings.Builder, ls []labelL) {
	for _, l := range ls {
		sb.WriteString(" (" + jbHex(l.k) + " ")
		l.u.sexp(sb)
		sb.WriteString(")")
	}
}

func (u *underL) sexp(sb *strings.Builder) {
	switch u.kind {
	case "none":
		sb.WriteString("none")
	case "one":
		sb.WriteString("(one")
		propsSexp(sb, u.props)
		sb.WriteString(")")
	case "many":
		sb.WriteString("(many")
		for _, b := range u.bodies {
			sb.WriteString(" ")
			b.sexp(sb)
		}
		sb.WriteString(")")
	case "lo":
		sb.WriteString("(lo")
		labelsSexp(sb, u.part)
		sb.WriteString(")")
	case "la":
		sb.WriteString("(la")
		for _, p := range u.parts {
			sb.WriteString(" (")
			var in strings.Builder
			labelsSexp(&in, p)
			sb.WriteString(strings.TrimPrefix(in.String(), " "))
			sb.WriteString(")")
		}
		sb.WriteString(")")
	}
}

// the configuration a layout denotes (the harness's own reading of the layout, for the native text)
type cfgL struct {
	attrs  []jprop
	blocks []*cblockL
}

type cblockL struct {
	typ    string
	labels []string
	body   *cfgL
}

func denoteProps(ps []*propL, c *cfgL) {
	for _, p := range ps {
		switch p.kind {
		case 'a':
			c.attrs = append(c.attrs, jprop{p.name, p.v})
		case 'b':
			denoteUnder(p.name, nil, p.u, c)
		}
	}
}

func denoteBodyL(b *bodyL) *cfgL {
	c := &cfgL{}
	if !b.arr {
		denoteProps(b.props, c)
	} else {
		for _, p := range b.parts {
			denoteProps(p, c)
		}
	}
	return c
}

func denoteUnder(typ string, labels []string, u *underL, c *cfgL) {
	lab := func(k string) []string { return append(append([]string{}, labels...), k) }
	switch u.kind {
	case "one":
		body := &cfgL{}
		denoteProps(u.props, body)
		c.blocks = append(c.blocks, &cblockL{typ, labels, body})
	case "many":
		for _, b := range u.bodies {
			c.blocks = append(c.blocks, &cblockL{typ, labels, denoteBodyL(b)})
		}
	case "lo":
		for _, l := range u.part {
			denoteUnder(typ, lab(l.k), l.u, c)
		}
	case "la":
		for _, p := range u.parts {
			for _, l := range p {
				denoteUnder(typ, lab(l.k), l.u, c)
			}
		}
	}
}

func nativeQuote(s string) string {
	var sb strings.Builder
	sb.WriteByte('"')
	for _, c := range s {
		switch c {
		case '"':
			sb.WriteString(`\"`)
		case '\\':
			sb.WriteString(`\\`)
		case '\n':
			sb.WriteString(`\n`)
		case '\t':
			sb.WriteString(`\t`)
		default:
			sb.WriteRune(c)
		}
	}
	sb.WriteByte('"')
	return sb.String()
}

func nativeValue(sb *strings.Builder, v *jv) {
	switch v.k {
	case 'n':
		sb.WriteString("null")
	case 'b':
		sb.WriteString(strconv.FormatBool(v.b))
	case 's':
		sb.WriteString(nativeQuote(v.s))
	case 'i':
		sb.WriteString(strconv.FormatInt(v.n, 10))
	case 'a':
		sb.WriteString("[")
		for i, x := range v.xs {
			if i > 0 {
				sb.WriteString(", ")
			}
			nativeValue(sb, x)
		}
		sb.WriteString("]")
	case 'o':
		sb.WriteString("{")
		for i, p := range v.ps {
			if i > 0 {
				sb.WriteString(", ")
			}
			sb.WriteString(nativeQuote(p.name) + " = ")
			nativeValue(sb, p.v)
		}
		sb.WriteString("}")
	}
}

// nativeCfg writes the configuration in the native syntax; false when it cannot be written there (a name that
// is not an identifier, an argument defined twice in one body)
func nativeCfg(sb *strings.Builder, c *cfgL, indent string) bool {
	seen := map[string]bool{}
	for _, a := range c.attrs {
		if !hclsyntax.ValidIdentifier(a.name) || seen[a.name] {
			return false
		}
		seen[a.name] = true
		sb.WriteString(indent + a.name + " = ")
		nativeValue(sb, a.v)
		sb.WriteString("\n")
	}
	for _, b := range c.blocks {
		if !hclsyntax.ValidIdentifier(b.typ) {
			return false
		}
		sb.WriteString(indent + b.typ)
		for _, l := range b.labels {
			sb.WriteString(" " + nativeQuote(l))
		}
		sb.WriteString(" {\n")
		if !nativeCfg(sb, b.body, indent+"  ") {
			return false
		}
		sb.WriteString(indent + "}\n")
	}
	return true
}

type layoutGen struct {
	r       *lib.Rand
	spoil   bool     // this case places inadmissible things
	quiet   int      // >0: under a block type the schema does not know (never looked into: nothing is placed there)
	spoiled []string // what was placed
}

var jbAttrNames = []string{"a", "b", "c", "d"}
var jbBlockTypes = []string{"blk", "svc", "x"}
var jbLabels = []string{"l", "m", "n", "a", "blk", "//", "", "two words", "q\"q"}
var jbValueKeys = []string{"k", "l", "m", "n", "o", "p", "", "//", "two words"}

func (g *layoutGen) tree(depth int) *jbTree {
	r := g.r
	t := &jbTree{}
	for _, a := range jbAttrNames {
		if r.Chance(1, 2) {
			t.attrs = append(t.attrs, hcl.AttributeSchema{Name: a, Required: r.Chance(1, 4)})
		}
	}
	if depth > 0 {
		for _, b := range jbBlockTypes {
			if r.Chance(1, 2) {
				t.blocks = append(t.blocks, jbTreeBlock{b, r.Weighted([]int{4, 4, 2}), g.tree(depth - 1)})
			}
		}
	}
	r2 := r.Fork()
	if r2.Chance(1, 25) {
		// not well-formed: a name twice, or `//`
		switch r2.Intn(4) {
		case 0:
			if len(t.attrs) > 0 {
				t.attrs = append(t.attrs, hcl.AttributeSchema{Name: t.attrs[0].Name, Required: r2.Chance(1, 2)})
			}
		case 1:
			if len(t.blocks) > 0 {
				t.blocks = append(t.blocks, jbTreeBlock{t.blocks[0].typ, r2.Intn(3), g.tree(0)})
			}
		case 2:
			t.attrs = append(t.attrs, hcl.AttributeSchema{Name: "//"})
		case 3:
			t.blocks = append(t.blocks, jbTreeBlock{"//", r2.Intn(2), g.tree(0)})
		}
	}
	return t
}

// value: an argument value whose objects define every key once (unless spoiling)
func (g *layoutGen) value(depth int) *jv {
	r := g.r
	if depth <= 0 {
		return jbScalar(r)
	}
	switch x := r.Intn(10); {
	case x < 2:
		v := &jv{k: 'o'}
		keys := append([]string{}, jbValueKeys...)
		for k := r.Intn(4); k > 0; k-- {
			i := r.Intn(len(keys))
			v.ps = append(v.ps, jprop{keys[i], g.value(depth - 1)})
			if g.spoil && g.quiet == 0 && r.Chance(1, 6) {
				g.spoiled = append(g.spoiled, "value-key-twice")
				v.ps = append(v.ps, jprop{keys[i], g.value(depth - 1)})
			}
			keys = append(keys[:i], keys[i+1:]...)
		}
		return v
	case x < 4:
		v := &jv{k: 'a'}
		for k := r.Intn(4); k > 0; k-- {
			v.xs = append(v.xs, g.value(depth-1))
		}
		return v
	default:
		return jbScalar(r)
	}
}

func (g *layoutGen) props(t *jbTree, depth int) []*propL {
	r := g.r
	var ps []*propL
	seen := map[string]bool{}
	for _, a := range t.attrs {
		if r.Chance(2, 3) {
			if a.Name == "//" || seen[a.Name] {
				g.spoiled = append(g.spoiled, "schema-not-wf")
			}
			seen[a.Name] = true
			ps = append(ps, &propL{kind: 'a', name: a.Name, v: g.value(2)})
		}
	}
	// a block type of the schema tree may be used by several properties
	seenB := map[string]bool{}
	for _, b := range t.blocks {
		if b.typ == "//" || seenB[b.typ] {
			g.spoiled = append(g.spoiled, "schema-not-wf")
		}
		seenB[b.typ] = true
		for k := r.Weighted([]int{2, 5, 2}); k > 0; k-- {
			ps = append(ps, &propL{kind: 'b', name: b.typ, u: g.under(t.child(b.typ), b.nlabels, depth-1)})
		}
	}
	for k := r.Weighted([]int{6, 2, 1}); k > 0; k-- {
		ps = append(ps, &propL{kind: 'c', v: jbValue(r, 2, jbNames)})
	}
	if r.Chance(1, 8) {
		// names the schema does not know: admissible, ignored by both (with an error)
		if r.Chance(1, 2) {
			ps = append(ps, &propL{kind: 'a', name: "unk", v: g.value(1)})
		} else {
			g.quiet++
			ps = append(ps, &propL{kind: 'b', name: "unkb", u: g.under(&jbTree{}, r.Intn(2), 0)})
			g.quiet--
		}
	}
	if g.spoil && g.quiet == 0 && r.Chance(1, 3) {
		switch r.Intn(5) {
		case 0:
			if len(t.blocks) > 0 {
				g.spoiled = append(g.spoiled, "argument-named-like-block-type")
				ps = append(ps, &propL{kind: 'a', name: t.blocks[r.Intn(len(t.blocks))].typ, v: jbValue(r, 3, jbNames)})
			}
		case 1:
			if len(t.attrs) > 0 {
				g.spoiled = append(g.spoiled, "block-type-named-like-argument")
				ps = append(ps, &propL{kind: 'b', name: t.attrs[r.Intn(len(t.attrs))].Name, u: g.under(&jbTree{}, r.Intn(2), 0)})
			}
		case 2:
			g.spoiled = append(g.spoiled, "argument-named-//")
			ps = append(ps, &propL{kind: 'a', name: "//", v: g.value(1)})
		case 3:
			g.spoiled = append(g.spoiled, "block-type-named-//")
			ps = append(ps, &propL{kind: 'b', name: "//", u: g.under(&jbTree{}, r.Intn(2), 0)})
		case 4:
			if len(t.attrs) > 0 {
				g.spoiled = append(g.spoiled, "argument-twice")
				ps = append(ps, &propL{kind: 'a', name: t.attrs[r.Intn(len(t.attrs))].Name, v: g.value(1)})
			}
		}
	}
	// any order
	for i := len(ps) - 1; i > 0; i-- {
		j := r.Intn(i + 1)
		ps[i], ps[j] = ps[j], ps[i]
	}
	return ps
}

func (g *layoutGen) body(t *jbTree, depth int) *bodyL {
	r := g.r
	ps := g.props(t, depth)
	if r.Chance(2, 3) {
		return &bodyL{props: ps}
	}
	b := &bodyL{arr: true}
	for len(ps) > 0 || r.Chance(1, 4) {
		k := r.Intn(len(ps) + 1)
		b.parts = append(b.parts, ps[:k])
		ps = ps[k:]
		if len(b.parts) > 6 {
			b.parts = append(b.parts, ps)
			break
		}
	}
	return b
}

func (g *layoutGen) under(t *jbTree, nlabels, depth int) *underL {
	r := g.r
	if t == nil {
		t = &jbTree{}
	}
	if g.spoil && g.quiet == 0 && r.Chance(1, 10) {
		g.spoiled = append(g.spoiled, "label-levels")
		if r.Chance(1, 2) {
			nlabels++
		} else if nlabels > 0 {
			nlabels--
		}
	}
	if depth < -3 {
		return &underL{kind: "none"}
	}
	if nlabels == 0 {
		switch x := r.Intn(10); {
		case x == 0:
			return &underL{kind: "none"}
		case x < 6:
			return &underL{kind: "one", props: g.props(t, depth)}
		default:
			u := &underL{kind: "many"}
			for k := r.Weighted([]int{1, 3, 3, 1}); k > 0; k-- {
				u.bodies = append(u.bodies, g.body(t, depth))
			}
			return u
		}
	}
	labels := func() []labelL {
		var ls []labelL
		for k := r.Weighted([]int{1, 4, 3, 1}); k > 0; k-- {
			ls = append(ls, labelL{r.Pick(jbLabels), g.under(t, nlabels-1, depth)})
		}
		return ls
	}
	switch x := r.Intn(10); {
	case x == 0:
		return &underL{kind: "none"}
	case x < 7:
		return &underL{kind: "lo", part: labels()}
	default:
		u := &underL{kind: "la"}
		for k := r.Weighted([]int{1, 3, 3}); k > 0; k-- {
			u.parts = append(u.parts, labels())
		}
		return u
	}
}

// jbResolve: the level-by-level consumer (the model's resolveJ / resolveN) on a real body
func jbResolve(t *jbTree, b hcl.Body, errs *int) string {
	content, ds := b.Content(t.schema())
	if ds.HasErrors() {
		*errs++
	}
	var sb strings.Builder
	sb.WriteString("(R (")
	for i, as := range t.attrs {
		if i > 0 {
			sb.WriteString(" ")
		}
		sb.WriteString("(" + jbHex(as.Name) + " ")
		if a := content.Attributes[as.Name]; a == nil {
			sb.WriteString("-")
		} else {
			v, vd := a.Expr.Value(nil)
			st := " ok"
			if vd.HasErrors() {
				st = " err"
			}
			sb.WriteString("(" + lib.DumpValue(v) + st + ")")
		}
		sb.WriteString(")")
	}
	sb.WriteString(") (")
	for i, bs := range t.blocks {
		if i > 0 {
			sb.WriteString(" ")
		}
		sb.WriteString("(" + jbHex(bs.typ))
		for _, blk := range content.Blocks {
			if blk.Type != bs.typ {
				continue
			}
			var ls []string
			for _, l := range blk.Labels {
				ls = append(ls, jbHex(l))
			}
			sb.WriteString(" ((" + strings.Join(ls, " ") + ") " + jbResolve(t.child(blk.Type), blk.Body, errs) + ")")
		}
		sb.WriteString(")")
	}
	sb.WriteString("))")
	return sb.String()
}

func jbLayoutCase(cx *lib.Ctx, r *lib.Rand) {
	g := &layoutGen{r: r, spoil: r.Chance(1, 4)}
	t := g.tree(1 + r.Intn(3))
	l := g.body(t, 3)
	var sb strings.Builder
	sb.WriteString("JBODY layout ")
	t.sexp(&sb)
	sb.WriteString(" ")
	l.sexp(&sb)
	line := sb.String()
	model := cx.Ask(line)
	parts := strings.Split(model, " | ")
	if len(parts) != 4 {
		cx.Res.Fail(lib.Failure{Kind: "corr", Key: "JBODY:bad-answer", Desc: "model answered " + lib.Trunc(model, 200), Input: line})
		return
	}
	flags, rendered, modelJ, modelN := parts[0], parts[1], parts[2], parts[3]
	adm := strings.Contains(flags, "adm=true")
	wf := strings.Contains(flags, "wf=true")
	cx.Res.Count("corr-jbody:layout:" + strings.ReplaceAll(flags, " ", ","))
	if !adm && len(g.spoiled) == 0 {
		cx.Res.Fail(lib.Failure{Kind: "corr", Key: "JBODY:layout-generator", Desc: "a layout generated as admissible is not admissible according to the model", Input: line, Model: flags})
	}
	for _, s := range g.spoiled {
		cx.Res.Count("corr-jbody:layout:spoiled:" + s)
	}
	sx, err := parseSexps(rendered)
	var rv *jv
	if err == nil && len(sx) == 1 {
		rv = jvOfSexp(sx[0])
	}
	if rv == nil {
		cx.Res.Fail(lib.Failure{Kind: "corr", Key: "JBODY:bad-answer", Desc: "cannot read the rendered JSON value: " + lib.Trunc(rendered, 200), Input: line})
		return
	}
	var wr *lib.Rand
	if r.Chance(1, 2) {
		wr = r
	}
	w := newJSONWriter(wr)
	w.value(rv)
	jsrc := w.sb.String()
	cx.Res.Count("corr-jbody:layout:root:" + map[bool]string{false: "object", true: "array"}[l.arr])

	implJ, implN := "", ""
	errsJ, errsN := 0, 0
	ok := cx.Guard("jbody-layout-json", jsrc, func() {
		f, diags := hcljson.Parse([]byte(jsrc), "c.json")
		if diags.HasErrors() {
			cx.Res.Fail(lib.Failure{Kind: "corr", Key: "JBODY:unparseable", Desc: diags.Error(), Input: jsrc})
			return
		}
		implJ = jbResolve(t, f.Body, &errsJ)
	})
	if !ok || implJ == "" {
		return
	}
	cx.Res.CorrChecked++
	cx.Res.Count("corr-jbody:layout:compared-json")
	if strings.Contains(implJ, ") (R ") {
		cx.Res.Count("corr-jbody:layout:with-blocks")
	}
	if errsJ > 0 {
		cx.Res.Count("corr-jbody:layout:json-content-errors")
	}
	if implJ != modelJ {
		cx.Res.Fail(lib.Failure{Kind: "corr", Key: "JBODY", Desc: "consuming the rendered JSON body level by level differs from the model's resolveJ (layout)\n" + jsrc, Input: line, Model: modelJ, Impl: implJ})
	}

	var nb strings.Builder
	if !nativeCfg(&nb, denoteBodyL(l), "") {
		cx.Res.Count("corr-jbody:layout:not-writable-natively")
		if adm && wf {
			cx.Res.Fail(lib.Failure{Kind: "corr", Key: "JBODY:layout-native", Desc: "the configuration denoted by an admissible layout cannot be written in the native syntax", Input: line})
		}
		return
	}
	nsrc := nb.String()
	ok = cx.Guard("jbody-layout-native", nsrc, func() {
		f, diags := hclsyntax.ParseConfig([]byte(nsrc), "c.hcl", hcl.InitialPos)
		if diags.HasErrors() {
			cx.Res.Fail(lib.Failure{Kind: "corr", Key: "JBODY:native-unparseable", Desc: diags.Error(), Input: nsrc})
			return
		}
		implN = jbResolve(t, f.Body, &errsN)
	})
	if !ok || implN == "" {
		return
	}
	cx.Res.CorrChecked++
	cx.Res.Count("corr-jbody:layout:compared-native")
	if implN != modelN {
		cx.Res.Fail(lib.Failure{Kind: "corr", Key: "JBODY", Desc: "consuming the native body level by level differs from the model's resolveN (layout)\n" + nsrc, Input: line, Model: modelN, Impl: implN})
	}
	if adm && wf {
		cx.Res.Count("corr-jbody:layout:property-checked")
		if implJ != implN {
			cx.Res.Fail(lib.Failure{Kind: "oracle", Key: "json-native-differ", Desc: "an admissible JSON layout and the native text of the configuration it denotes are read differently under the schema tree\n-- json:\n" + jsrc + "\n-- native:\n" + nsrc, Input: line, Impl: "json: " + implJ + "\nnative: " + implN})
		}
	} else if implJ != implN {
		if adm {
			cx.Res.Count("corr-jbody:layout:admissible-under-ill-formed-schema-and-read-differently")
		} else {
			cx.Res.Count("corr-jbody:layout:inadmissible-and-read-differently")
		}
	}
}

// ---------------------------------------------------------------------------------------------
// reading the model's s-expressions

type sexpr struct {
	atom string
	list []*sexpr
	isL  bool
}

func parseSexps(s string) ([]*sexpr, error) {
	var stack [][]*sexpr
	cur := []*sexpr{}
	i := 0
	for i < len(s) {
		switch c := s[i]; {
		case c == '(':
			stack = append(stack, cur)
			cur = []*sexpr{}
			i++
		case c == ')':
			if len(stack) == 0 {
				return nil, fmt.Errorf("unbalanced")
			}
			l := &sexpr{list: cur, isL: true}
			cur = append(stack[len(stack)-1], l)
			stack = stack[:len(stack)-1]
			i++
		case c == ' ':
			i++
		default:
			j := i
			for j < len(s) && s[j] != ' ' && s[j] != '(' && s[j] != ')' {
				j++
			}
			cur = append(cur, &sexpr{atom: s[i:j]})
			i = j
		}
	}
	if len(stack) != 0 {
		return nil, fmt.Errorf("unbalanced")
	}
	return cur, nil
}

func unhex(s string) (string, bool) {
	if s == "-" {
		return "", true
	}
	if len(s)%2 != 0 {
		return "", false
	}
	b := make([]byte, len(s)/2)
	for i := range b {
		x, err := strconv.ParseUint(s[2*i:2*i+2], 16, 8)
		if err != nil {
			return "", false
		}
		b[i] = byte(x)
	}
	return string(b), true
}

func jvOfSexp(x *sexpr) *jv {
	if !x.isL {
		switch x.atom {
		case "n":
			return &jv{k: 'n'}
		case "t":
			return &jv{k: 'b', b: true}
		case "f":
			return &jv{k: 'b', b: false}
		}
		return nil
	}
	if len(x.list) == 0 || x.list[0].isL {
		return nil
	}
	switch x.list[0].atom {
	case "s":
		if len(x.list) == 2 && !x.list[1].isL {
			if s, ok := unhex(x.list[1].atom); ok {
				return &jv{k: 's', s: s}
			}
		}
	case "i":
		if len(x.list) == 2 && !x.list[1].isL {
			if n, err := strconv.ParseInt(x.list[1].atom, 10, 64); err == nil {
				return &jv{k: 'i', n: n}
			}
		}
	case "a":
		v := &jv{k: 'a'}
		for _, e := range x.list[1:] {
			ev := jvOfSexp(e)
			if ev == nil {
				return nil
			}
			v.xs = append(v.xs, ev)
		}
		return v
	case "o":
		v := &jv{k: 'o'}
		for _, e := range x.list[1:] {
			if !e.isL || len(e.list) != 2 || e.list[0].isL {
				return nil
			}
			k, ok := unhex(e.list[0].atom)
			ev := jvOfSexp(e.list[1])
			if !ok || ev == nil {
				return nil
			}
			v.ps = append(v.ps, jprop{k, ev})
		}
		return v
	}
	return nil
}

// C03J runs the correspondence alone (development, replay of a seed without the 14000 oracle cases)
func init() { lib.Register("C03J", func(cx *lib.Ctx) { corrJBody(cx) }) }
