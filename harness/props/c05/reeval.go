package c05

import (
	"fmt"

	"github.com/hashicorp/hcl/v2"
	"github.com/zclconf/go-cty/cty"

	"hx/lib"
	"hx/props/evalgen"
)

// directedReeval: an expression is parsed once and evaluated many times. What an evaluation returns — in
// particular the type given to an unknown result — must not depend on what the same syntax tree was evaluated
// with before, nor on an earlier iteration of an enclosing for expression: each result is compared with the result
// of a freshly parsed copy, and abstract results with the concrete ones they must approximate.
func directedReeval(cx *lib.Ctx) {
	res := cx.Res
	s := cty.StringVal
	objTy := cty.Object(map[string]cty.Type{"name": cty.String, "tags": cty.List(cty.String), "n": cty.Number})
	item := func(name string, n int64, tags ...string) cty.Value {
		ts := cty.ListValEmpty(cty.String)
		if len(tags) > 0 {
			var vs []cty.Value
			for _, t := range tags {
				vs = append(vs, s(t))
			}
			ts = cty.ListVal(vs)
		}
		return cty.ObjectVal(map[string]cty.Value{"name": s(name), "tags": ts, "n": cty.NumberIntVal(n)})
	}
	xsKnown := cty.ListVal([]cty.Value{item("a", 1, "t1"), item("b", 2)})
	xsUnknown := cty.UnknownVal(cty.List(objTy))
	xsEmpty := cty.ListValEmpty(objTy)
	type step struct{ vars map[string]cty.Value }
	mk := func(xs cty.Value, k string) step { return step{map[string]cty.Value{"xs": xs, "k": s(k), "i": cty.NumberIntVal(0)}} }
	cases := []struct {
		src   string
		steps []step
	}{
		{`xs[*][k]`, []step{mk(xsKnown, "name"), mk(xsUnknown, "tags"), mk(xsUnknown, "name"), mk(xsEmpty, "n"), mk(xsUnknown, "n"), mk(xsKnown, "tags")}},
		{`xs.*.tags[i]`, []step{mk(xsUnknown, "name"), mk(xsKnown, "name"), mk(xsEmpty, "name")}},
		{`[for key in ["name", "tags", "n"] : xs[*][key]]`, []step{mk(xsUnknown, "-"), mk(xsKnown, "-"), mk(xsEmpty, "-")}},
		{`[for key in ["tags", "name"] : xs[*][key]]`, []step{mk(xsUnknown, "-"), mk(xsKnown, "-")}},
		{`{for key in ["name", "n"] : key => xs[*][key]}`, []step{mk(xsUnknown, "-"), mk(xsKnown, "-")}},
		{`xs[*][k][0]`, []step{mk(xsUnknown, "tags"), mk(xsUnknown, "name"), mk(xsKnown, "tags")}},
		{`k == "name" ? xs[*].name : xs[*].tags[0]`, []step{mk(xsUnknown, "name"), mk(xsUnknown, "tags"), mk(xsKnown, "name")}},
		{`"${k}: ${length(xs[*][k])}"`, []step{mk(xsUnknown, "name"), mk(xsKnown, "tags"), mk(xsUnknown, "tags")}},
	}
	for _, c := range cases {
		shared, d := evalgen.Parse(c.src)
		if d.HasErrors() {
			res.Fail(lib.Failure{Kind: "oracle", Key: "harness:reeval-unparseable", Desc: d.Error(), Input: c.src})
			continue
		}
		for round := 0; round < 2; round++ {
			for si, st := range c.steps {
				fresh, _ := evalgen.Parse(c.src)
				ctx := func() *hcl.EvalContext { return &hcl.EvalContext{Variables: st.vars, Functions: evalgen.Funcs()} }
				v1, d1, p1 := evalgen.SafeValue(shared, ctx())
				v2, d2, p2 := evalgen.SafeValue(fresh, ctx())
				res.Count("reeval:evaluations")
				res.Case(fmt.Sprintf("reeval|%s|%d|%d", c.src, round, si), true)
				a := fmt.Sprintf("%s errors=%v panic=%s", lib.DumpValue(v1), d1.HasErrors(), p1)
				b := fmt.Sprintf("%s errors=%v panic=%s", lib.DumpValue(v2), d2.HasErrors(), p2)
				if a != b {
					res.Fail(lib.Failure{Kind: "oracle", Key: "reeval:result-depends-on-earlier-evaluations",
						Desc:  fmt.Sprintf("evaluation %d (round %d) of one parsed expression differs from the evaluation of a freshly parsed copy in the same scope", si, round),
						Input: fmt.Sprintf("%s\n-- scope: xs=%s k=%s", c.src, lib.DumpValue(st.vars["xs"]), lib.DumpValue(st.vars["k"])), Impl: "shared tree: " + a + "\nfresh tree:  " + b})
				}
			}
		}
		// soundness of the abstract result against the concrete one (first unknown step vs the known list)
		fresh, _ := evalgen.Parse(c.src)
		for _, k := range []string{"name", "tags", "n"} {
			va, da, pa := evalgen.SafeValue(fresh, &hcl.EvalContext{Variables: mk(xsUnknown, k).vars, Functions: evalgen.Funcs()})
			vc, dc, pc := evalgen.SafeValue(fresh, &hcl.EvalContext{Variables: mk(xsKnown, k).vars, Functions: evalgen.Funcs()})
			if pa != "" || pc != "" || da.HasErrors() || dc.HasErrors() {
				continue
			}
			res.Count("reeval:soundness-pairs")
			if why := member(va, vc); why != "" {
				res.Fail(lib.Failure{Kind: "oracle", Key: "unsound:reeval:" + why, Desc: "the result for an unknown list does not approximate the result for a known one", Input: c.src + " with k=" + k, Impl: "abstract: " + lib.DumpValue(va) + "\nconcrete: " + lib.DumpValue(vc)})
			}
		}
	}
	// random expressions: evaluate the shared tree in an unrelated scope first, then in the case's own scope and in
	// an abstraction of it; compare with a fresh tree
	R := cx.R.Fork()
	n := cx.Scale(1500, 40000)
	for i := 0; i < n; i++ {
		r := R.Fork()
		c, ok := evalgen.NewCase(r, evalgen.Defaults())
		if !ok {
			continue
		}
		other := evalgen.NewScope(r)
		scopes := []evalgen.Scope{other, c.Scope}
		abs := c.Scope.Clone()
		for _, nme := range rootsUsed(c) {
			if r.Chance(1, 2) {
				abs[nme] = cty.UnknownVal(c.Scope[nme].Type())
			}
		}
		scopes = append(scopes, abs, c.Scope)
		for si, sc := range scopes {
			fresh, d := evalgen.Parse(c.Src)
			if d.HasErrors() {
				break
			}
			v1, d1, p1 := evalgen.SafeValue(c.Expr, evalgen.Ctx(sc))
			v2, d2, p2 := evalgen.SafeValue(fresh, evalgen.Ctx(sc))
			res.Count("reeval:random-evaluations")
			a := fmt.Sprintf("%s errors=%v panic=%s", lib.DumpValue(v1), d1.HasErrors(), p1)
			b := fmt.Sprintf("%s errors=%v panic=%s", lib.DumpValue(v2), d2.HasErrors(), p2)
			if a != b {
				res.Fail(lib.Failure{Kind: "oracle", Key: "reeval:result-depends-on-earlier-evaluations",
					Desc:  fmt.Sprintf("evaluation %d of one parsed expression differs from the evaluation of a freshly parsed copy in the same scope", si),
					Input: c.Src, Impl: "shared tree: " + a + "\nfresh tree:  " + b})
				break
			}
		}
	}
}
