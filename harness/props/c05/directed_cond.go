package c05

import (
	"fmt"

	"github.com/hashicorp/hcl/v2"
	"github.com/zclconf/go-cty/cty"

	"hx/lib"
	"hx/props/evalgen"
)

// directedCondCollections: a conditional with an unknown condition whose two results are collections of different
// kinds — a set against a tuple with repeated or convertible-equal elements, a list against a tuple, a map against
// an object — so that the result type is a conversion of one branch. Whatever the unknown result promises (type,
// not-null, length bounds) must hold for the value each branch gives after that conversion: a tuple that becomes a
// set may shrink.
func directedCondCollections(cx *lib.Ctx) {
	res := cx.Res
	s := cty.StringVal
	set := func(vs ...string) cty.Value {
		var xs []cty.Value
		for _, v := range vs {
			xs = append(xs, s(v))
		}
		return cty.SetVal(xs)
	}
	list := func(vs ...string) cty.Value {
		var xs []cty.Value
		for _, v := range vs {
			xs = append(xs, s(v))
		}
		return cty.ListVal(xs)
	}
	unkS := cty.UnknownVal(cty.String)
	cases := []struct {
		src  string
		abs  map[string]cty.Value
		conc []map[string]cty.Value
	}{
		{`c ? s : ["a", "a"]`, map[string]cty.Value{"s": set("x", "y")}, []map[string]cty.Value{{"c": cty.False}, {"c": cty.True}}},
		{`c ? ["q", "q", "q"] : s`, map[string]cty.Value{"s": set("x", "y", "z")}, []map[string]cty.Value{{"c": cty.True}, {"c": cty.False}}},
		{`c ? s : [a, b]`, map[string]cty.Value{"s": set("x", "y"), "a": unkS, "b": unkS}, []map[string]cty.Value{{"c": cty.False, "a": s("p"), "b": s("p")}, {"c": cty.False, "a": s("p"), "b": s("q")}}},
		{`c ? s : ["1", 1]`, map[string]cty.Value{"s": set("x", "y")}, []map[string]cty.Value{{"c": cty.False}}},
		{`c ? s : []`, map[string]cty.Value{"s": set("x")}, []map[string]cty.Value{{"c": cty.False}, {"c": cty.True}}},
		{`c ? l : ["a", "a"]`, map[string]cty.Value{"l": list("x", "y")}, []map[string]cty.Value{{"c": cty.False}, {"c": cty.True}}},
		{`c ? l : []`, map[string]cty.Value{"l": list("x", "y")}, []map[string]cty.Value{{"c": cty.False}, {"c": cty.True}}},
		{`c ? m : {a = "1", b = "2"}`, map[string]cty.Value{"m": cty.MapVal(map[string]cty.Value{"k": s("v")})}, []map[string]cty.Value{{"c": cty.False}, {"c": cty.True}}},
		{`c ? toset(["a"]) : ["b", "b", "c"]`, map[string]cty.Value{}, []map[string]cty.Value{{"c": cty.False}, {"c": cty.True}}},
		{`length(c ? s : ["a", "a"])`, map[string]cty.Value{"s": set("x", "y")}, []map[string]cty.Value{{"c": cty.False}, {"c": cty.True}}},
		{`[for x in (c ? s : ["a", "a"]) : x]`, map[string]cty.Value{"s": set("x", "y")}, []map[string]cty.Value{{"c": cty.False}}},
	}
	for _, c := range cases {
		e, d := evalgen.Parse(c.src)
		if d.HasErrors() {
			res.Fail(lib.Failure{Kind: "oracle", Key: "harness:directed-cond-unparseable", Desc: d.Error(), Input: c.src})
			continue
		}
		absScope := map[string]cty.Value{"c": cty.UnknownVal(cty.Bool)}
		for k, v := range c.abs {
			absScope[k] = v
		}
		va, da, pa := evalgen.SafeValue(e, &hcl.EvalContext{Variables: absScope, Functions: evalgen.Funcs()})
		if pa != "" || da.HasErrors() {
			res.Count("directed-cond:abstract-error")
			continue
		}
		for _, cv := range c.conc {
			concScope := map[string]cty.Value{}
			for k, v := range absScope {
				concScope[k] = v
			}
			for k, v := range cv {
				concScope[k] = v
			}
			vc, dc, pc := evalgen.SafeValue(e, &hcl.EvalContext{Variables: concScope, Functions: evalgen.Funcs()})
			res.Count("directed-cond:pairs")
			res.Case(fmt.Sprintf("directed-cond|%s|%v", c.src, cv["c"]), true)
			if pc != "" || dc.HasErrors() {
				continue
			}
			why := member(va, vc)
			if why == "" {
				why = refinementsHold(va, vc)
			}
			if why != "" {
				res.Fail(lib.Failure{Kind: "oracle", Key: "unsound:directed-cond:" + why,
					Desc:  "with the condition unknown the result promises something that the result for a concrete condition does not keep",
					Input: fmt.Sprintf("%s -- concrete: %s", c.src, lib.DumpValue(cty.ObjectVal(cv))), Impl: "abstract: " + lib.DumpValue(va) + "\nconcrete: " + lib.DumpValue(vc)})
			}
		}
	}
}
