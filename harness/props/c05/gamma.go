package c05

import (
	"strings"

	"github.com/zclconf/go-cty/cty"
	"github.com/zclconf/go-cty/cty/convert"
)

// member decides whether the wholly known concrete value c lies in the concretisation gamma(a) of the
// abstract value a, following the property statement: after converting a to c's type every known part
// is equal, every typed unknown part has the concrete part's type, and every refinement attached to an
// unknown (not-null, string prefix, numeric bounds, collection length bounds) is satisfied by the
// concrete part. Marks are ignored. The result is "" for a member, otherwise the class of the mismatch.
func member(a, c cty.Value) string {
	a, _ = a.UnmarkDeep()
	c, _ = c.UnmarkDeep()
	return memberRec(a, c)
}

func memberRec(a, c cty.Value) string {
	if a.Type() == cty.DynamicPseudoType && !a.IsKnown() {
		return "" // the dynamic value stands for anything
	}
	if !c.IsKnown() {
		return "concrete-unknown"
	}
	if !a.Type().Equals(c.Type()) {
		conv, err := convert.Convert(a, c.Type())
		if err != nil {
			return "type"
		}
		a = conv
		if a.Type() == cty.DynamicPseudoType && !a.IsKnown() {
			return ""
		}
		if !a.Type().Equals(c.Type()) && !a.IsKnown() {
			// the concrete type has undecided parts (e.g. an empty list of dynamic) that the typed unknown
			// does not share
			return "type"
		}
	}
	if !a.IsKnown() {
		return refinementsHold(a, c)
	}
	if a.IsNull() {
		if c.IsNull() {
			return ""
		}
		return "null-vs-value"
	}
	if c.IsNull() {
		return "value-vs-null"
	}
	ty := a.Type()
	switch {
	case ty.IsPrimitiveType():
		if a.RawEquals(c) {
			return ""
		}
		return "known-differs"
	case ty.IsListType() || ty.IsTupleType():
		if a.LengthInt() != c.LengthInt() {
			return "length"
		}
		ai, ci := a.ElementIterator(), c.ElementIterator()
		for ai.Next() && ci.Next() {
			_, av := ai.Element()
			_, cv := ci.Element()
			if why := memberRec(av, cv); why != "" {
				return why
			}
		}
		return ""
	case ty.IsMapType() || ty.IsObjectType():
		if a.LengthInt() != c.LengthInt() {
			return "keys"
		}
		for it := a.ElementIterator(); it.Next(); {
			k, av := it.Element()
			var cv cty.Value
			if ty.IsObjectType() {
				if !c.Type().HasAttribute(k.AsString()) {
					return "keys"
				}
				cv = c.GetAttr(k.AsString())
			} else {
				if !c.HasIndex(k).True() {
					return "keys"
				}
				cv = c.Index(k)
			}
			if why := memberRec(av, cv); why != "" {
				return why
			}
		}
		return ""
	case ty.IsSetType():
		if a.IsWhollyKnown() {
			if a.RawEquals(c) {
				return ""
			}
			return "known-differs"
		}
		// A set holding unknown elements: the unknown elements may coalesce with each other or with the
		// known ones, so only conservative consequences are checked: the concrete set is not larger, it
		// is non-empty, and it contains every wholly known element of the abstract set.
		n := 0
		for it := a.ElementIterator(); it.Next(); {
			n++
			_, av := it.Element()
			if av.IsWhollyKnown() && !c.HasElement(av).True() {
				return "set-known-element-missing"
			}
		}
		if c.LengthInt() > n || (n > 0 && c.LengthInt() == 0) {
			return "set-length"
		}
		return ""
	}
	if a.RawEquals(c) {
		return ""
	}
	return "known-differs"
}

// refinementsHold checks the refinements of the typed unknown a (read through Value.Range) against the
// known value c of the same type.
func refinementsHold(a, c cty.Value) string {
	rng := a.Range()
	if c.IsNull() {
		if rng.DefinitelyNotNull() {
			return "refinement-notnull"
		}
		return "" // the other refinements only speak about the non-null case
	}
	ty := a.Type()
	switch {
	case ty == cty.String:
		if p := rng.StringPrefix(); !strings.HasPrefix(c.AsString(), p) {
			return "refinement-prefix"
		}
	case ty == cty.Number:
		lo, loInc := rng.NumberLowerBound()
		hi, hiInc := rng.NumberUpperBound()
		if lo.IsKnown() && !lo.RawEquals(cty.NegativeInfinity) {
			if loInc {
				if c.LessThan(lo).True() {
					return "refinement-lower-bound"
				}
			} else if c.LessThanOrEqualTo(lo).True() {
				return "refinement-lower-bound"
			}
		}
		if hi.IsKnown() && !hi.RawEquals(cty.PositiveInfinity) {
			if hiInc {
				if c.GreaterThan(hi).True() {
					return "refinement-upper-bound"
				}
			} else if c.GreaterThanOrEqualTo(hi).True() {
				return "refinement-upper-bound"
			}
		}
	case ty.IsCollectionType():
		n := c.LengthInt()
		if n < rng.LengthLowerBound() {
			return "refinement-length-lower-bound"
		}
		if n > rng.LengthUpperBound() {
			return "refinement-length-upper-bound"
		}
	}
	if ty == cty.Number && (c.RawEquals(cty.PositiveInfinity) || c.RawEquals(cty.NegativeInfinity)) {
		// cty models "no bound" as an exclusive infinite bound, so its Includes rejects infinities even
		// for an unrefined number; the explicit checks above already covered real bounds
		return ""
	}
	if inc := rng.Includes(c); inc.IsKnown() && inc.False() {
		return "refinement-range"
	}
	return ""
}
