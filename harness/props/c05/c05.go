// Package c05 checks that evaluation with unknown values soundly approximates every concrete evaluation
// (and that evaluation without unknowns never produces an unknown).
package c05

import (
	"encoding/json"
	"fmt"
	"runtime/debug"
	"sort"
	"strings"

	"github.com/hashicorp/hcl/v2"
	"github.com/zclconf/go-cty/cty"

	"hx/lib"
	"hx/props/evalgen"
)

func init() { lib.Register("C05", run) }

// extra is the property-specific part of a replay document: the abstract values that replace variables
// of the scope and one concrete instantiation of exactly those variables.
type extra struct {
	Abs  map[string]*evalgen.EncVal `json:"abs"`
	Conc map[string]*evalgen.EncVal `json:"conc"`
}

func rootsUsed(c *evalgen.Case) []string {
	seen := map[string]bool{}
	var out []string
	for _, t := range c.Expr.Variables() {
		n := t.RootName()
		if _, ok := c.Scope[n]; ok && !seen[n] {
			seen[n] = true
			out = append(out, n)
		}
	}
	sort.Strings(out)
	return out
}

func overlay(base evalgen.Scope, over map[string]cty.Value) evalgen.Scope {
	s := base.Clone()
	for k, v := range over {
		s[k] = v
	}
	return s
}

func evalIn(cx *lib.Ctx, e hcl.Expression, s evalgen.Scope, input string) (cty.Value, hcl.Diagnostics, bool) {
	v, diags, p := evalgen.SafeValue(e, evalgen.Ctx(s))
	if p != "" {
		cx.Res.Fail(lib.Failure{Kind: "oracle", Key: "panic:eval", Desc: "panic during evaluation: " + p, Input: input})
		return cty.NilVal, nil, false
	}
	return v, diags, true
}

// checkPair evaluates abstractly and concretely and reports "" or the mismatch class.
func checkPair(e hcl.Expression, base evalgen.Scope, absVals, concVals map[string]cty.Value) (why string, va, vc cty.Value) {
	va, da, p := evalgen.SafeValue(e, evalgen.Ctx(overlay(base, absVals)))
	if p != "" || da.HasErrors() {
		return "", va, cty.NilVal
	}
	vc, dc, p := evalgen.SafeValue(e, evalgen.Ctx(overlay(base, concVals)))
	if p != "" || dc.HasErrors() {
		return "", va, vc
	}
	return member(va, vc), va, vc
}

func encMap(m map[string]cty.Value) map[string]*evalgen.EncVal {
	out := map[string]*evalgen.EncVal{}
	for k, v := range m {
		out[k] = evalgen.EncodeValue(v)
	}
	return out
}

// iteratesSetWithUnknowns recognises the defect class "a known set that holds unknown elements is
// iterated (for expression, splat, template for) as if its element count and order were known".
func iteratesSetWithUnknowns(n *lib.Node, absScope evalgen.Scope) string {
	isSuchSet := func(coll *lib.Node) bool {
		e, diags := evalgen.Parse(evalgen.Source(coll))
		if diags.HasErrors() {
			return false
		}
		v, _, p := evalgen.SafeValue(e, evalgen.Ctx(absScope))
		if p != "" || v == cty.NilVal {
			return false
		}
		v, _ = v.UnmarkDeep()
		return v.Type().IsSetType() && v.IsKnown() && !v.IsNull() && !v.IsWhollyKnown()
	}
	switch n.K {
	case "fortuple", "forobj":
		if isSuchSet(n.Kids[0]) {
			return "for-expression"
		}
	case "fsplat", "asplat":
		if isSuchSet(n.Kids[0]) {
			return "splat"
		}
	case "attr", "index", "legacy":
		if len(n.Kids) > 0 {
			return iteratesSetWithUnknowns(n.Kids[0], absScope)
		}
	case "tmpl":
		for _, p := range n.Kids {
			if p.K == "tfor" && isSuchSet(p.Kids[0]) {
				return "template-for"
			}
		}
	}
	return ""
}

func condBranchError(n *lib.Node, concScope evalgen.Scope) bool {
	for _, br := range n.Kids[1:] {
		if _, ok := evalgen.EvalNode(br, concScope); !ok {
			return true
		}
	}
	return false
}

// condUnselectedTypeDiffers: the branch that the concrete run does not select evaluates without error in both
// runs, to the dynamic pseudo-type (an unknown of unknown type) in the abstract run and to a concrete type in
// the concrete one.
func condUnselectedTypeDiffers(n *lib.Node, absScope, concScope evalgen.Scope) bool {
	cv, ok := evalgen.EvalNode(n.Kids[0], concScope)
	if !ok || cv.IsNull() || !cv.IsKnown() {
		return false
	}
	cu, _ := cv.Unmark()
	if cu.Type() != cty.Bool {
		return false
	}
	other := n.Kids[2]
	if cu.False() {
		other = n.Kids[1]
	}
	av, ok1 := evalgen.EvalNode(other, absScope)
	ov, ok2 := evalgen.EvalNode(other, concScope)
	if !ok1 || !ok2 {
		return false
	}
	return !av.Type().Equals(ov.Type())
}

// reportUnsound minimises the failing expression (same abstraction, same instantiation) and records it.
func reportUnsound(cx *lib.Ctx, c *evalgen.Case, absVals, concVals map[string]cty.Value, why string) {
	concScope := overlay(c.Scope, concVals)
	min := c.Node
	if c.Node != nil {
		min = evalgen.Minimize(c.Node, func(n *lib.Node) bool {
			e, diags := evalgen.Parse(evalgen.Source(n))
			if diags.HasErrors() {
				return false
			}
			w, _, _ := checkPair(e, c.Scope, absVals, concVals)
			return w != ""
		}, concScope)
	}
	mc := &evalgen.Case{Scope: c.Scope, Node: min, Src: c.Src, Expr: c.Expr}
	sig := "?"
	if min != nil {
		mc.Render()
		sig = evalgen.Sig(min, concScope)
	}
	w, va, vc := checkPair(mc.Expr, c.Scope, absVals, concVals)
	if w != "" {
		why = w
	}
	key := "unsound:" + why + ":" + sig
	if min != nil && min.K == "cond" {
		// the diagnostics of the branch that is not selected are dropped: an error there is invisible
		// in the concrete run but changes the branch's (and so the result's) type
		if condBranchError(min, concScope) {
			key += ":unselected-branch-error"
		}
	} else if min != nil {
		// the same defect seen through an operation that is sensitive to the type of a conditional
		// operand (e.g. == on an object vs the map it is unified to)
		for _, k := range evalgen.SubExprs(min) {
			for k.K == "paren" && len(k.Kids) == 1 {
				k = k.Kids[0]
			}
			if k.K == "cond" && condBranchError(k, concScope) {
				key += ":operand:cond:unselected-branch-error"
				break
			}
		}
	}
	if min != nil && !strings.Contains(key, "unselected-branch-error") {
		// a conditional's result type is the unification of the types of *both* results; when the result that
		// is not selected is unknown of unknown type in the abstract run and has a concrete type in the
		// concrete run, the selected result is converted differently in the two runs
		var all []*lib.Node
		var walk func(n *lib.Node)
		walk = func(n *lib.Node) {
			all = append(all, n)
			for _, k := range evalgen.SubExprs(n) {
				walk(k)
			}
		}
		walk(min)
		for _, k := range all {
			for k.K == "paren" && len(k.Kids) == 1 {
				k = k.Kids[0]
			}
			if k.K == "cond" && len(k.Kids) == 3 && condUnselectedTypeDiffers(k, overlay(c.Scope, absVals), concScope) {
				key += ":cond:unselected-branch-type-depends-on-unknown"
				break
			}
		}
	}
	if min != nil {
		if cls := iteratesSetWithUnknowns(min, overlay(c.Scope, absVals)); cls != "" {
			key = "unsound:set-with-unknown-elements-iterated:" + cls
		}
	}
	cx.Res.Fail(lib.Failure{
		Kind:  "oracle",
		Key:   key,
		Desc:  "the abstract result (evaluated with unknowns) is not consistent with an error-free concrete evaluation: " + why,
		Input: mc.Encode("C05", "expr", extra{Abs: encMap(absVals), Conc: encMap(concVals)}),
		Impl:  "abstract: " + lib.DumpValue(va) + "\nconcrete: " + lib.DumpValue(vc),
	})
}

func reportUnknownFromKnown(cx *lib.Ctx, c *evalgen.Case, s evalgen.Scope, v cty.Value) {
	min := c.Node
	if c.Node != nil {
		min = evalgen.Minimize(c.Node, func(n *lib.Node) bool {
			v, ok := evalgen.EvalNode(n, s)
			if !ok {
				return false
			}
			u, _ := v.UnmarkDeep()
			return !u.IsWhollyKnown()
		}, s)
	}
	mc := &evalgen.Case{Scope: s, Node: min, Src: c.Src, Expr: c.Expr}
	sig := "?"
	if min != nil {
		mc.Render()
		sig = evalgen.Sig(min, s)
		if w, ok := evalgen.EvalNode(min, s); ok {
			v = w
		}
	}
	cx.Res.Fail(lib.Failure{
		Kind:  "oracle",
		Key:   "unknown-from-known:" + sig,
		Desc:  "an error-free evaluation in a scope without unknown values produced an unknown value",
		Input: mc.Encode("C05", "expr", nil),
		Impl:  lib.DumpValue(v),
	})
}

// concreteCheck is the converse direction: wholly known scope, error-free => wholly known result.
func concreteCheck(cx *lib.Ctx, c *evalgen.Case, s evalgen.Scope) (ok bool) {
	v, diags, fine := evalIn(cx, c.Expr, s, c.Encode("C05", "expr", nil))
	if !fine {
		return false
	}
	if diags.HasErrors() {
		return false
	}
	u, _ := v.UnmarkDeep()
	if !u.IsWhollyKnown() {
		reportUnknownFromKnown(cx, c, s, v)
	}
	return true
}

func run(cx *lib.Ctx) {
	res := cx.Res
	debug.SetGCPercent(800)
	if cx.Replay != "" {
		replay(cx, lib.ReplayInput(cx.Replay))
		return
	}
	res.Rule = "type-directed random expressions over the whole native grammar (evalgen) in random scopes of every cty kind; for each, up to 3 abstractions of 1-3 of the referenced variables (typed unknown, refined unknown, cty.DynamicVal, unknown parts nested in collections), one abstract evaluation and up to 5 concrete instantiations drawn from the abstraction's concretisation set (the original scope first); non-trivial = the abstract evaluation is error-free with an unknown part and at least one instantiation evaluated without error and was compared; distinct by source text + abstraction"
	n := cx.Scale(5000, 110000)
	// lib.NewRand(seed) and lib.NewRand(seed+1) yield the same stream shifted by one draw; forking once
	// decorrelates the seeds (the fork is seeded with a mixed output, not with the raw state).
	R := cx.R.Fork()
	for i := 0; i < n; i++ {
		r := R.Fork()
		c, ok := evalgen.NewCase(r, evalgen.Defaults())
		if !ok {
			res.Count("gen-parse-error")
			continue
		}
		evalgen.CountStats(res, c.Node)
		res.Count("concrete-evals")
		if concreteCheck(cx, c, c.Scope) {
			res.Count("concrete-ok")
		} else {
			res.Count("concrete-error")
		}
		roots := rootsUsed(c)
		if len(roots) == 0 {
			res.Case(c.Src, false)
			res.Count("no-variables")
			continue
		}
		if i < 4 {
			res.Sample(c.Src)
		}
		for attempt := 0; attempt < 3; attempt++ {
			oneAbstraction(cx, r, c, roots)
		}
	}
	directedRefinements(cx)
	directedKnown(cx)
	directedReeval(cx)
	directedCondCollections(cx)
	if t := res.Distribution["concrete-evals"]; t > 0 {
		res.Notes = append(res.Notes, fmt.Sprintf("share of concrete evaluations ending in error: %.1f%%", 100*float64(res.Distribution["concrete-error"])/float64(t)))
	}
	if t := res.Distribution["cond-total"]; t > 0 {
		res.Notes = append(res.Notes, fmt.Sprintf("share of conditionals with a constant condition: %.1f%%", 100*float64(res.Distribution["cond-constant-condition"])/float64(t)))
	}
}

func oneAbstraction(cx *lib.Ctx, r *lib.Rand, c *evalgen.Case, roots []string) {
	res := cx.Res
	k := 1
	if len(roots) > 1 && r.Chance(1, 3) {
		k = 2
	}
	if len(roots) > 2 && r.Chance(1, 8) {
		k = 3
	}
	chosen := map[string]abs{}
	for len(chosen) < k {
		name := roots[r.Intn(len(roots))]
		if _, dup := chosen[name]; dup {
			continue
		}
		chosen[name] = abstract(r, c.Scope[name], 2, false)
	}
	names := make([]string, 0, len(chosen))
	for n := range chosen {
		names = append(names, n)
	}
	sort.Strings(names)
	absVals := map[string]cty.Value{}
	canon := c.Src
	for _, n := range names {
		absVals[n] = chosen[n].A
		canon += "|" + n + "=" + lib.DumpValue(chosen[n].A)
		res.Count("abstraction:" + kindHead(chosen[n].Kind))
	}
	input := func(conc map[string]cty.Value) string {
		return c.Encode("C05", "expr", extra{Abs: encMap(absVals), Conc: encMap(conc)})
	}
	va, da, fine := evalIn(cx, c.Expr, overlay(c.Scope, absVals), input(nil))
	if !fine {
		res.Case(canon, false)
		return
	}
	if da.HasErrors() {
		res.Count("abstract-error")
		res.Case(canon, false)
		return
	}
	res.Count("abstract-ok")
	ua, _ := va.UnmarkDeep()
	if ua.IsWhollyKnown() {
		res.Count("abstract-result-wholly-known")
	} else {
		res.Count("abstract-result-has-unknown")
		res.Count("abstract-result:" + resultShape(ua))
	}
	compared := 0
	for j := 0; j < 5; j++ {
		conc := map[string]cty.Value{}
		for _, n := range names {
			if j == 0 {
				conc[n] = c.Scope[n]
			} else {
				conc[n] = chosen[n].Gen(r)
			}
		}
		cs := overlay(c.Scope, conc)
		vc, dc, fine := evalIn(cx, c.Expr, cs, input(conc))
		if !fine {
			continue
		}
		if dc.HasErrors() {
			res.Count("instantiation-error")
			continue
		}
		res.Count("instantiation-ok")
		uc, _ := vc.UnmarkDeep()
		if !uc.IsWhollyKnown() {
			reportUnknownFromKnown(cx, c, cs, vc)
			continue
		}
		compared++
		if why := member(va, vc); why != "" {
			reportUnsound(cx, c, absVals, conc, why)
		}
	}
	res.Case(canon, compared > 0 && !ua.IsWhollyKnown())
}

func kindHead(k string) string {
	for i := 0; i < len(k); i++ {
		if k[i] == '(' {
			return k[:i]
		}
	}
	return k
}

// resultShape classifies an abstract result for the distribution report.
func resultShape(v cty.Value) string {
	if !v.IsKnown() {
		if v.Type() == cty.DynamicPseudoType {
			return "dynamic"
		}
		s := "unknown-" + evalgen.TypeKind(v.Type())
		if lib.DumpValue(v) != lib.DumpValue(cty.UnknownVal(v.Type())) {
			s += "-refined"
		}
		return s
	}
	return "known-" + evalgen.TypeKind(v.Type()) + "-with-unknown-parts"
}

func replay(cx *lib.Ctx, doc string) {
	c, cj, err := evalgen.DecodeCase(doc)
	if err != nil {
		cx.Res.Fail(lib.Failure{Kind: "oracle", Key: "replay-input", Desc: err.Error(), Input: doc})
		return
	}
	cx.Res.Case(c.Src, true)
	cx.Res.Sample(c.Src)
	var ex extra
	if len(cj.Extra) > 0 {
		if err := json.Unmarshal(cj.Extra, &ex); err != nil {
			cx.Res.Fail(lib.Failure{Kind: "oracle", Key: "replay-input", Desc: err.Error(), Input: doc})
			return
		}
	}
	absVals, err1 := evalgen.DecodeScope(ex.Abs)
	concVals, err2 := evalgen.DecodeScope(ex.Conc)
	if err1 != nil || err2 != nil {
		cx.Res.Fail(lib.Failure{Kind: "oracle", Key: "replay-input", Desc: fmt.Sprint(err1, err2), Input: doc})
		return
	}
	cs := overlay(c.Scope, concVals)
	wholly := true
	for _, v := range cs {
		u, _ := v.UnmarkDeep()
		if !u.IsWhollyKnown() {
			wholly = false
		}
	}
	if wholly {
		concreteCheck(cx, c, cs)
	}
	if len(absVals) > 0 {
		if why, _, _ := checkPair(c.Expr, c.Scope, absVals, concVals); why != "" {
			reportUnsound(cx, c, absVals, concVals, why)
		}
	}
}
