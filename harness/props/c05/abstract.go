package c05

import (
	"strings"

	"github.com/zclconf/go-cty/cty"

	"hx/lib"
	"hx/props/evalgen"
)

// abs is an abstraction of one concrete value: the abstract value A (unknowns, refined unknowns, the
// dynamic value, or unknown parts nested inside a known collection) together with a sampler of its
// concretisation set gamma(A). The original concrete value is always a member.
type abs struct {
	A    cty.Value
	Gen  func(r *lib.Rand) cty.Value
	Kind string
}

func constAbs(v cty.Value) abs {
	return abs{A: v, Gen: func(*lib.Rand) cty.Value { return v }, Kind: "concrete"}
}

func isContainer(v cty.Value) bool {
	ty := v.Type()
	return v.IsKnown() && !v.IsNull() && (ty.IsCollectionType() || ty.IsTupleType() || ty.IsObjectType()) && v.LengthInt() > 0
}

// abstract chooses an abstraction of v. noDyn forbids the dynamic value (inside lists, sets and maps,
// whose element types must stay uniform).
func abstract(r *lib.Rand, v cty.Value, depth int, noDyn bool) abs {
	ty := v.Type()
	if ty == cty.DynamicPseudoType {
		// a null of unknown type: the only abstraction is the dynamic value
		if noDyn {
			return constAbs(v)
		}
		return dynAbs(v)
	}
	ws := []int{30, 30, 12, 28}
	if v.IsNull() {
		ws[1], ws[3] = 8, 0 // refinements of a null: nothing to say except "could be null"
	}
	if noDyn {
		ws[2] = 0
	}
	if depth <= 0 || !isContainer(v) {
		ws[3] = 0
	}
	switch r.Weighted(ws) {
	case 0:
		return abs{A: cty.UnknownVal(ty), Kind: "typed", Gen: func(r *lib.Rand) cty.Value {
			if r.Chance(1, 4) {
				return v
			}
			return evalgen.RandValue(r, ty, 15)
		}}
	case 1:
		return refinedAbs(r, v)
	case 2:
		return dynAbs(v)
	default:
		return nestedAbs(r, v, depth, noDyn)
	}
}

func dynAbs(v cty.Value) abs {
	ty := v.Type()
	return abs{A: cty.DynamicVal, Kind: "dynamic", Gen: func(r *lib.Rand) cty.Value {
		switch r.Intn(4) {
		case 0:
			return v
		case 1, 2:
			return evalgen.RandValue(r, ty, 10)
		default:
			return evalgen.RandValue(r, evalgen.RandType(r, 2), 10)
		}
	}}
}

func numAdd(v cty.Value, num int64, shift uint) cty.Value {
	return v.Add(evalgen.Dyadic(num, shift))
}

// refinedAbs attaches a random subset of the refinements that hold for v.
func refinedAbs(r *lib.Rand, v cty.Value) abs {
	ty := v.Type()
	b := cty.UnknownVal(ty).Refine()
	if !v.IsNull() && r.Chance(3, 4) {
		b = b.NotNull()
	}
	if !v.IsNull() {
		switch {
		case ty == cty.String:
			if r.Chance(3, 4) {
				rs := []rune(v.AsString())
				n := 0
				if len(rs) > 0 {
					n = 1 + r.Intn(len(rs))
				}
				b = b.StringPrefix(string(rs[:n]))
			}
		case ty == cty.Number:
			if r.Chance(2, 3) {
				switch r.Intn(4) {
				case 0:
					b = b.NumberRangeLowerBound(v, true)
				case 1:
					b = b.NumberRangeLowerBound(numAdd(v, -1, 0), r.Chance(1, 2))
				case 2:
					b = b.NumberRangeLowerBound(numAdd(v, -1, 1), r.Chance(1, 2))
				default:
					b = b.NumberRangeLowerBound(cty.Zero.Subtract(v.Absolute()).Subtract(cty.NumberIntVal(10)), r.Chance(1, 2))
				}
			}
			if r.Chance(2, 3) {
				switch r.Intn(4) {
				case 0:
					b = b.NumberRangeUpperBound(v, true)
				case 1:
					b = b.NumberRangeUpperBound(numAdd(v, 1, 0), r.Chance(1, 2))
				case 2:
					b = b.NumberRangeUpperBound(numAdd(v, 3, 2), r.Chance(1, 2))
				default:
					b = b.NumberRangeUpperBound(v.Absolute().Add(cty.NumberIntVal(10)), r.Chance(1, 2))
				}
			}
		case ty.IsCollectionType():
			n := v.LengthInt()
			if r.Chance(2, 3) {
				b = b.CollectionLengthLowerBound(r.Intn(n + 1))
			}
			if r.Chance(2, 3) {
				b = b.CollectionLengthUpperBound(n + r.Intn(3))
			}
		}
	}
	a := b.NewValue()
	return abs{A: a, Kind: "refined", Gen: func(r *lib.Rand) cty.Value {
		for try := 0; try < 12; try++ {
			c := refinedCandidate(r, a, v)
			if member(a, c) == "" {
				return c
			}
		}
		return v
	}}
}

// refinedCandidate proposes a value of v's type that is likely to satisfy the refinements of a.
func refinedCandidate(r *lib.Rand, a, v cty.Value) cty.Value {
	ty := v.Type()
	if !a.IsKnown() && !a.Range().DefinitelyNotNull() && r.Chance(1, 6) {
		return cty.NullVal(ty)
	}
	if a.IsKnown() {
		// the refinements collapsed to a (partly) known value
		if a.IsWhollyKnown() {
			return a
		}
		return v
	}
	rng := a.Range()
	switch {
	case ty == cty.String:
		p := rng.StringPrefix()
		switch r.Intn(4) {
		case 0:
			return cty.StringVal(p)
		case 1:
			// continue with the rest of the original string, then more
			if v.IsNull() {
				return cty.StringVal(p)
			}
			return cty.StringVal(v.AsString() + evalgen.StrPool[r.Intn(len(evalgen.StrPool))])
		default:
			return cty.StringVal(p + evalgen.StrPool[r.Intn(len(evalgen.StrPool))])
		}
	case ty == cty.Number:
		lo, _ := rng.NumberLowerBound()
		hi, _ := rng.NumberUpperBound()
		var cands []cty.Value
		if lo.IsKnown() && !lo.RawEquals(cty.NegativeInfinity) {
			cands = append(cands, lo, numAdd(lo, 1, 1), numAdd(lo, 1, 0))
		}
		if hi.IsKnown() && !hi.RawEquals(cty.PositiveInfinity) {
			cands = append(cands, hi, numAdd(hi, -1, 2), numAdd(hi, -2, 0))
		}
		cands = append(cands, evalgen.RandNumber(r))
		if !v.IsNull() {
			cands = append(cands, v, numAdd(v, 1, 3))
		}
		return cands[r.Intn(len(cands))]
	case ty.IsCollectionType():
		lo, hi := rng.LengthLowerBound(), rng.LengthUpperBound()
		if hi > lo+3 {
			hi = lo + 3
		}
		n := lo + r.Intn(hi-lo+1)
		return randCollectionLen(r, ty, n)
	}
	return evalgen.RandValue(r, ty, 0)
}

func randCollectionLen(r *lib.Rand, ty cty.Type, n int) cty.Value {
	ety := ty.ElementType()
	switch {
	case ty.IsListType():
		if n == 0 {
			return cty.ListValEmpty(ety)
		}
		vs := make([]cty.Value, n)
		for i := range vs {
			vs[i] = evalgen.RandValue(r, ety, 4)
		}
		return cty.ListVal(vs)
	case ty.IsSetType():
		if n == 0 {
			return cty.SetValEmpty(ety)
		}
		var vs []cty.Value
		for try := 0; try < 40; try++ {
			vs = append(vs, evalgen.RandValue(r, ety, 0))
			if cty.SetVal(vs).LengthInt() >= n {
				break
			}
		}
		return cty.SetVal(vs)
	default:
		if n == 0 {
			return cty.MapValEmpty(ety)
		}
		m := map[string]cty.Value{}
		for i := 0; len(m) < n && i < 40; i++ {
			k := evalgen.KeyPool[r.Intn(len(evalgen.KeyPool))]
			if i >= len(evalgen.KeyPool) {
				k += "x"
			}
			m[k] = evalgen.RandValue(r, ety, 4)
		}
		return cty.MapVal(m)
	}
}

// nestedAbs keeps the container known and abstracts one or two of its elements.
func nestedAbs(r *lib.Rand, v cty.Value, depth int, noDyn bool) abs {
	ty := v.Type()
	type slot struct {
		key  cty.Value
		elem abs
	}
	var slots []slot
	for it := v.ElementIterator(); it.Next(); {
		k, ev := it.Element()
		slots = append(slots, slot{k, constAbs(ev)})
	}
	childNoDyn := noDyn || ty.IsCollectionType()
	picks := 1 + r.Intn(2)
	for i := 0; i < picks; i++ {
		j := r.Intn(len(slots))
		if slots[j].elem.Kind != "concrete" {
			continue
		}
		ev := slots[j].elem.A
		if ty.IsSetType() {
			// only plain typed unknowns inside sets
			ety := ty.ElementType()
			orig := ev
			slots[j].elem = abs{A: cty.UnknownVal(ety), Kind: "typed", Gen: func(r *lib.Rand) cty.Value {
				if r.Chance(1, 3) {
					return orig
				}
				return evalgen.RandValue(r, ety, 0)
			}}
			continue
		}
		slots[j].elem = abstract(r, ev, depth-1, childNoDyn)
	}
	build := func(get func(abs) cty.Value) cty.Value {
		switch {
		case ty.IsListType() || ty.IsTupleType() || ty.IsSetType():
			vs := make([]cty.Value, len(slots))
			for i, s := range slots {
				vs[i] = get(s.elem)
			}
			if ty.IsListType() {
				return cty.ListVal(vs)
			}
			if ty.IsSetType() {
				return cty.SetVal(vs)
			}
			return cty.TupleVal(vs)
		default:
			m := map[string]cty.Value{}
			for _, s := range slots {
				m[s.key.AsString()] = get(s.elem)
			}
			if ty.IsMapType() {
				return cty.MapVal(m)
			}
			return cty.ObjectVal(m)
		}
	}
	a := build(func(e abs) cty.Value { return e.A })
	kinds := []string{}
	for _, s := range slots {
		if s.elem.Kind != "concrete" {
			kinds = append(kinds, s.elem.Kind)
		}
	}
	return abs{A: a, Kind: "nested(" + strings.Join(kinds, ",") + ")", Gen: func(r *lib.Rand) cty.Value {
		return build(func(e abs) cty.Value { return e.Gen(r) })
	}}
}
