package c05

import (
	"fmt"
	"strings"

	"github.com/zclconf/go-cty/cty"

	"hx/lib"
	"hx/props/evalgen"
)

// directedRefinements exercises the places where the evaluator *computes* refinements of an unknown result
// from its operands — the random stream meets them rarely with the coinciding values they need:
//   - a conditional with an unknown condition merges the numeric ranges of its two results (equal bounds with
//     different inclusivity, nested ranges, one side known), their not-null-ness, string prefixes and
//     collection length bounds;
//   - a template with an unknown interpolation carries the known text before it as a prefix (the concrete
//     continuation may combine with the prefix's last character under NFC normalisation);
//   - arithmetic and comparison of refined unknowns.
//
// Every abstract result is checked against concrete instantiations exactly like the random stream (member).
func directedRefinements(cx *lib.Ctx) {
	res := cx.Res
	R := cx.R.Fork()
	n := cx.Scale(1500, 40000)
	for i := 0; i < n; i++ {
		r := R.Fork()
		shape := r.Intn(8)
		var src string
		scope := evalgen.Scope{}
		absVals := map[string]cty.Value{}
		var concs []map[string]cty.Value
		num := func() cty.Value { return cty.NumberIntVal(int64(r.Intn(7) - 3)) }
		refinedNum := func(v, lo, hi cty.Value, loInc, hiInc bool) cty.Value {
			b := cty.UnknownVal(cty.Number).Refine().NotNull()
			if lo != cty.NilVal {
				b = b.NumberRangeLowerBound(lo, loInc)
			}
			if hi != cty.NilVal {
				b = b.NumberRangeUpperBound(hi, hiInc)
			}
			return b.NewValue()
		}
		switch shape {
		case 0, 1:
			// c ? n : m with c unknown; n and m numbers whose ranges share a bound
			bound := num()
			other := bound.Add(cty.NumberIntVal(int64(1 + r.Intn(3))))
			lower := shape == 0
			mk := func(name string) (cty.Value, cty.Value) { // abstract, a concrete member on the bound if inclusive
				inc := r.Chance(1, 2)
				var a cty.Value
				if r.Chance(1, 3) {
					// a known number sitting exactly on the bound
					return bound, bound
				}
				if lower {
					a = refinedNum(cty.NilVal, bound, cty.NilVal, inc, false)
				} else {
					a = refinedNum(cty.NilVal, cty.NilVal, bound, false, inc)
				}
				c := other
				if !lower {
					c = bound.Subtract(cty.NumberIntVal(int64(1 + r.Intn(3))))
				}
				if inc && r.Chance(1, 2) {
					c = bound
				}
				return a, c
			}
			an, cn := mk("n")
			am, cm := mk("m")
			src = "c ? n : m"
			scope["c"], scope["n"], scope["m"] = cty.True, cn, cm
			absVals["c"] = cty.UnknownVal(cty.Bool)
			if !an.IsKnown() {
				absVals["n"] = an
			}
			if !am.IsKnown() {
				absVals["m"] = am
			}
			concs = []map[string]cty.Value{
				{"c": cty.True, "n": cn, "m": cm},
				{"c": cty.False, "n": cn, "m": cm},
			}
			res.Count(map[bool]string{true: "directed:cond-lower-bound", false: "directed:cond-upper-bound"}[lower])
		case 2:
			// nested / disjoint ranges
			a1, a2 := num(), num()
			lo1, hi1 := a1, a1.Add(cty.NumberIntVal(int64(r.Intn(4))))
			lo2, hi2 := a2, a2.Add(cty.NumberIntVal(int64(r.Intn(4))))
			src = "c ? n : m"
			scope["c"], scope["n"], scope["m"] = cty.True, lo1, hi2
			absVals["c"] = cty.UnknownVal(cty.Bool)
			absVals["n"] = refinedNum(cty.NilVal, lo1, hi1, true, true)
			absVals["m"] = refinedNum(cty.NilVal, lo2, hi2, true, true)
			concs = []map[string]cty.Value{
				{"c": cty.True, "n": lo1, "m": hi2}, {"c": cty.False, "n": hi1, "m": lo2},
				{"c": cty.True, "n": hi1, "m": lo2}, {"c": cty.False, "n": lo1, "m": hi2},
			}
			res.Count("directed:cond-ranges")
		case 3:
			// template prefix: known text, then an unknown string whose concrete value may start with a combining mark
			pre := r.Pick([]string{"cafe", "a", "x_", "e", "n-", "", "o", "A1"})
			cont := r.Pick([]string{"́", "̈x", "b", "", "̧", "1", "_"})
			src = fmt.Sprintf("\"%s${v}%s\"", pre, r.Pick([]string{"", "z", "${w}"}))
			scope["v"], scope["w"] = cty.StringVal(cont), cty.StringVal("q")
			absVals["v"] = cty.UnknownVal(cty.String)
			if r.Chance(1, 2) {
				absVals["v"] = cty.UnknownVal(cty.String).RefineNotNull()
			}
			concs = []map[string]cty.Value{{"v": cty.StringVal(cont)}, {"v": cty.StringVal(r.Pick([]string{"́", "k", "̀́"}))}}
			res.Count("directed:template-prefix")
		case 4:
			// conditional over strings with prefixes and over collections with length bounds
			p1 := r.Pick([]string{"ab", "abc", "a", "x"})
			p2 := r.Pick([]string{"ab", "abd", "a", "y", ""})
			src = "c ? s : t"
			scope["c"], scope["s"], scope["t"] = cty.True, cty.StringVal(p1+"1"), cty.StringVal(p2+"2")
			absVals["c"] = cty.UnknownVal(cty.Bool)
			absVals["s"] = cty.UnknownVal(cty.String).Refine().NotNull().StringPrefixFull(p1).NewValue()
			if r.Chance(1, 2) {
				absVals["t"] = cty.UnknownVal(cty.String).Refine().NotNull().StringPrefixFull(p2).NewValue()
			}
			concs = []map[string]cty.Value{
				{"c": cty.True, "s": cty.StringVal(p1 + "1"), "t": cty.StringVal(p2 + "2")},
				{"c": cty.False, "s": cty.StringVal(p1), "t": cty.StringVal(p2 + "2")},
			}
			res.Count("directed:cond-prefix")
		case 7:
			// equality of constructors that hold a value of wholly unknown type (cty.DynamicVal): nothing about the
			// answer is known, whatever the other side looks like — the types differ only until the unknown is known
			pairs := []struct {
				src  string
				conc []cty.Value
			}{
				{"[v] == [5]", []cty.Value{cty.NumberIntVal(5), cty.NumberIntVal(6), cty.StringVal("5")}},
				{"[v] != [5]", []cty.Value{cty.NumberIntVal(5), cty.True}},
				{"{ name = v } == { name = \"a\" }", []cty.Value{cty.StringVal("a"), cty.StringVal("b"), cty.NumberIntVal(1)}},
				{"{ name = v } != { name = \"a\" }", []cty.Value{cty.StringVal("a"), cty.NullVal(cty.String)}},
				{"[[v]] == [[true]]", []cty.Value{cty.True, cty.False}},
				{"[1, v] == [1, \"x\"]", []cty.Value{cty.StringVal("x"), cty.StringVal("y")}},
				{"{ a = [v], b = 2 } == { a = [null], b = 2 }", []cty.Value{cty.NullVal(cty.DynamicPseudoType), cty.NumberIntVal(2)}},
				{"[v] == [[]]", []cty.Value{cty.EmptyTupleVal, cty.ListValEmpty(cty.String)}},
				{"[v] == [5] ? 1 : 2", []cty.Value{cty.NumberIntVal(5), cty.NumberIntVal(7)}},
				{"v == 5", []cty.Value{cty.NumberIntVal(5), cty.StringVal("5")}},
			}
			p := pairs[r.Intn(len(pairs))]
			src = p.src
			scope["v"] = p.conc[0]
			absVals["v"] = cty.DynamicVal
			for _, cv := range p.conc {
				concs = append(concs, map[string]cty.Value{"v": cv})
			}
			res.Count("directed:equality-with-dynamic-part")
		case 6:
			// an unknown key into a known collection that holds unknown elements: whatever is said about the
			// result (not null, a range, a prefix) must also hold when the key selects an element that is
			// still unknown — which may turn out to be null, or anything of its type
			elemNull := r.Chance(1, 2)
			switch r.Intn(4) {
			case 0:
				src = r.Pick([]string{"m[k]", "m[k] == null", "[m[k]]", "m[k] != null ? 1 : 2"})
				scope["m"] = cty.MapVal(map[string]cty.Value{"a": cty.StringVal("x"), "b": cty.StringVal("y")})
				scope["k"] = cty.StringVal("a")
				absVals["m"] = cty.MapVal(map[string]cty.Value{"a": cty.UnknownVal(cty.String), "b": cty.StringVal("y")})
				absVals["k"] = cty.UnknownVal(cty.String)
				ce := cty.StringVal("other")
				if elemNull {
					ce = cty.NullVal(cty.String)
				}
				concs = []map[string]cty.Value{
					{"m": cty.MapVal(map[string]cty.Value{"a": ce, "b": cty.StringVal("y")}), "k": cty.StringVal("a")},
					{"m": scope["m"], "k": cty.StringVal("b")},
				}
			case 1:
				src = r.Pick([]string{"m[k]", "m[k] == null", "m[k] + 1", "[m[k]]"})
				scope["m"] = cty.ListVal([]cty.Value{cty.NumberIntVal(3), cty.NumberIntVal(5)})
				scope["k"] = cty.NumberIntVal(0)
				absVals["m"] = cty.ListVal([]cty.Value{cty.UnknownVal(cty.Number), cty.NumberIntVal(5)})
				absVals["k"] = cty.UnknownVal(cty.Number)
				ce := cty.NumberIntVal(-40)
				if elemNull && !strings.Contains(src, "+") {
					ce = cty.NullVal(cty.Number)
				}
				concs = []map[string]cty.Value{
					{"m": cty.ListVal([]cty.Value{ce, cty.NumberIntVal(5)}), "k": cty.NumberIntVal(0)},
					{"m": scope["m"], "k": cty.NumberIntVal(1)},
				}
			case 2:
				src = r.Pick([]string{"m.inner[k]", "m.inner[k] == null", "{ x = m.inner[k] }"})
				inner := func(e cty.Value) cty.Value {
					return cty.ObjectVal(map[string]cty.Value{"inner": cty.MapVal(map[string]cty.Value{"a": e, "b": cty.True})})
				}
				scope["m"] = inner(cty.False)
				scope["k"] = cty.StringVal("a")
				absVals["m"] = inner(cty.UnknownVal(cty.Bool))
				absVals["k"] = cty.UnknownVal(cty.String)
				ce := cty.False
				if elemNull {
					ce = cty.NullVal(cty.Bool)
				}
				concs = []map[string]cty.Value{{"m": inner(ce), "k": cty.StringVal("a")}, {"m": scope["m"], "k": cty.StringVal("b")}}
			default:
				// every element unknown, the key refined not-null
				src = r.Pick([]string{"m[k]", "m[k] == null"})
				scope["m"] = cty.MapVal(map[string]cty.Value{"a": cty.StringVal("x")})
				scope["k"] = cty.StringVal("a")
				absVals["m"] = cty.MapVal(map[string]cty.Value{"a": cty.UnknownVal(cty.String)})
				absVals["k"] = cty.UnknownVal(cty.String).RefineNotNull()
				concs = []map[string]cty.Value{{"m": cty.MapVal(map[string]cty.Value{"a": cty.NullVal(cty.String)}), "k": cty.StringVal("a")}, {"m": scope["m"], "k": cty.StringVal("a")}}
			}
			res.Count("directed:unknown-key-into-partly-unknown-collection")
		default:
			// arithmetic / comparison of a refined unknown with a number on its bound
			bound := num()
			inc := r.Chance(1, 2)
			op := r.Pick([]string{"n + k", "n - k", "n * k", "n < k", "n <= k", "n > k", "n >= k", "n == k", "-n", "k - n"})
			src = op
			cn := bound.Add(cty.NumberIntVal(int64(1 + r.Intn(2))))
			if inc && r.Chance(1, 2) {
				cn = bound
			}
			scope["n"], scope["k"] = cn, bound
			absVals["n"] = refinedNum(cty.NilVal, bound, cty.NilVal, inc, false)
			concs = []map[string]cty.Value{{"n": cn}, {"n": bound.Add(cty.NumberIntVal(5))}}
			res.Count("directed:arith-refined")
		}
		e, diags := evalgen.Parse(src)
		if diags.HasErrors() {
			res.Count("directed:parse-error")
			continue
		}
		c := &evalgen.Case{Scope: scope, Src: src, Expr: e}
		canon := src
		for _, k := range []string{"c", "n", "m", "s", "t", "v", "k"} {
			if v, ok := absVals[k]; ok {
				canon += "|" + k + "=" + lib.DumpValue(v)
			}
		}
		compared := 0
		for _, conc := range concs {
			// instantiate only the abstracted variables
			cv := map[string]cty.Value{}
			for k := range absVals {
				if v, ok := conc[k]; ok {
					cv[k] = v
				} else {
					cv[k] = scope[k]
				}
			}
			// the instantiation must be a member of the abstraction it instantiates
			okInst := true
			for k, a := range absVals {
				if member(a, cv[k]) != "" {
					okInst = false
				}
			}
			if !okInst {
				res.Count("directed:instantiation-outside-abstraction")
				continue
			}
			why, va, vc := checkPair(e, scope, absVals, cv)
			if vc != cty.NilVal {
				compared++
			}
			if why != "" {
				cx.Res.Fail(lib.Failure{
					Kind: "oracle", Key: "unsound:" + why + ":directed:" + src,
					Desc:  fmt.Sprintf("abstract result %s does not cover the concrete result %s", lib.DumpValue(va), lib.DumpValue(vc)),
					Input: c.Encode("C05", "expr", extra{Abs: encMap(absVals), Conc: encMap(cv)}),
				})
			}
		}
		res.Case(canon, compared > 0)
	}
}

// directedKnown: the converse half of the property on constructs the random stream rarely builds with the
// operands that matter: calls whose final argument is expanded (`f(xs...)`) over every kind of known value —
// typed and untyped nulls, empty and non-empty tuples / lists / sets — template directives over known
// collections, splats over nulls.  The scope has no unknown value; an error-free result must be wholly known.
func directedKnown(cx *lib.Ctx) {
	res := cx.Res
	scope := evalgen.Scope{
		"nul":   cty.NullVal(cty.DynamicPseudoType),
		"nlist": cty.NullVal(cty.List(cty.String)),
		"ntup":  cty.NullVal(cty.EmptyTuple),
		"nset":  cty.NullVal(cty.Set(cty.String)),
		"nstr":  cty.NullVal(cty.String),
		"elist": cty.ListValEmpty(cty.String),
		"etup":  cty.EmptyTupleVal,
		"lst":   cty.ListVal([]cty.Value{cty.StringVal("a"), cty.StringVal("b")}),
		"tup":   cty.TupleVal([]cty.Value{cty.StringVal("a"), cty.NumberIntVal(2)}),
		"st":    cty.SetVal([]cty.Value{cty.StringVal("a")}),
		"s":     cty.StringVal("x"),
		"obj":   cty.ObjectVal(map[string]cty.Value{"a": cty.NullVal(cty.String), "b": cty.StringVal("y")}),
	}
	args := []string{"null", "nul", "nlist", "ntup", "nset", "nstr", "elist", "etup", "lst", "tup", "st", "[]", "[s]", "[s, nstr]", "obj", "s"}
	var srcs []string
	for _, f := range []string{"coalesce", "concat", "length", "upper", "max", "tolist", "join"} {
		for _, a := range args {
			srcs = append(srcs, f+"("+a+"...)", f+"(\"a\", "+a+"...)", f+"(lst, "+a+"...)")
		}
	}
	for _, a := range args {
		srcs = append(srcs,
			"\"%{ for x in "+a+" }${x},%{ endfor }\"",
			"\"%{ if "+a+" == null }n%{ else }y%{ endif }\"",
			a+"[*]", a+".*.a", "[for x in "+a+" : x]", "{for k, v in "+a+" : k => v}",
			a+" == null ? s : "+a, "true ? "+a+" : s")
	}
	for _, src := range srcs {
		e, diags := evalgen.Parse(src)
		if diags.HasErrors() {
			res.Count("directed-known:parse-error")
			continue
		}
		c := &evalgen.Case{Scope: scope, Src: src, Expr: e}
		v, d, p := evalgen.SafeValue(e, evalgen.Ctx(scope))
		res.Count("directed-known:cases")
		res.Case("directed-known|"+src, true)
		if p != "" {
			cx.Res.Fail(lib.Failure{Kind: "oracle", Key: "panic:eval", Desc: "panic during evaluation: " + p, Input: c.Encode("C05", "expr", nil)})
			continue
		}
		if d.HasErrors() {
			res.Count("directed-known:error")
			continue
		}
		u, _ := v.UnmarkDeep()
		if !u.IsWhollyKnown() {
			cx.Res.Fail(lib.Failure{Kind: "oracle", Key: "unknown-from-known:directed:" + src,
				Desc:  "an error-free evaluation in a scope without unknown values produced an unknown value",
				Input: c.Encode("C05", "expr", nil), Impl: lib.DumpValue(v)})
		}
	}
}
