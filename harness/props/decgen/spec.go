package decgen

import (
	"fmt"
	"strings"

	"github.com/hashicorp/hcl/v2"
	"github.com/hashicorp/hcl/v2/hcldec"
	"github.com/hashicorp/hcl/v2/hclsyntax"
	"github.com/zclconf/go-cty/cty"
	"github.com/zclconf/go-cty/cty/function"

	"hx/lib"
)

// Kind names a spec kind.
type Kind string

const (
	KObject        Kind = "object"
	KTuple         Kind = "tuple"
	KAttr          Kind = "attr"
	KLiteral       Kind = "literal"
	KExpr          Kind = "expr"
	KBlock         Kind = "block"
	KBlockList     Kind = "blocklist"
	KBlockTuple    Kind = "blocktuple"
	KBlockSet      Kind = "blockset"
	KBlockMap      Kind = "blockmap"
	KBlockObject   Kind = "blockobject"
	KBlockAttrs    Kind = "blockattrs"
	KLabel         Kind = "label"
	KDefault       Kind = "default"
	KTransformExpr Kind = "transformexpr"
	KTransformFunc Kind = "transformfunc"
	KRefine        Kind = "refine"
	KValidate      Kind = "validate"
)

// Xform is a value transformation used by TransformExprSpec / TransformFuncSpec: the harness's own
// reading of it (Apply) next to the expression source / function given to hcldec.
type Xform struct {
	Name  string
	Src   string // expression over the variable "v"
	Apply func(cty.Value) cty.Value
	Type  func(cty.Type) cty.Type
	// Unwrap recovers the transformed value's argument from a known result (used to locate defects).
	Unwrap func(cty.Value) cty.Value
}

var xforms = []*Xform{
	{Name: "id", Src: "v", Apply: func(v cty.Value) cty.Value { return v }, Type: func(t cty.Type) cty.Type { return t }, Unwrap: func(v cty.Value) cty.Value { return v }},
	{Name: "wrap-tuple", Src: "[v]", Apply: func(v cty.Value) cty.Value { return cty.TupleVal([]cty.Value{v}) }, Type: func(t cty.Type) cty.Type { return cty.Tuple([]cty.Type{t}) }, Unwrap: func(v cty.Value) cty.Value { return v.Index(cty.Zero) }},
	{Name: "wrap-object", Src: "{ w = v }", Apply: func(v cty.Value) cty.Value { return cty.ObjectVal(map[string]cty.Value{"w": v}) }, Type: func(t cty.Type) cty.Type { return cty.Object(map[string]cty.Type{"w": t}) }, Unwrap: func(v cty.Value) cty.Value { return v.GetAttr("w") }},
	{Name: "pair", Src: "[v, true]", Apply: func(v cty.Value) cty.Value { return cty.TupleVal([]cty.Value{v, cty.True}) }, Type: func(t cty.Type) cty.Type { return cty.Tuple([]cty.Type{t, cty.Bool}) }, Unwrap: func(v cty.Value) cty.Value { return v.Index(cty.Zero) }},
}

// SNode is the harness's description of one node of a specification tree, with the real spec.
type SNode struct {
	Kind       Kind
	Spec       hcldec.Spec
	Name       string   // attribute name / block type
	Type       cty.Type // attribute type / BlockAttrs element type
	Required   bool
	Min, Max   int
	LabelNames []string // BlockMap / BlockObject
	NLabels    int      // block kinds: number of labels a block must have (LabelNames + label specs inside)
	Index      int      // label index
	Keys       []string // object keys (parallel to Kids)
	Kids       []*SNode // object/tuple members; wrappers: [wrapped]; default: [primary, default]; block kinds: [nested]
	Lit        cty.Value
	ExprVar    string // expr spec reading a root variable
	X          *Xform
	Validate   string // "ok", "warn", "err-if-null"
	Refine     string // "notnull", "lenlo"
}

func (n *SNode) IsBlockKind() bool {
	switch n.Kind {
	case KBlock, KBlockList, KBlockTuple, KBlockSet, KBlockMap, KBlockObject, KBlockAttrs:
		return true
	}
	return false
}

// SameBody visits n and every descendant that decodes the same body (not the nested specs of blocks).
func (n *SNode) SameBody(f func(*SNode)) {
	f(n)
	if n.IsBlockKind() {
		return
	}
	for _, k := range n.Kids {
		k.SameBody(f)
	}
}

// Walk visits every node of the tree.
func (n *SNode) Walk(f func(*SNode)) {
	f(n)
	for _, k := range n.Kids {
		k.Walk(f)
	}
}

// Dump renders the spec tree.
func (n *SNode) Dump() string {
	var sb strings.Builder
	n.dump(&sb)
	return sb.String()
}

func (n *SNode) dump(sb *strings.Builder) {
	sb.WriteString("(" + string(n.Kind))
	switch n.Kind {
	case KAttr:
		fmt.Fprintf(sb, " %s %s req=%v", n.Name, lib.DumpType(n.Type), n.Required)
	case KLiteral:
		sb.WriteString(" " + lib.DumpValue(n.Lit))
	case KExpr:
		if n.ExprVar != "" {
			sb.WriteString(" $" + n.ExprVar)
		} else {
			sb.WriteString(" " + lib.DumpValue(n.Lit))
		}
	case KBlock, KBlockAttrs:
		fmt.Fprintf(sb, " %s req=%v", n.Name, n.Required)
		if n.Kind == KBlockAttrs {
			sb.WriteString(" " + lib.DumpType(n.Type))
		}
	case KBlockList, KBlockTuple, KBlockSet:
		fmt.Fprintf(sb, " %s min=%d max=%d", n.Name, n.Min, n.Max)
	case KBlockMap, KBlockObject:
		fmt.Fprintf(sb, " %s labels=%v", n.Name, n.LabelNames)
	case KLabel:
		fmt.Fprintf(sb, " %d", n.Index)
	case KTransformExpr, KTransformFunc:
		sb.WriteString(" " + n.X.Name)
	case KValidate:
		sb.WriteString(" " + n.Validate)
	case KRefine:
		sb.WriteString(" " + n.Refine)
	}
	for i, k := range n.Kids {
		sb.WriteString(" ")
		if n.Kind == KObject {
			sb.WriteString(n.Keys[i] + ":")
		}
		k.dump(sb)
	}
	sb.WriteString(")")
}

// Implied is the harness's own computation of the implied type, following the documentation of each
// spec kind. (TransformExpr/TransformFunc: the transformation's type function.)
func (n *SNode) Implied() cty.Type {
	switch n.Kind {
	case KObject:
		if len(n.Kids) == 0 {
			return cty.EmptyObject
		}
		m := map[string]cty.Type{}
		for i, k := range n.Kids {
			m[n.Keys[i]] = k.Implied()
		}
		return cty.Object(m)
	case KTuple:
		if len(n.Kids) == 0 {
			return cty.EmptyTuple
		}
		var ts []cty.Type
		for _, k := range n.Kids {
			ts = append(ts, k.Implied())
		}
		return cty.Tuple(ts)
	case KAttr:
		return n.Type
	case KLiteral:
		return n.Lit.Type()
	case KExpr:
		return cty.DynamicPseudoType
	case KBlock:
		return n.Kids[0].Implied()
	case KBlockList:
		return cty.List(n.Kids[0].Implied())
	case KBlockSet:
		return cty.Set(n.Kids[0].Implied())
	case KBlockTuple, KBlockObject:
		return cty.DynamicPseudoType
	case KBlockMap:
		t := n.Kids[0].Implied()
		for range n.LabelNames {
			t = cty.Map(t)
		}
		return t
	case KBlockAttrs:
		return cty.Map(n.Type)
	case KLabel:
		return cty.String
	case KDefault, KRefine, KValidate:
		return n.Kids[0].Implied()
	case KTransformExpr, KTransformFunc:
		return n.X.Type(n.Kids[0].Implied())
	}
	panic("unknown kind " + string(n.Kind))
}

// ---------------------------------------------------------------------------------------------

// SpecGen generates specification trees.
type SpecGen struct {
	R *lib.Rand
	// Vars are the root variables (name -> value) ExprSpec may read; nil: literals only.
	Vars map[string]cty.Value
	// NoDynamicTypes avoids cty.DynamicPseudoType attribute types (and kinds whose implied type is dynamic).
	NoDynamic bool
	// Plain restricts literal strings to characters that are not special in either syntax.
	Plain bool
	// NoOptionalAttrs avoids object types with optional attributes.
	NoOptionalAttrs bool
	Count           func(string)
	nameSeq         int
}

type genCtx struct {
	labels   int             // number of BlockLabelSpec indices available (0: not in a block)
	attrs    map[string]bool // attribute names used in this body
	types    map[string]bool // block types used in this body
	noDyn    bool            // inside a BlockMapSpec: no dynamic types allowed
	notBlock bool            // no block specs (default side of a DefaultSpec)
}

func (g *SpecGen) count(k string) {
	if g.Count != nil {
		g.Count(k)
	}
}

var attrNames = []string{"a", "a1", "a_b", "a-c", "arg", "a2", "attr", "a3"}
var blockNames = []string{"b", "b1", "blk", "b_c", "b-d", "b2", "bb"}

func (g *SpecGen) freshAttr(c *genCtx) string {
	for i := 0; i < 10; i++ {
		n := attrNames[g.R.Intn(len(attrNames))]
		if !c.attrs[n] {
			c.attrs[n] = true
			return n
		}
	}
	g.nameSeq++
	n := fmt.Sprintf("a_%d", g.nameSeq)
	c.attrs[n] = true
	return n
}

func (g *SpecGen) freshBlock(c *genCtx) string {
	for i := 0; i < 10; i++ {
		n := blockNames[g.R.Intn(len(blockNames))]
		if !c.types[n] {
			c.types[n] = true
			return n
		}
	}
	g.nameSeq++
	n := fmt.Sprintf("b_%d", g.nameSeq)
	c.types[n] = true
	return n
}

// AttrType picks an attribute type constraint.
func (g *SpecGen) AttrType(noDyn bool) cty.Type {
	for {
		t := g.attrType(2)
		if (noDyn || g.NoDynamic) && t.HasDynamicTypes() {
			continue
		}
		return t
	}
}

func (g *SpecGen) attrType(depth int) cty.Type {
	r := g.R
	k := r.Intn(14)
	if depth <= 0 && k >= 4 {
		k = r.Intn(4)
	}
	switch k {
	case 0:
		return cty.String
	case 1:
		return cty.Number
	case 2:
		return cty.Bool
	case 3:
		if r.Chance(1, 2) {
			return cty.DynamicPseudoType
		}
		return cty.String
	case 4:
		return cty.List(g.attrType(depth - 1))
	case 5:
		return cty.Set(g.primType())
	case 6:
		return cty.Map(g.attrType(depth - 1))
	case 7:
		n := r.Intn(3)
		ts := make([]cty.Type, n)
		for i := range ts {
			ts[i] = g.attrType(depth - 1)
		}
		return cty.Tuple(ts)
	case 8, 9:
		n := r.Intn(3)
		m := map[string]cty.Type{}
		for i := 0; i < n; i++ {
			m[fmt.Sprintf("k%d", i)] = g.attrType(depth - 1)
		}
		return cty.Object(m)
	case 10, 11:
		if g.NoOptionalAttrs {
			return cty.List(cty.String)
		}
		n := 1 + r.Intn(3)
		m := map[string]cty.Type{}
		var opt []string
		for i := 0; i < n; i++ {
			k := fmt.Sprintf("k%d", i)
			m[k] = g.attrType(depth - 1)
			if i == 0 || r.Chance(1, 2) {
				opt = append(opt, k)
			}
		}
		return cty.ObjectWithOptionalAttrs(m, opt)
	case 12:
		return cty.List(cty.String)
	default:
		return cty.Map(cty.Number)
	}
}

func (g *SpecGen) primType() cty.Type {
	return []cty.Type{cty.String, cty.Number, cty.Bool}[g.R.Intn(3)]
}

// ValueOfType makes a known value of a concrete type (no dynamic parts), without optional attributes.
func (g *SpecGen) ValueOfType(t cty.Type, depth int) cty.Value {
	r := g.R
	t = t.WithoutOptionalAttributesDeep()
	if depth <= 0 && r.Chance(1, 6) || r.Chance(1, 12) {
		return cty.NullVal(t)
	}
	switch {
	case t == cty.String:
		return cty.StringVal(RandString(r, g.Plain))
	case t == cty.Number:
		return RandNumber(r)
	case t == cty.Bool:
		return cty.BoolVal(r.Chance(1, 2))
	case t == cty.DynamicPseudoType:
		return cty.StringVal("dyn")
	case t.IsListType(), t.IsSetType():
		n := r.Intn(3)
		if n == 0 {
			if t.IsListType() {
				return cty.ListValEmpty(t.ElementType())
			}
			return cty.SetValEmpty(t.ElementType())
		}
		vs := make([]cty.Value, n)
		for i := range vs {
			vs[i] = g.ValueOfType(t.ElementType(), depth-1)
		}
		if t.IsListType() {
			return cty.ListVal(vs)
		}
		return cty.SetVal(vs)
	case t.IsMapType():
		n := r.Intn(3)
		if n == 0 {
			return cty.MapValEmpty(t.ElementType())
		}
		m := map[string]cty.Value{}
		for i := 0; i < n; i++ {
			m[fmt.Sprintf("k%d", i)] = g.ValueOfType(t.ElementType(), depth-1)
		}
		return cty.MapVal(m)
	case t.IsTupleType():
		ets := t.TupleElementTypes()
		vs := make([]cty.Value, len(ets))
		for i := range vs {
			vs[i] = g.ValueOfType(ets[i], depth-1)
		}
		return cty.TupleVal(vs)
	case t.IsObjectType():
		m := map[string]cty.Value{}
		atys := t.AttributeTypes()
		for _, k := range SortedKeys(atys) { // (sorted: every random draw must replay)
			m[k] = g.ValueOfType(atys[k], depth-1)
		}
		return cty.ObjectVal(m)
	}
	panic("ValueOfType: " + t.FriendlyName())
}

// Gen generates a spec tree for a root body.
func (g *SpecGen) Gen(depth int) *SNode {
	c := &genCtx{attrs: map[string]bool{}, types: map[string]bool{}}
	var n *SNode
	if g.R.Chance(4, 5) {
		n = g.container(depth, c)
	} else {
		n = g.gen(depth, c)
	}
	return n
}

// container makes an ObjectSpec or TupleSpec with several members.
func (g *SpecGen) container(depth int, c *genCtx) *SNode {
	r := g.R
	n := 1 + r.Intn(4)
	if r.Chance(1, 15) {
		n = 0
	}
	var kids []*SNode
	// inside a block with label specs every index must be used at least once
	for i := 0; i < c.labels; i++ {
		kids = append(kids, g.wrapMaybe(g.label(i), depth, c))
	}
	for i := 0; i < n; i++ {
		kids = append(kids, g.gen(depth-1, c))
	}
	// shuffle
	for i := len(kids) - 1; i > 0; i-- {
		j := r.Intn(i + 1)
		kids[i], kids[j] = kids[j], kids[i]
	}
	if r.Chance(1, 5) {
		sp := hcldec.TupleSpec{}
		for _, k := range kids {
			sp = append(sp, k.Spec)
		}
		g.count("spec:tuple")
		return &SNode{Kind: KTuple, Spec: sp, Kids: kids}
	}
	sp := hcldec.ObjectSpec{}
	node := &SNode{Kind: KObject, Kids: kids}
	for i, k := range kids {
		key := fmt.Sprintf("f%d", i)
		if r.Chance(1, 4) {
			key = []string{"name", "x-y", "Ω", "with space", "f"}[r.Intn(5)] + fmt.Sprint(i)
		}
		node.Keys = append(node.Keys, key)
		sp[key] = k.Spec
	}
	node.Spec = sp
	g.count("spec:object")
	return node
}

func (g *SpecGen) label(i int) *SNode {
	g.count("spec:label")
	return &SNode{Kind: KLabel, Index: i, Spec: &hcldec.BlockLabelSpec{Index: i, Name: fmt.Sprintf("lbl%d", i)}}
}

// wrapMaybe wraps a node in validate / transform / refine-free adapters now and then.
func (g *SpecGen) wrapMaybe(n *SNode, depth int, c *genCtx) *SNode {
	if depth > 0 && g.R.Chance(1, 5) {
		return g.wrap(n, c)
	}
	return n
}

func (g *SpecGen) wrap(n *SNode, c *genCtx) *SNode {
	r := g.R
	switch r.Intn(4) {
	case 0:
		return g.validate(n)
	case 1:
		return g.transformExpr(n)
	case 2:
		return g.transformFunc(n)
	default:
		return g.refine(n)
	}
}

func (g *SpecGen) validate(n *SNode) *SNode {
	mode := []string{"ok", "warn", "err-if-null"}[g.R.Intn(3)]
	g.count("spec:validate")
	return &SNode{Kind: KValidate, Validate: mode, Kids: []*SNode{n}, Spec: &hcldec.ValidateSpec{Wrapped: n.Spec, Func: func(v cty.Value) hcl.Diagnostics {
		switch mode {
		case "warn":
			return hcl.Diagnostics{{Severity: hcl.DiagWarning, Summary: "harness warning"}}
		case "err-if-null":
			if v.IsNull() {
				return hcl.Diagnostics{{Severity: hcl.DiagError, Summary: "harness: null is not allowed"}}
			}
		}
		return nil
	}}}
}

func (g *SpecGen) transformExpr(n *SNode) *SNode {
	x := xforms[g.R.Intn(len(xforms))]
	expr, diags := hclsyntax.ParseExpression([]byte(x.Src), "xform.hcl", hcl.InitialPos)
	if diags.HasErrors() {
		panic(diags.Error())
	}
	var tctx *hcl.EvalContext
	if g.R.Chance(1, 2) {
		tctx = &hcl.EvalContext{}
	}
	g.count("spec:transformexpr")
	return &SNode{Kind: KTransformExpr, X: x, Kids: []*SNode{n}, Spec: &hcldec.TransformExprSpec{Wrapped: n.Spec, Expr: expr, TransformCtx: tctx, VarName: "v"}}
}

func (g *SpecGen) transformFunc(n *SNode) *SNode {
	x := xforms[g.R.Intn(len(xforms))]
	fn := function.New(&function.Spec{
		Params: []function.Parameter{{Name: "v", Type: cty.DynamicPseudoType, AllowNull: true, AllowUnknown: true, AllowDynamicType: true, AllowMarked: true}},
		Type:   func(args []cty.Value) (cty.Type, error) { return x.Type(args[0].Type()), nil },
		Impl:   func(args []cty.Value, retType cty.Type) (cty.Value, error) { return x.Apply(args[0]), nil },
	})
	g.count("spec:transformfunc")
	return &SNode{Kind: KTransformFunc, X: x, Kids: []*SNode{n}, Spec: &hcldec.TransformFuncSpec{Wrapped: n.Spec, Func: fn}}
}

// refine wraps n in a RefineValueSpec whose refinement the wrapped value is guaranteed to satisfy:
// "not null" over something that cannot be null (made so with a DefaultSpec when necessary).
func (g *SpecGen) refine(n *SNode) *SNode {
	inner := n
	if !neverNull(n) {
		t := n.Implied()
		if t.HasDynamicTypes() || !t.Equals(t.WithoutOptionalAttributesDeep()) {
			// cannot build a literal default of the same implied type: validate instead
			return g.validate(n)
		}
		var lit cty.Value
		for {
			lit = g.ValueOfType(t, 2)
			if !lit.IsNull() {
				break
			}
		}
		d := &SNode{Kind: KLiteral, Lit: lit, Spec: &hcldec.LiteralSpec{Value: lit}}
		inner = &SNode{Kind: KDefault, Kids: []*SNode{n, d}, Spec: &hcldec.DefaultSpec{Primary: n.Spec, Default: d.Spec}}
		g.count("spec:default")
		g.count("spec:literal")
	}
	g.count("spec:refine")
	return &SNode{Kind: KRefine, Refine: "notnull", Kids: []*SNode{inner}, Spec: &hcldec.RefineValueSpec{Wrapped: inner.Spec, Refine: func(b *cty.RefinementBuilder) *cty.RefinementBuilder { return b.NotNull() }}}
}

func blockInside(n *SNode) bool {
	found := false
	n.SameBody(func(m *SNode) {
		if m.IsBlockKind() {
			found = true
		}
	})
	return found
}

// neverNull: the node's value is never null, whatever the body.
func neverNull(n *SNode) bool {
	switch n.Kind {
	case KObject, KTuple, KLabel, KBlockList, KBlockSet, KBlockTuple, KBlockMap, KBlockObject:
		return true
	case KLiteral:
		return !n.Lit.IsNull()
	case KRefine:
		return true
	case KValidate:
		return neverNull(n.Kids[0])
	case KTransformExpr, KTransformFunc:
		return n.X.Name != "id" || neverNull(n.Kids[0])
	case KDefault:
		return neverNull(n.Kids[0]) || neverNull(n.Kids[1])
	}
	return false
}

// gen makes one spec node of a random kind.
func (g *SpecGen) gen(depth int, c *genCtx) *SNode {
	r := g.R
	for {
		k := r.Weighted([]int{
			14, // 0 attr
			3,  // 1 literal
			2,  // 2 expr
			4,  // 3 block
			5,  // 4 blocklist
			3,  // 5 blocktuple
			3,  // 6 blockset
			4,  // 7 blockmap
			3,  // 8 blockobject
			3,  // 9 blockattrs
			2,  // 10 label
			5,  // 11 default
			6,  // 12 wrapper
			3,  // 13 container
		})
		if depth <= 0 && (k >= 3 && k <= 8 || k >= 12) {
			continue
		}
		if c.notBlock && k >= 3 && k <= 9 {
			continue
		}
		switch k {
		case 0:
			return g.attr(c, nil)
		case 1:
			t := g.AttrType(true)
			lit := g.ValueOfType(t, 2)
			if !c.noDyn && !g.NoDynamic && r.Chance(1, 10) {
				lit = cty.DynamicVal
				if r.Chance(1, 2) {
					lit = cty.UnknownVal(t.WithoutOptionalAttributesDeep())
				}
			}
			g.count("spec:literal")
			return &SNode{Kind: KLiteral, Lit: lit, Spec: &hcldec.LiteralSpec{Value: lit}}
		case 2:
			if c.noDyn || g.NoDynamic {
				continue
			}
			return g.expr()
		case 3, 4, 5, 6, 7, 8:
			if (c.noDyn || g.NoDynamic) && (k == 5 || k == 8) {
				continue
			}
			return g.block(k, depth, c)
		case 9:
			t := g.AttrType(c.noDyn)
			if !t.Equals(t.WithoutOptionalAttributesDeep()) && r.Chance(2, 3) {
				t = t.WithoutOptionalAttributesDeep()
			}
			name := g.freshBlock(c)
			req := r.Chance(1, 3)
			g.count("spec:blockattrs")
			return &SNode{Kind: KBlockAttrs, Name: name, Type: t, Required: req, Spec: &hcldec.BlockAttrsSpec{TypeName: name, ElementType: t, Required: req}}
		case 10:
			if c.labels == 0 {
				continue
			}
			return g.label(r.Intn(c.labels))
		case 11:
			return g.defaultSpec(depth, c)
		case 12:
			return g.wrap(g.gen(depth-1, c), c)
		default:
			return g.containerNoForcedLabels(depth-1, c)
		}
	}
}

func (g *SpecGen) containerNoForcedLabels(depth int, c *genCtx) *SNode {
	// label specs may still be picked at random (c.labels unchanged); only the forcing is skipped
	kids := []*SNode{}
	n := 1 + g.R.Intn(3)
	for i := 0; i < n; i++ {
		kids = append(kids, g.gen(depth-1, c))
	}
	sp := hcldec.ObjectSpec{}
	node := &SNode{Kind: KObject, Kids: kids}
	for i, k := range kids {
		key := fmt.Sprintf("g%d", i)
		node.Keys = append(node.Keys, key)
		sp[key] = k.Spec
	}
	node.Spec = sp
	g.count("spec:object")
	return node
}

func (g *SpecGen) attr(c *genCtx, forceType *cty.Type) *SNode {
	r := g.R
	var t cty.Type
	if forceType != nil {
		t = *forceType
	} else {
		t = g.AttrType(c.noDyn)
	}
	name := g.freshAttr(c)
	req := r.Chance(1, 3)
	g.count("spec:attr")
	if t == cty.DynamicPseudoType {
		g.count("spec:attr-dynamic")
	} else if !t.Equals(t.WithoutOptionalAttributesDeep()) {
		g.count("spec:attr-optional-object-attrs")
	}
	return &SNode{Kind: KAttr, Name: name, Type: t, Required: req, Spec: &hcldec.AttrSpec{Name: name, Type: t, Required: req}}
}

func (g *SpecGen) expr() *SNode {
	r := g.R
	g.count("spec:expr")
	if len(g.Vars) > 0 && r.Chance(1, 2) {
		names := SortedKeys(g.Vars)
		name := names[r.Intn(len(names))]
		e, _ := hclsyntax.ParseExpression([]byte(name), "expr.hcl", hcl.InitialPos)
		return &SNode{Kind: KExpr, ExprVar: name, Lit: g.Vars[name], Spec: &hcldec.ExprSpec{Expr: e}}
	}
	v := RandLiteral(r, 1, true)
	if r.Chance(1, 2) {
		return &SNode{Kind: KExpr, Lit: v, Spec: &hcldec.ExprSpec{Expr: hcl.StaticExpr(v, hcl.Range{Filename: "static"})}}
	}
	e, diags := hclsyntax.ParseExpression([]byte(NativeValue(v)), "expr.hcl", hcl.InitialPos)
	if diags.HasErrors() {
		panic(diags.Error())
	}
	return &SNode{Kind: KExpr, Lit: v, Spec: &hcldec.ExprSpec{Expr: e}}
}

// block makes one of the block spec kinds with a nested spec for a fresh body.
func (g *SpecGen) block(k int, depth int, c *genCtx) *SNode {
	r := g.R
	name := g.freshBlock(c)
	sub := &genCtx{attrs: map[string]bool{}, types: map[string]bool{}, noDyn: c.noDyn || k == 7}
	if r.Chance(1, 3) {
		sub.labels = 1 + r.Intn(2)
	}
	var nested *SNode
	if sub.labels > 0 || r.Chance(3, 4) {
		nested = g.container(depth-1, sub)
	} else {
		nested = g.gen(depth-1, sub)
	}
	node := &SNode{Name: name, Kids: []*SNode{nested}, NLabels: sub.labels}
	switch k {
	case 3:
		node.Kind = KBlock
		node.Required = r.Chance(1, 3)
		node.Spec = &hcldec.BlockSpec{TypeName: name, Nested: nested.Spec, Required: node.Required}
	case 4, 5, 6:
		if r.Chance(1, 3) {
			node.Min = r.Intn(3)
		}
		if r.Chance(1, 3) {
			node.Max = node.Min + r.Intn(3)
			if node.Max == 0 {
				node.Max = 1
			}
		}
		switch k {
		case 4:
			node.Kind = KBlockList
			node.Spec = &hcldec.BlockListSpec{TypeName: name, Nested: nested.Spec, MinItems: node.Min, MaxItems: node.Max}
		case 5:
			node.Kind = KBlockTuple
			node.Spec = &hcldec.BlockTupleSpec{TypeName: name, Nested: nested.Spec, MinItems: node.Min, MaxItems: node.Max}
		default:
			node.Kind = KBlockSet
			node.Spec = &hcldec.BlockSetSpec{TypeName: name, Nested: nested.Spec, MinItems: node.Min, MaxItems: node.Max}
		}
	case 7, 8:
		nl := 1 + r.Intn(3)
		if r.Chance(1, 2) {
			nl = 1
		}
		for i := 0; i < nl; i++ {
			node.LabelNames = append(node.LabelNames, fmt.Sprintf("key%d", i))
		}
		node.NLabels += nl
		if k == 7 {
			node.Kind = KBlockMap
			node.Spec = &hcldec.BlockMapSpec{TypeName: name, LabelNames: node.LabelNames, Nested: nested.Spec}
		} else {
			node.Kind = KBlockObject
			node.Spec = &hcldec.BlockObjectSpec{TypeName: name, LabelNames: node.LabelNames, Nested: nested.Spec}
		}
	}
	g.count("spec:" + string(node.Kind))
	if sub.labels > 0 {
		g.count("spec:block-with-label-specs")
	}
	return node
}

// defaultSpec makes a DefaultSpec whose two sides have the same implied type and whose default side
// does not describe a block.
func (g *SpecGen) defaultSpec(depth int, c *genCtx) *SNode {
	r := g.R
	var prim *SNode
	switch {
	case depth > 0 && !c.notBlock && r.Chance(1, 4):
		// an optional block
		prim = g.block(3, depth, c)
		prim.Required = false
		prim.Spec.(*hcldec.BlockSpec).Required = false
	case !c.notBlock && r.Chance(1, 6):
		t := g.AttrType(true).WithoutOptionalAttributesDeep()
		name := g.freshBlock(c)
		prim = &SNode{Kind: KBlockAttrs, Name: name, Type: t, Spec: &hcldec.BlockAttrsSpec{TypeName: name, ElementType: t}}
		g.count("spec:blockattrs")
	default:
		prim = g.attr(c, nil)
		if r.Chance(19, 20) {
			prim.Required = false
			prim.Spec.(*hcldec.AttrSpec).Required = false
		}
	}
	if prim.Kind != KAttr && r.Chance(1, 2) {
		// a same-body wrapper between the default and the block spec: the default is "block-like" for
		// everything that looks for nested specs, and still has to pass its same-body children on
		switch r.Intn(3) {
		case 0:
			prim = g.validate(prim)
		case 1:
			prim = g.transformFunc(prim)
		default:
			prim = g.refine(prim)
		}
		g.count("spec:default-over-wrapped-block")
	}
	t := prim.Implied()
	var def *SNode
	concrete := !t.HasDynamicTypes() && t.Equals(t.WithoutOptionalAttributesDeep())
	switch {
	case concrete && r.Chance(2, 3):
		lit := g.ValueOfType(t, 2)
		def = &SNode{Kind: KLiteral, Lit: lit, Spec: &hcldec.LiteralSpec{Value: lit}}
		g.count("spec:literal")
	case t == cty.DynamicPseudoType && !g.NoDynamic && !c.noDyn && r.Chance(1, 2):
		def = g.expr()
	case prim.Kind == KAttr || r.Chance(1, 2) || !concrete:
		// another attribute of the very same type constraint
		if prim.Kind == KAttr {
			def = g.attr(c, &prim.Type)
		} else if concrete {
			def = g.attr(c, &t)
		}
		if def != nil && r.Chance(9, 10) {
			// "if the Default spec is for a required attribute then that attribute is always required":
			// allowed, kept rare
			def.Required = false
			def.Spec.(*hcldec.AttrSpec).Required = false
		}
		if def == nil {
			// a block whose nested implied type is not concrete: no admissible default other than the
			// same-typed expression; give up on the default and return the primary alone
			return prim
		}
		if r.Chance(1, 4) && concrete {
			// chain: default of the default
			lit := g.ValueOfType(t, 2)
			d2 := &SNode{Kind: KLiteral, Lit: lit, Spec: &hcldec.LiteralSpec{Value: lit}}
			def = &SNode{Kind: KDefault, Kids: []*SNode{def, d2}, Spec: &hcldec.DefaultSpec{Primary: def.Spec, Default: d2.Spec}}
			g.count("spec:default")
		}
	default:
		lit := g.ValueOfType(t, 2)
		def = &SNode{Kind: KLiteral, Lit: lit, Spec: &hcldec.LiteralSpec{Value: lit}}
		g.count("spec:literal")
	}
	g.count("spec:default")
	return &SNode{Kind: KDefault, Kids: []*SNode{prim, def}, Spec: &hcldec.DefaultSpec{Primary: prim.Spec, Default: def.Spec}}
}
