package decgen

import (
	"fmt"

	"github.com/zclconf/go-cty/cty"

	"hx/lib"
)

// BodyGen generates abstract configurations for a specification tree.
type BodyGen struct {
	R     *lib.Rand
	Plain bool
	// Vars are root variables an attribute may be written as a reference to (name -> value).
	Vars  map[string]cty.Value
	Count func(string)
	// MixDynamic: probability (x/10) that values given to cty.DynamicPseudoType attributes vary in kind
	// from block to block (which makes BlockList/BlockSet element types inconsistent).
	MixDynamic int
}

func (g *BodyGen) count(k string) {
	if g.Count != nil {
		g.Count(k)
	}
}

var labelPool = []string{"l0", "l1", "l2", "l_3", "l-4", "label five", "l.6", "L7", "l${8}", "l😀", ""}

func (g *BodyGen) Label() string {
	if g.Plain {
		return labelPool[g.R.Intn(5)]
	}
	return labelPool[g.R.Intn(len(labelPool))]
}

// LiteralFor makes a literal (JSON-expressible) value that converts to the type constraint t.
func (g *BodyGen) LiteralFor(t cty.Type, depth int) cty.Value {
	r := g.R
	if r.Chance(1, 15) {
		return cty.NullVal(cty.DynamicPseudoType)
	}
	switch {
	case t == cty.String:
		switch r.Intn(8) {
		case 0:
			return RandNumber(r)
		case 1:
			return cty.BoolVal(r.Chance(1, 2))
		}
		return cty.StringVal(RandString(r, g.Plain))
	case t == cty.Number:
		if r.Chance(1, 6) {
			return cty.StringVal([]string{"12", "0.5", "-3", "1e3"}[r.Intn(4)])
		}
		return RandNumber(r)
	case t == cty.Bool:
		if r.Chance(1, 6) {
			return cty.StringVal([]string{"true", "false"}[r.Intn(2)])
		}
		return cty.BoolVal(r.Chance(1, 2))
	case t == cty.DynamicPseudoType:
		if g.MixDynamic > 0 && r.Chance(g.MixDynamic, 10) {
			return RandLiteral(r, depth, g.Plain)
		}
		return cty.StringVal(RandString(r, g.Plain))
	case t.IsListType() || t.IsSetType():
		n := r.Intn(4)
		vs := make([]cty.Value, n)
		for i := range vs {
			vs[i] = g.LiteralFor(t.ElementType(), depth-1)
		}
		return cty.TupleVal(vs)
	case t.IsMapType():
		n := r.Intn(4)
		m := map[string]cty.Value{}
		for i := 0; i < n; i++ {
			m[RandKey(r, g.Plain)] = g.LiteralFor(t.ElementType(), depth-1)
		}
		return cty.ObjectVal(m)
	case t.IsTupleType():
		ets := t.TupleElementTypes()
		vs := make([]cty.Value, len(ets))
		for i := range vs {
			vs[i] = g.LiteralFor(ets[i], depth-1)
		}
		return cty.TupleVal(vs)
	case t.IsObjectType():
		m := map[string]cty.Value{}
		atys := t.AttributeTypes()
		for _, k := range SortedKeys(atys) { // (sorted: every random draw must replay)
			et := atys[k]
			if t.AttributeOptional(k) && r.Chance(1, 2) {
				continue
			}
			m[k] = g.LiteralFor(et, depth-1)
		}
		return cty.ObjectVal(m)
	}
	return cty.StringVal("?")
}

// WrongLiteralFor makes a literal that is meant not to convert to t (it may still convert now and then:
// the expected outcome is always computed, never assumed).
func (g *BodyGen) WrongLiteralFor(t cty.Type) cty.Value {
	r := g.R
	switch {
	case t == cty.String:
		if r.Chance(1, 2) {
			return cty.TupleVal([]cty.Value{cty.StringVal("x")})
		}
		return cty.ObjectVal(map[string]cty.Value{"k0": cty.True})
	case t == cty.Number:
		return []cty.Value{cty.StringVal("abc"), cty.EmptyTupleVal, cty.True, cty.StringVal("")}[r.Intn(4)]
	case t == cty.Bool:
		return []cty.Value{cty.StringVal("maybe"), cty.NumberIntVal(2), cty.EmptyObjectVal}[r.Intn(3)]
	case t.IsListType() || t.IsSetType() || t.IsTupleType():
		return []cty.Value{cty.StringVal("notalist"), cty.ObjectVal(map[string]cty.Value{"k0": cty.StringVal("v")}), cty.NumberIntVal(3), cty.TupleVal([]cty.Value{cty.EmptyObjectVal, cty.StringVal("s"), cty.True, cty.EmptyTupleVal})}[r.Intn(4)]
	case t.IsMapType() || t.IsObjectType():
		return []cty.Value{cty.StringVal("notamap"), cty.TupleVal([]cty.Value{cty.StringVal("v")}), cty.False, cty.ObjectVal(map[string]cty.Value{"k0": cty.EmptyTupleVal, "zz": cty.EmptyObjectVal})}[r.Intn(4)]
	}
	return RandLiteral(r, 2, g.Plain)
}

// Body makes a configuration conforming to the specification node n (decoded against one body).
func (g *BodyGen) Body(n *SNode) *Body {
	b := &Body{}
	var nodes []*SNode
	n.SameBody(func(m *SNode) { nodes = append(nodes, m) })
	seenAttr := map[string]bool{}
	seenType := map[string]bool{}
	for _, m := range nodes {
		switch {
		case m.Kind == KAttr:
			if seenAttr[m.Name] {
				continue
			}
			seenAttr[m.Name] = true
			if !m.Required && g.R.Chance(1, 4) {
				continue
			}
			g.addAttr(b, m.Name, m.Type)
		case m.IsBlockKind():
			if seenType[m.Name] {
				continue
			}
			seenType[m.Name] = true
			g.addBlocks(b, m)
		}
	}
	// shuffle the items (block order within a type is irrelevant at generation time)
	for i := len(b.Items) - 1; i > 0; i-- {
		j := g.R.Intn(i + 1)
		b.Items[i], b.Items[j] = b.Items[j], b.Items[i]
	}
	return b
}

func (g *BodyGen) addAttr(b *Body, name string, t cty.Type) {
	if len(g.Vars) > 0 && g.R.Chance(1, 8) {
		names := SortedKeys(g.Vars)
		ref := names[g.R.Intn(len(names))]
		b.Items = append(b.Items, Item{Attr: &Attr{Name: name, Val: g.Vars[ref], Ref: ref}})
		g.count("attr-by-reference")
		return
	}
	b.AddAttr(name, g.LiteralFor(t, 2))
}

func (g *BodyGen) labels(n int) []string {
	ls := make([]string, n)
	for i := range ls {
		ls[i] = g.Label()
	}
	return ls
}

func (g *BodyGen) addBlocks(b *Body, m *SNode) {
	r := g.R
	count := 0
	switch m.Kind {
	case KBlock, KBlockAttrs:
		count = 1
		if !m.Required && r.Chance(1, 3) {
			count = 0
		}
	case KBlockList, KBlockTuple, KBlockSet:
		hi := m.Min + 3
		if m.Max > 0 {
			hi = m.Max
		}
		count = m.Min + r.Intn(hi-m.Min+1)
	case KBlockMap, KBlockObject:
		count = r.Intn(4)
	}
	used := map[string]bool{}
	for i := 0; i < count; i++ {
		k := &Block{Type: m.Name, Labels: g.labels(m.NLabels)}
		if m.Kind == KBlockMap || m.Kind == KBlockObject {
			key := fmt.Sprint(k.Labels[:len(m.LabelNames)])
			if used[key] {
				// make the key labels unique
				k.Labels[len(m.LabelNames)-1] += fmt.Sprintf("_%d", i)
				key = fmt.Sprint(k.Labels[:len(m.LabelNames)])
			}
			used[key] = true
		}
		if m.Kind == KBlockAttrs {
			k.Body = &Body{}
			na := r.Intn(4)
			for j := 0; j < na; j++ {
				name := fmt.Sprintf("m%d", j)
				if r.Chance(1, 5) {
					name = []string{"m-x", "m_y", "a", "b"}[r.Intn(4)] + fmt.Sprint(j)
				}
				g.addAttr(k.Body, name, m.Type)
			}
		} else {
			k.Body = g.Body(m.Kids[0])
		}
		b.AddBlock(k)
	}
}

// ---------------------------------------------------------------------------------------------
// Perturbations.

// bodies lists every body of the tree (the root first).
func bodies(b *Body) []*Body {
	out := []*Body{b}
	for _, it := range b.Items {
		if it.Block != nil {
			out = append(out, bodies(it.Block.Body)...)
		}
	}
	return out
}

// typeOfAttr finds the declared type of an attribute of a body decoded by the same-body nodes of n.
func attrTypeIn(n *SNode, name string) (cty.Type, bool) {
	var t cty.Type
	found := false
	if n == nil {
		return t, false
	}
	n.SameBody(func(m *SNode) {
		if m.Kind == KAttr && m.Name == name && !found {
			t, found = m.Type, true
		}
	})
	return t, found
}

// specFor maps every body of the tree to the spec node it is decoded with (nil when the body belongs to
// a BlockAttrs block or to a block the spec does not know).
func specFor(n *SNode, b *Body, out map[*Body]*SNode) {
	out[b] = n
	byType := map[string]*SNode{}
	if n != nil {
		n.SameBody(func(m *SNode) {
			if m.IsBlockKind() {
				if _, ok := byType[m.Name]; !ok {
					byType[m.Name] = m
				}
			}
		})
	}
	for _, it := range b.Items {
		if it.Block == nil {
			continue
		}
		m := byType[it.Block.Type]
		if m == nil || m.Kind == KBlockAttrs {
			specFor(nil, it.Block.Body, out)
			if m != nil {
				out[it.Block.Body] = m // BlockAttrs node itself, recognised by Kind
			}
			continue
		}
		specFor(m.Kids[0], it.Block.Body, out)
	}
}

// Perturb applies 1..3 random perturbations to a copy of b and returns it with the names of the
// perturbations applied.
func (g *BodyGen) Perturb(n *SNode, b0 *Body) (*Body, []string) {
	r := g.R
	b := b0.Clone()
	var tags []string
	for k := 1 + r.Intn(3); k > 0; k-- {
		all := bodies(b)
		smap := map[*Body]*SNode{}
		specFor(n, b, smap)
		tb := all[r.Intn(len(all))]
		if r.Chance(1, 2) {
			tb = b
		}
		sn := smap[tb]
		var attrIdx, blockIdx []int
		for i, it := range tb.Items {
			if it.Attr != nil {
				attrIdx = append(attrIdx, i)
			} else {
				blockIdx = append(blockIdx, i)
			}
		}
		remove := func(i int) { tb.Items = append(tb.Items[:i:i], tb.Items[i+1:]...) }
		insert := func(it Item) {
			p := r.Intn(len(tb.Items) + 1)
			tb.Items = append(tb.Items[:p:p], append([]Item{it}, tb.Items[p:]...)...)
		}
		switch r.Intn(11) {
		case 0: // missing attribute
			if len(attrIdx) > 0 {
				remove(attrIdx[r.Intn(len(attrIdx))])
				tags = append(tags, "drop-attr")
			}
		case 1: // extra attribute
			insert(Item{Attr: &Attr{Name: "zz_extra", Val: RandLiteral(r, 1, g.Plain)}})
			tags = append(tags, "extra-attr")
		case 2: // wrong literal type
			if len(attrIdx) > 0 {
				a := tb.Items[attrIdx[r.Intn(len(attrIdx))]].Attr
				var t cty.Type
				ok := false
				if sn != nil && sn.Kind == KBlockAttrs {
					t, ok = sn.Type, true
				} else {
					t, ok = attrTypeIn(sn, a.Name)
				}
				if ok {
					a.Val, a.Ref = g.WrongLiteralFor(t), ""
				} else {
					a.Val, a.Ref = RandLiteral(r, 2, g.Plain), ""
				}
				tags = append(tags, "wrong-literal-type")
			}
		case 3: // missing block
			if len(blockIdx) > 0 {
				remove(blockIdx[r.Intn(len(blockIdx))])
				tags = append(tags, "drop-block")
			}
		case 4: // all blocks of one type removed (zero where one/many expected)
			if len(blockIdx) > 0 {
				t := tb.Items[blockIdx[r.Intn(len(blockIdx))]].Block.Type
				var keep []Item
				for _, it := range tb.Items {
					if it.Block == nil || it.Block.Type != t {
						keep = append(keep, it)
					}
				}
				tb.Items = keep
				tags = append(tags, "drop-all-blocks-of-type")
			}
		case 5: // duplicate block (many where one expected, repeated map keys, beyond MaxItems)
			if len(blockIdx) > 0 {
				k := tb.Items[blockIdx[r.Intn(len(blockIdx))]].Block
				for c := 1 + r.Intn(3); c > 0; c-- {
					d := *k
					d.Labels = append([]string{}, k.Labels...)
					d.Body = k.Body.Clone()
					if r.Chance(1, 3) && len(d.Labels) > 0 {
						d.Labels[len(d.Labels)-1] += "x"
					}
					insert(Item{Block: &d})
				}
				tags = append(tags, "dup-block")
			}
		case 6: // block of an unknown type
			insert(Item{Block: &Block{Type: "zz_blk", Labels: g.labels(r.Intn(2)), Body: &Body{}}})
			tags = append(tags, "extra-block")
		case 7: // wrong label count
			if len(blockIdx) > 0 {
				k := tb.Items[blockIdx[r.Intn(len(blockIdx))]].Block
				if len(k.Labels) > 0 && r.Chance(1, 2) {
					k.Labels = k.Labels[:len(k.Labels)-1]
					tags = append(tags, "label-fewer")
				} else {
					k.Labels = append(k.Labels, g.Label())
					tags = append(tags, "label-more")
				}
			}
		case 8: // block where an attribute is expected
			if len(attrIdx) > 0 {
				i := attrIdx[r.Intn(len(attrIdx))]
				tb.Items[i] = Item{Block: &Block{Type: tb.Items[i].Attr.Name, Body: &Body{}}}
				tags = append(tags, "block-for-attr")
			}
		case 9: // attribute where a block is expected
			if len(blockIdx) > 0 {
				i := blockIdx[r.Intn(len(blockIdx))]
				t := tb.Items[i].Block.Type
				var keep []Item
				done := false
				for j, it := range tb.Items {
					if it.Block != nil && it.Block.Type == t {
						if j == i && !done {
							keep = append(keep, Item{Attr: &Attr{Name: t, Val: RandLiteral(r, 1, g.Plain)}})
							done = true
						}
						continue // an attribute can be defined only once and not next to blocks of its name
					}
					keep = append(keep, it)
				}
				tb.Items = keep
				tags = append(tags, "attr-for-block")
			}
		default: // a nested block inside some block body (e.g. inside a BlockAttrs block)
			if len(blockIdx) > 0 {
				k := tb.Items[blockIdx[r.Intn(len(blockIdx))]].Block
				k.Body.AddBlock(&Block{Type: "zz_in", Body: &Body{}})
				tags = append(tags, "nested-extra-block")
			}
		}
	}
	return dedupeAttrs(b), tags
}

// dedupeAttrs keeps the first definition of each attribute name in every body (the native syntax cannot
// express a repeated attribute).
func dedupeAttrs(b *Body) *Body {
	seen := map[string]bool{}
	var keep []Item
	for _, it := range b.Items {
		if it.Attr != nil {
			if seen[it.Attr.Name] {
				continue
			}
			seen[it.Attr.Name] = true
		} else {
			it.Block.Body = dedupeAttrs(it.Block.Body)
		}
		keep = append(keep, it)
	}
	b.Items = keep
	return b
}

// MarkDynUnknown rewrites some blocks as dynamic blocks with the unknown for_each variable name.
func (g *BodyGen) MarkDynUnknown(b *Body, varName string) int {
	n := 0
	for _, tb := range bodies(b) {
		for _, it := range tb.Items {
			if it.Block != nil && it.Block.Type != "dynamic" && g.R.Chance(1, 3) {
				it.Block.DynUnknown = varName
				n++
			}
		}
	}
	return n
}

// BodySpecs maps every body of the configuration to the spec node it is decoded with: the nested spec of
// the block kind that consumes the block, the BlockAttrs node itself for a BlockAttrs block's body, nil
// for bodies the spec does not reach.
func BodySpecs(n *SNode, b *Body) map[*Body]*SNode {
	out := map[*Body]*SNode{}
	specFor(n, b, out)
	return out
}
