package decgen

import (
	"github.com/zclconf/go-cty/cty"
	"github.com/zclconf/go-cty/cty/convert"
)

// Denotation is the harness's independent reading of what a specification describes for a configuration.
type Denotation struct {
	Val cty.Value // meaningful only when !Err
	Err bool      // the configuration is not valid for the specification (an error must be reported)
	// Inexact: the value is determined only up to the conversion of list/set elements to their unified
	// type (nested cty.DynamicPseudoType attributes given values of different types); Val then holds the
	// unconverted elements.
	Inexact bool
	Why     string // class of the first reason for Err
	Detail  string // what it was about
	// Flags records that the configuration exercises a construct whose handling is a recorded defect, so
	// that downstream manifestations can be attributed to it: "empty-multilabel-blockmap" (a BlockMapSpec
	// with several label names and no block), "required-attr-under-default" (a Required AttrSpec inside a
	// DefaultSpec: its schema entry is duplicated), "optional-attrs-in-empty-collection" (an empty block
	// collection whose element type constraint has optional attributes).
	Flags map[string]bool
	// UnifyDyn: the element types of some block list / set unify to a type that still has dynamic parts
	// (the elements then keep different types: go-cty's ListVal / SetVal panic on that — recorded finding)
	UnifyDyn bool
}

type denoter struct {
	err      bool
	why      string
	detail   string
	inexact  bool
	flags    map[string]bool
	unifyDyn bool
}

func (d *denoter) fail(class, detail string) {
	if !d.err {
		d.err, d.why, d.detail = true, class, detail
	}
}

// Denote computes the value hcldec.Decode (partial=false) or hcldec.PartialDecode (partial=true) is
// specified to produce for the root body b under the spec tree n.
func Denote(n *SNode, b *Body, partial bool) Denotation {
	d := &denoter{flags: map[string]bool{}}
	return d.run(n, b, partial)
}

func (d *denoter) run(n *SNode, b *Body, partial bool) Denotation {
	v := d.body(n, b, nil, partial)
	return Denotation{Val: v, Err: d.err, Inexact: d.inexact, Why: d.why, Detail: d.detail, Flags: d.flags, UnifyDyn: d.unifyDyn}
}

type content struct {
	attrs  map[string]*Attr
	blocks []*Block
}

// body applies the schema implied by the same-body nodes of n to b, then decodes.
func (d *denoter) body(n *SNode, b *Body, labels []string, partial bool) cty.Value {
	attrS := map[string]bool{} // name -> required
	blockS := map[string]int{} // type -> number of labels
	var underDefault func(m *SNode, in bool)
	underDefault = func(m *SNode, in bool) {
		if m.Kind == KAttr && m.Required && in {
			d.flags["required-attr-under-default"] = true
		}
		if m.IsBlockKind() {
			return
		}
		for _, k := range m.Kids {
			underDefault(k, in || m.Kind == KDefault)
		}
	}
	underDefault(n, false)
	n.SameBody(func(m *SNode) {
		switch {
		case m.Kind == KAttr:
			attrS[m.Name] = attrS[m.Name] || m.Required
		case m.IsBlockKind():
			blockS[m.Name] = m.NLabels
		}
	})
	c := &content{attrs: map[string]*Attr{}}
	for _, it := range b.Items {
		if it.Attr != nil {
			if _, ok := attrS[it.Attr.Name]; ok {
				c.attrs[it.Attr.Name] = it.Attr
			} else if !partial {
				d.fail("unsupported-argument", it.Attr.Name)
			}
			continue
		}
		k := it.Block
		nl, ok := blockS[k.Type]
		if !ok {
			if !partial {
				d.fail("unsupported-block-type", k.Type)
			}
			continue
		}
		if len(k.Labels) != nl {
			d.fail("wrong-label-count", k.Type)
			continue
		}
		c.blocks = append(c.blocks, k)
	}
	for _, name := range SortedKeys(attrS) {
		if req := attrS[name]; req && c.attrs[name] == nil {
			d.fail("missing-required-argument", name)
		}
	}
	return d.node(n, c, labels)
}

func (c *content) ofType(t string) []*Block {
	var out []*Block
	for _, k := range c.blocks {
		if k.Type == t {
			out = append(out, k)
		}
	}
	return out
}

func noOpt(t cty.Type) cty.Type { return t.WithoutOptionalAttributesDeep() }

func (d *denoter) node(n *SNode, c *content, labels []string) cty.Value {
	switch n.Kind {
	case KObject:
		m := map[string]cty.Value{}
		for i, k := range n.Kids {
			m[n.Keys[i]] = d.node(k, c, labels)
		}
		return cty.ObjectVal(m)
	case KTuple:
		vs := make([]cty.Value, len(n.Kids))
		for i, k := range n.Kids {
			vs[i] = d.node(k, c, labels)
		}
		return cty.TupleVal(vs)
	case KAttr:
		a := c.attrs[n.Name]
		if a == nil {
			return cty.NullVal(noOpt(n.Type))
		}
		v, err := convert.Convert(a.Val, n.Type)
		if err != nil {
			d.fail("attribute-does-not-convert", n.Name+": "+err.Error())
			return cty.UnknownVal(noOpt(n.Type))
		}
		return v
	case KLiteral, KExpr:
		return n.Lit
	case KLabel:
		return cty.StringVal(labels[n.Index])
	case KBlock:
		bs := c.ofType(n.Name)
		if len(bs) > 1 {
			d.fail("duplicate-single-block", n.Name)
		}
		if len(bs) == 0 {
			if n.Required {
				d.fail("missing-required-block", n.Name)
			}
			return cty.NullVal(noOpt(n.Kids[0].Implied()))
		}
		return d.body(n.Kids[0], bs[0].Body, bs[0].Labels, false)
	case KBlockList, KBlockTuple, KBlockSet:
		bs := c.ofType(n.Name)
		if len(bs) < n.Min {
			d.fail("fewer-than-min-items", n.Name)
		} else if n.Max > 0 && len(bs) > n.Max {
			d.fail("more-than-max-items", n.Name)
		}
		vs := make([]cty.Value, len(bs))
		for i, k := range bs {
			vs[i] = d.body(n.Kids[0], k.Body, k.Labels, false)
		}
		if n.Kind == KBlockTuple {
			return cty.TupleVal(vs)
		}
		ety := n.Kids[0].Implied()
		if len(vs) == 0 && HasOptionalMarkers(ety) {
			d.flags["optional-attrs-in-empty-collection"] = true
		}
		if len(vs) == 0 {
			if n.Kind == KBlockList {
				return cty.ListValEmpty(noOpt(ety))
			}
			return cty.SetValEmpty(noOpt(ety))
		}
		same := true
		for _, v := range vs[1:] {
			if !v.Type().Equals(vs[0].Type()) {
				same = false
			}
		}
		if !same {
			// The elements must be convertible to a single type. Whether they are is decided here with
			// cty's own unification (a library both sides rely on); the converted value is then checked
			// element-wise by the caller (Inexact).
			tys := make([]cty.Type, len(vs))
			for i, v := range vs {
				tys[i] = v.Type()
			}
			uty, convs := convert.UnifyUnsafe(tys)
			if uty == cty.NilType {
				d.fail("inconsistent-element-types", n.Name)
				return cty.DynamicVal
			}
			if uty.HasDynamicTypes() {
				d.unifyDyn = true
			}
			for i := range vs {
				if convs[i] != nil {
					nv, err := convs[i](vs[i])
					if err != nil {
						d.fail("inconsistent-element-types", n.Name)
						return cty.DynamicVal
					}
					vs[i] = nv
				}
			}
			d.inexact = true
		}
		if d.err {
			return cty.DynamicVal
		}
		if n.Kind == KBlockList {
			return cty.ListVal(vs)
		}
		return cty.SetVal(vs)
	case KBlockMap, KBlockObject:
		bs := c.ofType(n.Name)
		type tree struct {
			leaf cty.Value
			kids map[string]*tree
		}
		root := &tree{kids: map[string]*tree{}}
		nk := len(n.LabelNames)
		if n.Kind == KBlockMap && nk > 1 && len(bs) == 0 {
			d.flags["empty-multilabel-blockmap"] = true
		}
		if n.Kind == KBlockMap && len(bs) == 0 && HasOptionalMarkers(n.Kids[0].Implied()) {
			d.flags["optional-attrs-in-empty-collection"] = true
		}
		for _, k := range bs {
			v := d.body(n.Kids[0], k.Body, k.Labels[nk:], false)
			t := root
			for i := 0; i < nk-1; i++ {
				nt := t.kids[k.Labels[i]]
				if nt == nil {
					nt = &tree{kids: map[string]*tree{}}
					t.kids[k.Labels[i]] = nt
				}
				t = nt
			}
			key := k.Labels[nk-1]
			if t.kids[key] != nil {
				d.fail("duplicate-map-key-labels", n.Name)
				continue
			}
			t.kids[key] = &tree{leaf: v}
		}
		if d.err {
			return cty.DynamicVal
		}
		var build func(t *tree, depth int) cty.Value
		build = func(t *tree, depth int) cty.Value {
			m := map[string]cty.Value{}
			for k, sub := range t.kids {
				if depth == 1 {
					m[k] = sub.leaf
				} else {
					m[k] = build(sub, depth-1)
				}
			}
			if n.Kind == KBlockObject {
				return cty.ObjectVal(m)
			}
			return cty.MapVal(m)
		}
		if len(bs) == 0 {
			if n.Kind == KBlockObject {
				return cty.EmptyObjectVal
			}
			// an empty map of the implied type: one map level per label name
			t := noOpt(n.Kids[0].Implied())
			for i := 0; i < nk-1; i++ {
				t = cty.Map(t)
			}
			return cty.MapValEmpty(t)
		}
		return build(root, nk)
	case KBlockAttrs:
		bs := c.ofType(n.Name)
		if len(bs) == 0 {
			if n.Required {
				d.fail("missing-required-block", n.Name)
			}
			return cty.NullVal(cty.Map(noOpt(n.Type)))
		}
		if len(bs) > 1 {
			d.fail("duplicate-single-block", n.Name)
		}
		k := bs[0]
		m := map[string]cty.Value{}
		if HasOptionalMarkers(n.Type) {
			// an empty map, and the unknown placeholder of an attribute that fails to convert, are built from
			// the element type constraint as is
			d.flags["optional-attrs-in-empty-collection"] = true
		}
		for _, it := range k.Body.Items {
			if it.Block != nil {
				d.fail("block-inside-blockattrs", n.Name)
				continue
			}
			v, err := convert.Convert(it.Attr.Val, n.Type)
			if err != nil {
				d.fail("blockattrs-attribute-does-not-convert", n.Name)
				continue
			}
			m[it.Attr.Name] = v
		}
		if d.err {
			return cty.DynamicVal
		}
		if len(m) == 0 {
			return cty.MapValEmpty(noOpt(n.Type))
		}
		if n.Type.HasDynamicTypes() {
			// a map needs one element type: the values must agree
			var first cty.Type
			for _, key := range SortedKeys(m) {
				if m[key].Type() == cty.DynamicPseudoType {
					continue // null or unknown of no particular type: takes the type of the others
				}
				if first == cty.NilType {
					first = m[key].Type()
				} else if !m[key].Type().Equals(first) {
					d.fail("blockattrs-dynamic-mixed-types", n.Name)
					return cty.DynamicVal
				}
			}
		}
		return cty.MapVal(m)
	case KDefault:
		v := d.node(n.Kids[0], c, labels)
		if d.err {
			return v
		}
		if v.IsNull() {
			return d.node(n.Kids[1], c, labels)
		}
		return v
	case KTransformExpr, KTransformFunc:
		v := d.node(n.Kids[0], c, labels)
		if d.err {
			return cty.DynamicVal
		}
		return n.X.Apply(v)
	case KRefine:
		v := d.node(n.Kids[0], c, labels)
		if d.err {
			return v
		}
		return v.RefineNotNull()
	case KValidate:
		v := d.node(n.Kids[0], c, labels)
		if d.err {
			return v
		}
		if n.Validate == "err-if-null" && v.IsNull() {
			d.fail("validate-func-error", "null")
		}
		return v
	}
	panic("denote: unknown kind " + string(n.Kind))
}

// JSONAmbiguous reports whether the configuration, read through the JSON syntax under the schema implied
// by n, is not guaranteed to denote the same thing as in the native syntax: an attribute named like a
// block type or a block named like an attribute, a block whose number of labels differs from the schema's,
// or a block inside a body read in "just attributes" mode. (JSON distinguishes none of these without the
// schema.)
func JSONAmbiguous(n *SNode, b *Body) bool {
	attrS := map[string]bool{}
	blockS := map[string]*SNode{}
	n.SameBody(func(m *SNode) {
		switch {
		case m.Kind == KAttr:
			attrS[m.Name] = true
		case m.IsBlockKind():
			if _, ok := blockS[m.Name]; !ok {
				blockS[m.Name] = m
			}
		}
	})
	for _, it := range b.Items {
		if it.Attr != nil {
			if blockS[it.Attr.Name] != nil {
				return true
			}
			continue
		}
		k := it.Block
		if attrS[k.Type] {
			return true
		}
		m := blockS[k.Type]
		if m == nil {
			continue
		}
		if len(k.Labels) != m.NLabels {
			return true
		}
		if m.Kind == KBlockAttrs {
			if len(k.Body.Blocks()) > 0 {
				return true
			}
			continue
		}
		if JSONAmbiguous(m.Kids[0], k.Body) {
			return true
		}
	}
	return false
}
