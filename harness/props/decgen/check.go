package decgen

import (
	"fmt"
	"regexp"
	"runtime/debug"
	"strings"

	"github.com/hashicorp/hcl/v2"
	"github.com/zclconf/go-cty/cty"

	"hx/lib"
)

// LooseConforms says whether a value type conforms to an implied type up to optional-attribute markers:
// with the markers removed on both sides the types must be equal except where the implied type is
// cty.DynamicPseudoType.
func LooseConforms(got, implied cty.Type) bool {
	want := implied.WithoutOptionalAttributesDeep()
	g := got.WithoutOptionalAttributesDeep()
	if !want.HasDynamicTypes() {
		return g.Equals(want)
	}
	return len(g.TestConformance(want)) == 0
}

// HasOptionalMarkers says whether a type carries optional-attribute markers anywhere (such a type is a
// type constraint for conversion, not the type of a value).
func HasOptionalMarkers(t cty.Type) bool { return !t.Equals(t.WithoutOptionalAttributesDeep()) }

// Conforms is the full check: loose conformance, and a value type without optional-attribute markers.
func Conforms(got, implied cty.Type) bool {
	return LooseConforms(got, implied) && !HasOptionalMarkers(got)
}

// Shape names the outermost constructor of a type.
func Shape(t cty.Type) string {
	switch {
	case t == cty.DynamicPseudoType:
		return "dyn"
	case t.IsPrimitiveType():
		return t.FriendlyName()
	case t.IsListType():
		return "list"
	case t.IsSetType():
		return "set"
	case t.IsMapType():
		return "map"
	case t.IsTupleType():
		return "tuple"
	case t.IsObjectType():
		return "object"
	}
	return "other"
}

func stateOf(v cty.Value) string {
	switch {
	case !v.IsKnown():
		return "unknown"
	case v.IsNull():
		return "null"
	case v.CanIterateElements() && v.LengthInt() == 0:
		return "empty"
	}
	return "known"
}

// Blame locates the spec node whose value has a bad type (bad is given the value's type and the node's
// implied type) and describes it as "<path of collection kinds>/<spec kind>[<value state>]:<got shape>-vs-<implied shape>".
// The value must be unmarked.
func Blame(n *SNode, v cty.Value, bad func(got, implied cty.Type) bool) string {
	want := n.Implied()
	got := v.Type()
	if !bad(got, want) {
		return ""
	}
	here := fmt.Sprintf("%s[%s]:%s-vs-%s", n.Kind, stateOf(v), Shape(got), Shape(want))
	if !v.IsKnown() || v.IsNull() {
		switch n.Kind {
		case KValidate, KRefine, KBlock:
			if s := Blame(n.Kids[0], v, bad); s != "" {
				return s
			}
		case KDefault:
			if s := Blame(n.Kids[0], v, bad); s != "" {
				return "default/" + s
			}
		}
		return here
	}
	switch n.Kind {
	case KObject:
		if got.IsObjectType() {
			for i, k := range n.Kids {
				if got.HasAttribute(n.Keys[i]) {
					if s := Blame(k, v.GetAttr(n.Keys[i]), bad); s != "" {
						return s
					}
				}
			}
		}
	case KTuple:
		if got.IsTupleType() && got.Length() == len(n.Kids) {
			for i, k := range n.Kids {
				if s := Blame(k, v.Index(cty.NumberIntVal(int64(i))), bad); s != "" {
					return s
				}
			}
		}
	case KValidate, KRefine, KBlock:
		if s := Blame(n.Kids[0], v, bad); s != "" {
			return s
		}
	case KDefault:
		if s := Blame(n.Kids[0], v, bad); s != "" {
			return "default/" + s
		}
	case KTransformExpr, KTransformFunc:
		var inner cty.Value
		func() {
			defer func() { recover() }()
			inner = n.X.Unwrap(v)
		}()
		if inner != cty.NilVal {
			if s := Blame(n.Kids[0], inner, bad); s != "" {
				return "transform/" + s
			}
		}
	case KBlockAttrs:
		if got.IsMapType() || got.IsObjectType() {
			for it := v.ElementIterator(); it.Next(); {
				_, ev := it.Element()
				if bad(ev.Type(), n.Type) {
					return fmt.Sprintf("blockattrs-element[%s]:%s-vs-%s", stateOf(ev), Shape(ev.Type()), Shape(n.Type))
				}
			}
		}
	case KBlockList, KBlockSet, KBlockTuple:
		if got.IsListType() || got.IsSetType() || got.IsTupleType() {
			for it := v.ElementIterator(); it.Next(); {
				_, ev := it.Element()
				if s := Blame(n.Kids[0], ev, bad); s != "" {
					return string(n.Kind) + "-element/" + s
				}
			}
		}
	case KBlockMap, KBlockObject:
		var walk func(v cty.Value, depth int) string
		walk = func(v cty.Value, depth int) string {
			if depth == 0 {
				return Blame(n.Kids[0], v, bad)
			}
			if !v.IsKnown() || v.IsNull() || !(v.Type().IsMapType() || v.Type().IsObjectType()) {
				return ""
			}
			for it := v.ElementIterator(); it.Next(); {
				_, ev := it.Element()
				if s := walk(ev, depth-1); s != "" {
					return s
				}
			}
			return ""
		}
		if stateOf(v) != "empty" {
			if s := walk(v, len(n.LabelNames)); s != "" {
				return string(n.Kind) + "-element/" + s
			}
		}
		if n.Kind == KBlockMap {
			levels := 0
			for t := got; t.IsMapType(); t = t.ElementType() {
				levels++
			}
			wl := 0
			for t := want; t.IsMapType(); t = t.ElementType() {
				wl++
			}
			if levels != wl {
				return fmt.Sprintf("blockmap[%s]:multilabel-map-depth-differs-from-implied", stateOf(v))
			}
		}
	}
	return here
}

var reDigits = regexp.MustCompile(`[0-9]+`)
var reQuoted = regexp.MustCompile(`"[^"]*"`)

// SpecKindInStack names the innermost hcldec spec kind whose decode method is on the stack.
func SpecKindInStack(stack string) string {
	m := regexp.MustCompile(`hcldec\.\(?\*?(\w+Spec)\)?\.decode`).FindStringSubmatch(stack)
	if m == nil {
		return "?"
	}
	return m[1]
}

// PanicKey normalises a panic message into a stable signature.
func PanicKey(p interface{}) string {
	s := fmt.Sprint(p)
	if i := strings.Index(s, " ("); i > 0 {
		s = s[:i]
	}
	if i := strings.IndexByte(s, '\n'); i >= 0 {
		s = s[:i]
	}
	s = reQuoted.ReplaceAllString(s, "Q")
	s = reDigits.ReplaceAllString(s, "N")
	if len(s) > 90 {
		s = s[:90]
	}
	return strings.TrimSpace(s)
}

// Guard runs f; a panic is turned into an oracle failure whose key is "panic:<where>:<normalised message>".
func Guard(cx *lib.Ctx, where, suffix string, input interface{}, f func()) (ok bool) {
	defer func() {
		if p := recover(); p != nil {
			st := string(debug.Stack())
			cx.Res.Fail(lib.Failure{Kind: "oracle", Key: "panic:" + SpecKindInStack(st) + ":" + PanicKey(p) + suffix, Desc: fmt.Sprintf("panic in %s: %v\n%s", where, p, lib.Trunc(st, 1800)), Input: input})
			ok = false
		}
	}()
	f()
	return true
}

// GuardKey is Guard with the failure key finished by the caller: mk receives "panic:<kind>:<message>".
func GuardKey(cx *lib.Ctx, where string, mk func(key string) string, input interface{}, f func()) (ok bool) {
	defer func() {
		if p := recover(); p != nil {
			st := string(debug.Stack())
			cx.Res.Fail(lib.Failure{Kind: "oracle", Key: mk("panic:" + SpecKindInStack(st) + ":" + PanicKey(p)), Desc: fmt.Sprintf("panic in %s: %v\n%s", where, p, lib.Trunc(st, 1800)), Input: input})
			ok = false
		}
	}()
	f()
	return true
}

// HasDiag reports whether a diagnostic summary containing sub is present.
func HasDiag(diags hcl.Diagnostics, sub string) bool {
	for _, d := range diags {
		if strings.Contains(d.Summary, sub) {
			return true
		}
	}
	return false
}

// DiagText renders diagnostics compactly.
func DiagText(diags hcl.Diagnostics) string {
	var parts []string
	for _, d := range diags {
		sev := "error"
		if d.Severity != hcl.DiagError {
			sev = "warning"
		}
		parts = append(parts, sev+": "+d.Summary+": "+d.Detail)
	}
	return strings.Join(parts, " | ")
}

// SafeDenote runs Denote, reporting a panic of the harness's own value construction as "skip".
func SafeDenote(n *SNode, b *Body, partial bool) (den Denotation, ok bool) {
	d := &denoter{flags: map[string]bool{}}
	defer func() {
		if p := recover(); p != nil {
			den, ok = Denotation{Flags: d.flags}, false
		}
	}()
	return d.run(n, b, partial), true
}

// After renders the flags of a denotation as a signature suffix ("" when there is none).
func After(den Denotation) string {
	s := ""
	for _, k := range SortedKeys(den.Flags) {
		s += "+after:" + k
	}
	return s
}

var reSummaryName = regexp.MustCompile(`^(Duplicate|Missing|Insufficient|Too many|Unexpected|Extraneous label for|Missing \S+ for|Unconsistent argument types in) \S+`)

// SummaryKey normalises a diagnostic summary (block and attribute names removed).
func SummaryKey(s string) string {
	s = reQuoted.ReplaceAllString(s, "Q")
	if m := reSummaryName.FindStringSubmatch(s); m != nil && s != "Missing required argument" {
		s = m[1] + " T" + s[len(m[0]):]
	}
	return s
}

// Triggers lists features of a spec tree that are the known triggers of recorded defects; they are
// appended to error-presence signatures so that the defect classes stay apart.
func Triggers(n *SNode) (requiredUnderDefault, multiLabelMapInCollection bool) {
	var walk func(m *SNode, inDefault, inColl bool)
	walk = func(m *SNode, inDefault, inColl bool) {
		if m.Kind == KAttr && m.Required && inDefault {
			requiredUnderDefault = true
		}
		if m.Kind == KBlockMap && len(m.LabelNames) > 1 && inColl {
			multiLabelMapInCollection = true
		}
		for _, k := range m.Kids {
			switch {
			case m.IsBlockKind():
				walk(k, false, inColl || m.Kind == KBlockList || m.Kind == KBlockSet)
			case m.Kind == KDefault:
				walk(k, true, inColl)
			default:
				walk(k, inDefault, inColl)
			}
		}
	}
	walk(n, false, false)
	return
}

// SpecFlags lists the recorded-defect triggers a spec tree could exercise with some body (used where the
// body actually read is not the abstract one: schema-ambiguous JSON readings, unknown dynamic blocks).
func SpecFlags(n *SNode) map[string]bool {
	f := map[string]bool{}
	n.Walk(func(m *SNode) {
		switch m.Kind {
		case KBlockMap:
			if len(m.LabelNames) > 1 {
				f["empty-multilabel-blockmap"] = true
			}
			fallthrough
		case KBlockList, KBlockSet:
			if HasOptionalMarkers(m.Kids[0].Implied()) {
				f["optional-attrs-in-empty-collection"] = true
			}
		case KBlockAttrs:
			if HasOptionalMarkers(m.Type) {
				f["optional-attrs-in-empty-collection"] = true
			}
		}
	})
	return f
}
