package decgen

import (
	"strings"

	"hx/lib"
)

// JSONOpts selects one admissible JSON encoding of a configuration (json/spec.md).
type JSONOpts struct {
	R        *lib.Rand // nil: canonical encoding (one object per body, one property per block type)
	Template bool      // strings will be evaluated as templates (non-nil EvalContext): escape introducers
	// Degenerate lists block types (name -> number of labels) absent from the root body for which a
	// degenerate "zero blocks" property may be emitted.
	Degenerate map[string]int
	// Used records which encoding features were exercised (for the input distribution).
	Used map[string]int
}

func (o *JSONOpts) use(k string) {
	if o.Used != nil {
		o.Used[k]++
	}
}

func (o *JSONOpts) chance(p, q int) bool { return o.R != nil && o.R.Chance(p, q) }

type jprop struct {
	name string
	val  string
}

// JSON renders the configuration as one of its admissible JSON encodings.
func JSON(b *Body, o *JSONOpts) string {
	if o == nil {
		o = &JSONOpts{}
	}
	props := o.bodyProps(b, true)
	if o.chance(1, 4) {
		// array-of-objects body (allowed for the root body only: below the root an array means
		// several block bodies)
		o.use("body-array")
		var parts []string
		i := 0
		for i <= len(props) {
			n := o.R.Intn(len(props) - i + 1)
			if o.R.Chance(1, 5) {
				n = 0
			}
			parts = append(parts, o.object(props[i:i+n], true))
			i += n
			if i == len(props) && o.R.Chance(2, 3) {
				break
			}
		}
		return "[" + strings.Join(parts, ", ") + "]\n"
	}
	return o.object(props, true) + "\n"
}

// object renders properties as one JSON object; in a body object, "//" comment properties may be added.
func (o *JSONOpts) object(props []jprop, isBody bool) string {
	var sb strings.Builder
	sb.WriteString("{")
	first := true
	emit := func(p jprop) {
		if !first {
			sb.WriteString(", ")
		}
		first = false
		sb.WriteString(JSONString(p.name, false) + ": " + p.val)
	}
	comment := func() {
		if isBody && o.chance(1, 8) {
			o.use("comment-property")
			vals := []string{`"a comment"`, `["x", 1]`, `{"nested": true}`, `null`, `"${oops"`}
			emit(jprop{"//", vals[o.R.Intn(len(vals))]})
		}
	}
	for _, p := range props {
		comment()
		emit(p)
	}
	comment()
	sb.WriteString("}")
	return sb.String()
}

// bodyProps computes the property list of a body: attributes anywhere, and for each block type one or
// more properties whose relative order preserves the order of that type's blocks.
func (o *JSONOpts) bodyProps(b *Body, root bool) []jprop {
	var queues [][]jprop
	byType := map[string][]*Block{}
	var typeOrder []string
	for _, it := range b.Items {
		if it.Attr != nil {
			a := it.Attr
			var v string
			if a.Ref != "" {
				v = JSONString("${"+a.Ref+"}", false)
			} else {
				v = JSONValue(a.Val, o.Template)
			}
			queues = append(queues, []jprop{{a.Name, v}})
			continue
		}
		t := it.Block.Type
		if _, ok := byType[t]; !ok {
			typeOrder = append(typeOrder, t)
		}
		byType[t] = append(byType[t], it.Block)
	}
	for _, t := range typeOrder {
		blocks := byType[t]
		var q []jprop
		// cut into chunks: a chunk is homogeneous in label count; further random cuts give duplicate
		// property names
		i := 0
		for i < len(blocks) {
			j := i + 1
			for j < len(blocks) && len(blocks[j].Labels) == len(blocks[i].Labels) && !o.chance(1, 4) {
				j++
			}
			q = append(q, jprop{t, o.level(blocks[i:j], 0)})
			i = j
		}
		if len(q) > 1 {
			o.use("duplicate-type-property")
		}
		queues = append(queues, q)
	}
	if root && o.R != nil {
		for _, t := range SortedKeys(o.Degenerate) {
			if _, present := byType[t]; present || !o.R.Chance(1, 2) {
				continue
			}
			o.use("degenerate-zero-blocks")
			v := "[]"
			if o.R.Chance(1, 2) {
				v = "null"
			}
			for k := o.Degenerate[t]; k > 0; k-- {
				v = "{" + JSONString("l_none", false) + ": " + v + "}"
			}
			queues = append(queues, []jprop{{t, v}})
		}
	}
	// merge the queues: source order when canonical, a random interleaving otherwise
	var out []jprop
	if o.R == nil || o.R.Chance(1, 3) {
		for _, q := range queues {
			out = append(out, q...)
		}
		return out
	}
	o.use("shuffled-properties")
	for len(queues) > 0 {
		k := o.R.Intn(len(queues))
		out = append(out, queues[k][0])
		queues[k] = queues[k][1:]
		if len(queues[k]) == 0 {
			queues = append(queues[:k], queues[k+1:]...)
		}
	}
	return out
}

// level encodes a run of blocks of one type that agree on their first depth labels and all have the
// same number of labels.
func (o *JSONOpts) level(blocks []*Block, depth int) string {
	if len(blocks[0].Labels) == depth {
		// block bodies
		if len(blocks) == 1 && !o.chance(1, 4) {
			return o.object(o.bodyProps(blocks[0].Body, false), true)
		}
		if len(blocks) == 1 {
			o.use("single-block-in-array")
		} else {
			o.use("array-of-block-bodies")
		}
		var parts []string
		for _, k := range blocks {
			parts = append(parts, o.object(o.bodyProps(k.Body, false), true))
		}
		return "[" + strings.Join(parts, ", ") + "]"
	}
	// one labelling level: consecutive blocks with the same label may share a property
	var props []jprop
	i := 0
	for i < len(blocks) {
		j := i + 1
		for j < len(blocks) && blocks[j].Labels[depth] == blocks[i].Labels[depth] && !o.chance(1, 4) {
			j++
		}
		if j-i > 1 {
			o.use("shared-label-property")
		}
		props = append(props, jprop{blocks[i].Labels[depth], o.level(blocks[i:j], depth+1)})
		i = j
	}
	if o.chance(1, 4) {
		o.use("label-array-of-objects")
		var parts []string
		i := 0
		for i < len(props) {
			n := 1 + o.R.Intn(len(props)-i)
			parts = append(parts, o.object(props[i:i+n], false))
			i += n
			if o.R.Chance(1, 6) {
				parts = append(parts, "{}")
			}
		}
		return "[" + strings.Join(parts, ", ") + "]"
	}
	for a := 0; a < len(props); a++ {
		for c := a + 1; c < len(props); c++ {
			if props[a].name == props[c].name {
				o.use("duplicate-label-property")
				a = len(props)
				break
			}
		}
	}
	return o.object(props, false)
}
