// Package decgen is the shared generator of (hcldec.Spec tree, matching abstract configuration) used by the
// C08, C18 and C03 runners: an abstract configuration model with a native-syntax renderer and a family of
// JSON encoders, a generator of specification trees over every spec kind, a generator of conforming and
// perturbed configurations for a specification, and an independent reading ("denotation") of what a
// specification describes for a configuration.
package decgen

import (
	"encoding/json"
	"fmt"
	"math/big"
	"sort"
	"strings"

	"github.com/zclconf/go-cty/cty"

	"hx/lib"
)

// Attr is one attribute definition. Val is the literal value (built from strings, numbers, bools,
// null of the dynamic pseudo-type, tuples and objects: what literal syntax can denote). When Ref is
// non-empty the attribute is written as a reference to the root variable Ref (native: `Ref`, JSON:
// "${Ref}") and Val is that variable's value in the evaluation context.
type Attr struct {
	Name string
	Val  cty.Value
	Ref  string
}

// Block is one nested block. DynUnknown asks the native renderer to write the block as a `dynamic`
// block whose for_each is the root variable named by DynUnknown (used with an unknown value).
type Block struct {
	Type       string
	Labels     []string
	Body       *Body
	DynUnknown string
}

// Item is an attribute or a block.
type Item struct {
	Attr  *Attr
	Block *Block
}

// Body is a sequence of attributes and blocks in source order.
type Body struct {
	Items []Item
}

func (b *Body) AddAttr(name string, v cty.Value) {
	b.Items = append(b.Items, Item{Attr: &Attr{Name: name, Val: v}})
}
func (b *Body) AddBlock(blk *Block) { b.Items = append(b.Items, Item{Block: blk}) }

func (b *Body) Attrs() []*Attr {
	var out []*Attr
	for _, it := range b.Items {
		if it.Attr != nil {
			out = append(out, it.Attr)
		}
	}
	return out
}

func (b *Body) Blocks() []*Block {
	var out []*Block
	for _, it := range b.Items {
		if it.Block != nil {
			out = append(out, it.Block)
		}
	}
	return out
}

func (b *Body) Attr(name string) *Attr {
	for _, it := range b.Items {
		if it.Attr != nil && it.Attr.Name == name {
			return it.Attr
		}
	}
	return nil
}

// Clone is a deep copy (values are immutable).
func (b *Body) Clone() *Body {
	if b == nil {
		return nil
	}
	nb := &Body{}
	for _, it := range b.Items {
		if it.Attr != nil {
			a := *it.Attr
			nb.Items = append(nb.Items, Item{Attr: &a})
		} else {
			k := *it.Block
			k.Labels = append([]string{}, it.Block.Labels...)
			k.Body = it.Block.Body.Clone()
			nb.Items = append(nb.Items, Item{Block: &k})
		}
	}
	return nb
}

// Size counts items recursively.
func (b *Body) Size() int {
	n := 0
	for _, it := range b.Items {
		n++
		if it.Block != nil {
			n += it.Block.Body.Size()
		}
	}
	return n
}

// HasDynUnknown reports whether any block is to be written as an unknown dynamic block.
func (b *Body) HasDynUnknown() bool {
	for _, it := range b.Items {
		if it.Block != nil && (it.Block.DynUnknown != "" || it.Block.Body.HasDynUnknown()) {
			return true
		}
	}
	return false
}

// ---------------------------------------------------------------------------------------------
// Literal values.

// Num makes a number from decimal text exactly as both syntaxes are specified to read it.
func Num(text string) cty.Value { return cty.MustParseNumberVal(text) }

// NumText renders a number as decimal source text (no exponent).
func NumText(v cty.Value) string {
	f := v.AsBigFloat()
	if f.IsInt() {
		i, _ := f.Int(nil)
		return i.String()
	}
	return f.Text('f', -1)
}

// IsIdent says whether s can be written as a bare identifier in the native syntax (ASCII subset).
func IsIdent(s string) bool {
	if s == "" {
		return false
	}
	for i, r := range s {
		switch {
		case r >= 'a' && r <= 'z', r >= 'A' && r <= 'Z', r == '_':
		case (r >= '0' && r <= '9' || r == '-') && i > 0:
		default:
			return false
		}
	}
	return true
}

var keywords = map[string]bool{"null": true, "true": true, "false": true, "for": true, "if": true, "in": true, "else": true, "endif": true, "endfor": true}

// Quote renders a native-syntax quoted string literal.
func Quote(s string) string { return `"` + lib.EscapeQuoted(s) + `"` }

// NativeValue renders a literal value as a native-syntax expression.
func NativeValue(v cty.Value) string {
	var sb strings.Builder
	nativeValue(&sb, v)
	return sb.String()
}

func nativeValue(sb *strings.Builder, v cty.Value) {
	if v.IsMarked() {
		v, _ = v.Unmark()
	}
	if !v.IsKnown() {
		panic("decgen: unknown value cannot be written as a literal")
	}
	if v.IsNull() {
		sb.WriteString("null")
		return
	}
	t := v.Type()
	switch {
	case t == cty.String:
		sb.WriteString(Quote(v.AsString()))
	case t == cty.Number:
		sb.WriteString(NumText(v))
	case t == cty.Bool:
		if v.True() {
			sb.WriteString("true")
		} else {
			sb.WriteString("false")
		}
	case t.IsTupleType() || t.IsListType() || t.IsSetType():
		sb.WriteString("[")
		i := 0
		for it := v.ElementIterator(); it.Next(); i++ {
			if i > 0 {
				sb.WriteString(", ")
			}
			_, ev := it.Element()
			nativeValue(sb, ev)
		}
		sb.WriteString("]")
	case t.IsObjectType() || t.IsMapType():
		sb.WriteString("{")
		i := 0
		for it := v.ElementIterator(); it.Next(); i++ {
			if i > 0 {
				sb.WriteString(", ")
			} else {
				sb.WriteString(" ")
			}
			kv, ev := it.Element()
			k := kv.AsString()
			if IsIdent(k) && !keywords[k] && len(k)%3 != 0 {
				sb.WriteString(k)
			} else {
				sb.WriteString(Quote(k))
			}
			sb.WriteString(" = ")
			nativeValue(sb, ev)
		}
		if i > 0 {
			sb.WriteString(" ")
		}
		sb.WriteString("}")
	default:
		panic("decgen: value of type " + t.FriendlyName() + " cannot be written as a literal")
	}
}

// JSONString renders a JSON string. With template set, template introducers are escaped so that the
// string denotes itself when evaluated as a template (full expression mode).
func JSONString(s string, template bool) string {
	if template {
		s = escapeTemplate(s)
	}
	b, _ := json.Marshal(s)
	return string(b)
}

func escapeTemplate(s string) string {
	s = strings.ReplaceAll(s, "${", "$${")
	s = strings.ReplaceAll(s, "%{", "%%{")
	return s
}

// JSONValue renders a literal value as a JSON expression.
func JSONValue(v cty.Value, template bool) string {
	var sb strings.Builder
	jsonValue(&sb, v, template)
	return sb.String()
}

func jsonValue(sb *strings.Builder, v cty.Value, template bool) {
	if v.IsMarked() {
		v, _ = v.Unmark()
	}
	if !v.IsKnown() {
		panic("decgen: unknown value cannot be written as a literal")
	}
	if v.IsNull() {
		sb.WriteString("null")
		return
	}
	t := v.Type()
	switch {
	case t == cty.String:
		sb.WriteString(JSONString(v.AsString(), template))
	case t == cty.Number:
		sb.WriteString(NumText(v))
	case t == cty.Bool:
		if v.True() {
			sb.WriteString("true")
		} else {
			sb.WriteString("false")
		}
	case t.IsTupleType() || t.IsListType() || t.IsSetType():
		sb.WriteString("[")
		i := 0
		for it := v.ElementIterator(); it.Next(); i++ {
			if i > 0 {
				sb.WriteString(", ")
			}
			_, ev := it.Element()
			jsonValue(sb, ev, template)
		}
		sb.WriteString("]")
	case t.IsObjectType() || t.IsMapType():
		sb.WriteString("{")
		i := 0
		for it := v.ElementIterator(); it.Next(); i++ {
			if i > 0 {
				sb.WriteString(", ")
			}
			kv, ev := it.Element()
			sb.WriteString(JSONString(kv.AsString(), template))
			sb.WriteString(": ")
			jsonValue(sb, ev, template)
		}
		sb.WriteString("}")
	default:
		panic("decgen: value of type " + t.FriendlyName() + " cannot be written as a literal")
	}
}

// ---------------------------------------------------------------------------------------------
// Native rendering.

// NativeOpts tunes the native renderer.
type NativeOpts struct {
	R *lib.Rand // nil: canonical layout
}

// Native renders the configuration in the native syntax.
func Native(b *Body, o *NativeOpts) string {
	var sb strings.Builder
	if o == nil {
		o = &NativeOpts{}
	}
	nativeBody(&sb, b, 0, o)
	return sb.String()
}

func nativeLabel(l string, o *NativeOpts) string {
	if o.R != nil && IsIdent(l) && o.R.Chance(1, 4) {
		return l
	}
	return Quote(l)
}

func nativeBody(sb *strings.Builder, b *Body, ind int, o *NativeOpts) {
	pad := strings.Repeat("  ", ind)
	for _, it := range b.Items {
		if o.R != nil && o.R.Chance(1, 12) {
			sb.WriteString(pad + "# note\n")
		}
		if it.Attr != nil {
			sb.WriteString(pad + it.Attr.Name + " = ")
			if it.Attr.Ref != "" {
				sb.WriteString(it.Attr.Ref)
			} else {
				nativeValue(sb, it.Attr.Val)
			}
			sb.WriteString("\n")
			continue
		}
		k := it.Block
		if k.DynUnknown != "" {
			sb.WriteString(pad + "dynamic " + Quote(k.Type) + " {\n")
			sb.WriteString(pad + "  for_each = " + k.DynUnknown + "\n")
			if len(k.Labels) > 0 {
				var ls []string
				for _, l := range k.Labels {
					ls = append(ls, Quote(l))
				}
				sb.WriteString(pad + "  labels = [" + strings.Join(ls, ", ") + "]\n")
			}
			sb.WriteString(pad + "  content {\n")
			nativeBody(sb, k.Body, ind+2, o)
			sb.WriteString(pad + "  }\n" + pad + "}\n")
			continue
		}
		sb.WriteString(pad + k.Type)
		for _, l := range k.Labels {
			sb.WriteString(" " + nativeLabel(l, o))
		}
		if len(k.Body.Items) == 0 && (o.R == nil || o.R.Chance(1, 2)) {
			sb.WriteString(" {}\n")
			continue
		}
		if len(k.Body.Items) == 1 && k.Body.Items[0].Attr != nil && o.R != nil && o.R.Chance(1, 3) {
			a := k.Body.Items[0].Attr
			sb.WriteString(" { " + a.Name + " = ")
			if a.Ref != "" {
				sb.WriteString(a.Ref)
			} else {
				nativeValue(sb, a.Val)
			}
			sb.WriteString(" }\n")
			continue
		}
		sb.WriteString(" {\n")
		nativeBody(sb, k.Body, ind+1, o)
		sb.WriteString(pad + "}\n")
	}
}

// ---------------------------------------------------------------------------------------------
// Canonical dump (for distinctness and messages).

// DumpConfig renders the abstract configuration canonically.
func DumpConfig(b *Body) string {
	var sb strings.Builder
	dumpConfig(&sb, b)
	return sb.String()
}

func dumpConfig(sb *strings.Builder, b *Body) {
	sb.WriteString("{")
	for _, it := range b.Items {
		if it.Attr != nil {
			if it.Attr.Ref != "" {
				fmt.Fprintf(sb, "%s=$%s;", it.Attr.Name, it.Attr.Ref)
			} else {
				fmt.Fprintf(sb, "%s=%s;", it.Attr.Name, NativeValue(it.Attr.Val))
			}
		} else {
			sb.WriteString(it.Block.Type)
			if it.Block.DynUnknown != "" {
				sb.WriteString("?")
			}
			for _, l := range it.Block.Labels {
				sb.WriteString(" " + Quote(l))
			}
			dumpConfig(sb, it.Block.Body)
		}
	}
	sb.WriteString("}")
}

// ---------------------------------------------------------------------------------------------
// Random literal values.

var strPool = []string{"", "a", "foo", "bar baz", "x-y_z", "Hello, World", "héllo", "日本", "tab\there", "line\nbreak", "q\"uote", "back\\slash", "${not}", "%{neither}", "$${x}", "a$b", "100%", "{}", "[]", "//", "<&>", "null", "true", "12", "1e3", " lead", "trail ", "😀"}

var numPool = []string{"0", "1", "2", "7", "-1", "-12", "42", "100", "65536", "4294967296", "9007199254740993", "0.5", "1.5", "-2.25", "0.125", "3.75", "1000000", "123456789012345678901234567890"}

// RandString picks a string; plain restricts to strings without characters special to either syntax.
func RandString(r *lib.Rand, plain bool) string {
	if plain {
		return []string{"a", "foo", "bar", "x-y_z", "v1", "hello world", "zed", "Q"}[r.Intn(8)] + fmt.Sprint(r.Intn(5))
	}
	if r.Chance(1, 3) {
		return strPool[r.Intn(len(strPool))]
	}
	return strPool[r.Intn(len(strPool))] + fmt.Sprint(r.Intn(50))
}

func RandNumber(r *lib.Rand) cty.Value {
	if r.Chance(1, 2) {
		return cty.NumberIntVal(int64(r.Intn(40)) - 5)
	}
	return Num(numPool[r.Intn(len(numPool))])
}

// RandLiteral makes a random JSON-expressible literal value.
func RandLiteral(r *lib.Rand, depth int, plain bool) cty.Value {
	k := r.Intn(9)
	if depth <= 0 && k >= 5 {
		k = r.Intn(5)
	}
	switch k {
	case 0, 1:
		return cty.StringVal(RandString(r, plain))
	case 2:
		return RandNumber(r)
	case 3:
		return cty.BoolVal(r.Chance(1, 2))
	case 4:
		if r.Chance(1, 2) {
			return cty.NullVal(cty.DynamicPseudoType)
		}
		return cty.StringVal(RandString(r, plain))
	case 5, 6:
		n := r.Intn(4)
		vs := make([]cty.Value, n)
		for i := range vs {
			vs[i] = RandLiteral(r, depth-1, plain)
		}
		return cty.TupleVal(vs)
	default:
		n := r.Intn(4)
		m := map[string]cty.Value{}
		for i := 0; i < n; i++ {
			m[RandKey(r, plain)] = RandLiteral(r, depth-1, plain)
		}
		return cty.ObjectVal(m)
	}
}

// RandKey picks an object key (namespace "k…", disjoint from attribute, block and label names).
func RandKey(r *lib.Rand, plain bool) string {
	ks := []string{"k0", "k1", "k2", "k_3", "k-4", "key five", "k.6", "k${7}", "kfor", "k😀"}
	if plain {
		return ks[r.Intn(5)]
	}
	return ks[r.Intn(len(ks))]
}

// SortedKeys returns the sorted keys of a map.
func SortedKeys[T any](m map[string]T) []string {
	ks := make([]string, 0, len(m))
	for k := range m {
		ks = append(ks, k)
	}
	sort.Strings(ks)
	return ks
}

var _ = big.NewFloat
