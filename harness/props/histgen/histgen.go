// Package histgen: branching histories of schema processing. One body is taken through a partial step; the
// remaining body it returns is then used SEVERAL times — different partial steps from the same remainder, queries
// whose results are discarded, the same query twice, the branches used in interleaved order. Every result is
// compared with what the written configuration says: a step sees exactly the blocks of the types it names that no
// earlier step ON ITS OWN PATH has taken, in source order per type, and the arguments likewise. Linear chains
// (each remainder used once) are what the other streams run; this one is shared by the properties that speak
// about applying schemas to bodies in either syntax (C02, C03, C04).
package histgen

import (
	"encoding/json"
	"fmt"
	"sort"
	"strings"

	"github.com/hashicorp/hcl/v2"
	"github.com/hashicorp/hcl/v2/hclsyntax"
	hcljson "github.com/hashicorp/hcl/v2/json"

	"hx/lib"
)

type blk struct {
	typ    string
	labels []string
}

type doc struct {
	attrs  []string // attribute names, in source order
	blocks []blk
	native string
	json   string
}

var nLabels = map[string]int{"t0": 0, "t1": 1, "t2": 2, "t3": 0, "t4": 1, "t5": 0, "t6": 1, "t7": 2}

func genDoc(r *lib.Rand, crlf bool) *doc {
	d := &doc{}
	types := []string{"t0", "t1", "t2", "t3", "t4", "t5", "t6", "t7"}
	var sb strings.Builder
	nl := "\n"
	if crlf {
		nl = "\r\n"
	}
	na := r.Intn(4)
	for i := 0; i < na; i++ {
		d.attrs = append(d.attrs, fmt.Sprintf("a%d", i))
	}
	n := 5 + r.Intn(9)
	ai := 0
	for i := 0; i < n; i++ {
		if ai < len(d.attrs) && r.Chance(1, 3) {
			sb.WriteString(fmt.Sprintf("%s = %d%s", d.attrs[ai], ai, nl))
			ai++
		}
		t := types[r.Intn(len(types))]
		b := blk{typ: t}
		for k := 0; k < nLabels[t]; k++ {
			b.labels = append(b.labels, fmt.Sprintf("l%d_%d", i, k))
		}
		d.blocks = append(d.blocks, b)
		sb.WriteString(t)
		for _, l := range b.labels {
			sb.WriteString(" \"" + l + "\"")
		}
		sb.WriteString(fmt.Sprintf(" {%s  x = %d%s}%s", nl, i, nl, nl))
	}
	for ; ai < len(d.attrs); ai++ {
		sb.WriteString(fmt.Sprintf("%s = %d%s", d.attrs[ai], ai, nl))
	}
	d.native = sb.String()
	// JSON: one property per type holding an array with one element per block (order per type is kept)
	obj := map[string]interface{}{}
	for i, a := range d.attrs {
		obj[a] = i
	}
	for i, b := range d.blocks {
		var v interface{} = map[string]interface{}{"x": i}
		for k := len(b.labels) - 1; k >= 0; k-- {
			v = map[string]interface{}{b.labels[k]: v}
		}
		arr, _ := obj[b.typ].([]interface{})
		obj[b.typ] = append(arr, v)
	}
	js, _ := json.Marshal(obj)
	d.json = string(js)
	return d
}

type schemaPick struct {
	attrs  []string
	blocks []string
}

func (s schemaPick) schema() *hcl.BodySchema {
	sc := &hcl.BodySchema{}
	for _, a := range s.attrs {
		sc.Attributes = append(sc.Attributes, hcl.AttributeSchema{Name: a})
	}
	for _, b := range s.blocks {
		bs := hcl.BlockHeaderSchema{Type: b}
		for k := 0; k < nLabels[b]; k++ {
			bs.LabelNames = append(bs.LabelNames, fmt.Sprintf("n%d", k))
		}
		sc.Blocks = append(sc.Blocks, bs)
	}
	return sc
}

func (s schemaPick) String() string {
	return "{attrs " + strings.Join(s.attrs, ",") + "; blocks " + strings.Join(s.blocks, ",") + "}"
}

// expected content of a step with schema s after the names in taken were consumed on the path
func expect(d *doc, s schemaPick, taken map[string]bool) string {
	var as []string
	for _, a := range d.attrs {
		for _, w := range s.attrs {
			if a == w && !taken["a:"+a] {
				as = append(as, a)
			}
		}
	}
	sort.Strings(as)
	per := map[string][]string{}
	for _, b := range d.blocks {
		for _, w := range s.blocks {
			if b.typ == w && !taken["b:"+w] {
				per[w] = append(per[w], strings.Join(b.labels, "/"))
			}
		}
	}
	var ts []string
	for t := range per {
		ts = append(ts, t)
	}
	sort.Strings(ts)
	var parts []string
	for _, t := range ts {
		parts = append(parts, t+"["+strings.Join(per[t], " ")+"]")
	}
	return "attrs(" + strings.Join(as, ",") + ") " + strings.Join(parts, " ")
}

func observed(c *hcl.BodyContent) string {
	if c == nil {
		return "nil-content"
	}
	var as []string
	for n := range c.Attributes {
		as = append(as, n)
	}
	sort.Strings(as)
	per := map[string][]string{}
	for _, b := range c.Blocks {
		per[b.Type] = append(per[b.Type], strings.Join(b.Labels, "/"))
	}
	var ts []string
	for t := range per {
		ts = append(ts, t)
	}
	sort.Strings(ts)
	var parts []string
	for _, t := range ts {
		parts = append(parts, t+"["+strings.Join(per[t], " ")+"]")
	}
	return "attrs(" + strings.Join(as, ",") + ") " + strings.Join(parts, " ")
}

func perm(r *lib.Rand, n int) []int {
	p := make([]int, n)
	for i := range p {
		p[i] = i
	}
	for i := n - 1; i > 0; i-- {
		j := r.Intn(i + 1)
		p[i], p[j] = p[j], p[i]
	}
	return p
}

func pick(r *lib.Rand, pool []string, n int) []string {
	idx := perm(r, len(pool))
	if n > len(pool) {
		n = len(pool)
	}
	out := make([]string, n)
	for i := 0; i < n; i++ {
		out[i] = pool[idx[i]]
	}
	sort.Strings(out)
	return out
}

func takenPlus(t map[string]bool, s schemaPick) map[string]bool {
	o := map[string]bool{}
	for k := range t {
		o[k] = true
	}
	for _, a := range s.attrs {
		o["a:"+a] = true
	}
	for _, b := range s.blocks {
		o["b:"+b] = true
	}
	return o
}

type node struct {
	body  hcl.Body
	taken map[string]bool
	path  string
}

// Run executes the stream for one property.
func Run(cx *lib.Ctx, prop string) {
	res := cx.Res
	types := []string{"t0", "t1", "t2", "t3", "t4", "t5", "t6", "t7"}
	n := cx.Scale(250, 6000)
	for i := 0; i < n; i++ {
		r := cx.R.Fork()
		d := genDoc(r, r.Chance(1, 5))
		for _, syn := range []string{"native", "json"} {
			var root hcl.Body
			src := d.native
			if syn == "native" {
				f, diags := hclsyntax.ParseConfig([]byte(d.native), "h.hcl", hcl.InitialPos)
				if diags.HasErrors() {
					res.Fail(lib.Failure{Kind: "oracle", Key: "harness:history-source-unparseable", Desc: diags.Error(), Input: d.native})
					continue
				}
				root = f.Body
			} else {
				src = d.json
				f, diags := hcljson.Parse([]byte(d.json), "h.json")
				if diags.HasErrors() {
					res.Fail(lib.Failure{Kind: "oracle", Key: "harness:history-source-unparseable", Desc: diags.Error(), Input: d.json})
					continue
				}
				root = f.Body
			}
			var log []string
			failed := false
			check := func(nd *node, s schemaPick, c *hcl.BodyContent, what string) {
				want := expect(d, s, nd.taken)
				got := observed(c)
				log = append(log, fmt.Sprintf("%s.%s%s -> %s", nd.path, what, s, got))
				if got != want && !failed {
					failed = true
					res.Fail(lib.Failure{Kind: "oracle", Key: "history:branching:" + syn + ":" + what + "-differs-from-the-written-configuration",
						Desc:  "a remaining body used more than once: a step does not return exactly the items of its schema that no earlier step on its own path has taken",
						Input: src + "\n-- history:\n" + strings.Join(log, "\n"), Impl: "want " + want + "\ngot  " + got})
				}
			}
			partial := func(nd *node, s schemaPick, name string) *node {
				var c *hcl.BodyContent
				var rem hcl.Body
				ok := cx.Guard("history-partial", src, func() { c, rem, _ = nd.body.PartialContent(s.schema()) })
				if !ok || rem == nil {
					failed = true
					return nil
				}
				check(nd, s, c, "partial")
				return &node{body: rem, taken: takenPlus(nd.taken, s), path: nd.path + "." + name}
			}
			content := func(nd *node, s schemaPick) {
				var c *hcl.BodyContent
				if cx.Guard("history-content", src, func() { c, _ = nd.body.Content(s.schema()) }) {
					check(nd, s, c, "content")
				}
			}
			all := schemaPick{attrs: d.attrs, blocks: types}
			n0 := &node{body: root, taken: map[string]bool{}, path: "body"}
			// first step: 1..5 block types (the number decides how much room a grown slice has), maybe an attribute
			s1 := schemaPick{blocks: pick(r, types, 1+r.Intn(5))}
			if len(d.attrs) > 0 && r.Chance(1, 2) {
				s1.attrs = pick(r, d.attrs, 1)
			}
			r1 := partial(n0, s1, "r1")
			if r1 == nil {
				continue
			}
			// branches from the same remainder
			var branches []*node
			for b := 0; b < 2+r.Intn(2); b++ {
				sb := schemaPick{blocks: pick(r, types, 1+r.Intn(3))}
				if len(d.attrs) > 0 && r.Chance(1, 3) {
					sb.attrs = pick(r, d.attrs, 1)
				}
				if r.Chance(1, 3) {
					// a query on the shared remainder whose result nobody keeps
					content(r1, all)
				}
				if nb := partial(r1, sb, fmt.Sprintf("b%d", b)); nb != nil {
					branches = append(branches, nb)
				}
			}
			// use the branches in interleaved order, some twice; then the shared remainder and the root again
			order := perm(r, len(branches))
			for _, bi := range order {
				content(branches[bi], all)
			}
			if len(branches) > 0 {
				content(branches[order[0]], all)
				s3 := schemaPick{blocks: pick(r, types, 2)}
				if n3 := partial(branches[order[len(order)-1]], s3, "c"); n3 != nil {
					content(n3, all)
				}
			}
			content(r1, all)
			content(n0, all)
			res.Count("branching-histories:" + syn)
			res.Case(prop+"|branching|"+syn+"|"+src, true)
		}
	}
}
