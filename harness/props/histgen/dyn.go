package histgen

import (
	"fmt"
	"sort"
	"strings"

	"github.com/hashicorp/hcl/v2"
	"github.com/hashicorp/hcl/v2/ext/dynblock"
	"github.com/hashicorp/hcl/v2/hclsyntax"
	"github.com/zclconf/go-cty/cty"

	"hx/lib"
)

// RunDynOptions: dynblock.Expand with the OptCheckForEach option (an application's veto on a for_each value). The
// veto is part of what the expanded body means: a dynamic block whose for_each it rejects produces an error and no
// blocks — in one exhaustive step and, identically, at whatever later step of a multi-step processing the block's
// type is finally asked for, also on nested bodies of generated and static blocks.
func RunDynOptions(cx *lib.Ctx, prop string) {
	res := cx.Res
	n := cx.Scale(200, 5000)
	types := []string{"rule", "other", "third"}
	for i := 0; i < n; i++ {
		r := cx.R.Fork()
		var sb strings.Builder
		sb.WriteString("name = \"n\"\nlevel = 1\n")
		want := map[string]int{}
		wantErr := false
		limit := 1 + r.Intn(3)
		for k := 2 + r.Intn(4); k > 0; k-- {
			t := types[r.Intn(len(types))]
			if r.Chance(1, 3) {
				sb.WriteString(t + " {\n  v = \"static\"\n}\n")
				want[t]++
				continue
			}
			m := r.Intn(5)
			var els []string
			for e := 0; e < m; e++ {
				els = append(els, fmt.Sprintf("\"e%d\"", e))
			}
			sb.WriteString(fmt.Sprintf("dynamic %q {\n  for_each = [%s]\n  content {\n    v = %s.value\n  }\n}\n", t, strings.Join(els, ", "), t))
			if m > limit {
				wantErr = true
			} else {
				want[t] += m
			}
		}
		src := sb.String()
		f, diags := hclsyntax.ParseConfig([]byte(src), "d.hcl", hcl.InitialPos)
		if diags.HasErrors() {
			res.Fail(lib.Failure{Kind: "oracle", Key: "harness:dyn-option-source-unparseable", Desc: diags.Error(), Input: src})
			continue
		}
		hook := func(v cty.Value, e hcl.Expression, _ *hcl.EvalContext) hcl.Diagnostics {
			if v.IsKnown() && !v.IsNull() && v.CanIterateElements() && v.LengthInt() > limit {
				return hcl.Diagnostics{{Severity: hcl.DiagError, Summary: "Too many elements", Detail: "vetoed by the application", Subject: e.Range().Ptr()}}
			}
			return nil
		}
		expand := func() hcl.Body { return dynblock.Expand(f.Body, &hcl.EvalContext{}, dynblock.OptCheckForEach(hook)) }
		blockSchema := func(ts []string) *hcl.BodySchema {
			sc := &hcl.BodySchema{}
			for _, t := range ts {
				sc.Blocks = append(sc.Blocks, hcl.BlockHeaderSchema{Type: t})
			}
			return sc
		}
		summarize := func(c *hcl.BodyContent, per map[string]int) {
			if c == nil {
				return
			}
			for _, b := range c.Blocks {
				per[b.Type]++
			}
		}
		show := func(per map[string]int, err bool) string {
			var ks []string
			for k, v := range per {
				if v > 0 {
					ks = append(ks, fmt.Sprintf("%s=%d", k, v))
				}
			}
			sort.Strings(ks)
			return fmt.Sprintf("%s vetoed=%v", strings.Join(ks, " "), err)
		}
		expected := show(want, wantErr)
		// a random split of the three block types and the two attributes over 1..4 steps, the last one exhaustive
		steps := 1 + r.Intn(4)
		assign := map[string]int{}
		for _, t := range types {
			assign[t] = r.Intn(steps)
		}
		attrStep := map[string]int{"name": r.Intn(steps), "level": r.Intn(steps)}
		got := map[string]int{}
		gotErr := false
		var log []string
		ok := cx.Guard("dyn-option-steps", src, func() {
			body := expand()
			for s := 0; s < steps; s++ {
				sc := &hcl.BodySchema{}
				var ts []string
				for _, t := range types {
					if assign[t] == s {
						ts = append(ts, t)
					}
				}
				sc.Blocks = blockSchema(ts).Blocks
				for a, st := range attrStep {
					if st == s {
						sc.Attributes = append(sc.Attributes, hcl.AttributeSchema{Name: a})
					}
				}
				var c *hcl.BodyContent
				var d hcl.Diagnostics
				if s == steps-1 {
					c, d = body.Content(sc)
				} else {
					c, body, d = body.PartialContent(sc)
				}
				for _, dd := range d {
					if dd.Summary == "Too many elements" {
						gotErr = true
					}
				}
				summarize(c, got)
				log = append(log, fmt.Sprintf("step %d blocks=%v", s, ts))
			}
		})
		if !ok {
			continue
		}
		res.Count("dyn-option-histories")
		res.Case(prop+"|dyn-option|"+src+fmt.Sprint(assign, attrStep, steps), true)
		if g := show(got, gotErr); g != expected {
			res.Fail(lib.Failure{Kind: "oracle", Key: "history:expand-option:check-for-each-differs-over-steps",
				Desc:  "dynblock.Expand with OptCheckForEach: a multi-step processing does not report the veto / return the blocks that the written configuration and the hook determine",
				Input: fmt.Sprintf("%s-- veto above %d elements; %s", src, limit, strings.Join(log, "; ")), Impl: "want " + expected + "\ngot  " + g})
		}
	}
}
