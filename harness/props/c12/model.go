package c12

import (
	"encoding/json"
	"fmt"

	"github.com/hashicorp/hcl/v2"
	"github.com/hashicorp/hcl/v2/hclsyntax"
	"github.com/hashicorp/hcl/v2/hclwrite"
	"github.com/zclconf/go-cty/cty"
	ctyjson "github.com/zclconf/go-cty/cty/json"

	"hx/lib"
)

// ---------------------------------------------------------------------------
// Replayable description of a case: an initial file and a list of operations.

// Init describes the initial file: kind "empty" (hclwrite.NewEmptyFile) or "parsed" (hclwrite.ParseConfig of Src).
// A "generated" file is an empty one followed by a build-up prefix of append-heavy operations.
type Init struct {
	Kind string `json:"kind"`
	Src  string `json:"src,omitempty"`
}

// ValJ is a cty value with its type, both in cty's JSON encoding.
type ValJ struct {
	T json.RawMessage `json:"t"`
	V json.RawMessage `json:"v"`
}

func encodeVal(v cty.Value) *ValJ {
	t, err := ctyjson.MarshalType(v.Type())
	if err != nil {
		panic(err)
	}
	b, err := ctyjson.Marshal(v, v.Type())
	if err != nil {
		panic(err)
	}
	return &ValJ{T: t, V: b}
}

func (j *ValJ) decode() (cty.Value, error) {
	ty, err := ctyjson.UnmarshalType(j.T)
	if err != nil {
		return cty.NilVal, err
	}
	return ctyjson.Unmarshal(j.V, ty)
}

// StepJ is one traversal step: the first is the root name; later ones are attribute names or index keys.
type StepJ struct {
	Name string `json:"name,omitempty"`
	Key  *ValJ  `json:"key,omitempty"`
}

func decodeTraversal(steps []StepJ) (hcl.Traversal, error) {
	var t hcl.Traversal
	for i, s := range steps {
		switch {
		case i == 0:
			t = append(t, hcl.TraverseRoot{Name: s.Name})
		case s.Key != nil:
			k, err := s.Key.decode()
			if err != nil {
				return nil, err
			}
			t = append(t, hcl.TraverseIndex{Key: k})
		default:
			t = append(t, hcl.TraverseAttr{Name: s.Name})
		}
	}
	return t, nil
}

// RawJ describes raw expression tokens built only from the TokensFor* generators.
type RawJ struct {
	K     string   `json:"k"` // value | trav | ident | tuple | object | call
	Val   *ValJ    `json:"val,omitempty"`
	Trav  []StepJ  `json:"trav,omitempty"`
	Name  string   `json:"name,omitempty"`
	Elems []*RawJ  `json:"elems,omitempty"`
	Names []*RawJ  `json:"names,omitempty"` // object attribute names, parallel to Elems
}

func (r *RawJ) tokens() (hclwrite.Tokens, error) {
	switch r.K {
	case "value":
		v, err := r.Val.decode()
		if err != nil {
			return nil, err
		}
		return hclwrite.TokensForValue(v), nil
	case "trav":
		t, err := decodeTraversal(r.Trav)
		if err != nil {
			return nil, err
		}
		return hclwrite.TokensForTraversal(t), nil
	case "ident":
		return hclwrite.TokensForIdentifier(r.Name), nil
	case "tuple":
		var elems []hclwrite.Tokens
		for _, e := range r.Elems {
			t, err := e.tokens()
			if err != nil {
				return nil, err
			}
			elems = append(elems, t)
		}
		return hclwrite.TokensForTuple(elems), nil
	case "object":
		var attrs []hclwrite.ObjectAttrTokens
		for i, e := range r.Elems {
			n, err := r.Names[i].tokens()
			if err != nil {
				return nil, err
			}
			v, err := e.tokens()
			if err != nil {
				return nil, err
			}
			attrs = append(attrs, hclwrite.ObjectAttrTokens{Name: n, Value: v})
		}
		return hclwrite.TokensForObject(attrs), nil
	case "call":
		var args []hclwrite.Tokens
		for _, e := range r.Elems {
			t, err := e.tokens()
			if err != nil {
				return nil, err
			}
			args = append(args, t)
		}
		return hclwrite.TokensForFunctionCall(r.Name, args...), nil
	}
	return nil, fmt.Errorf("unknown raw kind %q", r.K)
}

// Op is one writer operation. Bodies and blocks are addressed by ids: the root body is 0, the blocks of a
// parsed file are numbered in pre-order from 1, later blocks in order of creation; a block's body has the block's id.
type Op struct {
	Op     string   `json:"op"` // setval settrav setraw remove rename newblock newdetached attach removeblock setlabels settype newline
	Body   int      `json:"body"`
	Block  int      `json:"block,omitempty"`
	Name   string   `json:"name,omitempty"`
	To     string   `json:"to,omitempty"`
	Type   string   `json:"type,omitempty"`
	Labels []string `json:"labels,omitempty"`
	Val    *ValJ    `json:"val,omitempty"`
	Trav   []StepJ  `json:"trav,omitempty"`
	Raw    *RawJ    `json:"raw,omitempty"`
}

// Case is the whole replayable input.
type Case struct {
	Init Init `json:"init"`
	Ops  []Op `json:"ops"`
}

func (c *Case) JSON(upto int) string {
	cc := Case{Init: c.Init, Ops: c.Ops}
	if upto >= 0 && upto < len(cc.Ops) {
		cc.Ops = cc.Ops[:upto]
	}
	b, err := json.Marshal(cc)
	if err != nil {
		return fmt.Sprintf("{\"error\":%q}", err.Error())
	}
	return string(b)
}

// ---------------------------------------------------------------------------
// Reference model: per body a map of attributes and a list of blocks.

type mAttr struct {
	name string
	kind string // orig | value | trav | raw
	val  cty.Value
	trav string // DumpTraversal of the traversal set
	dump string // orig / raw: DumpExpr of the expected expression
	vars []string
}

type mBlock struct {
	id          int
	h           *hclwrite.Block
	typ         string
	labels      []string
	body        *mBody
	parent      *mBody // nil while detached
	typeSet     bool   // SetType has been applied
	multiLabels bool   // parsed labels, untouched, some of them lexed into several literal tokens
	fromSource  bool   // labels still those of the parsed source
	pending     string // while detached: a recorded cause that will make the file wrong once the block is attached
}

func (b *mBlock) parsedLabels() bool { return b.fromSource }

type mBody struct {
	id     int
	h      *hclwrite.Body
	attrs  map[string]*mAttr
	order  []string // attribute names in order of appearance
	blocks []*mBlock
	owner  *mBlock // nil for the root body
}

func (b *mBody) removeAttr(name string) {
	delete(b.attrs, name)
	for i, n := range b.order {
		if n == name {
			b.order = append(b.order[:i], b.order[i+1:]...)
			return
		}
	}
}

// attached: is the body part of the file?
func (b *mBody) attached() bool {
	for b.owner != nil {
		if b.owner.parent == nil {
			return false
		}
		b = b.owner.parent
	}
	return true
}

// within: is body b inside block blk (including blk's own body)?
func (b *mBody) within(blk *mBlock) bool {
	for x := b; x != nil; {
		if x.owner == blk {
			return true
		}
		if x.owner == nil {
			return false
		}
		x = x.owner.parent
	}
	return false
}

type tb = lib.TB

func tbs(toks hclwrite.Tokens) []tb {
	out := make([]tb, len(toks))
	for i, t := range toks {
		out[i] = tb{T: t.Type, B: string(t.Bytes)}
	}
	return out
}

func sameTBs(a, b []tb) bool {
	if len(a) != len(b) {
		return false
	}
	for i := range a {
		if a[i] != b[i] {
			return false
		}
	}
	return true
}

func firstDiff(a, b []tb) string {
	n := len(a)
	if len(b) < n {
		n = len(b)
	}
	for i := 0; i < n; i++ {
		if a[i] != b[i] {
			return fmt.Sprintf("token %d: expected %s %q, file has %s %q", i, lib.TyName(a[i].T), a[i].B, lib.TyName(b[i].T), b[i].B)
		}
	}
	return fmt.Sprintf("lengths differ: expected %d tokens, file has %d", len(a), len(b))
}

func identTB(name string) tb { return tb{T: hclsyntax.TokenIdent, B: name} }

var (
	tbEqual   = tb{T: hclsyntax.TokenEqual, B: "="}
	tbNewline = tb{T: hclsyntax.TokenNewline, B: "\n"}
	tbOBrace  = tb{T: hclsyntax.TokenOBrace, B: "{"}
	tbCBrace  = tb{T: hclsyntax.TokenCBrace, B: "}"}
	tbDot     = tb{T: hclsyntax.TokenDot, B: "."}
	tbOBrack  = tb{T: hclsyntax.TokenOBrack, B: "["}
	tbCBrack  = tb{T: hclsyntax.TokenCBrack, B: "]"}
)

func labelTBs(labels []string) []tb {
	var out []tb
	for _, l := range labels {
		out = append(out, tbs(hclwrite.TokensForValue(cty.StringVal(l)))...)
	}
	return out
}

func traversalTBs(t hcl.Traversal) []tb {
	var out []tb
	for _, s := range t {
		switch x := s.(type) {
		case hcl.TraverseRoot:
			out = append(out, identTB(x.Name))
		case hcl.TraverseAttr:
			out = append(out, tbDot, identTB(x.Name))
		case hcl.TraverseIndex:
			out = append(out, tbOBrack)
			out = append(out, tbs(hclwrite.TokensForValue(x.Key))...)
			out = append(out, tbCBrack)
		}
	}
	return out
}
