package c12

import (
	"fmt"
	"math/big"
	"sort"
	"strings"

	"github.com/hashicorp/hcl/v2"
	"github.com/hashicorp/hcl/v2/hclsyntax"
	"github.com/zclconf/go-cty/cty"

	"hx/lib"
)

// opGen draws initial sources and operations; every choice comes from r.
type opGen struct {
	r          *lib.Rand
	buildPhase int // number of leading operations drawn with append-heavy weights ("generated" initial file)
}

var attrNames = []string{"a", "b", "name", "count", "x-y", "for", "if", "in", "enabled", "k1", "null", "true", "list", "cfg", "_u", "A1", "été",
	// names that are proper prefixes / extensions of one another
	"ab", "a1", "names", "name2", "count_max", "for_", "enabled_x", "k", "k10", "nu", "li", "x",
	// names that are canonically equivalent but differ in bytes (NFC / NFD): distinct attributes for the parser
	"caf\u00e9", "cafe\u0301", "e\u0301te\u0301", "\u00c5ngstrom", "A\u030angstrom", "\u212bngstrom"}
var blockTypes = []string{"block", "resource", "service", "b", "dynamic", "x-y", "for", "null", "été"}
var labelPool = []string{"a", "b", "web", "x-y", "with space", "q\"uote", "100%", "a$b", "a$${b}", "é", "back\\slash", "", "for", "${", "%{", "n\nl", "tab\t", "日本", "𝄞", "\u0001", "$", "%", "#", "//", "}", "cafe\u0301", "\u212b", "\u2126x", "e\u0301\u0323"}
var stringPool = []string{"", "a", "hello", "a b", "x\"y", "back\\slash", "new\nline", "cr\r", "tab\t", "${", "%{", "$${x}", "%%{", "$", "%", "$$", "%%", "é", "日本", "a${b", "𝄞", "\u0001", "\u007f", " ", "\ufeff", "}", "{", "#", "//", "/*", "'", "\\n", "\\u0041", "${a}", "%{ if x }"}
var keyPool = []string{"a", "b", "k1", "x-y", "a b", "", "é", "0", "null", "true", "if", "in", "日本", "with\"quote", "back\\slash", "n\nl", "100%", "a.b", "${", "A", "_"}
var numPool = []string{"0", "1", "-1", "7", "42", "-273", "65536", "4294967296", "18446744073709551616", "123456789012345678901234567890", "0.5", "-0.25", "3.14159", "0.1", "1e-7", "123456789.123456789", "1e30", "-1e-30", "0.000001"}
var rootPool = []string{"a", "foo", "var", "local", "x-y", "for", "if", "in", "each", "_x", "été", "module"}
var stepNames = []string{"a", "b", "id", "for", "if", "in", "null", "true", "x-y", "été", "_"}
var rawIdents = []string{"x", "foo", "each", "local", "v1"}
var rawFuncs = []string{"f", "upper", "min", "ns::fn"}

func (g *opGen) str() string {
	s := g.r.Pick(stringPool)
	if g.r.Chance(1, 3) {
		s += g.r.Pick(stringPool)
	}
	return s
}

func (g *opGen) num() cty.Value {
	v, err := cty.ParseNumberVal(g.r.Pick(numPool))
	if err != nil {
		panic(err)
	}
	if g.r.Chance(1, 10) {
		z := new(big.Int).Lsh(big.NewInt(1), uint(60+g.r.Intn(200)))
		if g.r.Chance(1, 2) {
			z.Neg(z)
		}
		return cty.NumberVal(new(big.Float).SetPrec(512).SetInt(z))
	}
	return v
}

func (g *opGen) prim() cty.Type {
	switch g.r.Weighted([]int{5, 3, 2}) {
	case 0:
		return cty.String
	case 1:
		return cty.Number
	}
	return cty.Bool
}

func (g *opGen) keys(n int, allowFor bool) []string {
	seen := map[string]bool{}
	var out []string
	for len(out) < n {
		k := g.r.Pick(keyPool)
		if allowFor && g.r.Chance(1, 25) {
			k = "for"
		}
		if !seen[k] {
			seen[k] = true
			out = append(out, k)
		}
	}
	sort.Strings(out)
	return out
}

func (g *opGen) typ(depth int, allowFor bool) cty.Type {
	if depth <= 0 {
		return g.prim()
	}
	switch g.r.Weighted([]int{50, 10, 6, 8, 10, 12}) {
	case 0:
		return g.prim()
	case 1:
		return cty.List(g.typ(depth-1, allowFor))
	case 2:
		return cty.Set(g.typ(depth-1, allowFor))
	case 3:
		return cty.Map(g.typ(depth-1, allowFor))
	case 4:
		var ts []cty.Type
		for i := g.r.Intn(4); i > 0; i-- {
			ts = append(ts, g.typ(depth-1, allowFor))
		}
		return cty.Tuple(ts)
	default:
		at := map[string]cty.Type{}
		for _, k := range g.keys(g.r.Intn(4), allowFor) {
			at[k] = g.typ(depth-1, allowFor)
		}
		return cty.Object(at)
	}
}

func (g *opGen) value(ty cty.Type, allowFor bool) cty.Value {
	if g.r.Chance(1, 12) {
		return cty.NullVal(ty)
	}
	switch {
	case ty == cty.String:
		return cty.StringVal(g.str())
	case ty == cty.Number:
		return g.num()
	case ty == cty.Bool:
		return cty.BoolVal(g.r.Chance(1, 2))
	case ty.IsListType():
		var vs []cty.Value
		for i := g.r.Intn(4); i > 0; i-- {
			vs = append(vs, g.value(ty.ElementType(), allowFor))
		}
		if len(vs) == 0 {
			return cty.ListValEmpty(ty.ElementType())
		}
		return cty.ListVal(vs)
	case ty.IsSetType():
		var vs []cty.Value
		for i := g.r.Intn(4); i > 0; i-- {
			vs = append(vs, g.value(ty.ElementType(), allowFor))
		}
		if len(vs) == 0 {
			return cty.SetValEmpty(ty.ElementType())
		}
		return cty.SetVal(vs)
	case ty.IsMapType():
		m := map[string]cty.Value{}
		for _, k := range g.keys(g.r.Intn(4), allowFor) {
			m[k] = g.value(ty.ElementType(), allowFor)
		}
		if len(m) == 0 {
			return cty.MapValEmpty(ty.ElementType())
		}
		return cty.MapVal(m)
	case ty.IsTupleType():
		var vs []cty.Value
		for _, et := range ty.TupleElementTypes() {
			vs = append(vs, g.value(et, allowFor))
		}
		return cty.TupleVal(vs)
	case ty.IsObjectType():
		m := map[string]cty.Value{}
		names := make([]string, 0)
		for k := range ty.AttributeTypes() {
			names = append(names, k)
		}
		sort.Strings(names) // map iteration order must not leak into the random stream
		for _, k := range names {
			m[k] = g.value(ty.AttributeType(k), allowFor)
		}
		return cty.ObjectVal(m)
	}
	panic("unhandled type " + ty.FriendlyName())
}

func (g *opGen) anyValue(allowFor bool) cty.Value {
	return g.value(g.typ(g.r.Intn(3), allowFor), allowFor)
}

func (g *opGen) traversal() []StepJ {
	steps := []StepJ{{Name: g.r.Pick(rootPool)}}
	for i := g.r.Intn(5); i > 0; i-- {
		switch g.r.Weighted([]int{5, 3, 3, 1}) {
		case 0:
			steps = append(steps, StepJ{Name: g.r.Pick(stepNames)})
		case 1:
			steps = append(steps, StepJ{Key: encodeVal(cty.StringVal(g.str()))})
		case 2:
			n, _ := cty.ParseNumberVal(g.r.Pick([]string{"0", "1", "2", "10", "4294967296", "1.5", "123456789012345678901234567890"}))
			steps = append(steps, StepJ{Key: encodeVal(n)})
		default:
			steps = append(steps, StepJ{Key: encodeVal(cty.BoolVal(g.r.Chance(1, 2)))})
		}
	}
	return steps
}

func (g *opGen) raw(depth int) *RawJ {
	k := g.r.Weighted([]int{6, 4, 2, 3, 3, 3})
	if depth <= 0 && k > 2 {
		k = g.r.Intn(3)
	}
	switch k {
	case 0:
		return &RawJ{K: "value", Val: encodeVal(g.anyValue(false))}
	case 1:
		return &RawJ{K: "trav", Trav: g.traversal()}
	case 2:
		return &RawJ{K: "ident", Name: g.r.Pick(rawIdents)}
	case 3:
		n := &RawJ{K: "tuple"}
		for i := g.r.Intn(4); i > 0; i-- {
			n.Elems = append(n.Elems, g.raw(depth-1))
		}
		return n
	case 4:
		n := &RawJ{K: "object"}
		seen := map[string]bool{}
		for i := g.r.Intn(4); i > 0; i-- {
			var name *RawJ
			var id string
			if g.r.Chance(1, 2) {
				id = g.r.Pick([]string{"k", "a", "if", "in", "x-y", "null"})
				name = &RawJ{K: "ident", Name: id}
			} else {
				id = g.r.Pick(keyPool)
				name = &RawJ{K: "value", Val: encodeVal(cty.StringVal(id))}
			}
			if seen[id] {
				continue
			}
			seen[id] = true
			n.Names = append(n.Names, name)
			n.Elems = append(n.Elems, g.raw(depth-1))
		}
		return n
	default:
		n := &RawJ{K: "call", Name: g.r.Pick(rawFuncs)}
		for i := g.r.Intn(4); i > 0; i-- {
			n.Elems = append(n.Elems, g.raw(depth-1))
		}
		return n
	}
}

func (g *opGen) labels() []string {
	var out []string
	for i := g.r.Weighted([]int{3, 4, 2, 1}); i > 0; i-- {
		out = append(out, g.r.Pick(labelPool))
	}
	return out
}

// pickBody prefers bodies that are part of the file; detached ones are edited now and then.
func (g *opGen) pickBody(h *hist) *mBody {
	var live, dead []*mBody
	ids := make([]int, 0, len(h.bodies))
	for id := range h.bodies {
		ids = append(ids, id)
	}
	sort.Ints(ids)
	for _, id := range ids {
		if b := h.bodies[id]; b.attached() {
			live = append(live, b)
		} else {
			dead = append(dead, b)
		}
	}
	if len(dead) > 0 && g.r.Chance(1, 8) {
		return dead[g.r.Intn(len(dead))]
	}
	if g.r.Chance(1, 3) {
		return h.root
	}
	return live[g.r.Intn(len(live))]
}

func (g *opGen) pickBlock(h *hist, pred func(*mBlock) bool) *mBlock {
	var cands []*mBlock
	for _, id := range h.blockIDs() {
		if b := h.blocks[id]; pred == nil || pred(b) {
			cands = append(cands, b)
		}
	}
	if len(cands) == 0 {
		return nil
	}
	return cands[g.r.Intn(len(cands))]
}

// name picks an attribute name: usually one the body has, otherwise one from the pool (often absent).
func (g *opGen) name(b *mBody, existing int) string {
	if len(b.order) > 0 && g.r.Intn(100) < existing {
		return b.order[g.r.Intn(len(b.order))]
	}
	return g.r.Pick(attrNames)
}

// next draws the k-th operation given the current model.
func (g *opGen) next(h *hist, k int) Op {
	ws := []int{22, 9, 9, 9, 8, 9, 3, 3, 6, 6, 2, 3}
	if k < g.buildPhase {
		ws = []int{30, 10, 10, 1, 1, 25, 3, 3, 0, 2, 0, 4}
	}
	for {
		body := g.pickBody(h)
		switch g.r.Weighted(ws) {
		case 0:
			return Op{Op: "setval", Body: body.id, Name: g.name(body, 40), Val: encodeVal(g.anyValue(true))}
		case 1:
			return Op{Op: "settrav", Body: body.id, Name: g.name(body, 40), Trav: g.traversal()}
		case 2:
			// raw tokens are the caller's responsibility: only sequences that are an expression are used
			raw := g.raw(2)
			toks, err := raw.tokens()
			if err != nil {
				panic(err)
			}
			if _, d := hclsyntax.ParseExpression(toks.Bytes(), "", hcl.InitialPos); d.HasErrors() {
				h.cx.Res.Count("gen:raw-rejected")
				continue
			}
			return Op{Op: "setraw", Body: body.id, Name: g.name(body, 40), Raw: raw}
		case 3:
			return Op{Op: "remove", Body: body.id, Name: g.name(body, 75)}
		case 4:
			op := Op{Op: "rename", Body: body.id, Name: g.name(body, 75)}
			if g.r.Chance(1, 4) {
				op.To = g.name(body, 80) // often a conflict, sometimes the same name
			} else {
				op.To = g.r.Pick(attrNames)
			}
			return op
		case 5:
			return Op{Op: "newblock", Body: body.id, Type: g.r.Pick(blockTypes), Labels: g.labels()}
		case 6:
			return Op{Op: "newdetached", Body: 0, Type: g.r.Pick(blockTypes), Labels: g.labels()}
		case 7:
			blk := g.pickBlock(h, func(b *mBlock) bool { return b.parent == nil && !body.within(b) })
			if blk == nil {
				continue
			}
			return Op{Op: "attach", Body: body.id, Block: blk.id}
		case 8:
			var blk *mBlock
			if g.r.Chance(3, 4) {
				blk = g.pickBlock(h, func(b *mBlock) bool { return b.parent != nil })
				if blk != nil {
					body = blk.parent
				}
			} else {
				blk = g.pickBlock(h, nil)
			}
			if blk == nil {
				continue
			}
			return Op{Op: "removeblock", Body: body.id, Block: blk.id}
		case 9:
			blk := g.pickBlock(h, nil)
			if blk == nil {
				continue
			}
			return Op{Op: "setlabels", Body: 0, Block: blk.id, Labels: g.labels()}
		case 10:
			blk := g.pickBlock(h, nil)
			if blk == nil {
				continue
			}
			return Op{Op: "settype", Body: 0, Block: blk.id, Type: g.r.Pick(blockTypes)}
		default:
			return Op{Op: "newline", Body: body.id}
		}
	}
}

// ---------------------------------------------------------------------------
// initial sources

var commentLines = []string{"# c\n", "// c\n", "#\n", "# é 日本\n", "//x = 1\n", "/* m\n   l */", "/* c */", "# a\n# b\n"}

func decorate(r *lib.Rand, toks []lib.Tk, chance int) []lib.Tk {
	var out []lib.Tk
	add := func() {
		c := r.Pick(commentLines)
		out = append(out, lib.Tk{Text: c})
		if !strings.HasSuffix(c, "\n") {
			if r.Chance(1, 2) {
				out = append(out, lib.Tk{NL: true})
			}
		} else if r.Chance(1, 6) {
			out = append(out, lib.Tk{NL: true})
		}
	}
	if r.Intn(100) < chance {
		add()
	}
	for _, t := range toks {
		if t.NL && r.Intn(100) < chance/2 {
			// the line ends in a # / // comment and the next lines are comment-only lines (no blank line between)
			out = append(out, lib.Tk{Text: r.Pick([]string{"# eol", "// eol", "#"})}, t)
			add()
			continue
		}
		out = append(out, t)
		if t.NL && r.Intn(100) < chance {
			add()
		}
	}
	return out
}

// source renders a random configuration with comments. Index keys that are bool / null literals are
// replaced by numbers: the loader drops them (a defect in property C10's domain) and the file would not
// even be a valid starting point here.
func (g *opGen) source() string {
	r := g.r
	eg := &lib.ExprGen{R: r}
	bg := &lib.BodyGen{R: r, E: eg, ExprDep: 2}
	body := bg.Body(r.Intn(3))
	body.Walk(func(n *lib.Node) {
		if n.K == "index" && (n.Kids[1].K == "bool" || n.Kids[1].K == "null") {
			n.Kids[1] = &lib.Node{K: "num", S: fmt.Sprintf("%d", r.Intn(5))}
		}
		if n.K == "block" && n.Flag && r.Chance(3, 4) {
			n.Flag = false
		}
	})
	rd := &lib.Renderer{R: r, ExtraParen: 3}
	var toks []lib.Tk
	rd.BodyTokens(&toks, body)
	lay := lib.RandomLayout(r)
	lay.Comments = r.Chance(3, 4)
	if lay.Comments {
		toks = decorate(r, toks, 15)
	}
	src := lib.RenderChecked(toks, lay)
	if r.Chance(1, 10) {
		src = strings.TrimRight(src, "\r\n")
	}
	// keep the generator honest: a source that does not parse is simply replaced by a tiny one
	if _, d := hclsyntax.ParseConfig([]byte(src), "", hcl.InitialPos); d.HasErrors() {
		return "a = 1 # c\nb \"l\" {\n  # lead\n  c = foo.bar\n}\n"
	}
	return src
}
