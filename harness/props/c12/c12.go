// Package c12: any sequence of hclwrite edits leaves a valid file that matches the edits.
package c12

import (
	"encoding/json"
	"fmt"
	"golang.org/x/text/unicode/norm"
	"os"
	"runtime/debug"
	"sort"
	"strings"

	"github.com/hashicorp/hcl/v2"
	"github.com/hashicorp/hcl/v2/hclsyntax"
	"github.com/hashicorp/hcl/v2/hclwrite"
	"github.com/zclconf/go-cty/cty"
	"github.com/zclconf/go-cty/cty/convert"

	"hx/lib"
)

func init() { lib.Register("C12", runC12) }

const (
	keyStaleType   = "settype:stale-type-accessor"
	keyMultiLabels = "labels-empty:multi-token-quoted-label"
	causeUntermLn  = "append-after-unterminated-line"
	causeOneLine   = "append-into-single-line-block"
	causeForKey    = "object-first-key-for"
	causeRemoveCmt = "remove-first-item-after-brace-line-comment"
	keyLabelEscape = "labels-unescape:dollar-before-introducer"
)

// hist is one history being executed: the real file, the reference model, and the operations so far.
type hist struct {
	cx      *lib.Ctx
	cs      Case
	f       *hclwrite.File
	root    *mBody
	bodies  map[int]*mBody
	blocks  map[int]*mBlock
	nextID  int
	fired   map[string]bool
	stop    bool
	cause   string // a recorded cause that is known to make the serialised file wrong
	changed bool
	scratch hclwrite.Tokens // one token buffer reused for every raw-token argument: the caller owns it and overwrites it
}

func (h *hist) fail(key, desc, impl string) {
	if h.fired[key] {
		return
	}
	h.fired[key] = true
	h.cx.Res.Fail(lib.Failure{Kind: "oracle", Key: key, Desc: fmt.Sprintf("after operation %d: %s", len(h.cs.Ops), desc), Input: h.cs.JSON(-1), Impl: impl})
}

// guard is lib.Ctx.Guard with the (large) replay document built only when a panic actually happens.
func (h *hist) guard(key string, f func()) (ok bool) {
	defer func() {
		if r := recover(); r != nil {
			h.cx.Res.Fail(lib.Failure{Kind: "oracle", Key: "panic:" + key, Desc: fmt.Sprintf("after operation %d: panic: %v\n%s", len(h.cs.Ops), r, lib.Trunc(string(debug.Stack()), 1500)), Input: h.cs.JSON(-1)})
			h.stop = true
			ok = false
		}
	}()
	f()
	return true
}

func (h *hist) newBody(wb *hclwrite.Body, owner *mBlock) *mBody {
	b := &mBody{h: wb, attrs: map[string]*mAttr{}, owner: owner}
	if owner == nil {
		b.id = 0
	} else {
		b.id = owner.id
	}
	h.bodies[b.id] = b
	return b
}

func (h *hist) newBlock(wb *hclwrite.Block, typ string, labels []string, parent *mBody) *mBlock {
	// (labels written through the API go through cty strings, which are kept in Unicode normalisation form C;
	// labels read from a file are NFC already — the native parser normalises string literals)
	blk := &mBlock{id: h.nextID, h: wb, typ: typ, labels: nfcAll(labels), parent: parent}
	h.nextID++
	h.blocks[blk.id] = blk
	blk.body = h.newBody(wb.Body(), blk)
	return blk
}

// ---------------------------------------------------------------------------
// loading

func traversalDumps(e *hclwrite.Expression) []string {
	var out []string
	for _, t := range e.Variables() {
		text := t.BuildTokens(nil).Bytes()
		ne, d := hclsyntax.ParseExpression(text, "", hcl.InitialPos)
		if d.HasErrors() {
			out = append(out, "unparseable:"+string(text))
			continue
		}
		if st, ok := ne.(*hclsyntax.ScopeTraversalExpr); ok {
			out = append(out, lib.DumpTraversal(st.Traversal))
		} else {
			out = append(out, lib.DumpExpr(ne, false))
		}
	}
	return out
}

func labelIsMultiToken(src []byte, rng hcl.Range) bool {
	toks, _ := hclsyntax.LexConfig(src[rng.Start.Byte:rng.End.Byte], "", hcl.InitialPos)
	n, quoted := 0, false
	for _, t := range toks {
		if t.Type == hclsyntax.TokenEOF {
			continue
		}
		if t.Type == hclsyntax.TokenOQuote {
			quoted = true
		}
		n++
	}
	return quoted && n > 3
}

// build mirrors a natively parsed body into the model. It returns false when the loaded tree does not
// expose the source faithfully (that is property C10's subject, not this one's).
func (h *hist) build(src []byte, nb *hclsyntax.Body, wb *hclwrite.Body, owner *mBlock) (*mBody, bool) {
	b := h.newBody(wb, owner)
	type na struct {
		name string
		at   int
	}
	var names []na
	for n, a := range nb.Attributes {
		names = append(names, na{n, a.SrcRange.Start.Byte})
	}
	sort.Slice(names, func(i, j int) bool { return names[i].at < names[j].at })
	for _, n := range names {
		a := nb.Attributes[n.name]
		wa := wb.GetAttribute(n.name)
		if wa == nil {
			return nil, false
		}
		ma := &mAttr{name: n.name, kind: "orig", dump: lib.DumpExpr(a.Expr, false)}
		for _, t := range a.Expr.Variables() {
			ma.vars = append(ma.vars, lib.DumpTraversal(t))
		}
		if strings.Join(ma.vars, "|") != strings.Join(traversalDumps(wa.Expr()), "|") {
			return nil, false
		}
		b.attrs[n.name] = ma
		b.order = append(b.order, n.name)
	}
	wblocks := wb.Blocks()
	if len(wblocks) != len(nb.Blocks) {
		return nil, false
	}
	for i, nblk := range nb.Blocks {
		blk := h.newBlock(wblocks[i], nblk.Type, nblk.Labels, b)
		blk.fromSource = true
		for _, r := range nblk.LabelRanges {
			if labelIsMultiToken(src, r) {
				blk.multiLabels = true
			}
		}
		// newBlock made an empty body model; replace it by the mirrored one (same id)
		sub, ok := h.build(src, nblk.Body, wblocks[i].Body(), blk)
		if !ok {
			return nil, false
		}
		blk.body = sub
		b.blocks = append(b.blocks, blk)
	}
	return b, true
}

// load prepares the initial file. ok=false: the case is outside the property's domain (counted, not failed).
func (h *hist) load() bool {
	h.bodies = map[int]*mBody{}
	h.blocks = map[int]*mBlock{}
	h.fired = map[string]bool{}
	h.nextID = 1
	switch h.cs.Init.Kind {
	case "empty":
		h.f = hclwrite.NewEmptyFile()
		h.root = h.newBody(h.f.Body(), nil)
		return true
	case "parsed":
		src := []byte(h.cs.Init.Src)
		nf, d := hclsyntax.ParseConfig(src, "", hcl.InitialPos)
		if d.HasErrors() {
			h.cx.Res.Count("skip:initial-invalid")
			return false
		}
		var wd hcl.Diagnostics
		if !h.guard("parseconfig", func() {
			// (the caller's buffer is recycled after loading)
			buf := append([]byte{}, src...)
			h.f, wd = hclwrite.ParseConfig(buf, "", hcl.InitialPos)
			for i := range buf {
				buf[i] = "#{}=\"\n x"[i%8]
			}
		}) {
			return false
		}
		if wd.HasErrors() || h.f == nil {
			h.cx.Res.Count("skip:initial-unfaithful")
			return false
		}
		nb := nf.Body.(*hclsyntax.Body)
		root, ok := h.build(src, nb, h.f.Body(), nil)
		if !ok {
			h.cx.Res.Count("skip:initial-unfaithful")
			return false
		}
		h.root = root
		// nothing has been touched yet: the tree holds exactly the source's tokens (everything else here
		// reasons from the tree's own token list, so this is also what keeps the attribution of later
		// failures honest)
		{
			have := tbs(h.f.BuildTokens(nil))
			want := lib.LexSeq(src)
			if n := len(want); n > 0 && want[n-1].T == hclsyntax.TokenEOF {
				want = want[:n-1]
			}
			if n := len(have); n > 0 && have[n-1].T == hclsyntax.TokenEOF {
				have = have[:n-1]
			}
			if k, differ := lib.DiffKey(want, have); differ {
				h.cx.Res.Fail(lib.Failure{Kind: "oracle", Key: "initial:tokens-differ-from-source:" + k, Desc: "the tokens held by a freshly loaded file differ from the tokens of its source", Input: string(src), Impl: string(h.f.BuildTokens(nil).Bytes())})
				return false
			}
		}
		// the unmodified tree must serialise to an equivalent configuration
		out := h.f.Bytes()
		nf2, d2 := hclsyntax.ParseConfig(out, "", hcl.InitialPos)
		if d2.HasErrors() || lib.DumpBody(nf2.Body.(*hclsyntax.Body), false) != lib.DumpBody(nb, false) {
			// the empty history is a history: the file as loaded must serialise to a valid, equivalent file
			key, desc := "initial:ast-changed", "a file loaded and written back without any edit parses to a different configuration"
			if d2.HasErrors() {
				key, desc = "initial:unparseable", "a file loaded and written back without any edit does not parse: "+d2.Error()
			}
			if k, differ := lib.DiffKey(lib.LexSeq(src), lib.LexSeq(out)); differ {
				key += ":tokens-changed:" + k
			}
			h.cx.Res.Fail(lib.Failure{Kind: "oracle", Key: key, Desc: desc, Input: string(src), Impl: string(out)})
			return false
		}
		return true
	}
	fmt.Fprintln(os.Stderr, "unknown init kind", h.cs.Init.Kind)
	os.Exit(3)
	return false
}

// ---------------------------------------------------------------------------
// token frames

func locate(all, span hclwrite.Tokens) (int, int, bool) {
	if len(span) == 0 {
		return 0, 0, false
	}
	for i, t := range all {
		if t == span[0] {
			if i+len(span) > len(all) {
				return 0, 0, false
			}
			for k := range span {
				if all[i+k] != span[k] {
					return 0, 0, false
				}
			}
			return i, i + len(span), true
		}
	}
	return 0, 0, false
}

// insertionPoints: where may tokens appended to the body appear in the file's token list? Exactly after the
// body's last token; for a body without tokens, anywhere between the owning block's braces (or anywhere in
// a file whose root body has no tokens).
func (h *hist) insertionPoints(all hclwrite.Tokens, b *mBody) ([]int, bool) {
	bt := b.h.BuildTokens(nil)
	if len(bt) > 0 {
		_, e, ok := locate(all, bt)
		return []int{e}, ok
	}
	if b.owner == nil {
		var ps []int
		for i := 0; i <= len(all); i++ {
			ps = append(ps, i)
		}
		return ps, true
	}
	s, e, ok := locate(all, b.owner.h.BuildTokens(nil))
	if !ok {
		return nil, false
	}
	o, c := -1, -1
	for i := s; i < e; i++ {
		if all[i].Type == hclsyntax.TokenOBrace && o < 0 {
			o = i
		}
		if all[i].Type == hclsyntax.TokenCBrace {
			c = i
		}
	}
	if o < 0 || c < o {
		return nil, false
	}
	var ps []int
	for i := o + 1; i <= c; i++ {
		ps = append(ps, i)
	}
	return ps, true
}

func splice(all []tb, from, to int, repl []tb) []tb {
	out := make([]tb, 0, len(all)-(to-from)+len(repl))
	out = append(out, all[:from]...)
	out = append(out, repl...)
	out = append(out, all[to:]...)
	return out
}

func isLineEnd(t tb) bool {
	return t.T == hclsyntax.TokenNewline || (t.T == hclsyntax.TokenComment && strings.HasSuffix(t.B, "\n"))
}

// frame describes what an operation is expected to do to the file's token list.
type frame struct {
	kind    string // what is checked, for the failure key
	exact   [][]tb // acceptable results (any of)
	points  []int  // for insertions: the insertion point of each acceptable result
	header  *headerFrame
	invalid string // the target could not be located: description
}

// headerFrame: SetLabels rewrites the tokens between the block's type name and its opening brace; comments
// there belong to the touched item and may or may not survive.
type headerFrame struct {
	prefix, suffix []tb
	labels         []tb
}

func insertFrame(kind string, before []tb, points []int, item []tb) *frame {
	fr := &frame{kind: kind}
	for _, p := range points {
		fr.exact = append(fr.exact, splice(before, p, p, item))
		fr.points = append(fr.points, p)
	}
	return fr
}

func unchanged(kind string, before []tb) *frame { return &frame{kind: kind, exact: [][]tb{before}} }

// verify compares the file's tokens after the operation with the frame; it returns the index of the matching alternative.
func (h *hist) verify(fr *frame, after []tb) int {
	if fr.invalid != "" {
		h.fail("tokens-mismatch:"+fr.kind, fr.invalid, "")
		h.stop = true
		return -1
	}
	if fr.header != nil {
		hf := fr.header
		ok := len(after) >= len(hf.prefix)+len(hf.suffix) && sameTBs(after[:len(hf.prefix)], hf.prefix) && sameTBs(after[len(after)-len(hf.suffix):], hf.suffix)
		if ok {
			var mid []tb
			for _, t := range after[len(hf.prefix) : len(after)-len(hf.suffix)] {
				if t.T != hclsyntax.TokenComment {
					mid = append(mid, t)
				}
			}
			ok = sameTBs(mid, hf.labels)
		}
		if !ok {
			h.fail("tokens-mismatch:"+fr.kind, "the file's tokens outside the block's label list changed, or the label list does not hold the new labels", string(h.f.Bytes()))
			h.stop = true
			return -1
		}
		return 0
	}
	for i, e := range fr.exact {
		if sameTBs(e, after) {
			return i
		}
	}
	h.fail("tokens-mismatch:"+fr.kind, "the file's token list is not the previous one with exactly the edit applied (untouched items must keep their tokens and comments): "+firstDiff(fr.exact[0], after), string(h.f.Bytes()))
	h.stop = true
	return -1
}

// ---------------------------------------------------------------------------
// executing one operation

func hasForFirstKey(v cty.Value) bool {
	if v.IsNull() || !v.IsKnown() {
		return false
	}
	ty := v.Type()
	if ty.IsObjectType() || ty.IsMapType() {
		var keys []string
		for it := v.ElementIterator(); it.Next(); {
			k, ev := it.Element()
			keys = append(keys, k.AsString())
			if hasForFirstKey(ev) {
				return true
			}
		}
		sort.Strings(keys)
		return len(keys) > 0 && keys[0] == "for"
	}
	if ty.IsListType() || ty.IsSetType() || ty.IsTupleType() {
		for it := v.ElementIterator(); it.Next(); {
			_, ev := it.Element()
			if hasForFirstKey(ev) {
				return true
			}
		}
	}
	return false
}

func firstIdent(ts []tb, from, to int) int {
	for i := from; i < to; i++ {
		if ts[i].T == hclsyntax.TokenIdent {
			return i
		}
	}
	return -1
}

// noteAppend records (in slot: the history's cause, or the pending cause of a detached block) that an item
// was appended right after a token that does not end a line.
func noteAppend(slot *string, b *mBody, before []tb, p int) {
	if p <= 0 || p > len(before) || isLineEnd(before[p-1]) || *slot != "" {
		return
	}
	if b.owner == nil {
		*slot = causeUntermLn
	} else {
		*slot = causeOneLine
	}
}

func subtreePending(blk *mBlock) string {
	if blk.pending != "" {
		return blk.pending
	}
	for _, x := range blk.body.blocks {
		if p := subtreePending(x); p != "" {
			return p
		}
	}
	return ""
}

// topDetached: the outermost block around the body that is not part of the file (nil: the body is in the file).
func topDetached(b *mBody) *mBlock {
	for b.owner != nil {
		if b.owner.parent == nil {
			return b.owner
		}
		b = b.owner.parent
	}
	return nil
}

// spanHoldsLaterLines: the tokens the library attributes to one item, [s,e) of the file's tokens, must stop at the
// end of the item's last line: after the item's first non-comment token, outside every bracket, template and
// heredoc, the first token that ends a line (a newline, or a # / // comment, which contains its newline) is the
// last token of the item.  Anything after it — comment lines that lead the NEXT item — is not the item's.
func spanHoldsLaterLines(before []tb, s, e int) bool {
	depth := 0
	started := false
	for i := s; i < e; i++ {
		t := before[i]
		if !started {
			if t.T == hclsyntax.TokenComment || t.T == hclsyntax.TokenNewline {
				continue
			}
			started = true
		}
		switch t.T {
		case hclsyntax.TokenOParen, hclsyntax.TokenOBrack, hclsyntax.TokenOBrace, hclsyntax.TokenOQuote, hclsyntax.TokenOHeredoc, hclsyntax.TokenTemplateInterp, hclsyntax.TokenTemplateControl:
			depth++
		case hclsyntax.TokenCParen, hclsyntax.TokenCBrack, hclsyntax.TokenCBrace, hclsyntax.TokenCQuote, hclsyntax.TokenCHeredoc, hclsyntax.TokenTemplateSeqEnd:
			depth--
		}
		if depth <= 0 && isLineEnd(t) && i != e-1 {
			return true
		}
	}
	return false
}

// noteRemove: the removed span starts with a comment that ends the line of the token before it (the
// comment after a block's opening brace is held by the block's first item as a lead comment).
func noteRemove(slot *string, before []tb, s int) {
	if s <= 0 || s >= len(before) || isLineEnd(before[s-1]) || *slot != "" {
		return
	}
	// (inline /* */ comments may stand between the brace and the comment that ends its line)
	for i := s; i < len(before) && before[i].T == hclsyntax.TokenComment; i++ {
		if isLineEnd(before[i]) {
			*slot = causeRemoveCmt
			return
		}
	}
}

// modelHasForFirstKey: does an attribute of the file hold a value whose rendering starts an object with the key "for"?
func modelHasForFirstKey(b *mBody) bool {
	for _, a := range b.attrs {
		if a.kind == "value" && hasForFirstKey(a.val) {
			return true
		}
	}
	for _, blk := range b.blocks {
		if modelHasForFirstKey(blk.body) {
			return true
		}
	}
	return false
}

// causeKey names the recorded cause of a wrong serialisation, if there is one.
func (h *hist) causeKey() string {
	if h.cause != "" {
		return h.cause
	}
	if modelHasForFirstKey(h.root) {
		return causeForKey
	}
	return ""
}

func badOp(op Op, why string) {
	fmt.Fprintf(os.Stderr, "c12: malformed operation %+v: %s\n", op, why)
	os.Exit(3)
}

// step applies one operation to the real file and to the model, checking the token frame, then all observations.
func (h *hist) step(op Op) {
	res := h.cx.Res
	h.cs.Ops = append(h.cs.Ops, op)
	body := h.bodies[op.Body]
	if body == nil {
		badOp(op, "unknown body")
	}
	// The scope of the token frame: the file or, for a body or block that is not part of the file, the
	// outermost detached block around it (whose edits must leave the file alone).
	var top *mBlock
	switch op.Op {
	case "newdetached":
	case "setlabels", "settype":
		if blk := h.blocks[op.Block]; blk != nil {
			if blk.parent == nil {
				top = blk
			} else {
				top = topDetached(blk.parent)
			}
		}
	default:
		top = topDetached(body)
	}
	scope := func() hclwrite.Tokens {
		if top != nil {
			return top.h.BuildTokens(nil)
		}
		return h.f.BuildTokens(nil)
	}
	var all hclwrite.Tokens
	var fileBefore []tb
	if !h.guard("buildtokens", func() {
		all = scope()
		if top != nil {
			fileBefore = tbs(h.f.BuildTokens(nil))
		}
	}) {
		return
	}
	before := tbs(all)
	// where a harmful situation is recorded: for the file in the history, for a detached scope on the block
	// whose body is edited (it stays damaged wherever it is attached later)
	slot := &h.cause
	if top != nil && body.owner != nil {
		slot = &body.owner.pending
	}
	var fr *frame
	var apply func()
	var after func() // model update
	panicKey := op.Op

	switch op.Op {
	case "setval", "settrav", "setraw":
		var exprTB []tb
		na := &mAttr{name: op.Name}
		var do func() *hclwrite.Attribute
		switch op.Op {
		case "setval":
			v, err := op.Val.decode()
			if err != nil {
				badOp(op, err.Error())
			}
			exprTB = tbs(hclwrite.TokensForValue(v))
			na.kind, na.val = "value", v
			do = func() *hclwrite.Attribute { return body.h.SetAttributeValue(op.Name, v) }
		case "settrav":
			t, err := decodeTraversal(op.Trav)
			if err != nil {
				badOp(op, err.Error())
			}
			exprTB = traversalTBs(t)
			na.kind, na.trav = "trav", lib.DumpTraversal(t)
			na.vars = []string{na.trav}
			do = func() *hclwrite.Attribute { return body.h.SetAttributeTraversal(op.Name, t) }
		default:
			toks, err := op.Raw.tokens()
			if err != nil {
				badOp(op, err.Error())
			}
			e, d := hclsyntax.ParseExpression(toks.Bytes(), "", hcl.InitialPos)
			if d.HasErrors() {
				badOp(op, "raw tokens are not an expression: "+d.Error())
			}
			exprTB = tbs(toks)
			na.kind, na.dump = "raw", lib.DumpExpr(e, false)
			do = func() *hclwrite.Attribute {
				// the argument lives in the history's scratch buffer, which the next raw operation overwrites
				// in place (fresh Token values, same backing array): what was set earlier must not follow it
				if cap(h.scratch) < 256 {
					h.scratch = make(hclwrite.Tokens, 0, 256)
				}
				if len(toks) > cap(h.scratch) {
					return body.h.SetAttributeRaw(op.Name, toks)
				}
				for i := range h.scratch[:cap(h.scratch)] {
					h.scratch[:cap(h.scratch)][i] = &hclwrite.Token{Type: hclsyntax.TokenIdent, Bytes: []byte("overwritten_scratch")}
				}
				h.scratch = append(h.scratch[:0], toks...)
				return body.h.SetAttributeRaw(op.Name, h.scratch)
			}
		}
		_, exists := body.attrs[op.Name]
		res.Count("op:" + op.Op + map[bool]string{true: "-existing", false: "-new"}[exists])
		switch {
		case exists:
			fr = &frame{kind: op.Op + "-existing"}
			wa := body.h.GetAttribute(op.Name)
			if wa == nil {
				fr.invalid = fmt.Sprintf("GetAttribute(%q) is nil for an attribute the model holds", op.Name)
			} else if s, e, ok := locate(all, wa.Expr().BuildTokens(nil)); ok {
				fr.exact = [][]tb{splice(before, s, e, exprTB)}
			} else {
				fr.invalid = fmt.Sprintf("the expression tokens of attribute %q are not a contiguous part of the file's tokens", op.Name)
			}
		default:
			item := append([]tb{identTB(op.Name), tbEqual}, exprTB...)
			item = append(item, tbNewline)
			ps, ok := h.insertionPoints(all, body)
			if !ok {
				fr = &frame{kind: op.Op + "-new", invalid: "the body's tokens are not a contiguous part of the file's tokens"}
			} else {
				fr = insertFrame(op.Op+"-new", before, ps, item)
			}
		}
		var ret *hclwrite.Attribute
		apply = func() { ret = do() }
		after = func() {
			if ret == nil {
				if exists {
					h.fail("set-returns-nil:existing-attribute", "Set"+op.Op[3:]+" returned nil for an existing attribute", "")
				} else {
					res.Count("note:set-new-attribute-returns-nil")
				}
			}
			if !exists {
				body.order = append(body.order, op.Name)
			}
			body.attrs[op.Name] = na
			h.changed = true
		}

	case "remove":
		_, exists := body.attrs[op.Name]
		res.Count("op:remove" + map[bool]string{true: "-existing", false: "-absent"}[exists])
		fr = unchanged("remove-absent", before)
		if exists {
			fr = &frame{kind: "remove"}
			wa := body.h.GetAttribute(op.Name)
			if wa == nil {
				fr.invalid = fmt.Sprintf("GetAttribute(%q) is nil for an attribute the model holds", op.Name)
			} else if s, e, ok := locate(all, wa.BuildTokens(nil)); ok {
				if spanHoldsLaterLines(before, s, e) {
					h.fail("item-span:attribute-holds-tokens-of-later-lines", fmt.Sprintf("the tokens of attribute %q go on after the end of its last line (comment lines that belong to what follows)", op.Name), string(wa.BuildTokens(nil).Bytes()))
				}
				fr.exact = [][]tb{splice(before, s, e, nil)}
				noteRemove(slot, before, s)
			} else {
				fr.invalid = fmt.Sprintf("the tokens of attribute %q are not a contiguous part of the file's tokens", op.Name)
			}
		}
		var ret *hclwrite.Attribute
		apply = func() { ret = body.h.RemoveAttribute(op.Name) }
		after = func() {
			if (ret != nil) != exists {
				h.fail("remove-result", fmt.Sprintf("RemoveAttribute(%q) returned nil=%v but the attribute existed=%v", op.Name, ret == nil, exists), "")
			}
			if exists {
				body.removeAttr(op.Name)
				h.changed = true
			}
		}

	case "rename":
		_, from := body.attrs[op.Name]
		_, to := body.attrs[op.To]
		okRename := from && !to
		res.Count("op:rename" + map[bool]string{true: "-effective", false: "-noop"}[okRename])
		fr = unchanged("rename-noop", before)
		if okRename {
			fr = &frame{kind: "rename"}
			wa := body.h.GetAttribute(op.Name)
			if wa == nil {
				fr.invalid = fmt.Sprintf("GetAttribute(%q) is nil for an attribute the model holds", op.Name)
			} else if s, e, ok := locate(all, wa.BuildTokens(nil)); ok {
				if i := firstIdent(before, s, e); i >= 0 {
					fr.exact = [][]tb{splice(before, i, i+1, []tb{identTB(op.To)})}
				} else {
					fr.invalid = "attribute without a name token"
				}
			} else {
				fr.invalid = fmt.Sprintf("the tokens of attribute %q are not a contiguous part of the file's tokens", op.Name)
			}
		}
		var ret bool
		apply = func() { ret = body.h.RenameAttribute(op.Name, op.To) }
		after = func() {
			if ret != okRename {
				h.fail("rename-result", fmt.Sprintf("RenameAttribute(%q,%q) returned %v, the model predicts %v", op.Name, op.To, ret, okRename), "")
			}
			if okRename {
				a := body.attrs[op.Name]
				a.name = op.To
				delete(body.attrs, op.Name)
				body.attrs[op.To] = a
				for i, n := range body.order {
					if n == op.Name {
						body.order[i] = op.To
					}
				}
				h.changed = true
			}
		}

	case "newblock":
		res.Count("op:newblock")
		item := append([]tb{identTB(op.Type)}, labelTBs(op.Labels)...)
		item = append(item, tbOBrace, tbNewline, tbCBrace, tbNewline)
		{
			ps, ok := h.insertionPoints(all, body)
			if !ok {
				fr = &frame{kind: "newblock", invalid: "the body's tokens are not a contiguous part of the file's tokens"}
			} else {
				fr = insertFrame("newblock", before, ps, item)
			}
		}
		var ret *hclwrite.Block
		apply = func() { ret = body.h.AppendNewBlock(op.Type, op.Labels) }
		after = func() {
			if ret == nil {
				h.fail("newblock-returns-nil", "AppendNewBlock returned nil", "")
				h.stop = true
				return
			}
			blk := h.newBlock(ret, op.Type, op.Labels, body)
			body.blocks = append(body.blocks, blk)
			h.changed = true
		}

	case "newdetached":
		res.Count("op:newdetached")
		fr = unchanged("newdetached", before)
		var ret *hclwrite.Block
		apply = func() { ret = hclwrite.NewBlock(op.Type, op.Labels) }
		after = func() { h.newBlock(ret, op.Type, op.Labels, nil) }

	case "attach":
		blk := h.blocks[op.Block]
		if blk == nil || blk.parent != nil || body.within(blk) {
			badOp(op, "attach needs a detached block and a body outside it")
		}
		res.Count("op:attach")
		{
			item := tbs(blk.h.BuildTokens(nil))
			if p := subtreePending(blk); p != "" && *slot == "" {
				*slot = p // the block was damaged while it was detached
			}
			if len(item) > 0 && !isLineEnd(item[len(item)-1]) && *slot == "" {
				// a block parsed from a last line without newline carries no line end of its own
				*slot = causeUntermLn
			}
			ps, ok := h.insertionPoints(all, body)
			if !ok {
				fr = &frame{kind: "attach", invalid: "the body's tokens are not a contiguous part of the file's tokens"}
			} else {
				fr = insertFrame("attach", before, ps, item)
			}
		}
		apply = func() { body.h.AppendBlock(blk.h) }
		after = func() {
			blk.parent = body
			body.blocks = append(body.blocks, blk)
			h.changed = true
		}

	case "removeblock":
		blk := h.blocks[op.Block]
		if blk == nil {
			badOp(op, "unknown block")
		}
		member := blk.parent == body
		res.Count("op:removeblock" + map[bool]string{true: "-member", false: "-foreign"}[member])
		fr = unchanged("removeblock-foreign", before)
		if member {
			fr = &frame{kind: "removeblock"}
			if s, e, ok := locate(all, blk.h.BuildTokens(nil)); ok {
				if spanHoldsLaterLines(before, s, e) {
					h.fail("item-span:block-holds-tokens-of-later-lines", "the tokens of the block go on after the end of its closing line (comment lines that belong to what follows)", string(blk.h.BuildTokens(nil).Bytes()))
				}
				fr.exact = [][]tb{splice(before, s, e, nil)}
				noteRemove(slot, before, s)
			} else {
				fr.invalid = "the block's tokens are not a contiguous part of the file's tokens"
			}
		}
		var ret bool
		apply = func() { ret = body.h.RemoveBlock(blk.h) }
		after = func() {
			if ret != member {
				h.fail("removeblock-result", fmt.Sprintf("RemoveBlock returned %v, the model predicts %v", ret, member), "")
			}
			if member {
				for i, x := range body.blocks {
					if x == blk {
						body.blocks = append(body.blocks[:i], body.blocks[i+1:]...)
						break
					}
				}
				blk.parent = nil
				h.changed = true
			}
		}

	case "setlabels", "settype":
		blk := h.blocks[op.Block]
		if blk == nil {
			badOp(op, "unknown block")
		}
		res.Count("op:" + op.Op)
		{
			fr = &frame{kind: op.Op}
			s, e, ok := locate(all, blk.h.BuildTokens(nil))
			ti := -1
			if ok {
				ti = firstIdent(before, s, e)
			}
			switch {
			case !ok || ti < 0:
				fr.invalid = "the block's tokens are not a contiguous part of the file's tokens"
			case op.Op == "settype":
				fr.exact = [][]tb{splice(before, ti, ti+1, []tb{identTB(op.Type)})}
			default:
				o := -1
				for i := ti + 1; i < e; i++ {
					if before[i].T == hclsyntax.TokenOBrace {
						o = i
						break
					}
				}
				if o < 0 {
					fr.invalid = "block without an opening brace"
				} else {
					fr.header = &headerFrame{prefix: before[:ti+1], suffix: before[o:], labels: labelTBs(op.Labels)}
				}
			}
		}
		if op.Op == "settype" {
			if blk.typeSet {
				panicKey = "settype-twice"
			}
			apply = func() { blk.h.SetType(op.Type) }
			after = func() {
				blk.typ = op.Type
				blk.typeSet = true
				h.changed = true
			}
		} else {
			apply = func() { blk.h.SetLabels(op.Labels) }
			after = func() {
				blk.labels = nfcAll(op.Labels)
				blk.multiLabels = false
				blk.fromSource = false
				h.changed = true
			}
		}

	case "newline":
		res.Count("op:newline")
		{
			ps, ok := h.insertionPoints(all, body)
			if !ok {
				fr = &frame{kind: "newline", invalid: "the body's tokens are not a contiguous part of the file's tokens"}
			} else {
				fr = insertFrame("newline", before, ps, []tb{tbNewline})
			}
		}
		apply = func() { body.h.AppendNewline() }
		after = func() { h.changed = true }

	default:
		badOp(op, "unknown operation")
	}

	if top != nil {
		res.Count("target:detached")
	} else if body.owner != nil {
		res.Count("target:nested")
	} else {
		res.Count("target:root")
	}

	if !h.guard(panicKey, apply) {
		return
	}
	var got []tb
	var fileAfter []tb
	if !h.guard("buildtokens", func() {
		got = tbs(scope())
		if top != nil {
			fileAfter = tbs(h.f.BuildTokens(nil))
		}
	}) {
		return
	}
	m := h.verify(fr, got)
	if m < 0 {
		return
	}
	if top != nil && !sameTBs(fileBefore, fileAfter) {
		h.fail("tokens-mismatch:detached-edit-changed-file", "an edit of a block that is not part of the file changed the file's tokens: "+firstDiff(fileBefore, fileAfter), string(h.f.Bytes()))
		h.stop = true
		return
	}
	if len(fr.points) > 0 && (op.Op != "newline" || body.owner != nil) {
		noteAppend(slot, body, before, fr.points[m])
	}
	after()
	if h.stop {
		return
	}
	h.check(top == nil && !sameTBs(before, got))
}

// ---------------------------------------------------------------------------
// observations after every operation

func nfcAll(ls []string) []string {
	out := make([]string, len(ls))
	for i, l := range ls {
		out[i] = norm.NFC.String(l)
	}
	return out
}

func sameStrs(a, b []string) bool {
	if len(a) != len(b) {
		return false
	}
	for i := range a {
		if a[i] != b[i] {
			return false
		}
	}
	return true
}

// check runs the observations; the serialised file is re-read only when the file's tokens changed.
func (h *hist) check(reparse bool) {
	ok := h.guard("accessors", func() {
		h.checkAccessors(h.root, "root")
		for _, id := range h.blockIDs() {
			if blk := h.blocks[id]; blk.parent == nil {
				h.checkBlockAccessors(blk, fmt.Sprintf("detached#%d", id))
			}
		}
	})
	if !ok || h.stop {
		return
	}
	if !reparse {
		h.cause = ""
		return
	}
	var out []byte
	if !h.guard("bytes", func() { out = h.f.Bytes() }) {
		return
	}
	nf, d := hclsyntax.ParseConfig(out, "", hcl.InitialPos)
	if d.HasErrors() {
		key := "unparseable:" + slug(d[0].Summary)
		if c := h.causeKey(); c != "" {
			key = "unparseable:" + c
		}
		h.fail(key, "the serialised file does not parse: "+d.Error(), string(out))
		h.stop = true
		return
	}
	h.compareParsed(nf.Body.(*hclsyntax.Body), h.root, "root", string(out))
	if !h.stop {
		h.cause = "" // the recorded situation did no harm
	}
}

func slug(s string) string {
	s = strings.ToLower(s)
	var sb strings.Builder
	for _, c := range s {
		if (c >= 'a' && c <= 'z') || (c >= '0' && c <= '9') {
			sb.WriteRune(c)
		} else if sb.Len() > 0 && !strings.HasSuffix(sb.String(), "-") {
			sb.WriteByte('-')
		}
	}
	return strings.TrimRight(sb.String(), "-")
}

func (h *hist) blockIDs() []int {
	ids := make([]int, 0, len(h.blocks))
	for id := range h.blocks {
		ids = append(ids, id)
	}
	sort.Ints(ids)
	return ids
}

var absentNames = []string{"zz_absent", "a", "for"}

func (h *hist) checkAccessors(b *mBody, path string) {
	var want, got []string
	for n := range b.attrs {
		want = append(want, n)
	}
	wattrs := b.h.Attributes()
	for n := range wattrs {
		got = append(got, n)
	}
	sort.Strings(want)
	sort.Strings(got)
	if !sameStrs(want, got) {
		h.fail("attributes-mismatch", fmt.Sprintf("Body.Attributes() at %s has names %q, the model has %q", path, got, want), "")
		h.stop = true
		return
	}
	for _, n := range want {
		wa := b.h.GetAttribute(n)
		if wa == nil {
			h.fail("getattribute-nil", fmt.Sprintf("Body.GetAttribute(%q) at %s is nil, the model has the attribute", n, path), "")
			continue
		}
		gv := traversalDumps(wa.Expr())
		if !sameStrs(gv, b.attrs[n].vars) {
			h.fail("variables-mismatch:"+b.attrs[n].kind, fmt.Sprintf("Expr().Variables() of %s.%s reads %q, the model has %q", path, n, gv, b.attrs[n].vars), "")
		}
	}
	for _, n := range absentNames {
		if _, has := b.attrs[n]; !has && b.h.GetAttribute(n) != nil {
			h.fail("getattribute-ghost", fmt.Sprintf("Body.GetAttribute(%q) at %s is not nil, the model has no such attribute", n, path), "")
		}
	}
	wblocks := b.h.Blocks()
	if len(wblocks) != len(b.blocks) {
		h.fail("blocks-mismatch", fmt.Sprintf("Body.Blocks() at %s has %d blocks, the model has %d", path, len(wblocks), len(b.blocks)), "")
		h.stop = true
		return
	}
	for i, blk := range b.blocks {
		p := fmt.Sprintf("%s/%s[%d]", path, blk.typ, i)
		if wblocks[i] != blk.h {
			h.fail("blocks-order", fmt.Sprintf("Body.Blocks()[%d] at %s is not the block the model has at that position", i, path), "")
			h.stop = true
			return
		}
		h.checkBlockAccessors(blk, p)
		// FirstMatchingBlock finds the first block of that type and labels
		first := -1
		for j, x := range b.blocks {
			if x.typ == blk.typ && sameStrs(x.labels, blk.labels) {
				first = j
				break
			}
		}
		fm := b.h.FirstMatchingBlock(blk.typ, blk.labels)
		if fm != wblocks[first] {
			// Is the answer at least the first match according to what Type() and Labels() themselves say? Then it
			// is a consequence of accessor disagreements that are reported under their own keys.
			var own *hclwrite.Block
			for _, wb := range wblocks {
				if wb.Type() == blk.typ && sameStrs(wb.Labels(), blk.labels) {
					own = wb
					break
				}
			}
			if fm != own {
				what := "nil"
				if fm != nil {
					what = "another block"
				}
				h.fail("firstmatchingblock-mismatch", fmt.Sprintf("Body.FirstMatchingBlock(%q, %q) at %s returns %s, the model's first match is block %d", blk.typ, blk.labels, path, what, first), "")
			}
		}
	}
	if fm := b.h.FirstMatchingBlock("zz_absent_type", nil); fm != nil {
		h.fail("firstmatchingblock-ghost", fmt.Sprintf("Body.FirstMatchingBlock of an absent type at %s is not nil", path), "")
	}
}

func (h *hist) checkBlockAccessors(blk *mBlock, p string) {
	if t := blk.h.Type(); t != blk.typ {
		key := "block-type-mismatch"
		if blk.typeSet {
			key = keyStaleType
		}
		h.fail(key, fmt.Sprintf("Block.Type() at %s is %q, the model has %q", p, t, blk.typ), t)
	}
	if gl := blk.h.Labels(); !sameStrs(gl, blk.labels) {
		key := "labels-mismatch"
		if blk.multiLabels {
			key = keyMultiLabels
		} else if !blk.parsedLabels() && dollarBeforeIntroducer(blk.labels) {
			key = keyLabelEscape
		}
		h.fail(key, fmt.Sprintf("Block.Labels() at %s is %q, the model has %q", p, gl, blk.labels), fmt.Sprintf("%q", gl))
	}
	h.checkAccessors(blk.body, p)
}

// dollarBeforeIntroducer: a label value with "$" directly before "${" (or "%" before "%{") is written as
// "$$${" and read back by Block.Labels() without undoing the escape.
func dollarBeforeIntroducer(labels []string) bool {
	for _, l := range labels {
		if strings.Contains(l, "$${") || strings.Contains(l, "%%{") {
			return true
		}
	}
	return false
}

func (h *hist) mismatch(what, desc, out string) {
	key := "model-mismatch:" + what
	if c := h.causeKey(); c != "" {
		key = "model-mismatch:" + c
	}
	h.fail(key, desc, out)
	h.stop = true
}

func (h *hist) compareParsed(nb *hclsyntax.Body, b *mBody, path, out string) {
	var want, got []string
	for n := range b.attrs {
		want = append(want, n)
	}
	for n := range nb.Attributes {
		got = append(got, n)
	}
	sort.Strings(want)
	sort.Strings(got)
	if !sameStrs(want, got) {
		h.mismatch("attributes", fmt.Sprintf("the serialised file has attributes %q at %s, the model has %q", got, path, want), out)
		return
	}
	for _, n := range want {
		a, e := b.attrs[n], nb.Attributes[n].Expr
		switch a.kind {
		case "value":
			v, d := e.Value(nil)
			if d.HasErrors() {
				h.mismatch("value", fmt.Sprintf("attribute %s.%s does not evaluate: %s", path, n, d.Error()), out)
				return
			}
			cv, err := convert.Convert(v, a.val.Type())
			if err != nil || !cv.RawEquals(a.val) {
				h.mismatch("value", fmt.Sprintf("attribute %s.%s evaluates to %s, the value set is %s", path, n, lib.DumpValue(v), lib.DumpValue(a.val)), out)
				return
			}
		case "trav":
			t, d := hcl.AbsTraversalForExpr(e)
			if d.HasErrors() || lib.DumpTraversal(t) != a.trav {
				h.mismatch("traversal", fmt.Sprintf("attribute %s.%s reads %s, the traversal set is %s", path, n, lib.DumpExpr(e, false), a.trav), out)
				return
			}
		default:
			if g := lib.DumpExpr(e, false); g != a.dump {
				what := "raw"
				if a.kind == "orig" {
					what = "untouched-expression"
				}
				h.mismatch(what, fmt.Sprintf("attribute %s.%s reads %s, expected %s", path, n, g, a.dump), out)
				return
			}
		}
	}
	if len(nb.Blocks) != len(b.blocks) {
		h.mismatch("blocks", fmt.Sprintf("the serialised file has %d blocks at %s, the model has %d", len(nb.Blocks), path, len(b.blocks)), out)
		return
	}
	for i, blk := range b.blocks {
		p := fmt.Sprintf("%s/%s[%d]", path, blk.typ, i)
		if nb.Blocks[i].Type != blk.typ {
			h.mismatch("block-type", fmt.Sprintf("block %s has type %q in the serialised file", p, nb.Blocks[i].Type), out)
			return
		}
		if !sameStrs(nb.Blocks[i].Labels, blk.labels) {
			h.mismatch("labels", fmt.Sprintf("block %s has labels %q in the serialised file, the model has %q", p, nb.Blocks[i].Labels, blk.labels), out)
			return
		}
		h.compareParsed(nb.Blocks[i].Body, blk.body, p, out)
		if h.stop {
			return
		}
	}
}

// ---------------------------------------------------------------------------
// runner

func runCase(cx *lib.Ctx, cs Case) {
	h := &hist{cx: cx, cs: Case{Init: cs.Init}}
	if !h.load() {
		return
	}
	h.check(true)
	for _, op := range cs.Ops {
		if h.stop {
			break
		}
		h.step(op)
	}
	cx.Res.Case(cs.JSON(-1), h.changed)
}

func runC12(cx *lib.Ctx) {
	if cx.Replay == "" {
		corrNodes(cx)
	}
	res := cx.Res
	defer debug.SetGCPercent(debug.SetGCPercent(400))
	if cx.Replay != "" {
		in := lib.ReplayInput(cx.Replay)
		var cs Case
		if err := json.Unmarshal([]byte(in), &cs); err != nil {
			fmt.Fprintln(os.Stderr, "c12: replay input is not a case document:", err)
			os.Exit(3)
		}
		runCase(cx, cs)
		res.Sample(in)
		return
	}
	res.Rule = "histories of writer operations (SetAttributeValue / Traversal / Raw, RemoveAttribute, RenameAttribute, AppendNewBlock, NewBlock+AppendBlock, RemoveBlock and re-AppendBlock, SetLabels, SetType, AppendNewline) with arguments over the escape-relevant alphabets, on the root body, nested bodies and detached blocks, targeting existing and absent names, applied to an empty file, a file built through the API, or a parsed file with comments (some without final newline); after every operation the file's token list must be the previous one with exactly the edit applied, the accessors must agree with a map/list model, and the serialised file must parse to the model; non-trivial = at least one operation changed the model; distinct by the case document"

	for _, c := range handCases {
		var cs Case
		if err := json.Unmarshal([]byte(c), &cs); err != nil {
			panic(err)
		}
		runCase(cx, cs)
		res.Count("corpus")
	}

	R := cx.R.Fork() // see props/c10: decorrelates consecutive seeds
	n := cx.Scale(5000, 40000)
	maxOps := cx.Scale(30, 100)
	for i := 0; i < n; i++ {
		r := R.Fork()
		g := &opGen{r: r}
		h := &hist{cx: cx}
		switch r.Intn(3) {
		case 0:
			h.cs.Init = Init{Kind: "empty"}
			res.Count("init:empty")
		case 1:
			h.cs.Init = Init{Kind: "empty"}
			g.buildPhase = 4 + r.Intn(12)
			res.Count("init:built")
		default:
			h.cs.Init = Init{Kind: "parsed", Src: g.source()}
			res.Count("init:parsed")
			if !strings.HasSuffix(h.cs.Init.Src, "\n") {
				res.Count("init:parsed-no-final-newline")
			}
		}
		if !h.load() {
			continue
		}
		h.check(true)
		nops := 1 + r.Intn(maxOps)
		for k := 0; k < nops+g.buildPhase && !h.stop; k++ {
			h.step(g.next(h, k))
		}
		res.Count(fmt.Sprintf("ops-applied:%02d-%02d", len(h.cs.Ops)/10*10, len(h.cs.Ops)/10*10+9))
		js := h.cs.JSON(-1)
		res.Case(js, h.changed)
		if i < 3 {
			res.Sample(js)
		}
	}
	if n := res.Distribution["note:set-new-attribute-returns-nil"]; n > 0 {
		res.Notes = append(res.Notes, fmt.Sprintf("Body.SetAttributeValue/Traversal/Raw returned nil for a newly created attribute in all %d such calls (the inner `attr :=` shadows the result; documented: \"the attribute that was either modified in-place or created\"); return values of operations are outside the property, so this is a note, not a failure", n))
	}
}

// handCases pin the behaviours seen during the design round.
var handCases = []string{
	`{"init":{"kind":"empty"},"ops":[{"op":"newblock","body":0,"type":"x","labels":["l"]},{"op":"settype","body":0,"block":1,"type":"y"}]}`,
	`{"init":{"kind":"empty"},"ops":[{"op":"newblock","body":0,"type":"x"},{"op":"settype","body":0,"block":1,"type":"y"},{"op":"settype","body":0,"block":1,"type":"z"}]}`,
	`{"init":{"kind":"parsed","src":"b = \"x\""},"ops":[{"op":"setval","body":0,"name":"c","val":{"t":"bool","v":true}}]}`,
	`{"init":{"kind":"parsed","src":"blk { a = 1 }\n"},"ops":[{"op":"setval","body":1,"name":"c","val":{"t":"bool","v":true}}]}`,
	`{"init":{"kind":"parsed","src":"blk {}\n"},"ops":[{"op":"newblock","body":1,"type":"x"}]}`,
	`{"init":{"kind":"parsed","src":"blk \"100%\" {\n}\n"},"ops":[]}`,
	`{"init":{"kind":"parsed","src":"# c"},"ops":[{"op":"setval","body":0,"name":"c","val":{"t":"bool","v":true}}]}`,
	`{"init":{"kind":"empty"},"ops":[{"op":"setval","body":0,"name":"m","val":{"t":["map","number"],"v":{"for":1}}}]}`,
	`{"init":{"kind":"parsed","src":"blk { // c\n  a = 1\n  b = 2\n}\n"},"ops":[{"op":"remove","body":1,"name":"a"}]}`,
	`{"init":{"kind":"empty"},"ops":[{"op":"newblock","body":0,"type":"x","labels":["a$${b}"]}]}`,
	`{"init":{"kind":"parsed","src":"blk {}\n"},"ops":[{"op":"newline","body":1},{"op":"setval","body":1,"name":"c","val":{"t":"bool","v":true}}]}`,
	`{"init":{"kind":"parsed","src":"# lead\na = foo.bar # line\n\n# detached\n\nb \"l\" {\n  c = 1 /* x */\n}\n"},"ops":[{"op":"rename","body":0,"name":"a","to":"z"},{"op":"setval","body":1,"name":"c","val":{"t":"string","v":"${x}"}},{"op":"removeblock","body":0,"block":1},{"op":"attach","body":0,"block":1},{"op":"remove","body":0,"name":"z"}]}`,
}
