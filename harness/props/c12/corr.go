package c12

import (
	"fmt"
	"sort"
	"strings"

	"github.com/hashicorp/hcl/v2"
	"github.com/hashicorp/hcl/v2/hclsyntax"
	"github.com/hashicorp/hcl/v2/hclwrite"
	"github.com/zclconf/go-cty/cty"

	"hx/lib"
)

// corrNodes drives the root body of a real hclwrite file and the Lean pointer model (HclModel/Write/Nodes)
// with the same random edit histories; after every operation the structured items of the serialised body
// (attributes with their value, blocks with type and labels, in source order) are compared.
func corrNodes(cx *lib.Ctx) {
	if !cx.HasModel() {
		return
	}
	names := []string{"a", "b", "c", "d", "e"}
	types := []string{"blk", "svc", "x"}
	n := cx.Scale(300, 12000)
	for i := 0; i < n; i++ {
		corrNodesHistory(cx, names, types)
	}
}

func corrNodesHistory(cx *lib.Ctx, names, types []string) {
	{
		r := cx.R.Fork()
		f := hclwrite.NewEmptyFile()
		body := f.Body()
		blocks := map[int]*hclwrite.Block{}
		var live []int
		nextID := 1
		var ops []string
		defer func() {
			if p := recover(); p != nil {
				cx.Res.Fail(lib.Failure{Kind: "corr", Key: "WOP:panic", Desc: fmt.Sprintf("the last edit operation of this history panicked: %v", p), Input: "WOP " + strings.Join(ops, " ")})
			}
		}()
		for j := 1 + r.Intn(25); j > 0; j-- {
			switch r.Intn(10) {
			case 0, 1, 2, 3:
				nm, v := r.Pick(names), r.Intn(100)
				ops = append(ops, fmt.Sprintf("set:%s:%d", nm, v))
				body.SetAttributeValue(nm, cty.NumberIntVal(int64(v)))
			case 4:
				nm := r.Pick(names)
				ops = append(ops, "rm:"+nm)
				body.RemoveAttribute(nm)
			case 5:
				a, b := r.Pick(names), r.Pick(names)
				ops = append(ops, "ren:"+a+":"+b)
				body.RenameAttribute(a, b)
			case 6, 7:
				t := r.Pick(types)
				var ls []string
				for k := r.Intn(3); k > 0; k-- {
					ls = append(ls, r.Pick([]string{"l1", "l2", "web"}))
				}
				blocks[nextID] = body.AppendNewBlock(t, ls)
				live = append(live, nextID)
				lab := "-"
				if len(ls) > 0 {
					lab = strings.Join(ls, ",")
				}
				ops = append(ops, fmt.Sprintf("blk:%s:%s:%d", t, lab, nextID))
				nextID++
			case 8:
				if len(live) == 0 {
					continue
				}
				k := r.Intn(len(live))
				id := live[k]
				ops = append(ops, fmt.Sprintf("rmb:%d", id))
				body.RemoveBlock(blocks[id])
				live = append(live[:k], live[k+1:]...)
			default:
				body.AppendNewline()
				ops = append(ops, "nl")
			}
			line := "WOP " + strings.Join(ops, " ")
			impl, ok := nodesItems(f.Bytes())
			if !ok {
				cx.Res.Count("corr-nodes:unparseable")
				break
			}
			model := cx.Ask(line)
			cx.Res.CorrChecked++
			if model != impl {
				cx.Res.Fail(lib.Failure{Kind: "corr", Key: "WOP", Desc: "items of the serialised body differ from the pointer model", Input: line, Model: model, Impl: impl})
				break
			}
		}
	}
}

// nodesItems lists the structured items of the root body in source order.
func nodesItems(src []byte) (string, bool) {
	f, diags := hclsyntax.ParseConfig(src, "", hcl.InitialPos)
	if diags.HasErrors() {
		return "", false
	}
	b := f.Body.(*hclsyntax.Body)
	type it struct {
		at int
		s  string
	}
	var items []it
	for name, a := range b.Attributes {
		v, _ := a.Expr.Value(nil)
		bf := v.AsBigFloat()
		iv, _ := bf.Int64()
		items = append(items, it{a.SrcRange.Start.Byte, fmt.Sprintf("a.%s.%d", name, iv)})
	}
	for _, blk := range b.Blocks {
		lab := "-"
		if len(blk.Labels) > 0 {
			lab = strings.Join(blk.Labels, ",")
		}
		items = append(items, it{blk.TypeRange.Start.Byte, "b." + blk.Type + "." + lab})
	}
	sort.Slice(items, func(i, j int) bool { return items[i].at < items[j].at })
	out := make([]string, len(items))
	for i, x := range items {
		out[i] = x.s
	}
	return strings.Join(out, " "), true
}
