package c11

import (
	"math/big"

	"github.com/hashicorp/hcl/v2"
	"github.com/zclconf/go-cty/cty"
)

// handValues are shapes that must always be covered regardless of the seed.
func handValues() []cty.Value {
	var out []cty.Value
	for _, s := range []string{"", "$", "%", "${", "%{", "$${", "%%{", "$$${", "$$", "$${}", "a$", "a%", "${a}", "%{if a}b%{endif}", "$%{", "%${", "\"", "\\", "\\n", "\\u00e9", "\\${",
		"\x00", "\x7f", "\u0085", "\u00a0", "\u2028", "\u2029", "\ufeff", "\ufffe", "\U0010ffff", "\U0001F600", "e\u0301", "\u1100\u1161", "\U0002F800", "a\nb", "a\r\nb", "tab\t", "<<EOT\nx\nEOT\n", " a\n\n", "\n b\n", "  first paragraph\n\n  second paragraph\n", "a\n  b\n", "  a\n  b\n", "EOT\n", " x\n EOT\n"} {
		out = append(out, cty.StringVal(s))
	}
	for _, k := range []string{"for", "if", "in", "null", "true", "false", "else", "endif", "endfor"} {
		out = append(out, cty.MapVal(map[string]cty.Value{k: cty.NumberIntVal(1)}))
		out = append(out, cty.ObjectVal(map[string]cty.Value{k: cty.StringVal("v"), "zz": cty.True}))
		out = append(out, cty.ObjectVal(map[string]cty.Value{"a": cty.True, k: cty.StringVal("v")}))
		out = append(out, cty.ListVal([]cty.Value{cty.MapVal(map[string]cty.Value{k: cty.NullVal(cty.String)})}))
	}
	out = append(out,
		cty.NullVal(cty.DynamicPseudoType), cty.NullVal(cty.String), cty.NullVal(cty.List(cty.Number)), cty.NullVal(cty.EmptyObject),
		cty.EmptyObjectVal, cty.EmptyTupleVal, cty.ListValEmpty(cty.String), cty.SetValEmpty(cty.Number), cty.MapValEmpty(cty.Bool),
		cty.MapVal(map[string]cty.Value{"": cty.True, "a b": cty.False, "1": cty.True, "a.b": cty.True, "${x}": cty.False}),
		cty.MapVal(map[string]cty.Value{"\ufeffkey": cty.True}), cty.ObjectVal(map[string]cty.Value{"a": cty.True, "\ufeff": cty.True, "\ufeffb-c": cty.False}),
		cty.NumberIntVal(0), cty.NumberIntVal(-1), cty.MustParseNumberVal("1e400"), cty.MustParseNumberVal("-1e-400"), cty.MustParseNumberVal("0.1"),
		cty.NumberFloatVal(0.5), cty.NumberFloatVal(0.1),
	)
	// deeply nested values (the generated source nests one bracket per level; whatever the parser keeps per
	// level must not run out): tuples, objects and a mix, 63 to 130 levels
	for _, depth := range []int{63, 64, 65, 70, 100, 130} {
		t, o, m := cty.NumberIntVal(1), cty.NumberIntVal(1), cty.StringVal("leaf")
		for d := 0; d < depth; d++ {
			t = cty.TupleVal([]cty.Value{t})
			o = cty.ObjectVal(map[string]cty.Value{"k": o})
			if d%2 == 0 {
				m = cty.ListVal([]cty.Value{m})
			} else {
				m = cty.MapVal(map[string]cty.Value{"m": m})
			}
		}
		out = append(out, t, o, m, cty.ObjectVal(map[string]cty.Value{"a": t, "b": cty.True}), cty.TupleVal([]cty.Value{o, cty.NumberIntVal(2)}))
	}
	big300, _, _ := big.ParseFloat("1"+zeros(299)+"1", 10, 2048, big.ToNearestEven)
	out = append(out, cty.NumberVal(big300))
	return out
}

func zeros(n int) string {
	b := make([]byte, n)
	for i := range b {
		b[i] = '0'
	}
	return string(b)
}

func handTraversals() []hcl.Traversal {
	root := func(n string) hcl.Traverser { return hcl.TraverseRoot{Name: n} }
	attr := func(n string) hcl.Traverser { return hcl.TraverseAttr{Name: n} }
	idx := func(v cty.Value) hcl.Traverser { return hcl.TraverseIndex{Key: v} }
	return []hcl.Traversal{
		{root("a")},
		{root("a"), attr("b"), idx(cty.NumberIntVal(0)), idx(cty.StringVal("k"))},
		{root("for")}, {root("for"), attr("for")}, {root("null")}, {root("true"), attr("false")}, {root("if"), attr("in")},
		{root("a"), idx(cty.StringVal("${x}"))}, {root("a"), idx(cty.StringVal("%{"))}, {root("a"), idx(cty.StringVal(""))}, {root("a"), idx(cty.StringVal("\n\"\\"))},
		{root("a"), idx(cty.MustParseNumberVal("1.5"))}, {root("a"), idx(cty.MustParseNumberVal("18446744073709551616"))},
		{attr("b")}, {idx(cty.NumberIntVal(3)), attr("c")}, {attr("for"), idx(cty.StringVal("for"))},
		{root("x-y"), attr("a-b")}, {root("é"), attr("日本")},
	}
}
