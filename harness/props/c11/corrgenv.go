package c11

import (
	"math/big"
	"strconv"
	"strings"
	"unicode"

	"github.com/hashicorp/hcl/v2"
	"github.com/hashicorp/hcl/v2/hclsyntax"
	"github.com/hashicorp/hcl/v2/hclwrite"
	"github.com/zclconf/go-cty/cty"

	"hx/lib"
)

// The GENV / PARSEG correspondences tie HclModel/Write/GenValue.lean to the code:
//
//	GENV    appendTokensForValue vs `gen`; the scanner on the written bytes vs `relex`; ParseExpression + Value(nil) on the
//	        written bytes vs `readBack`; the same value written with SetAttributeValue and read from the parsed body vs
//	        `readBackAttr`
//	PARSEG  the parser model on mutated token strings over the generated alphabet: whenever the model accepts and the
//	        constant expression has a value, ParseExpression must accept the rendered text and evaluate to that value

type genvTables struct {
	nums  []*big.Float // absolute values, index = magnitude id
	texts []string
	runes map[rune]bool
	keys  map[string]bool
}

func dotCps(s string) string {
	rs := []rune(s)
	parts := make([]string, len(rs))
	for i, r := range rs {
		parts[i] = strconv.Itoa(int(r))
	}
	return strings.Join(parts, ".")
}

func (t *genvTables) numID(bf *big.Float) (neg bool, id int) {
	abs := new(big.Float).Abs(bf)
	for i, n := range t.nums {
		if n.Cmp(abs) == 0 {
			return bf.Sign() < 0, i
		}
	}
	t.nums = append(t.nums, abs)
	t.texts = append(t.texts, abs.Text('f', -1))
	return bf.Sign() < 0, len(t.nums) - 1
}

func (t *genvTables) lookupNum(bf *big.Float) (bool, int) {
	abs := new(big.Float).Abs(bf)
	for i, n := range t.nums {
		if n.Cmp(abs) == 0 {
			return bf.Sign() < 0, i
		}
	}
	return bf.Sign() < 0, 999999
}

func (t *genvTables) noteString(s string) {
	for _, r := range s {
		t.runes[r] = true
	}
}

// encGV writes a cty value in the model's prefix coding; register = add numbers / runes / keys to the tables
func (t *genvTables) encGV(v cty.Value, register bool, out *[]string) {
	switch {
	case v.IsNull():
		*out = append(*out, "N")
	case v.Type() == cty.Bool:
		if v.True() {
			*out = append(*out, "T")
		} else {
			*out = append(*out, "F")
		}
	case v.Type() == cty.Number:
		var neg bool
		var id int
		if register {
			neg, id = t.numID(v.AsBigFloat())
		} else {
			neg, id = t.lookupNum(v.AsBigFloat())
		}
		n := "0"
		if neg {
			n = "1"
		}
		*out = append(*out, "#"+n+":"+strconv.Itoa(id))
	case v.Type() == cty.String:
		if register {
			t.noteString(v.AsString())
		}
		*out = append(*out, "S"+dotCps(v.AsString()))
	case v.Type().IsListType() || v.Type().IsSetType() || v.Type().IsTupleType():
		*out = append(*out, "L"+strconv.Itoa(v.LengthInt()))
		for it := v.ElementIterator(); it.Next(); {
			_, ev := it.Element()
			t.encGV(ev, register, out)
		}
	case v.Type().IsMapType() || v.Type().IsObjectType():
		*out = append(*out, "O"+strconv.Itoa(v.LengthInt()))
		for it := v.ElementIterator(); it.Next(); {
			k, ev := it.Element()
			if register {
				t.noteString(k.AsString())
				t.keys[k.AsString()] = true
			}
			*out = append(*out, "K"+dotCps(k.AsString()))
			t.encGV(ev, register, out)
		}
	default:
		*out = append(*out, "?")
	}
}

func (t *genvTables) tokOfWriter(tok *hclwrite.Token) string {
	switch tok.Type {
	case hclsyntax.TokenIdent:
		return "i" + dotCps(string(tok.Bytes))
	case hclsyntax.TokenNumberLit:
		s := string(tok.Bytes)
		neg := "0"
		if strings.HasPrefix(s, "-") {
			neg, s = "1", s[1:]
		}
		id := 999999
		for i, tx := range t.texts {
			if tx == s {
				id = i
			}
		}
		return "n" + neg + ":" + strconv.Itoa(id)
	case hclsyntax.TokenMinus:
		return "m"
	case hclsyntax.TokenOQuote:
		return "oq"
	case hclsyntax.TokenCQuote:
		return "cq"
	case hclsyntax.TokenQuotedLit:
		return "q" + dotCps(string(tok.Bytes))
	case hclsyntax.TokenOBrack:
		return "["
	case hclsyntax.TokenCBrack:
		return "]"
	case hclsyntax.TokenOBrace:
		return "{"
	case hclsyntax.TokenCBrace:
		return "}"
	case hclsyntax.TokenComma:
		return ","
	case hclsyntax.TokenEqual:
		return "="
	case hclsyntax.TokenNewline:
		return "nl"
	}
	return "?" + tok.Type.GoString()
}

func joinToks(ts []string) string {
	if len(ts) == 0 {
		return "-"
	}
	return strings.Join(ts, " ")
}

// lexed: the scanner's view of the written bytes, adjacent QuotedLit tokens merged (the scanner cuts literals at `$`, `%`)
func (t *genvTables) lexed(src []byte) []string {
	toks, _ := hclsyntax.LexExpression(src, "", hcl.InitialPos)
	var out []string
	lastQ := false
	for _, tk := range toks {
		if tk.Type == hclsyntax.TokenEOF {
			continue
		}
		if tk.Type == hclsyntax.TokenQuotedLit && lastQ {
			out[len(out)-1] += "." + dotCps(string(tk.Bytes))
			continue
		}
		lastQ = tk.Type == hclsyntax.TokenQuotedLit
		out = append(out, t.tokOfWriter(&hclwrite.Token{Type: tk.Type, Bytes: tk.Bytes}))
	}
	return out
}

func (t *genvTables) tables() (string, string) {
	var ps []string
	for r := range t.runes {
		f := "0"
		if unicode.IsPrint(r) {
			f = "1"
		}
		ps = append(ps, strconv.Itoa(int(r))+":"+f)
	}
	sortStrings(ps)
	var ids []string
	for k := range t.keys {
		if hclsyntax.ValidIdentifier(k) {
			ids = append(ids, dotCps(k))
		}
	}
	sortStrings(ids)
	p, i := "-", "-"
	if len(ps) > 0 {
		p = strings.Join(ps, ",")
	}
	if len(ids) > 0 {
		i = strings.Join(ids, ";")
	}
	return p, i
}

func sortStrings(a []string) {
	for i := 1; i < len(a); i++ {
		for j := i; j > 0 && a[j] < a[j-1]; j-- {
			a[j], a[j-1] = a[j-1], a[j]
		}
	}
}

var genvKeys = []string{"for", "true", "false", "null", "a", "b_1", "if", "in", "endfor", "a b", "", "1", "-", "a.b", "é", "for ", "${x}", "a-b", "_", "x\ny", "%{", "\""}
var genvStrs = []string{" a\n\n", "\n b\n", "  first paragraph\n\n  second paragraph\n", "a\nb\n", "", "a", "for", "${x}", "%{if}", "$${", "\n", "\"", "\\", "a\tb", "é", "\x00", " ", "$", "%", "{", "}", "[0]", "-1"}
var genvNums = []string{"0", "1", "2", "7", "10", "255", "0.5", "1.25", "1000000", "18446744073709551616", "0.001", "3.14159"}

func genvValue(r *lib.Rand, depth int) cty.Value {
	k := r.Weighted([]int{2, 2, 4, 4, 3, 3, 2, 2})
	if depth <= 0 && k >= 4 {
		k = r.Intn(4)
	}
	switch k {
	case 0:
		if r.Chance(1, 2) {
			return cty.NullVal(cty.String)
		}
		return cty.NullVal(cty.DynamicPseudoType)
	case 1:
		return cty.BoolVal(r.Chance(1, 2))
	case 2:
		s := genvNums[r.Intn(len(genvNums))]
		if r.Chance(1, 2) && s != "0" {
			s = "-" + s
		}
		return mustParse(s)
	case 3:
		if r.Chance(1, 2) {
			return cty.StringVal(genvStrs[r.Intn(len(genvStrs))])
		}
		s := genString(r)
		if strings.ContainsRune(s, 0xfeff) {
			s = "x"
		}
		return cty.StringVal(s)
	case 4, 5:
		n := r.Intn(4)
		vs := make([]cty.Value, n)
		for i := range vs {
			vs[i] = genvValue(r, depth-1)
		}
		return cty.TupleVal(vs)
	default:
		n := r.Intn(4)
		m := map[string]cty.Value{}
		for i := 0; i < n; i++ {
			var key string
			if r.Chance(2, 3) {
				key = genvKeys[r.Intn(len(genvKeys))]
			} else {
				key = genKey(r)
				if strings.ContainsRune(key, 0xfeff) {
					key = "k"
				}
			}
			m[key] = genvValue(r, depth-1)
		}
		return cty.ObjectVal(m)
	}
}

func corrGenValue(cx *lib.Ctx) {
	if !cx.HasModel() {
		return
	}
	n := cx.Scale(2500, 60000)
	for i := 0; i < n; i++ {
		r := cx.R.Fork()
		v := genvValue(r, 1+r.Intn(3))
		t := &genvTables{runes: map[rune]bool{}, keys: map[string]bool{}}
		var enc []string
		t.encGV(v, true, &enc)
		ptab, ids := t.tables()
		input := lib.DumpValue(v)
		var implGen, implLex []string
		implBack, implAttr := "none", "none"
		ok := cx.Guard("genv", input, func() {
			toks := hclwrite.TokensForValue(v)
			for _, tk := range toks {
				implGen = append(implGen, t.tokOfWriter(tk))
			}
			src := toks.Bytes()
			implLex = t.lexed(src)
			if e, diags := hclsyntax.ParseExpression(src, "", hcl.InitialPos); !diags.HasErrors() {
				if got, d2 := e.Value(nil); !d2.HasErrors() {
					var o []string
					t.encGV(got, false, &o)
					implBack = strings.Join(o, " ")
				}
			}
			f := hclwrite.NewEmptyFile()
			f.Body().SetAttributeValue("a", v)
			f.Body().SetAttributeValue("z", cty.NumberIntVal(0))
			if pf, diags := hclsyntax.ParseConfig(f.Bytes(), "", hcl.InitialPos); !diags.HasErrors() {
				if at, ok := pf.Body.(*hclsyntax.Body).Attributes["a"]; ok {
					if got, d2 := at.Expr.Value(nil); !d2.HasErrors() {
						var o []string
						t.encGV(got, false, &o)
						implAttr = strings.Join(o, " ")
					}
				}
			}
		})
		if !ok {
			continue
		}
		impl := joinToks(implGen) + " | " + joinToks(implLex) + " | " + implBack + " | " + implAttr
		model := cx.Ask("GENV " + ptab + " " + ids + " " + strings.Join(enc, " "))
		cx.Res.CorrChecked++
		cx.Res.Count("genv-kind:" + v.Type().FriendlyName())
		if model != impl {
			which := "tokens"
			mp, ip := strings.Split(model, " | "), strings.Split(impl, " | ")
			if len(mp) == 4 && len(ip) == 4 {
				switch {
				case mp[0] != ip[0]:
					which = "tokens"
				case mp[1] != ip[1]:
					which = "rescanned"
				case mp[2] != ip[2]:
					which = "readback"
				default:
					which = "readback-attribute"
				}
			}
			cx.Res.Fail(lib.Failure{Kind: "corr", Key: "GENV:" + which, Desc: "TokensForValue / scanner / parser / evaluation differ from the model (HclModel/Write/GenValue)", Input: input, Model: model, Impl: impl})
		}
		// PARSEG: mutate the re-scanned token string at the level of units (a quoted string is one unit)
		if len(implLex) > 0 {
			corrParseG(cx, r, t, implLex)
		}
	}
}

var parsegExtra = []string{"[", "]", "{", "}", ",", "=", "nl", "m", "i102.111.114", "i97", "i116.114.117.101", "i110.117.108.108", "oq cq", "oq q120 cq"}

func corrParseG(cx *lib.Ctx, r *lib.Rand, t *genvTables, lex []string) {
	// units
	var units []string
	for i := 0; i < len(lex); i++ {
		if lex[i] == "oq" {
			j := i
			for j < len(lex) && lex[j] != "cq" {
				j++
			}
			if j >= len(lex) {
				return
			}
			units = append(units, strings.Join(lex[i:j+1], " "))
			i = j
			continue
		}
		units = append(units, lex[i])
	}
	for k := 1 + r.Intn(3); k > 0 && len(units) > 0; k-- {
		p := r.Intn(len(units))
		switch r.Intn(4) {
		case 0:
			units = append(units[:p], units[p+1:]...)
		case 1:
			units = append(units[:p], append([]string{parsegExtra[r.Intn(len(parsegExtra))]}, units[p:]...)...)
		case 2:
			units[p] = parsegExtra[r.Intn(len(parsegExtra))]
		default:
			q := r.Intn(len(units))
			units[p], units[q] = units[q], units[p]
		}
	}
	if len(units) == 0 {
		return
	}
	// render
	var sb strings.Builder
	for _, u := range units {
		switch {
		case u == "nl":
			sb.WriteString("\n")
		case u == "m":
			sb.WriteString("- ")
		case strings.HasPrefix(u, "oq"):
			parts := strings.Split(u, " ")
			sb.WriteString("\"")
			if len(parts) == 3 {
				sb.WriteString(undot(parts[1][1:]))
			}
			sb.WriteString("\" ")
		case strings.HasPrefix(u, "i"):
			sb.WriteString(undot(u[1:]) + " ")
		case strings.HasPrefix(u, "n"):
			id, _ := strconv.Atoi(u[strings.Index(u, ":")+1:])
			if id >= len(t.texts) {
				return
			}
			sb.WriteString(t.texts[id] + " ")
		default:
			sb.WriteString(u + " ")
		}
	}
	src := []byte(sb.String())
	model := cx.Ask("PARSEG " + strings.Join(units, " "))
	cx.Res.CorrChecked++
	if !strings.HasPrefix(model, "ok ") {
		cx.Res.Count("parseg:model-none")
		return
	}
	cx.Res.Count("parseg:model-ok")
	impl := "none"
	cx.Guard("parseg", string(src), func() {
		e, diags := hclsyntax.ParseExpression(src, "", hcl.InitialPos)
		if diags.HasErrors() {
			impl = "parse-error: " + diags[0].Summary
			return
		}
		got, d2 := e.Value(nil)
		if d2.HasErrors() {
			impl = "eval-error: " + d2[0].Summary
			return
		}
		var o []string
		t.encGV(got, false, &o)
		impl = "ok " + strings.Join(o, " ")
	})
	// the implementation sorts object attributes by name; the model keeps them in source order.
	// The model's magnitudes are opaque, so it has a "negative zero"; cty's zero has no sign.
	for i, n := range t.nums {
		if n.Sign() == 0 {
			model = strings.ReplaceAll(model+" ", "#1:"+strconv.Itoa(i)+" ", "#0:"+strconv.Itoa(i)+" ")
			model = strings.TrimRight(model, " ")
		}
	}
	if canonObj(model) != canonObj(impl) {
		cx.Res.Fail(lib.Failure{Kind: "corr", Key: "PARSEG", Desc: "the parser model accepts a token string and ParseExpression disagrees about it", Input: strconv.QuoteToASCII(string(src)), Model: model, Impl: impl})
	}
}

func undot(s string) string {
	if s == "" {
		return ""
	}
	var rs []rune
	for _, p := range strings.Split(s, ".") {
		n, _ := strconv.Atoi(p)
		rs = append(rs, rune(n))
	}
	return string(rs)
}

// canonObj re-sorts the attributes of every object in a prefix-coded value by key
func canonObj(s string) string {
	if !strings.HasPrefix(s, "ok ") {
		return s
	}
	ws := strings.Fields(s[3:])
	pos := 0
	var rd func() string
	rd = func() string {
		if pos >= len(ws) {
			return "?"
		}
		w := ws[pos]
		pos++
		switch {
		case strings.HasPrefix(w, "L"):
			n, _ := strconv.Atoi(w[1:])
			parts := []string{w}
			for i := 0; i < n; i++ {
				parts = append(parts, rd())
			}
			return strings.Join(parts, " ")
		case strings.HasPrefix(w, "O"):
			n, _ := strconv.Atoi(w[1:])
			var kvs []string
			for i := 0; i < n; i++ {
				if pos >= len(ws) {
					return "?"
				}
				k := ws[pos]
				pos++
				kvs = append(kvs, k+" "+rd())
			}
			sortStrings(kvs)
			return strings.Join(append([]string{w}, kvs...), " ")
		}
		return w
	}
	return "ok " + rd()
}
