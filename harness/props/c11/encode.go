package c11

import (
	"encoding/json"
	"fmt"
	"math/big"

	"github.com/hashicorp/hcl/v2"
	"github.com/zclconf/go-cty/cty"
	ctyjson "github.com/zclconf/go-cty/cty/json"
)

// A replayable case is a JSON document:
//
//	{"kind":"value","type":<cty type JSON>,"value":<tree>}
//	{"kind":"traversal","steps":[{"k":"root","s":"a"},{"k":"attr","s":"b"},{"k":"idx","v":<tree of string or number>}]}
//	{"kind":"block","type":"t","labels":["l1"],"attr":"name","nest":1}
//
// Value trees: null -> null; bool -> bool; string -> {"s":"…"}; number -> {"n":"<exact binary text>","p":precision};
// list/set/tuple -> {"e":[…]}; map/object -> {"kv":[[key,tree],…]}. Numbers keep the big.Float precision so that a
// replay rebuilds the identical cty value.

type caseDoc struct {
	Kind   string          `json:"kind"`
	Type   json.RawMessage `json:"type,omitempty"`
	Value  interface{}     `json:"value,omitempty"`
	Steps  []stepDoc       `json:"steps,omitempty"`
	BType  string          `json:"btype,omitempty"`
	Labels []string        `json:"labels,omitempty"`
	Attr   string          `json:"attr,omitempty"`
	Nest   int             `json:"nest,omitempty"`
	Str    *string         `json:"str,omitempty"`
}

type stepDoc struct {
	K string      `json:"k"`
	S string      `json:"s,omitempty"`
	V interface{} `json:"v,omitempty"`
}

func encValue(v cty.Value) interface{} {
	if v.IsNull() {
		return nil
	}
	ty := v.Type()
	switch {
	case ty == cty.String:
		return map[string]interface{}{"s": v.AsString()}
	case ty == cty.Number:
		bf := v.AsBigFloat()
		return map[string]interface{}{"n": bf.Text('p', 0), "p": bf.Prec()}
	case ty == cty.Bool:
		return v.True()
	case ty.IsListType() || ty.IsSetType() || ty.IsTupleType():
		es := []interface{}{}
		for it := v.ElementIterator(); it.Next(); {
			_, ev := it.Element()
			es = append(es, encValue(ev))
		}
		return map[string]interface{}{"e": es}
	case ty.IsMapType() || ty.IsObjectType():
		kv := []interface{}{}
		for it := v.ElementIterator(); it.Next(); {
			k, ev := it.Element()
			kv = append(kv, []interface{}{k.AsString(), encValue(ev)})
		}
		return map[string]interface{}{"kv": kv}
	}
	panic("harness: cannot encode value")
}

func decNumber(m map[string]interface{}) (cty.Value, error) {
	s, _ := m["n"].(string)
	p, _ := m["p"].(float64)
	bf := new(big.Float).SetPrec(uint(p)).SetMode(big.ToNearestEven)
	if _, ok := bf.SetString(s); !ok {
		return cty.NilVal, fmt.Errorf("bad number %q", s)
	}
	return cty.NumberVal(bf), nil
}

func decValue(x interface{}, ty cty.Type) (cty.Value, error) {
	if x == nil {
		return cty.NullVal(ty), nil
	}
	switch {
	case ty == cty.String:
		m, _ := x.(map[string]interface{})
		s, ok := m["s"].(string)
		if !ok {
			return cty.NilVal, fmt.Errorf("string expected")
		}
		return cty.StringVal(s), nil
	case ty == cty.Number:
		m, ok := x.(map[string]interface{})
		if !ok {
			return cty.NilVal, fmt.Errorf("number expected")
		}
		return decNumber(m)
	case ty == cty.Bool:
		b, ok := x.(bool)
		if !ok {
			return cty.NilVal, fmt.Errorf("bool expected")
		}
		return cty.BoolVal(b), nil
	case ty.IsListType() || ty.IsSetType() || ty.IsTupleType():
		m, _ := x.(map[string]interface{})
		es, ok := m["e"].([]interface{})
		if !ok {
			return cty.NilVal, fmt.Errorf("sequence expected")
		}
		vs := make([]cty.Value, len(es))
		for i, e := range es {
			var ety cty.Type
			if ty.IsTupleType() {
				ets := ty.TupleElementTypes()
				if i >= len(ets) {
					return cty.NilVal, fmt.Errorf("tuple too long")
				}
				ety = ets[i]
			} else {
				ety = ty.ElementType()
			}
			v, err := decValue(e, ety)
			if err != nil {
				return cty.NilVal, err
			}
			vs[i] = v
		}
		switch {
		case ty.IsTupleType():
			return cty.TupleVal(vs), nil
		case len(vs) == 0 && ty.IsListType():
			return cty.ListValEmpty(ty.ElementType()), nil
		case len(vs) == 0:
			return cty.SetValEmpty(ty.ElementType()), nil
		case ty.IsListType():
			return cty.ListVal(vs), nil
		default:
			return cty.SetVal(vs), nil
		}
	case ty.IsMapType() || ty.IsObjectType():
		m, _ := x.(map[string]interface{})
		kvs, ok := m["kv"].([]interface{})
		if !ok {
			return cty.NilVal, fmt.Errorf("mapping expected")
		}
		out := map[string]cty.Value{}
		for _, kv := range kvs {
			pair, _ := kv.([]interface{})
			if len(pair) != 2 {
				return cty.NilVal, fmt.Errorf("pair expected")
			}
			k, _ := pair[0].(string)
			var ety cty.Type
			if ty.IsMapType() {
				ety = ty.ElementType()
			} else {
				if !ty.HasAttribute(k) {
					return cty.NilVal, fmt.Errorf("no attribute %q", k)
				}
				ety = ty.AttributeType(k)
			}
			v, err := decValue(pair[1], ety)
			if err != nil {
				return cty.NilVal, err
			}
			out[k] = v
		}
		if ty.IsObjectType() {
			return cty.ObjectVal(out), nil
		}
		if len(out) == 0 {
			return cty.MapValEmpty(ty.ElementType()), nil
		}
		return cty.MapVal(out), nil
	}
	return cty.NilVal, fmt.Errorf("unsupported type")
}

func encodeValueCase(v cty.Value) string {
	tj, err := ctyjson.MarshalType(v.Type())
	if err != nil {
		panic(err)
	}
	b, err := json.Marshal(caseDoc{Kind: "value", Type: tj, Value: encValue(v)})
	if err != nil {
		panic(err)
	}
	return string(b)
}

func decodeValueCase(d *caseDoc) (cty.Value, error) {
	ty, err := ctyjson.UnmarshalType(d.Type)
	if err != nil {
		return cty.NilVal, err
	}
	return decValue(d.Value, ty)
}

func encodeTraversalCase(t hcl.Traversal) string {
	var steps []stepDoc
	for _, s := range t {
		switch ts := s.(type) {
		case hcl.TraverseRoot:
			steps = append(steps, stepDoc{K: "root", S: ts.Name})
		case hcl.TraverseAttr:
			steps = append(steps, stepDoc{K: "attr", S: ts.Name})
		case hcl.TraverseIndex:
			steps = append(steps, stepDoc{K: "idx", V: encValue(ts.Key)})
		}
	}
	b, _ := json.Marshal(caseDoc{Kind: "traversal", Steps: steps})
	return string(b)
}

func decodeTraversalCase(d *caseDoc) (hcl.Traversal, error) {
	var t hcl.Traversal
	for _, s := range d.Steps {
		switch s.K {
		case "root":
			t = append(t, hcl.TraverseRoot{Name: s.S})
		case "attr":
			t = append(t, hcl.TraverseAttr{Name: s.S})
		case "idx":
			m, _ := s.V.(map[string]interface{})
			if _, isStr := m["s"]; isStr {
				v, err := decValue(s.V, cty.String)
				if err != nil {
					return nil, err
				}
				t = append(t, hcl.TraverseIndex{Key: v})
			} else {
				v, err := decValue(s.V, cty.Number)
				if err != nil {
					return nil, err
				}
				t = append(t, hcl.TraverseIndex{Key: v})
			}
		}
	}
	return t, nil
}
