package c11

import (
	"math/big"
	"sort"
	"strings"
	"unicode"
	"unicode/utf8"

	"github.com/hashicorp/hcl/v2/hclsyntax"
	"github.com/zclconf/go-cty/cty"

	"hx/lib"
)

// ---------------------------------------------------------------------------------------------
// strings

// asciiSpecial are the fragments whose escaping depends on neighbours (template introducers, quotes,
// backslashes, things that look like escapes or like syntax).
var asciiSpecial = []string{
	`"`, `\`, `$`, `%`, `{`, `}`, `${`, `%{`, `$${`, `%%{`, `$$`, `%%`, `$$$`, `$$$$`, `%%%`, `$%{`, `%${`, `$${{`, `$$$${`, `%%%%{`,
	`\n`, `\r`, `\t`, `\"`, `\\`, `é`, `\U0001F600`, `\u12`, `\x41`, `\$`, `\${`, `~}`, `{~`, `${~`, `%{~`, `#`, `//`, `/*`, `*/`, `<<EOT`, `<<-EOT`, `'`, "`",
	" ", "  ", "=", "[", "]", "(", ")", ",", ".", "?", ":", "*", "!", "&&", "=>", "...", "::",
	`${a}`, `%{if x}`, `%{endif}`, `%{ for x in y }`, `%{else}`, `${ "a" }`, `${"}"}`, `$${a}`, `%%{if}`, `$${`, `%%{`, "EOT", "null", "true", "for",
}

// specialRunes are code points chosen for their category or their treatment by normalisation/escaping.
var specialRunes = []rune{
	0x00, 0x01, 0x07, 0x08, 0x09, 0x0a, 0x0b, 0x0c, 0x0d, 0x1b, 0x1f, 0x7f, // C0, DEL
	0x80, 0x85, 0x9f, // C1 (NEL)
	0xa0, 0xad, // NBSP (Zs, not printable for Go), soft hyphen (Cf)
	0xe9, 0x0301, 0x0308, 0x0327, 0x20d0, 0x0345, // precomposed + combining marks
	0x1100, 0x1161, 0x11a8, 0xac00, // Hangul jamo / syllable (NFC composes)
	0x212b, 0x2126, 0x0340, 0x0958, 0xfb1d, 0x2f800, 0xf900, // singletons / composition exclusions / compat ideographs
	0x200b, 0x200c, 0x200d, 0x200e, 0x200f, 0x2028, 0x2029, 0x202e, 0x2060, 0xfeff, // format, line/para separators, BOM
	0x2003, 0x3000, 0x1680, // spaces
	0xd7ff, 0xe000, 0xf8ff, // just below surrogates; private use
	0xfdd0, 0xfffd, 0xfffe, 0xffff, // noncharacters, replacement char
	0x10000, 0x1f600, 0x1d11e, 0x1d165, 0x1f1e6, 0x1f3fb, 0xe0001, 0xe0100, 0xf0000, 0x1fffe, 0x10fffd, 0x10ffff, // astral
	0x65e5, 0x672c, 0x0416, 0x03a9, 0x05d0, 0x0627, 0x0e01, // letters
}

func randRune(r *lib.Rand, lo, hi int) rune {
	for {
		c := rune(lo + r.Intn(hi-lo+1))
		if c >= 0xd800 && c <= 0xdfff {
			continue
		}
		return c
	}
}

const alnum = "abcdefghijklmnopqrstuvwxyzABCDEFGHIJKLMNOPQRSTUVWXYZ0123456789_-"

// genString draws a string over all of Unicode (valid UTF-8, not normalised).
// genText: several lines — indented, blank, with trailing blanks, ending in a newline or not — the shape of
// string a generator might choose to write as a heredoc
func genText(r *lib.Rand) string {
	lines := []string{"", "", " a", "  b", "c", "\t d", " ", "  first paragraph", "  second", "x  ", "EOT", " EOT", "${v}", "  %{if}"}
	n := 1 + r.Intn(5)
	var sb strings.Builder
	for i := 0; i < n; i++ {
		sb.WriteString(lines[r.Intn(len(lines))])
		if i < n-1 || r.Chance(4, 5) {
			sb.WriteString("\n")
		}
	}
	return sb.String()
}

func genString(r *lib.Rand) string {
	if r.Chance(1, 12) {
		return genText(r)
	}
	switch r.Weighted([]int{2, 10, 3, 1}) {
	case 0:
		return ""
	case 2:
		// dense strings over the escape-relevant alphabet
		al := []string{"$", "%", "{", "}", "\"", "\\", "a", "n", "u", "~", "\n"}
		n := 1 + r.Intn(9)
		var sb strings.Builder
		for i := 0; i < n; i++ {
			sb.WriteString(al[r.Intn(len(al))])
		}
		return sb.String()
	case 3:
		// a long string
		n := 50 + r.Intn(400)
		var sb strings.Builder
		for i := 0; i < n; i++ {
			sb.WriteString(genFrag(r))
		}
		return sb.String()
	}
	n := 1 + r.Intn(8)
	var sb strings.Builder
	for i := 0; i < n; i++ {
		sb.WriteString(genFrag(r))
	}
	return sb.String()
}

func genFrag(r *lib.Rand) string {
	switch r.Weighted([]int{6, 8, 3, 1, 6, 2, 2, 2, 1}) {
	case 0:
		n := 1 + r.Intn(5)
		b := make([]byte, n)
		for i := range b {
			b[i] = alnum[r.Intn(len(alnum))]
		}
		return string(b)
	case 1:
		return asciiSpecial[r.Intn(len(asciiSpecial))]
	case 2:
		c := r.Intn(33)
		if c == 32 {
			c = 0x7f
		}
		return string(rune(c))
	case 3:
		return string(randRune(r, 0x80, 0x9f))
	case 4:
		return string(specialRunes[r.Intn(len(specialRunes))])
	case 5:
		return string(randRune(r, 0xa0, 0xffff))
	case 6:
		return string(randRune(r, 0x10000, 0x10ffff))
	case 7:
		blocks := [][2]int{{0xc0, 0x24f}, {0x370, 0x3ff}, {0x400, 0x4ff}, {0x4e00, 0x9fff}, {0x3040, 0x30ff}, {0x1f300, 0x1f6ff}, {0x20000, 0x2a6df}, {0x0900, 0x097f}}
		b := blocks[r.Intn(len(blocks))]
		return string(randRune(r, b[0], b[1]))
	default:
		marks := []rune{0x0300, 0x0301, 0x0308, 0x0323, 0x0327, 0x0345, 0x20d0, 0x1d165, 0x094d, 0x3099}
		base := []rune{'a', 'e', 'o', 'A', 0x0391, 0x304b, 0x0915}
		s := string(base[r.Intn(len(base))])
		for k := 1 + r.Intn(3); k > 0; k-- {
			s += string(marks[r.Intn(len(marks))])
		}
		return s
	}
}

// runeClass names the class of the rune at byte offset i of s (used in failure keys).
func runeClass(s string, i int) string {
	if i >= len(s) {
		return "end"
	}
	c, _ := utf8.DecodeRuneInString(s[i:])
	rest := s[i:]
	switch {
	case strings.HasPrefix(rest, "${") || (c == '{' && i > 0 && s[i-1] == '$'):
		return "dollar-brace"
	case strings.HasPrefix(rest, "%{") || (c == '{' && i > 0 && s[i-1] == '%'):
		return "percent-brace"
	case c == '$':
		return "dollar"
	case c == '%':
		return "percent"
	case c == '"':
		return "quote"
	case c == '\\':
		return "backslash"
	case c == '\n':
		return "newline"
	case c == '\r':
		return "cr"
	case c == '\t':
		return "tab"
	case c < 0x20:
		return "ascii-control"
	case c == 0x7f:
		return "del"
	case c < 0x80:
		return "ascii"
	case c < 0xa0:
		return "c1-control"
	case c < 0x10000:
		if isPrint(c) {
			return "print-bmp"
		}
		return "nonprint-bmp"
	default:
		if isPrint(c) {
			return "print-astral"
		}
		return "nonprint-astral"
	}
}

// ---------------------------------------------------------------------------------------------
// keys and identifiers

var keywordKeys = []string{"for", "if", "in", "null", "true", "false", "else", "endif", "endfor", "each", "count", "self"}
var identKeys = []string{"a", "b", "k1", "x-y", "_u", "é", "日本", "a-", "A1", "é", "for_", "forx", "fo", "nul", "True", "FOR", "a--b", "a_b-c9", "ĳ", "Ω"}
var nonIdentKeys = []string{"", "1a", "a b", "a.b", "-x", "a=b", "${x}", "%{y}", "for x", "\n", "0", "1.5", "a[0]", "a\"b", "a\\b", " for", "for ", "a:b", "#", "a/b", "*", "$", "%", "{", "}", "a,b", "null ", "tru e", "007", "1e3", "0x10", "1_000", "٣", "\ufeffa", "\ufeff", "a\ufeff", "\ufefffor"}

// borderKeys: characters on which "is this an identifier character" depends on the Unicode version or on the
// exact property consulted (ID_Start / ID_Continue of the scanner's tables vs general categories): letters
// added after Unicode 9, enclosing marks, Other_ID_Start / Other_ID_Continue characters, letters that are
// also Pattern_Syntax, letter-like symbols, digits of other scripts.
var borderKeys = []string{"\u0560", "a\u0560", "\u1c90", "\U00030000", "a\U00030000", "a\u20dd", "\u0488", "a\u0488b", "\u2e2f", "a\u00b7b", "a\u203fb", "\u2118", "\u212e", "\u309b", "a\u1369",
	"a\u19da", "a\u0387", "\u1885", "\u2160", "a\u2160", "\u00aa", "\u00b5", "\u02ec", "\u0345", "a\u0345", "\u16ee", "\u3007", "\ua7ae", "\U0001e900", "\U00016e40", "a\u200c", "a\u200db", "\u2054a", "a\u2054",
	"\uff3f", "a\uff3f", "\u1d2c", "\u24b6", "a\u24b6", "\u00b2", "a\u00b2", "\u0660", "a\u0660", "\u0e3f", "\u2e80", "\u4dc0"}

func genKey(r *lib.Rand) string {
	if r.Chance(1, 8) {
		return borderKeys[r.Intn(len(borderKeys))]
	}
	switch r.Weighted([]int{5, 4, 3, 4}) {
	case 0:
		return keywordKeys[r.Intn(len(keywordKeys))]
	case 1:
		return identKeys[r.Intn(len(identKeys))]
	case 2:
		return nonIdentKeys[r.Intn(len(nonIdentKeys))]
	default:
		return genString(r)
	}
}

// genIdent draws a valid HCL identifier (checked with the real hclsyntax.ValidIdentifier).
func genIdent(r *lib.Rand) string {
	for {
		var s string
		switch r.Weighted([]int{4, 4, 3}) {
		case 0:
			s = keywordKeys[r.Intn(len(keywordKeys))]
		case 1:
			s = identKeys[r.Intn(len(identKeys))]
		default:
			starts := []rune{'a', 'z', 'A', '_', 0xe9, 0x65e5, 0x3a9, 0x10400, 0x2f800}
			conts := []rune{'a', '0', '9', '_', '-', 0x301, 0xe9, 0x65e5, 0x0660, 0x203f, 0x1d7d8, 'Z'}
			s = string(starts[r.Intn(len(starts))])
			for k := r.Intn(6); k > 0; k-- {
				s += string(conts[r.Intn(len(conts))])
			}
		}
		if hclsyntax.ValidIdentifier(s) {
			return s
		}
	}
}

// ---------------------------------------------------------------------------------------------
// numbers

func digits(r *lib.Rand, n int, leadNonZero bool) string {
	b := make([]byte, n)
	for i := range b {
		b[i] = byte('0' + r.Intn(10))
	}
	if leadNonZero && n > 0 && b[0] == '0' {
		b[0] = byte('1' + r.Intn(9))
	}
	return string(b)
}

func mustParse(s string) cty.Value {
	v, err := cty.ParseNumberVal(s)
	if err != nil {
		panic("harness: bad number text " + s)
	}
	return v
}

// genNumber draws a finite number and names its class. nonNeg restricts to non-negative values.
func genNumber(r *lib.Rand, nonNeg bool, exact512 bool) (cty.Value, string) {
	ws := []int{6, 4, 5, 5, 4, 3, 2, 2, 2, 2}
	if exact512 {
		ws[7], ws[8] = 0, 0
	}
	neg := func(s string) string {
		if !nonNeg && r.Chance(1, 3) {
			return "-" + s
		}
		return s
	}
	switch r.Weighted(ws) {
	case 0:
		small := []string{"0", "1", "2", "7", "10", "42", "255", "65536", "1000000"}
		return mustParse(neg(small[r.Intn(len(small))])), "num-small-int"
	case 1:
		edges := []string{"9223372036854775807", "9223372036854775808", "18446744073709551615", "18446744073709551616", "4294967296", "9007199254740993", "340282366920938463463374607431768211456",
			"13407807929942597099574024998205846127479365820592393377723561443721764030073546976801874298166903427690031858186486050853753882811946569946433649006084096", // 2^512
			"13407807929942597099574024998205846127479365820592393377723561443721764030073546976801874298166903427690031858186486050853753882811946569946433649006084095", // 2^512-1
		}
		return mustParse(neg(edges[r.Intn(len(edges))])), "num-edge-int"
	case 2:
		n := 1 + r.Intn(154)
		return mustParse(neg(digits(r, n, true))), "num-big-int<=154-digits"
	case 3:
		a := digits(r, 1+r.Intn(20), true)
		b := digits(r, 1+r.Intn(40), false)
		return mustParse(neg(a + "." + b)), "num-decimal"
	case 4:
		exps := []int{1, 2, 5, 17, 100, 308, 400, 1000}
		e := exps[r.Intn(len(exps))]
		if r.Chance(1, 20) {
			e = 5000
		}
		sign := "+"
		if r.Chance(1, 2) {
			sign = "-"
		}
		m := digits(r, 1+r.Intn(5), true)
		if r.Chance(1, 2) {
			m += "." + digits(r, 1+r.Intn(30), false)
		}
		return mustParse(neg(m + "e" + sign + itoa(e))), "num-exponent"
	case 5:
		// a quotient computed at 512 bits: a full 512-bit mantissa
		a := new(big.Float).SetPrec(512).SetInt64(int64(1 + r.Intn(1000)))
		b := new(big.Float).SetPrec(512).SetInt64(int64(1 + r.Intn(1000)))
		q := new(big.Float).SetPrec(512).Quo(a, b)
		if !nonNeg && r.Chance(1, 3) {
			q.Neg(q)
		}
		return cty.NumberVal(q), "num-512-bit-mantissa"
	case 6:
		// integers built through the int/uint constructors (precision 64)
		if nonNeg || r.Chance(1, 2) {
			return cty.NumberUIntVal(r.U64() >> uint(r.Intn(64))), "num-uint64"
		}
		return cty.NumberIntVal(int64(r.U64()) >> uint(r.Intn(64))), "num-int64"
	case 7:
		// a float64 (precision 53), as produced by cty.NumberFloatVal / gocty for Go float fields
		fs := []float64{0.1, 0.2, 0.3, 1.1, 2.675, 1e-7, 123.456, 1e22, 1e23, 5e-324, 1.7976931348623157e308, 0.5, 0.25, 3.0, 1024.125}
		f := fs[r.Intn(len(fs))]
		if r.Chance(1, 2) {
			f = float64(r.U64()>>11) / float64(uint64(1)<<uint(r.Intn(60)))
		}
		if !nonNeg && r.Chance(1, 3) {
			f = -f
		}
		return cty.NumberFloatVal(f), "num-float64"
	case 8:
		// an exact value needing more than 512 bits (a big.Float of higher precision)
		n := 160 + r.Intn(300)
		bf, _, err := big.ParseFloat(digits(r, n, true), 10, 4096, big.ToNearestEven)
		if err != nil {
			panic(err)
		}
		if !nonNeg && r.Chance(1, 3) {
			bf.Neg(bf)
		}
		return cty.NumberVal(bf), "num-over-512-bits"
	default:
		// dyadic fractions at low precision: exactly representable, short binary, long decimal
		k := 1 + r.Intn(60)
		bf := new(big.Float).SetPrec(64).SetMantExp(big.NewFloat(float64(1+2*r.Intn(1000))), -k)
		if !nonNeg && r.Chance(1, 3) {
			bf.Neg(bf)
		}
		return cty.NumberVal(bf), "num-dyadic-prec64"
	}
}

func isPrint(c rune) bool { return unicode.IsPrint(c) }

func itoa(n int) string { return big.NewInt(int64(n)).String() }

// ---------------------------------------------------------------------------------------------
// types and values

func genType(r *lib.Rand, depth int) cty.Type {
	ws := []int{5, 4, 2, 2, 2, 2, 2, 3}
	if depth <= 0 {
		ws = []int{5, 4, 2}
	}
	switch r.Weighted(ws) {
	case 0:
		return cty.String
	case 1:
		return cty.Number
	case 2:
		return cty.Bool
	case 3:
		return cty.List(genType(r, depth-1))
	case 4:
		return cty.Set(genType(r, depth-1))
	case 5:
		return cty.Map(genType(r, depth-1))
	case 6:
		n := r.Intn(4)
		ts := make([]cty.Type, n)
		for i := range ts {
			ts[i] = genTypeOrDyn(r, depth-1)
		}
		return cty.Tuple(ts)
	default:
		n := r.Intn(4)
		m := map[string]cty.Type{}
		for i := 0; i < n; i++ {
			m[genKey(r)] = genTypeOrDyn(r, depth-1)
		}
		return cty.Object(m)
	}
}

// genTypeOrDyn allows the dynamic pseudo-type where a value of it can exist as a null (tuple elements, attributes).
func genTypeOrDyn(r *lib.Rand, depth int) cty.Type {
	if r.Chance(1, 12) {
		return cty.DynamicPseudoType
	}
	return genType(r, depth)
}

type valGen struct {
	r  *lib.Rand
	cx *lib.Ctx
	// exact512 keeps numbers to those the language can hold exactly (built at 512 bits)
	exact512 bool
	classes  map[string]bool
}

func (g *valGen) note(c string) { g.classes[c] = true }

func (g *valGen) value(ty cty.Type, depth int, nullOK bool) cty.Value {
	r := g.r
	if ty == cty.DynamicPseudoType {
		g.note("null-dynamic")
		return cty.NullVal(ty)
	}
	if nullOK && r.Chance(1, 10) {
		g.note("null-typed")
		return cty.NullVal(ty)
	}
	switch {
	case ty == cty.String:
		g.note("string")
		return cty.StringVal(genString(r))
	case ty == cty.Number:
		v, c := genNumber(r, false, g.exact512)
		g.note(c)
		return v
	case ty == cty.Bool:
		g.note("bool")
		return cty.BoolVal(r.Chance(1, 2))
	case ty.IsListType() || ty.IsSetType():
		n := r.Weighted([]int{2, 3, 3, 2, 1})
		ety := ty.ElementType()
		if n == 0 {
			if ty.IsListType() {
				g.note("list-empty")
				return cty.ListValEmpty(ety)
			}
			g.note("set-empty")
			return cty.SetValEmpty(ety)
		}
		vs := make([]cty.Value, n)
		for i := range vs {
			vs[i] = g.value(ety, depth-1, true)
		}
		if ty.IsListType() {
			g.note("list")
			return cty.ListVal(vs)
		}
		g.note("set")
		return cty.SetVal(vs)
	case ty.IsMapType():
		n := r.Weighted([]int{2, 3, 3, 2, 1})
		ety := ty.ElementType()
		if n == 0 {
			g.note("map-empty")
			return cty.MapValEmpty(ety)
		}
		m := map[string]cty.Value{}
		for i := 0; i < n; i++ {
			m[genKey(r)] = g.value(ety, depth-1, true)
		}
		g.note("map")
		return cty.MapVal(m)
	case ty.IsTupleType():
		ets := ty.TupleElementTypes()
		if len(ets) == 0 {
			g.note("tuple-empty")
			return cty.EmptyTupleVal
		}
		vs := make([]cty.Value, len(ets))
		for i := range vs {
			vs[i] = g.value(ets[i], depth-1, true)
		}
		g.note("tuple")
		return cty.TupleVal(vs)
	case ty.IsObjectType():
		ats := ty.AttributeTypes()
		if len(ats) == 0 {
			g.note("object-empty")
			return cty.EmptyObjectVal
		}
		names := make([]string, 0, len(ats))
		for k := range ats {
			names = append(names, k)
		}
		sort.Strings(names)
		m := map[string]cty.Value{}
		for _, k := range names {
			m[k] = g.value(ats[k], depth-1, true)
		}
		g.note("object")
		return cty.ObjectVal(m)
	}
	panic("harness: unexpected type")
}
