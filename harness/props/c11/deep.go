package c11

import (
	"github.com/hashicorp/hcl/v2"
	"github.com/hashicorp/hcl/v2/hclsyntax"
	"github.com/hashicorp/hcl/v2/hclwrite"
	"github.com/zclconf/go-cty/cty"

	"hx/lib"
)

// deepNesting: values nested far deeper than any random generator goes. A finite value of any depth is written
// without complaint, so it must also read back.
func deepNesting(cx *lib.Ctx) {
	res := cx.Res
	for _, depth := range []int{1200, 10010} {
		tup := cty.NumberIntVal(7)
		obj := cty.StringVal("leaf")
		for i := 0; i < depth; i++ {
			tup = cty.TupleVal([]cty.Value{tup})
			obj = cty.ObjectVal(map[string]cty.Value{"k": obj})
		}
		for kind, v := range map[string]cty.Value{"tuple": tup, "object": obj} {
			var src []byte
			if !cx.Guard("deep-generate", kind, func() { src = hclwrite.TokensForValue(v).Bytes() }) {
				continue
			}
			res.Count("deep-nesting:cases")
			res.Case("deep|"+kind, true)
			var got cty.Value
			var diags hcl.Diagnostics
			ok := cx.Guard("deep-readback", kind, func() {
				e, d := hclsyntax.ParseExpression(src, "", hcl.InitialPos)
				diags = d
				if !d.HasErrors() {
					got, diags = e.Value(nil)
				}
			})
			if !ok {
				continue
			}
			if diags.HasErrors() {
				res.Fail(lib.Failure{Kind: "oracle", Key: "unparseable:deep-nesting:" + kind, Desc: "a value nested " + itoa(depth) + " levels deep is generated but does not read back: " + diags[0].Summary + "; " + diags[0].Detail, Input: `{"kind":"deep","depth":` + itoa(depth) + `,"of":"` + kind + `"}`})
				continue
			}
			if !got.RawEquals(v) {
				res.Fail(lib.Failure{Kind: "oracle", Key: "value-changed:deep-nesting:" + kind, Desc: "a deeply nested value reads back as a different value", Input: `{"kind":"deep","depth":` + itoa(depth) + `,"of":"` + kind + `"}`})
			}
		}
	}
}
