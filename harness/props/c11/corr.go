package c11

import (
	"strconv"
	"strings"
	"unicode"

	"github.com/hashicorp/hcl/v2"
	"github.com/hashicorp/hcl/v2/hclsyntax"
	"github.com/hashicorp/hcl/v2/hclwrite"
	"github.com/zclconf/go-cty/cty"

	"hx/lib"
)

func cps(rs []rune) string {
	if len(rs) == 0 {
		return "-"
	}
	parts := make([]string, len(rs))
	for i, r := range rs {
		parts[i] = strconv.Itoa(int(r))
	}
	return strings.Join(parts, ",")
}

var corrAlphabet = []rune{'a', 'Z', '0', ' ', '"', '\\', '$', '%', '{', '}', '~', '\n', '\r', '\t', 0, 1, 0x7f, 0x85, 0xa0, 0xad, 'é', 0x301, 0x600,
	0x2028, 0xfeff, 0xfffd, 0x1d11e, 0x10ffff, 'n', 'u', 'U', 'x', '1', 'f', 'F'}

// corrStringLit ties the Lean string-literal model (HclModel/Write/StringLit) to the code:
//   STRESC   escapeQuotedStringLit (through TokensForValue) vs `escape`, with unicode.IsPrint supplied per character
//   STRPARSE what the native parser makes of `"<text>"` vs `parseQuoted`, on escaped texts and on raw random texts
func corrStringLit(cx *lib.Ctx) {
	if !cx.HasModel() {
		return
	}
	n := cx.Scale(3000, 120000)
	for i := 0; i < n; i++ {
		r := cx.R.Fork()
		var rs []rune
		for k := r.Intn(8); k > 0; k-- {
			rs = append(rs, corrAlphabet[r.Intn(len(corrAlphabet))])
		}
		if r.Chance(1, 2) {
			// escape direction: a cty string (NFC-normalised by cty) written by the generator
			v := cty.StringVal(string(rs))
			s := []rune(v.AsString())
			var esc []rune
			for _, t := range hclwrite.TokensForValue(v) {
				if t.Type == hclsyntax.TokenQuotedLit {
					esc = append(esc, []rune(string(t.Bytes))...)
				}
			}
			items := make([]string, len(s))
			for j, c := range s {
				f := "0"
				if unicode.IsPrint(c) {
					f = "1"
				}
				items[j] = strconv.Itoa(int(c)) + ":" + f
			}
			arg := "-"
			if len(items) > 0 {
				arg = strings.Join(items, ",")
			}
			model := cx.Ask("STRESC " + arg)
			cx.Res.CorrChecked++
			if impl := cps(esc); model != impl {
				cx.Res.Fail(lib.Failure{Kind: "corr", Key: "STRESC", Desc: "escapeQuotedStringLit differs from the model", Input: strconv.QuoteToASCII(string(s)), Model: model, Impl: impl})
			}
			rs = esc
		}
		// parse direction
		src := []byte("\"" + string(rs) + "\"")
		impl := "none"
		cx.Guard("parse-quoted", string(src), func() {
			e, diags := hclsyntax.ParseExpression(src, "", hcl.InitialPos)
			if diags.HasErrors() {
				return
			}
			lit := false
			switch t := e.(type) {
			case *hclsyntax.TemplateExpr:
				lit = true
				for _, p := range t.Parts {
					if _, ok := p.(*hclsyntax.LiteralValueExpr); !ok {
						lit = false
					}
				}
			case *hclsyntax.LiteralValueExpr:
				lit = true
			}
			if !lit {
				return
			}
			v, d2 := e.Value(nil)
			if d2.HasErrors() || v.Type() != cty.String || v.IsNull() {
				return
			}
			impl = cps([]rune(v.AsString()))
		})
		if strings.ContainsRune(string(rs), 0xfeff) || !isNFCStable(string(rs)) {
			// a BOM at the start of input is stripped by the scanner and cty normalises to NFC: both outside the model
			cx.Res.Count("corr-strlit-skip:bom-or-nfc")
			continue
		}
		model := cx.Ask("STRPARSE " + cps(rs))
		cx.Res.CorrChecked++
		if model != impl {
			cx.Res.Fail(lib.Failure{Kind: "corr", Key: "STRPARSE", Desc: "the native parser's reading of a quoted literal differs from the model", Input: strconv.QuoteToASCII(string(src)), Model: model, Impl: impl})
		}
	}
}

func isNFCStable(s string) bool { return cty.StringVal(s).AsString() == s }
