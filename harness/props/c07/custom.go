package c07

import (
	"fmt"
	"reflect"

	"github.com/hashicorp/hcl/v2"
	"github.com/hashicorp/hcl/v2/ext/customdecode"
	"github.com/hashicorp/hcl/v2/hcldec"
	"github.com/hashicorp/hcl/v2/hclsyntax"
	"github.com/zclconf/go-cty/cty"

	"hx/lib"
	"hx/props/evalgen"
)

// eagerType is an application-defined capsule type whose custom expression decoder evaluates the expression
// right away in the context it is given (the other legal way to use the extension point, next to capturing
// expression and context for later as customdecode.ExpressionClosureType does).
var eagerType cty.Type

func init() {
	eagerType = cty.CapsuleWithOps("eager", reflectTypeOfString(), &cty.CapsuleOps{
		ExtensionData: func(key interface{}) interface{} {
			if key == customdecode.CustomExpressionDecoder {
				return customdecode.CustomExpressionDecoderFunc(func(expr hcl.Expression, ctx *hcl.EvalContext) (cty.Value, hcl.Diagnostics) {
					v, diags := expr.Value(ctx)
					s := lib.DumpValue(v)
					return cty.CapsuleVal(eagerType, &s), diags
				})
			}
			return nil
		},
	})
}

// directedCustomDecode: attributes whose type carries a custom expression decoder.  hcldec hands the
// expression to the decoder with the decode-time context, and what the decoder makes of it is part of the
// decoding result: a closure (expression + context) that is evaluated later, or an eager evaluation.  The
// variables of such an expression are needed like those of any other attribute.
func directedCustomDecode(cx *lib.Ctx) {
	res := cx.Res
	R := cx.R.Fork()
	n := cx.Scale(300, 6000)
	for i := 0; i < n; i++ {
		r := R.Fork()
		c, ok := evalgen.NewCase(r, evalgen.Defaults())
		if !ok {
			continue
		}
		ty := customdecode.ExpressionClosureType
		kind := "closure"
		if r.Chance(1, 2) {
			ty, kind = eagerType, "eager"
		}
		src := "a = " + c.Src + "\nb = 1\n"
		f, diags := hclsyntax.ParseConfig([]byte(src), "custom.hcl", hcl.InitialPos)
		if diags.HasErrors() {
			continue
		}
		var spec hcldec.Spec = hcldec.ObjectSpec{"a": &hcldec.AttrSpec{Name: "a", Type: ty}, "b": &hcldec.AttrSpec{Name: "b", Type: cty.Number}}
		if r.Chance(1, 3) {
			spec = hcldec.TupleSpec{&hcldec.ValidateSpec{Wrapped: spec, Func: func(cty.Value) hcl.Diagnostics { return nil }}}
		}
		eval := func(s evalgen.Scope) (out string) {
			defer func() {
				if p := recover(); p != nil {
					out = "PANIC: " + fmt.Sprint(p)
				}
			}()
			ctx := evalgen.Ctx(s)
			v, d := hcldec.Decode(f.Body, spec, ctx)
			// what the decoded value holds: force the closure / read the eager result
			forced := ""
			_ = cty.Walk(v, func(_ cty.Path, sv cty.Value) (bool, error) {
				if sv.IsKnown() && !sv.IsNull() {
					switch {
					case sv.Type().Equals(customdecode.ExpressionClosureType):
						cv, cd := customdecode.ExpressionClosureFromVal(sv).Value()
						forced += " closure=" + lib.DumpValue(cv) + " " + diagSig(cd)
						return false, nil
					case sv.Type().Equals(eagerType):
						forced += " eager=" + *(sv.EncapsulatedValue().(*string))
						return false, nil
					}
				}
				return true, nil
			})
			return forced + "\n" + diagSig(d)
		}
		roots := rootSet(hcldec.Variables(f.Body, spec))
		res.Count("custom-decode:" + kind)
		res.Case("custom-decode|"+kind+"|"+src, len(roots) > 0)
		if why, alt, impl := semantic(r, eval, c.Scope, roots); why != "" {
			res.Fail(lib.Failure{Kind: "oracle", Key: "incomplete:" + why + ":hcldec-variables:custom-decoder-" + kind,
				Desc:  "hcldec.Variables: the outcome of decoding an attribute whose type has a custom expression decoder depends on a variable that is not reported",
				Input: c.Encode("C07", "custom-decode", mkExtra(alt, why)), Impl: impl})
		}
	}
}

func reflectTypeOfString() reflect.Type { return reflect.TypeOf("") }
