// Package c07 checks that the reported variable references are a complete dependency set.
package c07

import (
	"encoding/json"
	"fmt"
	"regexp"
	"runtime/debug"
	"sort"
	"strings"

	"github.com/hashicorp/hcl/v2"
	"github.com/hashicorp/hcl/v2/ext/dynblock"
	"github.com/hashicorp/hcl/v2/hcldec"
	"github.com/hashicorp/hcl/v2/hclsyntax"
	hcljson "github.com/hashicorp/hcl/v2/json"
	"github.com/zclconf/go-cty/cty"

	"hx/lib"
	"hx/props/evalgen"
)

func init() { lib.Register("C07", run) }

// ---------------------------------------------------------------------------
// outcomes

// diagSig renders diagnostics as a sorted multiset of (severity, summary, detail, subject, context); the
// "Did you mean ...?" suffix of a detail enumerates the scope by design and is cut off.
func diagSig(diags hcl.Diagnostics) string {
	lines := make([]string, 0, len(diags))
	for _, d := range diags {
		det := d.Detail
		if i := strings.Index(det, " Did you mean"); i >= 0 {
			det = det[:i]
		}
		// conversion errors of maps and objects name whichever element Go's map iteration visits first:
		// that name varies between two evaluations of the same input
		det = elemRe.ReplaceAllString(det, `$1<nested conversion error>`)
		if i := strings.Index(det, "panic in function implementation"); i >= 0 {
			// go-cty reports a recovered panic (e.g. infinity % 4) with a goroutine stack trace
			det = det[:i] + "panic in function implementation"
		}
		subj, ctx := "-", "-"
		if d.Subject != nil {
			subj = d.Subject.String()
		}
		if d.Context != nil {
			ctx = d.Context.String()
		}
		lines = append(lines, fmt.Sprintf("%d|%s|%s|%s|%s", d.Severity, d.Summary, det, subj, ctx))
	}
	sort.Strings(lines)
	return strings.Join(lines, "\n")
}

var elemRe = regexp.MustCompile(`(: )(element|attribute) "[^"]*":.*`)

// differs reports a reproducible difference between the outcomes under two scopes: the evaluation of one
// input is not always deterministic (Go map iteration order decides which of several failing elements a
// conversion error names, and in which order hcldec visits the attributes of an object spec), so a
// difference only counts when the outcome sets of repeated evaluations are disjoint.
func differs(eval evaluator, a, b evalgen.Scope, first string) (bool, string) {
	got := eval(b)
	if got == first {
		return false, got
	}
	seenA := map[string]bool{first: true}
	seenB := map[string]bool{got: true}
	for i := 0; i < 6; i++ {
		seenA[eval(a)] = true
		seenB[eval(b)] = true
	}
	for k := range seenB {
		if seenA[k] {
			return false, got
		}
	}
	return true, got
}

// evaluator produces the observable outcome of a case under a scope ("PANIC: ..." for a panic).
type evaluator func(s evalgen.Scope) string

func exprEvaluator(e hcl.Expression) evaluator {
	return func(s evalgen.Scope) string {
		v, diags, p := evalgen.SafeValue(e, evalgen.Ctx(s))
		if p != "" {
			return "PANIC: " + p
		}
		return lib.DumpValue(v) + "\n" + diagSig(diags)
	}
}

func rootSet(vars []hcl.Traversal) map[string]int {
	out := map[string]int{}
	for _, t := range vars {
		if len(t) > 0 {
			out[t.RootName()]++
		}
	}
	return out
}

func sortedKeys(m map[string]int) []string {
	out := make([]string, 0, len(m))
	for k := range m {
		out = append(out, k)
	}
	sort.Strings(out)
	return out
}

// pruned keeps only the reported names. The variable table is never nil, so that a missing name is an
// "Unknown variable" in both runs rather than "Variables not allowed" in one of them.
func pruned(s evalgen.Scope, roots map[string]int) evalgen.Scope {
	out := evalgen.Scope{}
	for n := range roots {
		if v, ok := s[n]; ok {
			out[n] = v
		}
	}
	return out
}

// semantic runs the two scope experiments of the property. It returns "" or a description of the first
// violation, and the perturbed scope that shows it.
func semantic(r *lib.Rand, eval evaluator, s evalgen.Scope, roots map[string]int) (string, evalgen.Scope, string) {
	full := eval(s)
	if replayAlt != nil {
		// replay: the recorded alternative scope first (it only omits or changes unreported variables)
		ok := true
		for n := range roots {
			if v, has := s[n]; has {
				if w, has2 := replayAlt[n]; !has2 || lib.DumpValue(v) != lib.DumpValue(w) {
					ok = false
				}
			}
		}
		if d, got := differs(eval, s, replayAlt, full); ok && d {
			return replayWhy, replayAlt, "original scope:\n" + full + "\nalternative scope:\n" + got
		}
	}
	ps := pruned(s, roots)
	if d, got := differs(eval, s, ps, full); d {
		return "pruned-scope-differs", ps, "full scope:\n" + full + "\nonly reported names:\n" + got
	}
	// change variables that are not reported: remove, make unknown, give a value of another type
	var others []string
	for _, n := range s.Names() {
		if roots[n] == 0 {
			others = append(others, n)
		}
	}
	for k := 0; k < 4 && len(others) > 0; k++ {
		n := others[r.Intn(len(others))]
		alt := s.Clone()
		switch r.Intn(4) {
		case 0:
			delete(alt, n)
		case 1:
			alt[n] = cty.DynamicVal
		case 2:
			alt[n] = cty.NullVal(cty.DynamicPseudoType)
		default:
			alt[n] = evalgen.RandValue(r, evalgen.RandType(r, 2), 10)
		}
		if d, got := differs(eval, s, alt, full); d {
			return "unreported-variable-matters", alt, "variable " + n + " is not reported\noriginal scope:\n" + full + "\nafter changing it:\n" + got
		}
	}
	return "", nil, ""
}

type extra struct {
	// Alt is the scope under which the outcome differs from the outcome under the case's scope
	Alt map[string]*evalgen.EncVal `json:"alt,omitempty"`
	Why string                     `json:"why,omitempty"`
}

// set by replay: the recorded alternative scope and violation class
var replayAlt evalgen.Scope
var replayWhy string

func mkExtra(alt evalgen.Scope, why string) extra {
	return extra{Alt: evalgen.EncodeScope(alt), Why: why}
}

// ---------------------------------------------------------------------------
// native expressions, templates, JSON expressions

func checkNative(cx *lib.Ctx, r *lib.Rand, c *evalgen.Case) {
	res := cx.Res
	roots := rootSet(c.Expr.Variables())
	eval := exprEvaluator(c.Expr)
	why, alt, impl := semantic(r, eval, c.Scope, roots)
	if why != "" {
		min := c.Node
		if c.Node != nil {
			min = evalgen.Minimize(c.Node, func(n *lib.Node) bool {
				e, diags := evalgen.Parse(evalgen.Source(n))
				if diags.HasErrors() {
					return false
				}
				ev := exprEvaluator(e)
				rs := rootSet(e.Variables())
				return ev(c.Scope) != ev(pruned(c.Scope, rs)) || ev(c.Scope) != ev(restrict(alt, c.Scope, rs))
			})
		}
		mc := &evalgen.Case{Scope: c.Scope, Node: min, Src: c.Src, Expr: c.Expr}
		sig := "?"
		if min != nil {
			mc.Render()
			sig = evalgen.Sig(min, c.Scope)
		}
		res.Fail(lib.Failure{Kind: "oracle", Key: "incomplete:" + why + ":" + sig,
			Desc:  "the outcome of the evaluation depends on a variable that Variables() does not report",
			Input: mc.Encode("C07", "expr", mkExtra(alt, why)), Impl: impl})
	}
	if c.Node != nil {
		checkSyntactic(cx, c, roots)
	}
}

// restrict applies the perturbation alt (a full scope) but only matters for minimisation: it is the
// alternative scope itself when present.
func restrict(alt, orig evalgen.Scope, _ map[string]int) evalgen.Scope {
	if alt == nil {
		return orig
	}
	return alt
}

// checkSyntactic compares the reported roots with the free variables computed from the generator's own
// tree: a name that only occurs bound (by a for expression or a template for directive) must not be
// reported, every free occurrence must be reported, once per occurrence.
func checkSyntactic(cx *lib.Ctx, c *evalgen.Case, roots map[string]int) {
	res := cx.Res
	want := map[string]int{}
	for _, n := range evalgen.FreeVars(c.Node) {
		want[n]++
	}
	for _, n := range sortedKeys(roots) {
		if want[n] == 0 {
			res.Fail(lib.Failure{Kind: "oracle", Key: "bound-name-reported:" + binderKind(c.Node, n),
				Desc:  "Variables() reports " + n + ", which occurs only as a name bound inside the expression",
				Input: c.Encode("C07", "expr", nil), Impl: "reported: " + strings.Join(sortedKeys(roots), ",") + "; free: " + strings.Join(sortedKeys(want), ",")})
			return
		}
	}
	for _, n := range sortedKeys(want) {
		if roots[n] != want[n] {
			key := "free-variable-not-reported"
			if roots[n] > 0 {
				key = "reference-count-differs"
			}
			res.Fail(lib.Failure{Kind: "oracle", Key: key + ":" + occurrenceKind(c.Node, n),
				Desc:  fmt.Sprintf("variable %s occurs free %d time(s) but is reported %d time(s)", n, want[n], roots[n]),
				Input: c.Encode("C07", "expr", nil), Impl: "reported: " + fmt.Sprint(roots) + "; free: " + fmt.Sprint(want)})
			return
		}
	}
}

// binderKind names the construct that binds a name (for the signature of a bound-name-reported failure).
func binderKind(n *lib.Node, name string) string {
	kind := "?"
	n.Walk(func(x *lib.Node) {
		switch x.K {
		case "fortuple", "forobj", "tfor":
			if x.S == name || x.S2 == name {
				kind = x.K
			}
		}
	})
	return kind
}

// occurrenceKind names the parent construct of the first free occurrence of a name.
func occurrenceKind(n *lib.Node, name string) string {
	kind := "root"
	var walk func(x *lib.Node, parent string, bound []string)
	found := false
	walk = func(x *lib.Node, parent string, bound []string) {
		if found {
			return
		}
		if x.K == "var" && x.S == name {
			for _, b := range bound {
				if b == name {
					return
				}
			}
			kind, found = parent, true
			return
		}
		for i, k := range x.Kids {
			nb := bound
			if (x.K == "fortuple" || x.K == "forobj" || x.K == "tfor") && i > 0 {
				nb = append(append([]string{}, bound...), x.S, x.S2)
			}
			p := x.K
			if (x.K == "fortuple" || x.K == "forobj" || x.K == "tfor") && i == 0 {
				p += "-collection"
			}
			walk(k, p, nb)
		}
	}
	walk(n, "root", nil)
	return kind
}

func checkTemplate(cx *lib.Ctx, r *lib.Rand, c *evalgen.Case) {
	// the same template parsed as a bare template (hclsyntax.ParseTemplate)
	src := evalgen.TemplateSource(c.Node)
	e, diags := hclsyntax.ParseTemplate([]byte(src), "case.tmpl", hcl.InitialPos)
	if diags.HasErrors() {
		cx.Res.Count("template:parse-error")
		return
	}
	cx.Res.Count("template:cases")
	roots := rootSet(e.Variables())
	why, alt, impl := semantic(r, exprEvaluator(e), c.Scope, roots)
	tc := &evalgen.Case{Scope: c.Scope, Src: src}
	if why != "" {
		cx.Res.Fail(lib.Failure{Kind: "oracle", Key: "incomplete:" + why + ":template",
			Desc:  "bare template: the outcome depends on a variable that Variables() does not report",
			Input: tc.Encode("C07", "template", mkExtra(alt, why)), Impl: impl})
	}
	want := map[string]int{}
	for _, n := range evalgen.FreeVars(c.Node) {
		want[n]++
	}
	if fmt.Sprint(want) != fmt.Sprint(roots) {
		cx.Res.Fail(lib.Failure{Kind: "oracle", Key: "reported-set-differs:template",
			Desc:  "bare template: the reported roots differ from the free variables of the template",
			Input: tc.Encode("C07", "template", nil), Impl: "reported: " + fmt.Sprint(roots) + "; free: " + fmt.Sprint(want)})
	}
	cx.Res.Case("template|"+src, len(roots) > 0)
}

func checkJSON(cx *lib.Ctx, r *lib.Rand, src string, s evalgen.Scope, node *lib.Node) {
	res := cx.Res
	e, diags := hcljson.ParseExpression([]byte(src), "case.json")
	if diags.HasErrors() {
		res.Count("json:parse-error")
		return
	}
	res.Count("json:cases")
	roots := rootSet(e.Variables())
	jc := &evalgen.Case{Scope: s, Src: src, Node: node}
	why, alt, impl := semantic(r, exprEvaluator(e), s, roots)
	if why != "" {
		res.Fail(lib.Failure{Kind: "oracle", Key: "incomplete:" + why + ":json-expression",
			Desc:  "JSON-syntax expression: the outcome depends on a variable that Variables() does not report",
			Input: jc.Encode("C07", "json", mkExtra(alt, why)), Impl: impl})
	}
	if node != nil {
		want := map[string]int{}
		for _, n := range evalgen.FreeVars(node) {
			want[n]++
		}
		if fmt.Sprint(want) != fmt.Sprint(roots) {
			res.Fail(lib.Failure{Kind: "oracle", Key: "reported-set-differs:json-expression",
				Desc:  "JSON-syntax expression: the reported roots differ from the free variables of the expression",
				Input: jc.Encode("C07", "json", nil), Impl: "reported: " + fmt.Sprint(roots) + "; free: " + fmt.Sprint(want)})
		}
	}
	res.Case("json|"+src, len(roots) > 0)
}

// ---------------------------------------------------------------------------
// bodies

func decodeEvaluator(b *evalgen.BodyCase, expand bool) evaluator {
	return decodeEvaluatorSpec(b, expand, evalgen.BuildSpec(b.Items))
}

// nestSameBody wraps every entry of the flat object spec in one or two levels of specs that decode from the
// *same* body (tuple, nested object, validation wrapper): what is needed from the scope is unchanged, but the
// variable-needing specs now sit two or three levels below the root.
func nestSameBody(r *lib.Rand, spec hcldec.Spec, scopeNames []string) hcldec.Spec {
	o, ok := spec.(hcldec.ObjectSpec)
	if !ok {
		return spec
	}
	pass := func(cty.Value) hcl.Diagnostics { return nil }
	wrap := func(x hcldec.Spec) hcldec.Spec {
		switch r.Intn(7) {
		case 5, 6:
			// a default around a wrapper: DefaultSpec is itself "block-like" for the walkers (it forwards the
			// nested spec of its primary), yet it has same-body children that must still be visited
			dflt := &hcldec.LiteralSpec{Value: cty.NullVal(cty.DynamicPseudoType)}
			switch r.Intn(4) {
			case 0:
				return &hcldec.DefaultSpec{Primary: &hcldec.ValidateSpec{Wrapped: x, Func: pass}, Default: dflt}
			case 1:
				return &hcldec.DefaultSpec{Primary: hcldec.TupleSpec{x}, Default: dflt}
			case 2:
				return &hcldec.DefaultSpec{Primary: hcldec.ObjectSpec{"w": x}, Default: dflt}
			default:
				return &hcldec.DefaultSpec{Primary: &hcldec.RefineValueSpec{Wrapped: x, Refine: func(b *cty.RefinementBuilder) *cty.RefinementBuilder { return b }}, Default: dflt}
			}
		case 4:
			// a transform over the decoded value without a context of its own: its expression may use the
			// value (v0) only — a reference to anything else must stay an error whatever the caller's scope
			// holds, because the decoder does not report the expression's variables as needed
			if len(scopeNames) == 0 {
				return hcldec.TupleSpec{x}
			}
			e, diags := hclsyntax.ParseExpression([]byte("[v0, "+scopeNames[r.Intn(len(scopeNames))]+"]"), "", hcl.InitialPos)
			if diags.HasErrors() {
				return hcldec.TupleSpec{x}
			}
			return &hcldec.TransformExprSpec{Wrapped: x, Expr: e, VarName: "v0"}
		case 0:
			return hcldec.TupleSpec{x}
		case 1:
			return hcldec.ObjectSpec{"w": x}
		case 2:
			return &hcldec.ValidateSpec{Wrapped: hcldec.ObjectSpec{"w": x}, Func: pass}
		default:
			return hcldec.TupleSpec{hcldec.ObjectSpec{"w": x}}
		}
	}
	out := hcldec.ObjectSpec{}
	for _, k := range func() []string {
		var ks []string
		for k := range o {
			ks = append(ks, k)
		}
		sort.Strings(ks)
		return ks
	}() {
		out[k] = wrap(o[k])
	}
	if r.Chance(1, 2) {
		return &hcldec.ValidateSpec{Wrapped: out, Func: pass}
	}
	return out
}

func decodeEvaluatorSpec(b *evalgen.BodyCase, expand bool, spec hcldec.Spec) evaluator {
	return func(s evalgen.Scope) (out string) {
		defer func() {
			if r := recover(); r != nil {
				out = "PANIC: " + fmt.Sprint(r)
			}
		}()
		ctx := evalgen.Ctx(s)
		body := b.Body
		if expand {
			body = dynblock.Expand(body, ctx)
		}
		v, diags := hcldec.Decode(body, spec, ctx)
		return lib.DumpValue(v) + "\n" + diagSig(diags)
	}
}

// expansionEvaluator observes only what dynblock.Expand needs: the block structure (types, labels) after
// expansion, found by walking Content level by level with the spec's schemas, and the diagnostics of that
// walk. Attribute expressions are never evaluated.
func expansionEvaluator(b *evalgen.BodyCase) evaluator {
	spec := evalgen.BuildSpec(b.Items)
	return func(s evalgen.Scope) (out string) {
		defer func() {
			if r := recover(); r != nil {
				out = "PANIC: " + fmt.Sprint(r)
			}
		}()
		ctx := evalgen.Ctx(s)
		var sb strings.Builder
		var all hcl.Diagnostics
		var walk func(body hcl.Body, spec hcldec.Spec, ind string)
		walk = func(body hcl.Body, spec hcldec.Spec, ind string) {
			content, diags := body.Content(hcldec.ImpliedSchema(spec))
			all = append(all, diags...)
			if content == nil {
				return
			}
			names := make([]string, 0, len(content.Attributes))
			for n := range content.Attributes {
				names = append(names, n)
			}
			sort.Strings(names)
			fmt.Fprintf(&sb, "%sattrs %v\n", ind, names)
			children := hcldec.ChildBlockTypes(spec)
			for _, blk := range content.Blocks {
				fmt.Fprintf(&sb, "%sblock %s %q\n", ind, blk.Type, blk.Labels)
				if cs, ok := children[blk.Type]; ok {
					walk(blk.Body, cs, ind+"  ")
				}
			}
		}
		walk(dynblock.Expand(b.Body, ctx), spec, "")
		return sb.String() + diagSig(all)
	}
}

// twoPassEvaluator reads the expanded body directly, the way gohcl does with a `remain` field: every body is
// processed in two passes — some attributes first (PartialContent), the other attributes and the blocks from
// the remaining body — and every attribute is evaluated.  In a generated block the second pass must still see
// the block's iterator.  onePass: the same walk with a single Content call per body (the reference).
func twoPassEvaluator(b *evalgen.BodyCase, onePass bool) evaluator {
	spec := evalgen.BuildSpec(b.Items)
	return func(s evalgen.Scope) (out string) {
		defer func() {
			if r := recover(); r != nil {
				out = "PANIC: " + fmt.Sprint(r)
			}
		}()
		ctx := evalgen.Ctx(s)
		var sb strings.Builder
		var all hcl.Diagnostics
		var walk func(body hcl.Body, spec hcldec.Spec, ind string)
		walk = func(body hcl.Body, spec hcldec.Spec, ind string) {
			schema := hcldec.ImpliedSchema(spec)
			attrs := hcl.Attributes{}
			var blocks hcl.Blocks
			if onePass {
				content, diags := body.Content(schema)
				all = append(all, diags...)
				if content == nil {
					return
				}
				attrs, blocks = content.Attributes, content.Blocks
			} else {
				half := len(schema.Attributes) / 2
				first := &hcl.BodySchema{Attributes: schema.Attributes[:half]}
				second := &hcl.BodySchema{Attributes: schema.Attributes[half:], Blocks: schema.Blocks}
				c1, remain, d1 := body.PartialContent(first)
				all = append(all, d1...)
				if c1 == nil || remain == nil {
					return
				}
				c2, d2 := remain.Content(second)
				all = append(all, d2...)
				if c2 == nil {
					return
				}
				for n, a := range c1.Attributes {
					attrs[n] = a
				}
				for n, a := range c2.Attributes {
					attrs[n] = a
				}
				blocks = c2.Blocks
			}
			names := make([]string, 0, len(attrs))
			for n := range attrs {
				names = append(names, n)
			}
			sort.Strings(names)
			for _, n := range names {
				v, d := attrs[n].Expr.Value(ctx)
				all = append(all, d...)
				fmt.Fprintf(&sb, "%s%s = %s\n", ind, n, lib.DumpValue(v))
			}
			children := hcldec.ChildBlockTypes(spec)
			for _, blk := range blocks {
				fmt.Fprintf(&sb, "%sblock %s %q\n", ind, blk.Type, blk.Labels)
				if cs, ok := children[blk.Type]; ok {
					walk(blk.Body, cs, ind+"  ")
				}
			}
		}
		walk(dynblock.Expand(b.Body, ctx), spec, "")
		return sb.String() + diagSig(all)
	}
}

func checkBody(cx *lib.Ctx, r *lib.Rand, b *evalgen.BodyCase, mode string) {
	res := cx.Res
	spec := evalgen.BuildSpec(b.Items)
	type probe struct {
		name  string
		vars  []hcl.Traversal
		eval  evaluator
		want  []string
		label string
	}
	var probes []probe
	switch mode {
	case "hcldec":
		probes = append(probes, probe{"hcldec.Variables", hcldec.Variables(b.Body, spec), decodeEvaluator(b, false), evalgen.BodyFreeRoots(b.Tree, false), "hcldec-variables"})
	case "hcldec-nested":
		nested := nestSameBody(r.Fork(), spec, b.Scope.Names())
		probes = append(probes, probe{"hcldec.Variables (same-body specs nested)", hcldec.Variables(b.Body, nested), decodeEvaluatorSpec(b, false, nested), evalgen.BodyFreeRoots(b.Tree, false), "hcldec-variables-nested"})
	default:
		if r.Chance(1, 2) {
			// the walkers find nested specs through hcldec.ChildBlockTypes: same-body wrappers must not hide them
			nested := nestSameBody(r.Fork(), spec, nil)
			probes = append(probes, probe{"dynblock.VariablesHCLDec (same-body specs nested)", dynblock.VariablesHCLDec(b.Body, nested), decodeEvaluatorSpec(b, true, nested), evalgen.BodyFreeRoots(b.Tree, false), "dynblock-variables-nested"})
		}
		if r.Chance(1, 2) {
			two, one := twoPassEvaluator(b, false), twoPassEvaluator(b, true)
			probes = append(probes, probe{"dynblock.VariablesHCLDec (bodies read in two passes)", dynblock.VariablesHCLDec(b.Body, spec), two, evalgen.BodyFreeRoots(b.Tree, false), "dynblock-variables-two-pass"})
			if a, c := two(b.Scope), one(b.Scope); a != c && !strings.HasPrefix(a, "PANIC") && !strings.HasPrefix(c, "PANIC") {
				res.Fail(lib.Failure{Kind: "oracle", Key: "two-pass-read-differs-from-one-pass" + classifyBody(b, rootSet(dynblock.VariablesHCLDec(b.Body, spec)), evalgen.BodyFreeRoots(b.Tree, false)),
					Desc:  "reading every body of the expanded configuration in two passes (some attributes, then the rest from the remaining body) evaluates differently from one pass: a name resolves differently in the second pass",
					Input: b.Encode("C07", mode, nil), Impl: "two passes:\n" + a + "\none pass:\n" + c})
			}
		}
		probes = append(probes,
			probe{"dynblock.VariablesHCLDec", dynblock.VariablesHCLDec(b.Body, spec), decodeEvaluator(b, true), evalgen.BodyFreeRoots(b.Tree, false), "dynblock-variables"},
			probe{"dynblock.ExpandVariablesHCLDec", dynblock.ExpandVariablesHCLDec(b.Body, spec), expansionEvaluator(b), evalgen.BodyFreeRoots(b.Tree, true), "dynblock-expand-variables"})
	}
	nontrivial := false
	for _, p := range probes {
		roots := rootSet(p.vars)
		if len(roots) > 0 {
			nontrivial = true
		}
		why, alt, impl := semantic(r, p.eval, b.Scope, roots)
		if why != "" {
			res.Fail(lib.Failure{Kind: "oracle", Key: "incomplete:" + why + ":" + p.label + classifyBody(b, roots, p.want),
				Desc:  p.name + ": the outcome depends on a variable that is not reported",
				Input: b.Encode("C07", mode, mkExtra(alt, why)), Impl: impl})
			continue
		}
		if b.Tree == nil {
			continue
		}
		got := strings.Join(sortedKeys(roots), ",")
		want := strings.Join(p.want, ",")
		if got != want {
			key := "reported-set-differs:" + p.label
			for _, n := range sortedKeys(roots) {
				if !contains(p.want, n) {
					key = "bound-name-reported:" + p.label
				}
			}
			res.Fail(lib.Failure{Kind: "oracle", Key: key + classifyBody(b, roots, p.want),
				Desc:  p.name + ": the reported roots differ from the names the body needs from the root scope (iterator names excluded)",
				Input: b.Encode("C07", mode, nil), Impl: "reported: " + got + "; needed: " + want})
		}
	}
	res.Case(mode+"|"+b.Src, nontrivial)
}

func contains(xs []string, x string) bool {
	for _, y := range xs {
		if y == x {
			return true
		}
	}
	return false
}

// classifyBody refines the signature: which kind of spec item holds the unreported reference.
func classifyBody(b *evalgen.BodyCase, roots map[string]int, want []string) string {
	if b.Tree == nil {
		return ""
	}
	var missing []string
	for _, n := range want {
		if roots[n] == 0 {
			missing = append(missing, n)
		}
	}
	if len(missing) == 0 {
		if iteratorInBlockAttrs(b) {
			return ":blockattrs/iterator-name"
		}
		return ""
	}
	// find the first position that holds a free reference (iterators of enclosing dynamic blocks are
	// bound) to a missing name
	kind := ""
	freeMissing := func(e *lib.Node, bound []string) bool {
		for _, v := range evalgen.FreeVars(e) {
			if contains(missing, v) && !contains(bound, v) {
				return true
			}
		}
		return false
	}
	var walk func(body *lib.Node, items []evalgen.SpecItem, path string, bound []string)
	walk = func(body *lib.Node, items []evalgen.SpecItem, path string, bound []string) {
		for _, k := range body.Kids {
			switch {
			case k.K == "attrdef":
				if kind == "" && freeMissing(k.Kids[0], bound) {
					kind = path + "attr"
				}
			case k.K == "block":
				typ := k.S
				inner := k.Kids[len(k.Kids)-1]
				nb := bound
				var contents []*lib.Node
				if typ == "dynamic" && len(k.Kids) >= 2 {
					typ = k.Kids[0].S
					iter := typ
					for _, a := range inner.Kids {
						if a.K == "attrdef" && a.S == "iterator" && a.Kids[0].K == "var" {
							iter = a.Kids[0].S
						}
					}
					nb = append(append([]string{}, bound...), iter)
					for _, a := range inner.Kids {
						switch {
						case a.K == "attrdef" && a.S == "for_each":
							if kind == "" && freeMissing(a.Kids[0], bound) {
								kind = path + "dynamic-for_each"
							}
						case a.K == "attrdef" && a.S == "labels":
							if kind == "" && freeMissing(a.Kids[0], nb) {
								kind = path + "dynamic-labels"
							}
						case a.K == "block" && a.S == "content":
							contents = append(contents, a.Kids[len(a.Kids)-1])
						}
					}
				} else {
					contents = []*lib.Node{inner}
				}
				for _, it := range items {
					if it.Name == typ && it.IsBlock() {
						for _, c := range contents {
							walk(c, it.Nested, path+it.Kind+"/", nb)
						}
					}
				}
			}
		}
	}
	walk(b.Tree, b.Items, "", nil)
	if kind == "" {
		return ""
	}
	// keep only the last two path elements: the enclosing block spec kind and the position
	parts := strings.Split(kind, "/")
	if len(parts) > 2 {
		parts = parts[len(parts)-2:]
	}
	return ":" + strings.Join(parts, "/")
}

// iteratorInBlockAttrs: some attribute of a BlockAttrsSpec block inside the content of a dynamic block
// refers to an iterator. dynblock passes such bodies through JustAttributes unwrapped, so the name is
// looked up in the root scope instead.
func iteratorInBlockAttrs(b *evalgen.BodyCase) bool {
	found := false
	var walk func(body *lib.Node, items []evalgen.SpecItem, bound []string)
	walk = func(body *lib.Node, items []evalgen.SpecItem, bound []string) {
		for _, k := range body.Kids {
			if k.K != "block" {
				continue
			}
			typ, inner, nb := k.S, k.Kids[len(k.Kids)-1], bound
			var contents []*lib.Node
			if typ == "dynamic" && len(k.Kids) >= 2 {
				typ = k.Kids[0].S
				iter := typ
				for _, a := range inner.Kids {
					if a.K == "attrdef" && a.S == "iterator" && a.Kids[0].K == "var" {
						iter = a.Kids[0].S
					}
					if a.K == "block" && a.S == "content" {
						contents = append(contents, a.Kids[len(a.Kids)-1])
					}
				}
				nb = append(append([]string{}, bound...), iter)
			} else {
				contents = []*lib.Node{inner}
			}
			for _, it := range items {
				if it.Name != typ || !it.IsBlock() {
					continue
				}
				for _, c := range contents {
					if it.Kind == "blockattrs" {
						for _, a := range c.Kids {
							if a.K == "attrdef" {
								for _, v := range evalgen.FreeVars(a.Kids[0]) {
									if contains(nb, v) {
										found = true
									}
								}
							}
						}
					} else {
						walk(c, it.Nested, nb)
					}
				}
			}
		}
	}
	walk(b.Tree, b.Items, nil)
	return found
}

// ---------------------------------------------------------------------------

// handCorpus: shadowing shapes named by the property text.
func handCorpus() []*evalgen.Case {
	mk := func(n *lib.Node) *evalgen.Case {
		c := &evalgen.Case{Scope: evalgen.Scope{
			"x":  cty.ListVal([]cty.Value{cty.NumberIntVal(1), cty.NumberIntVal(2)}),
			"y":  cty.StringVal("why"),
			"k":  cty.StringVal("kay"),
			"xs": cty.MapVal(map[string]cty.Value{"a": cty.StringVal("A")}),
			"ol": cty.ListVal([]cty.Value{cty.ObjectVal(map[string]cty.Value{"tags": cty.ListVal([]cty.Value{cty.ObjectVal(map[string]cty.Value{"name": cty.StringVal("t0")}), cty.ObjectVal(map[string]cty.Value{"name": cty.StringVal("t1")})})})}),
			"i":  cty.NumberIntVal(1),
			"j":  cty.NumberIntVal(0),
		}, Node: n}
		c.Render()
		return c
	}
	v := evalgen.V
	fsplat := func(x *lib.Node) *lib.Node { return &lib.Node{K: "fsplat", Kids: []*lib.Node{x}} }
	return []*evalgen.Case{
		mk(&lib.Node{K: "fortuple", S: "x", Kids: []*lib.Node{v("x"), v("x")}}),
		mk(&lib.Node{K: "fortuple", S: "x", S2: "k", Kids: []*lib.Node{v("xs"), evalgen.Tuple(v("k"), v("x"), v("y"))}}),
		mk(&lib.Node{K: "forobj", S: "x", S2: "k", Kids: []*lib.Node{v("xs"), v("k"), v("x"), evalgen.Bin("!=", v("k"), v("y"))}}),
		mk(evalgen.Tuple(&lib.Node{K: "fortuple", S: "y", Kids: []*lib.Node{v("x"), v("y")}}, v("y"))),
		mk(&lib.Node{K: "fortuple", S: "x", Kids: []*lib.Node{&lib.Node{K: "fortuple", S: "x", Kids: []*lib.Node{v("x"), v("x")}}, v("x")}}),
		mk(&lib.Node{K: "tmpl", Kids: []*lib.Node{{K: "tfor", S: "y", S2: "k", Kids: []*lib.Node{v("xs"), {K: "tmpl", Kids: []*lib.Node{{K: "interp", Kids: []*lib.Node{v("y")}}, {K: "interp", Kids: []*lib.Node{v("k")}}}}}}, {K: "interp", Kids: []*lib.Node{v("y")}}}}),
		mk(evalgen.Attr(&lib.Node{K: "fsplat", Kids: []*lib.Node{v("x")}}, "y")),
		mk(&lib.Node{K: "object", Kids: []*lib.Node{{K: "ident", S: "y"}, v("y"), v("k"), v("x")}}),
		mk(evalgen.Index(v("xs"), v("k"))),
		// a variable index key inside the traversal that follows a splat, itself followed by further steps
		mk(evalgen.Attr(evalgen.Index(evalgen.Attr(fsplat(v("ol")), "tags"), v("i")), "name")),
		mk(evalgen.Index(evalgen.Index(evalgen.Attr(fsplat(v("ol")), "tags"), v("i")), v("j"))),
		mk(evalgen.Index(evalgen.Attr(fsplat(v("ol")), "tags"), v("i"))),
		mk(evalgen.Attr(evalgen.Index(evalgen.Attr(evalgen.Index(fsplat(v("ol")), v("j")), "tags"), v("i")), "name")),
		mk(evalgen.Attr(evalgen.Index(fsplat(evalgen.Attr(evalgen.Index(v("ol"), v("j")), "tags")), v("i")), "name")),
		mk(&lib.Node{K: "tmpl", Kids: []*lib.Node{{K: "tfor", S: "t", Kids: []*lib.Node{evalgen.Attr(evalgen.Index(evalgen.Attr(fsplat(v("ol")), "tags"), v("i")), "name"), {K: "tmpl", Kids: []*lib.Node{{K: "interp", Kids: []*lib.Node{v("t")}}}}}}}}),
		mk(evalgen.Tuple(evalgen.Attr(evalgen.Index(evalgen.Attr(fsplat(v("ol")), "tags"), evalgen.Bin("+", v("i"), v("j"))), "name"), v("y"))),
	}
}

func run(cx *lib.Ctx) {
	res := cx.Res
	debug.SetGCPercent(800)
	if cx.Replay != "" {
		replay(cx, lib.ReplayInput(cx.Replay))
		return
	}
	res.Rule = "type-directed random expressions (evalgen; 30 % of the bound names clash with scope variables), their templates parsed bare, their JSON-syntax renderings, random bodies under random hcldec specs without and with dynamic blocks; for each: outcome (value dump + sorted diagnostics up to the 'Did you mean' suffix) in the full scope vs in the scope pruned to the reported roots vs after removing / replacing up to 4 unreported variables, plus the reported roots compared with the free variables computed from the generator's tree; non-trivial = at least one variable is reported; distinct by source text"
	for _, c := range handCorpus() {
		if c.Expr == nil {
			res.Count("corpus-parse-error")
			continue
		}
		checkNative(cx, cx.R.Fork(), c)
		res.Case(c.Src, true)
		res.Count("corpus")
	}
	directedCustomDecode(cx)
	directedDeep(cx)
	R := cx.R.Fork()
	n := cx.Scale(4000, 90000)
	for i := 0; i < n; i++ {
		r := R.Fork()
		o := evalgen.Defaults()
		c, ok := evalgen.NewCase(r, o)
		if !ok {
			res.Count("gen-parse-error")
			continue
		}
		evalgen.CountStats(res, c.Node)
		if i < 3 {
			res.Sample(c.Src)
		}
		roots := rootSet(c.Expr.Variables())
		res.Case(c.Src, len(roots) > 0)
		res.Count(fmt.Sprintf("reported-roots:%d", min(len(roots), 6)))
		countShadowing(res, c)
		checkNative(cx, r, c)
		if c.Node.K == "tmpl" && !c.Node.Flag {
			checkTemplate(cx, r, c)
		}
		if r.Chance(1, 2) {
			if src, ok := evalgen.JSONSource(r, c.Node, 70); ok {
				checkJSON(cx, r, src, c.Scope, c.Node)
			}
		}
	}
	nb := cx.Scale(700, 15000)
	for i := 0; i < nb; i++ {
		r := R.Fork()
		b, ok := evalgen.NewBodyCase(r, evalgen.Defaults(), 0, 0)
		if !ok {
			res.Count("gen-body-parse-error")
			continue
		}
		res.Count("hcldec:cases")
		checkBody(cx, r, b, "hcldec")
		if i%2 == 0 {
			res.Count("hcldec-nested:cases")
			checkBody(cx, r, b, "hcldec-nested")
		}
	}
	for i := 0; i < nb; i++ {
		r := R.Fork()
		o := evalgen.Defaults()
		// half of the bodies avoid BlockAttrsSpec, whose known defect (see the findings) would otherwise
		// be the first thing reported for most bodies
		o.NoBlockAttrs = i%2 == 0
		b, ok := evalgen.NewBodyCase(r, o, 55, 0)
		if !ok {
			res.Count("gen-body-parse-error")
			continue
		}
		if i < 2 {
			res.Sample(b.Src)
		}
		evalgen.BodyStats(res, b.Tree, 0)
		res.Count("dynblock:cases")
		checkBody(cx, r, b, "dynblock")
	}
}

func min(a, b int) int {
	if a < b {
		return a
	}
	return b
}

// countShadowing records how often a bound name coincides with a scope variable, and how often such a
// name is also used free.
func countShadowing(res *lib.Result, c *evalgen.Case) {
	free := map[string]bool{}
	for _, n := range evalgen.FreeVars(c.Node) {
		free[n] = true
	}
	c.Node.Walk(func(x *lib.Node) {
		switch x.K {
		case "fortuple", "forobj", "tfor":
			res.Count("binders")
			for _, b := range []string{x.S, x.S2} {
				if b == "" {
					continue
				}
				if _, ok := c.Scope[b]; ok {
					res.Count("binder-shadows-scope-variable")
					if free[b] {
						res.Count("binder-name-also-used-free")
					}
				}
			}
		}
	})
}

func replay(cx *lib.Ctx, doc string) {
	var head struct {
		Mode string `json:"mode"`
	}
	fail := func(err error) {
		cx.Res.Fail(lib.Failure{Kind: "oracle", Key: "replay-input", Desc: err.Error(), Input: doc})
	}
	if err := json.Unmarshal([]byte(doc), &head); err != nil {
		fail(err)
		return
	}
	r := cx.R.Fork()
	var exd struct {
		Extra extra `json:"extra"`
	}
	if err := json.Unmarshal([]byte(doc), &exd); err == nil && exd.Extra.Alt != nil {
		if alt, err := evalgen.DecodeScope(exd.Extra.Alt); err == nil {
			replayAlt, replayWhy = alt, exd.Extra.Why
		}
	}
	switch head.Mode {
	case "hcldec", "dynblock":
		b, _, err := evalgen.DecodeBodyCase(doc)
		if err != nil {
			fail(err)
			return
		}
		cx.Res.Sample(b.Src)
		// several rounds, since the perturbation of unreported variables is random
		for i := 0; i < 8 && len(cx.Res.Failures) == 0; i++ {
			checkBody(cx, r, b, head.Mode)
		}
	case "json", "template":
		var cj evalgen.CaseJSON
		if err := json.Unmarshal([]byte(doc), &cj); err != nil {
			fail(err)
			return
		}
		s, err := evalgen.DecodeScope(cj.Scope)
		if err != nil {
			fail(err)
			return
		}
		cx.Res.Sample(cj.Src)
		for i := 0; i < 8 && len(cx.Res.Failures) == 0; i++ {
			if head.Mode == "json" {
				checkJSON(cx, r, cj.Src, s, cj.Node)
			} else {
				e, diags := hclsyntax.ParseTemplate([]byte(cj.Src), "case.tmpl", hcl.InitialPos)
				if diags.HasErrors() {
					fail(fmt.Errorf("template does not parse"))
					return
				}
				roots := rootSet(e.Variables())
				if why, alt, impl := semantic(r, exprEvaluator(e), s, roots); why != "" {
					tc := &evalgen.Case{Scope: s, Src: cj.Src}
					cx.Res.Fail(lib.Failure{Kind: "oracle", Key: "incomplete:" + why + ":template", Desc: "bare template: the outcome depends on a variable that Variables() does not report",
						Input: tc.Encode("C07", "template", mkExtra(alt, why)), Impl: impl})
				}
				cx.Res.Case("template|"+cj.Src, true)
			}
		}
	default:
		c, _, err := evalgen.DecodeCase(doc)
		if err != nil {
			fail(err)
			return
		}
		cx.Res.Sample(c.Src)
		cx.Res.Case(c.Src, true)
		for i := 0; i < 8 && len(cx.Res.Failures) == 0; i++ {
			checkNative(cx, r, c)
		}
	}
}
