package c07

import (
	"fmt"
	"sort"
	"strings"

	"github.com/hashicorp/hcl/v2"
	"github.com/hashicorp/hcl/v2/hclsyntax"
	hcljson "github.com/hashicorp/hcl/v2/json"
	"github.com/zclconf/go-cty/cty"

	"hx/lib"
)

// directedDeep: references that sit very deep in the syntax tree — a left-nested operator chain of a few thousand
// terms, brackets, parentheses-free conditionals and templates nested a thousand levels — must still be reported,
// and the pruned scope must still evaluate like the full one.
func directedDeep(cx *lib.Ctx) {
	res := cx.Res
	type deepCase struct{ name, src string }
	var cases []deepCase
	for _, n := range []int{300, 1100, 1500, 2600} {
		cases = append(cases, deepCase{fmt.Sprintf("chain-%d", n), "base" + strings.Repeat(" + 1", n) + " + extra"})
		cases = append(cases, deepCase{fmt.Sprintf("chain-right-%d", n), strings.Repeat("1 + (", n) + "base + extra" + strings.Repeat(")", n)})
	}
	for _, n := range []int{200, 1200} {
		cases = append(cases, deepCase{fmt.Sprintf("brackets-%d", n), "[" + strings.Repeat("[", n) + "base" + strings.Repeat("]", n) + ", extra]"})
		cases = append(cases, deepCase{fmt.Sprintf("conditionals-%d", n), strings.Repeat("true ? ", n) + "base + extra" + strings.Repeat(" : 0", n)})
		cases = append(cases, deepCase{fmt.Sprintf("unary-%d", n), "[" + strings.Repeat("-", n) + "base, extra]"})
		cases = append(cases, deepCase{fmt.Sprintf("for-%d", n), "[for x in [1] : x + base" + strings.Repeat(" + 1", n) + "][0] + extra"})
		cases = append(cases, deepCase{fmt.Sprintf("template-%d", n), "\"${base" + strings.Repeat(" + 1", n) + "}-${extra}\""})
	}
	full := map[string]cty.Value{"base": cty.NumberIntVal(7), "extra": cty.NumberIntVal(5), "other": cty.StringVal("unused")}
	for _, c := range cases {
		check := func(kind string, e hcl.Expression) {
			var names []string
			seen := map[string]bool{}
			if !cx.Guard("deep-variables", c.name, func() {
				for _, t := range e.Variables() {
					if !seen[t.RootName()] {
						seen[t.RootName()] = true
						names = append(names, t.RootName())
					}
				}
			}) {
				return
			}
			sort.Strings(names)
			res.Count("deep:" + kind)
			res.Case("deep|"+kind+"|"+c.name, true)
			if got := strings.Join(names, ","); got != "base,extra" {
				res.Fail(lib.Failure{Kind: "oracle", Key: "deep:" + kind + ":reported-roots-incomplete", Desc: "a reference deep in the expression is not reported: " + c.name + " reports [" + got + "]", Input: lib.Trunc(c.src, 300)})
				return
			}
			pruned := map[string]cty.Value{}
			for _, n := range names {
				pruned[n] = full[n]
			}
			var a, b string
			cx.Guard("deep-eval", c.name, func() {
				v1, d1 := e.Value(&hcl.EvalContext{Variables: full})
				v2, d2 := e.Value(&hcl.EvalContext{Variables: pruned})
				a = lib.DumpValue(v1) + fmt.Sprint(len(d1))
				b = lib.DumpValue(v2) + fmt.Sprint(len(d2))
			})
			if a != b {
				res.Fail(lib.Failure{Kind: "oracle", Key: "deep:" + kind + ":pruned-scope-differs", Desc: c.name, Input: lib.Trunc(c.src, 300), Impl: a + " vs " + b})
			}
		}
		e, diags := hclsyntax.ParseExpression([]byte(c.src), "", hcl.InitialPos)
		if diags.HasErrors() {
			res.Count("deep:parse-error")
			continue
		}
		check("native", e)
		// the same text as the content of a JSON string template
		if !strings.HasPrefix(c.src, "\"") {
			js := "\"${" + strings.ReplaceAll(c.src, "\"", "\\\"") + "}\""
			if je, jd := hcljson.ParseExpression([]byte(js), "d.json"); !jd.HasErrors() {
				check("json", je)
			}
		}
	}
}
