package c16

import (
	"fmt"
	"reflect"

	"hx/lib"
)

// The struct family of the GOHCL correspondence (corr.go): only the field kinds that the Lean model of gohcl
// (HclModel/Gohcl/Codec.lean) describes — attributes of type string, int, bool, slices, string-keyed maps and
// pointers; labels; block fields of the four shapes T, *T, []T, []*T.

// GReq: required attributes of every modelled type (pointer fields are never required by the schema).
type GReq struct {
	S  string              `hcl:"s"`
	I  int                 `hcl:"i,attr"`
	B  bool                `hcl:"b"`
	LS []string            `hcl:"ls"`
	LI []int               `hcl:"li,attr"`
	LL [][]string          `hcl:"ll"`
	MS map[string]string   `hcl:"ms"`
	MI map[string]int      `hcl:"mi"`
	ML map[string][]string `hcl:"ml"`
	PS *string             `hcl:"ps"`
	PI *int                `hcl:"pi,attr"`
	PB *bool               `hcl:"pb"`
}

// GOpt: the same types as optional attributes; one field without tag.
type GOpt struct {
	S        string              `hcl:"s,optional"`
	I        int                 `hcl:"i,optional"`
	B        bool                `hcl:"b,optional"`
	LS       []string            `hcl:"ls,optional"`
	LI       []int               `hcl:"li,optional"`
	Untagged string              // ignored by gohcl in both directions
	LL       [][]string          `hcl:"ll,optional"`
	MS       map[string]string   `hcl:"ms,optional"`
	MI       map[string]int      `hcl:"mi,optional"`
	ML       map[string][]string `hcl:"ml,optional"`
	PS       *string             `hcl:"ps,optional"`
	PI       *int                `hcl:"pi,optional"`
	PB       *bool               `hcl:"pb,optional"`
}

// GPlain: a block type without labels.
type GPlain struct {
	Name string            `hcl:"name"`
	N    *int              `hcl:"n"`
	Tags map[string]string `hcl:"tags,optional"`
}

// GOne: one label, declared first.
type GOne struct {
	Name string `hcl:"name,label"`
	V    string `hcl:"v,optional"`
}

// GTwo: two labels, one declared before and one after the other fields; a nested block field between them.
type GTwo struct {
	Type string   `hcl:"type,label"`
	Tags []string `hcl:"tags,optional"`
	Sub  []GOne   `hcl:"sub,block"`
	Name string   `hcl:"name,label"`
}

// GShapes: the four shapes of block fields, without labels, with one label, with two labels.
type GShapes struct {
	Title string    `hcl:"title,optional"`
	Req   GPlain    `hcl:"req,block"`
	Opt   *GPlain   `hcl:"opt,block"`
	Many  []GPlain  `hcl:"many,block"`
	ManyP []*GPlain `hcl:"manyp,block"`
	One   *GOne     `hcl:"one,block"`
	Ones  []GOne    `hcl:"ones,block"`
	Twos  []*GTwo   `hcl:"twos,block"`
	ReqT  GTwo      `hcl:"reqtwo,block"`
}

// GLeaf / GMid / GDeep: three levels, block fields declared before attribute fields, labels declared last, two
// block fields of the same struct type in one struct.
type GLeaf struct {
	Vals []string `hcl:"vals,optional"`
	On   *bool    `hcl:"on"`
	ID   string   `hcl:"id,label"`
}
type GMid struct {
	Leaves []GLeaf `hcl:"leaf,block"`
	Note   string  `hcl:"note,optional"`
	Only   *GLeaf  `hcl:"only,block"`
	Kind   string  `hcl:"kind,label"`
	Count  int     `hcl:"count"`
}
type GDeep struct {
	Mids  []*GMid   `hcl:"mid,block"`
	Name  string    `hcl:"name"`
	First GMid      `hcl:"first,block"`
	Last  int       `hcl:"last,optional"`
	Extra []GShapes `hcl:"extra,block"`
}

// GNames: keywords and unusual identifiers as attribute names and block types.
type GNamesBlk struct {
	For string `hcl:"for,label"`
	In  int    `hcl:"in,optional"`
}
type GNames struct {
	For     string            `hcl:"for"`
	If      *string           `hcl:"if"`
	In      []string          `hcl:"in,optional"`
	Null    map[string]string `hcl:"null,optional"`
	True    bool              `hcl:"true,optional"`
	XY      string            `hcl:"x-y,optional"`
	Uni     string            `hcl:"ünï_1,optional"`
	Dyn     []GNamesBlk       `hcl:"dynamic,block"`
	Content *GNamesBlk        `hcl:"content,block"`
	Dash    []GPlain          `hcl:"a-b,block"`
}

// GEmpty has no field; GOnlyBlocks only block fields of it.
type GEmpty struct{}
type GOnlyBlocks struct {
	A []GEmpty  `hcl:"a,block"`
	B *GEmpty   `hcl:"b,block"`
	C GEmpty    `hcl:"c,block"`
	D []*GEmpty `hcl:"d,block"`
}

// GTopLabel: label fields in the struct that is decoded as a whole body (they stay untouched).
type GTopLabel struct {
	L string `hcl:"l,label"`
	A string `hcl:"a,optional"`
	M string `hcl:"m,label"`
}

var corrFamily = []typeInfo{
	{"GReq", reflect.TypeOf(GReq{})},
	{"GOpt", reflect.TypeOf(GOpt{})},
	{"GPlain", reflect.TypeOf(GPlain{})},
	{"GOne", reflect.TypeOf(GOne{})},
	{"GTwo", reflect.TypeOf(GTwo{})},
	{"GShapes", reflect.TypeOf(GShapes{})},
	{"GLeaf", reflect.TypeOf(GLeaf{})},
	{"GMid", reflect.TypeOf(GMid{})},
	{"GDeep", reflect.TypeOf(GDeep{})},
	{"GNames", reflect.TypeOf(GNames{})},
	{"GEmpty", reflect.TypeOf(GEmpty{})},
	{"GOnlyBlocks", reflect.TypeOf(GOnlyBlocks{})},
	{"GTopLabel", reflect.TypeOf(GTopLabel{})},
}

// ---- random struct types (reflect.StructOf: gohcl only ever sees a type through reflection) ----

var corrItemNames = []string{"a", "b", "c", "name", "id", "count", "for", "if", "in", "null", "true", "x-y", "ünï_1", "blk", "svc", "leaf", "dynamic", "content", "_u", "A1"}

// corrAttrTypes are the attribute types of random struct types: the types of the fixed family, deeper
// nestings, pointers to collections, and (beyond what STy.wf of the model admits, but the model's functions are
// defined there) a pointer to a pointer and pointers inside collections.
var corrAttrTypes = []reflect.Type{
	reflect.TypeOf(""), reflect.TypeOf(0), reflect.TypeOf(false),
	reflect.TypeOf([]string(nil)), reflect.TypeOf([]int(nil)), reflect.TypeOf([]bool(nil)), reflect.TypeOf([][]string(nil)), reflect.TypeOf([][]int(nil)),
	reflect.TypeOf(map[string]string(nil)), reflect.TypeOf(map[string]int(nil)), reflect.TypeOf(map[string]bool(nil)), reflect.TypeOf(map[string][]string(nil)),
	reflect.TypeOf([]map[string]string(nil)), reflect.TypeOf(map[string]map[string]int(nil)),
	reflect.TypeOf((*string)(nil)), reflect.TypeOf((*int)(nil)), reflect.TypeOf((*bool)(nil)),
	reflect.TypeOf((*string)(nil)), reflect.TypeOf((*int)(nil)), reflect.TypeOf((*bool)(nil)),
	reflect.TypeOf((*[]string)(nil)), reflect.TypeOf((*map[string]int)(nil)),
	reflect.TypeOf((**string)(nil)), reflect.TypeOf([]*int(nil)), reflect.TypeOf(map[string]*string(nil)),
}

// randStructType builds a random tagged struct type: up to seven fields of kinds attribute (required /
// optional), label, block (any shape, nested up to three levels) and untagged, in random order, with distinct
// attribute names / block types.
func randStructType(r *lib.Rand, depth int) reflect.Type {
	var fields []reflect.StructField
	used := map[string]bool{}
	pickName := func() (string, bool) {
		for try := 0; try < 10; try++ {
			n := r.Pick(corrItemNames)
			if !used[n] {
				used[n] = true
				return n, true
			}
		}
		return "", false
	}
	n := r.Intn(8)
	labels := 0
	for i := 0; i < n; i++ {
		f := reflect.StructField{Name: fmt.Sprintf("F%d", i)}
		switch k := r.Intn(20); {
		case k < 10:
			name, ok := pickName()
			if !ok {
				continue
			}
			f.Type = corrAttrTypes[r.Intn(len(corrAttrTypes))]
			switch r.Intn(3) {
			case 0:
				f.Tag = reflect.StructTag(fmt.Sprintf(`hcl:"%s"`, name))
			case 1:
				f.Tag = reflect.StructTag(fmt.Sprintf(`hcl:"%s,attr"`, name))
			default:
				f.Tag = reflect.StructTag(fmt.Sprintf(`hcl:"%s,optional"`, name))
			}
		case k < 13:
			if labels >= 2 {
				continue
			}
			labels++
			f.Type = reflect.TypeOf("")
			f.Tag = reflect.StructTag(fmt.Sprintf(`hcl:"l%d,label"`, labels))
		case k < 19:
			if depth >= 3 {
				continue
			}
			name, ok := pickName()
			if !ok {
				continue
			}
			st := randStructType(r, depth+1+r.Intn(2))
			switch r.Intn(4) {
			case 0:
				f.Type = st
			case 1:
				f.Type = reflect.PointerTo(st)
			case 2:
				f.Type = reflect.SliceOf(st)
			default:
				f.Type = reflect.SliceOf(reflect.PointerTo(st))
			}
			f.Tag = reflect.StructTag(fmt.Sprintf(`hcl:"%s,block"`, name))
		default:
			f.Name = fmt.Sprintf("U%d", i)
			f.Type = reflect.TypeOf("")
		}
		fields = append(fields, f)
	}
	return reflect.StructOf(fields)
}
