package c16

import (
	"reflect"

	"github.com/hashicorp/hcl/v2"
	"github.com/zclconf/go-cty/cty"
)

// The fixed family of tagged struct types. Together they cover every gohcl tag kind (attr by bare name,
// ",attr", ",optional", ",label", ",block", ",remain", ",body", the range kinds) and every Go field type
// gohcl/gocty can encode (see the README paragraph in c16.go for the list).

// Scalars: required attributes of every primitive kind.
type Scalars struct {
	S   string  `hcl:"s"`
	I   int     `hcl:"i,attr"`
	I8  int8    `hcl:"i8"`
	I16 int16   `hcl:"i16"`
	I32 int32   `hcl:"i32"`
	I64 int64   `hcl:"i64"`
	U   uint    `hcl:"u"`
	U8  uint8   `hcl:"u8"`
	U64 uint64  `hcl:"u64"`
	F   float64 `hcl:"f"`
	F32 float32 `hcl:"f32"`
	B   bool    `hcl:"b"`
}

// Optionals: ",optional" attributes and pointers to primitives (absent when nil).
type Optionals struct {
	S  string   `hcl:"s,optional"`
	I  int      `hcl:"i,optional"`
	B  bool     `hcl:"b,optional"`
	F  float64  `hcl:"f,optional"`
	PS *string  `hcl:"ps"`
	PI *int     `hcl:"pi,attr"`
	PB *bool    `hcl:"pb,optional"`
	PF *float64 `hcl:"pf"`
	PU *uint16  `hcl:"pu,optional"`
}

// Obj is an attribute of object type (gocty struct mapping).
type Obj struct {
	A string   `cty:"a"`
	N int      `cty:"n"`
	L []string `cty:"l"`
}

// Collections: slices and maps as attributes.
type Collections struct {
	L        []string                     `hcl:"l"`
	LI       []int                        `hcl:"li,optional"`
	LB       []bool                       `hcl:"lb,optional"`
	M        map[string]string            `hcl:"m"`
	MI       map[string]int               `hcl:"mi,optional"`
	MF       map[string]float64           `hcl:"mf,optional"`
	LL       [][]string                   `hcl:"ll,optional"`
	ML       map[string][]string          `hcl:"ml,optional"`
	MM       map[string]map[string]string `hcl:"mm,optional"`
	LM       []map[string]string          `hcl:"lm,optional"`
	PL       *[]string                    `hcl:"pl"`
	PM       *map[string]int              `hcl:"pm"`
	O        Obj                          `hcl:"o"`
	PO       *Obj                         `hcl:"po"`
	LO       []Obj                        `hcl:"lo,optional"`
	MO       map[string]Obj               `hcl:"mo,optional"`
	Untagged string                       // no hcl tag: ignored by gohcl in both directions, kept zero
}

// Dynamic: cty.Value attributes.
type Dynamic struct {
	V  cty.Value  `hcl:"v"`
	OV cty.Value  `hcl:"ov,optional"`
	PV *cty.Value `hcl:"pv"`
}

// Inner is an unlabelled nested block.
type Inner struct {
	Name string            `hcl:"name"`
	N    *int              `hcl:"n"`
	Tags map[string]string `hcl:"tags,optional"`
}

// Blocks: every arity of unlabelled nested blocks.
type Blocks struct {
	Title string   `hcl:"title,optional"`
	Req   Inner    `hcl:"req,block"`
	Opt   *Inner   `hcl:"opt,block"`
	Many  []Inner  `hcl:"many,block"`
	ManyP []*Inner `hcl:"manyp,block"`
}

// L1 has one label.
type L1 struct {
	Name string `hcl:"name,label"`
	V    string `hcl:"v,optional"`
}

// L2 has two labels and nested labelled blocks.
type L2 struct {
	Type string            `hcl:"type,label"`
	Name string            `hcl:"name,label"`
	Tags map[string]string `hcl:"tags,optional"`
	Sub  []L1              `hcl:"sub,block"`
}

// Labelled: labelled blocks with one and two labels in every arity.
type Labelled struct {
	One  *L1   `hcl:"one,block"`
	Ones []L1  `hcl:"ones,block"`
	Twos []*L2 `hcl:"twos,block"`
	Req  L2    `hcl:"reqtwo,block"`
}

// Deep: blocks within blocks within blocks, attributes after blocks, interleaved declaration order.
type DeepLeaf struct {
	ID   string   `hcl:"id,label"`
	Vals []string `hcl:"vals,optional"`
	On   *bool    `hcl:"on"`
}
type DeepMid struct {
	Leaves []DeepLeaf `hcl:"leaf,block"`
	Note   string     `hcl:"note,optional"`
	Only   *DeepLeaf  `hcl:"only,block"`
	Kind   string     `hcl:"kind,label"`
	Count  int        `hcl:"count"`
}
type Deep struct {
	Mids  []*DeepMid `hcl:"mid,block"`
	Name  string     `hcl:"name"`
	First DeepMid    `hcl:"first,block"`
	Last  int        `hcl:"last,optional"`
	Extra []Blocks   `hcl:"extra,block"`
}

// Names: unusual attribute and block names (keywords, dashes, non-ASCII identifiers).
type NamesBlk struct {
	For string `hcl:"for,label"`
	In  int    `hcl:"in,optional"`
}
type Names struct {
	For     string            `hcl:"for"`
	If      *string           `hcl:"if"`
	In      []string          `hcl:"in,optional"`
	Null    map[string]string `hcl:"null,optional"`
	True    bool              `hcl:"true,optional"`
	XY      string            `hcl:"x-y,optional"`
	Uni     string            `hcl:"ünï_1,optional"`
	Dyn     []NamesBlk        `hcl:"dynamic,block"`
	Content *NamesBlk         `hcl:"content,block"`
	ForB    []NamesBlk        `hcl:"for_each,block"`
	Dash    []Inner           `hcl:"a-b,block"`
}

// Remain: a ",remain" body next to ordinary fields (the encoder ignores it; decoding sets the leftover body).
type RemainInner struct {
	K    string            `hcl:"k,label"`
	A    string            `hcl:"a,optional"`
	Rest map[string]string `hcl:",remain"`
}
type Remain struct {
	Name string        `hcl:"name"`
	N    *int          `hcl:"n"`
	In   []RemainInner `hcl:"in,block"`
	Rest hcl.Body      `hcl:",remain"`
}

// Meta: the tag kinds that receive syntax metadata or undecoded syntax (all ignored by the encoder).
type MetaBlk struct {
	L       string    `hcl:"l,label"`
	LRange  hcl.Range `hcl:"l,label_range"`
	Def     hcl.Range `hcl:",def_range"`
	TypeR   hcl.Range `hcl:",type_range"`
	A       string    `hcl:"a"`
	ARange  hcl.Range `hcl:"a,attr_range"`
	ANRange hcl.Range `hcl:"a,attr_name_range"`
	AVRange hcl.Range `hcl:"a,attr_value_range"`
	Whole   hcl.Body  `hcl:",body"`
}
type Meta struct {
	Name  string         `hcl:"name"`
	NameR hcl.Range      `hcl:"name,attr_range"`
	E     hcl.Expression `hcl:"e"`
	At    *hcl.Attribute `hcl:"at"`
	Blks  []MetaBlk      `hcl:"blk,block"`
	Whole hcl.Body       `hcl:",body"`
}

// RemainAttrs: a ",remain" field of type hcl.Attributes next to a block field.
type RemainAttrs struct {
	Name  string         `hcl:"name,optional"`
	Blk   []Inner        `hcl:"blk,block"`
	Attrs hcl.Attributes `hcl:",remain"`
}

// Mixed: a realistic configuration mixing everything.
type MixedSvc struct {
	Kind     string            `hcl:"kind,label"`
	Name     string            `hcl:"name,label"`
	Image    string            `hcl:"image"`
	Ports    []int             `hcl:"ports,optional"`
	Env      map[string]string `hcl:"env,optional"`
	Replicas *int              `hcl:"replicas"`
	Health   *Inner            `hcl:"health,block"`
	Mounts   []L1              `hcl:"mount,block"`
	Meta     cty.Value         `hcl:"meta,optional"`
}
type Mixed struct {
	Version  string            `hcl:"version"`
	Debug    bool              `hcl:"debug,optional"`
	Ratio    float64           `hcl:"ratio,optional"`
	Labels   map[string]string `hcl:"labels,optional"`
	Services []MixedSvc        `hcl:"service,block"`
	Default  *MixedSvc         `hcl:"default,block"`
	Limits   map[string]int    `hcl:"limits,optional"`
}

// ManyLabels: block types with four and five labels (in JSON: one nested object per label level).
type L4 struct {
	A string `hcl:"a,label"`
	B string `hcl:"b,label"`
	C string `hcl:"c,label"`
	D string `hcl:"d,label"`
	V int    `hcl:"v"`
}
type L5 struct {
	A string `hcl:"a,label"`
	B string `hcl:"b,label"`
	C string `hcl:"c,label"`
	D string `hcl:"d,label"`
	E string `hcl:"e,label"`
	N string `hcl:"n,optional"`
}
type ManyLabels struct {
	Rules []L4   `hcl:"rule,block"`
	Paths []*L5  `hcl:"path,block"`
	Note  string `hcl:"note,optional"`
}

// Empty has no fields at all.
type Empty struct{}

// OnlyBlocks has only optional content, so the empty document is a valid encoding.
type OnlyBlocks struct {
	A []Empty `hcl:"a,block"`
	B *Empty  `hcl:"b,block"`
	C Empty   `hcl:"c,block"`
}

type typeInfo struct {
	name string
	t    reflect.Type
}

// familyWeights gives the share of each family type in the round-trip stream.
var familyWeights = map[string]int{"Empty": 1, "OnlyBlocks": 3, "RemainAttrs": 3, "ManyLabels": 6}

var family = []typeInfo{
	{"Scalars", reflect.TypeOf(Scalars{})},
	{"Optionals", reflect.TypeOf(Optionals{})},
	{"Collections", reflect.TypeOf(Collections{})},
	{"Dynamic", reflect.TypeOf(Dynamic{})},
	{"Blocks", reflect.TypeOf(Blocks{})},
	{"Labelled", reflect.TypeOf(Labelled{})},
	{"Deep", reflect.TypeOf(Deep{})},
	{"Names", reflect.TypeOf(Names{})},
	{"Remain", reflect.TypeOf(Remain{})},
	{"Meta", reflect.TypeOf(Meta{})},
	{"RemainAttrs", reflect.TypeOf(RemainAttrs{})},
	{"Mixed", reflect.TypeOf(Mixed{})},
	{"ManyLabels", reflect.TypeOf(ManyLabels{})},
	{"Empty", reflect.TypeOf(Empty{})},
	{"OnlyBlocks", reflect.TypeOf(OnlyBlocks{})},
}

// blockFamily are the labelled block types used for the direct gohcl.EncodeAsBlock check.
var blockFamily = []typeInfo{
	{"L1", reflect.TypeOf(L1{})},
	{"L2", reflect.TypeOf(L2{})},
	{"DeepMid", reflect.TypeOf(DeepMid{})},
	{"MixedSvc", reflect.TypeOf(MixedSvc{})},
	{"Inner", reflect.TypeOf(Inner{})},
}

func typeByName(n string) (typeInfo, bool) {
	for _, ti := range family {
		if ti.name == n {
			return ti, true
		}
	}
	for _, ti := range blockFamily {
		if ti.name == n {
			return ti, true
		}
	}
	return typeInfo{}, false
}
