package c16

import (
	"fmt"
	"sort"

	"github.com/hashicorp/hcl/v2"
	"github.com/hashicorp/hcl/v2/gohcl"
	"github.com/hashicorp/hcl/v2/hclsyntax"
	hcljson "github.com/hashicorp/hcl/v2/json"
	"github.com/zclconf/go-cty/cty"

	"hx/lib"
)

// directedRemainMaps: the arguments a struct does not name, decoded into a map — through a `remain` field of map
// type and through gohcl.DecodeBody with a map target — for every kind of element type: values, pointers,
// cty.Value, hcl.Expression / *hcl.Attribute. Every entry must hold the value of its own argument, in both syntaxes.
func directedRemainMaps(cx *lib.Ctx) {
	res := cx.Res
	native := "name = \"web\"\nlevel = 3\nenv = \"prod\"\ntier = \"front\"\nzone = \"eu-1\"\n"
	js := `{"name": "web", "level": 3, "env": "prod", "tier": "front", "zone": "eu-1"}`
	nums := "a = 1\nb = 2\nc = 3\n"
	numsJS := `{"a": 1, "b": 2, "c": 3}`
	want := map[string]string{"env": "prod", "tier": "front", "zone": "eu-1"}
	wantNums := map[string]string{"a": "1", "b": "2", "c": "3"}
	show := func(m map[string]string) string {
		var ks []string
		for k := range m {
			ks = append(ks, k)
		}
		sort.Strings(ks)
		out := ""
		for _, k := range ks {
			out += k + "=" + m[k] + " "
		}
		return out
	}
	bodies := func(n, j string) map[string]hcl.Body {
		out := map[string]hcl.Body{}
		if f, d := hclsyntax.ParseConfig([]byte(n), "r.hcl", hcl.InitialPos); !d.HasErrors() {
			out["native"] = f.Body
		}
		if f, d := hcljson.Parse([]byte(j), "r.json"); !d.HasErrors() {
			out["json"] = f.Body
		}
		return out
	}
	check := func(kind, syn string, got, exp map[string]string, diags hcl.Diagnostics, src string) {
		res.Count("directed-remain:cases")
		res.Case("directed-remain|"+kind+"|"+syn, true)
		if diags.HasErrors() {
			res.Fail(lib.Failure{Kind: "oracle", Key: "decode-error:remain-map:" + kind, Desc: "decoding the remaining arguments into a map reports an error: " + diags.Error(), Input: kind + " from " + syn + ":\n" + src})
			return
		}
		if show(got) != show(exp) {
			res.Fail(lib.Failure{Kind: "oracle", Key: "roundtrip-differs:remain-map:" + kind, Desc: "the map of remaining arguments does not hold each argument's own value", Input: kind + " from " + syn + ":\n" + src, Impl: "got  " + show(got) + "\nwant " + show(exp)})
		}
	}
	for syn, body := range bodies(native, js) {
		src := native
		if syn == "json" {
			src = js
		}
		cx.Guard("remain-map", src, func() {
			var a struct {
				Name   string             `hcl:"name"`
				Level  *int               `hcl:"level"`
				Labels map[string]*string `hcl:",remain"`
			}
			d := gohcl.DecodeBody(body, nil, &a)
			got := map[string]string{}
			for k, v := range a.Labels {
				if v == nil {
					got[k] = "<nil>"
				} else {
					got[k] = *v
				}
			}
			check("map[string]*string", syn, got, want, d, src)

			var b struct {
				Name   string            `hcl:"name"`
				Level  int               `hcl:"level"`
				Labels map[string]string `hcl:",remain"`
			}
			d = gohcl.DecodeBody(body, nil, &b)
			check("map[string]string", syn, b.Labels, want, d, src)

			var c struct {
				Name   string               `hcl:"name"`
				Level  int                  `hcl:"level"`
				Labels map[string]cty.Value `hcl:",remain"`
			}
			d = gohcl.DecodeBody(body, nil, &c)
			got = map[string]string{}
			for k, v := range c.Labels {
				if v.Type() == cty.String && v.IsKnown() && !v.IsNull() {
					got[k] = v.AsString()
				} else {
					got[k] = lib.DumpValue(v)
				}
			}
			check("map[string]cty.Value", syn, got, want, d, src)

			var e struct {
				Name   string                    `hcl:"name"`
				Level  int                       `hcl:"level"`
				Labels map[string]*hcl.Attribute `hcl:",remain"`
			}
			d = gohcl.DecodeBody(body, nil, &e)
			got = map[string]string{}
			for k, at := range e.Labels {
				v, _ := at.Expr.Value(nil)
				if v.Type() == cty.String && v.IsKnown() && !v.IsNull() {
					got[k] = at.Name + ":" + v.AsString()
				}
			}
			check("map[string]*hcl.Attribute", syn, got, map[string]string{"env": "env:prod", "tier": "tier:front", "zone": "zone:eu-1"}, d, src)
		})
	}
	for syn, body := range bodies(nums, numsJS) {
		src := nums
		if syn == "json" {
			src = numsJS
		}
		cx.Guard("remain-map-target", src, func() {
			var m map[string]*int
			d := gohcl.DecodeBody(body, nil, &m)
			got := map[string]string{}
			for k, v := range m {
				if v == nil {
					got[k] = "<nil>"
				} else {
					got[k] = fmt.Sprint(*v)
				}
			}
			check("target map[string]*int", syn, got, wantNums, d, src)
			var m2 map[string]int
			d = gohcl.DecodeBody(body, nil, &m2)
			got = map[string]string{}
			for k, v := range m2 {
				got[k] = fmt.Sprint(v)
			}
			check("target map[string]int", syn, got, wantNums, d, src)
			var m3 map[string]**int
			d = gohcl.DecodeBody(body, nil, &m3)
			got = map[string]string{}
			for k, v := range m3 {
				if v == nil || *v == nil {
					got[k] = "<nil>"
				} else {
					got[k] = fmt.Sprint(**v)
				}
			}
			check("target map[string]**int", syn, got, wantNums, d, src)
		})
	}
}
