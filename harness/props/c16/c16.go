// Package c16 is the direct oracle for C16: gohcl struct encoding and decoding are inverse, in both syntaxes,
// and decoding any configuration content reports problems as diagnostics, never as a panic.
//
// Field types covered by the struct family (types.go): string, bool, every int/uint width, float32/64,
// pointers to primitives, []T, [][]T, map[string]T (T = string, int, float64, slices, maps, objects), gocty
// object structs, cty.Value and *cty.Value, nested struct blocks, *struct optional blocks, []struct and
// []*struct repeated blocks, blocks with 0/1/2 labels, blocks within blocks (3 levels), ",remain" (hcl.Body,
// hcl.Attributes, map), ",body", hcl.Expression / *hcl.Attribute attributes and all *_range kinds.
package c16

import (
	"encoding/json"
	"fmt"
	"math"
	"math/big"
	"reflect"
	"regexp"
	"runtime/debug"
	"sort"
	"strings"
	"time"

	"github.com/google/go-cmp/cmp"
	"github.com/google/go-cmp/cmp/cmpopts"
	"github.com/hashicorp/hcl/v2"
	"github.com/hashicorp/hcl/v2/gohcl"
	"github.com/hashicorp/hcl/v2/hclsimple"
	"github.com/hashicorp/hcl/v2/hclsyntax"
	"github.com/hashicorp/hcl/v2/hclwrite"
	hcljson "github.com/hashicorp/hcl/v2/json"
	"github.com/zclconf/go-cty/cty"
	"github.com/zclconf/go-cty/cty/function"
	"github.com/zclconf/go-cty/cty/function/stdlib"
	"golang.org/x/text/unicode/norm"

	"hx/lib"
)

func init() { lib.Register("C16", run) }

// ---- replayable inputs ----

type caseInput struct {
	Kind   string `json:"kind"` // "roundtrip" | "asblock" | "hand" | "decode"
	Type   string `json:"type"`
	VSeed  uint64 `json:"vseed,omitempty"`  // roundtrip / asblock: the value is regenerated from this seed
	Hand   int    `json:"hand,omitempty"`   // hand: index into handValues
	Value  string `json:"value,omitempty"`  // human-readable rendering of the value (not used by replay)
	Syntax string `json:"syntax,omitempty"` // decode: "hcl" | "json"
	Ctx    int    `json:"ctx,omitempty"`    // decode: 0 nil, 1 empty, 2 variables+functions, 3 also a marked variable
	Src    string `json:"src,omitempty"`    // decode: the configuration text
}

func (ci caseInput) String() string {
	b, _ := json.Marshal(ci)
	return string(b)
}

// describe renders a value in a Go-like notation with pointers followed.
func describe(v reflect.Value) string {
	var sb strings.Builder
	var rec func(v reflect.Value)
	rec = func(v reflect.Value) {
		t := v.Type()
		if t == ctyValueType {
			cv := v.Interface().(cty.Value)
			if cv == cty.NilVal {
				sb.WriteString("cty.NilVal")
			} else {
				sb.WriteString(lib.DumpValue(cv))
			}
			return
		}
		switch t.Kind() {
		case reflect.Ptr:
			if v.IsNil() {
				sb.WriteString("nil")
				return
			}
			sb.WriteString("&")
			rec(v.Elem())
		case reflect.Interface:
			if v.IsNil() {
				sb.WriteString("nil")
			} else {
				sb.WriteString("<" + v.Elem().Type().String() + ">")
			}
		case reflect.Struct:
			if t == rangeType {
				sb.WriteString("range")
				return
			}
			sb.WriteString(t.Name() + "{")
			for i := 0; i < t.NumField(); i++ {
				if i > 0 {
					sb.WriteString(", ")
				}
				sb.WriteString(t.Field(i).Name + ":")
				rec(v.Field(i))
			}
			sb.WriteString("}")
		case reflect.Slice:
			if v.IsNil() {
				sb.WriteString("nil")
				return
			}
			sb.WriteString("[")
			for i := 0; i < v.Len(); i++ {
				if i > 0 {
					sb.WriteString(", ")
				}
				rec(v.Index(i))
			}
			sb.WriteString("]")
		case reflect.Map:
			if v.IsNil() {
				sb.WriteString("nil")
				return
			}
			keys := v.MapKeys()
			sort.Slice(keys, func(i, j int) bool { return keys[i].String() < keys[j].String() })
			sb.WriteString("map{")
			for i, k := range keys {
				if i > 0 {
					sb.WriteString(", ")
				}
				fmt.Fprintf(&sb, "%q:", k.String())
				rec(v.MapIndex(k))
			}
			sb.WriteString("}")
		case reflect.String:
			fmt.Fprintf(&sb, "%q", v.String())
		default:
			fmt.Fprintf(&sb, "%v", v.Interface())
		}
	}
	rec(v)
	return sb.String()
}

// ---- comparison ----

var cmpOpts = []cmp.Option{
	cmpopts.EquateEmpty(),
	cmp.Comparer(func(a, b cty.Value) bool {
		if a == cty.NilVal || b == cty.NilVal {
			return a == b
		}
		return a.RawEquals(b)
	}),
	cmp.FilterPath(func(p cmp.Path) bool {
		t := p.Last().Type()
		return t == bodyType || t == exprType || t == attrPtrType || t == attrsType || t == rangeType
	}, cmp.Ignore()),
}

// diffKeyReporter derives the defect-class signature from the first difference: tag kind and Go type of the
// innermost struct field on the path, and whether a count / key set / leaf value differs.
type diffKeyReporter struct {
	path   cmp.Path
	key    string
	detail string
}

func (r *diffKeyReporter) PushStep(ps cmp.PathStep) { r.path = append(r.path, ps) }
func (r *diffKeyReporter) PopStep()                 { r.path = r.path[:len(r.path)-1] }
func (r *diffKeyReporter) Report(rs cmp.Result) {
	if rs.Equal() || r.key != "" {
		return
	}
	field := "root"
	for i := len(r.path) - 1; i >= 0; i-- {
		if sf, ok := r.path[i].(cmp.StructField); ok {
			parent := r.path[i-1].Type()
			for parent.Kind() == reflect.Ptr {
				parent = parent.Elem()
			}
			kind := "plain"
			if parent.Kind() == reflect.Struct {
				for _, fi := range fieldsOf(parent) {
					if fi.idx == sf.Index() {
						// a field without hcl tag on the path is a field of a gocty object struct
						kind = [...]string{"object-field", "attr", "label", "block", "remain", "body"}[fi.kind]
					}
				}
			}
			field = kind + ":" + strings.ReplaceAll(sf.Type().String(), "c16.", "")
			break
		}
	}
	what := "value"
	last := r.path.Last()
	vx, vy := last.Values()
	switch last := last.(type) {
	case cmp.SliceIndex:
		if x, y := last.SplitKeys(); x < 0 || y < 0 {
			what = "count"
			// go-cmp reports a heavily changed element as one removed and one inserted element
			if vx.IsValid() && y < 0 {
				switch {
				case anyString(vx, func(s string) bool { return strings.HasPrefix(s, bom) }):
					r.key = "leading-bom-dropped"
					return
				case anyString(vx, loneCR):
					what = "string-with-lone-cr"
				}
			}
		}
	case cmp.MapIndex:
		if !vx.IsValid() || !vy.IsValid() {
			what = "keys"
			// a key that was changed shows up as one missing and one extra key: look at the whole key set of
			// the original map
			k := last.Key().String()
			wantMap, _ := r.path.Index(-2).Values()
			var wantKeys []string
			if wantMap.IsValid() && wantMap.Kind() == reflect.Map {
				for _, mk := range wantMap.MapKeys() {
					wantKeys = append(wantKeys, mk.String())
				}
			}
			switch {
			case strings.HasPrefix(k, bom) && !vy.IsValid():
				r.key = "leading-bom-dropped"
				return
			case !vx.IsValid() && wantMap.IsValid() && wantMap.Kind() == reflect.Map && wantMap.MapIndex(reflect.ValueOf(bom+k)).IsValid():
				r.key = "leading-bom-dropped"
				return
			case loneCR(k):
				what = "string-with-lone-cr"
			case !vx.IsValid():
				for _, wk := range wantKeys {
					if loneCR(wk) {
						what = "string-with-lone-cr"
					}
				}
			}
		}
	}
	if vx.IsValid() && vy.IsValid() {
		switch {
		case vx.Kind() == reflect.Ptr && vx.IsNil() != vy.IsNil():
			what = "presence"
		case vx.Kind() == reflect.String && vy.Kind() == reflect.String:
			if vx.String() == bom+vy.String() {
				r.key = "leading-bom-dropped"
				return
			}
			if loneCR(vx.String()) {
				what = "string-with-lone-cr"
			}
		case vx.Type() == ctyValueType:
			what = ctyDiffKind(vx.Interface().(cty.Value), vy.Interface().(cty.Value))
			if i := strings.Index(what, "\n"); i >= 0 {
				r.detail = what[i+1:]
				what = what[:i]
			}
			if what == "leading-bom-dropped" {
				r.key = what
				return
			}
		}
	}
	r.key = field + ":" + what
}

const bom = "\ufeff"

// loneCR reports a carriage return that is not followed by a line feed.
func loneCR(s string) bool {
	for i := 0; i < len(s); i++ {
		if s[i] == '\r' && (i+1 == len(s) || s[i+1] != '\n') {
			return true
		}
	}
	return false
}

// anyString reports whether pred holds for some Go string or map key inside v.
func anyString(v reflect.Value, pred func(string) bool) bool {
	switch v.Kind() {
	case reflect.String:
		return pred(v.String())
	case reflect.Ptr, reflect.Interface:
		return !v.IsNil() && v.Kind() == reflect.Ptr && anyString(v.Elem(), pred)
	case reflect.Slice:
		for i := 0; i < v.Len(); i++ {
			if anyString(v.Index(i), pred) {
				return true
			}
		}
	case reflect.Map:
		for _, k := range v.MapKeys() {
			if anyString(k, pred) || anyString(v.MapIndex(k), pred) {
				return true
			}
		}
	case reflect.Struct:
		if v.Type() == ctyValueType || v.Type() == rangeType {
			return false
		}
		for i := 0; i < v.NumField(); i++ {
			if anyString(v.Field(i), pred) {
				return true
			}
		}
	}
	return false
}

// ctyDiffKind names the first difference between two cty values.
func ctyDiffKind(a, b cty.Value) (kind string) {
	defer func() {
		if !strings.Contains(kind, "\n") && (a.Type().IsPrimitiveType() || a.IsNull()) {
			kind += "\n" + lib.DumpValue(a) + " became " + lib.DumpValue(b)
		}
	}()
	if a == cty.NilVal || b == cty.NilVal {
		return "nilval"
	}
	if a.IsNull() != b.IsNull() {
		return "null"
	}
	if !a.Type().Equals(b.Type()) {
		at, bt := a.Type(), b.Type()
		switch {
		case at.IsObjectType() && bt.IsObjectType():
			for k := range at.AttributeTypes() {
				if !bt.HasAttribute(k) {
					if strings.HasPrefix(k, bom) {
						return "leading-bom-dropped"
					}
					if loneCR(k) {
						return "string-with-lone-cr"
					}
					return "object-keys"
				}
			}
			for k := range bt.AttributeTypes() {
				if !at.HasAttribute(k) {
					return "object-keys"
				}
			}
		case at.IsTupleType() && bt.IsTupleType():
			if at.Length() != bt.Length() {
				return "tuple-length"
			}
		default:
			return "type"
		}
	}
	if a.IsNull() {
		return "null-type"
	}
	t := a.Type()
	switch {
	case t == cty.String:
		if a.AsString() == bom+b.AsString() {
			return "leading-bom-dropped"
		}
		if loneCR(a.AsString()) {
			return "string-with-lone-cr"
		}
		return "string"
	case t == cty.Number:
		fa, _ := a.AsBigFloat().Float64()
		fb, _ := b.AsBigFloat().Float64()
		if a.AsBigFloat().IsInt() && b.AsBigFloat().IsInt() {
			rel := new(big.Float).Quo(new(big.Float).Sub(a.AsBigFloat(), b.AsBigFloat()), a.AsBigFloat())
			relf, _ := rel.Float64()
			if math.Abs(relf) < 1e-14 && a.AsBigFloat().Prec() < 64 {
				// hclwrite writes the shortest decimal text that identifies the number at its own precision,
				// zero-padded: for an integer held at float64 precision that is a different integer
				return "number-integer-digits-lost"
			}
		}
		if fa == fb {
			return "number-precision"
		}
		return "number"
	case t == cty.Bool:
		return "bool"
	case t.IsTupleType():
		ita, itb := a.ElementIterator(), b.ElementIterator()
		for ita.Next() && itb.Next() {
			_, ea := ita.Element()
			_, eb := itb.Element()
			if !ea.RawEquals(eb) {
				return ctyDiffKind(ea, eb)
			}
		}
	case t.IsObjectType():
		for k := range t.AttributeTypes() {
			ea, eb := a.GetAttr(k), b.GetAttr(k)
			if !ea.RawEquals(eb) {
				return ctyDiffKind(ea, eb)
			}
		}
	}
	return "value"
}

// compare returns "" when got reproduces want (modulo the normalisation documented in gen.go).
func compare(want, got reflect.Value) (key, diff string) {
	rep := &diffKeyReporter{}
	if cmp.Equal(want.Interface(), got.Interface(), append([]cmp.Option{cmp.Reporter(rep)}, cmpOpts...)...) {
		return "", ""
	}
	diff = cmp.Diff(want.Interface(), got.Interface(), cmpOpts...)
	if rep.detail != "" {
		diff = rep.detail + "\n" + diff
	}
	return rep.key, diff
}

// checkSyntaxFields checks the fields that hold syntax: a ",remain" field of a value encoded from a struct
// must come back without content, an hcl.Expression attribute that was not written must evaluate to null.
func checkSyntaxFields(v reflect.Value) string {
	t := v.Type()
	switch t.Kind() {
	case reflect.Ptr:
		if v.IsNil() || t == attrPtrType {
			return ""
		}
		return checkSyntaxFields(v.Elem())
	case reflect.Slice:
		for i := 0; i < v.Len(); i++ {
			if s := checkSyntaxFields(v.Index(i)); s != "" {
				return s
			}
		}
	case reflect.Struct:
		if t == ctyValueType || t == rangeType {
			return ""
		}
		for _, fi := range fieldsOf(t) {
			f := v.Field(fi.idx)
			switch {
			case fi.kind == fkRemain && f.Type() == bodyType:
				if f.IsNil() {
					return "remain-body-nil"
				}
				// nothing must remain: the leftover body conforms to the empty schema
				if _, diags := f.Interface().(hcl.Body).Content(&hcl.BodySchema{}); diags.HasErrors() {
					return "remain-not-empty"
				}
			case fi.kind == fkRemain && f.Type() == attrsType:
				if f.Len() != 0 {
					return "remain-not-empty"
				}
			case fi.kind == fkBody:
				if f.IsNil() {
					return "body-field-nil"
				}
			case fi.kind == fkAttr && f.Type() == exprType:
				if f.IsNil() {
					return "expression-field-nil"
				}
				val, diags := f.Interface().(hcl.Expression).Value(nil)
				if diags.HasErrors() || !val.IsNull() {
					return "expression-field-not-null"
				}
			case fi.kind == fkAttr && f.Type() == attrPtrType:
				if !f.IsNil() {
					return "attribute-field-set"
				}
			case fi.kind == fkBlock:
				if s := checkSyntaxFields(f); s != "" {
					return s
				}
			}
		}
	}
	return ""
}

// smallestKeyIsFor reports whether the value contains a non-empty map / object whose smallest key is "for".
func smallestKeyIsFor(v reflect.Value) bool {
	t := v.Type()
	if t == ctyValueType {
		cv := v.Interface().(cty.Value)
		if cv == cty.NilVal {
			return false
		}
		found := false
		_ = cty.Walk(cv, func(_ cty.Path, x cty.Value) (bool, error) {
			if !x.IsNull() && x.IsKnown() && (x.Type().IsMapType() || x.Type().IsObjectType()) && x.LengthInt() > 0 {
				it := x.ElementIterator()
				it.Next()
				k, _ := it.Element()
				if k.AsString() == "for" {
					found = true
				}
			}
			return true, nil
		})
		return found
	}
	switch t.Kind() {
	case reflect.Ptr, reflect.Interface:
		if v.IsNil() || t.Kind() == reflect.Interface {
			return false
		}
		return smallestKeyIsFor(v.Elem())
	case reflect.Slice:
		for i := 0; i < v.Len(); i++ {
			if smallestKeyIsFor(v.Index(i)) {
				return true
			}
		}
	case reflect.Map:
		if t == attrsType || v.Len() == 0 {
			return false
		}
		min := ""
		first := true
		for _, k := range v.MapKeys() {
			ks := norm.NFC.String(k.String())
			if first || ks < min {
				min, first = ks, false
			}
			if smallestKeyIsFor(v.MapIndex(k)) {
				return true
			}
		}
		return min == "for"
	case reflect.Struct:
		if t == rangeType {
			return false
		}
		for i := 0; i < t.NumField(); i++ {
			if smallestKeyIsFor(v.Field(i)) {
				return true
			}
		}
	}
	return false
}

var quotedRe = regexp.MustCompile(`"[^"]*"\s*`)

// firstError is the summary of the first error, without the quoted names it may mention.
func firstError(diags hcl.Diagnostics) string {
	for _, d := range diags {
		if d.Severity == hcl.DiagError {
			return quotedRe.ReplaceAllString(d.Summary, "")
		}
	}
	return ""
}

// findKey reports whether pred holds for the key set of some map (Go map, cty map or cty object) inside v.
func findKey(v reflect.Value, pred func(keys []string) bool) bool {
	t := v.Type()
	if t == ctyValueType {
		cv := v.Interface().(cty.Value)
		if cv == cty.NilVal {
			return false
		}
		found := false
		_ = cty.Walk(cv, func(_ cty.Path, x cty.Value) (bool, error) {
			if !x.IsNull() && x.IsKnown() && (x.Type().IsMapType() || x.Type().IsObjectType()) {
				var ks []string
				for it := x.ElementIterator(); it.Next(); {
					k, _ := it.Element()
					ks = append(ks, k.AsString())
				}
				if pred(ks) {
					found = true
				}
			}
			return true, nil
		})
		return found
	}
	switch t.Kind() {
	case reflect.Ptr:
		if v.IsNil() || t == attrPtrType {
			return false
		}
		return findKey(v.Elem(), pred)
	case reflect.Slice:
		for i := 0; i < v.Len(); i++ {
			if findKey(v.Index(i), pred) {
				return true
			}
		}
	case reflect.Map:
		if t == attrsType {
			return false
		}
		var ks []string
		for _, k := range v.MapKeys() {
			ks = append(ks, norm.NFC.String(k.String()))
			if findKey(v.MapIndex(k), pred) {
				return true
			}
		}
		return pred(ks)
	case reflect.Struct:
		if t == rangeType {
			return false
		}
		for i := 0; i < t.NumField(); i++ {
			if findKey(v.Field(i), pred) {
				return true
			}
		}
	}
	return false
}

func anyKeyWithBOM(ks []string) bool {
	for _, k := range ks {
		if strings.HasPrefix(k, bom) {
			return true
		}
	}
	return false
}

func bomKeyCollision(ks []string) bool {
	set := map[string]bool{}
	for _, k := range ks {
		set[k] = true
	}
	for _, k := range ks {
		if strings.HasPrefix(k, bom) && set[strings.TrimPrefix(k, bom)] {
			return true
		}
	}
	return false
}

// hasAttrsRemain reports whether the type (or a block type inside it) has a ",remain" field that takes
// attributes (hcl.Attributes or a map) next to block fields.
func hasAttrsRemain(t reflect.Type, depth int) bool {
	for t.Kind() == reflect.Ptr || t.Kind() == reflect.Slice {
		t = t.Elem()
	}
	if t.Kind() != reflect.Struct || depth > 6 {
		return false
	}
	rem, blk := false, false
	for _, fi := range fieldsOf(t) {
		ft := t.Field(fi.idx).Type
		if fi.kind == fkRemain && (ft == attrsType || ft.Kind() == reflect.Map) {
			rem = true
		}
		if fi.kind == fkBlock {
			blk = true
			if hasAttrsRemain(ft, depth+1) {
				return true
			}
		}
	}
	return rem && blk
}

func asDiags(err error) hcl.Diagnostics {
	if err == nil {
		return nil
	}
	if d, ok := err.(hcl.Diagnostics); ok {
		return d
	}
	return hcl.Diagnostics{{Severity: hcl.DiagError, Summary: "non-diagnostics error", Detail: err.Error()}}
}

// guard is cx.Guard with a key refined by the panic message (so that distinct panics get distinct keys).
func guard(cx *lib.Ctx, stage string, input string, f func()) (ok bool) {
	defer func() {
		if r := recover(); r != nil {
			msg := fmt.Sprintf("%v", r)
			class := "other"
			switch {
			case strings.Contains(msg, "marked"):
				class = "marked-value"
			case strings.Contains(msg, "nil pointer"):
				class = "nil-pointer"
			case strings.Contains(msg, "index out of range"), strings.Contains(msg, "slice bounds"):
				class = "index-out-of-range"
			case strings.Contains(msg, "unknown"):
				class = "unknown-value"
			case strings.Contains(msg, "reflect"):
				class = "reflect"
			}
			cx.Res.Fail(lib.Failure{Kind: "oracle", Key: "panic:" + stage + ":" + class, Desc: fmt.Sprintf("panic: %v\n%s", r, lib.Trunc(string(debug.Stack()), 2500)), Input: input})
			ok = false
		}
	}()
	f()
	return true
}

// ---- the round trip oracle ----

// decodeAndCompare checks one decoding of one document of one syntax against the expected value.
func decodeAndCompare(cx *lib.Ctx, in string, how string, ti reflect.Type, want reflect.Value, src string, dec func(target interface{}) hcl.Diagnostics) bool {
	got := reflect.New(ti)
	var diags hcl.Diagnostics
	if !guard(cx, "decode-"+how, in, func() { diags = dec(got.Interface()) }) {
		return false
	}
	if diags.HasErrors() {
		key := "decode-error:" + how + ":" + firstError(diags)
		sum := firstError(diags)
		switch {
		case strings.HasPrefix(sum, "Unexpected") && strings.HasSuffix(sum, "block") && hasAttrsRemain(ti, 0):
			// hclsyntax.Body.JustAttributes ignores hiddenBlocks: a ",remain" attributes field rejects the
			// blocks that the other fields have already decoded
			key = "decode-error:" + how + ":remain-attributes-reject-decoded-blocks"
		case strings.HasSuffix(how, "json-template") && sum == "Duplicate object attribute" && findKey(want, bomKeyCollision):
			key = "leading-bom-dropped:" + how
		}
		cx.Res.Fail(lib.Failure{Kind: "oracle", Key: key, Desc: "decoding the document of a struct value reports errors: " + diags.Error(), Input: in, Impl: src})
		return false
	}
	if key, diff := compare(want, got); key != "" {
		key = "value-changed:" + how + ":" + key
		if strings.HasSuffix(key, ":leading-bom-dropped") {
			key = "leading-bom-dropped:" + how
		}
		if strings.HasSuffix(key, ":number-integer-digits-lost") {
			key = "value-changed:" + how + ":cty-number-integer-digits-lost"
		}
		if strings.HasSuffix(key, ":string-with-lone-cr") {
			// in template mode the scanner takes everything after a lone CR up to the end of the line as one
			// literal: escapes and interpolations are not recognised there
			key = "lone-cr-disables-template-sequences:" + how
		}
		cx.Res.Fail(lib.Failure{Kind: "oracle", Key: key, Desc: "the decoded value differs from the original (-want +got):\n" + lib.Trunc(diff, 3000), Input: in, Impl: src})
		return false
	}
	if s := checkSyntaxFields(got); s != "" {
		cx.Res.Fail(lib.Failure{Kind: "oracle", Key: s + ":" + how, Desc: "a field holding syntax is not what decoding an encoded value must give", Input: in, Impl: src})
		return false
	}
	return true
}

// roundTrip runs the whole property on the value generated from vseed. asBlock checks gohcl.EncodeAsBlock
// directly: the value is encoded as a block "blk" and decoded through a one-field wrapper struct.
func roundTrip(cx *lib.Ctx, ti typeInfo, vseed uint64, asBlock bool, stats map[string]int) (canon string, nontrivial bool) {
	return roundTripOf(cx, ti, func(st map[string]int) reflect.Value { return newValue(ti, lib.NewRand(vseed), st) }, caseInput{Kind: "roundtrip", VSeed: vseed}, asBlock, stats)
}

// handValues are values kept because they exercise one specific path each (every known finding has one, so
// that it is reported by every run, not only when the random stream happens to reach it).
var handValues = []struct {
	typ string
	mk  func() interface{}
}{
	{"Collections", func() interface{} { return &Collections{L: []string{"x"}, M: map[string]string{"for": "x", "if": "y"}} }},
	{"Collections", func() interface{} { return &Collections{L: []string{}, M: map[string]string{"\ufeffa": "x"}} }},
	{"Scalars", func() interface{} { return &Scalars{S: "\ufeffx"} }},
	{"Scalars", func() interface{} { return &Scalars{S: "\r$${"} }},
	{"Dynamic", func() interface{} {
		return &Dynamic{V: cty.NumberFloatVal(1e23), OV: cty.NullVal(cty.DynamicPseudoType)}
	}},
	{"RemainAttrs", func() interface{} { return &RemainAttrs{Name: "n", Blk: []Inner{{Name: "a"}}} }},
	{"Scalars", func() interface{} {
		return &Scalars{S: "plain \"quoted\" ${not} %{not} $${x} \\ \n\t é 日本 \x00", I: -1, I8: -128, U64: 1<<64 - 1, F: 0.1, F32: 0.1, B: true}
	}},
	{"Labelled", func() interface{} {
		return &Labelled{Ones: []L1{{Name: "a"}, {Name: "a"}, {Name: ""}}, Twos: []*L2{{Type: "for", Name: "${x}", Sub: []L1{{Name: "s", V: "v"}}}, nil}, Req: L2{Type: "t", Name: "n"}}
	}},
	{"Blocks", func() interface{} { return &Blocks{} }},
}

func roundTripOf(cx *lib.Ctx, ti typeInfo, mk func(stats map[string]int) reflect.Value, ci caseInput, asBlock bool, stats map[string]int) (canon string, nontrivial bool) {
	orig := mk(stats)
	want := mk(nil)
	normalise(want.Elem())
	vseed := ci.VSeed + uint64(ci.Hand)*7919
	aux := lib.NewRand(vseed ^ 0x5bd1e995)
	ci.Type = ti.name
	ci.Value = lib.Trunc(describe(orig.Elem()), 4000)
	decT := ti.t
	if asBlock {
		ci.Kind = "asblock"
		decT = reflect.StructOf([]reflect.StructField{{Name: "Blk", Type: ti.t, Tag: `hcl:"blk,block"`}})
		w := reflect.New(decT)
		w.Elem().Field(0).Set(want.Elem())
		want = w
	}
	in := ci.String()

	// 1. encode
	var src []byte
	if !guard(cx, "encode", in, func() {
		f := hclwrite.NewEmptyFile()
		if asBlock {
			f.Body().AppendBlock(gohcl.EncodeAsBlock(orig.Interface(), "blk"))
		} else {
			gohcl.EncodeIntoBody(orig.Interface(), f.Body())
		}
		src = f.Bytes()
	}) {
		return in, true
	}
	canon = ti.name + "\n" + string(src)
	nontrivial = len(strings.TrimSpace(string(src))) > 0

	// 2. the encoded source parses
	file, diags := hclsyntax.ParseConfig(src, "c16.hcl", hcl.InitialPos)
	if diags.HasErrors() {
		key := "unparseable:" + firstError(diags)
		switch {
		case smallestKeyIsFor(orig):
			key = "unparseable:map-first-key-for"
		case firstError(diags) == "Invalid character" && findKey(orig, anyKeyWithBOM):
			// hclsyntax.ValidIdentifier strips a leading byte order mark, so TokensForValue writes the key bare
			key = "unparseable:map-key-leading-bom"
		}
		cx.Res.Fail(lib.Failure{Kind: "oracle", Key: key, Desc: "the encoded source does not parse: " + diags.Error(), Input: in, Impl: string(src)})
		return
	}

	// 3. decoding the source reproduces the value (nil and empty EvalContext; gohcl and hclsimple)
	var ctx *hcl.EvalContext
	if aux.Chance(1, 2) {
		ctx = &hcl.EvalContext{}
	}
	if !decodeAndCompare(cx, in, "hcl", decT, want, string(src), func(t interface{}) hcl.Diagnostics { return gohcl.DecodeBody(file.Body, ctx, t) }) {
		return
	}
	if !decodeAndCompare(cx, in, "hclsimple-hcl", decT, want, string(src), func(t interface{}) hcl.Diagnostics {
		return asDiags(hclsimple.Decode("c16.hcl", src, ctx, t))
	}) {
		return
	}

	// 4. the equivalent JSON document gives the same value: literally with a nil context, and with template
	// evaluation (escaped introducers) with a non-nil context
	origW := orig
	if asBlock {
		origW = reflect.New(decT)
		origW.Elem().Field(0).Set(orig.Elem())
	}
	for _, tmpl := range []bool{false, true} {
		db := &docBuilder{r: aux.Fork(), tmpl: tmpl}
		doc := renderJSON(aux.Fork(), db.body(origW.Elem()))
		var jctx *hcl.EvalContext
		how := "json-literal"
		if tmpl {
			jctx = &hcl.EvalContext{}
			how = "json-template"
		}
		jf, jdiags := hcljson.Parse([]byte(doc), "c16.json")
		if jdiags.HasErrors() {
			cx.Res.Fail(lib.Failure{Kind: "oracle", Key: "json-unparseable:" + firstError(jdiags), Desc: "the equivalent JSON document does not parse: " + jdiags.Error(), Input: in, Impl: doc})
			return
		}
		if !decodeAndCompare(cx, in, how, decT, want, doc, func(t interface{}) hcl.Diagnostics { return gohcl.DecodeBody(jf.Body, jctx, t) }) {
			return
		}
		if !decodeAndCompare(cx, in, "hclsimple-"+how, decT, want, doc, func(t interface{}) hcl.Diagnostics {
			return asDiags(hclsimple.Decode("C16.JSON", []byte(doc), jctx, t))
		}) {
			return
		}
	}
	return
}

// ---- the ill-formed stream ----

func decodeCtx(kind int) *hcl.EvalContext {
	switch kind {
	case 0:
		return nil
	case 1:
		return &hcl.EvalContext{}
	}
	vars := map[string]cty.Value{
		"x":   cty.StringVal("ex"),
		"k":   cty.StringVal("key"),
		"n":   cty.NumberIntVal(3),
		"u":   cty.UnknownVal(cty.String),
		"un":  cty.UnknownVal(cty.Number),
		"d":   cty.DynamicVal,
		"lst": cty.ListVal([]cty.Value{cty.StringVal("a"), cty.StringVal("b")}),
		"obj": cty.ObjectVal(map[string]cty.Value{"name": cty.StringVal("nm"), "n": cty.NumberIntVal(1), "tags": cty.MapValEmpty(cty.String)}),
		"nul": cty.NullVal(cty.String),
	}
	if kind == 3 {
		vars["m"] = cty.StringVal("secret").Mark("sensitive")
		vars["ml"] = cty.ListVal([]cty.Value{cty.StringVal("a").Mark("s")})
	}
	return &hcl.EvalContext{Variables: vars, Functions: map[string]function.Function{"upper": stdlib.UpperFunc, "length": stdlib.LengthFunc, "tostring": stdlib.MakeToFunc(cty.String)}}
}

// decodeAny decodes arbitrary content into a family type; the only requirement is "no panic".
func decodeAny(cx *lib.Ctx, ti typeInfo, syntax string, src string, ctxKind int) (hadErrors bool) {
	ci := caseInput{Kind: "decode", Type: ti.name, Syntax: syntax, Ctx: ctxKind, Src: src}
	in := ci.String()
	ctx := decodeCtx(ctxKind)
	guard(cx, "decode-"+syntax, in, func() {
		var file *hcl.File
		var diags hcl.Diagnostics
		name := "c16.hcl"
		if syntax == "json" {
			name = "c16.json"
			file, diags = hcljson.Parse([]byte(src), name)
		} else {
			file, diags = hclsyntax.ParseConfig([]byte(src), name, hcl.InitialPos)
		}
		hadErrors = diags.HasErrors()
		if file != nil && file.Body != nil {
			// the partial body of a file with syntax errors is decoded as well: gohcl documents that a careful
			// caller may do that
			target := reflect.New(ti.t)
			d := gohcl.DecodeBody(file.Body, ctx, target.Interface())
			hadErrors = hadErrors || d.HasErrors()
			for _, x := range d {
				_ = x.Error()
			}
		}
		target := reflect.New(ti.t)
		err := hclsimple.Decode(name, []byte(src), ctx, target.Interface())
		if (err != nil) != hadErrors {
			cx.Res.Fail(lib.Failure{Kind: "oracle", Key: "hclsimple-disagrees-with-gohcl:" + syntax, Desc: fmt.Sprintf("hclsimple.Decode error=%v but parse+gohcl.DecodeBody errors=%v", err, hadErrors), Input: in})
		}
	})
	return hadErrors
}

var wrongExprs = []string{
	"null", `"str"`, "1", "true", "[]", "{}", `[1, "a"]`, "{ a = 1 }", "x", "u", "un", "d", "m", "ml", "nul", "obj", "lst", "x.y.z", "f(1)", `upper("a")`, `"${x}"`, `"${u}-"`,
	"[for v in lst: v]", "{for v in lst: v => v}", "lst[*]", "obj[*].name", "ml[*]", "1/0", "-1", "1e400", "256", "-129", "3.5", `"1"`, `"true"`, "<<EOT\nhi ${x}\nEOT", "undefined", "[u]", "[d]", "{ (k) = u }", "{ a = d }",
	"[null]", "{ a = null }", `{ "" = "" }`, "[[]]", "[{}]", "18446744073709551616", "-9223372036854775809", "0.5", `tostring(null)`, "length(d)", "x ? 1 : \"a\"", "u ? lst : d", "[m]", "{ a = m }", "{ (m) = 1 }",
}

// mutateHCL applies 1-3 line-level structural edits to an encoded source: wrong types, missing required
// attributes, duplicated attributes and blocks, extra and missing labels, unexpected items.
func mutateHCL(r *lib.Rand, src string, marked bool) string {
	lines := strings.Split(strings.TrimRight(src, "\n"), "\n")
	pickExpr := func() string {
		for {
			e := wrongExprs[r.Intn(len(wrongExprs))]
			if !marked && (strings.Contains(e, "m]") || e == "m" || e == "ml" || strings.Contains(e, "= m") || strings.Contains(e, "(m)") || strings.Contains(e, "ml[")) {
				continue
			}
			return e
		}
	}
	for k := 1 + r.Intn(3); k > 0; k-- {
		if len(lines) == 0 {
			lines = append(lines, "")
		}
		i := r.Intn(len(lines))
		ln := lines[i]
		isAttr := strings.Contains(ln, " = ") && !strings.HasSuffix(ln, "{")
		isHeader := strings.HasSuffix(ln, "{") && !strings.Contains(ln, "=")
		switch r.Intn(8) {
		case 0, 1, 2:
			if isAttr {
				p := strings.Index(ln, " = ")
				lines[i] = ln[:p] + " = " + pickExpr()
			} else {
				lines[i] = ln + " "
			}
		case 3:
			lines = append(lines[:i:i], lines[i+1:]...)
		case 4:
			if isHeader {
				// duplicate the whole block
				indent := len(ln) - len(strings.TrimLeft(ln, " "))
				j := i + 1
				for j < len(lines) && !(strings.TrimLeft(lines[j], " ") == "}" && len(lines[j])-1 == indent) {
					j++
				}
				if j < len(lines) {
					blk := append([]string{}, lines[i:j+1]...)
					lines = append(lines[:j+1:j+1], append(blk, lines[j+1:]...)...)
				}
			} else {
				lines = append(lines[:i+1:i+1], append([]string{ln}, lines[i+1:]...)...)
			}
		case 5:
			if isHeader {
				f := strings.Fields(ln)
				switch {
				case len(f) > 2 && r.Chance(1, 2):
					// drop the last label (labels with spaces make this arbitrary surgery, which is fine)
					lines[i] = strings.Join(append(f[:len(f)-2:len(f)-2], "{"), " ")
				default:
					lines[i] = strings.TrimSuffix(ln, "{") + r.Pick([]string{`"extra"`, "bare", `""`, `"${x}"`}) + " {"
				}
			}
		case 6:
			ins := r.Pick([]string{"extra = 1", "extra {}", "name = 1", `req "l" {}`, "many {\n}", "sub {}", `one "a" "b" {}`, "s = null", "leaf {}", `dynamic "many" {}`, "= 1", "a.b = 1", `"q" = 1`})
			lines = append(lines[:i:i], append([]string{ins}, lines[i:]...)...)
		default:
			if isAttr {
				p := strings.Index(ln, " = ")
				lines[i] = ln[:p] + " = [" + ln[p+3:] + "]"
			}
		}
	}
	return strings.Join(lines, "\n") + "\n"
}

func encodeHCL(v reflect.Value) (src string, ok bool) {
	defer func() {
		if recover() != nil {
			ok = false
		}
	}()
	f := hclwrite.NewEmptyFile()
	gohcl.EncodeIntoBody(v.Interface(), f.Body())
	return string(f.Bytes()), true
}

// handIllFormed are ill-formed (or merely unusual) contents kept because they exercise a specific path.
var handIllFormed = []struct {
	typ, syntax, src string
	ctx              int
}{
	{"Scalars", "hcl", "s = m\n", 3},
	{"Collections", "hcl", "l = ml\nm = { a = m }\n", 3},
	{"Dynamic", "hcl", "v = m\n", 3},
	{"Scalars", "json", `{"s": "${m}"}`, 3},
	{"Scalars", "hcl", "s = u\ni = un\nb = d\n", 2},
	{"Collections", "hcl", "l = [u]\nm = { a = d }\no = d\n", 2},
	{"Dynamic", "hcl", "v = u\nov = d\npv = [u, d]\n", 2},
	{"Optionals", "hcl", "ps = null\npi = null\ni = null\n", 0},
	{"Scalars", "hcl", "i8 = 128\nu8 = -1\nu64 = 18446744073709551616\ni = 0.5\nf32 = 1e400\n", 0},
	{"Labelled", "hcl", "reqtwo \"a\" {}\nreqtwo \"a\" \"b\" \"c\" {}\none {}\n", 0},
	{"Labelled", "json", `{"reqtwo": {"a": 1}, "one": [1, null, "x"], "ones": {"a": [[]]}, "twos": {"": {"": null}}}`, 1},
	{"Blocks", "json", `{"req": [], "opt": [{}, {}], "many": "x", "manyp": [null, 1]}`, 0},
	{"Blocks", "json", `[{"req": {"name": "a"}}, {"req": {"name": "b"}}, 3]`, 0},
	{"Deep", "hcl", "first \"k\" {\n  count = 1\n  leaf {}\n  only \"a\" \"b\" {}\n}\nname = 1\nmid {}\n", 0},
	{"Remain", "hcl", "name = \"a\"\nother = 1\nin \"k\" {\n  b = 1\n  sub {}\n}\nblk {}\n", 0},
	{"RemainAttrs", "hcl", "x = 1\nblk {\n  name = \"a\"\n}\nother {}\n", 0},
	{"Meta", "hcl", "name = \"a\"\ne = 1 + x\nat = f()\nblk \"l\" {\n  a = \"1\"\n}\n", 0},
	{"Empty", "hcl", "a = 1\nb {}\n", 0},
	{"Empty", "json", `{"//": "comment", "a": 1}`, 0},
	{"Mixed", "json", `{"version": {"a": 1}, "service": {"k": {"n": {"image": ["x"], "ports": "1", "env": ["a"], "meta": {"${u}": 1}}}}}`, 2},
	{"Names", "hcl", "for = for\nif = [for x in lst: x if x]\n", 2},
	{"Scalars", "hcl", "", 0},
	{"Scalars", "json", "", 0},
	{"Scalars", "json", "null", 0},
	{"Scalars", "json", `{"s": "\ud800"}`, 0},
}

// ---- runner ----

func replay(cx *lib.Ctx) {
	raw := lib.ReplayInput(cx.Replay)
	var ci caseInput
	if err := json.Unmarshal([]byte(raw), &ci); err != nil {
		cx.Res.Fail(lib.Failure{Kind: "oracle", Key: "replay-input", Desc: "cannot read the replay input: " + err.Error(), Input: raw})
		return
	}
	ti, ok := typeByName(ci.Type)
	if !ok {
		cx.Res.Fail(lib.Failure{Kind: "oracle", Key: "replay-input", Desc: "unknown struct type " + ci.Type, Input: raw})
		return
	}
	switch ci.Kind {
	case "hand":
		if ci.Hand < 0 || ci.Hand >= len(handValues) {
			cx.Res.Fail(lib.Failure{Kind: "oracle", Key: "replay-input", Desc: "no such hand value", Input: raw})
			return
		}
		h := handValues[ci.Hand]
		canon, nt := roundTripOf(cx, ti, func(map[string]int) reflect.Value { return reflect.ValueOf(h.mk()) }, caseInput{Kind: "hand", Hand: ci.Hand}, false, nil)
		cx.Res.Case(canon, nt)
		cx.Res.Sample(canon)
	case "roundtrip", "asblock":
		canon, nt := roundTrip(cx, ti, ci.VSeed, ci.Kind == "asblock", nil)
		cx.Res.Case(canon, nt)
		cx.Res.Sample(canon)
	default:
		decodeAny(cx, ti, ci.Syntax, ci.Src, ci.Ctx)
		cx.Res.Case(ci.Src, true)
		cx.Res.Sample(ci.Src)
	}
}

func run(cx *lib.Ctx) {
	res := cx.Res
	res.Rule = "values of a fixed family of 14 tagged struct types (every gohcl tag kind and encodable Go field type) filled reflectively from the seed with strings over the escape-relevant alphabet, keyword / non-identifier map keys, nil / empty / repeated slices, maps, pointers and blocks; each value is encoded with gohcl+hclwrite, decoded from the native source and from two independently written equivalent JSON documents (literal and template-escaped) through gohcl.DecodeBody and hclsimple.Decode and compared with go-cmp modulo NFC and nil/empty identification; a second stream decodes byte-mutated, structurally mutated (wrong types, missing / duplicate / extra items, wrong label counts), cross-type and random configurations of both syntaxes into every type and only requires diagnostics instead of panics; non-trivial = non-empty encoded source (round trip) / at least one error diagnostic (ill-formed stream); distinct by type + encoded text"
	if cx.Replay != "" {
		replay(cx)
		return
	}
	stats := map[string]int{}
	// safety net for an overloaded machine only: the case counts are sized to stay well inside the budget
	budget := time.Duration(cx.Scale(55, 14*60)) * time.Second
	if cx.Replay == "" {
		directedRemainMaps(cx)
	}
	overBudget := func(stage string) bool {
		if cx.Elapsed() > budget {
			res.Notes = append(res.Notes, "time budget reached during "+stage+": remaining cases skipped")
			return true
		}
		return false
	}

	// A. round trips
	for hi, h := range handValues {
		h := h
		ti, _ := typeByName(h.typ)
		canon, nt := roundTripOf(cx, ti, func(map[string]int) reflect.Value { return reflect.ValueOf(h.mk()) }, caseInput{Kind: "hand", Hand: hi}, false, nil)
		res.Case(canon, nt)
		res.Count("roundtrip:hand-corpus")
	}
	n := cx.Scale(4000, 100000)
	weights := make([]int, len(family))
	for i, ti := range family {
		weights[i] = 10
		if w, ok := familyWeights[ti.name]; ok {
			weights[i] = w
		}
	}
	for i := 0; i < n && !(i%64 == 0 && overBudget("round trips")); i++ {
		ti := family[cx.R.Weighted(weights)]
		vseed := cx.R.U64()
		canon, nt := roundTrip(cx, ti, vseed, false, stats)
		res.Case(canon, nt)
		res.Count("roundtrip:" + ti.name)
		if i%7 == 3 {
			res.Sample(lib.Trunc(canon, 1500))
		}
	}
	// B. gohcl.EncodeAsBlock directly
	nb := cx.Scale(500, 12000)
	for i := 0; i < nb; i++ {
		ti := blockFamily[i%len(blockFamily)]
		canon, nt := roundTrip(cx, ti, cx.R.U64(), true, stats)
		res.Case("blk "+canon, nt)
		res.Count("asblock:" + ti.name)
	}
	for k, v := range stats {
		res.Distribution["gen:"+k] = v
	}

	// C. ill-formed contents
	ill := func(ti typeInfo, syntax, src string, ctxKind int, origin string) {
		bad := decodeAny(cx, ti, syntax, src, ctxKind)
		res.Case(ti.name+"\n"+syntax+"\n"+src, bad)
		res.Count("illformed:" + origin)
		if bad {
			res.Count("illformed-result:errors")
		} else {
			res.Count("illformed-result:clean")
		}
	}
	pickCtx := func(r *lib.Rand) int {
		// the marked-variable context is a small share: it is known to panic (see the final report)
		return r.Weighted([]int{3, 3, 10, 1})
	}
	for _, h := range handIllFormed {
		ti, _ := typeByName(h.typ)
		ill(ti, h.syntax, h.src, h.ctx, "hand-corpus")
	}
	nc := cx.Scale(2000, 40000)
	for i := 0; i < nc && !(i%64 == 0 && overBudget("ill-formed contents")); i++ {
		r := cx.R.Fork()
		ti := family[r.Intn(len(family))]
		v := newValue(ti, r.Fork(), nil)
		src, ok := encodeHCL(v)
		if !ok {
			continue
		}
		ctxKind := pickCtx(r)
		switch r.Intn(6) {
		case 0: // byte-level near misses of the native source
			ill(ti, "hcl", string(lib.MutateBytes(r, []byte(src))), ctxKind, "hcl-byte-mutation")
		case 1, 2: // structural edits of the native source
			ill(ti, "hcl", mutateHCL(r, src, ctxKind == 3), ctxKind, "hcl-structural-mutation")
		case 3: // the document of one type decoded into another type
			other := family[r.Intn(len(family))]
			ill(other, "hcl", src, ctxKind, "hcl-cross-type")
			db := &docBuilder{r: r.Fork(), tmpl: ctxKind != 0}
			ill(other, "json", renderJSON(r.Fork(), db.body(v.Elem())), ctxKind, "json-cross-type")
		case 4: // structural edits of the JSON document
			db := &docBuilder{r: r.Fork(), tmpl: ctxKind != 0}
			doc := db.body(v.Elem())
			mutateDoc(r, doc)
			ill(ti, "json", renderJSON(r.Fork(), doc), ctxKind, "json-structural-mutation")
		default: // byte-level near misses of the JSON document
			db := &docBuilder{r: r.Fork(), tmpl: ctxKind != 0}
			doc := renderJSON(r.Fork(), db.body(v.Elem()))
			ill(ti, "json", string(lib.MutateBytes(r, []byte(doc))), ctxKind, "json-byte-mutation")
		}
	}
	// D. random bodies over the whole native grammar and random JSON documents into every type
	nd := cx.Scale(500, 12000)
	for i := 0; i < nd; i++ {
		r := cx.R.Fork()
		ti := family[r.Intn(len(family))]
		if r.Chance(2, 3) {
			eg := &lib.ExprGen{R: r, Vars: []string{"x", "k", "n", "u", "d", "lst", "obj", "nul", "undefined"}, Funcs: []string{"upper", "length", "nofunc", "ns::fn"}}
			bg := &lib.BodyGen{R: r, E: eg, ExprDep: 2}
			var toks []lib.Tk
			(&lib.Renderer{R: r}).BodyTokens(&toks, bg.Body(2))
			ill(ti, "hcl", lib.RenderChecked(toks, lib.RandomLayout(r)), r.Intn(3), "hcl-random-body")
		} else {
			ill(ti, "json", renderJSON(r.Fork(), randomJNode(r, 3)), r.Intn(3), "json-random-document")
		}
	}
	corrGohcl(cx)
}
