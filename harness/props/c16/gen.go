package c16

import (
	"math"
	"math/big"
	"reflect"
	"sort"
	"strings"

	"github.com/hashicorp/hcl/v2"
	"github.com/zclconf/go-cty/cty"
	"golang.org/x/text/unicode/norm"

	"hx/lib"
)

// ---- tag parsing (independent of gohcl's getFieldTags) ----

type fieldKind int

const (
	fkNone  fieldKind = iota // untagged or syntax-metadata field: kept zero, ignored by comparison where it is an interface / range
	fkAttr                   // "name" / "name,attr" / "name,optional"
	fkLabel                  // "name,label"
	fkBlock                  // "name,block"
	fkRemain
	fkBody
)

type fieldInfo struct {
	idx      int
	name     string
	kind     fieldKind
	optional bool
}

func fieldsOf(t reflect.Type) []fieldInfo {
	var out []fieldInfo
	for i := 0; i < t.NumField(); i++ {
		tag := t.Field(i).Tag.Get("hcl")
		fi := fieldInfo{idx: i}
		if tag != "" {
			name, kind := tag, "attr"
			if c := strings.Index(tag, ","); c >= 0 {
				name, kind = tag[:c], tag[c+1:]
			}
			fi.name = name
			switch kind {
			case "attr":
				fi.kind = fkAttr
			case "optional":
				fi.kind = fkAttr
				fi.optional = true
			case "label":
				fi.kind = fkLabel
			case "block":
				fi.kind = fkBlock
			case "remain":
				fi.kind = fkRemain
			case "body":
				fi.kind = fkBody
			}
		}
		out = append(out, fi)
	}
	return out
}

var (
	ctyValueType = reflect.TypeOf(cty.Value{})
	exprType     = reflect.TypeOf((*hcl.Expression)(nil)).Elem()
	bodyType     = reflect.TypeOf((*hcl.Body)(nil)).Elem()
	attrPtrType  = reflect.TypeOf((*hcl.Attribute)(nil))
	attrsType    = reflect.TypeOf(hcl.Attributes(nil))
	rangeType    = reflect.TypeOf(hcl.Range{})
)

// undecoded says whether an attribute field holds syntax rather than a value (encoder ignores those).
func undecoded(t reflect.Type) bool {
	return t == exprType || t == attrPtrType || t == bodyType || t == attrsType || t == rangeType
}

// ---- alphabets ----

// strPieces is the escape-relevant alphabet: quotes, backslashes, newlines, tabs, template introducers and
// their escapes, unicode in and out of NFC, non-printable and control characters, comment and heredoc starters.
var strPieces = []string{
	"", "a", "hello", " ", "  ", "x y", "\"", "\\", "\\\\", "\\\"", "\n", "\r", "\r\n", "\t", "\\n", "\\t", "\\u0041",
	"${", "%{", "$${", "%%{", "$$${", "$", "%", "$$", "%%", "{", "}", "${a}", "%{if x}", "%{ endif }", "${~ a ~}", "~}", "$ {", "%}",
	"é", "e\u0301", "日本", "\U0001d11e", "\U0001f600", "ß", "İ", "\u00a0", "\u0085", "\u2028", "\u2029", "\ufeff", "\ufffd", "\u200b", "\u0301",
	"\x00", "\x01", "\x07", "\x1b", "\x7f", "\u009f",
	"#", "//", "/*", "*/", "<<EOT", "<<-EOT\n", "EOT", "'", "`", "=", ":", ",", "[", "]", "(", ")", "null", "true", "for", "1", "0x10", "1e3",
	"\U0010ffff", "\ue000", "\U000e0001",
}

// keyPool: map keys including keywords and non-identifiers.
var keyPool = []string{
	"for", "if", "in", "null", "true", "false", "else", "endif", "a", "b", "k1", "key", "x-y", "_u", "A",
	"", " ", "a b", "a.b", "a.b.c", ".", "0", "1a", "-", "-a", "a-", "é", "e\u0301", "日本", "${", "${x}", "%{x}", "$${", "a\"b", "a\\b",
	"line\nbreak", "tab\t", "=", "//", "#", "*", "[0]", "a[0]", "a:b", "a=b", "{", "}", "for ", " for", "For", "fo", "forx", "\x00", "\u2028", "\U0001f600",
}

func (g *gen) str() string {
	r := g.r
	switch r.Intn(10) {
	case 0:
		return ""
	case 1, 2:
		return r.Pick([]string{"a", "hello", "web-1", "x_y", "10.0.0.1", "some value", "UPPER"})
	}
	n := 1 + r.Intn(5)
	var sb strings.Builder
	for i := 0; i < n; i++ {
		p := strPieces[r.Intn(len(strPieces))]
		if i == 0 && p == "\ufeff" && r.Chance(4, 5) {
			p = "a" // leading byte order marks are kept rare: two known findings hang on them
		}
		sb.WriteString(p)
	}
	s := sb.String()
	g.classify(s)
	return s
}

func (g *gen) classify(s string) {
	if g.stats == nil {
		return
	}
	if strings.Contains(s, "${") || strings.Contains(s, "%{") {
		g.stats["str:template-introducer"]++
	}
	if strings.ContainsAny(s, "\"\\") {
		g.stats["str:quote-or-backslash"]++
	}
	if strings.ContainsAny(s, "\n\r\t") {
		g.stats["str:newline-or-tab"]++
	}
	if !norm.NFC.IsNormalString(s) {
		g.stats["str:not-NFC"]++
	}
	for _, c := range s {
		if c < 0x20 || c == 0x7f || (c >= 0x80 && c < 0xa0) {
			g.stats["str:control-char"]++
			break
		}
	}
	for _, c := range s {
		if c > 0x7f {
			g.stats["str:non-ascii"]++
			break
		}
	}
}

// key returns a map key whose NFC form is not yet in used (cty normalises strings to NFC, so two keys that
// differ only in normalisation form would denote the same cty map element).
func (g *gen) key(used map[string]bool) (string, bool) {
	for try := 0; try < 8; try++ {
		var k string
		if g.r.Chance(4, 5) {
			k = keyPool[g.r.Intn(len(keyPool))]
		} else {
			k = g.str()
		}
		if strings.HasPrefix(k, "\ufeff") && g.r.Chance(4, 5) {
			continue
		}
		n := norm.NFC.String(k)
		if !used[n] {
			used[n] = true
			if g.stats != nil {
				switch {
				case k == "for" || k == "if" || k == "in" || k == "null" || k == "true" || k == "false":
					g.stats["key:keyword"]++
				case !lib.ValidIdent(k):
					g.stats["key:non-identifier"]++
				default:
					g.stats["key:identifier"]++
				}
			}
			return k, true
		}
	}
	return "", false
}

// ---- random values ----

type gen struct {
	r     *lib.Rand
	stats map[string]int
}

func (g *gen) count(k string) {
	if g.stats != nil {
		g.stats[k]++
	}
}

var intEdges = []int64{0, 1, -1, 2, 7, 42, 100, 127, 128, 255, 256, 32767, 32768, 65535, 65536, 1 << 31, 1<<31 - 1, 1 << 32, 1<<53 - 1, 1 << 53, 1<<53 + 1, math.MaxInt64, math.MaxInt64 - 1, 1e15, 123456789012345678}

func (g *gen) int64In(min, max int64) int64 {
	for try := 0; try < 20; try++ {
		var v int64
		switch g.r.Intn(4) {
		case 0:
			v = int64(g.r.Intn(20)) - 5
		case 1:
			v = intEdges[g.r.Intn(len(intEdges))]
			if g.r.Chance(1, 2) {
				v = -v
			}
		case 2:
			v = int64(g.r.U64())
		default:
			v = int64(g.r.Intn(100000)) - 1000
		}
		if g.r.Chance(1, 40) {
			v = min
		}
		if g.r.Chance(1, 40) {
			v = max
		}
		if v >= min && v <= max {
			return v
		}
	}
	return 0
}

func (g *gen) uint64Max(max uint64) uint64 {
	switch g.r.Intn(5) {
	case 0:
		return max
	case 1:
		return max - uint64(g.r.Intn(3))
	case 2:
		v := g.r.U64()
		if max != math.MaxUint64 {
			v %= max + 1
		}
		return v
	default:
		v := uint64(g.r.Intn(1000))
		if v > max {
			v = max
		}
		return v
	}
}

var floatEdges = []float64{0, 1, -1, 0.5, 0.1, 0.2, 0.3, 1.0 / 3, 2.5, 1e21, 1e-7, 123456.789, math.MaxFloat64, -math.MaxFloat64, math.SmallestNonzeroFloat64, 2.2250738585072014e-308, 1 << 53, 1<<53 + 2, 1e100, 1e-100, 3.141592653589793, 9007199254740993, 0.30000000000000004, 1e15, 1e16, 1e17, 123e-20}

func (g *gen) float64() float64 {
	switch g.r.Intn(4) {
	case 0:
		return floatEdges[g.r.Intn(len(floatEdges))]
	case 1:
		return float64(g.r.Intn(2000)-1000) / 8
	case 2:
		for {
			f := math.Float64frombits(g.r.U64())
			if !math.IsNaN(f) && !math.IsInf(f, 0) {
				return f
			}
		}
	default:
		return float64(g.r.Intn(100000)) / 100
	}
}

func (g *gen) float32() float32 {
	switch g.r.Intn(3) {
	case 0:
		return float32(floatEdges[g.r.Intn(12)])
	case 1:
		for {
			f := math.Float32frombits(uint32(g.r.U64()))
			if !math.IsNaN(float64(f)) && !math.IsInf(float64(f), 0) {
				return f
			}
		}
	default:
		return float32(g.r.Intn(100000)) / 100
	}
}

// fillAttr fills an attribute-typed value (anything gocty can map).
func (g *gen) fillAttr(v reflect.Value, depth int) {
	t := v.Type()
	if t == ctyValueType {
		v.Set(reflect.ValueOf(g.cty(2)))
		return
	}
	switch t.Kind() {
	case reflect.String:
		v.SetString(g.str())
	case reflect.Bool:
		v.SetBool(g.r.Chance(1, 2))
	case reflect.Int:
		v.SetInt(g.int64In(math.MinInt64, math.MaxInt64))
	case reflect.Int8:
		v.SetInt(g.int64In(math.MinInt8, math.MaxInt8))
	case reflect.Int16:
		v.SetInt(g.int64In(math.MinInt16, math.MaxInt16))
	case reflect.Int32:
		v.SetInt(g.int64In(math.MinInt32, math.MaxInt32))
	case reflect.Int64:
		v.SetInt(g.int64In(math.MinInt64, math.MaxInt64))
	case reflect.Uint, reflect.Uint64:
		v.SetUint(g.uint64Max(math.MaxUint64))
	case reflect.Uint8:
		v.SetUint(g.uint64Max(math.MaxUint8))
	case reflect.Uint16:
		v.SetUint(g.uint64Max(math.MaxUint16))
	case reflect.Uint32:
		v.SetUint(g.uint64Max(math.MaxUint32))
	case reflect.Float64:
		v.SetFloat(g.float64())
	case reflect.Float32:
		v.SetFloat(float64(g.float32()))
	case reflect.Ptr:
		if g.r.Chance(1, 3) {
			g.count("ptr:nil")
			return
		}
		g.count("ptr:set")
		p := reflect.New(t.Elem())
		g.fillAttr(p.Elem(), depth)
		v.Set(p)
	case reflect.Slice:
		switch g.r.Intn(6) {
		case 0:
			g.count("slice:nil")
			return
		case 1:
			g.count("slice:empty")
			v.Set(reflect.MakeSlice(t, 0, 0))
			return
		}
		g.count("slice:non-empty")
		n := 1 + g.r.Intn(4)
		s := reflect.MakeSlice(t, n, n)
		for i := 0; i < n; i++ {
			g.fillAttr(s.Index(i), depth+1)
		}
		v.Set(s)
	case reflect.Map:
		switch g.r.Intn(6) {
		case 0:
			g.count("map:nil")
			return
		case 1:
			g.count("map:empty")
			v.Set(reflect.MakeMap(t))
			return
		}
		g.count("map:non-empty")
		m := reflect.MakeMap(t)
		used := map[string]bool{}
		n := 1 + g.r.Intn(4)
		if g.r.Chance(1, 30) {
			// a map whose smallest key is a keyword
			kw := g.r.Pick([]string{"for", "if", "in", "null", "true"})
			used[kw] = true
			e := reflect.New(t.Elem()).Elem()
			g.fillAttr(e, depth+1)
			m.SetMapIndex(reflect.ValueOf(kw), e)
			for i := 0; i < n-1; i++ {
				k := g.r.Pick([]string{"if", "in", "null", "true", "z", "zz", "in2", "é", "日本"})
				if used[k] || k < kw {
					continue
				}
				used[k] = true
				e := reflect.New(t.Elem()).Elem()
				g.fillAttr(e, depth+1)
				m.SetMapIndex(reflect.ValueOf(k), e)
			}
			v.Set(m)
			return
		}
		for i := 0; i < n; i++ {
			k, ok := g.key(used)
			if !ok {
				continue
			}
			e := reflect.New(t.Elem()).Elem()
			g.fillAttr(e, depth+1)
			m.SetMapIndex(reflect.ValueOf(k), e)
		}
		v.Set(m)
	case reflect.Struct:
		// gocty object mapping: every field is an attribute
		for i := 0; i < t.NumField(); i++ {
			g.fillAttr(v.Field(i), depth+1)
		}
	}
}

// cty generates a cty.Value from the fragment that HCL literal syntax can express exactly: primitives,
// null of unknown type, tuples and objects. With small probability it generates lists, maps, sets and
// typed nulls, which decode as their structural counterparts (see normCty).
func (g *gen) cty(depth int) cty.Value {
	r := g.r
	top := 9
	if depth <= 0 {
		top = 5
	}
	switch r.Intn(top) {
	case 0:
		return cty.StringVal(g.str())
	case 1:
		return g.ctyNum()
	case 2:
		return cty.BoolVal(r.Chance(1, 2))
	case 3:
		if r.Chance(1, 4) {
			g.count("cty:typed-null")
			return cty.NullVal(cty.String)
		}
		return cty.NullVal(cty.DynamicPseudoType)
	case 4:
		return cty.StringVal(r.Pick([]string{"a", "b", "c"}))
	case 5, 6:
		n := r.Intn(4)
		vals := make([]cty.Value, n)
		for i := range vals {
			vals[i] = g.cty(depth - 1)
		}
		if n > 0 && r.Chance(1, 6) {
			g.count("cty:list-or-set")
			ss := make([]cty.Value, n)
			for i := range ss {
				ss[i] = cty.StringVal(g.str())
			}
			if r.Chance(1, 2) {
				return cty.ListVal(ss)
			}
			return cty.SetVal(ss)
		}
		return cty.TupleVal(vals)
	default:
		n := r.Intn(4)
		attrs := map[string]cty.Value{}
		used := map[string]bool{}
		for i := 0; i < n; i++ {
			k, ok := g.key(used)
			if !ok {
				continue
			}
			attrs[k] = g.cty(depth - 1)
		}
		if len(attrs) > 0 && r.Chance(1, 6) {
			g.count("cty:map")
			ms := map[string]cty.Value{}
			ks := make([]string, 0, len(attrs))
			for k := range attrs {
				ks = append(ks, k)
			}
			sort.Strings(ks)
			for _, k := range ks {
				ms[k] = g.ctyNum()
			}
			return cty.MapVal(ms)
		}
		return cty.ObjectVal(attrs)
	}
}

func (g *gen) ctyNum() cty.Value {
	r := g.r
	switch r.Intn(6) {
	case 0:
		return cty.NumberIntVal(g.int64In(math.MinInt64, math.MaxInt64))
	case 1:
		// decimal literal as the parser would produce it
		s := r.Pick([]string{"0.1", "3.14159", "1e30", "123456789012345678901234567890", "-2.5e-10", "0.000001", "99999999999999999999.5", "1e-40", "7"})
		v, err := cty.ParseNumberVal(s)
		if err != nil {
			return cty.Zero
		}
		return v
	case 2:
		// dyadic rationals are exact in every precision
		return cty.NumberFloatVal(float64(r.Intn(4000)-2000) / 16)
	case 3:
		// a binary float64 of moderate magnitude (so that its exact decimal expansion is parsed exactly by
		// math/big, whose decimal conversion is only approximately rounded for exponents beyond ~10^70)
		g.count("cty:float64-number")
		for {
			f := g.float64()
			if a := math.Abs(f); f == 0 || (a > 1e-30 && a < 1e30) {
				return cty.NumberFloatVal(f)
			}
		}
	case 4:
		if r.Chance(1, 3) {
			// integer-valued float64 beyond 2^53: its shortest decimal text denotes a different integer
			g.count("cty:float64-big-integer")
			return cty.NumberFloatVal(pickF(r, []float64{1e23, 9223372036854775808, 3e25, 1e22, 18446744073709551616, 123456789012345678901234, 1 << 60, 36028797018963970}))
		}
		bf := new(big.Float).SetPrec(512).SetInt(new(big.Int).Lsh(big.NewInt(int64(1+r.Intn(1000))), uint(r.Intn(200))))
		return cty.NumberVal(bf)
	default:
		return cty.NumberIntVal(int64(r.Intn(100)))
	}
}

func (g *gen) label() string {
	if g.r.Chance(1, 2) {
		return g.r.Pick([]string{"a", "web", "x-y", "for", "if", "null", "main", "db_1", "", " ", "with space", "a.b", "100%", "a$b", "${", "$${x}", "%{", "q\"uote", "back\\slash", "n\nl", "é", "e\u0301", "日本", "//", "#", "{", "0", "\U0001f600", "\x00", "\t"})
	}
	return g.str()
}

// fillStruct fills an hcl-tagged struct.
func (g *gen) fillStruct(v reflect.Value, depth int) {
	t := v.Type()
	for _, fi := range fieldsOf(t) {
		f := v.Field(fi.idx)
		ft := f.Type()
		switch fi.kind {
		case fkLabel:
			f.SetString(g.label())
		case fkAttr:
			if undecoded(ft) {
				continue
			}
			g.fillAttr(f, depth)
		case fkBlock:
			g.fillBlock(f, depth)
		}
	}
}

func (g *gen) fillBlock(f reflect.Value, depth int) {
	ft := f.Type()
	switch ft.Kind() {
	case reflect.Struct:
		g.fillStruct(f, depth+1)
	case reflect.Ptr:
		if depth > 3 || g.r.Chance(2, 5) {
			g.count("block:nil-pointer")
			return
		}
		g.count("block:pointer")
		p := reflect.New(ft.Elem())
		g.fillStruct(p.Elem(), depth+1)
		f.Set(p)
	case reflect.Slice:
		c := g.r.Intn(7)
		if depth > 3 {
			c = g.r.Intn(2)
		}
		switch c {
		case 0:
			g.count("blocks:nil")
			return
		case 1:
			g.count("blocks:empty")
			f.Set(reflect.MakeSlice(ft, 0, 0))
			return
		}
		n := 1 + g.r.Intn(3)
		if n > 1 {
			g.count("blocks:repeated")
		} else {
			g.count("blocks:single")
		}
		s := reflect.MakeSlice(ft, 0, n)
		for i := 0; i < n; i++ {
			et := ft.Elem()
			if et.Kind() == reflect.Ptr {
				if g.r.Chance(1, 12) {
					g.count("blocks:nil-element")
					s = reflect.Append(s, reflect.Zero(et))
					continue
				}
				p := reflect.New(et.Elem())
				g.fillStruct(p.Elem(), depth+1)
				s = reflect.Append(s, p)
			} else {
				e := reflect.New(et).Elem()
				g.fillStruct(e, depth+1)
				s = reflect.Append(s, e)
			}
		}
		// repeated blocks often share all labels but the last (siblings below one label prefix)
		if n > 1 && g.r.Chance(1, 2) {
			elem := func(i int) reflect.Value {
				e := s.Index(i)
				if e.Kind() == reflect.Ptr {
					e = e.Elem()
				}
				return e
			}
			var lab []int
			okAll := true
			for i := 0; i < s.Len(); i++ {
				if e := elem(i); !e.IsValid() || e.Kind() != reflect.Struct {
					okAll = false
				}
			}
			for _, fi := range func() []fieldInfo {
				if !okAll {
					return nil
				}
				return fieldsOf(elem(0).Type())
			}() {
				if fi.kind == fkLabel {
					lab = append(lab, fi.idx)
				}
			}
			if len(lab) >= 2 {
				for i := 1; i < s.Len(); i++ {
					for _, idx := range lab[:len(lab)-1] {
						elem(i).Field(idx).Set(elem(0).Field(idx))
					}
				}
			}
		}
		// repeated blocks sometimes share their labels
		if n > 1 && g.r.Chance(1, 3) && s.Index(0).Kind() == reflect.Struct {
			first := s.Index(0)
			for _, fi := range fieldsOf(first.Type()) {
				if fi.kind == fkLabel {
					for i := 1; i < s.Len(); i++ {
						s.Index(i).Field(fi.idx).Set(first.Field(fi.idx))
					}
					break
				}
			}
		}
		f.Set(s)
	}
}

// newValue generates a value of the given family type; the result is a pointer to the struct.
func newValue(ti typeInfo, r *lib.Rand, stats map[string]int) reflect.Value {
	g := &gen{r: r, stats: stats}
	p := reflect.New(ti.t)
	g.fillStruct(p.Elem(), 0)
	return p
}

// ---- normalisation of the expected value ----
//
// "Reproduces the original value" is read modulo exactly these identifications, each forced by the data
// model rather than by gohcl:
//   - strings (attribute values, map keys, labels) are compared in Unicode NFC: every string that passes
//     through cty.StringVal is normalised by go-cty;
//   - nil and empty slices / maps are identified (cmpopts.EquateEmpty): a nil block slice and an empty one
//     both encode as "no blocks";
//   - nil elements of a []*struct block field are dropped (gohcl/encode.go documents that it ignores them);
//   - cty.Value attributes: lists and sets decode as tuples, maps as objects, typed nulls as null of unknown
//     type, because HCL literal syntax has only tuple and object constructors;
//   - fields holding syntax (hcl.Body, hcl.Expression, *hcl.Attribute, hcl.Attributes, hcl.Range) are not
//     compared; a ",remain" field must come back without content.

func normalise(v reflect.Value) {
	t := v.Type()
	if t == ctyValueType {
		cv := v.Interface().(cty.Value)
		if cv != cty.NilVal {
			v.Set(reflect.ValueOf(normCty(cv)))
		}
		return
	}
	switch t.Kind() {
	case reflect.String:
		v.SetString(norm.NFC.String(v.String()))
	case reflect.Ptr:
		if !v.IsNil() && t != attrPtrType {
			normalise(v.Elem())
		}
	case reflect.Slice:
		if v.IsNil() {
			return
		}
		if t.Elem().Kind() == reflect.Ptr && t.Elem().Elem().Kind() == reflect.Struct {
			s := reflect.MakeSlice(t, 0, v.Len())
			for i := 0; i < v.Len(); i++ {
				if !v.Index(i).IsNil() {
					s = reflect.Append(s, v.Index(i))
				}
			}
			v.Set(s)
		}
		for i := 0; i < v.Len(); i++ {
			normalise(v.Index(i))
		}
	case reflect.Map:
		if v.IsNil() || t == attrsType {
			return
		}
		m := reflect.MakeMap(t)
		it := v.MapRange()
		for it.Next() {
			e := reflect.New(t.Elem()).Elem()
			e.Set(it.Value())
			normalise(e)
			m.SetMapIndex(reflect.ValueOf(norm.NFC.String(it.Key().String())), e)
		}
		v.Set(m)
	case reflect.Struct:
		if t == rangeType {
			return
		}
		for i := 0; i < t.NumField(); i++ {
			if v.Field(i).CanSet() {
				normalise(v.Field(i))
			}
		}
	}
}

func normCty(v cty.Value) cty.Value {
	t := v.Type()
	if v.IsNull() {
		return cty.NullVal(cty.DynamicPseudoType)
	}
	switch {
	case t.IsListType() || t.IsSetType() || t.IsTupleType():
		vals := []cty.Value{}
		for it := v.ElementIterator(); it.Next(); {
			_, ev := it.Element()
			vals = append(vals, normCty(ev))
		}
		return cty.TupleVal(vals)
	case t.IsMapType() || t.IsObjectType():
		attrs := map[string]cty.Value{}
		for it := v.ElementIterator(); it.Next(); {
			k, ev := it.Element()
			attrs[norm.NFC.String(k.AsString())] = normCty(ev)
		}
		return cty.ObjectVal(attrs)
	}
	return v
}

func pickF(r *lib.Rand, xs []float64) float64 { return xs[r.Intn(len(xs))] }
