package c16

import (
	"fmt"
	"math/big"
	"os"
	"reflect"
	"runtime/debug"
	"sort"
	"strings"

	"github.com/hashicorp/hcl/v2"
	"github.com/hashicorp/hcl/v2/gohcl"
	"github.com/hashicorp/hcl/v2/hclsyntax"
	"github.com/hashicorp/hcl/v2/hclwrite"
	"github.com/zclconf/go-cty/cty"
	"github.com/zclconf/go-cty/cty/gocty"
	"golang.org/x/text/unicode/norm"

	"hx/lib"
)

// corrGohcl ties the Lean model of gohcl (HclModel/Gohcl/Codec.lean: encodeBody, decodeBody, impliedSchema,
// toCty / fromCty / reparse / decodeExpr) to the real code. Operation `GOHCL` of the driver
// (lean/Driver/OpGohcl.lean documents the wire format). Four streams:
//
//	enc/dec  random values of the struct family (corrtypes.go) and of random reflect.StructOf types:
//	         gohcl.EncodeIntoBody + hclwrite + hclsyntax.ParseConfig (attributes evaluated with a nil context)
//	         against `enc`; then gohcl.DecodeBody of the parsed body into a fresh value against `dec` applied to
//	         the same parsed content
//	body     random bodies for a type, mostly valid, with perturbations (missing / extra / wrongly typed
//	         attributes, null, missing / duplicate / unknown blocks, wrong label counts): gohcl.DecodeBody into a
//	         fresh value against `dec` (error presence and value); a panic of the real code is an oracle failure
//	schema   gohcl.ImpliedBodySchema against `schema`
//	attr     random attribute types and values: gocty.ImpliedType, gocty.ToCtyValue, the value written by
//	         hclwrite.TokensForValue and evaluated again, gohcl.DecodeExpression into a fresh target
//
// The model's struct type descriptor is derived from the Go type by reflection from the same `hcl` tags that
// gohcl reads; the model's struct value from the Go value by reflection.
//
// What the model leaves out is skipped and counted (gohcl:skip:*): strings are sent in Unicode NFC (cty.StringVal
// normalises, the model's strings are opaque), nil elements of a []*T block field are dropped (the encoder skips
// them), map keys with a leading byte order mark (known finding C16-key-bom), conversions that the model of
// convert.Convert answers with "unsupported". Disagreements that are confirmed gaps of the model are counted as
// gohcl:model-gap:* instead of failing; HX_GOHCL_STRICT=1 turns all of that off (raw strings, every
// disagreement is a failure).
func corrGohcl(cx *lib.Ctx) {
	if !cx.HasModel() || cx.Replay != "" {
		return
	}
	c := &gcorr{cx: cx, strict: os.Getenv("HX_GOHCL_STRICT") != ""}
	// the types: the fixed family and random struct types
	c.types = append(c.types, corrFamily...)
	tr := cx.R.Fork()
	for i := 0; i < cx.Scale(60, 600); i++ {
		c.types = append(c.types, typeInfo{fmt.Sprintf("rand%d", i), randStructType(tr, 0)})
	}
	c.schemas()
	c.encDec()
	c.bodies()
	c.attrs()
}

// `hx C16-GOHCL` runs the correspondence alone.
func init() { lib.Register("C16-GOHCL", corrGohcl) }

type gcorr struct {
	cx     *lib.Ctx
	strict bool
	types  []typeInfo
}

func (c *gcorr) count(k string) { c.cx.Res.Count("gohcl:" + k) }

func (c *gcorr) pickType(r *lib.Rand) typeInfo {
	if r.Chance(3, 5) {
		return corrFamily[r.Intn(len(corrFamily))]
	}
	return c.types[r.Intn(len(c.types))]
}

// disagree records one disagreement, unless it is a confirmed gap of the model (gap != "").
func (c *gcorr) disagree(op, gap, desc, line, model, impl string) {
	if gap != "" && !c.strict {
		c.count("model-gap:" + gap)
		return
	}
	c.cx.Res.Fail(lib.Failure{Kind: "corr", Key: "GOHCL:" + op, Desc: desc, Input: line, Model: model, Impl: impl})
}

// ---- the tags, as gohcl reads them (gohcl/schema.go getFieldTags) ----

type ckind int

const (
	ckAttr ckind = iota
	ckLabel
	ckBlock
)

type cfield struct {
	idx      int
	kind     ckind
	name     string
	optional bool
}

// corrFieldsOf returns the tagged fields in declaration order; ok is false when the struct uses a tag kind or
// a field type outside the model.
func corrFieldsOf(rt reflect.Type) (fs []cfield, ok bool) {
	ok = true
	for i := 0; i < rt.NumField(); i++ {
		tag := rt.Field(i).Tag.Get("hcl")
		if tag == "" {
			continue
		}
		name, kind := tag, "attr"
		if comma := strings.Index(tag, ","); comma != -1 {
			name, kind = tag[:comma], tag[comma+1:]
		}
		switch kind {
		case "attr":
			fs = append(fs, cfield{idx: i, kind: ckAttr, name: name})
		case "optional":
			fs = append(fs, cfield{idx: i, kind: ckAttr, name: name, optional: true})
		case "label":
			fs = append(fs, cfield{idx: i, kind: ckLabel, name: name})
		case "block":
			fs = append(fs, cfield{idx: i, kind: ckBlock, name: name})
		default:
			ok = false // remain, body, the range kinds
		}
	}
	return fs, ok
}

// blockShape splits the type of a block field into shape and struct type, as decodeBodyToStruct does.
func blockShape(ft reflect.Type) (shape string, st reflect.Type) {
	isSlice, isPtr := false, false
	if ft.Kind() == reflect.Slice {
		isSlice = true
		ft = ft.Elem()
	}
	if ft.Kind() == reflect.Ptr {
		isPtr = true
		ft = ft.Elem()
	}
	switch {
	case isSlice && isPtr:
		shape = "sliceptr"
	case isSlice:
		shape = "slice"
	case isPtr:
		shape = "ptr"
	default:
		shape = "one"
	}
	return shape, ft
}

// ---- wire format ----

func gtyWire(rt reflect.Type) (string, bool) {
	switch rt.Kind() {
	case reflect.String:
		return "str", true
	case reflect.Int, reflect.Int64:
		return "int", true
	case reflect.Bool:
		return "bool", true
	case reflect.Slice:
		e, ok := gtyWire(rt.Elem())
		return "(slice " + e + ")", ok
	case reflect.Map:
		if rt.Key().Kind() != reflect.String {
			return "", false
		}
		e, ok := gtyWire(rt.Elem())
		return "(map " + e + ")", ok
	case reflect.Ptr:
		e, ok := gtyWire(rt.Elem())
		return "(ptr " + e + ")", ok
	}
	return "", false
}

// styWire is the model's STy descriptor of a struct type.
func styWire(rt reflect.Type) (string, bool) {
	fs, ok := corrFieldsOf(rt)
	if !ok {
		return "", false
	}
	var sb strings.Builder
	sb.WriteString("(struct")
	for _, f := range fs {
		ft := rt.Field(f.idx).Type
		switch f.kind {
		case ckAttr:
			t, ok := gtyWire(ft)
			if !ok {
				return "", false
			}
			o := "req"
			if f.optional {
				o = "opt"
			}
			sb.WriteString(" (attr " + lib.Hex(f.name) + " " + o + " " + t + ")")
		case ckLabel:
			if ft.Kind() != reflect.String {
				return "", false
			}
			sb.WriteString(" (label " + lib.Hex(f.name) + ")")
		case ckBlock:
			shape, st := blockShape(ft)
			if st.Kind() != reflect.Struct {
				return "", false
			}
			s, ok := styWire(st)
			if !ok {
				return "", false
			}
			sb.WriteString(" (block " + lib.Hex(f.name) + " " + shape + " " + s + ")")
		}
	}
	sb.WriteString(")")
	return sb.String(), true
}

type wireOpts struct {
	nfc     bool // strings that pass through cty.StringVal are sent normalised
	dropNil bool // nil elements of []*T are dropped
	// collapse renders a non-nil pointer to a pointer that can only come from decoding a null (it ends in a nil
	// pointer or in a pointer to a nil slice / map) as a nil pointer: what the model's fromCty answers for a null
	// value and a target of type **T (model gap "null-into-pointer-to-pointer")
	collapse     bool
	sawNFC       bool
	sawNil       bool
	sawPtrPtrNil bool // an attribute field holds a non-nil pointer to a nil pointer
}

func (o *wireOpts) str(s string) string {
	if o.nfc {
		n := norm.NFC.String(s)
		if n != s {
			o.sawNFC = true
		}
		return n
	}
	return s
}

// fromNull: the pointer is nil, or leads through pointers to a nil pointer or to a nil slice / map below a
// pointer (gocty.FromCtyValue produces the latter two only for a null value).
func fromNull(p reflect.Value) bool {
	if p.IsNil() {
		return true
	}
	switch e := p.Elem(); e.Kind() {
	case reflect.Ptr:
		return fromNull(e)
	case reflect.Slice, reflect.Map:
		return e.IsNil()
	}
	return false
}

func (o *wireOpts) gval(sb *strings.Builder, v reflect.Value) {
	switch v.Kind() {
	case reflect.String:
		sb.WriteString("(str " + lib.Hex(o.str(v.String())) + ")")
	case reflect.Int, reflect.Int64:
		fmt.Fprintf(sb, "(int %d)", v.Int())
	case reflect.Bool:
		if v.Bool() {
			sb.WriteString("true")
		} else {
			sb.WriteString("false")
		}
	case reflect.Slice:
		if v.IsNil() {
			sb.WriteString("nilslice")
			return
		}
		sb.WriteString("(slice")
		for i := 0; i < v.Len(); i++ {
			sb.WriteString(" ")
			o.gval(sb, v.Index(i))
		}
		sb.WriteString(")")
	case reflect.Map:
		if v.IsNil() {
			sb.WriteString("nilmap")
			return
		}
		type kv struct {
			k string
			v reflect.Value
		}
		var kvs []kv
		for it := v.MapRange(); it.Next(); {
			kvs = append(kvs, kv{o.str(it.Key().String()), it.Value()})
		}
		sort.Slice(kvs, func(i, j int) bool { return kvs[i].k < kvs[j].k })
		sb.WriteString("(map")
		for _, e := range kvs {
			sb.WriteString(" (" + lib.Hex(e.k) + " ")
			o.gval(sb, e.v)
			sb.WriteString(")")
		}
		sb.WriteString(")")
	case reflect.Ptr:
		if v.IsNil() {
			sb.WriteString("nilptr")
			return
		}
		if o.collapse && v.Elem().Kind() == reflect.Ptr && fromNull(v.Elem()) {
			sb.WriteString("nilptr")
			return
		}
		sb.WriteString("(ptr ")
		o.gval(sb, v.Elem())
		sb.WriteString(")")
	default:
		sb.WriteString("?" + v.Kind().String())
	}
}

// sval is the model's SVal of a struct value.
func (o *wireOpts) sval(sb *strings.Builder, v reflect.Value) {
	rt := v.Type()
	fs, _ := corrFieldsOf(rt)
	sb.WriteString("(sv")
	for _, f := range fs {
		fv := v.Field(f.idx)
		switch f.kind {
		case ckAttr:
			if fv.Kind() == reflect.Ptr && !fv.IsNil() && fv.Elem().Kind() == reflect.Ptr && fv.Elem().IsNil() {
				o.sawPtrPtrNil = true
			}
			sb.WriteString(" (attr ")
			o.gval(sb, fv)
			sb.WriteString(")")
		case ckLabel:
			sb.WriteString(" (label " + lib.Hex(o.str(fv.String())) + ")")
		case ckBlock:
			shape, _ := blockShape(fv.Type())
			sb.WriteString(" (" + shape + " ")
			switch shape {
			case "one":
				o.sval(sb, fv)
			case "ptr":
				if fv.IsNil() {
					sb.WriteString("nil")
				} else {
					o.sval(sb, fv.Elem())
				}
			default:
				if fv.IsNil() {
					sb.WriteString("nil")
					break
				}
				sb.WriteString("(")
				first := true
				for i := 0; i < fv.Len(); i++ {
					e := fv.Index(i)
					if shape == "sliceptr" {
						if e.IsNil() {
							if o.dropNil {
								o.sawNil = true
								continue
							}
							e = reflect.Zero(e.Type().Elem()) // never compared: only with dropNil off
						} else {
							e = e.Elem()
						}
					}
					if !first {
						sb.WriteString(" ")
					}
					first = false
					o.sval(sb, e)
				}
				sb.WriteString(")")
			}
			sb.WriteString(")")
		}
	}
	sb.WriteString(")")
}

// bodyWire is the content of a parsed native body: attributes in source order with their value under a nil
// context, blocks in source order.
func bodyWire(sb *strings.Builder, b *hclsyntax.Body) bool {
	attrs := make([]*hclsyntax.Attribute, 0, len(b.Attributes))
	for _, a := range b.Attributes {
		attrs = append(attrs, a)
	}
	sort.Slice(attrs, func(i, j int) bool { return attrs[i].SrcRange.Start.Byte < attrs[j].SrcRange.Start.Byte })
	sb.WriteString("(body (")
	for i, a := range attrs {
		v, diags := a.Expr.Value(nil)
		if diags.HasErrors() {
			return false
		}
		if i > 0 {
			sb.WriteString(" ")
		}
		sb.WriteString("(" + lib.Hex(a.Name) + " " + lib.DumpValuePlain(v) + ")")
	}
	sb.WriteString(") (")
	for i, blk := range b.Blocks {
		if i > 0 {
			sb.WriteString(" ")
		}
		sb.WriteString("(block " + lib.Hex(blk.Type) + " (")
		for j, l := range blk.Labels {
			if j > 0 {
				sb.WriteString(" ")
			}
			sb.WriteString(lib.Hex(l))
		}
		sb.WriteString(") ")
		if !bodyWire(sb, blk.Body) {
			return false
		}
		sb.WriteString(")")
	}
	sb.WriteString("))")
	return true
}

// realDecode is gohcl.DecodeBody into a fresh value; a panic is a violation of the property itself.
func (c *gcorr) realDecode(rt reflect.Type, body hcl.Body, input string) (impl, collapsed string, ok bool) {
	defer func() {
		if p := recover(); p != nil {
			c.cx.Res.Fail(lib.Failure{Kind: "oracle", Key: "panic:gohcl-corr-decode", Desc: fmt.Sprintf("gohcl.DecodeBody panics: %v\n%s", p, lib.Trunc(string(debug.Stack()), 2500)), Input: input})
			impl, ok = "panic", false
		}
	}()
	target := reflect.New(rt)
	diags := gohcl.DecodeBody(body, nil, target.Interface())
	if diags.HasErrors() {
		return "err", "err", true
	}
	var sb, cb strings.Builder
	(&wireOpts{}).sval(&sb, target.Elem())
	(&wireOpts{collapse: true}).sval(&cb, target.Elem())
	return sb.String(), cb.String(), true
}

// decGap names the confirmed gap of the model behind a disagreement of `dec`, if any.
func decGap(model, impl, collapsed, bodyWire string) string {
	switch {
	case impl == "err" && model != "err" && bigIntIn(bodyWire):
		return "int-field-range-not-checked"
	case impl != collapsed && model == collapsed:
		return "null-into-pointer-to-pointer"
	}
	return ""
}

// ---- stream: schema ----

func schemaWire(s *hcl.BodySchema) string {
	var as, bs []string
	for _, a := range s.Attributes {
		o := "opt"
		if a.Required {
			o = "req"
		}
		as = append(as, "("+lib.Hex(a.Name)+" "+o+")")
	}
	for _, b := range s.Blocks {
		bs = append(bs, fmt.Sprintf("(%s %d)", lib.Hex(b.Type), len(b.LabelNames)))
	}
	return "(schema (" + strings.Join(as, " ") + ") (" + strings.Join(bs, " ") + "))"
}

func (c *gcorr) schemas() {
	seen := map[reflect.Type]bool{}
	var one func(rt reflect.Type)
	one = func(rt reflect.Type) {
		if seen[rt] {
			return
		}
		seen[rt] = true
		sty, ok := styWire(rt)
		if !ok {
			c.count("skip:type-outside-model")
			return
		}
		line := "GOHCL schema " + sty
		schema, partial := gohcl.ImpliedBodySchema(reflect.New(rt).Interface())
		impl := schemaWire(schema)
		if partial {
			impl += " partial"
		}
		model := c.cx.Ask(line)
		c.cx.Res.CorrChecked++
		c.count("schema:compared")
		if len(schema.Blocks) > 0 {
			c.count("schema:with-blocks")
		}
		if model != impl {
			c.disagree("schema", "", "gohcl.ImpliedBodySchema differs from the model's impliedSchema", line, model, impl)
		}
		fs, _ := corrFieldsOf(rt)
		for _, f := range fs {
			if f.kind == ckBlock {
				_, st := blockShape(rt.Field(f.idx).Type)
				one(st)
			}
		}
	}
	for _, ti := range c.types {
		one(ti.t)
	}
	r := c.cx.R.Fork()
	for i := 0; i < c.cx.Scale(1200, 10000); i++ {
		one(randStructType(r, r.Intn(3)))
	}
}

// ---- stream: values (enc, then dec of what was written) ----

func (c *gcorr) encDec() {
	cx := c.cx
	stats := map[string]int{}
	n := cx.Scale(3000, 40000)
	for i := 0; i < n; i++ {
		r := cx.R.Fork()
		ti := c.pickType(r)
		sty, ok := styWire(ti.t)
		if !ok {
			c.count("skip:type-outside-model")
			continue
		}
		v := newValue(ti, r.Fork(), stats)
		o := &wireOpts{nfc: !c.strict, dropNil: true}
		var sb strings.Builder
		o.sval(&sb, v.Elem())
		line := "GOHCL enc " + sty + " " + sb.String()
		if o.sawNFC {
			c.count("skip:string-sent-in-NFC")
		}
		if o.sawNil {
			c.count("skip:nil-block-element-dropped")
		}

		// the real encoder, writer and parser
		var src []byte
		panicked := ""
		func() {
			defer func() {
				if p := recover(); p != nil {
					panicked = fmt.Sprint(p)
				}
			}()
			f := hclwrite.NewEmptyFile()
			gohcl.EncodeIntoBody(v.Interface(), f.Body())
			src = f.Bytes()
		}()
		model := cx.Ask(line)
		cx.Res.CorrChecked++
		c.count("enc:compared")
		if panicked != "" {
			if model != "panic" {
				c.disagree("enc", "", "gohcl.EncodeIntoBody panics ("+panicked+"), the model's encodeBody does not", line, model, "panic")
			}
			continue
		}
		file, diags := hclsyntax.ParseConfig(src, "gohcl.hcl", hcl.InitialPos)
		if diags.HasErrors() {
			if !c.strict && findKey(v, anyKeyWithBOM) {
				c.count("skip:known-finding-map-key-leading-bom")
				continue
			}
			c.disagree("enc", "", "what gohcl.EncodeIntoBody wrote does not parse: "+diags.Error(), line, model, string(src))
			continue
		}
		var ib strings.Builder
		if !bodyWire(&ib, file.Body.(*hclsyntax.Body)) {
			c.disagree("enc", "", "an attribute written by gohcl.EncodeIntoBody does not evaluate with a nil context", line, model, string(src))
			continue
		}
		impl := ib.String()
		if model != impl {
			gap := ""
			if o.sawPtrPtrNil {
				gap = "pointer-to-nil-pointer-attribute-not-omitted"
			}
			c.disagree("enc", gap, "the body written by gohcl.EncodeIntoBody (parsed back) differs from the model's encodeBody\n"+lib.Trunc(string(src), 1500), line, model, impl)
			if gap == "" {
				continue
			}
		}
		if impl != "(body () ())" {
			c.count("enc:non-empty-body")
		}

		// decode what was written
		lineD := "GOHCL dec " + sty + " " + impl
		implD, collD, ok := c.realDecode(ti.t, file.Body, lineD)
		if !ok {
			continue
		}
		modelD := cx.Ask(lineD)
		cx.Res.CorrChecked++
		if strings.HasPrefix(modelD, "unsupported") {
			c.count("skip:conversion-outside-model:" + strings.ReplaceAll(strings.TrimPrefix(modelD, "unsupported "), " ", "-"))
			continue
		}
		c.count("dec:compared")
		if implD == "err" {
			c.count("dec:result-error")
		} else {
			c.count("dec:result-value")
		}
		if modelD != implD {
			c.disagree("dec", decGap(modelD, implD, collD, impl), "gohcl.DecodeBody of an encoded value differs from the model's decodeBody\n"+lib.Trunc(string(src), 1500), lineD, modelD, implD)
		}
	}
	for k, n := range stats {
		cx.Res.Distribution["gohcl:gen:"+k] += n
	}
}

// ---- stream: random bodies ----

type aitem struct {
	isAttr bool
	name   string
	val    cty.Value
	labels []string
	body   *abody
}

type abody struct{ items []aitem }

func (b *abody) render(dst *hclwrite.Body) {
	for _, it := range b.items {
		if it.isAttr {
			dst.SetAttributeValue(it.name, it.val)
		} else {
			it.body.render(dst.AppendNewBlock(it.name, it.labels).Body())
		}
	}
}

func num(s string) cty.Value {
	v, err := cty.ParseNumberVal(s)
	if err != nil {
		panic(err)
	}
	return v
}

func tup(vs ...cty.Value) cty.Value { return cty.TupleVal(vs) }
func obj(kvs ...interface{}) cty.Value {
	m := map[string]cty.Value{}
	for i := 0; i+1 < len(kvs); i += 2 {
		m[kvs[i].(string)] = kvs[i+1].(cty.Value)
	}
	return cty.ObjectVal(m)
}

// corrOddVals are written irrespective of the type of the field that will receive them.
var corrOddVals = []cty.Value{
	cty.NullVal(cty.DynamicPseudoType),
	cty.StringVal("abc"), cty.StringVal(""), cty.StringVal("12"), cty.StringVal("-7"), cty.StringVal("1.5"), cty.StringVal("007"),
	cty.StringVal("true"), cty.StringVal("false"), cty.StringVal("1"), cty.StringVal("0"), cty.StringVal("yes"), cty.StringVal("True"),
	cty.StringVal("9223372036854775807"), cty.StringVal("9223372036854775808"),
	cty.NumberIntVal(5), cty.NumberIntVal(0), cty.NumberIntVal(1), cty.NumberIntVal(-3), cty.NumberFloatVal(1.5), cty.NumberFloatVal(-0.25), cty.NumberFloatVal(2048.125),
	num("9223372036854775807"), num("9223372036854775808"), num("-9223372036854775808"), num("-9223372036854775809"), num("1000000000000000000000000000000"),
	cty.True, cty.False,
	cty.EmptyTupleVal, tup(cty.StringVal("a")), tup(cty.NumberIntVal(1), cty.StringVal("a")), tup(cty.NullVal(cty.DynamicPseudoType)), tup(cty.NumberFloatVal(1.5)),
	tup(cty.NumberIntVal(1), cty.NumberIntVal(2)), tup(cty.True, cty.False), tup(cty.True, cty.StringVal("x")),
	tup(tup(cty.StringVal("a")), tup(cty.StringVal("b"), cty.StringVal("c"))), tup(cty.EmptyTupleVal), tup(cty.EmptyObjectVal), tup(tup(cty.NumberIntVal(1)), cty.StringVal("a")),
	tup(num("9223372036854775808")), tup(cty.StringVal("3"), cty.NumberIntVal(4)),
	cty.EmptyObjectVal, obj("a", cty.StringVal("x")), obj("a", cty.NumberIntVal(1), "b", cty.StringVal("y")), obj("a", cty.NullVal(cty.DynamicPseudoType)),
	obj("k", tup(cty.StringVal("a"))), obj("k", obj("z", cty.NumberIntVal(1))), obj("for", cty.StringVal("x")), obj("a b", cty.NumberIntVal(2)), obj("a", cty.NumberFloatVal(1.5)),
	obj("t", cty.True, "u", cty.StringVal("false")), obj("n", num("-9223372036854775809")), obj("k", cty.EmptyTupleVal, "l", tup(cty.NumberIntVal(1))),
}

// corrEdgeNums: around the ends of int64, fractions, numeric strings.
var corrEdgeNums = []cty.Value{
	num("9223372036854775807"), num("9223372036854775808"), num("-9223372036854775808"), num("-9223372036854775809"), num("18446744073709551616"),
	cty.NumberFloatVal(0.5), cty.NumberFloatVal(-1.5), cty.NumberFloatVal(4611686018427387904.5), cty.StringVal("-9223372036854775808"), cty.StringVal("9223372036854775808"), cty.StringVal("0.5"),
}

type bodyGen struct {
	c      *gcorr
	r      *lib.Rand
	g      *gen
	p      int // per-mille probability of each perturbation
	budget int // perturbations left (negative: no limit)
	tags   map[string]bool
}

func (bg *bodyGen) hit(tag string) bool {
	if bg.p > 0 && bg.budget != 0 && bg.r.Intn(1000) < bg.p {
		bg.tags[tag] = true
		bg.budget--
		return true
	}
	return false
}

// oddValue picks a value irrespective of the field type, with a bias towards the same kind of value (a
// primitive for a primitive field, a tuple for a slice, an object for a map): those are the conversions that
// can go either way.
func (bg *bodyGen) oddValue(ft reflect.Type) cty.Value {
	for ft.Kind() == reflect.Ptr {
		ft = ft.Elem()
	}
	if ft.Kind() == reflect.Int && bg.r.Chance(1, 3) {
		return corrEdgeNums[bg.r.Intn(len(corrEdgeNums))]
	}
	for try := 0; try < 6; try++ {
		v := corrOddVals[bg.r.Intn(len(corrOddVals))]
		vt := v.Type()
		same := false
		switch ft.Kind() {
		case reflect.Slice:
			same = vt.IsTupleType()
		case reflect.Map:
			same = vt.IsObjectType()
		default:
			same = vt.IsPrimitiveType()
		}
		if same || bg.r.Chance(1, 4) {
			return v
		}
	}
	return corrOddVals[bg.r.Intn(len(corrOddVals))]
}

func (bg *bodyGen) rightValue(ft reflect.Type) cty.Value {
	p := reflect.New(ft)
	bg.g.fillAttr(p.Elem(), 0)
	ty, err := gocty.ImpliedType(p.Elem().Interface())
	if err != nil {
		panic(err)
	}
	v, err := gocty.ToCtyValue(p.Elem().Interface(), ty)
	if err != nil {
		panic(err)
	}
	return v
}

func (bg *bodyGen) body(rt reflect.Type, depth int) *abody {
	r := bg.r
	fs, _ := corrFieldsOf(rt)
	b := &abody{}
	var attrNames, blockNames []string
	for _, f := range fs {
		ft := rt.Field(f.idx).Type
		switch f.kind {
		case ckAttr:
			attrNames = append(attrNames, f.name)
			required := !f.optional && ft.Kind() != reflect.Ptr
			switch {
			case bg.hit("attr-omitted"):
				if required {
					bg.tags["required-attr-omitted"] = true
				}
				continue
			case !required && r.Chance(1, 3):
				continue
			case bg.hit("attr-odd-value"):
				b.items = append(b.items, aitem{isAttr: true, name: f.name, val: bg.oddValue(ft)})
			case bg.hit("attr-null"):
				b.items = append(b.items, aitem{isAttr: true, name: f.name, val: cty.NullVal(cty.DynamicPseudoType)})
			default:
				b.items = append(b.items, aitem{isAttr: true, name: f.name, val: bg.rightValue(ft)})
			}
		case ckBlock:
			blockNames = append(blockNames, f.name)
			shape, st := blockShape(ft)
			sfs, _ := corrFieldsOf(st)
			nl := 0
			for _, sf := range sfs {
				if sf.kind == ckLabel {
					nl++
				}
			}
			cnt := 1
			switch shape {
			case "ptr":
				cnt = r.Intn(2)
			case "slice", "sliceptr":
				cnt = r.Intn(4)
			}
			if depth >= 3 && shape != "one" {
				cnt = 0
			}
			if bg.hit("block-count") {
				cnt = []int{0, 2, 3}[r.Intn(3)]
				bg.tags["block-count:"+shape+fmt.Sprintf(":%d", cnt)] = true
			}
			for j := 0; j < cnt; j++ {
				k := nl
				if bg.hit("label-count") {
					if k > 0 && r.Chance(1, 2) {
						k--
					} else {
						k++
					}
				}
				labels := make([]string, k)
				for q := range labels {
					labels[q] = bg.g.label()
				}
				b.items = append(b.items, aitem{name: f.name, labels: labels, body: bg.body(st, depth+1)})
			}
		}
	}
	if bg.hit("extra-item") {
		switch r.Intn(5) {
		case 0:
			b.items = append(b.items, aitem{isAttr: true, name: "zz_extra", val: cty.NumberIntVal(1)})
		case 1:
			b.items = append(b.items, aitem{name: "zz_unknown", body: &abody{}})
		case 2:
			b.items = append(b.items, aitem{name: "zz_unknown", labels: []string{"l"}, body: &abody{items: []aitem{{isAttr: true, name: "a", val: cty.True}}}})
		case 3:
			if len(blockNames) > 0 {
				// an attribute named like a block type
				b.items = append(b.items, aitem{isAttr: true, name: r.Pick(blockNames), val: cty.StringVal("x")})
			}
		default:
			if len(attrNames) > 0 {
				// a block named like an attribute
				b.items = append(b.items, aitem{name: r.Pick(attrNames), body: &abody{}})
			}
		}
	}
	// the order of the items is free (blocks of one type keep their relative order only by chance, which is
	// all the same to both sides: they read the same text)
	for i := len(b.items) - 1; i > 0; i-- {
		j := r.Intn(i + 1)
		b.items[i], b.items[j] = b.items[j], b.items[i]
	}
	return b
}

// bigIntIn reports a whole number outside int64 in the wire text of a body.
func bigIntIn(wire string) bool {
	min, max := big.NewInt(-1<<63), new(big.Int).SetUint64(1<<63-1)
	for _, f := range strings.FieldsFunc(wire, func(c rune) bool { return c == ' ' || c == '(' || c == ')' }) {
		if len(f) < 19 || strings.Contains(f, "/") {
			continue
		}
		if n, ok := new(big.Int).SetString(f, 10); ok && (n.Cmp(min) < 0 || n.Cmp(max) > 0) {
			return true
		}
	}
	return false
}

func (c *gcorr) bodies() {
	cx := c.cx
	n := cx.Scale(5000, 60000)
	for i := 0; i < n; i++ {
		r := cx.R.Fork()
		ti := c.pickType(r)
		sty, ok := styWire(ti.t)
		if !ok {
			c.count("skip:type-outside-model")
			continue
		}
		bg := &bodyGen{c: c, r: r, g: &gen{r: r.Fork()}, tags: map[string]bool{}}
		bg.budget = -1
		switch r.Intn(3) {
		case 0: // valid
		case 1: // a single fault
			bg.p, bg.budget = 100+r.Intn(200), 1
		default:
			bg.p = 40 + r.Intn(220)
		}
		ab := bg.body(ti.t, 0)
		f := hclwrite.NewEmptyFile()
		ab.render(f.Body())
		src := f.Bytes()
		file, diags := hclsyntax.ParseConfig(src, "gohcl.hcl", hcl.InitialPos)
		if diags.HasErrors() {
			// not a matter of gohcl: hclwrite wrote something that does not parse (map keys with a leading BOM)
			c.count("skip:body-source-unparseable")
			continue
		}
		var ib strings.Builder
		if !bodyWire(&ib, file.Body.(*hclsyntax.Body)) {
			c.count("skip:body-attribute-not-constant")
			continue
		}
		line := "GOHCL dec " + sty + " " + ib.String()
		impl, coll, ok := c.realDecode(ti.t, file.Body, line)
		if !ok {
			continue
		}
		model := cx.Ask(line)
		cx.Res.CorrChecked++
		if strings.HasPrefix(model, "unsupported") {
			c.count("skip:conversion-outside-model:" + strings.ReplaceAll(strings.TrimPrefix(model, "unsupported "), " ", "-"))
			continue
		}
		c.count("body:compared")
		switch {
		case len(bg.tags) == 0:
			c.count("body:unperturbed")
		case bg.budget == 0:
			c.count("body:single-fault")
		}
		for t := range bg.tags {
			c.count("body:perturbed:" + t)
		}
		if impl == "err" {
			c.count("body:result-error")
		} else {
			c.count("body:result-value")
		}
		if i%97 == 0 {
			cx.Res.Sample(ti.name + "\n" + lib.Trunc(string(src), 800) + "\n=> " + lib.Trunc(impl, 300))
		}
		if model != impl {
			c.disagree("dec", decGap(model, impl, coll, ib.String()), "gohcl.DecodeBody differs from the model's decodeBody\n"+lib.Trunc(string(src), 1500), line, model, impl)
		}
	}
}

// ---- stream: attribute types and values ----

func randAttrType(r *lib.Rand, depth int) reflect.Type {
	k := r.Intn(12)
	if depth >= 3 {
		k = r.Intn(3)
	}
	switch {
	case k == 0:
		return reflect.TypeOf("")
	case k == 1:
		return reflect.TypeOf(0)
	case k == 2:
		return reflect.TypeOf(false)
	case k < 7:
		return reflect.SliceOf(randAttrType(r, depth+1))
	case k < 10:
		return reflect.MapOf(reflect.TypeOf(""), randAttrType(r, depth+1))
	default:
		return reflect.PointerTo(randAttrType(r, depth+1))
	}
}

// ptrKinds classifies the pointers of an attribute type: "coll" = a pointer to a slice or map (directly or
// through further pointers), "ptr" = a pointer to a pointer, "inner" = a pointer below a slice or map.
func ptrKinds(rt reflect.Type, below bool, out map[string]bool) {
	switch rt.Kind() {
	case reflect.Ptr:
		if below {
			out["inner"] = true
		}
		e := rt.Elem()
		if e.Kind() == reflect.Ptr {
			out["ptr"] = true
		}
		for e.Kind() == reflect.Ptr {
			e = e.Elem()
		}
		if e.Kind() == reflect.Slice || e.Kind() == reflect.Map {
			out["coll"] = true
		}
		ptrKinds(rt.Elem(), below, out)
	case reflect.Slice, reflect.Map:
		ptrKinds(rt.Elem(), true, out)
	}
}

func (c *gcorr) attrs() {
	cx := c.cx
	n := cx.Scale(5000, 60000)
	for i := 0; i < n; i++ {
		r := cx.R.Fork()
		var rt reflect.Type
		if r.Chance(1, 3) {
			rt = corrAttrTypes[r.Intn(len(corrAttrTypes))]
		} else {
			rt = randAttrType(r, 0)
		}
		gt, _ := gtyWire(rt)
		g := &gen{r: r.Fork()}
		p := reflect.New(rt)
		g.fillAttr(p.Elem(), 0)
		o := &wireOpts{nfc: !c.strict}
		var sb strings.Builder
		o.gval(&sb, p.Elem())
		line := "GOHCL attr " + gt + " " + sb.String()
		if o.sawNFC {
			c.count("skip:string-sent-in-NFC")
		}
		if !c.strict && findKey(p.Elem(), anyKeyWithBOM) {
			c.count("skip:known-finding-map-key-leading-bom")
			continue
		}

		impl, collapsed := "", ""
		func() {
			defer func() {
				if p := recover(); p != nil {
					impl = fmt.Sprintf("panic: %v", p)
				}
			}()
			val := p.Elem().Interface()
			ty, err := gocty.ImpliedType(val)
			if err != nil {
				impl = "no-implied-type"
				return
			}
			cv, err := gocty.ToCtyValue(val, ty)
			if err != nil {
				impl = lib.DumpType(ty) + " | none | none | none"
				return
			}
			impl = lib.DumpType(ty) + " | " + lib.DumpValuePlain(cv)
			src := hclwrite.TokensForValue(cv).Bytes()
			expr, diags := hclsyntax.ParseExpression(src, "gohcl.hcl", hcl.InitialPos)
			if diags.HasErrors() {
				impl += " | unparseable: " + string(src)
				return
			}
			rv, diags := expr.Value(nil)
			if diags.HasErrors() {
				impl += " | not-constant: " + string(src)
				return
			}
			impl += " | " + lib.DumpValuePlain(rv)
			target := reflect.New(rt)
			if diags := gohcl.DecodeExpression(expr, nil, target.Interface()); diags.HasErrors() {
				impl += " | err"
				return
			}
			var bb, cb strings.Builder
			(&wireOpts{}).gval(&bb, target.Elem())
			(&wireOpts{collapse: true}).gval(&cb, target.Elem())
			collapsed = impl + " | " + cb.String()
			impl += " | " + bb.String()
		}()
		model := cx.Ask(line)
		cx.Res.CorrChecked++
		if i := strings.Index(model, "| unsupported "); i >= 0 {
			c.count("skip:conversion-outside-model:" + strings.ReplaceAll(model[i+14:], " ", "-"))
			continue
		}
		c.count("attr:compared")
		pk := map[string]bool{}
		ptrKinds(rt, false, pk)
		switch {
		case len(pk) == 0:
			c.count("attr:type-without-pointer")
		case pk["inner"]:
			c.count("attr:type-with-inner-pointer")
		default:
			c.count("attr:type-with-top-pointer")
		}
		if strings.HasSuffix(impl, "| err") {
			c.count("attr:result-error")
		}
		if model != impl {
			gap := ""
			if collapsed != "" && impl != collapsed && model == collapsed {
				gap = "null-into-pointer-to-pointer"
			}
			c.disagree("attr", gap, "gocty.ImpliedType / ToCtyValue / the written and re-evaluated value / gohcl.DecodeExpression differ from the model (ctyTy | toCty | reparse | decodeExpr)", line, model, impl)
		}
	}
}
