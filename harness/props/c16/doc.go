package c16

import (
	"fmt"
	"math/big"
	"reflect"
	"sort"
	"strconv"
	"strings"
	"unicode/utf8"

	"github.com/zclconf/go-cty/cty"
	"golang.org/x/text/unicode/norm"

	"hx/lib"
)

// jnode is a JSON document tree (object property order is significant for HCL's JSON syntax).
type jnode struct {
	kind byte // 'o' object, 'a' array, 's' string, 'n' number (text in s), 't', 'f', 'z' null
	s    string
	keys []string
	kids []*jnode
}

func jStr(s string) *jnode    { return &jnode{kind: 's', s: s} }
func jNum(s string) *jnode    { return &jnode{kind: 'n', s: s} }
func jNull() *jnode           { return &jnode{kind: 'z'} }
func jArr(k ...*jnode) *jnode { return &jnode{kind: 'a', kids: k} }
func jBool(b bool) *jnode {
	if b {
		return &jnode{kind: 't'}
	}
	return &jnode{kind: 'f'}
}
func (n *jnode) put(k string, v *jnode) {
	n.keys = append(n.keys, k)
	n.kids = append(n.kids, v)
}

// tmplEscape writes a string so that evaluating it as an HCL template gives the string back.
func tmplEscape(s string) string {
	var sb strings.Builder
	for i := 0; i < len(s); i++ {
		c := s[i]
		sb.WriteByte(c)
		if (c == '$' || c == '%') && i+1 < len(s) && s[i+1] == '{' {
			sb.WriteByte(c)
		}
	}
	return sb.String()
}

// docBuilder builds the JSON document equivalent to a struct value.
type docBuilder struct {
	r    *lib.Rand
	tmpl bool // strings will be evaluated as templates (non-nil EvalContext): escape introducers
}

func (b *docBuilder) strNode(s string) *jnode {
	if b.tmpl {
		return jStr(tmplEscape(s))
	}
	return jStr(s)
}

func (b *docBuilder) key(s string) string {
	if b.tmpl {
		return tmplEscape(s)
	}
	return s
}

// exactDecimal renders a big.Float exactly in decimal notation.
func exactDecimal(bf *big.Float) string {
	if bf.IsInt() {
		i, _ := bf.Int(nil)
		return i.String()
	}
	r, _ := bf.Rat(nil)
	k := r.Denom().BitLen() // denominator is a power of two: 2^(k-1); k-1 decimals suffice
	s := r.FloatString(k)
	s = strings.TrimRight(s, "0")
	return strings.TrimSuffix(s, ".")
}

func (b *docBuilder) floatNode(f float64, bits int) *jnode {
	switch b.r.Intn(3) {
	case 0:
		return jNum(strconv.FormatFloat(f, 'g', -1, bits))
	case 1:
		return jNum(strconv.FormatFloat(f, 'e', -1, bits))
	default:
		return jNum(exactDecimal(new(big.Float).SetPrec(64).SetFloat64(f)))
	}
}

func (b *docBuilder) value(v reflect.Value) *jnode {
	t := v.Type()
	if t == ctyValueType {
		return b.ctyNode(v.Interface().(cty.Value))
	}
	switch t.Kind() {
	case reflect.String:
		return b.strNode(v.String())
	case reflect.Bool:
		return jBool(v.Bool())
	case reflect.Int, reflect.Int8, reflect.Int16, reflect.Int32, reflect.Int64:
		return jNum(strconv.FormatInt(v.Int(), 10))
	case reflect.Uint, reflect.Uint8, reflect.Uint16, reflect.Uint32, reflect.Uint64:
		return jNum(strconv.FormatUint(v.Uint(), 10))
	case reflect.Float64:
		return b.floatNode(v.Float(), 64)
	case reflect.Float32:
		// the float32 value, written so that it denotes exactly that value
		return jNum(exactDecimal(new(big.Float).SetPrec(64).SetFloat64(v.Float())))
	case reflect.Ptr:
		if v.IsNil() {
			return jNull()
		}
		return b.value(v.Elem())
	case reflect.Slice:
		if v.IsNil() {
			return jNull()
		}
		n := jArr()
		for i := 0; i < v.Len(); i++ {
			n.kids = append(n.kids, b.value(v.Index(i)))
		}
		return n
	case reflect.Map:
		if v.IsNil() {
			return jNull()
		}
		n := &jnode{kind: 'o'}
		keys := v.MapKeys()
		sort.Slice(keys, func(i, j int) bool { return keys[i].String() < keys[j].String() })
		// random property order
		for i := len(keys) - 1; i > 0; i-- {
			j := b.r.Intn(i + 1)
			keys[i], keys[j] = keys[j], keys[i]
		}
		for _, k := range keys {
			n.put(b.key(k.String()), b.value(v.MapIndex(k)))
		}
		return n
	case reflect.Struct:
		n := &jnode{kind: 'o'}
		for i := 0; i < t.NumField(); i++ {
			name := t.Field(i).Tag.Get("cty")
			n.put(b.key(name), b.value(v.Field(i)))
		}
		return n
	}
	return jNull()
}

func (b *docBuilder) ctyNode(v cty.Value) *jnode {
	if v == cty.NilVal || v.IsNull() {
		return jNull()
	}
	t := v.Type()
	switch {
	case t == cty.String:
		return b.strNode(v.AsString())
	case t == cty.Number:
		// cty's own convention (cty/json.Marshal, and cty's number equality): integers exactly, other
		// numbers as the shortest decimal text that identifies the value at its precision
		if bf := v.AsBigFloat(); !bf.IsInt() {
			return jNum(bf.Text('f', -1))
		}
		return jNum(exactDecimal(v.AsBigFloat()))
	case t == cty.Bool:
		return jBool(v.True())
	case t.IsListType() || t.IsSetType() || t.IsTupleType():
		n := jArr()
		for it := v.ElementIterator(); it.Next(); {
			_, ev := it.Element()
			n.kids = append(n.kids, b.ctyNode(ev))
		}
		return n
	case t.IsMapType() || t.IsObjectType():
		n := &jnode{kind: 'o'}
		for it := v.ElementIterator(); it.Next(); {
			k, ev := it.Element()
			n.put(b.key(k.AsString()), b.ctyNode(ev))
		}
		return n
	}
	return jNull()
}

func nest(labels []string, body *jnode) *jnode {
	if len(labels) == 0 {
		return body
	}
	o := &jnode{kind: 'o'}
	o.put(labels[0], nest(labels[1:], body))
	return o
}

// body builds the JSON object for a tagged struct: attributes as JSON values, blocks as nested objects
// keyed by their labels, arrays for repeated blocks (three equivalent layouts, chosen at random).
func (b *docBuilder) body(v reflect.Value) *jnode {
	t := v.Type()
	type prop struct {
		k string
		v *jnode
	}
	var props []prop
	for _, fi := range fieldsOf(t) {
		f := v.Field(fi.idx)
		ft := f.Type()
		switch fi.kind {
		case fkAttr:
			if undecoded(ft) {
				continue
			}
			if ft.Kind() == reflect.Ptr && f.IsNil() {
				continue // absent
			}
			props = append(props, prop{fi.name, b.value(f)})
		case fkBlock:
			var insts []reflect.Value
			switch ft.Kind() {
			case reflect.Struct:
				insts = append(insts, f)
			case reflect.Ptr:
				if !f.IsNil() {
					insts = append(insts, f.Elem())
				}
			case reflect.Slice:
				for i := 0; i < f.Len(); i++ {
					e := f.Index(i)
					if e.Kind() == reflect.Ptr {
						if e.IsNil() {
							continue
						}
						e = e.Elem()
					}
					insts = append(insts, e)
				}
			}
			if len(insts) == 0 {
				// "no blocks" may also be written as [] or null, but only for unlabelled block types: with
				// labels the JSON syntax asks for at least one label property
				form := b.r.Intn(4)
				if hasLabels(ft) {
					form = 3
				}
				switch form {
				case 0:
					props = append(props, prop{fi.name, jArr()})
				case 1:
					props = append(props, prop{fi.name, jNull()})
				}
				continue
			}
			labels := make([][]string, len(insts))
			bodies := make([]*jnode, len(insts))
			distinctFirst := true
			seen := map[string]bool{}
			for i, e := range insts {
				for _, lf := range fieldsOf(e.Type()) {
					if lf.kind == fkLabel {
						labels[i] = append(labels[i], norm.NFC.String(e.Field(lf.idx).String()))
					}
				}
				bodies[i] = b.body(e)
				if len(labels[i]) == 0 || seen[labels[i][0]] {
					distinctFirst = false
				} else {
					seen[labels[i][0]] = true
				}
			}
			var node *jnode
			form := b.r.Intn(3)
			if len(insts) > 1 && len(labels[0]) >= 2 && b.r.Chance(1, 2) {
				form = 3
			}
			switch {
			case form == 3:
				// one nested object per label level, consecutive blocks with an equal prefix sharing the objects
				var tree func(lo, hi, depth int) *jnode
				tree = func(lo, hi, depth int) *jnode {
					if depth == len(labels[lo]) {
						if hi-lo == 1 {
							return bodies[lo]
						}
						a := jArr()
						a.kids = append(a.kids, bodies[lo:hi]...)
						return a
					}
					o := &jnode{kind: 'o'}
					for k := lo; k < hi; {
						m := k + 1
						for m < hi && labels[m][depth] == labels[k][depth] {
							m++
						}
						o.put(labels[k][depth], tree(k, m, depth+1))
						k = m
					}
					return o
				}
				node = tree(0, len(insts), 0)
			case form == 0 && len(insts) == 1:
				node = nest(labels[0], bodies[0])
			case form == 1 && distinctFirst:
				node = &jnode{kind: 'o'}
				for i := range insts {
					node.put(labels[i][0], nest(labels[i][1:], bodies[i]))
				}
			default:
				node = jArr()
				for i := range insts {
					node.kids = append(node.kids, nest(labels[i], bodies[i]))
				}
			}
			props = append(props, prop{fi.name, node})
		}
	}
	for i := len(props) - 1; i > 0; i-- {
		j := b.r.Intn(i + 1)
		props[i], props[j] = props[j], props[i]
	}
	o := &jnode{kind: 'o'}
	for _, p := range props {
		o.put(p.k, p.v)
	}
	return o
}

// ---- rendering ----

type jrender struct {
	r     *lib.Rand
	sb    strings.Builder
	ascii bool // escape every non-ASCII character
	ws    bool
}

func (w *jrender) gap() {
	if !w.ws {
		return
	}
	switch w.r.Intn(6) {
	case 0:
		w.sb.WriteString(" ")
	case 1:
		w.sb.WriteString("\n  ")
	case 2:
		w.sb.WriteString("\t")
	case 3:
		w.sb.WriteString("\r\n")
	}
}

func (w *jrender) str(s string) {
	w.sb.WriteByte('"')
	for _, c := range s {
		switch {
		case c == '"':
			w.sb.WriteString(`\"`)
		case c == '\\':
			w.sb.WriteString(`\\`)
		case c == '\n' && w.r.Chance(1, 2):
			w.sb.WriteString(`\n`)
		case c == '\t' && w.r.Chance(1, 2):
			w.sb.WriteString(`\t`)
		case c == '\r' && w.r.Chance(1, 2):
			w.sb.WriteString(`\r`)
		case c == '/' && w.r.Chance(1, 4):
			w.sb.WriteString(`\/`)
		case c < 0x20:
			fmt.Fprintf(&w.sb, `\u%04x`, c)
		case c == utf8.RuneError:
			w.sb.WriteString(`�`)
		case c > 0x7e && (w.ascii || w.r.Chance(1, 8)):
			if c >= 0x10000 {
				c2 := c - 0x10000
				fmt.Fprintf(&w.sb, `\u%04x\u%04x`, 0xd800+(c2>>10), 0xdc00+(c2&0x3ff))
			} else {
				fmt.Fprintf(&w.sb, `\u%04X`, c)
			}
		default:
			w.sb.WriteRune(c)
		}
	}
	w.sb.WriteByte('"')
}

func (w *jrender) node(n *jnode) {
	switch n.kind {
	case 'o':
		w.sb.WriteByte('{')
		for i, k := range n.keys {
			if i > 0 {
				w.sb.WriteByte(',')
			}
			w.gap()
			w.str(k)
			w.gap()
			w.sb.WriteByte(':')
			w.gap()
			w.node(n.kids[i])
		}
		w.gap()
		w.sb.WriteByte('}')
	case 'a':
		w.sb.WriteByte('[')
		for i, k := range n.kids {
			if i > 0 {
				w.sb.WriteByte(',')
			}
			w.gap()
			w.node(k)
		}
		w.gap()
		w.sb.WriteByte(']')
	case 's':
		w.str(n.s)
	case 'n':
		w.sb.WriteString(n.s)
	case 't':
		w.sb.WriteString("true")
	case 'f':
		w.sb.WriteString("false")
	default:
		w.sb.WriteString("null")
	}
}

func renderJSON(r *lib.Rand, n *jnode) string {
	w := &jrender{r: r, ascii: r.Chance(1, 4), ws: r.Chance(2, 3)}
	w.gap()
	w.node(n)
	w.gap()
	return w.sb.String()
}

// ---- structural mutation (ill-formed stream) ----

func allNodes(n *jnode, out *[]*jnode) {
	*out = append(*out, n)
	for _, k := range n.kids {
		allNodes(k, out)
	}
}

func randomJNode(r *lib.Rand, depth int) *jnode {
	switch r.Intn(9) {
	case 0:
		return jStr(strPieces[r.Intn(len(strPieces))] + strPieces[r.Intn(len(strPieces))])
	case 1:
		return jNum(r.Pick([]string{"0", "1", "-1", "1.5", "1e400", "-1e-400", "123456789012345678901234567890", "0.1", "256", "-129", "1e3"}))
	case 2:
		return jBool(r.Chance(1, 2))
	case 3:
		return jNull()
	case 4:
		return jStr(r.Pick([]string{"${x}", "${", "%{if true}a%{endif}", "${u}", "${m}", "${d}", "${[1,2]}", "${{a=1}}", "${null}", "${1/0}", "${f()}", "${upper(\"a\")}", "%{for", "${x[*].y}"}))
	case 5, 6:
		n := jArr()
		if depth > 0 {
			for i := r.Intn(3); i > 0; i-- {
				n.kids = append(n.kids, randomJNode(r, depth-1))
			}
		}
		return n
	default:
		n := &jnode{kind: 'o'}
		if depth > 0 {
			for i := r.Intn(3); i > 0; i-- {
				n.put(r.Pick([]string{"a", "name", "for", "", "//", "x", "${k}", "tags", "n", "sub", "leaf"}), randomJNode(r, depth-1))
			}
		}
		return n
	}
}

// mutateDoc applies 1-3 structural edits: wrong types, missing and duplicated properties, extra properties,
// wrong label nesting.
func mutateDoc(r *lib.Rand, root *jnode) {
	for k := 1 + r.Intn(3); k > 0; k-- {
		var nodes []*jnode
		allNodes(root, &nodes)
		n := nodes[r.Intn(len(nodes))]
		switch r.Intn(7) {
		case 0, 1: // wrong type / arbitrary replacement
			*n = *randomJNode(r, 2)
		case 2: // drop a property or element
			if len(n.kids) > 0 {
				i := r.Intn(len(n.kids))
				n.kids = append(n.kids[:i:i], n.kids[i+1:]...)
				if n.kind == 'o' {
					n.keys = append(n.keys[:i:i], n.keys[i+1:]...)
				}
			}
		case 3: // duplicate a property or element
			if len(n.kids) > 0 {
				i := r.Intn(len(n.kids))
				n.kids = append(n.kids, n.kids[i])
				if n.kind == 'o' {
					n.keys = append(n.keys, n.keys[i])
				}
			}
		case 4: // extra property
			if n.kind == 'o' {
				n.put(r.Pick([]string{"extra", "name", "//", "", "for", "req", "many", "sub", "one"}), randomJNode(r, 1))
			}
		case 5: // wrap in array / object (changes label nesting depth)
			c := *n
			if r.Chance(1, 2) {
				*n = *jArr(&c)
			} else {
				o := &jnode{kind: 'o'}
				o.put(r.Pick([]string{"lbl", "", "a"}), &c)
				*n = *o
			}
		default: // unwrap
			if len(n.kids) > 0 {
				*n = *n.kids[r.Intn(len(n.kids))]
			}
		}
	}
}

func hasLabels(t reflect.Type) bool {
	for t.Kind() == reflect.Ptr || t.Kind() == reflect.Slice {
		t = t.Elem()
	}
	for _, fi := range fieldsOf(t) {
		if fi.kind == fkLabel {
			return true
		}
	}
	return false
}
