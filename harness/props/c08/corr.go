package c08

import (
	"encoding/json"
	"fmt"
	"regexp"
	"sort"
	"strings"

	"github.com/hashicorp/hcl/v2"
	"github.com/hashicorp/hcl/v2/hcldec"
	"github.com/hashicorp/hcl/v2/hclsyntax"
	"github.com/zclconf/go-cty/cty"

	"hx/lib"
	"hx/props/decgen"
)

// DEC correspondence: hcldec.Decode / hcldec.ImpliedType against the Lean model HclModel/Dec/Decode.lean
// (driver: lean/Driver/OpDec.lean, which documents the wire format).
//
//	DEC <spec> <content>   ->   <value> ok|err <implied type> <notes>  |  crash <implied type> <notes>
//
// The model decodes body *content* (schema processing is C04's business), so the harness sends, for the root
// body and recursively for every block, exactly what body.PartialContent(hcldec.ImpliedSchema(spec of that
// level)) returns: the attributes with the value of their expression under a nil EvalContext and whether that
// evaluation reported an error, and the blocks with their labels. Compared: the implied type (always); crash
// <=> panic; the value whenever the real decode returns; the error flag only when the real diagnostics hold
// no error of schema processing (which the model's flag does not include).

// decInput is the replayable description of a disagreement.
type decInput struct {
	Seed    uint64 `json:"case_seed"`
	Spec    string `json:"spec"`
	Native  string `json:"native"`
	Perturb string `json:"perturbations,omitempty"`
	Mutate  string `json:"spec_mutation,omitempty"`
	Line    string `json:"model_line"`
	Diags   string `json:"diagnostics,omitempty"`
}

func corrDec(cx *lib.Ctx) {
	if !cx.HasModel() {
		return
	}
	root := cx.R.Fork()
	n := cx.Scale(8000, 120000)
	for i := 0; i < n; i++ {
		decCase(cx, root.U64())
	}
}

// ---------------------------------------------------------------------------------------------
// specs: decgen's trees cut down to the modelled kinds, then rebuilt as real hcldec specs

// unmodelledType names the first reason a type is outside the value model ("" = expressible).
func unmodelledType(t cty.Type) string {
	switch {
	case t == cty.String, t == cty.Number, t == cty.Bool, t == cty.DynamicPseudoType:
		return ""
	case t.IsSetType():
		return "set-type"
	case t.IsListType(), t.IsMapType():
		return unmodelledType(t.ElementType())
	case t.IsTupleType():
		for _, et := range t.TupleElementTypes() {
			if w := unmodelledType(et); w != "" {
				return w
			}
		}
		return ""
	case t.IsObjectType():
		if len(t.OptionalAttributes()) > 0 {
			return "optional-attribute-type"
		}
		for _, et := range t.AttributeTypes() {
			if w := unmodelledType(et); w != "" {
				return w
			}
		}
		return ""
	}
	return "other-type"
}

// unmodelledValue names the first reason a value is outside the value model ("" = expressible).
func unmodelledValue(v cty.Value) string {
	if v == cty.NilVal {
		return "nilval"
	}
	if v.ContainsMarked() {
		return "marks"
	}
	if w := unmodelledType(v.Type()); w != "" {
		return w
	}
	if lib.DumpValue(v) != lib.DumpValuePlain(v) {
		return "refinements"
	}
	return ""
}

// modelType rewrites set types to list types (the nearest modelled constraint) and drops optional-attribute
// markers; everything else is kept.
func modelType(t cty.Type) cty.Type {
	switch {
	case t.IsSetType():
		return cty.List(modelType(t.ElementType()))
	case t.IsListType():
		return cty.List(modelType(t.ElementType()))
	case t.IsMapType():
		return cty.Map(modelType(t.ElementType()))
	case t.IsTupleType():
		ets := t.TupleElementTypes()
		out := make([]cty.Type, len(ets))
		for i, et := range ets {
			out[i] = modelType(et)
		}
		return cty.Tuple(out)
	case t.IsObjectType():
		m := map[string]cty.Type{}
		for k, et := range t.AttributeTypes() {
			m[k] = modelType(et)
		}
		return cty.Object(m)
	}
	return t
}

// modelValue rewrites a literal the same way: sets become lists.
func modelValue(v cty.Value) cty.Value {
	t := v.Type()
	if unmodelledType(t) == "" || v.IsMarked() {
		return v
	}
	mt := modelType(t)
	switch {
	case v.IsNull():
		return cty.NullVal(mt)
	case !v.IsKnown():
		return cty.UnknownVal(mt)
	case t.IsSetType(), t.IsListType(), t.IsTupleType():
		var elems []cty.Value
		for it := v.ElementIterator(); it.Next(); {
			_, ev := it.Element()
			elems = append(elems, modelValue(ev))
		}
		switch {
		case t.IsTupleType():
			return cty.TupleVal(elems)
		case len(elems) == 0:
			return cty.ListValEmpty(mt.ElementType())
		}
		return cty.ListVal(elems)
	case t.IsMapType(), t.IsObjectType():
		elems := map[string]cty.Value{}
		for it := v.ElementIterator(); it.Next(); {
			kv, ev := it.Element()
			elems[kv.AsString()] = modelValue(ev)
		}
		switch {
		case t.IsObjectType():
			return cty.ObjectVal(elems)
		case len(elems) == 0:
			return cty.MapValEmpty(mt.ElementType())
		}
		return cty.MapVal(elems)
	}
	return v
}

// pruneSpec copies a decgen tree keeping only modelled kinds: adapters (validate, refine, transform) are
// replaced by what they wrap, ExprSpec by a LiteralSpec of its value, BlockSet by BlockList, set types and set
// values by list types and lists. why != "" when something inexpressible remains.
func pruneSpec(n *decgen.SNode) (out *decgen.SNode, why string) {
	switch n.Kind {
	case decgen.KValidate, decgen.KRefine, decgen.KTransformExpr, decgen.KTransformFunc:
		return pruneSpec(n.Kids[0])
	case decgen.KExpr:
		lit := modelValue(n.Lit)
		if w := unmodelledValue(lit); w != "" {
			return nil, "literal-" + w
		}
		return &decgen.SNode{Kind: decgen.KLiteral, Lit: lit}, ""
	}
	c := *n
	c.Spec = nil
	c.Kids = nil
	c.LabelNames = append([]string(nil), n.LabelNames...)
	c.Keys = append([]string(nil), n.Keys...)
	for _, k := range n.Kids {
		pk, w := pruneSpec(k)
		if w != "" {
			return nil, w
		}
		c.Kids = append(c.Kids, pk)
	}
	switch n.Kind {
	case decgen.KBlockSet:
		c.Kind = decgen.KBlockList
	case decgen.KAttr, decgen.KBlockAttrs:
		c.Type = modelType(n.Type)
		if w := unmodelledType(c.Type); w != "" {
			return nil, w
		}
	case decgen.KLiteral:
		c.Lit = modelValue(n.Lit)
		if w := unmodelledValue(c.Lit); w != "" {
			return nil, "literal-" + w
		}
	}
	return &c, ""
}

// rebuildSpec constructs the real hcldec spec for every node of a pruned tree.
func rebuildSpec(n *decgen.SNode) hcldec.Spec {
	var kids []hcldec.Spec
	for _, k := range n.Kids {
		kids = append(kids, rebuildSpec(k))
	}
	switch n.Kind {
	case decgen.KObject:
		sp := hcldec.ObjectSpec{}
		for i := range n.Kids {
			sp[n.Keys[i]] = kids[i]
		}
		n.Spec = sp
	case decgen.KTuple:
		n.Spec = hcldec.TupleSpec(kids)
	case decgen.KAttr:
		n.Spec = &hcldec.AttrSpec{Name: n.Name, Type: n.Type, Required: n.Required}
	case decgen.KLiteral:
		n.Spec = &hcldec.LiteralSpec{Value: n.Lit}
	case decgen.KBlock:
		n.Spec = &hcldec.BlockSpec{TypeName: n.Name, Nested: kids[0], Required: n.Required}
	case decgen.KBlockList:
		n.Spec = &hcldec.BlockListSpec{TypeName: n.Name, Nested: kids[0], MinItems: n.Min, MaxItems: n.Max}
	case decgen.KBlockTuple:
		n.Spec = &hcldec.BlockTupleSpec{TypeName: n.Name, Nested: kids[0], MinItems: n.Min, MaxItems: n.Max}
	case decgen.KBlockMap:
		n.Spec = &hcldec.BlockMapSpec{TypeName: n.Name, LabelNames: n.LabelNames, Nested: kids[0]}
	case decgen.KBlockObject:
		n.Spec = &hcldec.BlockObjectSpec{TypeName: n.Name, LabelNames: n.LabelNames, Nested: kids[0]}
	case decgen.KBlockAttrs:
		n.Spec = &hcldec.BlockAttrsSpec{TypeName: n.Name, ElementType: n.Type, Required: n.Required}
	case decgen.KLabel:
		n.Spec = &hcldec.BlockLabelSpec{Index: n.Index, Name: fmt.Sprintf("lbl%d", n.Index)}
	case decgen.KDefault:
		n.Spec = &hcldec.DefaultSpec{Primary: kids[0], Default: kids[1]}
	default:
		panic("rebuildSpec: unmodelled kind " + string(n.Kind))
	}
	return n.Spec
}

func flag(b bool) string {
	if b {
		return "1"
	}
	return "0"
}

// specSexp renders a pruned tree in the wire format.
func specSexp(sb *strings.Builder, n *decgen.SNode) {
	switch n.Kind {
	case decgen.KObject:
		idx := make([]int, len(n.Kids))
		for i := range idx {
			idx[i] = i
		}
		sort.Slice(idx, func(a, b int) bool { return n.Keys[idx[a]] < n.Keys[idx[b]] })
		sb.WriteString("(object")
		for _, i := range idx {
			sb.WriteString(" (" + lib.Hex(n.Keys[i]) + " ")
			specSexp(sb, n.Kids[i])
			sb.WriteString(")")
		}
		sb.WriteString(")")
	case decgen.KTuple:
		sb.WriteString("(tuple")
		for _, k := range n.Kids {
			sb.WriteString(" ")
			specSexp(sb, k)
		}
		sb.WriteString(")")
	case decgen.KAttr:
		sb.WriteString("(attr " + lib.Hex(n.Name) + " " + lib.DumpType(n.Type) + " " + flag(n.Required) + ")")
	case decgen.KLiteral:
		sb.WriteString("(literal " + lib.DumpValuePlain(n.Lit) + ")")
	case decgen.KBlock:
		sb.WriteString("(block " + lib.Hex(n.Name) + " " + flag(n.Required) + " ")
		specSexp(sb, n.Kids[0])
		sb.WriteString(")")
	case decgen.KBlockList, decgen.KBlockTuple:
		fmt.Fprintf(sb, "(%s %s %d %d ", string(n.Kind), lib.Hex(n.Name), n.Min, n.Max)
		specSexp(sb, n.Kids[0])
		sb.WriteString(")")
	case decgen.KBlockMap, decgen.KBlockObject:
		fmt.Fprintf(sb, "(%s %s %d ", string(n.Kind), lib.Hex(n.Name), len(n.LabelNames))
		specSexp(sb, n.Kids[0])
		sb.WriteString(")")
	case decgen.KBlockAttrs:
		sb.WriteString("(blockattrs " + lib.Hex(n.Name) + " " + lib.DumpType(n.Type) + " " + flag(n.Required) + ")")
	case decgen.KLabel:
		fmt.Fprintf(sb, "(label %d)", n.Index)
	case decgen.KDefault:
		sb.WriteString("(default ")
		specSexp(sb, n.Kids[0])
		sb.WriteString(" ")
		specSexp(sb, n.Kids[1])
		sb.WriteString(")")
	default:
		panic("specSexp: unmodelled kind " + string(n.Kind))
	}
}

// mutateSpec makes the spec violate one of the documented preconditions whose violation the model describes
// as a crash (pruned tree, before rebuildSpec). Returns the name of the mutation ("" = none applicable); for
// "no-label-names" the node is returned and left unchanged (its label names are still needed to generate the
// blocks; the caller takes them away afterwards).
func mutateSpec(r *lib.Rand, n *decgen.SNode) (string, *decgen.SNode) {
	var maps, labelled []*decgen.SNode
	n.Walk(func(m *decgen.SNode) {
		if m.Kind == decgen.KBlockMap {
			maps = append(maps, m)
		}
		if m.Kind == decgen.KBlockMap || m.Kind == decgen.KBlockObject {
			labelled = append(labelled, m)
		}
	})
	switch r.Intn(3) {
	case 0: // BlockLabelSpec outside of a block
		if n.Kind == decgen.KObject || n.Kind == decgen.KTuple {
			n.Kids = append(n.Kids, &decgen.SNode{Kind: decgen.KLabel, Index: r.Intn(2)})
			if n.Kind == decgen.KObject {
				n.Keys = append(n.Keys, "zlabel")
			}
			return "root-label", nil
		}
	case 1: // BlockMapSpec / BlockObjectSpec without label names
		if len(labelled) > 0 {
			m := labelled[r.Intn(len(labelled))]
			return "no-label-names:" + string(m.Kind), m
		}
	default: // a cty.DynamicPseudoType attribute inside a BlockMapSpec
		if len(maps) > 0 {
			m := maps[r.Intn(len(maps))]
			var attrs []*decgen.SNode
			m.Kids[0].Walk(func(a *decgen.SNode) {
				if a.Kind == decgen.KAttr {
					attrs = append(attrs, a)
				}
			})
			if len(attrs) > 0 {
				attrs[r.Intn(len(attrs))].Type = cty.DynamicPseudoType
				return "dynamic-in-blockmap", nil
			}
		}
	}
	return "", nil
}

// ---------------------------------------------------------------------------------------------
// body content as the model wants it

type decWire struct {
	sb       strings.Builder
	skip     string
	evalErrs int // attributes whose expression reported an error
}

func (w *decWire) attrs(attrs hcl.Attributes) {
	w.sb.WriteString("(")
	for i, name := range decgen.SortedKeys(attrs) {
		v, diags := attrs[name].Expr.Value(nil)
		if why := unmodelledValue(v); why != "" && w.skip == "" {
			w.skip = "attr-value-" + why
		}
		if i > 0 {
			w.sb.WriteString(" ")
		}
		if diags.HasErrors() {
			w.evalErrs++
		}
		w.sb.WriteString("(" + lib.Hex(name) + " " + lib.DumpValuePlain(v) + " " + flag(diags.HasErrors()) + ")")
	}
	w.sb.WriteString(")")
}

// content writes what PartialContent gives hcldec for the body decoded with the (same-body part of) sn.
func (w *decWire) content(body hcl.Body, sn *decgen.SNode) {
	content, _, _ := body.PartialContent(hcldec.ImpliedSchema(sn.Spec))
	byType := map[string]*decgen.SNode{}
	sn.SameBody(func(m *decgen.SNode) {
		if m.IsBlockKind() {
			if prev, dup := byType[m.Name]; dup && prev != m && w.skip == "" {
				w.skip = "block-type-used-by-two-specs"
			}
			byType[m.Name] = m
		}
	})
	w.sb.WriteString("(")
	w.attrs(content.Attributes)
	w.sb.WriteString(" (")
	for i, blk := range content.Blocks {
		if i > 0 {
			w.sb.WriteString(" ")
		}
		w.sb.WriteString("(" + lib.Hex(blk.Type) + " (")
		for j, l := range blk.Labels {
			if j > 0 {
				w.sb.WriteString(" ")
			}
			w.sb.WriteString(lib.Hex(l))
		}
		w.sb.WriteString(") ")
		m := byType[blk.Type]
		switch {
		case m == nil:
			// cannot happen: the schema is made from the same nodes
			if w.skip == "" {
				w.skip = "harness:block-without-spec"
			}
			w.sb.WriteString("(() ())")
		case m.Kind == decgen.KBlockAttrs:
			a, _ := blk.Body.JustAttributes()
			w.sb.WriteString("(")
			w.attrs(a)
			w.sb.WriteString(" ())")
		default:
			w.content(blk.Body, m.Kids[0])
		}
		w.sb.WriteString(")")
	}
	w.sb.WriteString("))")
}

// trimLabels removes the first k labels of every block that the spec node target consumes (used after the
// label names of a BlockMap/BlockObject spec have been taken away, so that the blocks still pass the schema).
func trimLabels(spec *decgen.SNode, body *decgen.Body, target *decgen.SNode, k int) {
	for b, sn := range decgen.BodySpecs(spec, body) {
		if sn == nil || sn.Kind == decgen.KBlockAttrs {
			continue
		}
		hit := false
		sn.SameBody(func(m *decgen.SNode) { hit = hit || m == target })
		if !hit {
			continue
		}
		for _, it := range b.Items {
			if it.Block != nil && it.Block.Type == target.Name && len(it.Block.Labels) >= k {
				it.Block.Labels = it.Block.Labels[k:]
			}
		}
	}
}

var schemaLevelSummary = regexp.MustCompile(`^(Unsupported argument|Unsupported block type|Missing required argument|Extraneous label for .*|Missing .+ for .+|Unexpected ".*" block)$`)

// schemaErrors: some error diagnostic comes from schema processing (Body.Content / JustAttributes).
func schemaErrors(diags hcl.Diagnostics) bool {
	for _, d := range diags {
		if d.Severity == hcl.DiagError && schemaLevelSummary.MatchString(d.Summary) {
			return true
		}
	}
	return false
}

// splitTop splits a model answer at the spaces outside of parentheses.
func splitTop(s string) []string {
	var out []string
	depth, start := 0, 0
	for i, c := range s {
		switch c {
		case '(':
			depth++
		case ')':
			depth--
		case ' ':
			if depth == 0 {
				out = append(out, s[start:i])
				start = i + 1
			}
		}
	}
	return append(out, s[start:])
}

// ---------------------------------------------------------------------------------------------

func decCase(cx *lib.Ctx, seed uint64) {
	res := cx.Res
	r := lib.NewRand(seed)
	count := func(k string) { res.Count("corr-dec:" + k) }
	skip := func(why string) { count("skipped:" + why) }

	// with variables in the generators some attributes are written as references, which the nil
	// EvalContext turns into evaluation errors with cty.DynamicVal
	var vars map[string]cty.Value
	if r.Chance(1, 3) {
		vars = rootVars()
	}
	sg := &decgen.SpecGen{R: r, Vars: vars, NoOptionalAttrs: true}
	full := sg.Gen(2 + r.Intn(3))
	spec, why := pruneSpec(full)
	if why != "" {
		skip("spec:" + why)
		return
	}
	mutation := ""
	var unlabelled *decgen.SNode
	if r.Chance(1, 10) {
		mutation, unlabelled = mutateSpec(r, spec)
	}
	bg := &decgen.BodyGen{R: r, Vars: vars, MixDynamic: []int{0, 0, 2, 6}[r.Intn(4)]}
	body := bg.Body(spec)
	var tags []string
	if r.Chance(3, 5) {
		body, tags = bg.Perturb(spec, body)
	}
	if unlabelled != nil {
		k := len(unlabelled.LabelNames)
		unlabelled.LabelNames = nil
		unlabelled.NLabels -= k
		if r.Chance(2, 3) {
			trimLabels(spec, body, unlabelled, k)
		}
	}
	rebuildSpec(spec)
	native := decgen.Native(body, &decgen.NativeOpts{R: r})
	in := decInput{Seed: seed, Spec: spec.Dump(), Native: native, Perturb: strings.Join(tags, ","), Mutate: mutation}
	input := func() string {
		b, _ := json.Marshal(in)
		return string(b)
	}
	f, pd := hclsyntax.ParseConfig([]byte(native), "case.hcl", hcl.InitialPos)
	if pd.HasErrors() {
		res.Fail(lib.Failure{Kind: "oracle", Key: "harness:native-text-does-not-parse", Desc: "corr-dec: the generated native text does not parse: " + pd.Error(), Input: input()})
		return
	}

	// the model's input
	w := &decWire{}
	w.sb.WriteString("DEC ")
	specSexp(&w.sb, spec)
	w.sb.WriteString(" ")
	extracted := func() (ok bool) {
		defer func() {
			if p := recover(); p != nil {
				ok = false
			}
		}()
		w.content(f.Body, spec)
		return true
	}()
	if !extracted {
		skip("content-extraction-panicked")
		return
	}
	if w.skip != "" {
		skip(w.skip)
		return
	}
	in.Line = w.sb.String()

	// the implementation
	implied := lib.DumpType(hcldec.ImpliedType(spec.Spec))
	var val cty.Value
	var diags hcl.Diagnostics
	var panicMsg string
	panicked := func() (p bool) {
		defer func() {
			if x := recover(); x != nil {
				p, panicMsg = true, decgen.PanicKey(x)
			}
		}()
		val, diags = hcldec.Decode(f.Body, spec.Spec, nil)
		return false
	}()
	in.Diags = decgen.DiagText(diags)

	// the model
	ans := cx.Ask(in.Line)
	parts := splitTop(ans)
	var mVal, mStatus, mImplied, mNotes string
	switch {
	case len(parts) == 3 && parts[0] == "crash":
		mStatus, mImplied, mNotes = parts[0], parts[1], parts[2]
	case len(parts) == 4 && (parts[1] == "ok" || parts[1] == "err"):
		mVal, mStatus, mImplied, mNotes = parts[0], parts[1], parts[2], parts[3]
	default:
		res.Fail(lib.Failure{Kind: "corr", Key: "DEC:bad-answer", Desc: "model answered " + lib.Trunc(ans, 200), Input: input()})
		return
	}

	// distribution of what is compared
	spec.Walk(func(m *decgen.SNode) { count("kind:" + string(m.Kind)) })
	for _, t := range tags {
		count("perturb:" + t)
	}
	if len(tags) == 0 {
		count("body:conforming")
	} else {
		count("body:perturbed")
	}
	if mutation != "" {
		count("spec-mutation:" + mutation)
	}
	if w.evalErrs > 0 {
		count("body:with-evaluation-errors")
	}
	count("cases")

	res.CorrChecked++
	if mImplied != implied {
		res.Fail(lib.Failure{Kind: "corr", Key: "DEC:implied-type:" + string(spec.Kind), Desc: "hcldec.ImpliedType differs from the model's impliedType", Input: input(), Model: mImplied, Impl: implied})
		return
	}
	mixed := 0
	if mNotes != "-" {
		unsupported := false
		for _, nt := range strings.Split(mNotes, ",") {
			if strings.HasPrefix(nt, "blocklist-mixed*") {
				fmt.Sscan(nt[len("blocklist-mixed*"):], &mixed)
				continue
			}
			if strings.HasPrefix(nt, "unsupported:") && !unsupported {
				// a conversion outside the fragment of the model's convert: only the implied type was comparable
				unsupported = true
				skip("model-" + nt)
			}
		}
		if unsupported {
			return
		}
	}
	if mixed > 0 && mStatus != "crash" {
		// the elements of some BlockLists (mixed of them) have different types. The model answers what the code
		// does when convert.UnifyUnsafe finds no common type (cty.DynamicVal and "Unconsistent argument types");
		// when it finds one the code converts the elements, or (known finding C08-inconsistent-panic: a common
		// type with a nested dynamic part and no conversions) lets cty.ListVal panic. Comparable only when every
		// such list went the way the model describes.
		reported := 0
		for _, d := range diags {
			if strings.HasPrefix(d.Summary, "Unconsistent argument types") {
				reported++
			}
		}
		switch {
		case panicked && strings.HasPrefix(panicMsg, "inconsistent list element types"):
			skip("blocklist-mixed:listval-panic")
			return
		case !panicked && reported != mixed:
			skip("blocklist-mixed:element-types-unified")
			return
		}
	}
	if (mStatus == "crash") != panicked {
		impl := "returned " + lib.Trunc(lib.DumpValuePlain(val), 300)
		if panicked {
			impl = "panic: " + panicMsg
		}
		res.Fail(lib.Failure{Kind: "corr", Key: fmt.Sprintf("DEC:crash:model-%v-impl-%v", mStatus == "crash", panicked), Desc: "the model's crash outcome and a panic of the implementation do not coincide", Input: input(), Model: lib.Trunc(ans, 300), Impl: impl})
		return
	}
	if panicked {
		count("outcome:crash")
		return
	}
	if why := unmodelledValue(val); why != "" && why != "refinements" {
		skip("result-" + why)
		return
	}
	got := lib.DumpValuePlain(val)
	if got != mVal {
		res.Fail(lib.Failure{Kind: "corr", Key: "DEC:value:" + string(spec.Kind), Desc: "decoded values differ", Input: input(), Model: mVal, Impl: got})
		return
	}
	if schemaErrors(diags) {
		count("outcome:value-only(schema-errors)")
		return
	}
	status := "ok"
	if diags.HasErrors() {
		status = "err"
	}
	count("outcome:" + status)
	if status != mStatus {
		res.Fail(lib.Failure{Kind: "corr", Key: "DEC:status:model-" + mStatus + "-impl-" + status, Desc: "error/no-error outcome differs (no schema-level error among the diagnostics)", Input: input(), Model: mStatus, Impl: status + ": " + decgen.DiagText(diags)})
	}
}
