package c08

import (
	"fmt"
	"strings"

	"github.com/hashicorp/hcl/v2"
	"github.com/hashicorp/hcl/v2/hcldec"
	"github.com/hashicorp/hcl/v2/hclsyntax"
	"github.com/zclconf/go-cty/cty"
	"github.com/zclconf/go-cty/cty/convert"

	"hx/lib"
	"hx/props/decgen"
)

// directedUnify: block lists / sets whose nested spec holds a cty.DynamicPseudoType attribute *inside* an
// object or tuple spec, with blocks that give the attribute different primitive types.  The element types then
// differ but unify to a type without dynamic parts (bool, number -> string), so the specified outcome is a
// collection of the unified element type — the random stream almost only meets this with element types that
// leave dynamic parts, where the unchanged code panics in go-cty (recorded finding) and nothing can be told.
// Checked: no panic, the value conforms to the implied type, and it equals the elements converted to the
// unified type.
func directedUnify(cx *lib.Ctx) {
	res := cx.Res
	R := cx.R.Fork()
	n := cx.Scale(600, 12000)
	lits := []struct {
		src string
		val cty.Value
	}{
		{"true", cty.True}, {"false", cty.False}, {`"x"`, cty.StringVal("x")}, {`"7"`, cty.StringVal("7")},
		{"7", cty.NumberIntVal(7)}, {"1.5", cty.NumberFloatVal(1.5)}, {`"true"`, cty.StringVal("true")},
	}
	for i := 0; i < n; i++ {
		r := R.Fork()
		set := r.Chance(1, 3)
		tupleNested := r.Chance(1, 3)
		withOther := r.Chance(1, 2)
		var nested hcldec.Spec
		dyn := &hcldec.AttrSpec{Name: "a", Type: cty.DynamicPseudoType}
		other := &hcldec.AttrSpec{Name: "o", Type: cty.String}
		if tupleNested {
			t := hcldec.TupleSpec{dyn}
			if withOther {
				t = append(t, other)
			}
			nested = t
		} else {
			o := hcldec.ObjectSpec{"a": dyn}
			if withOther {
				o["o"] = other
			}
			nested = o
		}
		var spec hcldec.Spec
		if set {
			spec = &hcldec.BlockSetSpec{TypeName: "b", Nested: nested}
		} else {
			spec = &hcldec.BlockListSpec{TypeName: "b", Nested: nested}
		}
		nb := 2 + r.Intn(2)
		var sb strings.Builder
		var vals []cty.Value
		for k := 0; k < nb; k++ {
			l := lits[r.Intn(len(lits))]
			fmt.Fprintf(&sb, "b {\n  a = %s\n", l.src)
			if withOther && r.Chance(1, 2) {
				sb.WriteString("  o = \"s\"\n")
			}
			sb.WriteString("}\n")
			vals = append(vals, l.val)
		}
		src := sb.String()
		input := fmt.Sprintf("%s over %s with dynamic attribute a:\n%s", map[bool]string{true: "BlockSetSpec", false: "BlockListSpec"}[set], map[bool]string{true: "TupleSpec", false: "ObjectSpec"}[tupleNested], src)
		tys := make([]cty.Type, len(vals))
		for k, v := range vals {
			tys[k] = v.Type()
		}
		uty, _ := convert.UnifyUnsafe(tys)
		if uty == cty.NilType || uty.HasDynamicTypes() {
			res.Count("directed-unify:skipped-not-unifiable")
			continue
		}
		f, diags := hclsyntax.ParseConfig([]byte(src), "", hcl.InitialPos)
		if diags.HasErrors() {
			res.Fail(lib.Failure{Kind: "oracle", Key: "harness:directed-unparseable", Desc: diags.Error(), Input: input})
			continue
		}
		var val cty.Value
		var ddiags hcl.Diagnostics
		ok := decgen.GuardKey(cx, "directed-unify", func(key string) string { return key + ":although-element-types-unify" }, input, func() {
			val, ddiags = hcldec.Decode(f.Body, spec, nil)
		})
		res.Count("directed-unify:cases")
		res.Case("directed-unify|"+input, true)
		if !ok {
			continue
		}
		implied := hcldec.ImpliedType(spec)
		if !decgen.LooseConforms(val.Type(), implied) {
			res.Fail(lib.Failure{Kind: "oracle", Key: "nonconforming:directed-unify", Desc: "element types unify, yet the value does not conform to the implied type; diagnostics: " + decgen.DiagText(ddiags), Input: input, Impl: lib.DumpType(val.Type())})
			continue
		}
		if ddiags.HasErrors() {
			res.Fail(lib.Failure{Kind: "oracle", Key: "spurious-error:directed-unify", Desc: "element types unify, yet an error is reported: " + decgen.DiagText(ddiags), Input: input})
			continue
		}
		// every element's dynamic attribute must have been converted to the unified type
		bad := false
		for it := val.ElementIterator(); it.Next(); {
			_, ev := it.Element()
			var av cty.Value
			if tupleNested {
				av = ev.Index(cty.NumberIntVal(0))
			} else {
				av = ev.GetAttr("a")
			}
			if !av.Type().Equals(uty) {
				bad = true
			}
		}
		if bad {
			res.Fail(lib.Failure{Kind: "oracle", Key: "wrong-value:directed-unify", Desc: "elements were not converted to the unified type " + lib.DumpType(uty), Input: input, Impl: lib.DumpValue(val)})
		}
	}
}

// directedSharedAttr: one attribute named by two specs that decode from the same body, with different
// `Required` flags, in both orders, wrapped or not — and a body that lacks the attribute.  Whatever the order,
// the required one makes the body invalid: an error must be reported.
func directedSharedAttr(cx *lib.Ctx) {
	res := cx.Res
	opt := func() hcldec.Spec { return &hcldec.AttrSpec{Name: "a", Type: cty.String} }
	req := func() hcldec.Spec { return &hcldec.AttrSpec{Name: "a", Type: cty.String, Required: true} }
	def := func(p hcldec.Spec) hcldec.Spec {
		return &hcldec.DefaultSpec{Primary: p, Default: &hcldec.LiteralSpec{Value: cty.StringVal("anonymous")}}
	}
	specs := map[string]hcldec.Spec{
		"tuple(opt,req)":          hcldec.TupleSpec{opt(), req()},
		"tuple(req,opt)":          hcldec.TupleSpec{req(), opt()},
		"tuple(default(opt),req)": hcldec.TupleSpec{def(opt()), req()},
		"tuple(req,default(opt))": hcldec.TupleSpec{req(), def(opt())},
		"tuple(tuple(opt),req)":   hcldec.TupleSpec{hcldec.TupleSpec{opt()}, req()},
		"object(x:opt,y:req)":     hcldec.ObjectSpec{"x": opt(), "y": req()},
		"tuple(opt,opt,req)":      hcldec.TupleSpec{opt(), opt(), req()},
	}
	for name, spec := range specs {
		for _, src := range []string{"", "b = 1\n"} {
			input := name + " on body:\n" + src
			f, diags := hclsyntax.ParseConfig([]byte(src), "", hcl.InitialPos)
			if diags.HasErrors() {
				continue
			}
			var ddiags hcl.Diagnostics
			ok := decgen.GuardKey(cx, "directed-shared-attr", func(key string) string { return key + ":shared-attribute" }, input, func() {
				_, ddiags = hcldec.Decode(f.Body, spec, nil)
			})
			res.Count("directed-shared-attr:cases")
			res.Case("directed-shared-attr|"+input, true)
			if !ok {
				continue
			}
			if !decgen.HasDiag(ddiags, "Missing required argument") {
				res.Fail(lib.Failure{Kind: "oracle", Key: "missing-error:required-attribute-also-named-optional", Desc: "a required attribute is absent, yet no \"Missing required argument\" error is reported (the attribute is also named by a spec that does not require it): " + decgen.DiagText(ddiags), Input: input})
			}
		}
	}
}
