package c08

import (
	"fmt"

	"github.com/hashicorp/hcl/v2"
	"github.com/hashicorp/hcl/v2/hclsyntax"
	"github.com/hashicorp/hcl/v2/hcldec"
	"github.com/zclconf/go-cty/cty"

	"hx/lib"
)

// directedMarkedBody: an application body that implements hcldec.MarkedBody (as dynblock's expanded bodies do) —
// here a thin wrapper that marks every block body with "from-body" and leaves attribute evaluation alone. The
// value the specification describes for a block collection has every block's value marked with its body's marks,
// whatever the nested spec is and whatever other marks the block's own attributes already carry. (The single
// BlockSpec does not apply body marks at all — see the recorded C06 findings about generated single blocks — and
// is left out here.)
type markedWrap struct {
	inner hcl.Body
	marks cty.ValueMarks // nil at the root
}

func (b markedWrap) wrapContent(c *hcl.BodyContent) *hcl.BodyContent {
	if c == nil {
		return nil
	}
	out := *c
	out.Blocks = nil
	for _, blk := range c.Blocks {
		nb := *blk
		nb.Body = markedWrap{inner: blk.Body, marks: cty.NewValueMarks("from-body")}
		out.Blocks = append(out.Blocks, &nb)
	}
	return &out
}

func (b markedWrap) Content(s *hcl.BodySchema) (*hcl.BodyContent, hcl.Diagnostics) {
	c, d := b.inner.Content(s)
	return b.wrapContent(c), d
}

func (b markedWrap) PartialContent(s *hcl.BodySchema) (*hcl.BodyContent, hcl.Body, hcl.Diagnostics) {
	c, rem, d := b.inner.PartialContent(s)
	return b.wrapContent(c), markedWrap{inner: rem, marks: b.marks}, d
}

func (b markedWrap) JustAttributes() (hcl.Attributes, hcl.Diagnostics) { return b.inner.JustAttributes() }
func (b markedWrap) MissingItemRange() hcl.Range                        { return b.inner.MissingItemRange() }
func (b markedWrap) BodyValueMarks() cty.ValueMarks                     { return b.marks }

func directedMarkedBody(cx *lib.Ctx) {
	res := cx.Res
	nested := map[string]hcldec.Spec{
		"attr":         &hcldec.AttrSpec{Name: "v", Type: cty.String},
		"object":       hcldec.ObjectSpec{"v": &hcldec.AttrSpec{Name: "v", Type: cty.String}},
		"tuple":        hcldec.TupleSpec{&hcldec.AttrSpec{Name: "v", Type: cty.String}},
		"default":      &hcldec.DefaultSpec{Primary: &hcldec.AttrSpec{Name: "w", Type: cty.String}, Default: &hcldec.AttrSpec{Name: "v", Type: cty.String}},
		"literal":      &hcldec.LiteralSpec{Value: cty.StringVal("lit")},
		"expr-wrapped": &hcldec.ValidateSpec{Wrapped: &hcldec.AttrSpec{Name: "v", Type: cty.String}, Func: func(cty.Value) hcl.Diagnostics { return nil }},
	}
	kinds := map[string]func(n hcldec.Spec) hcldec.Spec{
		"blocklist":   func(n hcldec.Spec) hcldec.Spec { return &hcldec.BlockListSpec{TypeName: "item", Nested: n} },
		"blocktuple":  func(n hcldec.Spec) hcldec.Spec { return &hcldec.BlockTupleSpec{TypeName: "item", Nested: n} },
		"blockset":    func(n hcldec.Spec) hcldec.Spec { return &hcldec.BlockSetSpec{TypeName: "item", Nested: n} },
		"blockmap":    func(n hcldec.Spec) hcldec.Spec { return &hcldec.BlockMapSpec{TypeName: "item", LabelNames: []string{"k"}, Nested: n} },
		"blockobject": func(n hcldec.Spec) hcldec.Spec { return &hcldec.BlockObjectSpec{TypeName: "item", LabelNames: []string{"k"}, Nested: n} },
	}
	tokens := map[string]cty.Value{
		"plain":           cty.StringVal("abc"),
		"other-mark":      cty.StringVal("abc").Mark("sensitive"),
		"same-mark":       cty.StringVal("abc").Mark("from-body"),
		"unknown-marked":  cty.UnknownVal(cty.String).Mark("sensitive"),
		"null-other-mark": cty.NullVal(cty.String).Mark("sensitive"),
	}
	for kname, mk := range kinds {
		labelled := kname == "blockmap" || kname == "blockobject"
		for nname, n := range nested {
			for tname, tok := range tokens {
				src := "item {\n  v = token\n}\n"
				if labelled {
					src = "item \"a\" {\n  v = token\n}\n"
				}
				if kname != "block" {
					if labelled {
						src += "item \"b\" {\n  v = \"second\"\n}\n"
					} else {
						src += "item {\n  v = \"second\"\n}\n"
					}
				}
				f, diags := hclsyntax.ParseConfig([]byte(src), "", hcl.InitialPos)
				if diags.HasErrors() {
					continue
				}
				spec := mk(n)
				input := fmt.Sprintf("%s of %s, token %s (block bodies implement MarkedBody with mark \"from-body\"):\n%s", kname, nname, tname, src)
				var v cty.Value
				var d hcl.Diagnostics
				if !cx.Guard("marked-body:"+kname, input, func() {
					v, d = hcldec.Decode(markedWrap{inner: f.Body}, spec, &hcl.EvalContext{Variables: map[string]cty.Value{"token": tok}})
				}) {
					continue
				}
				res.Count("marked-body:cases")
				res.Case("marked-body|"+kname+"|"+nname+"|"+tname, true)
				if d.HasErrors() {
					res.Count("marked-body:errors")
					continue
				}
				// every block value must carry the body's mark (a set hoists its elements' marks to itself)
				missing := ""
				check := func(ev cty.Value, where string) {
					if !ev.HasMark("from-body") {
						missing = where
					}
				}
				switch kname {
				case "block":
					check(v, "the block value")
				case "blockset":
					if !v.HasMark("from-body") {
						missing = "the set"
					}
				default:
					uv, _ := v.Unmark()
					if uv.IsKnown() && !uv.IsNull() && uv.CanIterateElements() {
						i := 0
						for it := uv.ElementIterator(); it.Next(); i++ {
							_, ev := it.Element()
							check(ev, fmt.Sprintf("element %d", i))
						}
					}
				}
				if missing != "" {
					res.Fail(lib.Failure{Kind: "oracle", Key: "value-differs:marked-body:body-marks-missing:" + kname + ":" + nname,
						Desc:  "the decoded value of a block whose body implements hcldec.MarkedBody does not carry the body's marks (" + missing + ")",
						Input: input, Impl: lib.DumpValue(v)})
				}
			}
		}
	}
}
