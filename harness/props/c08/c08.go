// Package c08: decoding always yields a value of the specification's implied type.
package c08

import (
	"encoding/json"
	"fmt"
	"strings"

	"github.com/hashicorp/hcl/v2"
	"github.com/hashicorp/hcl/v2/ext/dynblock"
	"github.com/hashicorp/hcl/v2/hcldec"
	"github.com/hashicorp/hcl/v2/hclsyntax"
	hcljson "github.com/hashicorp/hcl/v2/json"
	"github.com/zclconf/go-cty/cty"

	"hx/lib"
	"hx/props/decgen"
)

func init() { lib.Register("C08", run) }

// caseInput is the replayable description of one case: everything is regenerated from the case seed.
type caseInput struct {
	Seed    uint64 `json:"seed"`
	Depth   int    `json:"depth"`
	Variant string `json:"variant,omitempty"` // the variant that failed (information only)
	Spec    string `json:"spec,omitempty"`
	Native  string `json:"native,omitempty"`
	JSON    string `json:"json,omitempty"`
	Perturb string `json:"perturbations,omitempty"`
}

func rootVars() map[string]cty.Value {
	return map[string]cty.Value{
		"v_str":  cty.StringVal("from-var"),
		"v_num":  cty.NumberIntVal(41),
		"v_unk":  cty.UnknownVal(cty.String),
		"v_dyn":  cty.DynamicVal,
		"v_list": cty.ListVal([]cty.Value{cty.StringVal("p"), cty.StringVal("q")}),
		"v_null": cty.NullVal(cty.String),
	}
}

var unknownForEach = map[string]cty.Value{
	"u_list": cty.UnknownVal(cty.List(cty.String)),
	"u_dyn":  cty.DynamicVal,
	"u_map":  cty.UnknownVal(cty.Map(cty.Number)),
	"u_set":  cty.UnknownVal(cty.Set(cty.String)).RefineNotNull(),
}

type c08case struct {
	in      caseInput
	spec    *decgen.SNode
	body    *decgen.Body
	tags    []string
	ctx     *hcl.EvalContext
	native  string
	jsonSrc string
}

func build(cx *lib.Ctx, seed uint64, depth int, counting bool) *c08case {
	r := lib.NewRand(seed)
	c := &c08case{in: caseInput{Seed: seed, Depth: depth}}
	count := func(k string) {
		if counting {
			cx.Res.Count(k)
		}
	}
	var vars map[string]cty.Value
	if r.Chance(1, 2) {
		vars = rootVars()
		c.ctx = &hcl.EvalContext{Variables: vars}
		count("ctx:with-variables")
	} else {
		count("ctx:nil")
	}
	sg := &decgen.SpecGen{R: r, Vars: vars, Count: count}
	c.spec = sg.Gen(depth)
	bg := &decgen.BodyGen{R: r, Vars: vars, Count: count, MixDynamic: []int{0, 0, 2, 6}[r.Intn(4)]}
	c.body = bg.Body(c.spec)
	if r.Chance(3, 5) {
		c.body, c.tags = bg.Perturb(c.spec, c.body)
		for _, t := range c.tags {
			count("perturb:" + t)
		}
		if len(c.tags) > 0 {
			count("body:perturbed")
		} else {
			count("body:conforming")
		}
	} else {
		count("body:conforming")
	}
	c.native = decgen.Native(c.body, &decgen.NativeOpts{R: r})
	c.jsonSrc = decgen.JSON(c.body, &decgen.JSONOpts{R: r, Template: c.ctx != nil})
	c.in.Spec = c.spec.Dump()
	c.in.Native = c.native
	c.in.JSON = c.jsonSrc
	c.in.Perturb = strings.Join(c.tags, ",")
	return c
}

func (c *c08case) input(variant string, extra string) string {
	in := c.in
	in.Variant = variant
	if extra != "" {
		in.Native = extra
	}
	b, _ := json.Marshal(in)
	return string(b)
}

// check runs one decode and applies the oracle. mode: "full" compares errors and value with the
// denotation; "conform" checks only no-panic and type conformance.
func (c *c08case) check(cx *lib.Ctx, variant string, body hcl.Body, ctx *hcl.EvalContext, partial bool, mode string, input string) {
	res := cx.Res
	var implied cty.Type
	den, dok := decgen.SafeDenote(c.spec, c.body, partial)
	if mode != "full" || !dok {
		// (also when the harness's own construction of the expected value gave up half-way: the flags
		// collected so far may be incomplete)
		if den.Flags == nil {
			den.Flags = map[string]bool{}
		}
		for k := range decgen.SpecFlags(c.spec) {
			den.Flags[k] = true
		}
	}
	after := func(key string) string {
		a := decgen.After(den)
		if strings.Contains(key, "blockmap[empty]") {
			a = strings.Replace(a, "+after:empty-multilabel-blockmap", "", 1)
		}
		if strings.HasPrefix(key, "optional-attrs-in-value-type:") {
			a = strings.Replace(a, "+after:optional-attrs-in-empty-collection", "", 1)
		}
		if !strings.HasPrefix(key, "spurious-error:Missing required argument") {
			// the duplicated schema entry only ever adds that one error
			a = strings.Replace(a, "+after:required-attr-under-default", "", 1)
		}
		return key + a
	}
	if !decgen.Guard(cx, "ImpliedType", "", input, func() { implied = hcldec.ImpliedType(c.spec.Spec) }) {
		return
	}
	mine := c.spec.Implied()
	if !implied.Equals(mine) {
		res.Fail(lib.Failure{Kind: "oracle", Key: "implied-type-differs:" + string(c.spec.Kind), Desc: "hcldec.ImpliedType differs from the type the documentation of the spec kinds implies", Input: input, Impl: lib.DumpType(implied), Model: lib.DumpType(mine)})
		return
	}
	var val cty.Value
	var diags hcl.Diagnostics
	ok := decgen.GuardKey(cx, variant, func(key string) string {
		return key + after("panic:")[len("panic:"):]
	}, input, func() {
		if partial {
			var rest hcl.Body
			val, rest, diags = hcldec.PartialDecode(body, c.spec.Spec, ctx)
			if rest == nil {
				res.Fail(lib.Failure{Kind: "oracle", Key: "partial-decode-nil-remain", Desc: "PartialDecode returned a nil remaining body", Input: input})
			}
		} else {
			val, diags = hcldec.Decode(body, c.spec.Spec, ctx)
		}
	})
	if !ok {
		return
	}
	res.Count("decode:" + variant)
	if val == cty.NilVal {
		res.Fail(lib.Failure{Kind: "oracle", Key: "nil-value:" + variant, Desc: "decode returned cty.NilVal", Input: input, Impl: decgen.DiagText(diags)})
		return
	}
	uv, _ := val.UnmarkDeep()
	if !decgen.LooseConforms(uv.Type(), implied) {
		blame := decgen.Blame(c.spec, uv, func(g, w cty.Type) bool { return !decgen.LooseConforms(g, w) })
		key := "nonconforming:" + blame
		if decgen.HasDiag(diags, "Unconsistent argument types") {
			if strings.HasSuffix(blame, "blocklist[unknown]:dyn-vs-list") {
				key = "nonconforming:blocklist-inconsistent-types-returns-dynamicval"
			} else if strings.HasSuffix(blame, "blockset[unknown]:dyn-vs-set") {
				key = "nonconforming:blockset-inconsistent-types-returns-dynamicval"
			}
		}
		res.Fail(lib.Failure{Kind: "oracle", Key: after(key), Desc: fmt.Sprintf("the decoded value's type does not conform to ImpliedType(spec) (%s; errors reported: %v)", variant, diags.HasErrors()), Input: input,
			Impl: "value type " + lib.DumpType(uv.Type()) + " ; implied type " + lib.DumpType(implied) + " ; diagnostics: " + decgen.DiagText(diags)})
		return
	}
	if decgen.HasOptionalMarkers(uv.Type()) {
		blame := decgen.Blame(c.spec, uv, func(g, w cty.Type) bool { return decgen.HasOptionalMarkers(g) })
		res.Fail(lib.Failure{Kind: "oracle", Key: after("optional-attrs-in-value-type:" + blame), Desc: fmt.Sprintf("the decoded value's type carries optional-attribute markers, which belong to type constraints only: elsewhere the same spec yields values of ImpliedType(spec).WithoutOptionalAttributesDeep() (%s; errors reported: %v)", variant, diags.HasErrors()), Input: input,
			Impl: "value type " + lib.DumpType(uv.Type()) + " ; implied type " + lib.DumpType(implied) + " ; diagnostics: " + decgen.DiagText(diags)})
		return
	}
	if mode != "full" {
		return
	}
	if !dok {
		res.Count("denotation-skipped")
		return
	}
	if den.Err != diags.HasErrors() {
		if den.Err {
			res.Fail(lib.Failure{Kind: "oracle", Key: after("error-not-reported:" + den.Why), Desc: "the body is not valid for the specification (" + den.Why + ": " + den.Detail + ") but decoding reported no error (" + variant + ")", Input: input, Impl: lib.DumpValue(val)})
		} else {
			sum := "" // (hcldec visits an ObjectSpec in map order: take the smallest summary, not the first)
			for _, d := range diags {
				if d.Severity == hcl.DiagError && (sum == "" || d.Summary < sum) {
					sum = d.Summary
				}
			}
			res.Fail(lib.Failure{Kind: "oracle", Key: after("spurious-error:" + decgen.SummaryKey(sum)), Desc: "the body is valid for the specification but decoding reported an error (" + variant + ")", Input: input, Impl: decgen.DiagText(diags)})
		}
		return
	}
	if den.Err {
		res.Count("outcome:error-as-expected")
		return
	}
	res.Count("outcome:value-compared")
	got, want := lib.DumpValue(val), lib.DumpValue(den.Val)
	if got != want {
		res.Fail(lib.Failure{Kind: "oracle", Key: after("wrong-value:" + blameValue(c.spec, val, den.Val)), Desc: "no error was reported but the value is not the one the specification describes for the body (" + variant + ")", Input: input, Impl: got, Model: want})
	}
}

// blameValue names the kind of the deepest spec node at which two values differ.
func blameValue(n *decgen.SNode, got, want cty.Value) string {
	if lib.DumpValue(got) == lib.DumpValue(want) {
		return ""
	}
	if got.IsMarked() || want.IsMarked() || !got.IsKnown() || !want.IsKnown() || got.IsNull() || want.IsNull() {
		return string(n.Kind)
	}
	switch n.Kind {
	case decgen.KObject:
		if got.Type().IsObjectType() && want.Type().IsObjectType() {
			for i, k := range n.Kids {
				if got.Type().HasAttribute(n.Keys[i]) && want.Type().HasAttribute(n.Keys[i]) {
					if s := blameValue(k, got.GetAttr(n.Keys[i]), want.GetAttr(n.Keys[i])); s != "" {
						return s
					}
				}
			}
		}
	case decgen.KTuple:
		if got.Type().IsTupleType() && want.Type().IsTupleType() && got.LengthInt() == want.LengthInt() {
			for i, k := range n.Kids {
				if s := blameValue(k, got.Index(cty.NumberIntVal(int64(i))), want.Index(cty.NumberIntVal(int64(i)))); s != "" {
					return s
				}
			}
		}
	case decgen.KValidate, decgen.KRefine, decgen.KBlock:
		if s := blameValue(n.Kids[0], got, want); s != "" {
			return s
		}
	case decgen.KBlockList, decgen.KBlockTuple, decgen.KBlockSet, decgen.KBlockMap, decgen.KBlockObject:
		if got.CanIterateElements() && want.CanIterateElements() && got.LengthInt() == want.LengthInt() {
			if got.LengthInt() == 0 {
				return string(n.Kind) + "[empty]"
			}
			depth := 1
			if n.Kind == decgen.KBlockMap || n.Kind == decgen.KBlockObject {
				depth = len(n.LabelNames)
			}
			var walk func(g, w cty.Value, depth int) string
			walk = func(g, w cty.Value, depth int) string {
				if depth == 0 {
					return blameValue(n.Kids[0], g, w)
				}
				if !g.IsKnown() || !w.IsKnown() || g.IsNull() || w.IsNull() || !g.CanIterateElements() || !w.CanIterateElements() || g.LengthInt() != w.LengthInt() {
					return ""
				}
				gi, wi := g.ElementIterator(), w.ElementIterator()
				for gi.Next() && wi.Next() {
					_, ge := gi.Element()
					_, we := wi.Element()
					if s := walk(ge, we, depth-1); s != "" {
						return s
					}
				}
				return ""
			}
			if n.Kind != decgen.KBlockSet {
				if s := walk(got, want, depth); s != "" {
					return s
				}
			}
		}
	}
	return string(n.Kind)
}

func (c *c08case) runAll(cx *lib.Ctx) {
	res := cx.Res
	// native syntax
	f, pd := hclsyntax.ParseConfig([]byte(c.native), "case.hcl", hcl.InitialPos)
	if pd.HasErrors() {
		res.Fail(lib.Failure{Kind: "oracle", Key: "harness:native-text-does-not-parse", Desc: "the generated native text does not parse: " + pd.Error(), Input: c.input("parse", "")})
		return
	}
	c.check(cx, "native-decode", f.Body, c.ctx, false, "full", c.input("native-decode", ""))
	c.check(cx, "native-partial-decode", f.Body, c.ctx, true, "full", c.input("native-partial-decode", ""))
	// the same body behind dynblock.Expand (no dynamic blocks inside): nothing may change
	c.check(cx, "expand-wrapped-decode", dynblock.Expand(f.Body, c.ctx), c.ctx, false, "full", c.input("expand-wrapped-decode", ""))
	// JSON syntax
	jf, jd := hcljson.Parse([]byte(c.jsonSrc), "case.json")
	if jd.HasErrors() {
		res.Fail(lib.Failure{Kind: "oracle", Key: "harness:json-text-does-not-parse", Desc: "the generated JSON text does not parse: " + jd.Error(), Input: c.input("parse", "")})
	} else {
		mode := "full"
		if decgen.JSONAmbiguous(c.spec, c.body) {
			mode = "conform"
			res.Count("json:schema-ambiguous-conformance-only")
		}
		c.check(cx, "json-decode", jf.Body, c.ctx, false, mode, c.input("json-decode", ""))
		c.check(cx, "json-partial-decode", jf.Body, c.ctx, true, mode, c.input("json-partial-decode", ""))
	}
	// blocks rewritten as dynamic blocks with an unknown for_each: block contents are unknown
	r := lib.NewRand(c.in.Seed ^ 0x5bd1e995)
	ub := c.body.Clone()
	names := decgen.SortedKeys(unknownForEach)
	uname := names[r.Intn(len(names))]
	bg := &decgen.BodyGen{R: r}
	if bg.MarkDynUnknown(ub, uname) > 0 {
		text := decgen.Native(ub, nil)
		uf, ud := hclsyntax.ParseConfig([]byte(text), "case-unknown.hcl", hcl.InitialPos)
		if ud.HasErrors() {
			res.Fail(lib.Failure{Kind: "oracle", Key: "harness:native-text-does-not-parse", Desc: "the generated native text (dynamic) does not parse: " + ud.Error(), Input: c.input("parse", text)})
			return
		}
		vars := map[string]cty.Value{}
		if c.ctx != nil {
			for k, v := range c.ctx.Variables {
				vars[k] = v
			}
		}
		for k, v := range unknownForEach {
			vars[k] = v
		}
		uctx := &hcl.EvalContext{Variables: vars}
		in := c.input("unknown-dynamic-decode", text)
		c.check(cx, "unknown-dynamic-decode", dynblock.Expand(uf.Body, uctx), uctx, false, "conform", in)
		c.check(cx, "unknown-dynamic-partial-decode", dynblock.Expand(uf.Body, uctx), uctx, true, "conform", in)
		res.Count("unknown-for-each:" + uname)
	}
}

func run(cx *lib.Ctx) {
	res := cx.Res
	res.Rule = "random spec trees over every hcldec spec kind within the documented preconditions, with a configuration generated to conform to the spec and then perturbed in 3 of 5 cases (missing/extra attributes and blocks, wrong literal types, wrong label counts, zero/many blocks, attribute<->block swaps); each case is decoded through the native syntax (Decode, PartialDecode, behind dynblock.Expand), through a random JSON encoding, and with blocks rewritten as dynamic blocks over an unknown for_each; non-trivial = the spec has at least 3 nodes; distinct by (spec dump, configuration dump)"
	if cx.Replay != "" {
		var in caseInput
		if err := json.Unmarshal([]byte(lib.ReplayInput(cx.Replay)), &in); err != nil {
			res.Fail(lib.Failure{Kind: "oracle", Key: "harness:bad-replay-input", Desc: err.Error()})
			return
		}
		c := build(cx, in.Seed, in.Depth, true)
		c.runAll(cx)
		res.Case(c.in.Spec+"|"+decgen.DumpConfig(c.body), true)
		res.Sample(c.in)
		return
	}
	// lib.NewRand(seed) and lib.NewRand(seed+1) are the same stream shifted by one draw; Fork mixes the
	// state so that neighbouring -seed values give unrelated case sequences.
	root := cx.R.Fork()
	n := cx.Scale(24000, 300000)
	for i := 0; i < n; i++ {
		seed := root.U64()
		depth := 2 + int(seed%3)
		if cx.Thorough() {
			depth = 2 + int(seed%5)
		}
		c := build(cx, seed, depth, true)
		c.runAll(cx)
		nodes := 0
		c.spec.Walk(func(*decgen.SNode) { nodes++ })
		res.Case(c.in.Spec+"|"+decgen.DumpConfig(c.body), nodes >= 3)
		res.Count(fmt.Sprintf("spec-nodes:%s", bucket(nodes)))
		if i < 3 {
			res.Sample(c.in)
		}
	}
	directedUnify(cx)
	directedSharedAttr(cx)
	directedMarkedBody(cx)
	corrDec(cx)
}

func bucket(n int) string {
	switch {
	case n <= 2:
		return "1-2"
	case n <= 5:
		return "3-5"
	case n <= 10:
		return "6-10"
	case n <= 20:
		return "11-20"
	case n <= 40:
		return "21-40"
	}
	return "41+"
}
