package c06

import (
	"fmt"

	"github.com/hashicorp/hcl/v2"
	"github.com/hashicorp/hcl/v2/hclsyntax"
	"github.com/hashicorp/hcl/v2/hcldec"
	"github.com/zclconf/go-cty/cty"

	"hx/lib"
)

// directedUnify: block lists and sets whose nested spec has an attribute of the dynamic pseudo-type. When the blocks'
// values have different but unifiable types, every block value is converted to the unified type — objects become
// maps, tuples become lists or sets — and a mark that sits INSIDE the attribute's value (on one member of the
// object, on one element of the tuple) must survive that conversion, in which its path changes shape.
func directedUnify(cx *lib.Ctx) {
	res := cx.Res
	m := func(v cty.Value) cty.Value { return v.Mark(Mark) }
	s := cty.StringVal
	dyn := func(name string) hcldec.Spec {
		return hcldec.ObjectSpec{name: &hcldec.AttrSpec{Name: name, Type: cty.DynamicPseudoType}}
	}
	type tc struct {
		name   string
		spec   hcldec.Spec
		src    string
		others map[string]cty.Value
		a, b   cty.Value
	}
	mapDefaults := cty.MapVal(map[string]cty.Value{"team": s("core")})
	listDefaults := cty.ListVal([]cty.Value{s("80")})
	setDefaults := cty.SetVal([]cty.Value{s("80"), s("443")})
	cases := []tc{
		{"blocklist:object-to-map", &hcldec.BlockListSpec{TypeName: "rule", Nested: dyn("tags")},
			"rule {\n tags = { owner = secret }\n}\nrule {\n tags = defaults\n}\n", map[string]cty.Value{"defaults": mapDefaults}, m(s("alice")), m(s("bob"))},
		{"blocklist:object-to-map:two-members", &hcldec.BlockListSpec{TypeName: "rule", Nested: dyn("tags")},
			"rule {\n tags = defaults\n}\nrule {\n tags = { owner = secret, team = \"x\" }\n}\n", map[string]cty.Value{"defaults": mapDefaults}, m(s("alice")), m(s("bob"))},
		{"blocklist:tuple-to-list", &hcldec.BlockListSpec{TypeName: "rule", Nested: dyn("ports")},
			"rule {\n ports = [secret, \"81\"]\n}\nrule {\n ports = defaults\n}\n", map[string]cty.Value{"defaults": listDefaults}, m(s("22")), m(s("23"))},
		{"blockset:tuple-to-set", &hcldec.BlockSetSpec{TypeName: "rule", Nested: dyn("ports")},
			"rule {\n ports = [secret, \"81\"]\n}\nrule {\n ports = defaults\n}\n", map[string]cty.Value{"defaults": setDefaults}, m(s("22")), m(s("23"))},
		{"blockset:object-to-map", &hcldec.BlockSetSpec{TypeName: "rule", Nested: dyn("tags")},
			"rule {\n tags = { owner = secret }\n}\nrule {\n tags = defaults\n}\n", map[string]cty.Value{"defaults": mapDefaults}, m(s("alice")), m(s("bob"))},
		{"blocklist:nested-object-in-object", &hcldec.BlockListSpec{TypeName: "rule", Nested: dyn("tags")},
			"rule {\n tags = { meta = { owner = secret } }\n}\nrule {\n tags = defaults\n}\n", map[string]cty.Value{"defaults": cty.MapVal(map[string]cty.Value{"meta": mapDefaults})}, m(s("alice")), m(s("bob"))},
		{"blocklist:marked-secret-object-member", &hcldec.BlockListSpec{TypeName: "rule", Nested: dyn("tags")},
			"rule {\n tags = secret\n}\nrule {\n tags = defaults\n}\n", map[string]cty.Value{"defaults": mapDefaults},
			cty.ObjectVal(map[string]cty.Value{"owner": m(s("alice"))}), cty.ObjectVal(map[string]cty.Value{"owner": m(s("bob"))})},
		{"blocklist:no-conversion-needed", &hcldec.BlockListSpec{TypeName: "rule", Nested: dyn("tags")},
			"rule {\n tags = { owner = secret }\n}\nrule {\n tags = { owner = \"x\" }\n}\n", map[string]cty.Value{"defaults": mapDefaults}, m(s("alice")), m(s("bob"))},
	}
	for _, c := range cases {
		f, diags := hclsyntax.ParseConfig([]byte(c.src), "", hcl.InitialPos)
		if diags.HasErrors() {
			res.Fail(lib.Failure{Kind: "oracle", Key: "harness:directed-unparseable", Desc: diags.Error(), Input: c.src})
			continue
		}
		input := fmt.Sprintf("%s over:\n%s-- secret = %s | %s", c.name, c.src, lib.DumpValue(c.a), lib.DumpValue(c.b))
		var vals [2]cty.Value
		ok := true
		for i, sv := range []cty.Value{c.a, c.b} {
			vars := map[string]cty.Value{"secret": sv}
			for k, v := range c.others {
				vars[k] = v
			}
			ctx := &hcl.EvalContext{Variables: vars}
			if !cx.Guard("directed-unify:"+c.name, input, func() {
				v, d := hcldec.Decode(f.Body, c.spec, ctx)
				if d.HasErrors() {
					ok = false
				}
				vals[i] = v
			}) {
				ok = false
			}
		}
		res.Count("directed-unify:cases")
		res.Case("directed-unify|"+c.name, ok)
		if !ok {
			res.Count("directed-unify:error-or-panic")
			continue
		}
		ua, _ := vals[0].UnmarkDeep()
		ub, _ := vals[1].UnmarkDeep()
		if lib.DumpValue(ua) == lib.DumpValue(ub) {
			res.Count("directed-unify:same-result")
			continue
		}
		if !hasMark(vals[0]) || !hasMark(vals[1]) {
			res.Fail(lib.Failure{Kind: "oracle", Key: "mark-lost:hcldec:unify:" + c.name,
				Desc:  "changing the content of the marked variable changes the decoded value, but a result does not carry the mark",
				Input: input, Impl: "run A: " + lib.DumpValue(vals[0]) + "\nrun B: " + lib.DumpValue(vals[1])})
		}
	}
}
