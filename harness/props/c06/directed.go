package c06

import (
	"fmt"
	"strings"

	"github.com/hashicorp/hcl/v2"
	"github.com/hashicorp/hcl/v2/ext/dynblock"
	"github.com/hashicorp/hcl/v2/hcldec"
	"github.com/hashicorp/hcl/v2/hclsyntax"
	hcljson "github.com/hashicorp/hcl/v2/json"
	"github.com/zclconf/go-cty/cty"
	"github.com/zclconf/go-cty/cty/function"

	"hx/lib"
	"hx/props/evalgen"
)

// directedBlockSpecs: a dynamic block over a collection marked at the top, decoded through each block-collecting
// spec kind, where the generated blocks carry nothing from the collection in their *attributes* — the content is
// empty, or holds only a nested static block, or leaves its optional attribute unset.  The number of blocks and
// their labels still follow the marked collection, so the decoded value differs between two contents of the
// collection and must carry the mark (the decoder applies the body's value marks to each block's value).
// The random stream almost always has an attribute derived from the iterator in the content, which is marked by
// the evaluation itself and hides a decoder that forgets the body marks.
func directedBlockSpecs(cx *lib.Ctx) {
	res := cx.Res
	inner := hcldec.ObjectSpec{
		"opt": &hcldec.AttrSpec{Name: "opt", Type: cty.String},
		"sub": &hcldec.BlockSpec{TypeName: "sub", Nested: hcldec.ObjectSpec{"v": &hcldec.AttrSpec{Name: "v", Type: cty.String}}},
	}
	specs := map[string]hcldec.Spec{
		"blocklist":   &hcldec.BlockListSpec{TypeName: "b", Nested: inner},
		"blockset":    &hcldec.BlockSetSpec{TypeName: "b", Nested: inner},
		"blocktuple":  &hcldec.BlockTupleSpec{TypeName: "b", Nested: inner},
		"blockmap":    &hcldec.BlockMapSpec{TypeName: "b", LabelNames: []string{"k"}, Nested: inner},
		"blockobject": &hcldec.BlockObjectSpec{TypeName: "b", LabelNames: []string{"k"}, Nested: inner},
	}
	contents := map[string]string{
		"empty":         "",
		"static-nested": "sub {\n v = \"fixed\"\n }\n",
		"nested-ref":    "sub {\n v = b.key\n }\n",
	}
	colls := [][2]cty.Value{
		{cty.MapVal(map[string]cty.Value{"a": cty.StringVal("x")}), cty.MapVal(map[string]cty.Value{"p": cty.StringVal("x"), "q": cty.StringVal("y")})},
		{cty.ListVal([]cty.Value{cty.StringVal("x")}), cty.ListVal([]cty.Value{cty.StringVal("x"), cty.StringVal("y")})},
		{cty.ObjectVal(map[string]cty.Value{"a": cty.True}), cty.ObjectVal(map[string]cty.Value{"zz": cty.True})},
	}
	for kind, spec := range specs {
		labelled := kind == "blockmap" || kind == "blockobject"
		for cname, content := range contents {
			for ci, pair := range colls {
				var sb strings.Builder
				sb.WriteString("dynamic \"b\" {\n for_each = coll\n")
				if labelled {
					sb.WriteString(" labels = [\"k-${b.key}\"]\n")
				}
				sb.WriteString(" content {\n " + content + " }\n}\n")
				src := sb.String()
				input := fmt.Sprintf("%s over:\n%s-- coll = %s | %s (marked %q at the top)", kind, src, lib.DumpValue(pair[0]), lib.DumpValue(pair[1]), Mark)
				f, diags := hclsyntax.ParseConfig([]byte(src), "", hcl.InitialPos)
				if diags.HasErrors() {
					res.Fail(lib.Failure{Kind: "oracle", Key: "harness:directed-unparseable", Desc: diags.Error(), Input: input})
					continue
				}
				var vals [2]cty.Value
				ok := true
				for i := 0; i < 2; i++ {
					ctx := &hcl.EvalContext{Variables: map[string]cty.Value{"coll": pair[i].Mark(Mark)}}
					good := cx.Guard("directed-blockspec:"+kind, input, func() {
						v, d := hcldec.Decode(dynblock.Expand(f.Body, ctx), spec, ctx)
						if d.HasErrors() {
							ok = false
						}
						vals[i] = v
					})
					if !good {
						ok = false
					}
				}
				res.Count("directed-blockspec:cases")
				res.Case(fmt.Sprintf("directed-blockspec|%s|%s|%d", kind, cname, ci), ok)
				if !ok {
					res.Count("directed-blockspec:error-or-panic")
					continue
				}
				ua, _ := vals[0].UnmarkDeep()
				ub, _ := vals[1].UnmarkDeep()
				if lib.DumpValue(ua) == lib.DumpValue(ub) {
					res.Count("directed-blockspec:same-result")
					continue
				}
				if !hasMark(vals[0]) || !hasMark(vals[1]) {
					res.Fail(lib.Failure{Kind: "oracle", Key: "mark-lost:hcldec:" + kind + ":directed:" + cname,
						Desc:  "changing the marked for_each collection changes the decoded value, but a result does not carry the mark",
						Input: input, Impl: "run A: " + lib.DumpValue(vals[0]) + "\nrun B: " + lib.DumpValue(vals[1])})
				}
			}
		}
	}
}

// directedExprs: two-run checks on expressions whose result depends on a marked value only through *whether an
// iteration contributes anything* — an element that is empty in one run, a collection with no elements, a
// condition that filters everything — where a mark is easily forgotten because there is "nothing" to mark.
func directedExprs(cx *lib.Ctx) {
	res := cx.Res
	m := func(v cty.Value) cty.Value { return v.Mark(Mark) }
	s := cty.StringVal
	type pair struct {
		src  string
		a, b map[string]cty.Value
	}
	lst := func(vs ...cty.Value) cty.Value { return cty.ListVal(vs) }
	tup := func(vs ...cty.Value) cty.Value { return cty.TupleVal(vs) }
	pairs := []pair{
		{`"%{ for x in secret }${x}%{ endfor }"`, map[string]cty.Value{"secret": tup(s("a"), m(s("")))}, map[string]cty.Value{"secret": tup(s("a"), m(s("b")))}},
		{`"[%{ for x in ["a"] }${secret}%{ endfor }]"`, map[string]cty.Value{"secret": m(s(""))}, map[string]cty.Value{"secret": m(s("s"))}},
		{`"%{ for x in secret }${x}%{ endfor }"`, map[string]cty.Value{"secret": m(lst(s("")))}, map[string]cty.Value{"secret": m(lst(s("b")))}},
		{`"%{ for x in secret }-%{ endfor }"`, map[string]cty.Value{"secret": m(cty.ListValEmpty(cty.String))}, map[string]cty.Value{"secret": m(lst(s("b")))}},
		{`"%{ if secret == "" }%{ else }x%{ endif }"`, map[string]cty.Value{"secret": m(s(""))}, map[string]cty.Value{"secret": m(s("b"))}},
		{`"${secret}"`, map[string]cty.Value{"secret": m(s(""))}, map[string]cty.Value{"secret": m(s("b"))}},
		{`"a${secret}b"`, map[string]cty.Value{"secret": m(s(""))}, map[string]cty.Value{"secret": m(s("b"))}},
		{`secret[*]`, map[string]cty.Value{"secret": m(cty.ListValEmpty(cty.String))}, map[string]cty.Value{"secret": m(lst(s("b")))}},
		{`secret.*.name`, map[string]cty.Value{"secret": m(cty.ListValEmpty(cty.Object(map[string]cty.Type{"name": cty.String})))}, map[string]cty.Value{"secret": m(lst(cty.ObjectVal(map[string]cty.Value{"name": s("a")})))}},
		{`[for x in secret : x]`, map[string]cty.Value{"secret": m(cty.ListValEmpty(cty.String))}, map[string]cty.Value{"secret": m(lst(s("b")))}},
		{`[for x in ["a", "b"] : x if x != secret]`, map[string]cty.Value{"secret": m(s("a"))}, map[string]cty.Value{"secret": m(s("zz"))}},
		{`[for x in ["a"] : x if secret]`, map[string]cty.Value{"secret": m(cty.False)}, map[string]cty.Value{"secret": m(cty.True)}},
		{`{for x in ["a"] : x => x if secret}`, map[string]cty.Value{"secret": m(cty.False)}, map[string]cty.Value{"secret": m(cty.True)}},
		{`secret.a`, map[string]cty.Value{"secret": m(cty.MapVal(map[string]cty.Value{"a": s("x")}))}, map[string]cty.Value{"secret": m(cty.MapVal(map[string]cty.Value{"a": s("y")}))}},
		{`secret["a"]`, map[string]cty.Value{"secret": m(cty.MapVal(map[string]cty.Value{"a": s("x")}))}, map[string]cty.Value{"secret": m(cty.MapVal(map[string]cty.Value{"a": s("y")}))}},
		{`secret.a`, map[string]cty.Value{"secret": m(cty.ObjectVal(map[string]cty.Value{"a": s("x")}))}, map[string]cty.Value{"secret": m(cty.ObjectVal(map[string]cty.Value{"a": s("y")}))}},
		{`secret[0]`, map[string]cty.Value{"secret": m(lst(s("x")))}, map[string]cty.Value{"secret": m(lst(s("y")))}},
		{`length(secret) == 0 ? "e" : "n"`, map[string]cty.Value{"secret": m(cty.ListValEmpty(cty.String))}, map[string]cty.Value{"secret": m(lst(s("b")))}},
		{`!secret`, map[string]cty.Value{"secret": m(cty.False)}, map[string]cty.Value{"secret": m(cty.True)}},
		{`secret && true`, map[string]cty.Value{"secret": m(cty.False)}, map[string]cty.Value{"secret": m(cty.True)}},
		{`false || secret`, map[string]cty.Value{"secret": m(cty.False)}, map[string]cty.Value{"secret": m(cty.True)}},
		// a computed object key derived from the marked value that collides with a later, unmarked key of the same
		// constructor: which item survives depends on the content, so the mark of the key must survive too
		{`{ (secret) = "from-secret", b = "lit" }`, map[string]cty.Value{"secret": m(s("b"))}, map[string]cty.Value{"secret": m(s("a"))}},
		{`{ b = "lit", (secret) = "from-secret" }`, map[string]cty.Value{"secret": m(s("b"))}, map[string]cty.Value{"secret": m(s("a"))}},
		{`{ "p-${secret}" = true, "p-1" = false }`, map[string]cty.Value{"secret": m(s("1"))}, map[string]cty.Value{"secret": m(s("2"))}},
		{`{ (secret) = "n", "2" = "s" }`, map[string]cty.Value{"secret": m(cty.NumberIntVal(2))}, map[string]cty.Value{"secret": m(cty.NumberIntVal(3))}},
		{`{ (secret) = 1, (other) = 2, b = 3 }`, map[string]cty.Value{"secret": m(s("b")), "other": s("b")}, map[string]cty.Value{"secret": m(s("a")), "other": s("b")}},
		{`{for k in [secret, "b"] : k => k...}`, map[string]cty.Value{"secret": m(s("b"))}, map[string]cty.Value{"secret": m(s("a"))}},
		// a marked key whose type is not the collection's own key type (the index operator converts it first)
		{`["a", "b"][secret]`, map[string]cty.Value{"secret": m(s("0"))}, map[string]cty.Value{"secret": m(s("1"))}},
		{`xs[secret]`, map[string]cty.Value{"secret": m(s("0")), "xs": lst(s("a"), s("b"))}, map[string]cty.Value{"secret": m(s("1")), "xs": lst(s("a"), s("b"))}},
		{`xs[secret]`, map[string]cty.Value{"secret": m(s("0")), "xs": tup(s("a"), cty.True)}, map[string]cty.Value{"secret": m(s("1")), "xs": tup(s("a"), cty.True)}},
		{`mp[secret]`, map[string]cty.Value{"secret": m(cty.Zero), "mp": cty.MapVal(map[string]cty.Value{"0": s("x"), "1": s("y")})}, map[string]cty.Value{"secret": m(cty.NumberIntVal(1)), "mp": cty.MapVal(map[string]cty.Value{"0": s("x"), "1": s("y")})}},
		{`mp[secret]`, map[string]cty.Value{"secret": m(cty.False), "mp": cty.MapVal(map[string]cty.Value{"false": s("x"), "true": s("y")})}, map[string]cty.Value{"secret": m(cty.True), "mp": cty.MapVal(map[string]cty.Value{"false": s("x"), "true": s("y")})}},
		{`"state: ${mp[secret]}"`, map[string]cty.Value{"secret": m(cty.False), "mp": cty.MapVal(map[string]cty.Value{"false": s("x"), "true": s("y")})}, map[string]cty.Value{"secret": m(cty.True), "mp": cty.MapVal(map[string]cty.Value{"false": s("x"), "true": s("y")})}},
		{`[for x in xs : x][secret.idx]`, map[string]cty.Value{"secret": cty.ObjectVal(map[string]cty.Value{"idx": m(s("0"))}), "xs": lst(s("a"), s("b"))}, map[string]cty.Value{"secret": cty.ObjectVal(map[string]cty.Value{"idx": m(s("1"))}), "xs": lst(s("a"), s("b"))}},
		{`xs[secret]`, map[string]cty.Value{"secret": m(cty.Zero), "xs": lst(s("a"), s("b"))}, map[string]cty.Value{"secret": m(cty.NumberIntVal(1)), "xs": lst(s("a"), s("b"))}},
		{`xs.0[secret]`, map[string]cty.Value{"secret": m(s("0")), "xs": tup(lst(s("a"), s("b")))}, map[string]cty.Value{"secret": m(s("1")), "xs": tup(lst(s("a"), s("b")))}},
		{`mp[secret]`, map[string]cty.Value{"secret": m(s("a")), "mp": cty.MapVal(map[string]cty.Value{"a": s("x"), "b": s("y")})}, map[string]cty.Value{"secret": m(s("b")), "mp": cty.MapVal(map[string]cty.Value{"a": s("x"), "b": s("y")})}},
	}
	for _, p := range pairs {
		e, diags := hclsyntax.ParseExpression([]byte(p.src), "", hcl.InitialPos)
		if diags.HasErrors() {
			res.Fail(lib.Failure{Kind: "oracle", Key: "harness:directed-unparseable", Desc: diags.Error(), Input: p.src})
			continue
		}
		var vals [2]cty.Value
		ok := true
		for i, sc := range []map[string]cty.Value{p.a, p.b} {
			ctx := &hcl.EvalContext{Variables: sc, Functions: evalgen.Funcs()}
			good := cx.Guard("directed-expr", p.src, func() {
				v, d := e.Value(ctx)
				if d.HasErrors() {
					ok = false
				}
				vals[i] = v
			})
			if !good {
				ok = false
			}
		}
		res.Count("directed-expr:cases")
		res.Case("directed-expr|"+p.src+"|"+lib.DumpValue(p.a["secret"]), ok)
		if !ok {
			res.Count("directed-expr:error")
			continue
		}
		ua, _ := vals[0].UnmarkDeep()
		ub, _ := vals[1].UnmarkDeep()
		if lib.DumpValue(ua) == lib.DumpValue(ub) {
			res.Count("directed-expr:same-result")
			continue
		}
		if !hasMark(vals[0]) || !hasMark(vals[1]) {
			res.Fail(lib.Failure{Kind: "oracle", Key: "mark-lost:directed:" + p.src,
				Desc:  "changing the content of the marked variable changes the error-free result, but a result does not carry the mark",
				Input: fmt.Sprintf("%s\n-- secret = %s | %s", p.src, lib.DumpValue(p.a["secret"]), lib.DumpValue(p.b["secret"])),
				Impl:  "run A: " + lib.DumpValue(vals[0]) + "\nrun B: " + lib.DumpValue(vals[1])})
		}
	}
}

// directedTwoMarks: the two-run check in the presence of a second marked variable that carries a *different*
// mark — wherever the marks of several operands are merged (object keys, template parts, operands, arguments,
// for-expression keys), in both operand orders and in both syntaxes, the mark of the varied variable must
// survive next to the other one.
func directedTwoMarks(cx *lib.Ctx) {
	res := cx.Res
	const otherMark = "bystander"
	s := cty.StringVal
	native := []string{
		`{ (secret) = 1, lit = 2, (other) = 3 }`, `{ (other) = 1, lit = 2, (secret) = 3 }`, `{ (secret) = other }`, `{ (other) = secret }`,
		`"${secret}-${other}"`, `"${other}-${secret}"`, `"${other}${secret}${other}"`, `"%{ if other != "" }${secret}%{ endif }"`, `"%{ for x in [other, secret] }${x}%{ endfor }"`, `"%{ for x in [secret, other] }${x}%{ endfor }"`,
		`secret == other`, `other == secret`, `other != "" ? secret : "x"`, `secret != "" ? other : "x"`, `upper(secret) == upper(other)`, `join(other, [secret, "z"])`, `join(secret, [other, "z"])`,
		`{for k in [secret, other] : k => 1}`, `{for k in [other, secret] : k => 1}`, `{for k, v in { a = secret, b = other } : v => k}`, `[for v in [other, secret] : upper(v)][1]`,
		`[1, 2][secret == "a" ? 0 : 1] + length(other)`, `coalesce(other, secret)`, `coalesce("", secret, other)`, `[other, secret][1]`, `{ (other) = { (secret) = 1 } }`,
	}
	jsons := []string{
		`{"${secret}": 1, "lit": 2, "${other}": 3}`, `{"${other}": 1, "lit": 2, "${secret}": 3}`, `{"${secret}": "${other}"}`, `{"${other}": "${secret}"}`,
		`"${secret}-${other}"`, `"${other}-${secret}"`, `["${other}", "${secret}"]`, `{"k": "${other}", "${secret}": 1, "z": "${other}"}`, `{"${other}": {"${secret}": 1}}`,
		`{"${secret}": 1, "${other}": 2, "${other}x": 3}`, `"%{ for x in [other, secret] }${x}%{ endfor }"`,
	}
	type parsed struct {
		src  string
		e    hcl.Expression
		mode string
	}
	var all []parsed
	for _, src := range native {
		e, diags := hclsyntax.ParseExpression([]byte(src), "", hcl.InitialPos)
		if diags.HasErrors() {
			res.Fail(lib.Failure{Kind: "oracle", Key: "harness:directed-unparseable", Desc: diags.Error(), Input: src})
			continue
		}
		all = append(all, parsed{src, e, "native"})
	}
	for _, src := range jsons {
		e, diags := hcljson.ParseExpression([]byte(src), "case.json")
		if diags.HasErrors() {
			res.Fail(lib.Failure{Kind: "oracle", Key: "harness:directed-unparseable", Desc: diags.Error(), Input: src})
			continue
		}
		all = append(all, parsed{src, e, "json"})
	}
	contents := [][2]cty.Value{{s("a"), s("b")}, {s(""), s("q")}, {s("a"), s("o")}}
	for _, p := range all {
		for _, c := range contents {
			var vals [2]cty.Value
			ok := true
			for i := 0; i < 2; i++ {
				ctx := &hcl.EvalContext{Variables: map[string]cty.Value{"secret": c[i].Mark(Mark), "other": s("o").Mark(otherMark)}, Functions: evalgen.Funcs()}
				good := cx.Guard("directed-two-marks", p.src, func() {
					v, d := p.e.Value(ctx)
					if d.HasErrors() {
						ok = false
					}
					vals[i] = v
				})
				if !good {
					ok = false
				}
			}
			res.Count("directed-two-marks:cases")
			res.Case("directed-two-marks|"+p.mode+"|"+p.src+"|"+lib.DumpValue(c[0])+lib.DumpValue(c[1]), ok)
			if !ok {
				res.Count("directed-two-marks:error")
				continue
			}
			ua, _ := vals[0].UnmarkDeep()
			ub, _ := vals[1].UnmarkDeep()
			if lib.DumpValue(ua) == lib.DumpValue(ub) {
				res.Count("directed-two-marks:same-result")
				continue
			}
			if !hasMark(vals[0]) || !hasMark(vals[1]) {
				res.Fail(lib.Failure{Kind: "oracle", Key: "mark-lost:two-marks:" + p.mode + ":" + p.src,
					Desc:  "changing the content of the variable marked \"secret\" changes the error-free result, but a result does not carry that mark (another variable carries a different mark)",
					Input: fmt.Sprintf("%s (%s)\n-- secret = %s | %s, other = \"o\" marked %q", p.src, p.mode, lib.DumpValue(c[0]), lib.DumpValue(c[1]), otherMark),
					Impl:  "run A: " + lib.DumpValue(vals[0]) + "\nrun B: " + lib.DumpValue(vals[1])})
			}
		}
	}
}

// directedGeneratedAttrs: below the decoder.  Two-run check on the attribute expressions of a block generated
// from a for_each collection marked at the top: a constant, a null, a value that is null for one element and
// not for another, in the generated block itself and in a static block nested in it.  Where the value read
// from the expanded body differs between the two contents of the collection, both values carry the mark
// (dynblock applies the collection's marks to each expression's result).  Consumers that build a value from
// the attribute values alone (a single hcldec.BlockSpec, gohcl, direct use of Content) have nothing else.
func directedGeneratedAttrs(cx *lib.Ctx) {
	res := cx.Res
	exprs := []string{`"fixed"`, `null`, `b.value`, `b.value == "none" ? null : b.value`, `b.value == "none" ? "" : null`, `[b.value]`, `b.key`, `other`, `b.value == "none" ? [] : [1]`, `b.value == "none" ? null : 1`}
	s := cty.StringVal
	colls := [][2]cty.Value{
		{cty.ListVal([]cty.Value{s("none")}), cty.ListVal([]cty.Value{s("some")})},
		{cty.ListVal([]cty.Value{s("x"), s("none")}), cty.ListVal([]cty.Value{s("x"), s("some")})},
		{cty.MapVal(map[string]cty.Value{"k": s("none")}), cty.MapVal(map[string]cty.Value{"k": s("some")})},
		{cty.MapVal(map[string]cty.Value{"k": s("none")}), cty.MapVal(map[string]cty.Value{"j": s("none")})},
		{cty.SetVal([]cty.Value{s("none")}), cty.SetVal([]cty.Value{s("some")})},
		{cty.TupleVal([]cty.Value{s("none"), s("x")}), cty.TupleVal([]cty.Value{s("some"), s("x")})},
		{cty.ObjectVal(map[string]cty.Value{"k": s("none")}), cty.ObjectVal(map[string]cty.Value{"k": s("some")})},
		// a content that is not known yet is a content too: the placeholder block stands for all of them
		{cty.ListVal([]cty.Value{s("some")}), cty.UnknownVal(cty.List(cty.String))},
		{cty.UnknownVal(cty.Map(cty.String)), cty.MapVal(map[string]cty.Value{"k": s("some")})},
		{cty.TupleVal([]cty.Value{s("x")}), cty.DynamicVal},
	}
	schema := &hcl.BodySchema{Blocks: []hcl.BlockHeaderSchema{{Type: "b"}}}
	for _, ex := range exprs {
		src := "dynamic \"b\" {\n for_each = coll\n content {\n  x = " + ex + "\n  z = " + ex + "\n  sub {\n   y = " + ex + "\n  }\n }\n}\n"
		f, diags := hclsyntax.ParseConfig([]byte(src), "", hcl.InitialPos)
		if diags.HasErrors() {
			res.Fail(lib.Failure{Kind: "oracle", Key: "harness:directed-unparseable", Desc: diags.Error(), Input: src})
			continue
		}
		for ci, pair := range colls {
			input := fmt.Sprintf("%s-- coll = %s | %s (marked %q at the top)", src, lib.DumpValue(pair[0]), lib.DumpValue(pair[1]), Mark)
			var got [2]map[string]cty.Value
			for run := 0; run < 2; run++ {
				got[run] = map[string]cty.Value{}
				ctx := &hcl.EvalContext{Variables: map[string]cty.Value{"coll": pair[run].Mark(Mark), "other": s("o")}}
				cx.Guard("directed-generated-attrs", input, func() {
					content, d := dynblock.Expand(f.Body, ctx).Content(schema)
					if d.HasErrors() {
						res.Count("directed-generated-attrs:error")
						return
					}
					for bi, blk := range content.Blocks {
						bc, rest, d := blk.Body.PartialContent(&hcl.BodySchema{Attributes: []hcl.AttributeSchema{{Name: "x"}}})
						if d.HasErrors() || bc.Attributes["x"] == nil {
							res.Count("directed-generated-attrs:error")
							continue
						}
						if v, vd := bc.Attributes["x"].Expr.Value(ctx); !vd.HasErrors() {
							got[run][fmt.Sprintf("block %d: x", bi)] = v
						}
						// the second pass over what the first one left
						if zc, _, d := rest.PartialContent(&hcl.BodySchema{Attributes: []hcl.AttributeSchema{{Name: "z"}}}); !d.HasErrors() && zc.Attributes["z"] != nil {
							if v, vd := zc.Attributes["z"].Expr.Value(ctx); !vd.HasErrors() {
								got[run][fmt.Sprintf("block %d: z (from the remaining body)", bi)] = v
							}
						}
						if sc, _, d := rest.PartialContent(&hcl.BodySchema{Blocks: []hcl.BlockHeaderSchema{{Type: "sub"}}}); !d.HasErrors() && len(sc.Blocks) == 1 {
							if attrs, d := sc.Blocks[0].Body.JustAttributes(); !d.HasErrors() && attrs["y"] != nil {
								if v, vd := attrs["y"].Expr.Value(ctx); !vd.HasErrors() {
									got[run][fmt.Sprintf("block %d: sub.y", bi)] = v
								}
							}
						}
					}
				})
			}
			for where, va := range got[0] {
				vb, ok := got[1][where]
				if !ok {
					continue
				}
				res.Count("directed-generated-attrs:pairs")
				ua, _ := va.UnmarkDeep()
				ub, _ := vb.UnmarkDeep()
				if lib.DumpValue(ua) == lib.DumpValue(ub) {
					continue
				}
				if !hasMark(va) || !hasMark(vb) {
					shape := "value"
					if va.IsNull() || vb.IsNull() {
						shape = "null"
					}
					place := "generated-block"
					if strings.Contains(where, "sub.") {
						place = "static-block-nested-in-generated-block"
					}
					res.Fail(lib.Failure{Kind: "oracle", Key: "mark-lost:dynblock-attribute:" + place + ":" + shape,
						Desc:  "attribute " + where + " of a block generated from a marked for_each collection differs between the two contents of the collection, but a value does not carry the mark",
						Input: input, Impl: "run A: " + lib.DumpValue(va) + "\nrun B: " + lib.DumpValue(vb)})
				}
			}
			res.Case(fmt.Sprintf("directed-generated-attrs|%s|%d", ex, ci), true)
		}
	}
}

// directedWrappedSpecs: two-run decode of one attribute through every spec that wraps another one and passes its
// value on (validation, transformation by function and by expression, refinement, default, object, tuple): the
// wrapper sees a marked value and must hand it on with its marks.
func directedWrappedSpecs(cx *lib.Ctx) {
	res := cx.Res
	attr := func() hcldec.Spec { return &hcldec.AttrSpec{Name: "a", Type: cty.DynamicPseudoType} }
	idExpr, _ := hclsyntax.ParseExpression([]byte("v"), "", hcl.InitialPos)
	wrapExpr, _ := hclsyntax.ParseExpression([]byte("[v, 1]"), "", hcl.InitialPos)
	wrappers := map[string]func(hcldec.Spec) hcldec.Spec{
		"validate": func(s hcldec.Spec) hcldec.Spec {
			return &hcldec.ValidateSpec{Wrapped: s, Func: func(cty.Value) hcl.Diagnostics { return nil }}
		},
		"validate-warn": func(s hcldec.Spec) hcldec.Spec {
			return &hcldec.ValidateSpec{Wrapped: s, Func: func(cty.Value) hcl.Diagnostics { return hcl.Diagnostics{{Severity: hcl.DiagWarning, Summary: "w"}} }}
		},
		"transform-func": func(s hcldec.Spec) hcldec.Spec {
			return &hcldec.TransformFuncSpec{Wrapped: s, Func: function.New(&function.Spec{Params: []function.Parameter{{Name: "v", Type: cty.DynamicPseudoType, AllowMarked: true, AllowNull: true, AllowUnknown: true, AllowDynamicType: true}}, Type: func(args []cty.Value) (cty.Type, error) { return args[0].Type(), nil }, Impl: func(args []cty.Value, _ cty.Type) (cty.Value, error) { return args[0], nil }})}
		},
		"transform-expr": func(s hcldec.Spec) hcldec.Spec {
			return &hcldec.TransformExprSpec{Wrapped: s, Expr: idExpr, VarName: "v"}
		},
		"transform-wrap": func(s hcldec.Spec) hcldec.Spec {
			return &hcldec.TransformExprSpec{Wrapped: s, Expr: wrapExpr, VarName: "v"}
		},
		"refine": func(s hcldec.Spec) hcldec.Spec {
			return &hcldec.RefineValueSpec{Wrapped: s, Refine: func(b *cty.RefinementBuilder) *cty.RefinementBuilder { return b }}
		},
		"default": func(s hcldec.Spec) hcldec.Spec {
			return &hcldec.DefaultSpec{Primary: s, Default: &hcldec.LiteralSpec{Value: cty.StringVal("d")}}
		},
		"object": func(s hcldec.Spec) hcldec.Spec { return hcldec.ObjectSpec{"w": s} },
		"tuple":  func(s hcldec.Spec) hcldec.Spec { return hcldec.TupleSpec{s} },
	}
	exprs := []string{`secret`, `"id-${secret}"`, `[secret]`, `{ k = secret }`, `secret != "" ? 1 : 2`, `upper(secret)`, `secret == "alpha" ? null : secret`}
	for wname, w := range wrappers {
		for _, twice := range []bool{false, true} {
			spec := w(attr())
			if twice {
				spec = w(w(attr()))
			}
			for _, ex := range exprs {
				src := "a = " + ex + "\n"
				f, diags := hclsyntax.ParseConfig([]byte(src), "", hcl.InitialPos)
				if diags.HasErrors() {
					res.Fail(lib.Failure{Kind: "oracle", Key: "harness:directed-unparseable", Desc: diags.Error(), Input: src})
					continue
				}
				input := fmt.Sprintf("%s (twice=%v) over: %s-- secret = \"alpha\" | \"beta\" (marked %q)", wname, twice, src, Mark)
				var vals [2]cty.Value
				ok := true
				for i, content := range []string{"alpha", "beta"} {
					ctx := &hcl.EvalContext{Variables: map[string]cty.Value{"secret": cty.StringVal(content).Mark(Mark)}, Functions: evalgen.Funcs()}
					good := cx.Guard("directed-wrapped-spec:"+wname, input, func() {
						v, d := hcldec.Decode(f.Body, spec, ctx)
						if d.HasErrors() {
							ok = false
						}
						vals[i] = v
					})
					if !good {
						ok = false
					}
				}
				res.Count("directed-wrapped-spec:cases")
				res.Case(fmt.Sprintf("directed-wrapped-spec|%s|%v|%s", wname, twice, ex), ok)
				if !ok {
					res.Count("directed-wrapped-spec:error-or-panic")
					continue
				}
				ua, _ := vals[0].UnmarkDeep()
				ub, _ := vals[1].UnmarkDeep()
				if lib.DumpValue(ua) == lib.DumpValue(ub) {
					continue
				}
				if !hasMark(vals[0]) || !hasMark(vals[1]) {
					res.Fail(lib.Failure{Kind: "oracle", Key: "mark-lost:hcldec:wrapper:" + wname,
						Desc:  "changing the content of the marked variable changes the decoded value, but a result does not carry the mark",
						Input: input, Impl: "run A: " + lib.DumpValue(vals[0]) + "\nrun B: " + lib.DumpValue(vals[1])})
				}
			}
		}
	}
}
