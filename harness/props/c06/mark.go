package c06

import (
	"github.com/zclconf/go-cty/cty"

	"hx/lib"
	"hx/props/evalgen"
)

// Mark is the mark whose propagation is checked.
const Mark = "secret"

// hasMark reports whether the mark occurs anywhere in the structure of v.
func hasMark(v cty.Value) bool {
	if v == cty.NilVal {
		return false
	}
	_, pvm := v.UnmarkDeepWithPaths()
	for _, p := range pvm {
		if _, ok := p.Marks[Mark]; ok {
			return true
		}
	}
	return false
}

type subPos struct {
	path cty.Path
	val  cty.Value
}

// positions lists the nested positions (depth >= 1) of a known value.
func positions(v cty.Value) []subPos {
	var out []subPos
	_ = cty.Walk(v, func(p cty.Path, sv cty.Value) (bool, error) {
		if len(p) > 0 && len(p) <= 3 {
			out = append(out, subPos{p.Copy(), sv})
		}
		return len(p) < 3, nil
	})
	return out
}

// pair builds the two marked contents of a variable: either marked at top level (B is any other value of
// the same type) or marked at one nested position (B differs from A exactly there). ok=false when no
// second content exists (e.g. the empty tuple).
func pair(r *lib.Rand, a cty.Value, nested bool) (am, bm cty.Value, where string, ok bool) {
	ty := a.Type()
	if !nested || !a.IsKnown() || a.IsNull() {
		for try := 0; try < 8; try++ {
			b := evalgen.RandValue(r, ty, 10)
			if ty == cty.DynamicPseudoType {
				b = cty.NullVal(ty) // a null of unknown type has no other content of the same type
			}
			if !b.RawEquals(a) {
				return a.Mark(Mark), b.Mark(Mark), "top", true
			}
		}
		return a, a, "", false
	}
	ps := positions(a)
	if len(ps) == 0 {
		return pair(r, a, false)
	}
	p := ps[r.Intn(len(ps))]
	var nb cty.Value
	found := false
	for try := 0; try < 8; try++ {
		nb = evalgen.RandValue(r, p.val.Type(), 10)
		if !nb.RawEquals(p.val) {
			found = true
			break
		}
	}
	if !found {
		return pair(r, a, false)
	}
	at := func(repl cty.Value) (cty.Value, error) {
		return cty.Transform(a, func(q cty.Path, sv cty.Value) (cty.Value, error) {
			if q.Equals(p.path) {
				return repl.Mark(Mark), nil
			}
			return sv, nil
		})
	}
	am, err1 := at(p.val)
	bm, err2 := at(nb)
	if err1 != nil || err2 != nil || !hasMark(am) || !hasMark(bm) {
		return pair(r, a, false)
	}
	ua, _ := am.UnmarkDeep()
	ub, _ := bm.UnmarkDeep()
	if ua.RawEquals(ub) {
		return pair(r, a, false) // e.g. the replaced set element coalesced with another one
	}
	return am, bm, "nested", true
}

// markedNull reports whether a position carrying the mark holds a null value.
func markedNull(v cty.Value) bool {
	if v == cty.NilVal {
		return false
	}
	u, pvm := v.UnmarkDeepWithPaths()
	for _, p := range pvm {
		if _, ok := p.Marks[Mark]; !ok {
			continue
		}
		sub, err := p.Path.Apply(u)
		if err == nil && sub.IsNull() {
			return true
		}
	}
	return false
}

// denull replaces every null inside v by a non-null value of its type (marks kept where they are); changed
// reports whether anything was replaced.
func denull(v cty.Value) (out cty.Value, changed bool) {
	if v == cty.NilVal {
		return v, false
	}
	u, marks := v.Unmark()
	defer func() {
		if len(marks) > 0 {
			out = out.WithMarks(marks)
		}
	}()
	ty := u.Type()
	if !u.IsKnown() {
		return u, false
	}
	if u.IsNull() {
		return zeroOf(ty), true
	}
	switch {
	case ty.IsListType() || ty.IsSetType() || ty.IsTupleType():
		var els []cty.Value
		for it := u.ElementIterator(); it.Next(); {
			_, ev := it.Element()
			d, c := denull(ev)
			changed = changed || c
			els = append(els, d)
		}
		if !changed || len(els) == 0 {
			return u, false
		}
		switch {
		case ty.IsListType():
			return cty.ListVal(els), true
		case ty.IsSetType():
			return cty.SetVal(els), true
		default:
			return cty.TupleVal(els), true
		}
	case ty.IsMapType() || ty.IsObjectType():
		m := map[string]cty.Value{}
		for it := u.ElementIterator(); it.Next(); {
			k, ev := it.Element()
			d, c := denull(ev)
			changed = changed || c
			m[k.AsString()] = d
		}
		if !changed || len(m) == 0 {
			return u, false
		}
		if ty.IsMapType() {
			return cty.MapVal(m), true
		}
		return cty.ObjectVal(m), true
	}
	return u, false
}

func zeroOf(ty cty.Type) cty.Value {
	switch {
	case ty == cty.String || ty == cty.DynamicPseudoType:
		return cty.StringVal("z")
	case ty == cty.Number:
		return cty.NumberIntVal(7)
	case ty == cty.Bool:
		return cty.True
	case ty.IsListType():
		return cty.ListValEmpty(ty.ElementType())
	case ty.IsSetType():
		return cty.SetValEmpty(ty.ElementType())
	case ty.IsMapType():
		return cty.MapValEmpty(ty.ElementType())
	case ty.IsTupleType():
		var els []cty.Value
		for _, et := range ty.TupleElementTypes() {
			els = append(els, zeroOf(et))
		}
		return cty.TupleVal(els)
	case ty.IsObjectType():
		m := map[string]cty.Value{}
		for k, at := range ty.AttributeTypes() {
			m[k] = zeroOf(at)
		}
		return cty.ObjectVal(m)
	}
	return cty.StringVal("z")
}
