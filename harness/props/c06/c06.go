// Package c06 checks that value marks propagate to everything they influence (two-run non-interference).
package c06

import (
	"encoding/json"
	"fmt"
	"regexp"
	"runtime/debug"
	"sort"
	"strings"

	"github.com/hashicorp/hcl/v2"
	"github.com/hashicorp/hcl/v2/ext/dynblock"
	"github.com/hashicorp/hcl/v2/hcldec"
	hcljson "github.com/hashicorp/hcl/v2/json"
	"github.com/zclconf/go-cty/cty"

	"hx/lib"
	"hx/props/evalgen"
)

func init() { lib.Register("C06", run) }

// extra is the property-specific part of a replay document: the marked variable and its two contents.
type extra struct {
	Var string          `json:"var"`
	A   *evalgen.EncVal `json:"a"`
	B   *evalgen.EncVal `json:"b"`
	// Stage names the observation of a body case ("whole", "item:<name>", "staged:<type>")
	Stage string `json:"stage,omitempty"`
}

var slugRe = regexp.MustCompile(`[^a-z0-9]+`)

func slug(s string) string {
	s = slugRe.ReplaceAllString(strings.ToLower(s), "-")
	s = strings.Trim(s, "-")
	if len(s) > 48 {
		s = s[:48]
	}
	return s
}

func with(s evalgen.Scope, name string, v cty.Value) evalgen.Scope {
	c := s.Clone()
	c[name] = v
	return c
}

// verdict of one two-run observation
const (
	vSkip = iota // an evaluation failed or panicked
	vSame        // results equal: the marked content did not influence the result
	vOK          // results differ and both carry the mark
	vLost        // results differ and at least one does not carry the mark
)

func judge(ra, rb cty.Value, da, db hcl.Diagnostics) int {
	if da.HasErrors() || db.HasErrors() || ra == cty.NilVal || rb == cty.NilVal {
		return vSkip
	}
	ua, _ := ra.UnmarkDeep()
	ub, _ := rb.UnmarkDeep()
	if ua.RawEquals(ub) {
		return vSame
	}
	if hasMark(ra) && hasMark(rb) {
		return vOK
	}
	return vLost
}

// twoRun evaluates e with the variable set to its two marked contents.
func twoRun(e hcl.Expression, s evalgen.Scope, name string, am, bm cty.Value) (verdict int, ra, rb cty.Value, panicText string) {
	ra, da, pa := evalgen.SafeValue(e, evalgen.Ctx(with(s, name, am)))
	rb, db, pb := evalgen.SafeValue(e, evalgen.Ctx(with(s, name, bm)))
	if pa != "" {
		return vSkip, ra, rb, pa
	}
	if pb != "" {
		return vSkip, ra, rb, pb
	}
	return judge(ra, rb, da, db), ra, rb, ""
}

func usedRoots(vars []hcl.Traversal, s evalgen.Scope) []string {
	seen := map[string]bool{}
	var out []string
	for _, t := range vars {
		n := t.RootName()
		if _, ok := s[n]; ok && !seen[n] {
			seen[n] = true
			out = append(out, n)
		}
	}
	sort.Strings(out)
	return out
}

func countVerdict(res *lib.Result, prefix string, v int) {
	res.Count(prefix + []string{"skipped-error", "same-result", "differ-marked", "differ-mark-lost"}[v])
}

// ---------------------------------------------------------------------------
// expressions

func exprCase(cx *lib.Ctx, r *lib.Rand, i int) {
	res := cx.Res
	c, ok := evalgen.NewCase(r, evalgen.Defaults())
	if !ok {
		res.Count("gen-parse-error")
		return
	}
	evalgen.CountStats(res, c.Node)
	roots := usedRoots(c.Expr.Variables(), c.Scope)
	if len(roots) == 0 {
		res.Case(c.Src, false)
		res.Count("expr:no-variables")
		return
	}
	if i < 3 {
		res.Sample(c.Src)
	}
	for attempt := 0; attempt < 3; attempt++ {
		name := roots[r.Intn(len(roots))]
		am, bm, where, ok := pair(r, c.Scope[name], r.Chance(1, 2))
		if !ok {
			res.Count("expr:no-second-content")
			continue
		}
		res.Count("expr:mark-" + where)
		checkExpr(cx, c, name, am, bm, "expr")
		if attempt == 0 && r.Chance(1, 3) {
			if nv, _, _, np := twoRun(c.Expr, c.Scope, name, am, bm); nv != vLost && np == "" {
				// (a loss that the native expression shows as well is reported there, with a precise key)
				jsonCase(cx, r, c, name, am, bm)
			}
		}
	}
}

func checkExpr(cx *lib.Ctx, c *evalgen.Case, name string, am, bm cty.Value, mode string) {
	res := cx.Res
	ex := extra{Var: name, A: evalgen.EncodeValue(am), B: evalgen.EncodeValue(bm)}
	v, ra, rb, p := twoRun(c.Expr, c.Scope, name, am, bm)
	canon := c.Src + "|" + name + "|" + lib.DumpValue(am) + "|" + lib.DumpValue(bm)
	if p != "" {
		res.Fail(lib.Failure{Kind: "oracle", Key: "panic:eval:" + slug(p), Desc: "panic while evaluating with a marked variable: " + p, Input: c.Encode("C06", mode, ex)})
		res.Case(canon, false)
		return
	}
	countVerdict(res, "expr:", v)
	res.Case(canon, v == vOK || v == vLost)
	if v != vLost {
		return
	}
	min := c.Node
	if c.Node != nil {
		min = evalgen.Minimize(c.Node, func(n *lib.Node) bool {
			e, diags := evalgen.Parse(evalgen.Source(n))
			if diags.HasErrors() {
				return false
			}
			w, _, _, _ := twoRun(e, c.Scope, name, am, bm)
			return w == vLost
		}, with(c.Scope, name, am))
	}
	mc := &evalgen.Case{Scope: c.Scope, Node: min, Src: c.Src, Expr: c.Expr}
	sig := "?"
	if min != nil {
		mc.Render()
		sig = evalgen.Sig(min, with(c.Scope, name, am))
		_, ra, rb, _ = twoRun(mc.Expr, c.Scope, name, am, bm)
		sig += markedOperand(min, with(c.Scope, name, am))
		sig = refineSig(min, sig, c.Scope, name, am, bm)
	}
	res.Fail(lib.Failure{
		Kind:  "oracle",
		Key:   "mark-lost:" + sig,
		Desc:  "changing the content of the marked variable " + name + " changes the error-free result, but a result does not carry the mark",
		Input: mc.Encode("C06", mode, ex),
		Impl:  "run A: " + lib.DumpValue(ra) + "\nrun B: " + lib.DumpValue(rb),
	})
}

// markedOperand refines the signature of a minimal failing node by saying which operand carried the mark
// (e.g. the key of an index expression).
func markedOperand(n *lib.Node, s evalgen.Scope) string {
	if n.K != "index" || len(n.Kids) != 2 {
		return ""
	}
	k, _ := evalgen.EvalNode(n.Kids[1], s)
	c, _ := evalgen.EvalNode(n.Kids[0], s)
	switch {
	case k != cty.NilVal && hasMark(k) && !(c != cty.NilVal && hasMark(c)):
		return ":marked-key"
	case c != cty.NilVal && hasMark(c):
		return ":marked-collection"
	}
	return ""
}

// refineSig names two defect classes more precisely than the node kind alone.
func refineSig(n *lib.Node, sig string, s evalgen.Scope, name string, am, bm cty.Value) string {
	switch {
	case n.K == "call" && n.Flag && len(n.Kids) > 0:
		// an expanded final argument that is a marked, empty collection contributes no argument at all
		for _, m := range []cty.Value{am, bm} {
			v, _ := evalgen.EvalNode(n.Kids[len(n.Kids)-1], with(s, name, m))
			if v != cty.NilVal && hasMark(v) {
				u, _ := v.UnmarkDeep()
				if u.IsKnown() && !u.IsNull() && u.CanIterateElements() && u.LengthInt() == 0 {
					return "call-expansion:empty-marked-collection"
				}
			}
		}
	case n.K == "cond":
		// the diagnostics (and marks) of the branch that is not selected are dropped when it fails
		for _, m := range []cty.Value{am, bm} {
			for _, br := range n.Kids[1:] {
				if _, ok := evalgen.EvalNode(br, with(s, name, m)); !ok {
					return "cond:unselected-branch-error"
				}
			}
		}
	}
	if markedNull(am) || markedNull(bm) {
		// (go-cty's object-to-object conversion rebuilds null attribute values without their marks)
		sig += ":marked-null"
	}
	return sig
}

// jsonCase runs the same two-run check on the JSON-syntax rendering of the tree.
func jsonCase(cx *lib.Ctx, r *lib.Rand, c *evalgen.Case, name string, am, bm cty.Value) {
	res := cx.Res
	src, ok := evalgen.JSONSource(r, c.Node, 70)
	if !ok {
		return
	}
	checkJSON(cx, src, c.Scope, name, am, bm)
	res.Count("json:cases")
}

func checkJSON(cx *lib.Ctx, src string, s evalgen.Scope, name string, am, bm cty.Value) {
	res := cx.Res
	e, diags := hcljson.ParseExpression([]byte(src), "case.json")
	if diags.HasErrors() {
		res.Count("json:parse-error")
		return
	}
	jc := &evalgen.Case{Scope: s, Src: src}
	ex := extra{Var: name, A: evalgen.EncodeValue(am), B: evalgen.EncodeValue(bm)}
	v, ra, rb, p := twoRun(e, s, name, am, bm)
	if p != "" {
		res.Fail(lib.Failure{Kind: "oracle", Key: "panic:json-eval:" + slug(p), Desc: "panic while evaluating a JSON-syntax expression with a marked variable: " + p, Input: jc.Encode("C06", "json", ex)})
		return
	}
	countVerdict(res, "json:", v)
	res.Case("json|"+src+"|"+name+"|"+lib.DumpValue(am)+"|"+lib.DumpValue(bm), v == vOK || v == vLost)
	if v == vLost {
		res.Fail(lib.Failure{
			Kind:  "oracle",
			Key:   "mark-lost:json-expression",
			Desc:  "JSON-syntax expression: changing the content of the marked variable " + name + " changes the result, but a result does not carry the mark",
			Input: jc.Encode("C06", "json", ex),
			Impl:  "run A: " + lib.DumpValue(ra) + "\nrun B: " + lib.DumpValue(rb),
		})
	}
}

// ---------------------------------------------------------------------------
// bodies: hcldec.Decode over dynblock.Expand

type obs struct {
	val   cty.Value
	diags hcl.Diagnostics
	pan   string
	// emptyMarkedForEach: some dynamic block of this observation had a marked, empty for_each value
	emptyMarkedForEach bool
}

func safeDecode(f func() (cty.Value, hcl.Diagnostics)) (o obs) {
	defer func() {
		if r := recover(); r != nil {
			o.pan = fmt.Sprint(r)
			o.val = cty.NilVal
		}
	}()
	o.val, o.diags = f()
	return
}

// zeroBlocks: the run whose result lacks the mark expanded a marked, empty for_each into zero blocks.
func zeroBlocks(a, b obs) bool {
	return (!hasMark(a.val) && a.emptyMarkedForEach) || (!hasMark(b.val) && b.emptyMarkedForEach)
}

// observe runs every observation of a body under one scope. The result maps observation name to value.
func observe(b *evalgen.BodyCase, s evalgen.Scope) map[string]obs {
	out := map[string]obs{}
	ctx := evalgen.Ctx(s)
	spec := evalgen.BuildSpec(b.Items)
	// emptyMarked records (through dynblock's for_each check hook) that some for_each value of the current
	// observation was a marked empty collection: it expands to zero blocks, which cannot carry a mark
	emptyMarked := false
	hook := dynblock.OptCheckForEach(func(v cty.Value, _ hcl.Expression, _ *hcl.EvalContext) hcl.Diagnostics {
		if hasMark(v) {
			u, _ := v.UnmarkDeep()
			if u.IsKnown() && !u.IsNull() && u.CanIterateElements() && u.LengthInt() == 0 {
				emptyMarked = true
			}
		}
		return nil
	})
	expand := func() hcl.Body { return dynblock.Expand(b.Body, ctx, hook) }
	record := func(name string, o obs) {
		o.emptyMarkedForEach = emptyMarked
		emptyMarked = false
		out[name] = o
	}
	record("whole", safeDecode(func() (cty.Value, hcl.Diagnostics) {
		return hcldec.Decode(expand(), spec, ctx)
	}))
	for _, it := range b.Items {
		it := it
		if it.Kind == "label" {
			continue
		}
		o := safeDecode(func() (cty.Value, hcl.Diagnostics) {
			v, _, d := hcldec.PartialDecode(expand(), evalgen.BuildItem(it), ctx)
			return v, d
		})
		record("item:"+it.Name, o)
		// staged decoding of each block body: PartialDecode with one half of the nested spec, then Decode
		// of the remaining body with the other half
		if it.IsBlock() && it.Kind != "blockattrs" {
			var first, rest []evalgen.SpecItem
			for _, n := range it.Nested {
				if n.Kind == "label" {
					continue
				}
				if len(first) == 0 {
					first = append(first, n)
				} else {
					rest = append(rest, n)
				}
			}
			if len(first) == 0 || len(rest) == 0 {
				continue
			}
			func() {
				defer func() { recover() }()
				content, _, _ := expand().PartialContent(hcldec.ImpliedSchema(evalgen.BuildItem(it)))
				emptyMarked = false
				if content == nil {
					return
				}
				for bi, blk := range content.Blocks {
					blk := blk
					var remain hcl.Body
					o1 := safeDecode(func() (cty.Value, hcl.Diagnostics) {
						v, rem, d := hcldec.PartialDecode(blk.Body, evalgen.BuildSpec(first), ctx)
						remain = rem
						return withBodyMarks(v, blk.Body), d
					})
					record(fmt.Sprintf("staged-first:%s:%d", it.Name, bi), o1)
					if remain != nil {
						o2 := safeDecode(func() (cty.Value, hcl.Diagnostics) {
							v, d := hcldec.Decode(remain, evalgen.BuildSpec(rest), ctx)
							return withBodyMarks(v, remain), d
						})
						record(fmt.Sprintf("staged-remain:%s:%d", it.Name, bi), o2)
					}
				}
			}()
		}
	}
	return out
}

// withBodyMarks does what hcldec does for the blocks it decodes itself (and what a careful application
// decoding a block body on its own has to do): apply the marks the body declares through hcldec.MarkedBody.
func withBodyMarks(v cty.Value, body hcl.Body) cty.Value {
	if m, ok := body.(hcldec.MarkedBody); ok && v != cty.NilVal {
		return v.WithMarks(m.BodyValueMarks())
	}
	return v
}

// explainedByExpression looks for an attribute expression of the body that loses the mark already when it
// is evaluated on its own (no iterator needed); such a loss is reported at the expression level, with
// its precise signature, instead of as a decoder-level finding.
func explainedByExpression(cx *lib.Ctx, b *evalgen.BodyCase, name string, am, bm cty.Value) bool {
	found := false
	var walk func(body *lib.Node)
	walk = func(body *lib.Node) {
		for _, k := range body.Kids {
			switch k.K {
			case "attrdef":
				if found || k.S == "for_each" || k.S == "labels" || k.S == "iterator" {
					continue
				}
				ok := true
				for _, v := range evalgen.FreeVars(k.Kids[0]) {
					if _, in := b.Scope[v]; !in {
						ok = false
					}
				}
				if !ok {
					continue
				}
				ec := &evalgen.Case{Scope: b.Scope, Node: k.Kids[0]}
				if !ec.Render() {
					continue
				}
				if w, _, _, _ := twoRun(ec.Expr, ec.Scope, name, am, bm); w == vLost {
					checkExpr(cx, ec, name, am, bm, "expr")
					found = true
				}
			case "block":
				walk(k.Kids[len(k.Kids)-1])
			}
		}
	}
	walk(b.Tree)
	if found {
		return true
	}
	// second chance: an expansion call f(xs...) anywhere in the body (possibly next to iterator references,
	// so that the attribute cannot be evaluated on its own) whose expanded argument is a marked, empty
	// collection in one of the runs
	var scan func(body *lib.Node)
	scan = func(body *lib.Node) {
		for _, k := range body.Kids {
			switch k.K {
			case "attrdef":
				k.Kids[0].Walk(func(x *lib.Node) {
					if found || x.K != "call" || !x.Flag || len(x.Kids) == 0 {
						return
					}
					arg := x.Kids[len(x.Kids)-1]
					for _, v := range evalgen.FreeVars(arg) {
						if _, in := b.Scope[v]; !in {
							return
						}
					}
					for _, m := range []cty.Value{am, bm} {
						v, _ := evalgen.EvalNode(arg, with(b.Scope, name, m))
						if v != cty.NilVal && hasMark(v) {
							u, _ := v.UnmarkDeep()
							if u.IsKnown() && !u.IsNull() && u.CanIterateElements() && u.LengthInt() == 0 {
								found = true
							}
						}
					}
				})
			case "block":
				scan(k.Kids[len(k.Kids)-1])
			}
		}
	}
	scan(b.Tree)
	if found {
		cx.Res.Fail(lib.Failure{
			Kind:  "oracle",
			Key:   "mark-lost:call-expansion:empty-marked-collection",
			Desc:  "decoding: an attribute holds a call f(xs...) whose expanded argument is a marked, empty collection in one run; the result of that run does not carry the mark of " + name,
			Input: b.Encode("C06", "body", extra{Var: name, A: evalgen.EncodeValue(am), B: evalgen.EncodeValue(bm)}),
		})
	}
	return found
}

func itemByName(items []evalgen.SpecItem, name string) (evalgen.SpecItem, bool) {
	for _, it := range items {
		if it.Name == name {
			return it, true
		}
	}
	return evalgen.SpecItem{}, false
}

// nullsExplain: the loss of the mark at this stage disappears when the nulls inside the two contents of the
// marked variable are replaced by non-null values of the same types — the recorded go-cty behaviour (a
// conversion drops the marks of a null) seen through whichever decoding stage it surfaces at.
func nullsExplain(b *evalgen.BodyCase, name string, am, bm cty.Value, stage string) bool {
	da, ca := denull(am)
	db, cb := denull(bm)
	if !ca && !cb {
		return false
	}
	oa, okA := observe(b, with(b.Scope, name, da))[stage]
	ob, okB := observe(b, with(b.Scope, name, db))[stage]
	if !okA || !okB || oa.pan != "" || ob.pan != "" {
		return false
	}
	return judge(oa.val, ob.val, oa.diags, ob.diags) != vLost
}

func checkBody(cx *lib.Ctx, b *evalgen.BodyCase, name string, am, bm cty.Value, only string) {
	res := cx.Res
	oa := observe(b, with(b.Scope, name, am))
	ob := observe(b, with(b.Scope, name, bm))
	names := make([]string, 0, len(oa))
	for k := range oa {
		names = append(names, k)
	}
	sort.Strings(names)
	itemLost := false
	anyNontrivial := false
	type lost struct{ stage, key, impl string }
	var losts []lost
	for _, k := range names {
		if only != "" && k != only {
			continue
		}
		a := oa[k]
		bb, ok := ob[k]
		if !ok {
			continue // e.g. a different number of blocks in the two runs
		}
		ex := extra{Var: name, A: evalgen.EncodeValue(am), B: evalgen.EncodeValue(bm), Stage: k}
		if a.pan != "" || bb.pan != "" {
			pt := a.pan
			if pt == "" {
				pt = bb.pan
			}
			res.Fail(lib.Failure{Kind: "oracle", Key: "panic:decode:" + slug(pt), Desc: "panic while decoding a body with a marked variable: " + pt, Input: b.Encode("C06", "body", ex)})
			continue
		}
		v := judge(a.val, bb.val, a.diags, bb.diags)
		kind := strings.SplitN(k, ":", 2)[0]
		countVerdict(res, "body:"+kind+":", v)
		if v == vOK || v == vLost {
			anyNontrivial = true
		}
		if v != vLost {
			continue
		}
		impl := "run A: " + lib.DumpValue(a.val) + "\nrun B: " + lib.DumpValue(bb.val)
		switch kind {
		case "item":
			it, _ := itemByName(b.Items, strings.SplitN(k, ":", 2)[1])
			itemLost = true
			if b.Tree != nil && !zeroBlocks(a, bb) && explainedByExpression(cx, b, name, am, bm) {
				continue
			}
			key := "mark-lost:hcldec:" + it.Kind
			if zeroBlocks(a, bb) {
				key = "mark-lost:dynblock-zero-blocks:" + it.Kind
			} else if markedNull(am) || markedNull(bm) || nullsExplain(b, name, am, bm, k) {
				key = "mark-lost:hcldec:marked-null"
			}
			losts = append(losts, lost{k, key, impl})
		case "staged-remain":
			if b.Tree != nil && !zeroBlocks(a, bb) && explainedByExpression(cx, b, name, am, bm) {
				continue
			}
			key := "mark-lost:dynblock-partialcontent-remain"
			if zeroBlocks(a, bb) {
				key = "mark-lost:dynblock-zero-blocks:staged-remain"
			} else if markedNull(am) || markedNull(bm) || nullsExplain(b, name, am, bm, k) {
				key = "mark-lost:hcldec:marked-null"
			}
			losts = append(losts, lost{k, key, impl})
		case "staged-first":
			if b.Tree != nil && !zeroBlocks(a, bb) && explainedByExpression(cx, b, name, am, bm) {
				continue
			}
			key := "mark-lost:staged-partial-decode"
			if zeroBlocks(a, bb) {
				key = "mark-lost:dynblock-zero-blocks:staged-first"
			} else if markedNull(am) || markedNull(bm) || nullsExplain(b, name, am, bm, k) {
				key = "mark-lost:hcldec:marked-null"
			}
			losts = append(losts, lost{k, key, impl})
		case "whole":
			if b.Tree != nil && !zeroBlocks(a, bb) && explainedByExpression(cx, b, name, am, bm) {
				itemLost = true
				continue
			}
			key := "mark-lost:hcldec:whole-body"
			if zeroBlocks(a, bb) {
				key = "mark-lost:dynblock-zero-blocks:whole-body"
			} else if markedNull(am) || markedNull(bm) || nullsExplain(b, name, am, bm, k) {
				key = "mark-lost:hcldec:marked-null"
			}
			losts = append(losts, lost{k, key, impl})
		}
	}
	for _, l := range losts {
		if l.stage == "whole" && itemLost {
			continue // already reported more precisely per item
		}
		ex := extra{Var: name, A: evalgen.EncodeValue(am), B: evalgen.EncodeValue(bm), Stage: l.stage}
		res.Fail(lib.Failure{
			Kind:  "oracle",
			Key:   l.key,
			Desc:  "decoding (" + l.stage + "): changing the content of the marked variable " + name + " changes the error-free result, but a result does not carry the mark",
			Input: b.Encode("C06", "body", ex),
			Impl:  l.impl,
		})
	}
	res.Case("body|"+b.Src+"|"+name+"|"+lib.DumpValue(am)+"|"+lib.DumpValue(bm), anyNontrivial)
}

func bodyCase(cx *lib.Ctx, r *lib.Rand, i int) {
	res := cx.Res
	b, ok := evalgen.NewBodyCase(r, evalgen.Defaults(), 55, 0)
	if !ok {
		res.Count("gen-body-parse-error")
		return
	}
	evalgen.BodyStats(res, b.Tree, 0)
	var roots []string
	for _, n := range evalgen.BodyFreeRoots(b.Tree, false) {
		if _, ok := b.Scope[n]; ok {
			roots = append(roots, n)
		}
	}
	if len(roots) == 0 {
		res.Count("body:no-variables")
		return
	}
	if i < 2 {
		res.Sample(b.Src)
	}
	// favour the variables that feed for_each expressions
	expandRoots := evalgen.BodyFreeRoots(b.Tree, true)
	for attempt := 0; attempt < 2; attempt++ {
		name := roots[r.Intn(len(roots))]
		if len(expandRoots) > 0 && r.Chance(1, 2) {
			if n := expandRoots[r.Intn(len(expandRoots))]; b.Scope[n] != cty.NilVal {
				name = n
			}
		}
		am, bm, where, ok := pair(r, b.Scope[name], r.Chance(1, 2))
		if !ok {
			continue
		}
		res.Count("body:mark-" + where)
		checkBody(cx, b, name, am, bm, "")
	}
}

// ---------------------------------------------------------------------------

// handCorpus are expressions kept because they exercise one construct each with the marked variable in a
// specific position (the generated stream finds the same classes; these make every run cover them).
var handCorpus = []struct {
	node *lib.Node
	name string
	a, b cty.Value
}{
	{evalgen.Cond(evalgen.V("sec"), evalgen.Num("1"), evalgen.Num("2")), "sec", cty.True, cty.False},
	{evalgen.Index(evalgen.V("obj"), evalgen.V("sec")), "sec", cty.StringVal("a"), cty.StringVal("b")},
	{evalgen.Index(evalgen.V("tup"), evalgen.V("sec")), "sec", cty.NumberIntVal(0), cty.NumberIntVal(1)},
	{evalgen.Index(evalgen.V("m"), evalgen.V("sec")), "sec", cty.StringVal("a"), cty.StringVal("b")},
	{evalgen.Index(evalgen.V("lst"), evalgen.V("sec")), "sec", cty.NumberIntVal(0), cty.NumberIntVal(1)},
	{&lib.Node{K: "fortuple", S: "x", Kids: []*lib.Node{evalgen.V("lst"), evalgen.V("x"), evalgen.Bin("!=", evalgen.V("x"), evalgen.V("sec"))}}, "sec", cty.StringVal("p"), cty.StringVal("q")},
	{&lib.Node{K: "forobj", S: "x", Kids: []*lib.Node{evalgen.V("lst"), evalgen.V("x"), evalgen.V("sec")}}, "sec", cty.StringVal("p"), cty.StringVal("q")},
	{&lib.Node{K: "forobj", S: "x", Kids: []*lib.Node{evalgen.V("lst"), tmpl(interp(evalgen.V("x")), interp(evalgen.V("sec"))), evalgen.Num("1")}}, "sec", cty.StringVal("p"), cty.StringVal("q")},
	{&lib.Node{K: "forobj", S: "x", Flag: true, Kids: []*lib.Node{evalgen.V("lst"), evalgen.V("sec"), evalgen.V("x")}}, "sec", cty.StringVal("p"), cty.StringVal("q")},
	{tmpl(tlit("a"), interp(evalgen.V("sec")), tlit("b")), "sec", cty.StringVal("p"), cty.StringVal("q")},
	{tmpl(&lib.Node{K: "tif", Kids: []*lib.Node{evalgen.V("sec"), tmpl(tlit("yes")), tmpl(tlit("no"))}}), "sec", cty.True, cty.False},
	{tmpl(&lib.Node{K: "tfor", S: "x", Kids: []*lib.Node{evalgen.V("sec"), tmpl(interp(evalgen.V("x")))}}), "sec", cty.ListVal([]cty.Value{cty.StringVal("p")}), cty.ListVal([]cty.Value{cty.StringVal("q")})},
	{evalgen.Call("upper", evalgen.V("sec")), "sec", cty.StringVal("p"), cty.StringVal("q")},
	{evalgen.Call("length", evalgen.V("sec")), "sec", cty.ListVal([]cty.Value{cty.StringVal("p")}), cty.ListValEmpty(cty.String)},
	{&lib.Node{K: "call", S: "sum", Flag: true, Kids: []*lib.Node{evalgen.V("sec")}}, "sec", cty.ListVal([]cty.Value{cty.NumberIntVal(1)}), cty.ListVal([]cty.Value{cty.NumberIntVal(2)})},
	{&lib.Node{K: "fsplat", Kids: []*lib.Node{evalgen.V("sec")}}, "sec", cty.ListVal([]cty.Value{cty.StringVal("p")}), cty.ListValEmpty(cty.String)},
	{evalgen.Attr(&lib.Node{K: "asplat", Kids: []*lib.Node{evalgen.V("sec")}}, "a"), "sec", cty.NullVal(cty.Object(map[string]cty.Type{"a": cty.Number})), cty.ObjectVal(map[string]cty.Value{"a": cty.NumberIntVal(1)})},
	{&lib.Node{K: "unop", S: "-", Kids: []*lib.Node{evalgen.V("sec")}}, "sec", cty.NumberIntVal(1), cty.NumberIntVal(2)},
	{&lib.Node{K: "unop", S: "!", Kids: []*lib.Node{evalgen.V("sec")}}, "sec", cty.True, cty.False},
	{evalgen.Bin("==", evalgen.V("sec"), evalgen.Num("1")), "sec", cty.NumberIntVal(1), cty.NumberIntVal(2)},
	{evalgen.Bin("||", &lib.Node{K: "bool", S: "false"}, evalgen.V("sec")), "sec", cty.True, cty.False},
	{evalgen.Bin("&&", evalgen.V("sec"), &lib.Node{K: "bool", S: "true"}), "sec", cty.True, cty.False},
	{&lib.Node{K: "object", Kids: []*lib.Node{evalgen.V("sec"), evalgen.Num("1")}}, "sec", cty.StringVal("p"), cty.StringVal("q")},
	{evalgen.Index(evalgen.Tuple(evalgen.V("sec")), evalgen.Num("0")), "sec", cty.StringVal("p"), cty.StringVal("q")},
	{evalgen.Call("coalesce", evalgen.V("sec"), evalgen.Str("z")), "sec", cty.NullVal(cty.String), cty.StringVal("q")},
	{evalgen.Attr(evalgen.V("sec"), "a"), "sec", cty.ObjectVal(map[string]cty.Value{"a": cty.NumberIntVal(1)}), cty.ObjectVal(map[string]cty.Value{"a": cty.NumberIntVal(2)})},
	{&lib.Node{K: "legacy", S: "0", Kids: []*lib.Node{evalgen.V("sec")}}, "sec", cty.ListVal([]cty.Value{cty.StringVal("p")}), cty.ListVal([]cty.Value{cty.StringVal("q")})},
}

func tmpl(parts ...*lib.Node) *lib.Node { return &lib.Node{K: "tmpl", Kids: parts} }
func tlit(s string) *lib.Node           { return &lib.Node{K: "tlit", S: s} }
func interp(e *lib.Node) *lib.Node      { return &lib.Node{K: "interp", Kids: []*lib.Node{e}} }

func corpusScope() evalgen.Scope {
	return evalgen.Scope{
		"obj": cty.ObjectVal(map[string]cty.Value{"a": cty.NumberIntVal(1), "b": cty.NumberIntVal(2)}),
		"tup": cty.TupleVal([]cty.Value{cty.StringVal("x"), cty.NumberIntVal(2)}),
		"m":   cty.MapVal(map[string]cty.Value{"a": cty.NumberIntVal(1), "b": cty.NumberIntVal(2)}),
		"lst": cty.ListVal([]cty.Value{cty.StringVal("p"), cty.StringVal("r")}),
	}
}

func run(cx *lib.Ctx) {
	res := cx.Res
	debug.SetGCPercent(800)
	if cx.Replay != "" {
		replay(cx, lib.ReplayInput(cx.Replay))
		return
	}
	res.Rule = "two-run check: type-directed random expressions (evalgen) / their JSON-syntax renderings / random bodies with static and dynamic blocks under random hcldec specs (whole Decode over dynblock.Expand, per-item PartialDecode, staged PartialDecode+Decode of block bodies); one referenced variable is marked at top level or at one nested position and given two contents of the same type; non-trivial = both runs error-free with different unmarked results; distinct by source + variable + the two contents"
	for _, h := range handCorpus {
		c := &evalgen.Case{Scope: corpusScope(), Node: h.node}
		if !c.Render() {
			res.Count("corpus-parse-error")
			continue
		}
		c.Scope[h.name] = h.a
		checkExpr(cx, c, h.name, h.a.Mark(Mark), h.b.Mark(Mark), "expr")
		res.Count("corpus")
	}
	R := cx.R.Fork() // see c05: decorrelates adjacent seeds
	n := cx.Scale(4000, 90000)
	for i := 0; i < n; i++ {
		exprCase(cx, R.Fork(), i)
	}
	nb := cx.Scale(1200, 25000)
	for i := 0; i < nb; i++ {
		bodyCase(cx, R.Fork(), i)
	}
	directedBlockSpecs(cx)
	directedUnify(cx)
	directedExprs(cx)
	directedTwoMarks(cx)
	directedGeneratedAttrs(cx)
	directedWrappedSpecs(cx)
	share := func(prefix string) {
		d := res.Distribution
		t := d[prefix+"same-result"] + d[prefix+"differ-marked"] + d[prefix+"differ-mark-lost"] + d[prefix+"skipped-error"]
		if t > 0 {
			res.Notes = append(res.Notes, fmt.Sprintf("%s %d two-run observations: %.1f%% error in a run, %.1f%% same result, %.1f%% different result",
				prefix, t, 100*float64(d[prefix+"skipped-error"])/float64(t), 100*float64(d[prefix+"same-result"])/float64(t),
				100*float64(d[prefix+"differ-marked"]+d[prefix+"differ-mark-lost"])/float64(t)))
		}
	}
	share("expr:")
	share("json:")
	share("body:item:")
	share("body:whole:")
	share("body:staged-remain:")
}

func replay(cx *lib.Ctx, doc string) {
	var head struct {
		Mode string `json:"mode"`
	}
	fail := func(err error) {
		cx.Res.Fail(lib.Failure{Kind: "oracle", Key: "replay-input", Desc: err.Error(), Input: doc})
	}
	if err := json.Unmarshal([]byte(doc), &head); err != nil {
		fail(err)
		return
	}
	var ex extra
	decodeExtra := func(raw json.RawMessage) (cty.Value, cty.Value, bool) {
		if err := json.Unmarshal(raw, &ex); err != nil {
			fail(err)
			return cty.NilVal, cty.NilVal, false
		}
		a, err1 := evalgen.DecodeValue(ex.A)
		b, err2 := evalgen.DecodeValue(ex.B)
		if err1 != nil || err2 != nil {
			fail(fmt.Errorf("%v %v", err1, err2))
			return cty.NilVal, cty.NilVal, false
		}
		return a, b, true
	}
	switch head.Mode {
	case "body":
		b, bj, err := evalgen.DecodeBodyCase(doc)
		if err != nil {
			fail(err)
			return
		}
		am, bm, ok := decodeExtra(bj.Extra)
		if !ok {
			return
		}
		cx.Res.Sample(b.Src)
		checkBody(cx, b, ex.Var, am, bm, ex.Stage)
	case "json":
		var cj evalgen.CaseJSON
		if err := json.Unmarshal([]byte(doc), &cj); err != nil {
			fail(err)
			return
		}
		s, err := evalgen.DecodeScope(cj.Scope)
		if err != nil {
			fail(err)
			return
		}
		am, bm, ok := decodeExtra(cj.Extra)
		if !ok {
			return
		}
		cx.Res.Sample(cj.Src)
		checkJSON(cx, cj.Src, s, ex.Var, am, bm)
	default:
		c, cj, err := evalgen.DecodeCase(doc)
		if err != nil {
			fail(err)
			return
		}
		am, bm, ok := decodeExtra(cj.Extra)
		if !ok {
			return
		}
		cx.Res.Sample(c.Src)
		checkExpr(cx, c, ex.Var, am, bm, "expr")
	}
}
