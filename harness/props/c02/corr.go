package c02

import (
	"fmt"
	"sort"
	"strings"

	"github.com/hashicorp/hcl/v2"
	"github.com/hashicorp/hcl/v2/hclsyntax"

	"hx/lib"
)

// corrParseBody ties the Lean model of the structural grammar (HclModel/Syntax/Structure: peek, parseBody,
// parseItem, parseBlock, parseConfig) to hclsyntax.ParseConfig: the same sequence of body-level tokens
// (identifiers, "=", quoted labels, braces, newlines, comments of both kinds, one-token expressions, a stray
// token) goes to both; acceptance and, when accepted, the tree of items in source order are compared.
// Sequences come from rendered random trees (valid) and from token-level mutations of those (mostly invalid).
func corrParseBody(cx *lib.Ctx) {
	if !cx.HasModel() {
		return
	}
	n := cx.Scale(2500, 60000)
	for i := 0; i < n; i++ {
		r := cx.R.Fork()
		toks := pbItems(r, 0)
		for k := r.Intn(3); k > 0; k-- {
			toks = append(toks, pbNoise(r)...)
		}
		mut := "none"
		if r.Chance(1, 2) && len(toks) > 0 {
			mut = r.Pick([]string{"delete", "insert", "swap", "dup"})
			k := r.Intn(len(toks))
			switch mut {
			case "delete":
				toks = append(append([]string{}, toks[:k]...), toks[k+1:]...)
			case "insert":
				t := r.Pick([]string{"=", "{", "}", "nl", "o", "lc", "ic", "i.a", "i.blk", "q.l", "e.7"})
				toks = append(append(append([]string{}, toks[:k]...), t), toks[k:]...)
			case "swap":
				j := r.Intn(len(toks))
				toks[k], toks[j] = toks[j], toks[k]
			case "dup":
				toks = append(append(append([]string{}, toks[:k+1]...), toks[k]), toks[k+1:]...)
			}
		}
		if len(toks) == 0 {
			continue
		}
		if pbExprStart(toks) {
			// an identifier, string or brace right after "=" starts a longer expression in the real grammar;
			// expression extents are not the structural grammar's business (the model has one-token expressions)
			cx.Res.Count("corr-parseb:skipped:expression-start")
			continue
		}
		src := pbRender(toks)
		impl := pbImpl(src)
		line := "PARSEB " + strings.Join(toks, " ")
		model := strings.TrimRight(cx.Ask(line), " ")
		cx.Res.CorrChecked++
		cx.Res.Count("corr-parseb:mutation:" + mut)
		if strings.HasPrefix(impl, "acc") {
			cx.Res.Count("corr-parseb:accepted")
		} else {
			cx.Res.Count("corr-parseb:rejected")
		}
		if model != impl {
			cx.Res.Fail(lib.Failure{Kind: "corr", Key: "PARSEB", Desc: "structural parse differs from the model; source:\n" + src, Input: line, Model: model, Impl: impl})
		}
	}
}

func pbNoise(r *lib.Rand) []string {
	switch r.Intn(8) {
	case 0:
		return []string{"nl"}
	case 1:
		return []string{"lc"}
	case 2:
		return []string{"ic"}
	}
	return nil
}

func pbEol(r *lib.Rand) string {
	if r.Chance(1, 4) {
		return "lc"
	}
	return "nl"
}

func pbSp(r *lib.Rand) []string {
	if r.Chance(1, 10) {
		return []string{"ic"}
	}
	return nil
}

// pbItems renders a random body (valid by construction, attribute names possibly repeated on purpose rarely).
func pbItems(r *lib.Rand, depth int) []string {
	var out []string
	names := []string{"a", "b", "c", "d", "e", "f"}
	r2 := r.Fork()
	// mostly distinct names
	perm := append([]string{}, names...)
	for i := len(perm) - 1; i > 0; i-- {
		j := r2.Intn(i + 1)
		perm[i], perm[j] = perm[j], perm[i]
	}
	used := 0
	for k := r.Intn(5 - depth); k > 0; k-- {
		out = append(out, pbNoise(r)...)
		if r.Chance(1, 2) && used < len(perm) {
			nm := perm[used]
			used++
			if r.Chance(1, 25) && used > 1 {
				nm = perm[0]
			}
			out = append(out, "i."+nm)
			out = append(out, pbSp(r)...)
			out = append(out, "=")
			out = append(out, pbSp(r)...)
			out = append(out, fmt.Sprintf("e.%d", r.Intn(50)))
			out = append(out, pbSp(r)...)
			out = append(out, pbEol(r))
			continue
		}
		out = append(out, "i."+r.Pick([]string{"blk", "svc", "x"}))
		for j := r.Intn(3); j > 0; j-- {
			if r.Chance(1, 2) {
				out = append(out, "q."+r.Pick([]string{"l", "m", "web"}))
			} else {
				out = append(out, "i."+r.Pick([]string{"l", "m", "web"}))
			}
		}
		out = append(out, "{")
		switch {
		case r.Chance(1, 5):
			out = append(out, "}")
		case r.Chance(1, 4):
			out = append(out, "i."+r.Pick(names), "=", fmt.Sprintf("e.%d", r.Intn(50)), "}")
		default:
			out = append(out, pbEol(r))
			if depth < 2 {
				out = append(out, pbItems(r, depth+1)...)
			}
			out = append(out, pbNoise(r)...)
			out = append(out, "}")
		}
		out = append(out, pbEol(r))
	}
	return out
}

func pbExprStart(toks []string) bool {
	for i, t := range toks {
		if t != "=" {
			continue
		}
		for j := i + 1; j < len(toks); j++ {
			if toks[j] == "ic" {
				continue
			}
			if strings.HasPrefix(toks[j], "i.") || strings.HasPrefix(toks[j], "q.") || toks[j] == "{" {
				return true
			}
			break
		}
	}
	return false
}

func pbRender(toks []string) string {
	var sb strings.Builder
	for _, t := range toks {
		switch {
		case t == "nl":
			sb.WriteString("\n")
		case t == "lc":
			sb.WriteString("# c\n")
		case t == "ic":
			sb.WriteString("/* c */ ")
		case t == "o":
			sb.WriteString(", ")
		case strings.HasPrefix(t, "i."), strings.HasPrefix(t, "e."):
			sb.WriteString(t[2:] + " ")
		case strings.HasPrefix(t, "q."):
			sb.WriteString(`"` + t[2:] + `" `)
		default:
			sb.WriteString(t + " ")
		}
	}
	return sb.String()
}

func pbImpl(src string) string {
	f, diags := hclsyntax.ParseConfig([]byte(src), "", hcl.InitialPos)
	if diags.HasErrors() {
		return "rej"
	}
	return strings.TrimRight("acc "+pbShow(f.Body.(*hclsyntax.Body)), " ")
}

func pbShow(b *hclsyntax.Body) string {
	type it struct {
		at int
		s  string
	}
	var items []it
	for name, a := range b.Attributes {
		v, _ := a.Expr.Value(nil)
		iv, _ := v.AsBigFloat().Int64()
		items = append(items, it{a.SrcRange.Start.Byte, fmt.Sprintf("a:%s:%d", name, iv)})
	}
	for _, blk := range b.Blocks {
		items = append(items, it{blk.TypeRange.Start.Byte, "b:" + blk.Type + ":[" + strings.Join(blk.Labels, ",") + "]{" + pbShow(blk.Body) + "}"})
	}
	sort.Slice(items, func(i, j int) bool { return items[i].at < items[j].at })
	out := make([]string, len(items))
	for i, x := range items {
		out[i] = x.s
	}
	return strings.Join(out, " ")
}
