package c02

import (
	"fmt"
	"strings"

	"hx/lib"
)

// lay renders a tree to configuration text. Every choice (spacing, comments, line ends, label
// spelling, one-line vs multi-line form) is a layout choice that must not change what is parsed.
type lay struct {
	r        *lib.Rand // nil: canonical
	crlf     bool
	comments int // 0 none, 1 some, 2 many
	tabs     bool
	bom      bool
	noFinal  bool // no newline after the last item
	tight    bool // prefer zero-width gaps
	blank    int  // chance in 16 of blank lines after an item
	oneLine  int  // chance in 4 that an eligible block is written in one-line form
	bare     int  // chance in 4 that an identifier-like label is written bare
	escapes  int  // chance in 8 that a label character is spelled as an escape although it need not be
	indent   int  // 0 none, 1 by depth (2 spaces), 2 by depth (tab), 3 random
	exprNL   bool // expression values may span lines (inside brackets)
	feats    map[string]bool
}

func (l *lay) feat(s string) {
	if l.feats != nil {
		l.feats[s] = true
	}
}

func randomLay(r *lib.Rand) *lay {
	return &lay{r: r, crlf: r.Chance(1, 4), comments: r.Intn(3), tabs: r.Chance(1, 3), bom: r.Chance(1, 8), noFinal: r.Chance(1, 4),
		tight: r.Chance(1, 4), blank: r.Intn(6), oneLine: r.Intn(5), bare: r.Intn(5), escapes: r.Intn(4), indent: r.Intn(4), exprNL: r.Chance(2, 3),
		feats: map[string]bool{}}
}

func (l *lay) nl() string {
	if l.crlf {
		return "\r\n"
	}
	return "\n"
}

var blockComments = []string{" c ", "", "*", "**", " a = 1 ", " } ", " { ", " \" ", " # ", " // ", "/*", " /* ", " é日本 ", " * / ", " ${ ", "\n", " x\n y ", "\n\n", " <<EOT\n", "/", " \\ "}
var lineComments = []string{" c", "", " }", " {", " \"", " /* ", " */", " a = 1", " é日本", "#", "/", "//", " ${", " <<EOT", " \\", " b {", "\t", " = "}

func (l *lay) blockComment() string {
	c := l.r.Pick(blockComments)
	if l.crlf {
		c = strings.ReplaceAll(c, "\n", "\r\n")
	}
	if strings.Contains(c, "\n") {
		l.feat("multiline-inline-comment")
	}
	l.feat("inline-comment")
	return "/*" + c + "*/"
}

func (l *lay) lineComment() string {
	l.feat("line-comment")
	c := l.r.Pick(lineComments)
	if l.r.Chance(1, 2) {
		return "#" + c
	}
	return "//" + c
}

func (l *lay) spaces() string {
	switch l.r.Intn(6) {
	case 0, 1, 2:
		return " "
	case 3:
		return "  "
	case 4:
		if l.tabs {
			return "\t"
		}
		return "   "
	default:
		if l.tabs {
			return " \t "
		}
		return " "
	}
}

// gap is the text between two tokens on one line. need: at least one separating character
// (whitespace or an inline comment) is required between the two tokens.
func (l *lay) gap(need bool) string { return l.gapPad(need, false) }

// gapPad: with pad the gap starts and ends with a space (used inside expressions, where an adjacent
// operator character could otherwise combine with a comment opener).
func (l *lay) gapPad(need bool, pad bool) string {
	if l.r == nil {
		return " "
	}
	if pad {
		g := l.gapPad(false, false)
		if g == "" {
			return " "
		}
		return " " + g + " "
	}
	var sb strings.Builder
	zero := 2
	if l.tight {
		zero = 7
	}
	if l.r.Intn(10) >= zero {
		sb.WriteString(l.spaces())
	}
	if l.comments > 0 && l.r.Chance(l.comments, 12) {
		sb.WriteString(l.blockComment())
		if l.r.Chance(1, 2) {
			sb.WriteString(l.spaces())
		}
		if l.r.Chance(1, 6) {
			sb.WriteString(l.blockComment())
		}
	}
	if sb.Len() == 0 {
		if need {
			return " "
		}
		l.feat("zero-gap")
	}
	return sb.String()
}

// eol ends a line: optional trailing gap and line comment, the newline, then blank and comment-only lines.
// last: this is the final line end of the file (may be omitted under noFinal).
func (l *lay) eol(sb *strings.Builder, last bool, afterHeredoc bool) {
	if l.r == nil {
		sb.WriteString("\n")
		return
	}
	if !afterHeredoc {
		if l.r.Chance(1, 4) {
			sb.WriteString(l.gap(false))
		}
		if l.comments > 0 && l.r.Chance(l.comments, 8) {
			sb.WriteString(l.lineComment())
			l.feat("comment-at-line-end")
		}
	}
	if last && l.noFinal && !afterHeredoc {
		l.feat("no-final-newline")
		return
	}
	sb.WriteString(l.nl())
	l.filler(sb, last)
}

// filler writes blank lines and comment-only lines.
func (l *lay) filler(sb *strings.Builder, last bool) {
	for l.r.Chance(l.blank, 16) {
		l.feat("blank-line")
		if l.r.Chance(1, 3) {
			sb.WriteString(l.spaces())
		}
		sb.WriteString(l.nl())
	}
	for l.comments > 0 && l.r.Chance(l.comments, 10) {
		l.feat("comment-line")
		if l.r.Chance(1, 2) {
			sb.WriteString(l.spaces())
		}
		if l.r.Chance(1, 3) {
			sb.WriteString(l.blockComment())
			if l.r.Chance(1, 2) {
				sb.WriteString(l.spaces())
			}
			if l.r.Chance(1, 3) {
				sb.WriteString(l.lineComment())
			}
		} else {
			sb.WriteString(l.lineComment())
		}
		if last && l.noFinal && l.r.Chance(1, 2) {
			l.feat("no-final-newline")
			return
		}
		sb.WriteString(l.nl())
	}
}

func (l *lay) indentText(depth int) string {
	if l.r == nil {
		return strings.Repeat("  ", depth)
	}
	switch l.indent {
	case 0:
		return ""
	case 1:
		return strings.Repeat("  ", depth)
	case 2:
		return strings.Repeat("\t", depth)
	}
	s := strings.Repeat(" ", l.r.Intn(6))
	if l.tabs && l.r.Chance(1, 3) {
		s += "\t"
	}
	if l.comments == 2 && l.r.Chance(1, 10) {
		s += l.blockComment() + " "
		l.feat("comment-before-item")
	}
	return s
}

// quoteLabel spells a label as a quoted string literal; several spellings denote the same string.
func (l *lay) quoteLabel(s string) string {
	var sb strings.Builder
	sb.WriteByte('"')
	rs := []rune(s)
	literalNext := false
	escapeNext := false
	for i, r := range rs {
		alt := l.r != nil && l.r.Chance(l.escapes, 8)
		if literalNext {
			// the brace of a doubled introducer ($${ / %%{) must be written literally
			literalNext = false
			sb.WriteRune(r)
			continue
		}
		if escapeNext {
			escapeNext = false
			fmt.Fprintf(&sb, `\u%04x`, r)
			continue
		}
		switch {
		case r == '"':
			sb.WriteString(`\"`)
		case r == '\\':
			sb.WriteString(`\\`)
		case r == '\n':
			sb.WriteString(`\n`)
		case r == '\r':
			sb.WriteString(`\r`)
		case r == '\t':
			if alt {
				sb.WriteString("\t")
			} else {
				sb.WriteString(`\t`)
			}
		case (r == '$' || r == '%') && i+1 < len(rs) && rs[i+1] == '{':
			switch {
			case alt && l.r.Chance(1, 2):
				// the introducer character spelled as a unicode escape is not an introducer
				fmt.Fprintf(&sb, `\u%04x`, r)
				l.feat("label-introducer-as-unicode-escape")
			case alt:
				// ... nor is it one when the brace is spelled as an escape
				sb.WriteRune(r)
				escapeNext = true
				l.feat("label-introducer-brace-as-unicode-escape")
			default:
				sb.WriteRune(r)
				sb.WriteRune(r)
				literalNext = true
				l.feat("label-escaped-introducer")
			}
		case r < 32:
			fmt.Fprintf(&sb, `\u%04x`, r)
		case alt && r != '$' && r != '%':
			l.feat("label-unicode-escape")
			if r > 0xffff || l.r.Chance(1, 4) {
				fmt.Fprintf(&sb, `\U%08x`, r)
			} else if l.r.Chance(1, 2) {
				fmt.Fprintf(&sb, `\u%04x`, r)
			} else {
				fmt.Fprintf(&sb, `\u%04X`, r)
			}
		default:
			sb.WriteRune(r)
		}
	}
	sb.WriteByte('"')
	return sb.String()
}

// exprText lays out the tokens of an attribute value: at least one space (or inline comment) between
// tokens; line breaks only where they are certainly insignificant: after a comma whose innermost open
// bracket is ( or [ (tuples, call arguments, for-expression variables) and at the item separators of
// object constructors.
func (l *lay) exprText(a *attr) string {
	if l.r == nil || a.Heredoc {
		return a.Canon
	}
	var sb strings.Builder
	var stack []string
	for i, t := range a.toks {
		if t.NL {
			if l.comments > 0 && l.r.Chance(l.comments, 10) {
				sb.WriteString(l.gap(false))
				sb.WriteString(l.lineComment())
			}
			sb.WriteString(l.nl())
			if l.r.Chance(l.blank, 24) {
				sb.WriteString(l.nl())
			}
			l.feat("multi-line-value")
			continue
		}
		if i > 0 && !a.toks[i-1].NL {
			sb.WriteString(l.gapPad(true, true))
			if l.exprNL && a.toks[i-1].Text == "," && len(stack) > 0 && stack[len(stack)-1] != "{" && l.r.Chance(1, 3) {
				if l.comments > 0 && l.r.Chance(l.comments, 10) {
					sb.WriteString(l.lineComment())
				}
				sb.WriteString(l.nl())
				sb.WriteString(strings.Repeat(" ", l.r.Intn(5)))
				l.feat("multi-line-value")
			}
		} else if i > 0 {
			sb.WriteString(strings.Repeat(" ", l.r.Intn(5)))
		}
		sb.WriteString(t.Text)
		switch t.Text {
		case "(", "[", "{":
			stack = append(stack, t.Text)
		case ")", "]", "}":
			if len(stack) > 0 {
				stack = stack[:len(stack)-1]
			}
		}
	}
	return sb.String()
}

func oneLineEligible(b *body) bool {
	if len(b.Items) == 0 {
		return true
	}
	return len(b.Items) == 1 && b.Items[0].A != nil && !b.Items[0].A.Heredoc
}

// render gives the configuration text of a tree under this layout.
func (l *lay) render(root *body) string {
	var sb strings.Builder
	if l.r != nil {
		if l.bom {
			sb.WriteString("\xef\xbb\xbf")
			l.feat("bom")
		}
		if l.r.Chance(1, 3) {
			l.filler(&sb, false)
		}
	}
	l.body(&sb, root, 0, true)
	return sb.String()
}

// body writes the items of a body; top: the body is the file body (its last line end is the file's last).
func (l *lay) body(sb *strings.Builder, b *body, depth int, top bool) {
	for i, it := range b.Items {
		last := top && i == len(b.Items)-1
		sb.WriteString(l.indentText(depth))
		if it.A != nil {
			l.attr(sb, it.A)
			l.eol(sb, last, it.A.Heredoc)
			continue
		}
		blk := it.B
		sb.WriteString(blk.Type)
		prevWord := true // previous token ends in an identifier character
		for _, lab := range blk.Labels {
			if canBeBare(lab) && l.r != nil && l.r.Chance(l.bare, 4) {
				sb.WriteString(l.gap(prevWord))
				sb.WriteString(lab)
				prevWord = true
				l.feat("bare-label")
			} else {
				sb.WriteString(l.gap(false))
				sb.WriteString(l.quoteLabel(lab))
				prevWord = false
				l.feat("quoted-label")
			}
		}
		sb.WriteString(l.gap(false))
		sb.WriteString("{")
		useOneLine := oneLineEligible(blk.Body) && (l.r == nil && len(blk.Body.Items) == 0 || l.r != nil && l.r.Chance(l.oneLine, 4))
		if useOneLine {
			if len(blk.Body.Items) == 1 {
				l.feat("one-line-block")
				sb.WriteString(l.gap(false))
				l.attr(sb, blk.Body.Items[0].A)
				sb.WriteString(l.gap(false))
			} else {
				l.feat("empty-one-line-block")
				if l.r != nil && l.r.Chance(1, 2) {
					sb.WriteString(l.gap(false))
				}
			}
			sb.WriteString("}")
			l.eol(sb, last, false)
			continue
		}
		l.feat("multi-line-block")
		l.eol(sb, false, false)
		l.body(sb, blk.Body, depth+1, false)
		sb.WriteString(l.indentText(depth))
		sb.WriteString("}")
		l.eol(sb, last, false)
	}
}

func (l *lay) attr(sb *strings.Builder, a *attr) {
	sb.WriteString(a.Name)
	sb.WriteString(l.gap(false))
	sb.WriteString("=")
	sb.WriteString(l.gap(false))
	sb.WriteString(l.exprText(a))
}
