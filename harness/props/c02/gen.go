package c02

import (
	"fmt"
	"sort"
	"strings"

	"github.com/hashicorp/hcl/v2"
	"github.com/hashicorp/hcl/v2/hclsyntax"

	"hx/lib"
)

// ---------------------------------------------------------------------------
// Abstract body trees. One tree = what was "written"; everything else (bare vs quoted labels,
// escape spelling, one-line vs multi-line blocks, spacing, comments, line endings) is layout.

type attr struct {
	Name    string
	toks    []lib.Tk // expression tokens (fixed per tree; only the spacing between them varies)
	Canon   string   // expression rendered canonically
	Dump    string   // lib.DumpExpr of the canonical text parsed alone
	Heredoc bool     // value is a heredoc: needs its own line end, never in one-line form
}

type block struct {
	Type   string
	Labels []string
	Body   *body
}

type item struct {
	A *attr
	B *block
}

type body struct {
	Items []item
}

func (b *body) attrs() []*attr {
	var out []*attr
	for _, it := range b.Items {
		if it.A != nil {
			out = append(out, it.A)
		}
	}
	return out
}

func (b *body) blocks() []*block {
	var out []*block
	for _, it := range b.Items {
		if it.B != nil {
			out = append(out, it.B)
		}
	}
	return out
}

func hexs(s string) string {
	if s == "" {
		return "-"
	}
	return fmt.Sprintf("%x", []byte(s))
}

// dump gives the expected lib.DumpBody text of a tree.
func (b *body) dump() string {
	var sb strings.Builder
	b.dumpTo(&sb)
	return sb.String()
}

func (b *body) dumpTo(sb *strings.Builder) {
	sb.WriteString("(body")
	as := b.attrs()
	sort.Slice(as, func(i, j int) bool { return as[i].Name < as[j].Name })
	for _, a := range as {
		fmt.Fprintf(sb, " (attr %s %s)", hexs(a.Name), a.Dump)
	}
	for _, blk := range b.blocks() {
		fmt.Fprintf(sb, " (block %s (", hexs(blk.Type))
		for i, l := range blk.Labels {
			if i > 0 {
				sb.WriteString(" ")
			}
			sb.WriteString(hexs(l))
		}
		sb.WriteString(") ")
		blk.Body.dumpTo(sb)
		sb.WriteString(")")
	}
	sb.WriteString(")")
}

func (b *body) stats() (attrs, blocks, depth, maxLabels int) {
	for _, it := range b.Items {
		if it.A != nil {
			attrs++
			continue
		}
		blocks++
		if len(it.B.Labels) > maxLabels {
			maxLabels = len(it.B.Labels)
		}
		a, bl, d, ml := it.B.Body.stats()
		attrs += a
		blocks += bl
		if d+1 > depth {
			depth = d + 1
		}
		if ml > maxLabels {
			maxLabels = ml
		}
	}
	return
}

// ---------------------------------------------------------------------------
// Alphabets

// identifiers usable as attribute names, block types and bare labels (keywords included on purpose)
var identNames = []string{"a", "b", "c", "name", "count", "x-y", "for", "if", "in", "true", "false", "null", "enabled", "k1", "k2", "list",
	"cfg", "A", "a_", "a-", "_x", "dynamic", "content", "each", "é", "名前", "ñ1", "é"}
var typeNames = []string{"block", "resource", "service", "b", "dynamic", "content", "x-y", "for", "if", "null", "true", "locals", "a", "é", "T1"}

// label alphabet pieces: combined 1..3 at a time
var labelPieces = []string{"", "a", "b", "web", "x-y", "with space", "q\"uote", "\"", "100%", "%", "%%", "a$b", "$", "$$", "é", "日本", "𝄞",
	"back\\slash", "\\", "\\\\", "\\n", "${", "%{", "$${", "%%{", "${x}", "%{if a}", "n\nl", "\r\n", "\t", "\r", "for", "{", "}", "#", "//", "/*", "*/",
	"=", "\u0001", "\u007f", " ", " ", "é", "<<EOT", "'", "`", "1", "-", "_", "\U0010ffff", "true", "a.b", "[0]"}

func isASCIIIdent(s string) bool {
	if s == "" {
		return false
	}
	for i, c := range s {
		switch {
		case c >= 'a' && c <= 'z', c >= 'A' && c <= 'Z', c == '_':
		case (c >= '0' && c <= '9' || c == '-') && i > 0:
		default:
			return false
		}
	}
	return true
}

var knownUnicodeIdents = map[string]bool{"é": true, "名前": true, "ñ1": true, "é": true, "日本": true}

// canBeBare says whether a label may be written as a naked identifier.
func canBeBare(s string) bool { return isASCIIIdent(s) || knownUnicodeIdents[s] }

// ---------------------------------------------------------------------------
// Generator

type gen struct {
	r        *lib.Rand
	eg       *lib.ExprGen
	maxDepth int
	wide     bool // many repeated blocks of one type
	manyLab  bool // up to 6 labels
	names    []string
	types    []string
	budget   int // remaining number of items in the tree
}

func newGen(r *lib.Rand) *gen {
	g := &gen{r: r, eg: &lib.ExprGen{R: r}}
	g.maxDepth = []int{0, 1, 1, 2, 2, 3, 4, 6}[r.Intn(8)]
	g.wide = r.Chance(1, 6)
	g.manyLab = r.Chance(1, 4)
	// a small per-tree pool makes the same attribute name appear at several nesting levels and the
	// same block type repeat
	g.names = pickSome(r, identNames, 2+r.Intn(6))
	g.types = pickSome(r, typeNames, 1+r.Intn(4))
	g.budget = []int{3, 6, 10, 15, 25, 40}[r.Intn(6)]
	if g.wide {
		g.budget += 30
	}
	return g
}

func pickSome(r *lib.Rand, from []string, n int) []string {
	out := make([]string, 0, n)
	for i := 0; i < n; i++ {
		out = append(out, from[r.Intn(len(from))])
	}
	return out
}

var heredocLines = []string{"foo", "", "  indented", "${a}", "$${x}", "%%{", "%{ if true }x%{ endif }", "q\"uote", "back\\slash", "# not a comment", "// nor this",
	"/* nor that */", "}", "{", "b {", "EOT2", "xEOT", "EOT x", "a = 1", "é日本", "$", "%", "tab\there"}

func (g *gen) heredoc() *attr {
	marker := g.r.Pick([]string{"EOT", "EOF", "END_1", "e"})
	flush := g.r.Chance(1, 3)
	var sb strings.Builder
	sb.WriteString("<<")
	if flush {
		sb.WriteString("-")
	}
	sb.WriteString(marker + "\n")
	for i := g.r.Intn(4); i > 0; i-- {
		l := g.r.Pick(heredocLines)
		if strings.TrimSpace(l) == marker {
			l = "x"
		}
		if flush && g.r.Chance(1, 2) {
			l = "  " + l
		}
		sb.WriteString(l + "\n")
	}
	if flush && g.r.Chance(1, 2) {
		sb.WriteString("  ")
	}
	sb.WriteString(marker)
	return &attr{toks: []lib.Tk{{Text: sb.String()}}, Canon: sb.String(), Heredoc: true}
}

// value makes an attribute value whose canonical text parses alone; ok=false if no such value was found.
func (g *gen) value(allowHeredoc bool) *attr {
	if allowHeredoc && g.r.Chance(1, 12) {
		a := g.heredoc()
		e, d := hclsyntax.ParseExpression([]byte(a.Canon+"\n"), "", hcl.InitialPos)
		if !d.HasErrors() {
			a.Dump = lib.DumpExpr(e, false)
			return a
		}
	}
	for try := 0; try < 6; try++ {
		depth := []int{0, 0, 0, 0, 1, 1, 1, 2, 2, 3}[g.r.Intn(10)]
		n := g.eg.Expr(depth)
		rd := &lib.Renderer{R: g.r, ExtraParen: 4}
		var toks []lib.Tk
		rd.Expr(&toks, n)
		canon := (&lib.Layout{}).Render(toks, true)
		e, d := hclsyntax.ParseExpression([]byte(canon), "", hcl.InitialPos)
		if d.HasErrors() {
			continue
		}
		return &attr{toks: toks, Canon: canon, Dump: lib.DumpExpr(e, false)}
	}
	toks := []lib.Tk{{Text: "1"}}
	e, _ := hclsyntax.ParseExpression([]byte("1"), "", hcl.InitialPos)
	return &attr{toks: toks, Canon: "1", Dump: lib.DumpExpr(e, false)}
}

func (g *gen) label() string {
	n := 1
	if g.r.Chance(1, 3) {
		n = 2 + g.r.Intn(2)
	}
	var sb strings.Builder
	for i := 0; i < n; i++ {
		sb.WriteString(g.r.Pick(labelPieces))
	}
	return sb.String()
}

func (g *gen) body(depth int) *body {
	b := &body{}
	used := map[string]bool{}
	n := g.r.Intn(6)
	if depth == g.maxDepth && g.maxDepth > 0 && g.r.Chance(1, 2) {
		n = g.r.Intn(3)
	}
	if depth == 0 && n == 0 && g.r.Chance(3, 4) {
		n = 1 + g.r.Intn(4)
	}
	if g.wide && depth <= 1 {
		n += 6 + g.r.Intn(12)
	}
	for i := 0; i < n && g.budget > 0; i++ {
		g.budget--
		wantBlock := depth < g.maxDepth && g.r.Chance(1, 2)
		if g.wide && depth < g.maxDepth+1 {
			wantBlock = g.r.Chance(3, 4)
		}
		if g.maxDepth == 0 && g.r.Chance(1, 3) {
			wantBlock = true // flat files still have (empty / attribute-only) blocks
		}
		if wantBlock {
			b.Items = append(b.Items, item{B: g.block(depth + 1)})
			continue
		}
		name := g.r.Pick(g.names)
		if used[name] {
			name = g.r.Pick(identNames)
			if used[name] {
				continue
			}
		}
		used[name] = true
		a := g.value(true)
		a.Name = name
		b.Items = append(b.Items, item{A: a})
	}
	return b
}

func (g *gen) block(depth int) *block {
	blk := &block{Type: g.r.Pick(g.types)}
	nl := []int{0, 0, 0, 1, 1, 1, 2, 2, 3}[g.r.Intn(9)]
	if g.manyLab {
		nl = g.r.Intn(7)
	}
	for i := 0; i < nl; i++ {
		blk.Labels = append(blk.Labels, g.label())
	}
	if depth > g.maxDepth {
		// leaf block: empty or attributes only
		blk.Body = &body{}
		used := map[string]bool{}
		for i := g.r.Intn(3); i > 0 && g.budget > 0; i-- {
			g.budget--
			name := g.r.Pick(g.names)
			if used[name] {
				continue
			}
			used[name] = true
			a := g.value(true)
			a.Name = name
			blk.Body.Items = append(blk.Body.Items, item{A: a})
		}
		return blk
	}
	blk.Body = g.body(depth)
	return blk
}

// allBodies lists every body of a tree (root first) with its nesting depth.
func allBodies(b *body, depth int, out *[]bodyAt) {
	*out = append(*out, bodyAt{b, depth})
	for _, blk := range b.blocks() {
		allBodies(blk.Body, depth+1, out)
	}
}

type bodyAt struct {
	b     *body
	depth int
}

// addDuplicate inserts a second definition of an attribute name into one body of the tree and reports
// where (for the failure key). The tree is modified in place.
func (g *gen) addDuplicate(root *body) string {
	var bs []bodyAt
	allBodies(root, 0, &bs)
	target := bs[g.r.Intn(len(bs))]
	b := target.b
	as := b.attrs()
	if len(as) == 0 {
		a := g.value(true)
		a.Name = g.r.Pick(g.names)
		pos := g.r.Intn(len(b.Items) + 1)
		b.Items = append(b.Items[:pos], append([]item{{A: a}}, b.Items[pos:]...)...)
		as = b.attrs()
	}
	orig := as[g.r.Intn(len(as))]
	dup := g.value(true)
	if g.r.Chance(1, 3) {
		// the very same value text
		c := *orig
		dup = &c
	}
	dup.Name = orig.Name
	pos := g.r.Intn(len(b.Items) + 1)
	b.Items = append(b.Items[:pos], append([]item{{A: dup}}, b.Items[pos:]...)...)
	// classify
	i1, i2 := -1, -1
	for i, it := range b.Items {
		if it.A != nil && it.A.Name == orig.Name {
			if i1 < 0 {
				i1 = i
			} else {
				i2 = i
			}
		}
	}
	between := "adjacent"
	if i2-i1 > 1 {
		between = "attrs-between"
		for _, it := range b.Items[i1+1 : i2] {
			if it.B != nil {
				between = "blocks-between"
			}
		}
	}
	where := "top"
	if target.depth > 0 {
		where = "nested"
	}
	return where + "," + between
}
