package c02

import (
	"fmt"

	"github.com/hashicorp/hcl/v2"
	"github.com/hashicorp/hcl/v2/hclsyntax"

	"hx/lib"
)

// longFiles: what the random trees never reach — hundreds of sibling blocks in one body (written in
// one-line form, in multi-line form, mixed), hundreds of attributes, and block nesting hundreds of levels
// deep.  The grammar has no limit on either, so every rendering must parse to the written tree; anything
// that keeps a count per file (a depth guard, a cache keyed by position) shows up only here.
func longFiles(cx *lib.Ctx) {
	res := cx.Res
	R := cx.R.Fork()
	n := cx.Scale(16, 240)
	for i := 0; i < n; i++ {
		r := R.Fork()
		g := newGen(r)
		mk := func(k int) *body {
			// k sibling blocks, most of them one-line eligible (empty or a single attribute)
			b := &body{}
			for j := 0; j < k; j++ {
				blk := &block{Type: r.Pick(g.types), Body: &body{}}
				if r.Chance(1, 3) {
					blk.Labels = append(blk.Labels, fmt.Sprintf("l%d", j))
				}
				switch r.Intn(6) {
				case 0: // empty
				case 1: // two attributes: never one-line
					for _, nm := range []string{"a", "b"} {
						a := g.value(false)
						a.Name = nm
						blk.Body.Items = append(blk.Body.Items, item{A: a})
					}
				default:
					a := g.value(false)
					a.Name = r.Pick(g.names)
					blk.Body.Items = append(blk.Body.Items, item{A: a})
				}
				b.Items = append(b.Items, item{B: blk})
			}
			return b
		}
		// an attribute value nested `depth` brackets deep (a mix of ( [ { f( ), with the innermost value in the middle)
		deepValue := func(depth int) *attr {
			var toks []lib.Tk
			var closers []string
			for d := 0; d < depth; d++ {
				switch r.Intn(4) {
				case 0:
					toks = append(toks, lib.Tk{Text: "("})
					closers = append(closers, ")")
				case 1:
					toks = append(toks, lib.Tk{Text: "["})
					closers = append(closers, "]")
				case 2:
					toks = append(toks, lib.Tk{Text: "{"}, lib.Tk{Text: "k"}, lib.Tk{Text: "="})
					closers = append(closers, "}")
				default:
					toks = append(toks, lib.Tk{Text: "f"}, lib.Tk{Text: "("})
					closers = append(closers, ")")
				}
			}
			toks = append(toks, lib.Tk{Text: "1"})
			for d := len(closers) - 1; d >= 0; d-- {
				toks = append(toks, lib.Tk{Text: closers[d]})
			}
			canon := (&lib.Layout{}).Render(toks, true)
			e, d := hclsyntax.ParseExpression([]byte(canon), "", hcl.InitialPos)
			if d.HasErrors() {
				return g.value(false)
			}
			return &attr{toks: toks, Canon: canon, Dump: lib.DumpExpr(e, false)}
		}
		var tree *body
		kind := ""
		switch i % 4 {
		case 3:
			// deep values in newline-sensitive places, with more content after them
			kind = "deep-expression"
			tree = &body{}
			for k, dp := range []int{30 + r.Intn(30), 60 + r.Intn(10), 64 + r.Intn(80)} {
				a := deepValue(dp)
				a.Name = fmt.Sprintf("deep%d", k)
				tree.Items = append(tree.Items, item{A: a})
				after := g.value(false)
				after.Name = fmt.Sprintf("after%d", k)
				tree.Items = append(tree.Items, item{A: after})
			}
			inner := deepValue(64 + r.Intn(40))
			inner.Name = "deep"
			tail := g.value(false)
			tail.Name = "tail"
			tree.Items = append(tree.Items, item{B: &block{Type: "blk", Labels: []string{"x"}, Body: &body{Items: []item{{A: inner}, {A: tail}, {B: &block{Type: "leaf", Body: &body{}}}}}}})
		case 0:
			kind = "siblings"
			tree = mk(130 + r.Intn(300))
		case 1:
			kind = "siblings-nested"
			inner := mk(130 + r.Intn(200))
			tree = &body{Items: []item{{B: &block{Type: "outer", Body: &body{Items: []item{{B: &block{Type: "mid", Labels: []string{"x"}, Body: inner}}}}}}}}
			// and a block after the long run, with content of its own
			last := g.value(false)
			last.Name = "after"
			tree.Items = append(tree.Items, item{B: &block{Type: "tail", Body: &body{Items: []item{{A: last}, {B: &block{Type: "leaf", Body: &body{}}}}}}})
		default:
			kind = "deep"
			depth := 130 + r.Intn(250)
			cur := &body{}
			leaf := g.value(false)
			leaf.Name = "leaf"
			cur.Items = append(cur.Items, item{A: leaf})
			for d := 0; d < depth; d++ {
				cur = &body{Items: []item{{B: &block{Type: r.Pick(g.types), Body: cur}}}}
			}
			tree = cur
		}
		exp := tree.dump()
		for k := 0; k < 4; k++ {
			var l *lay
			switch k {
			case 0:
				l = &lay{}
			default:
				l = randomLay(r.Fork())
				l.comments = 0
				l.blank = 0
				switch k {
				case 1:
					l.oneLine = 4 // every eligible block on one line
				case 2:
					l.oneLine = 0
				}
			}
			src := l.render(tree)
			checkValid(cx, src, exp, tree, r, "long file ("+kind+"), layout: "+featList(l))
			res.Case(hashOf(src), true)
		}
		res.Count("long-file:" + kind)
	}
}
