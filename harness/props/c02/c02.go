// Package c02 is the direct oracle for property C02: native-syntax structure parses to exactly the
// written attributes and blocks, whatever the layout; duplicate attribute definitions are rejected.
package c02

import (
	"encoding/json"
	"fmt"
	"hash/fnv"
	"runtime/debug"
	"sort"
	"strings"

	"github.com/hashicorp/hcl/v2"
	"github.com/hashicorp/hcl/v2/hclsyntax"

	"hx/lib"
	"hx/props/histgen"
)

func init() { lib.Register("C02", run) }

// replayCase is the replayable input of a failure.
type replayCase struct {
	Kind   string `json:"kind"` // "valid": Src must parse without errors to Expect; "dup": Src must be rejected
	Src    string `json:"src"`
	Expect string `json:"expect,omitempty"`
	Where  string `json:"where,omitempty"`
}

func (c replayCase) String() string {
	b, _ := json.Marshal(c)
	return string(b)
}

func firstError(diags hcl.Diagnostics) string {
	for _, d := range diags {
		if d.Severity == hcl.DiagError {
			return d.Summary
		}
	}
	return ""
}

// labelClass names the kind of character at which the parsed label first departs from the written one
// (for failure keys: the defect class, not the whole label).
func labelClass(want, got string) string {
	p := 0
	for p < len(want) && p < len(got) && want[p] == got[p] {
		p++
	}
	if p >= len(want) {
		return "extra-text"
	}
	// step back to the start of the rune
	for p > 0 && want[p]&0xC0 == 0x80 {
		p--
	}
	// a difference right after an introducer character belongs to the introducer
	if p > 0 && (want[p-1] == '$' || want[p-1] == '%') && want[p] == '{' {
		return "introducer"
	}
	r := []rune(want[p:])[0]
	switch {
	case r == '$' || r == '%':
		if p+1 < len(want) && want[p+1] == '{' {
			return "introducer"
		}
		return "dollar-percent"
	case r == '"':
		return "quote"
	case r == '\\':
		return "backslash"
	case r < 32:
		return "control"
	case r > 127:
		return "unicode"
	}
	return "plain"
}

// diffClass finds the first structural difference between the written tree and the parsed body.
func diffClass(want *body, got *hclsyntax.Body) string {
	if got == nil {
		return "nil-body"
	}
	was := want.attrs()
	if len(was) != len(got.Attributes) {
		if len(was) > len(got.Attributes) {
			return "attribute-missing"
		}
		return "attribute-extra"
	}
	for _, a := range was {
		ga, ok := got.Attributes[a.Name]
		if !ok {
			return "attribute-name"
		}
		if ga.Name != a.Name {
			return "attribute-name-field"
		}
		if lib.DumpExpr(ga.Expr, false) != a.Dump {
			return "attribute-value"
		}
	}
	wbs := want.blocks()
	if len(wbs) != len(got.Blocks) {
		if len(wbs) > len(got.Blocks) {
			return "block-missing"
		}
		return "block-extra"
	}
	for i, wb := range wbs {
		gb := got.Blocks[i]
		if gb.Type != wb.Type {
			// same multiset in another order?
			return "block-type-or-order"
		}
		if len(gb.Labels) != len(wb.Labels) {
			return "label-count"
		}
		for j := range wb.Labels {
			if gb.Labels[j] != wb.Labels[j] {
				return "label:" + labelClass(wb.Labels[j], gb.Labels[j])
			}
		}
		if c := diffClass(wb.Body, gb.Body); c != "" {
			return c
		}
	}
	return ""
}

// schemaFor derives a schema that accepts the body: every attribute, every block type with the label
// count of its first occurrence.
func schemaFor(b *body, r *lib.Rand) *hcl.BodySchema {
	s := &hcl.BodySchema{}
	for _, a := range b.attrs() {
		s.Attributes = append(s.Attributes, hcl.AttributeSchema{Name: a.Name, Required: r != nil && r.Chance(1, 2)})
	}
	seen := map[string]bool{}
	for _, blk := range b.blocks() {
		if seen[blk.Type] {
			continue
		}
		seen[blk.Type] = true
		bs := hcl.BlockHeaderSchema{Type: blk.Type}
		for i := range blk.Labels {
			bs.LabelNames = append(bs.LabelNames, fmt.Sprintf("l%d", i))
		}
		s.Blocks = append(s.Blocks, bs)
	}
	return s
}

// checkGeneric checks the written tree through hcl.Body.Content / JustAttributes. Returns a defect class or "".
func checkGeneric(want *body, got hcl.Body, r *lib.Rand) string {
	schema := schemaFor(want, r)
	labelCount := map[string]int{}
	for _, bs := range schema.Blocks {
		labelCount[bs.Type] = len(bs.LabelNames)
	}
	content, diags := got.Content(schema)
	var wantBlocks []*block
	mismatch := false
	for _, blk := range want.blocks() {
		if len(blk.Labels) == labelCount[blk.Type] {
			wantBlocks = append(wantBlocks, blk)
		} else {
			mismatch = true
		}
	}
	if diags.HasErrors() != mismatch {
		if mismatch {
			return "content-no-error-on-label-count"
		}
		return "content-error:" + firstError(diags)
	}
	was := want.attrs()
	if len(content.Attributes) != len(was) {
		return "content-attribute-count"
	}
	for _, a := range was {
		ga, ok := content.Attributes[a.Name]
		if !ok || ga.Name != a.Name {
			return "content-attribute-name"
		}
		se, ok := ga.Expr.(hclsyntax.Expression)
		if !ok || lib.DumpExpr(se, false) != a.Dump {
			return "content-attribute-value"
		}
	}
	if len(content.Blocks) != len(wantBlocks) {
		return "content-block-count"
	}
	for i, wb := range wantBlocks {
		gb := content.Blocks[i]
		if gb.Type != wb.Type {
			return "content-block-type-or-order"
		}
		if len(gb.Labels) != len(wb.Labels) {
			return "content-label-count"
		}
		for j := range wb.Labels {
			if gb.Labels[j] != wb.Labels[j] {
				return "content-label:" + labelClass(wb.Labels[j], gb.Labels[j])
			}
		}
		if c := checkGeneric(wb.Body, gb.Body, r); c != "" {
			return c
		}
	}
	// JustAttributes: all attributes; an error exactly when the body has blocks
	ja, jd := got.JustAttributes()
	if jd.HasErrors() != (len(want.blocks()) > 0) {
		return "justattributes-diagnostics"
	}
	if len(ja) != len(was) {
		return "justattributes-count"
	}
	for _, a := range was {
		ga, ok := ja[a.Name]
		if !ok || ga.Name != a.Name {
			return "justattributes-name"
		}
		se, ok := ga.Expr.(hclsyntax.Expression)
		if !ok || lib.DumpExpr(se, false) != a.Dump {
			return "justattributes-value"
		}
	}
	return ""
}

// guard is cx.Guard with the replay document built only when needed.
func guard(cx *lib.Ctx, key string, rc replayCase, f func()) {
	defer func() {
		if r := recover(); r != nil {
			cx.Res.Fail(lib.Failure{Kind: "oracle", Key: "panic:" + key, Desc: fmt.Sprintf("panic: %v\n%s", r, lib.Trunc(string(debug.Stack()), 1500)), Input: rc.String()})
		}
	}()
	f()
}

func featList(l *lay) string {
	var fs []string
	for f := range l.feats {
		fs = append(fs, f)
	}
	sort.Strings(fs)
	return strings.Join(fs, ",")
}

// checkValid runs the oracle on one rendering of a valid tree; want may be nil on replay.
func checkValid(cx *lib.Ctx, src string, expect string, want *body, r *lib.Rand, desc string) {
	rc := replayCase{Kind: "valid", Src: src, Expect: expect}
	guard(cx, "parse-valid", rc, func() {
		f, diags := hclsyntax.ParseConfig([]byte(src), "", hcl.InitialPos)
		if diags.HasErrors() {
			cx.Res.Fail(lib.Failure{Kind: "oracle", Key: "valid-rejected:" + firstError(diags), Desc: "a text that follows the structural grammar is rejected (" + desc + "): " + diags.Error(), Input: rc.String(), Impl: diags.Error()})
			return
		}
		gb, _ := f.Body.(*hclsyntax.Body)
		got := lib.DumpBody(gb, false)
		if got != expect {
			class := "dump"
			if want != nil {
				if c := diffClass(want, gb); c != "" {
					class = c
				}
			}
			cx.Res.Fail(lib.Failure{Kind: "oracle", Key: "structure-differs:" + class, Desc: "the parsed body is not what was written (" + desc + ")", Input: rc.String(), Model: expect, Impl: got})
			return
		}
		if want != nil {
			if c := checkGeneric(want, f.Body, r); c != "" {
				cx.Res.Fail(lib.Failure{Kind: "oracle", Key: "generic-api:" + c, Desc: "Content / JustAttributes with a schema derived from the written tree do not return the written items (" + desc + ")", Input: rc.String(), Model: expect})
			}
		}
	})
}

func checkDup(cx *lib.Ctx, src string, where string, desc string) {
	rc := replayCase{Kind: "dup", Src: src, Where: where}
	guard(cx, "parse-dup", rc, func() {
		_, diags := hclsyntax.ParseConfig([]byte(src), "", hcl.InitialPos)
		if !diags.HasErrors() {
			cx.Res.Fail(lib.Failure{Kind: "oracle", Key: "duplicate-attribute-accepted:" + where, Desc: "a body defining an attribute name twice is accepted without error (" + desc + ")", Input: rc.String(), Impl: "no error diagnostics"})
		}
	})
}

// hand-written cases: (text, expected dump built from a tiny literal description) are derived from trees
// below so that they run through the same oracle.
func handTrees() []*body {
	lit := func(name, src string) *attr {
		e, _ := hclsyntax.ParseExpression([]byte(src), "", hcl.InitialPos)
		return &attr{Name: name, toks: []lib.Tk{{Text: src}}, Canon: src, Dump: lib.DumpExpr(e, false)}
	}
	return []*body{
		{},
		{Items: []item{{A: lit("a", "1")}}},
		{Items: []item{{B: &block{Type: "b", Body: &body{}}}}},
		{Items: []item{{B: &block{Type: "b", Labels: []string{"${", "%{", "$${", "a$", "$"}, Body: &body{Items: []item{{A: lit("a", "1")}}}}}}},
		{Items: []item{{A: lit("a", "1")}, {B: &block{Type: "a", Labels: []string{"a"}, Body: &body{Items: []item{{A: lit("a", "a")}, {B: &block{Type: "a", Body: &body{Items: []item{{A: lit("a", "[1, 2]")}}}}}}}}}}},
		{Items: []item{{B: &block{Type: "b", Labels: []string{""}, Body: &body{}}}, {B: &block{Type: "b", Labels: []string{"", ""}, Body: &body{}}}, {B: &block{Type: "b", Body: &body{}}}}},
	}
}

func run(cx *lib.Ctx) {
	res := cx.Res
	if cx.Replay != "" {
		in := lib.ReplayInput(cx.Replay)
		var rc replayCase
		if err := json.Unmarshal([]byte(in), &rc); err != nil {
			// plain source text: must at least parse
			rc = replayCase{Kind: "valid", Src: in}
			f, _ := hclsyntax.ParseConfig([]byte(in), "", hcl.InitialPos)
			if b, ok := f.Body.(*hclsyntax.Body); ok {
				rc.Expect = lib.DumpBody(b, false)
			}
		}
		if rc.Kind == "dup" {
			checkDup(cx, rc.Src, rc.Where, "replay")
		} else {
			checkValid(cx, rc.Src, rc.Expect, nil, nil, "replay")
		}
		res.Case(rc.Src, true)
		res.Sample(rc.Src)
		return
	}
	res.Rule = "random abstract body trees (attributes over the whole expression grammar incl. heredocs, blocks with 0..6 labels over an alphabet with quotes, backslashes, $, %, ${, %{, unicode, control characters, empty; nesting to depth 7; many repeated blocks) each rendered in 6 layouts (canonical + 5 random: spacing incl. zero-width gaps, tabs, blank lines, #, // and /* */ comments incl. multi-line ones between any two tokens, LF/CRLF, no final newline, BOM, bare/quoted labels, alternative escape spellings, one-line/multi-line block form, values spanning lines); every rendering must parse without errors to the written tree (DumpBody, Content, JustAttributes); a second stream inserts a duplicate attribute definition into some body and every rendering must be rejected; non-trivial = tree has at least one block or two attributes; distinct by source text"
	histgen.Run(cx, "C02")

	for _, t := range handTrees() {
		exp := t.dump()
		for k := 0; k < 4; k++ {
			var l *lay
			if k == 0 {
				l = &lay{}
			} else {
				l = randomLay(cx.R.Fork())
			}
			src := l.render(t)
			checkValid(cx, src, exp, t, cx.R, "hand tree")
			res.Case(hashOf(src), len(t.Items) > 0)
		}
	}

	n := cx.Scale(10000, 250000)
	layoutsPer := 5
	for i := 0; i < n; i++ {
		r := cx.R.Fork()
		g := newGen(r)
		tree := g.body(0)
		exp := tree.dump()
		na, nb, depth, ml := tree.stats()
		nontrivial := nb > 0 || na > 1
		res.Count(fmt.Sprintf("tree-depth-%d", depth))
		if ml > 2 {
			res.Count("tree-more-than-2-labels")
		}
		if nb >= 8 {
			res.Count("tree-8+-blocks")
		}
		if nb == 0 {
			res.Count("tree-no-blocks")
		}
		for _, a := range allAttrs(tree) {
			if a.Heredoc {
				res.Count("attr-heredoc")
				break
			}
		}
		for k := 0; k <= layoutsPer; k++ {
			var l *lay
			if k == 0 {
				l = &lay{}
			} else {
				l = randomLay(r.Fork())
			}
			src := l.render(tree)
			checkValid(cx, src, exp, tree, r, "layout: "+featList(l))
			res.Case(hashOf(src), nontrivial)
			for f := range l.feats {
				res.Count("layout-" + f)
			}
			if l.crlf {
				res.Count("layout-crlf")
			}
			if i < 2 && k == 1 {
				res.Sample(src)
			}
		}
		res.Count("valid-trees")

		// duplicate stream
		if r.Chance(1, 2) {
			where := g.addDuplicate(tree)
			res.Count("dup-" + where)
			for k := 0; k < 3; k++ {
				var l *lay
				if k == 0 {
					l = &lay{}
				} else {
					l = randomLay(r.Fork())
				}
				src := l.render(tree)
				checkDup(cx, src, where, "layout: "+featList(l))
				res.Case(hashOf(src), true)
				if i < 4 && k == 1 {
					res.Sample(src)
				}
			}
			res.Count("dup-trees")
		}
	}
	longFiles(cx)
	corrParseBody(cx)
}

// hashOf identifies a source text in the distinct-case set without keeping the text.
func hashOf(s string) string {
	h := fnv.New128a()
	h.Write([]byte(s))
	return string(h.Sum(nil))
}

func allAttrs(b *body) []*attr {
	out := b.attrs()
	for _, blk := range b.blocks() {
		out = append(out, allAttrs(blk.Body)...)
	}
	return out
}
