package c04

import (
	"fmt"
	"sort"

	"github.com/hashicorp/hcl/v2"
	"github.com/zclconf/go-cty/cty"
	"github.com/zclconf/go-cty/cty/convert"
)

// ---------------------------------------------------------------------------
// Abstract (symbolic) configuration: what is written, independent of syntax.

const (
	tLit     = iota // literal value (string/number/bool/null/tuple/object only)
	tVar            // variable of the evaluation context
	tIterKey        // <iterator>.key
	tIterVal        // <iterator>.value
	tIterFld        // <iterator>.value.<fld>
	tConcat         // "<pre>${<iterator>.key}"
)

type texpr struct {
	kind int
	lit  cty.Value
	name string // variable or iterator name
	fld  string
	pre  string
}

type aAttr struct {
	name string
	e    *texpr
}

type aBlock struct {
	typ    string
	labels []string
	body   *aBody
}

type aDyn struct {
	typ     string
	iter    string // "" = default iterator name (the block type)
	forEach *texpr
	labels  []*texpr
	content *aBody
}

func (d *aDyn) iterName() string {
	if d.iter != "" {
		return d.iter
	}
	return d.typ
}

type aItem struct {
	a *aAttr
	b *aBlock
	d *aDyn
}

type aBody struct {
	items []aItem
}

// ---------------------------------------------------------------------------
// Evaluation context shared by the implementation and the model.

var ctxVars = map[string]cty.Value{
	"vstr":   cty.StringVal("sv"),
	"vnum":   cty.NumberIntVal(7),
	"vlist":  cty.ListVal([]cty.Value{cty.StringVal("p"), cty.StringVal("q")}),
	"vlist3": cty.ListVal([]cty.Value{cty.NumberIntVal(10), cty.NumberIntVal(20), cty.NumberIntVal(30)}),
	"vmap":   cty.MapVal(map[string]cty.Value{"k1": cty.StringVal("m1"), "k2": cty.StringVal("m2")}),
	"vset":   cty.SetVal([]cty.Value{cty.StringVal("s2"), cty.StringVal("s1"), cty.StringVal("s3")}),
	"vempty": cty.ListValEmpty(cty.String),
	"vtup":   cty.TupleVal([]cty.Value{cty.StringVal("t0"), cty.NumberIntVal(1)}),
	"vobjs": cty.TupleVal([]cty.Value{
		cty.ObjectVal(map[string]cty.Value{"n": cty.StringVal("o1"), "items": cty.TupleVal([]cty.Value{cty.StringVal("i"), cty.StringVal("j")})}),
		cty.ObjectVal(map[string]cty.Value{"n": cty.StringVal("o2"), "items": cty.EmptyTupleVal}),
	}),
	"vunk":  cty.UnknownVal(cty.List(cty.String)),
	"vdyn":  cty.DynamicVal,
	"vbool": cty.True,
}

func evalCtx() *hcl.EvalContext { return &hcl.EvalContext{Variables: ctxVars} }

type iterBinding struct{ key, val cty.Value }

type env map[string]iterBinding

func (e env) with(name string, k, v cty.Value) env {
	n := env{}
	for a, b := range e {
		n[a] = b
	}
	n[name] = iterBinding{k, v}
	return n
}

func toStr(v cty.Value) cty.Value {
	if !v.IsKnown() {
		return cty.UnknownVal(cty.String)
	}
	s, err := convert.Convert(v, cty.String)
	if err != nil {
		panic("model: cannot convert to string: " + err.Error())
	}
	return s
}

func eval(e *texpr, en env) cty.Value {
	switch e.kind {
	case tLit:
		return e.lit
	case tVar:
		return ctxVars[e.name]
	case tIterKey:
		return en[e.name].key
	case tIterVal:
		return en[e.name].val
	case tIterFld:
		v := en[e.name].val
		if !v.IsKnown() {
			return cty.DynamicVal
		}
		return v.GetAttr(e.fld)
	case tConcat:
		if e.pre == "" {
			// a template that is a single interpolation yields the value itself, not its string form
			return en[e.name].key
		}
		k := toStr(en[e.name].key)
		if !k.IsKnown() {
			return cty.UnknownVal(cty.String)
		}
		return cty.StringVal(e.pre + k.AsString())
	}
	panic("model: unknown expression kind")
}

// ---------------------------------------------------------------------------
// Concrete configuration: the abstract one with every dynamic group expanded by the model.

type cBlock struct {
	typ    string
	labels []string
	body   *cBody
	json   bool // written in a JSON file
}

// cItem is one item of a body: an attribute, a static block, or a dynamic group (its expansion).
type cItem struct {
	kind    int // 0 attribute, 1 block, 2 dynamic group
	name    string
	val     cty.Value
	blk     *cBlock
	grp     []*cBlock // expansion of the group, in order
	grpLabs int       // number of label expressions written in the group
	json    bool      // the item was written in a JSON file (set when the implementation is built)
}

type cBody struct {
	items []cItem
}

func expand(b *aBody, en env, unknown bool) *cBody {
	out := &cBody{}
	for _, it := range b.items {
		switch {
		case it.a != nil:
			v := cty.DynamicVal
			if !unknown {
				v = eval(it.a.e, en)
			}
			out.items = append(out.items, cItem{kind: 0, name: it.a.name, val: v})
		case it.b != nil:
			out.items = append(out.items, cItem{kind: 1, name: it.b.typ, blk: &cBlock{typ: it.b.typ, labels: it.b.labels, body: expand(it.b.body, en, unknown)}})
		case it.d != nil:
			d := it.d
			g := cItem{kind: 2, name: d.typ, grpLabs: len(d.labels)}
			fe := eval(d.forEach, en)
			mk := func(k, v cty.Value, unk bool) {
				en2 := en.with(d.iterName(), k, v)
				blk := &cBlock{typ: d.typ}
				for _, le := range d.labels {
					blk.labels = append(blk.labels, toStr(eval(le, en2)).AsString())
				}
				blk.body = expand(d.content, en2, unk)
				g.grp = append(g.grp, blk)
			}
			if !fe.IsKnown() {
				mk(cty.DynamicVal, cty.DynamicVal, true)
			} else {
				for iter := fe.ElementIterator(); iter.Next(); {
					k, v := iter.Element()
					mk(k, v, unknown)
				}
			}
			out.items = append(out.items, g)
		}
	}
	return out
}

// flat replaces every dynamic group by its blocks (the written-out equivalent), one level deep.
func flat(items []cItem) []cItem {
	var out []cItem
	for _, it := range items {
		if it.kind == 2 {
			for _, b := range it.grp {
				out = append(out, cItem{kind: 1, name: b.typ, blk: b, json: it.json})
			}
			continue
		}
		out = append(out, it)
	}
	return out
}

// ---------------------------------------------------------------------------
// The specification of schema-driven processing over concrete items.

type expected struct {
	attrs      map[string]cty.Value
	blocks     map[string][]*cBlock // per block type, in source order
	contentErr bool                 // exhaustive processing reports an error
	partialErr bool                 // partial processing reports an error
	dropped    bool                 // some block of a requested type has the wrong number of labels
	nonMatch   int                  // number of non-matching items (incl. missing required attributes) under exhaustive processing
	remain     []cItem              // items left for the remaining body, in order
}

func labelCounts(s *hcl.BodySchema) map[string]int {
	m := map[string]int{}
	for _, b := range s.Blocks {
		m[b.Type] = len(b.LabelNames)
	}
	return m
}

func specify(items []cItem, s *hcl.BodySchema) expected {
	ex := expected{attrs: map[string]cty.Value{}, blocks: map[string][]*cBlock{}}
	wantAttr := map[string]bool{}
	for _, a := range s.Attributes {
		wantAttr[a.Name] = true
	}
	lc := labelCounts(s)
	unmatched := false
	for _, it := range items {
		switch it.kind {
		case 0:
			if wantAttr[it.name] {
				ex.attrs[it.name] = it.val
			} else {
				unmatched = true
				ex.nonMatch++
				ex.remain = append(ex.remain, it)
			}
		case 1:
			n, ok := lc[it.name]
			switch {
			case !ok:
				unmatched = true
				ex.nonMatch++
				ex.remain = append(ex.remain, it)
			case n != len(it.blk.labels):
				ex.partialErr = true
				ex.dropped = true
				ex.nonMatch++
			default:
				ex.blocks[it.name] = append(ex.blocks[it.name], it.blk)
			}
		case 2:
			n, ok := lc[it.name]
			switch {
			case !ok:
				unmatched = true
				ex.nonMatch++
				ex.remain = append(ex.remain, it)
			case n != it.grpLabs:
				ex.partialErr = true
				ex.dropped = true
				ex.nonMatch++
			default:
				ex.blocks[it.name] = append(ex.blocks[it.name], it.grp...)
			}
		}
	}
	for _, a := range s.Attributes {
		if _, ok := ex.attrs[a.Name]; a.Required && !ok {
			ex.partialErr = true
			ex.nonMatch++
		}
	}
	ex.contentErr = ex.partialErr || unmatched
	return ex
}

// fullSchema accepts every item: all attributes (optional), every block type with the label count of
// its first occurrence.
func fullSchema(items []cItem) *hcl.BodySchema {
	s := &hcl.BodySchema{}
	seenA := map[string]bool{}
	seenB := map[string]bool{}
	for _, it := range items {
		switch it.kind {
		case 0:
			if !seenA[it.name] {
				seenA[it.name] = true
				s.Attributes = append(s.Attributes, hcl.AttributeSchema{Name: it.name})
			}
		case 1, 2:
			if seenB[it.name] {
				continue
			}
			seenB[it.name] = true
			n := it.grpLabs
			if it.kind == 1 {
				n = len(it.blk.labels)
			}
			s.Blocks = append(s.Blocks, hcl.BlockHeaderSchema{Type: it.name, LabelNames: labelNames(n)})
		}
	}
	return s
}

func labelNames(n int) []string {
	var out []string
	for i := 0; i < n; i++ {
		out = append(out, fmt.Sprintf("l%d", i))
	}
	return out
}

func schemaString(s *hcl.BodySchema) string {
	var as, bs []string
	for _, a := range s.Attributes {
		x := a.Name
		if a.Required {
			x += "!"
		}
		as = append(as, x)
	}
	for _, b := range s.Blocks {
		bs = append(bs, fmt.Sprintf("%s/%d", b.Type, len(b.LabelNames)))
	}
	sort.Strings(as)
	sort.Strings(bs)
	return fmt.Sprintf("attrs%v blocks%v", as, bs)
}
