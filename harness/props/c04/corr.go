package c04

import (
	"fmt"
	"regexp"
	"sort"
	"strings"

	"github.com/hashicorp/hcl/v2"
	"github.com/hashicorp/hcl/v2/hclsyntax"

	"hx/lib"
)

// corrBody ties the Lean model of native schema processing (HclModel/Body/Native: partialContent, content and
// the hidden-name state of the remaining body) to hclsyntax.Body: the same body and the same chain of
// PartialContent / Content calls go to both; per call the attributes returned, the blocks returned (identified
// by position in the source) and the kinds of error reported are compared.
func corrBody(cx *lib.Ctx) {
	if !cx.HasModel() {
		return
	}
	attrNames := []string{"a", "b", "c", "d", "blk"}
	blockTypes := []string{"blk", "svc", "x", "a"}
	labels := []string{"l", "m"}
	n := cx.Scale(1500, 40000)
	for i := 0; i < n; i++ {
		r := cx.R.Fork()
		// the body
		var attrs []string
		for _, a := range attrNames {
			if r.Chance(1, 2) {
				attrs = append(attrs, a)
			}
		}
		// source order of attributes is irrelevant to the code (a map); shuffle what is written
		type blk struct {
			ty     string
			labels []string
		}
		var blocks []blk
		for k := r.Intn(6); k > 0; k-- {
			b := blk{ty: r.Pick(blockTypes)}
			for j := r.Intn(3); j > 0; j-- {
				b.labels = append(b.labels, r.Pick(labels))
			}
			blocks = append(blocks, b)
		}
		var sb strings.Builder
		ai, bi := 0, 0
		for ai < len(attrs) || bi < len(blocks) {
			if bi >= len(blocks) || (ai < len(attrs) && r.Chance(1, 2)) {
				fmt.Fprintf(&sb, "%s = %d\n", attrs[ai], ai)
				ai++
			} else {
				sb.WriteString(blocks[bi].ty)
				for _, l := range blocks[bi].labels {
					if r.Chance(1, 2) {
						sb.WriteString(" " + l)
					} else {
						sb.WriteString(` "` + l + `"`)
					}
				}
				fmt.Fprintf(&sb, " {\n  id = %d\n}\n", bi)
				bi++
			}
		}
		src := sb.String()
		f, diags := hclsyntax.ParseConfig([]byte(src), "", hcl.InitialPos)
		if diags.HasErrors() {
			cx.Res.Fail(lib.Failure{Kind: "corr", Key: "BODY:unparseable", Desc: diags.Error(), Input: src})
			continue
		}
		line := "BODY " + dash(strings.Join(attrs, ","))
		var bl []string
		for _, b := range blocks {
			bl = append(bl, strings.Join(append([]string{b.ty}, b.labels...), ":"))
		}
		line += " " + dash(strings.Join(bl, ","))

		// the operations
		body := f.Body
		var outs []string
		nops := 1 + r.Intn(4)
		for k := 0; k < nops; k++ {
			schema := &hcl.BodySchema{}
			var as, bs []string
			for j := r.Intn(4); j > 0; j-- {
				nm := r.Pick(append(attrNames, "zz"))
				req := r.Chance(1, 3)
				schema.Attributes = append(schema.Attributes, hcl.AttributeSchema{Name: nm, Required: req})
				if req {
					nm += "!"
				}
				as = append(as, nm)
			}
			for j := r.Intn(4); j > 0; j-- {
				ty := r.Pick(append(blockTypes, "zz"))
				nl := r.Intn(3)
				var ln []string
				for q := 0; q < nl; q++ {
					ln = append(ln, fmt.Sprintf("name%d", q))
				}
				schema.Blocks = append(schema.Blocks, hcl.BlockHeaderSchema{Type: ty, LabelNames: ln})
				bs = append(bs, fmt.Sprintf("%s.%d", ty, nl))
			}
			last := k == nops-1
			kind := "P"
			if last && r.Chance(2, 3) || r.Chance(1, 8) {
				kind = "C"
			}
			line += fmt.Sprintf(" %s/%s/%s", kind, dash(strings.Join(as, ",")), dash(strings.Join(bs, ",")))
			var content *hcl.BodyContent
			var ds hcl.Diagnostics
			if kind == "P" {
				var remain hcl.Body
				content, remain, ds = body.PartialContent(schema)
				body = remain
			} else {
				content, ds = body.Content(schema)
			}
			cx.Res.Count("corr-body:op:" + kind)
			outs = append(outs, showContent(content, ds))
		}
		impl := strings.Join(outs, " | ")
		model := cx.Ask(line)
		cx.Res.CorrChecked++
		if strings.Contains(impl, "E=-") {
			cx.Res.Count("corr-body:some-op-without-errors")
		}
		if model != impl {
			cx.Res.Fail(lib.Failure{Kind: "corr", Key: "BODY", Desc: "schema processing of a native body differs from the model\n" + src, Input: line, Model: model, Impl: impl})
		}
	}
}

func dash(s string) string {
	if s == "" {
		return "-"
	}
	return s
}

var quotedRe = regexp.MustCompile(`"([^"]*)"`)

func showContent(c *hcl.BodyContent, ds hcl.Diagnostics) string {
	var as []string
	for name, a := range c.Attributes {
		v, _ := a.Expr.Value(nil)
		iv, _ := v.AsBigFloat().Int64()
		as = append(as, fmt.Sprintf("%s:%d", name, iv))
	}
	sort.Strings(as)
	var bs []string
	for _, b := range c.Blocks {
		at, _ := b.Body.JustAttributes()
		v, _ := at["id"].Expr.Value(nil)
		iv, _ := v.AsBigFloat().Int64()
		bs = append(bs, fmt.Sprint(iv))
	}
	var es []string
	for _, d := range ds {
		q := ""
		if m := quotedRe.FindStringSubmatch(d.Detail); m != nil {
			q = m[1]
		}
		words := strings.Fields(d.Summary)
		lastWord := words[len(words)-1]
		switch {
		case d.Summary == "Missing required argument":
			es = append(es, "mr."+q)
		case strings.HasPrefix(d.Summary, "Extraneous label for "):
			es = append(es, "el."+lastWord)
		case strings.HasPrefix(d.Summary, "Missing ") && strings.Contains(d.Summary, " for "):
			es = append(es, "ml."+lastWord)
		case d.Summary == "Unsupported argument":
			es = append(es, "ua."+q)
		case d.Summary == "Unsupported block type":
			es = append(es, "ub."+q)
		default:
			es = append(es, "other:"+strings.ReplaceAll(d.Summary, " ", "_"))
		}
	}
	sort.Strings(es)
	return "A=" + dash(strings.Join(as, ",")) + ";B=" + dash(strings.Join(bs, ",")) + ";E=" + dash(strings.Join(es, ","))
}
