// Package c04 is the direct oracle for property C04: schema-driven body processing accounts for every
// item exactly once, for native, JSON, merged and dynamic-block-expanded bodies.
package c04

import (
	"encoding/json"
	"fmt"
	"hash/fnv"
	"runtime/debug"
	"sort"
	"strings"

	"github.com/hashicorp/hcl/v2"
	"github.com/hashicorp/hcl/v2/ext/dynblock"
	"github.com/hashicorp/hcl/v2/hclsyntax"
	hcljson "github.com/hashicorp/hcl/v2/json"
	"github.com/zclconf/go-cty/cty"

	"hx/lib"
	"hx/props/histgen"
)

func init() { lib.Register("C04", run) }

// ---------------------------------------------------------------------------
// Implementations under test

type fileSrc struct {
	Syntax string `json:"syntax"`
	Text   string `json:"text"`
}

type impl struct {
	name    string // native | json | merged | expanded-native | expanded-json | expanded-merged
	body    hcl.Body
	items   []cItem // what the body contains, top level, in order (dynamic groups kept as groups)
	grouped bool    // dynamic groups are single items of the body (expanded bodies); otherwise written out
	files   []fileSrc
	inOrder bool // the items are in the order of the abstract configuration (single file or contiguous split)
}

// withJSON deep-copies items, setting the json flag everywhere.
func withJSON(items []cItem, j bool) []cItem {
	out := make([]cItem, len(items))
	for i, it := range items {
		it.json = j
		if it.blk != nil {
			it.blk = &cBlock{typ: it.blk.typ, labels: it.blk.labels, body: &cBody{items: withJSON(it.blk.body.items, j)}, json: j}
		}
		if it.grp != nil {
			g := make([]*cBlock, len(it.grp))
			for k, b := range it.grp {
				g[k] = &cBlock{typ: b.typ, labels: b.labels, body: &cBody{items: withJSON(b.body.items, j)}, json: j}
			}
			it.grp = g
		}
		out[i] = it
	}
	return out
}

type parseError struct{ msg string }

// parseFile renders and parses one file; sym: keep dynamic blocks.
func parseFile(part *aBody, asJSON bool, sym bool, r *lib.Rand) (hcl.Body, fileSrc, []cItem, *parseError) {
	var w *wBody
	if sym {
		w = symbolic(part, r)
	} else {
		w = concreteFrom(part, env{})
	}
	items := withJSON(expand(part, env{}, false).items, asJSON)
	if asJSON {
		txt := jsonText(w, r)
		f, diags := hcljson.Parse([]byte(txt), "f.json")
		fs := fileSrc{"json", txt}
		if diags.HasErrors() {
			return nil, fs, nil, &parseError{diags.Error()}
		}
		return f.Body, fs, items, nil
	}
	txt := nativeText(w, r)
	f, diags := hclsyntax.ParseConfig([]byte(txt), "f.hcl", hcl.InitialPos)
	fs := fileSrc{"native", txt}
	if diags.HasErrors() {
		return nil, fs, nil, &parseError{diags.Error()}
	}
	return f.Body, fs, items, nil
}

// splitBody distributes the top-level items over k files; contiguous keeps the overall order.
func splitBody(a *aBody, k int, contiguous bool, r *lib.Rand) []*aBody {
	parts := make([]*aBody, k)
	for i := range parts {
		parts[i] = &aBody{}
	}
	if contiguous {
		cuts := make([]int, k-1)
		for i := range cuts {
			cuts[i] = r.Intn(len(a.items) + 1)
		}
		sort.Ints(cuts)
		p := 0
		for i, it := range a.items {
			for p < k-1 && i >= cuts[p] {
				p++
			}
			parts[p].items = append(parts[p].items, it)
		}
		return parts
	}
	for _, it := range a.items {
		p := r.Intn(k)
		parts[p].items = append(parts[p].items, it)
	}
	return parts
}

// ---------------------------------------------------------------------------
// Checker

type checker struct {
	cx       *lib.Ctx
	r        *lib.Rand
	ctx      *hcl.EvalContext
	caseSeed uint64
	im       *impl
	law      string
	schema   string
	// the body under test may be backed by JSON (then error counts and JustAttributes are syntax-specific)
	jsonBacked bool
}

type replayDoc struct {
	CaseSeed uint64    `json:"case_seed"`
	Impl     string    `json:"impl"`
	Law      string    `json:"law"`
	Schema   string    `json:"schema"`
	Files    []fileSrc `json:"files"`
}

func (c *checker) input() string {
	d := replayDoc{CaseSeed: c.caseSeed, Law: c.law, Schema: c.schema}
	if c.im != nil {
		d.Impl = c.im.name
		d.Files = c.im.files
	}
	b, _ := json.Marshal(d)
	return string(b)
}

func (c *checker) fail(class, desc, impl string) {
	name := "?"
	if c.im != nil {
		name = c.im.name
	}
	// where the defect shows (a nested body, a child of a returned block) goes to the description; the key
	// names the law, the implementation and the defect class only
	where := ""
	key := class
	for _, p := range []string{"nested-", "child-"} {
		if strings.Contains(key, p) {
			where += " " + strings.TrimSuffix(p, "-")
			key = strings.ReplaceAll(key, p, "")
		}
	}
	c.cx.Res.Fail(lib.Failure{Kind: "oracle", Key: c.law + ":" + name + ":" + key, Desc: desc + " [schema " + c.schema + "]" + " [at:" + where + " " + class + "]", Input: c.input(), Impl: impl})
}

func (c *checker) guard(f func()) {
	defer func() {
		if r := recover(); r != nil {
			c.cx.Res.Fail(lib.Failure{Kind: "oracle", Key: "panic:" + c.law + ":" + c.im.name, Desc: fmt.Sprintf("panic: %v\n%s", r, lib.Trunc(string(debug.Stack()), 2000)), Input: c.input()})
		}
	}()
	f()
}

func view(items []cItem, grouped bool) []cItem {
	if grouped {
		return items
	}
	return flat(items)
}

// jsonSafe: the outcome of applying the schema to items written in JSON is described by the
// syntax-independent specification. In JSON the schema decides how deep the labels go and whether a
// property is an attribute or a block, so label-count mismatches and attribute/block crossings have
// JSON-specific outcomes that the property does not describe.
func jsonSafe(items []cItem, s *hcl.BodySchema) bool {
	lc := labelCounts(s)
	attrs := map[string]bool{}
	for _, a := range s.Attributes {
		attrs[a.Name] = true
	}
	for _, it := range items {
		if !it.json {
			continue
		}
		switch it.kind {
		case 0:
			if _, ok := lc[it.name]; ok {
				return false
			}
		case 1:
			if n, ok := lc[it.name]; ok && n != len(it.blk.labels) {
				return false
			}
			if attrs[it.name] {
				return false
			}
		case 2:
			if attrs[it.name] {
				return false
			}
		}
	}
	return true
}

func anyJSON(items []cItem) bool {
	for _, it := range items {
		if it.json {
			return true
		}
	}
	return false
}

func diagText(d hcl.Diagnostics) string {
	var parts []string
	for _, x := range d {
		if x.Severity == hcl.DiagError {
			parts = append(parts, x.Summary+": "+x.Detail)
		}
	}
	return strings.Join(parts, " | ")
}

func blocksByType(bs hcl.Blocks) map[string]hcl.Blocks {
	m := map[string]hcl.Blocks{}
	for _, b := range bs {
		m[b.Type] = append(m[b.Type], b)
	}
	return m
}

// compare checks returned content against the specification; recursion into child bodies uses the
// child's full schema. Returns a defect class or "".
func (c *checker) compare(content *hcl.BodyContent, ex expected, s *hcl.BodySchema, grouped bool, depth int) string {
	if content == nil {
		return "nil-content"
	}
	if len(content.Attributes) != len(ex.attrs) {
		if len(content.Attributes) < len(ex.attrs) {
			return "attribute-missing"
		}
		return "attribute-extra"
	}
	for name, want := range ex.attrs {
		a, ok := content.Attributes[name]
		if !ok || a == nil {
			return "attribute-missing"
		}
		if a.Name != name {
			return "attribute-name-field"
		}
		got, d := a.Expr.Value(c.ctx)
		if d.HasErrors() {
			return "attribute-eval-error"
		}
		if lib.DumpValue(got) != lib.DumpValue(want) {
			return "attribute-value"
		}
	}
	lc := labelCounts(s)
	got := blocksByType(content.Blocks)
	for t := range got {
		if _, ok := lc[t]; !ok {
			return "block-of-unrequested-type"
		}
	}
	for t := range lc {
		g, w := got[t], ex.blocks[t]
		if len(g) != len(w) {
			if len(g) < len(w) {
				return "block-missing"
			}
			return "block-extra"
		}
		for i := range w {
			if len(g[i].Labels) != len(w[i].labels) {
				return "block-label-count"
			}
			for j := range w[i].labels {
				if g[i].Labels[j] != w[i].labels[j] {
					// same multiset in another order?
					return "block-labels-or-order"
				}
			}
			if g[i].Body == nil {
				return "block-nil-body"
			}
			if depth < 6 {
				if cl := c.content(g[i].Body, w[i].body.items, nil, grouped, depth+1); cl != "" {
					if strings.HasPrefix(cl, "child-") {
						return cl
					}
					return "child-" + cl
				}
			}
		}
	}
	return ""
}

// content: law 1 (exhaustive processing). s == nil: the full schema of the items.
func (c *checker) content(body hcl.Body, items []cItem, s *hcl.BodySchema, grouped bool, depth int) string {
	return c.contentOpt(body, items, s, grouped, depth, false)
}

// contentOpt: with errorsAlreadyReported the presence of errors is not compared (an earlier step has
// reported a label-count mismatch; an implementation may or may not report it again later).
func (c *checker) contentOpt(body hcl.Body, items []cItem, s *hcl.BodySchema, grouped bool, depth int, errorsAlreadyReported bool) string {
	v := view(items, grouped)
	if s == nil {
		s = fullSchema(v)
	}
	if !jsonSafe(v, s) {
		c.cx.Res.Count("skip-json-schema-dependent")
		return ""
	}
	ex := specify(v, s)
	content, diags := body.Content(s)
	if diags.HasErrors() != ex.contentErr && !(errorsAlreadyReported && diags.HasErrors()) {
		if ex.contentErr {
			return "no-error-for-nonmatching"
		}
		return "error-although-all-match"
	}
	if !errorsAlreadyReported && !anyJSON(v) && !c.jsonBacked {
		// every non-matching item is reported (JSON reports per property, so it is not counted there)
		n := 0
		for _, d := range diags {
			if d.Severity == hcl.DiagError {
				n++
			}
		}
		if n < ex.nonMatch {
			return "fewer-errors-than-nonmatching-items"
		}
	}
	return c.compare(content, ex, s, grouped, depth)
}

// partial: law 2 (partial processing leaves the rest, unmodified, in the remaining body).
func (c *checker) partial(body hcl.Body, items []cItem, s *hcl.BodySchema, grouped bool) string {
	v := view(items, grouped)
	if !jsonSafe(v, s) {
		c.cx.Res.Count("skip-json-schema-dependent")
		return ""
	}
	ex := specify(v, s)
	content, remain, diags := body.PartialContent(s)
	if diags.HasErrors() != ex.partialErr {
		if ex.partialErr {
			return "no-error-for-required-or-labels"
		}
		return "error-in-partial"
	}
	if cl := c.compare(content, ex, s, grouped, 0); cl != "" {
		return cl
	}
	if remain == nil {
		return "nil-remain"
	}
	// the remaining body holds exactly the unmatched items, unmodified
	if cl := c.contentOpt(remain, ex.remain, nil, grouped, 0, ex.dropped); cl != "" {
		return "remain-" + cl
	}
	// ... and nothing of it is acceptable to an empty schema unless it is empty
	_, d2 := remain.Content(&hcl.BodySchema{})
	if d2.HasErrors() != (len(ex.remain) > 0) && !(ex.dropped && d2.HasErrors()) {
		return "remain-empty-schema"
	}
	return ""
}

// fingerprint identifies a returned block without a schema: type, labels, where it was defined and
// what JustAttributes sees in it.
func (c *checker) fingerprint(b *hcl.Block) string {
	var sb strings.Builder
	fmt.Fprintf(&sb, "%s%q@%s/%s{", b.Type, b.Labels, b.TypeRange.String(), b.DefRange.String())
	if b.Body != nil {
		attrs, _ := b.Body.JustAttributes()
		names := make([]string, 0, len(attrs))
		for n := range attrs {
			names = append(names, n)
		}
		sort.Strings(names)
		for _, n := range names {
			v, d := attrs[n].Expr.Value(c.ctx)
			if d.HasErrors() {
				sb.WriteString(n + "=!err ")
			} else {
				sb.WriteString(n + "=" + lib.DumpValue(v) + " ")
			}
		}
	}
	sb.WriteString("}")
	return sb.String()
}

func (c *checker) contentDump(attrs hcl.Attributes, blocks hcl.Blocks) string {
	var sb strings.Builder
	names := make([]string, 0, len(attrs))
	for n := range attrs {
		names = append(names, n)
	}
	sort.Strings(names)
	for _, n := range names {
		v, d := attrs[n].Expr.Value(c.ctx)
		if d.HasErrors() {
			sb.WriteString("attr " + n + " = !err\n")
		} else {
			sb.WriteString("attr " + n + " = " + lib.DumpValue(v) + "\n")
		}
	}
	bt := blocksByType(blocks)
	types := make([]string, 0, len(bt))
	for t := range bt {
		types = append(types, t)
	}
	sort.Strings(types)
	for _, t := range types {
		for _, b := range bt[t] {
			sb.WriteString("block " + c.fingerprint(b) + "\n")
		}
	}
	return sb.String()
}

func splitSchema(s *hcl.BodySchema, k int, r *lib.Rand) []*hcl.BodySchema {
	parts := make([]*hcl.BodySchema, k)
	for i := range parts {
		parts[i] = &hcl.BodySchema{}
	}
	for _, a := range s.Attributes {
		p := parts[r.Intn(k)]
		p.Attributes = append(p.Attributes, a)
	}
	for _, b := range s.Blocks {
		p := parts[r.Intn(k)]
		p.Blocks = append(p.Blocks, b)
	}
	return parts
}

// steps: law 3. PartialContent with part 1 ... Content with the last part, merged, equals one Content
// with the union schema. Needs no specification, so it also runs where JSON outcomes are schema-dependent.
func (c *checker) steps(body hcl.Body, s *hcl.BodySchema, k int) string {
	return c.stepsOver(body, s, splitSchema(s, k, c.r), false)
}

// singletonParts: every attribute name and every block type in a step of its own, in random order — so that
// some steps match nothing, or match only items that yield no content (a block with the wrong number of
// labels, a dynamic group over an empty collection), before the step that needs what they left.
func singletonParts(s *hcl.BodySchema, r *lib.Rand) []*hcl.BodySchema {
	var parts []*hcl.BodySchema
	for _, a := range s.Attributes {
		parts = append(parts, &hcl.BodySchema{Attributes: []hcl.AttributeSchema{a}})
	}
	for _, b := range s.Blocks {
		parts = append(parts, &hcl.BodySchema{Blocks: []hcl.BlockHeaderSchema{b}})
	}
	for i := len(parts) - 1; i > 0; i-- {
		j := r.Intn(i + 1)
		parts[i], parts[j] = parts[j], parts[i]
	}
	return parts
}

// slicedParts: the way a caller splits one schema without copying — every part is a window of the same
// backing arrays (so a part has spare capacity that is the next part's content).
func slicedParts(s *hcl.BodySchema, k int, r *lib.Rand) []*hcl.BodySchema {
	attrs := append([]hcl.AttributeSchema{}, s.Attributes...)
	blocks := append([]hcl.BlockHeaderSchema{}, s.Blocks...)
	cuts := func(n int) []int {
		c := []int{0}
		for i := 1; i < k; i++ {
			c = append(c, r.Intn(n+1))
		}
		c = append(c, n)
		sort.Ints(c)
		return c
	}
	ca, cb := cuts(len(attrs)), cuts(len(blocks))
	parts := make([]*hcl.BodySchema, k)
	for i := range parts {
		parts[i] = &hcl.BodySchema{Attributes: attrs[ca[i]:ca[i+1]], Blocks: blocks[cb[i]:cb[i+1]]}
	}
	return parts
}

// stepsOver: requery = between two steps the current remaining body is also asked (PartialContent with the
// next part, twice, results discarded): a body is a value, asking it must not change what it answers later.
func (c *checker) stepsOver(body hcl.Body, s *hcl.BodySchema, parts []*hcl.BodySchema, requery bool) string {
	one, oneDiags := body.Content(s)
	attrs := hcl.Attributes{}
	var blocks hcl.Blocks
	anyErr := false
	cur := body
	for i, p := range parts {
		var ct *hcl.BodyContent
		var d hcl.Diagnostics
		if requery {
			_, _, _ = cur.PartialContent(p)
			if i+1 < len(parts) {
				_, _, _ = cur.PartialContent(parts[i+1])
			}
		}
		if i < len(parts)-1 {
			var rem hcl.Body
			ct, rem, d = cur.PartialContent(p)
			if rem == nil {
				return "nil-remain"
			}
			cur = rem
		} else {
			ct, d = cur.Content(p)
		}
		if d.HasErrors() {
			anyErr = true
		}
		if ct == nil {
			return "nil-content"
		}
		for n, a := range ct.Attributes {
			if _, dup := attrs[n]; dup {
				return "attribute-returned-twice"
			}
			attrs[n] = a
		}
		blocks = append(blocks, ct.Blocks...)
	}
	if anyErr != oneDiags.HasErrors() {
		if anyErr {
			return "error-only-in-steps"
		}
		return "error-only-in-one-step"
	}
	if one == nil {
		return "nil-content"
	}
	a, b := c.contentDump(one.Attributes, one.Blocks), c.contentDump(attrs, blocks)
	if a != b {
		al, bl := strings.Split(a, "\n"), strings.Split(b, "\n")
		switch {
		case len(al) > len(bl):
			return "steps-return-less"
		case len(al) < len(bl):
			return "steps-return-more"
		}
		return "steps-return-different"
	}
	return ""
}

// deepDump renders what a body contains under the full schema of its items (recursively), from the
// implementation's answers only. ok=false: not comparable (JSON outcome schema-dependent, or errors).
func (c *checker) deepDump(body hcl.Body, items []cItem, grouped bool, depth int) (string, bool) {
	v := view(items, grouped)
	s := fullSchema(v)
	if !jsonSafe(v, s) || specify(v, s).contentErr {
		return "", false
	}
	content, diags := body.Content(s)
	if diags.HasErrors() || content == nil {
		return "!errors: " + diagText(diags), true
	}
	var sb strings.Builder
	ind := strings.Repeat("  ", depth)
	names := make([]string, 0, len(content.Attributes))
	for n := range content.Attributes {
		names = append(names, n)
	}
	sort.Strings(names)
	for _, n := range names {
		val, d := content.Attributes[n].Expr.Value(c.ctx)
		if d.HasErrors() {
			sb.WriteString(ind + n + " = !err\n")
		} else {
			sb.WriteString(ind + n + " = " + lib.DumpValue(val) + "\n")
		}
	}
	got := blocksByType(content.Blocks)
	ex := specify(v, s)
	types := make([]string, 0, len(got))
	for t := range got {
		types = append(types, t)
	}
	sort.Strings(types)
	for _, t := range types {
		for i, b := range got[t] {
			fmt.Fprintf(&sb, "%s%s %q {\n", ind, t, b.Labels)
			if i < len(ex.blocks[t]) && b.Body != nil {
				d, ok := c.deepDump(b.Body, ex.blocks[t][i].body.items, grouped, depth+1)
				if !ok {
					return "", false // not comparable below this point (in this view)
				}
				sb.WriteString(d)
			}
			sb.WriteString(ind + "}\n")
		}
	}
	return sb.String(), true
}

// justAttrs: JustAttributes returns all attributes; error exactly when there are blocks (not for JSON,
// where every property counts as an attribute).
func (c *checker) justAttrs(body hcl.Body, items []cItem, grouped bool, jsonBacked bool) string {
	v := view(items, grouped)
	if jsonBacked || anyJSON(v) {
		return ""
	}
	want := map[string]cty.Value{}
	blocks := false
	for _, it := range v {
		if it.kind == 0 {
			want[it.name] = it.val
		} else {
			blocks = true
		}
	}
	attrs, d := body.JustAttributes()
	if d.HasErrors() != blocks {
		return "diagnostics"
	}
	if len(attrs) != len(want) {
		return "attribute-count"
	}
	for n := range want {
		if _, ok := attrs[n]; !ok {
			return "attribute-missing"
		}
	}
	return ""
}

// ---------------------------------------------------------------------------
// Schemas

func randSchema(v []cItem, r *lib.Rand, allowCross bool) (*hcl.BodySchema, string) {
	full := fullSchema(v)
	for i := range full.Attributes {
		full.Attributes[i].Required = r.Chance(1, 3)
	}
	mode := []string{"exact", "subset", "superset", "labels", "cross", "mixed", "empty", "subset"}[r.Intn(8)]
	if mode == "cross" && !allowCross {
		mode = "mixed"
	}
	used := map[string]bool{}
	for _, a := range full.Attributes {
		used[a.Name] = true
	}
	for _, b := range full.Blocks {
		used[b.Type] = true
	}
	s := &hcl.BodySchema{}
	drop := func() {
		for _, a := range full.Attributes {
			if !r.Chance(1, 3) {
				s.Attributes = append(s.Attributes, a)
			}
		}
		for _, b := range full.Blocks {
			if !r.Chance(1, 3) {
				s.Blocks = append(s.Blocks, b)
			}
		}
	}
	add := func() {
		for i := 1 + r.Intn(3); i > 0; i-- {
			n := r.Pick([]string{"zz1", "zz2", "q", "opt", "a", "b", "c", "blk", "res", "svc", "mod"})
			if used[n] {
				continue
			}
			used[n] = true
			if r.Chance(1, 2) {
				s.Attributes = append(s.Attributes, hcl.AttributeSchema{Name: n, Required: r.Chance(1, 3)})
			} else {
				s.Blocks = append(s.Blocks, hcl.BlockHeaderSchema{Type: n, LabelNames: labelNames(r.Intn(3))})
			}
		}
	}
	relabel := func() {
		for i := range s.Blocks {
			if r.Chance(1, 2) {
				n := len(s.Blocks[i].LabelNames)
				m := []int{n + 1, n - 1, 0, n + 2}[r.Intn(4)]
				if m < 0 {
					m = 1
				}
				s.Blocks[i].LabelNames = labelNames(m)
			}
		}
	}
	switch mode {
	case "exact":
		s = full
	case "subset":
		drop()
	case "superset":
		s = full
		add()
	case "labels":
		s = full
		relabel()
	case "cross":
		// an attribute schema for a block type name and a block schema for an attribute name
		for _, a := range full.Attributes {
			if r.Chance(1, 3) {
				s.Blocks = append(s.Blocks, hcl.BlockHeaderSchema{Type: a.Name, LabelNames: labelNames(r.Intn(2))})
			} else {
				s.Attributes = append(s.Attributes, a)
			}
		}
		for _, b := range full.Blocks {
			if r.Chance(1, 3) {
				s.Attributes = append(s.Attributes, hcl.AttributeSchema{Name: b.Type, Required: r.Chance(1, 2)})
			} else {
				s.Blocks = append(s.Blocks, b)
			}
		}
	case "mixed":
		drop()
		add()
		if r.Chance(1, 2) {
			relabel()
		}
	case "empty":
	}
	return s, mode
}

// ---------------------------------------------------------------------------
// Laws on one body

func (c *checker) runLaws(body hcl.Body, items []cItem, grouped bool, depth int, jsonBacked bool) {
	oldBacked := c.jsonBacked
	c.jsonBacked = jsonBacked
	defer func() { c.jsonBacked = oldBacked }()
	res := c.cx.Res
	v := view(items, grouped)
	nSchemas := 4
	if depth > 0 {
		nSchemas = 2
	}
	sub := ""
	if depth > 0 {
		sub = "nested-"
	}
	for i := 0; i < nSchemas; i++ {
		s, mode := randSchema(v, c.r, true)
		c.schema = schemaString(s)
		res.Count("schema-" + mode)
		ex := specify(v, s)
		if ex.contentErr {
			res.Count("schema-expects-error")
		} else {
			res.Count("schema-expects-success")
		}
		c.law = "content"
		c.guard(func() {
			if cl := c.content(body, items, s, grouped, 0); cl != "" {
				c.fail(sub+cl, "Content does not return exactly the matching items / does not report exactly the non-matching ones", "")
			}
		})
		c.law = "partial"
		c.guard(func() {
			if cl := c.partial(body, items, s, grouped); cl != "" {
				c.fail(sub+cl, "PartialContent does not return the matching items and leave the rest, unmodified, in the remaining body", "")
			}
		})
		c.law = "steps"
		k := 2 + c.r.Intn(3)
		res.Count(fmt.Sprintf("steps-k%d", k))
		c.guard(func() {
			if cl := c.steps(body, s, k); cl != "" {
				c.fail(sub+cl, fmt.Sprintf("processing in %d steps over a disjoint split of the schema differs from one exhaustive step", k), "")
			}
		})
		if n := len(s.Attributes) + len(s.Blocks); n >= 2 && n <= 10 {
			res.Count("steps-singletons")
			c.guard(func() {
				if cl := c.stepsOver(body, s, singletonParts(s, c.r), false); cl != "" {
					c.fail(sub+cl+":one-name-per-step", "processing one schema entry per step differs from one exhaustive step", "")
				}
			})
		}
		c.guard(func() {
			if cl := c.stepsOver(body, s, slicedParts(s, 2+c.r.Intn(3), c.r), false); cl != "" {
				c.fail(sub+cl+":parts-are-windows-of-one-array", "processing in steps whose schemas are windows of one backing array differs from one exhaustive step", "")
			}
		})
		c.guard(func() {
			if cl := c.stepsOver(body, s, splitSchema(s, k, c.r), true); cl != "" {
				c.fail(sub+cl+":with-discarded-queries", "asking a remaining body (results discarded) changed what later steps return", "")
			}
		})
		res.Case(hashOf(c.im.name+"|"+c.schema+"|"+fmt.Sprint(c.caseSeed, depth, i)), len(v) > 0 && len(s.Attributes)+len(s.Blocks) > 0)
	}
	c.law = "justattributes"
	c.schema = ""
	c.guard(func() {
		if cl := c.justAttrs(body, items, grouped, jsonBacked); cl != "" {
			c.fail(sub+cl, "JustAttributes does not return exactly the attributes", "")
		}
	})
	// nested bodies: the same laws on child bodies obtained through the full schema
	if depth >= 2 {
		return
	}
	fs := fullSchema(v)
	if !jsonSafe(v, fs) {
		return
	}
	ex := specify(v, fs)
	if ex.contentErr {
		return
	}
	var content *hcl.BodyContent
	c.law = "content"
	c.guard(func() { content, _ = body.Content(fs) })
	if content == nil {
		return
	}
	got := blocksByType(content.Blocks)
	for t, ws := range ex.blocks {
		if len(got[t]) != len(ws) {
			continue // reported above
		}
		for i, w := range ws {
			if c.r.Chance(1, 2) && got[t][i].Body != nil {
				res.Count("nested-body-checked")
				c.runLaws(got[t][i].Body, w.body.items, grouped, depth+1, w.json)
			}
		}
	}
}

// ---------------------------------------------------------------------------
// One case

func countItems(items []cItem, res *lib.Result) {
	for _, it := range items {
		switch it.kind {
		case 0:
			res.Count("item-attribute")
		case 1:
			res.Count("item-block")
			countItems(it.blk.body.items, res)
		case 2:
			res.Count("item-dynamic-group")
			res.Count(fmt.Sprintf("dynamic-group-size-%d", min(len(it.grp), 4)))
			for _, b := range it.grp {
				countItems(b.body.items, res)
			}
		}
	}
}

func runCase(cx *lib.Ctx, caseSeed uint64, sample bool) {
	res := cx.Res
	r := lib.NewRand(caseSeed)
	g := newGen(r)
	a := g.body(0, nil, nil, false)
	unk := hasUnknown(a, env{})
	dyn := hasDynamic(a)
	full := expand(a, env{}, false)
	countItems(full.items, res)
	if g.irregular {
		res.Count("tree-irregular-label-counts")
	}
	if unk {
		res.Count("tree-with-unknown-for_each")
	}
	if dyn {
		res.Count("tree-with-dynamic")
	}
	c := &checker{cx: cx, r: r, ctx: evalCtx(), caseSeed: caseSeed}
	var impls []*impl
	build := func(name string, sym bool, nfiles int, syntax func(i int) bool, expandIt bool, contiguous bool) {
		im := &impl{name: name, grouped: expandIt, inOrder: nfiles == 1 || contiguous}
		c.im = im
		c.law = "build"
		var bodies []hcl.Body
		parts := []*aBody{a}
		if nfiles > 1 {
			parts = splitBody(a, nfiles, contiguous, r)
		}
		for i, p := range parts {
			b, fs, items, perr := parseFile(p, syntax(i), sym, r)
			im.files = append(im.files, fs)
			if perr != nil {
				c.schema = ""
				c.fail("generated-file-rejected", "a generated "+fs.Syntax+" file does not parse: "+perr.msg, perr.msg)
				return
			}
			bodies = append(bodies, b)
			im.items = append(im.items, items...)
		}
		var body hcl.Body
		if nfiles > 1 {
			switch {
			case r.Chance(1, 4):
				// nested merges and empty bodies are flattened away
				inner := hcl.MergeBodies(bodies[:len(bodies)-1])
				body = hcl.MergeBodies([]hcl.Body{hcl.EmptyBody(), inner, hcl.MergeBodies(nil), bodies[len(bodies)-1]})
				res.Count("merged-nested")
			case r.Chance(1, 2):
				body = hcl.MergeBodies(bodies)
			default:
				var fl []*hcl.File
				for _, b := range bodies {
					fl = append(fl, &hcl.File{Body: b})
				}
				body = hcl.MergeFiles(fl)
			}
		} else {
			body = bodies[0]
		}
		if expandIt {
			body = dynblock.Expand(body, c.ctx)
		}
		im.body = body
		impls = append(impls, im)
	}
	isNative := func(int) bool { return false }
	isJSON := func(int) bool { return true }
	mixed := func(int) bool { return r.Chance(1, 2) }
	if !unk {
		build("native", false, 1, isNative, false, true)
		build("json", false, 1, isJSON, false, true)
		build("merged", false, 2+r.Intn(3), mixed, false, r.Chance(1, 2))
	}
	build("expanded-native", true, 1, isNative, true, true)
	build("expanded-json", true, 1, isJSON, true, true)
	build("expanded-merged", true, 2+r.Intn(3), mixed, true, r.Chance(1, 2))

	// uniformity: the same configuration gives the same content whatever the implementation
	var ref *impl
	refDump := ""
	for _, im := range impls {
		if !im.inOrder {
			continue
		}
		c.im = im
		c.law = "uniformity"
		c.schema = "full"
		c.guard(func() {
			d, ok := c.deepDump(im.body, im.items, im.grouped, 0)
			if !ok {
				return
			}
			if ref == nil {
				ref, refDump = im, d
				return
			}
			res.Count("uniformity-compared")
			if d != refDump {
				c.fail("differs-from-"+ref.name, "the same abstract configuration gives different content under its full schema than in implementation "+ref.name, d+"\n---- "+ref.name+":\n"+refDump)
			}
		})
	}
	for _, im := range impls {
		c.im = im
		res.Count("impl-" + im.name)
		jb := false
		for _, f := range im.files {
			if f.Syntax == "json" {
				jb = true
			}
		}
		c.runLaws(im.body, im.items, im.grouped, 0, jb)
		if sample {
			res.Sample(map[string]interface{}{"impl": im.name, "files": im.files})
		}
	}
}

// hashOf identifies a case in the distinct-case set without keeping its text.
func hashOf(s string) string {
	h := fnv.New128a()
	h.Write([]byte(s))
	return string(h.Sum(nil))
}

func run(cx *lib.Ctx) {
	res := cx.Res
	if cx.Replay != "" {
		in := lib.ReplayInput(cx.Replay)
		var d replayDoc
		if err := json.Unmarshal([]byte(in), &d); err != nil {
			res.Notes = append(res.Notes, "replay input is not a C04 case document: "+err.Error())
			return
		}
		runCase(cx, d.CaseSeed, true)
		return
	}
	res.Rule = "random abstract configurations (attributes with literal / variable / iterator-derived values, blocks with 0..3 labels, nesting, dynamic groups over tuple/object literals and list/map/set/unknown variables incl. nested groups, custom iterators, zero elements) realised as six bodies: native, JSON (repeated keys, arrays of blocks, label grouping, bodies as arrays of objects, \"//\" comments), merged (2-4 files, mixed syntax, contiguous or scattered split), and dynblock.Expand over each of the three symbolic forms; for each body and for nested bodies (incl. remainders and generated blocks) 4 random schemas (exact, subset, superset, label-count changes, attribute/block crossings, required attributes, empty) are applied and Content, PartialContent+remain, k-step (k=2..4) vs one-step, and JustAttributes are compared with the syntax-independent specification computed from the abstract configuration; non-trivial = body and schema non-empty; distinct by implementation, schema and case"
	n := cx.Scale(1200, 20000)
	for i := 0; i < n; i++ {
		runCase(cx, cx.R.U64(), i < 1)
	}
	histgen.Run(cx, "C04")
	histgen.RunDynOptions(cx, "C04")
	corrBody(cx)
	corrMerged(cx)
}
