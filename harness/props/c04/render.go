package c04

import (
	"encoding/json"
	"fmt"
	"strings"

	"github.com/zclconf/go-cty/cty"

	"hx/lib"
)

// ---------------------------------------------------------------------------
// "Written" bodies: the syntax-independent shape of a file, either symbolic (dynamic blocks kept,
// iterator references kept) or concrete (every dynamic group written out, iterator references replaced
// by their values).

type wExpr struct {
	sym   *texpr   // symbolic expression
	list  []*wExpr // tuple of expressions (the labels argument of a dynamic block)
	ident string   // bare traversal (the iterator argument of a dynamic block)
}

type wItem struct {
	isBlock bool
	name    string // attribute name / block type
	e       *wExpr
	labels  []string
	body    *wBody
}

type wBody struct {
	items []wItem
}

func litExpr(v cty.Value) *wExpr { return &wExpr{sym: &texpr{kind: tLit, lit: v}} }

// symbolic keeps dynamic groups as "dynamic" blocks.
func symbolic(b *aBody, r *lib.Rand) *wBody {
	out := &wBody{}
	for _, it := range b.items {
		switch {
		case it.a != nil:
			out.items = append(out.items, wItem{name: it.a.name, e: &wExpr{sym: it.a.e}})
		case it.b != nil:
			out.items = append(out.items, wItem{isBlock: true, name: it.b.typ, labels: it.b.labels, body: symbolic(it.b.body, r)})
		case it.d != nil:
			d := it.d
			db := &wBody{}
			args := []wItem{{name: "for_each", e: &wExpr{sym: d.forEach}}}
			if d.iter != "" {
				args = append(args, wItem{name: "iterator", e: &wExpr{ident: d.iter}})
			}
			if len(d.labels) > 0 {
				le := &wExpr{list: []*wExpr{}}
				for _, l := range d.labels {
					le.list = append(le.list, &wExpr{sym: l})
				}
				args = append(args, wItem{name: "labels", e: le})
			}
			args = append(args, wItem{isBlock: true, name: "content", body: symbolic(d.content, r)})
			// the order of the arguments of a dynamic block is free
			for i := len(args) - 1; i > 0; i-- {
				j := r.Intn(i + 1)
				args[i], args[j] = args[j], args[i]
			}
			db.items = args
			out.items = append(out.items, wItem{isBlock: true, name: "dynamic", labels: []string{d.typ}, body: db})
		}
	}
	return out
}

// concreteFrom writes out an abstract body under an environment, keeping variable references symbolic.
func concreteFrom(b *aBody, en env) *wBody {
	out := &wBody{}
	for _, it := range b.items {
		switch {
		case it.a != nil:
			if it.a.e.kind == tVar {
				out.items = append(out.items, wItem{name: it.a.name, e: &wExpr{sym: it.a.e}})
			} else {
				out.items = append(out.items, wItem{name: it.a.name, e: litExpr(eval(it.a.e, en))})
			}
		case it.b != nil:
			out.items = append(out.items, wItem{isBlock: true, name: it.b.typ, labels: it.b.labels, body: concreteFrom(it.b.body, en)})
		case it.d != nil:
			d := it.d
			fe := eval(d.forEach, en)
			for iter := fe.ElementIterator(); iter.Next(); {
				k, v := iter.Element()
				en2 := en.with(d.iterName(), k, v)
				var labels []string
				for _, le := range d.labels {
					labels = append(labels, toStr(eval(le, en2)).AsString())
				}
				out.items = append(out.items, wItem{isBlock: true, name: d.typ, labels: labels, body: concreteFrom(d.content, en2)})
			}
		}
	}
	return out
}

// hasUnknown reports whether some dynamic group of the body iterates over an unknown collection.
func hasUnknown(b *aBody, en env) bool {
	for _, it := range b.items {
		switch {
		case it.b != nil:
			if hasUnknown(it.b.body, en) {
				return true
			}
		case it.d != nil:
			fe := eval(it.d.forEach, en)
			if !fe.IsKnown() {
				return true
			}
			for iter := fe.ElementIterator(); iter.Next(); {
				k, v := iter.Element()
				if hasUnknown(it.d.content, en.with(it.d.iterName(), k, v)) {
					return true
				}
			}
			if fe.LengthInt() == 0 {
				// content never instantiated; look at it with a placeholder binding only for static unknowns
				if hasStaticUnknown(it.d.content) {
					return true
				}
			}
		}
	}
	return false
}

func hasStaticUnknown(b *aBody) bool {
	for _, it := range b.items {
		switch {
		case it.b != nil:
			if hasStaticUnknown(it.b.body) {
				return true
			}
		case it.d != nil:
			if it.d.forEach.kind == tVar && (it.d.forEach.name == "vunk" || it.d.forEach.name == "vdyn") {
				return true
			}
			if hasStaticUnknown(it.d.content) {
				return true
			}
		}
	}
	return false
}

func hasDynamic(b *aBody) bool {
	for _, it := range b.items {
		if it.d != nil || it.b != nil && hasDynamic(it.b.body) {
			return true
		}
	}
	return false
}

// ---------------------------------------------------------------------------
// Native syntax

func numText(v cty.Value) string { return v.AsBigFloat().Text('f', -1) }

func hclValue(v cty.Value) string {
	switch {
	case v.IsNull():
		return "null"
	case v.Type() == cty.String:
		return `"` + lib.EscapeQuoted(v.AsString()) + `"`
	case v.Type() == cty.Number:
		return numText(v)
	case v.Type() == cty.Bool:
		if v.True() {
			return "true"
		}
		return "false"
	case v.Type().IsTupleType():
		var parts []string
		for it := v.ElementIterator(); it.Next(); {
			_, ev := it.Element()
			parts = append(parts, hclValue(ev))
		}
		return "[" + strings.Join(parts, ", ") + "]"
	case v.Type().IsObjectType():
		var parts []string
		for it := v.ElementIterator(); it.Next(); {
			k, ev := it.Element()
			parts = append(parts, `"`+lib.EscapeQuoted(k.AsString())+`" = `+hclValue(ev))
		}
		return "{" + strings.Join(parts, ", ") + "}"
	}
	panic("render: value not writable as a literal: " + v.GoString())
}

func hclExpr(e *wExpr) string {
	switch {
	case e.ident != "":
		return e.ident
	case e.list != nil:
		var parts []string
		for _, x := range e.list {
			parts = append(parts, hclExpr(x))
		}
		return "[" + strings.Join(parts, ", ") + "]"
	}
	t := e.sym
	switch t.kind {
	case tLit:
		return hclValue(t.lit)
	case tVar:
		return t.name
	case tIterKey:
		return t.name + ".key"
	case tIterVal:
		return t.name + ".value"
	case tIterFld:
		return t.name + ".value." + t.fld
	case tConcat:
		return `"` + lib.EscapeQuoted(t.pre) + "${" + t.name + `.key}"`
	}
	panic("render: expression kind")
}

func nativeBody(sb *strings.Builder, w *wBody, r *lib.Rand, depth int) {
	ind := strings.Repeat("  ", depth)
	for _, it := range w.items {
		if !it.isBlock {
			fmt.Fprintf(sb, "%s%s = %s\n", ind, it.name, hclExpr(it.e))
			continue
		}
		sb.WriteString(ind + it.name)
		for _, l := range it.labels {
			if lib.ValidIdent(l) && r.Chance(1, 3) {
				sb.WriteString(" " + l)
			} else {
				sb.WriteString(` "` + lib.EscapeQuoted(l) + `"`)
			}
		}
		switch {
		case len(it.body.items) == 0 && r.Chance(1, 2):
			sb.WriteString(" {}\n")
		case len(it.body.items) == 1 && !it.body.items[0].isBlock && r.Chance(1, 2):
			a := it.body.items[0]
			fmt.Fprintf(sb, " { %s = %s }\n", a.name, hclExpr(a.e))
		default:
			sb.WriteString(" {\n")
			nativeBody(sb, it.body, r, depth+1)
			sb.WriteString(ind + "}\n")
		}
		if r.Chance(1, 6) {
			sb.WriteString("\n")
		}
	}
}

func nativeText(w *wBody, r *lib.Rand) string {
	var sb strings.Builder
	nativeBody(&sb, w, r, 0)
	return sb.String()
}

// ---------------------------------------------------------------------------
// JSON syntax

// tmplEscape makes a string a template that evaluates to itself.
func tmplEscape(s string) string {
	s = strings.ReplaceAll(s, "${", "$${")
	return strings.ReplaceAll(s, "%{", "%%{")
}

func jstr(s string) string {
	b, _ := json.Marshal(s)
	return string(b)
}

func jsonValue(v cty.Value) string {
	switch {
	case v.IsNull():
		return "null"
	case v.Type() == cty.String:
		return jstr(tmplEscape(v.AsString()))
	case v.Type() == cty.Number:
		return numText(v)
	case v.Type() == cty.Bool:
		if v.True() {
			return "true"
		}
		return "false"
	case v.Type().IsTupleType():
		var parts []string
		for it := v.ElementIterator(); it.Next(); {
			_, ev := it.Element()
			parts = append(parts, jsonValue(ev))
		}
		return "[" + strings.Join(parts, ", ") + "]"
	case v.Type().IsObjectType():
		var parts []string
		for it := v.ElementIterator(); it.Next(); {
			k, ev := it.Element()
			parts = append(parts, jstr(tmplEscape(k.AsString()))+": "+jsonValue(ev))
		}
		return "{" + strings.Join(parts, ", ") + "}"
	}
	panic("render: value not writable as JSON: " + v.GoString())
}

func jsonExpr(e *wExpr) string {
	switch {
	case e.ident != "":
		return jstr(e.ident)
	case e.list != nil:
		var parts []string
		for _, x := range e.list {
			parts = append(parts, jsonExpr(x))
		}
		return "[" + strings.Join(parts, ", ") + "]"
	}
	t := e.sym
	switch t.kind {
	case tLit:
		return jsonValue(t.lit)
	case tVar:
		return jstr("${" + t.name + "}")
	case tIterKey:
		return jstr("${" + t.name + ".key}")
	case tIterVal:
		return jstr("${" + t.name + ".value}")
	case tIterFld:
		return jstr("${" + t.name + ".value." + t.fld + "}")
	case tConcat:
		return jstr(tmplEscape(t.pre) + "${" + t.name + ".key}")
	}
	panic("render: expression kind")
}

type jprop struct{ k, v string }

// jsonBlockValue nests a block body under its labels. asElement: the value is an element of a JSON array
// (of blocks, or of label objects), where an array would not be flattened again; otherwise every level
// may additionally be wrapped in a one-element array.
func jsonBlockValue(labels []string, bodyJSON string, bodyIsArrayForm bool, r *lib.Rand, asElement bool) string {
	if len(labels) == 0 {
		if asElement {
			return bodyJSON // an array-form body is fine as an element of the array of blocks
		}
		if bodyIsArrayForm || r.Chance(1, 5) {
			return "[" + bodyJSON + "]" // array of block bodies with one element
		}
		return bodyJSON
	}
	v := "{" + jstr(labels[0]) + ": " + jsonBlockValue(labels[1:], bodyJSON, bodyIsArrayForm, r, false) + "}"
	if !asElement && r.Chance(1, 6) {
		v = "[" + v + "]"
	}
	return v
}

// jsonLabelTree renders consecutive blocks of one type (equal labels up to depth) as nested label objects:
// every label level is one object whose properties are the distinct consecutive labels at that level, in order.
func jsonLabelTree(run []wItem, depth int, r *lib.Rand) string {
	if depth == len(run[0].labels) {
		var bodies []string
		for _, b := range run {
			bt, _ := jsonBodyText(b.body, r, false)
			bodies = append(bodies, bt)
		}
		if len(bodies) == 1 && r.Chance(3, 4) {
			return bodies[0]
		}
		return "[" + strings.Join(bodies, ", ") + "]"
	}
	var parts []string
	for k := 0; k < len(run); {
		m := k + 1
		for m < len(run) && run[m].labels[depth] == run[k].labels[depth] {
			m++
		}
		parts = append(parts, jstr(run[k].labels[depth])+": "+jsonLabelTree(run[k:m], depth+1, r))
		k = m
	}
	return "{" + strings.Join(parts, ", ") + "}"
}

// jsonBodyText renders a body as a JSON object, or (arrayOK) as an array of objects sharing the properties.
func jsonBodyText(w *wBody, r *lib.Rand, arrayOK bool) (string, bool) {
	var props []jprop
	items := w.items
	for i := 0; i < len(items); i++ {
		it := items[i]
		if !it.isBlock {
			props = append(props, jprop{it.name, jsonExpr(it.e)})
			continue
		}
		// the run of consecutive blocks of this type
		j := i + 1
		for j < len(items) && items[j].isBlock && items[j].name == it.name && len(items[j].labels) == len(it.labels) {
			j++
		}
		run := items[i:j]
		if len(run) > 1 && r.Chance(1, 2) {
			// group the run
			if len(it.labels) > 1 && r.Chance(1, 2) {
				// one nested object per label level: consecutive blocks with equal labels so far share the object
				props = append(props, jprop{it.name, jsonLabelTree(run, 0, r)})
				i = j - 1
				continue
			}
			if len(it.labels) > 0 && r.Chance(1, 2) {
				// group by equal first label: {"l1": [rest...]} for consecutive equal first labels
				var parts []string
				k := 0
				for k < len(run) {
					m := k + 1
					for m < len(run) && run[m].labels[0] == run[k].labels[0] {
						m++
					}
					var inner []string
					for _, b := range run[k:m] {
						bt, arr := jsonBodyText(b.body, r, true)
						inner = append(inner, jsonBlockValue(b.labels[1:], bt, arr, r, m-k > 1))
					}
					val := inner[0]
					if m-k > 1 {
						val = "[" + strings.Join(inner, ", ") + "]"
					}
					parts = append(parts, jstr(run[k].labels[0])+": "+val)
					k = m
				}
				// equal first labels that are not adjacent stay separate properties of one object
				props = append(props, jprop{it.name, "{" + strings.Join(parts, ", ") + "}"})
			} else {
				var parts []string
				for _, b := range run {
					bt, arr := jsonBodyText(b.body, r, true)
					parts = append(parts, jsonBlockValue(b.labels, bt, arr, r, true))
				}
				props = append(props, jprop{it.name, "[" + strings.Join(parts, ", ") + "]"})
			}
			i = j - 1
			continue
		}
		bt, arr := jsonBodyText(it.body, r, true)
		props = append(props, jprop{it.name, jsonBlockValue(it.labels, bt, arr, r, false)})
	}
	// "no block here": a block type of this body written once more with null or an empty array (json/spec.md:
	// a property may define zero blocks); only types that also have real blocks in this body, so that a schema
	// that does not know the type objects in both syntaxes
	if r.Chance(1, 5) {
		var types []string
		for _, it := range items {
			if it.isBlock && len(it.labels) == 0 {
				// (for a labelled type an empty label level is rejected as "Missing block label")
				types = append(types, it.name)
			}
		}
		if len(types) > 0 {
			p := r.Intn(len(props) + 1)
			empty := jprop{types[r.Intn(len(types))], r.Pick([]string{"null", "[]"})}
			props = append(props[:p], append([]jprop{empty}, props[p:]...)...)
		}
	}
	// comment properties
	for k := r.Intn(3); k > 0 && r.Chance(1, 3); k-- {
		p := r.Intn(len(props) + 1)
		props = append(props[:p], append([]jprop{{"//", jstr("a comment")}}, props[p:]...)...)
	}
	obj := func(ps []jprop) string {
		var parts []string
		for _, p := range ps {
			parts = append(parts, jstr(p.k)+": "+p.v)
		}
		return "{" + strings.Join(parts, ", ") + "}"
	}
	if arrayOK && len(props) > 1 && r.Chance(1, 6) {
		// array of objects: the properties are spread over several objects, order kept
		var chunks []string
		for len(props) > 0 {
			n := 1 + r.Intn(len(props))
			chunks = append(chunks, obj(props[:n]))
			props = props[n:]
		}
		return "[" + strings.Join(chunks, ", ") + "]", true
	}
	return obj(props), false
}

func jsonText(w *wBody, r *lib.Rand) string {
	s, _ := jsonBodyText(w, r, true)
	return s
}
