package c04

import (
	"fmt"
	"sort"
	"strings"

	"github.com/hashicorp/hcl/v2"
	"github.com/hashicorp/hcl/v2/hclsyntax"

	"hx/lib"
)

// corrMerged ties the Lean model of merged bodies (HclModel/Body/Merged: mergedContent over native children) to
// hcl.MergeBodies: the same children and the same chain of PartialContent / Content calls go to both; per call
// the attributes returned (with the child and position they came from), the blocks returned in order (child,
// position) and the kinds of error reported are compared.
//
// Item j of child i is written with the value 100*i+j (an attribute's value, a block's "id"), which is also the
// payload the model gives it; child i is parsed under the filename c<i>.hcl, so the source range of a returned
// attribute independently says which child won.  Children are numbered after flattening: sometimes the bodies
// are merged in groups first (MergeBodies of merged bodies must flatten) and hcl.EmptyBody() is thrown in
// (a merged body without children, which must vanish).
func corrMerged(cx *lib.Ctx) {
	if !cx.HasModel() {
		return
	}
	attrNames := []string{"a", "b", "c", "blk"}
	blockTypes := []string{"blk", "svc", "a"}
	labels := []string{"l", "m"}
	n := cx.Scale(1200, 30000)
	for i := 0; i < n; i++ {
		r := cx.R.Fork()
		nch := 1 + r.Intn(4)
		var bodies []hcl.Body
		var childStrs, srcs []string
		bad := false
		for ci := 0; ci < nch; ci++ {
			var attrs []string
			type blk struct {
				ty     string
				labels []string
			}
			var blocks []blk
			if !r.Chance(1, 6) { // else: an empty child
				for _, a := range attrNames {
					if r.Chance(2, 5) {
						attrs = append(attrs, a)
					}
				}
				for k := r.Intn(4); k > 0; k-- {
					b := blk{ty: r.Pick(blockTypes)}
					for j := r.Intn(3); j > 0; j-- {
						b.labels = append(b.labels, r.Pick(labels))
					}
					blocks = append(blocks, b)
				}
			}
			var sb strings.Builder
			ai, bi := 0, 0
			for ai < len(attrs) || bi < len(blocks) {
				if bi >= len(blocks) || (ai < len(attrs) && r.Chance(1, 2)) {
					fmt.Fprintf(&sb, "%s = %d\n", attrs[ai], 100*ci+ai)
					ai++
				} else {
					sb.WriteString(blocks[bi].ty)
					for _, l := range blocks[bi].labels {
						if r.Chance(1, 2) {
							sb.WriteString(" " + l)
						} else {
							sb.WriteString(` "` + l + `"`)
						}
					}
					fmt.Fprintf(&sb, " {\n  id = %d\n}\n", 100*ci+bi)
					bi++
				}
			}
			src := sb.String()
			f, diags := hclsyntax.ParseConfig([]byte(src), fmt.Sprintf("c%d.hcl", ci), hcl.InitialPos)
			if diags.HasErrors() {
				cx.Res.Fail(lib.Failure{Kind: "corr", Key: "MERGE:unparseable", Desc: diags.Error(), Input: src})
				bad = true
				break
			}
			bodies = append(bodies, f.Body)
			srcs = append(srcs, fmt.Sprintf("# c%d.hcl\n%s", ci, src))
			var bl []string
			for _, b := range blocks {
				bl = append(bl, strings.Join(append([]string{b.ty}, b.labels...), ":"))
			}
			childStrs = append(childStrs, dash(strings.Join(attrs, ","))+"/"+dash(strings.Join(bl, ",")))
		}
		if bad {
			continue
		}

		// merge: directly, or in groups first (with empty bodies thrown in), which must give the same flat list
		var body hcl.Body
		switch r.Intn(3) {
		case 0:
			body = hcl.MergeBodies(bodies)
			cx.Res.Count("corr-merge:flat")
		default:
			var groups []hcl.Body
			for at := 0; at < len(bodies); {
				if r.Chance(1, 4) {
					groups = append(groups, hcl.EmptyBody())
				}
				k := 1 + r.Intn(len(bodies)-at)
				if k == 1 && r.Chance(1, 2) {
					groups = append(groups, bodies[at]) // an unmerged body next to merged ones
				} else {
					groups = append(groups, hcl.MergeBodies(bodies[at:at+k]))
				}
				at += k
			}
			if r.Chance(1, 4) {
				groups = append(groups, hcl.EmptyBody())
			}
			body = hcl.MergeBodies(groups)
			cx.Res.Count("corr-merge:nested")
		}
		line := "MERGE " + strings.Join(childStrs, ";")

		// the operations
		var outs []string
		nops := 1 + r.Intn(3)
		for k := 0; k < nops; k++ {
			schema := &hcl.BodySchema{}
			var as, bs []string
			for j := r.Intn(4); j > 0; j-- {
				nm := r.Pick(append(attrNames, "zz"))
				req := r.Chance(1, 3)
				schema.Attributes = append(schema.Attributes, hcl.AttributeSchema{Name: nm, Required: req})
				if req {
					nm += "!"
				}
				as = append(as, nm)
			}
			for j := r.Intn(3); j > 0; j-- {
				ty := r.Pick(append(blockTypes, "zz"))
				nl := r.Intn(3)
				var ln []string
				for q := 0; q < nl; q++ {
					ln = append(ln, fmt.Sprintf("name%d", q))
				}
				schema.Blocks = append(schema.Blocks, hcl.BlockHeaderSchema{Type: ty, LabelNames: ln})
				bs = append(bs, fmt.Sprintf("%s.%d", ty, nl))
			}
			last := k == nops-1
			kind := "P"
			if last && r.Chance(2, 3) || r.Chance(1, 8) {
				kind = "C"
			}
			line += fmt.Sprintf(" %s/%s/%s", kind, dash(strings.Join(as, ",")), dash(strings.Join(bs, ",")))
			// the schema must not be changed by the call (mergedContent builds its own relaxed copy)
			before := fmt.Sprint(*schema)
			var content *hcl.BodyContent
			var ds hcl.Diagnostics
			if kind == "P" {
				var remain hcl.Body
				content, remain, ds = body.PartialContent(schema)
				body = remain
			} else {
				content, ds = body.Content(schema)
			}
			if after := fmt.Sprint(*schema); after != before {
				cx.Res.Fail(lib.Failure{Kind: "corr", Key: "MERGE:schema-mutated", Desc: "the caller's schema was changed: " + before + " -> " + after, Input: line})
			}
			cx.Res.Count("corr-merge:op:" + kind)
			outs = append(outs, showMergedContent(cx, line, content, ds))
		}
		impl := strings.Join(outs, " | ")
		model := cx.Ask(line)
		cx.Res.CorrChecked++
		cx.Res.Count("corr-merge")
		if strings.Contains(impl, "da.") {
			cx.Res.Count("corr-merge:duplicate-reported")
		}
		if strings.Contains(impl, "mr.") {
			cx.Res.Count("corr-merge:missing-required-reported")
		}
		if strings.Contains(impl, "E=-") {
			cx.Res.Count("corr-merge:some-op-without-errors")
		}
		if model != impl {
			cx.Res.Fail(lib.Failure{Kind: "corr", Key: "MERGE", Desc: "schema processing of a merged body differs from the model\n" + strings.Join(srcs, ""), Input: line, Model: model, Impl: impl})
		}
	}
}

// showMergedContent is showContent for merged bodies: payloads are 100*child+position, "Duplicate argument" is
// a known kind, and an attribute's source filename must name the child its payload names.
func showMergedContent(cx *lib.Ctx, line string, c *hcl.BodyContent, ds hcl.Diagnostics) string {
	var as []string
	for name, a := range c.Attributes {
		v, _ := a.Expr.Value(nil)
		iv, _ := v.AsBigFloat().Int64()
		as = append(as, fmt.Sprintf("%s:%d", name, iv))
		if want := fmt.Sprintf("c%d.hcl", iv/100); a.Range.Filename != want || a.Name != name {
			cx.Res.Fail(lib.Failure{Kind: "corr", Key: "MERGE:attr-origin", Desc: fmt.Sprintf("attribute %q (value %d, name field %q) has source file %q, expected %q", name, iv, a.Name, a.Range.Filename, want), Input: line})
		}
	}
	sort.Strings(as)
	var bs []string
	for _, b := range c.Blocks {
		at, _ := b.Body.JustAttributes()
		v, _ := at["id"].Expr.Value(nil)
		iv, _ := v.AsBigFloat().Int64()
		bs = append(bs, fmt.Sprint(iv))
		if want := fmt.Sprintf("c%d.hcl", iv/100); b.DefRange.Filename != want {
			cx.Res.Fail(lib.Failure{Kind: "corr", Key: "MERGE:block-origin", Desc: fmt.Sprintf("block with id %d has source file %q, expected %q", iv, b.DefRange.Filename, want), Input: line})
		}
	}
	var es []string
	for _, d := range ds {
		q := ""
		if m := quotedRe.FindStringSubmatch(d.Detail); m != nil {
			q = m[1]
		}
		words := strings.Fields(d.Summary)
		lastWord := words[len(words)-1]
		switch {
		case d.Summary == "Missing required argument":
			es = append(es, "mr."+q)
		case d.Summary == "Duplicate argument":
			es = append(es, "da."+q)
		case strings.HasPrefix(d.Summary, "Extraneous label for "):
			es = append(es, "el."+lastWord)
		case strings.HasPrefix(d.Summary, "Missing ") && strings.Contains(d.Summary, " for "):
			es = append(es, "ml."+lastWord)
		case d.Summary == "Unsupported argument":
			es = append(es, "ua."+q)
		case d.Summary == "Unsupported block type":
			es = append(es, "ub."+q)
		default:
			es = append(es, "other:"+strings.ReplaceAll(d.Summary, " ", "_"))
		}
	}
	sort.Strings(es)
	return "A=" + dash(strings.Join(as, ",")) + ";B=" + dash(strings.Join(bs, ",")) + ";E=" + dash(strings.Join(es, ","))
}
