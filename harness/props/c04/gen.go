package c04

import (
	"github.com/zclconf/go-cty/cty"

	"hx/lib"
)

var attrNames = []string{"a", "b", "c", "d", "e", "f", "g", "h", "x-y", "for", "name_1", "in"}
var typeNames = []string{"blk", "res", "svc", "t-1", "mod", "if"}
var labelAlphabet = []string{"x", "y", "web", "a b", "q\"t", "", "${", "é", "l-1", "%{", "k1", "0"}
var iterNames = []string{"it", "each", "i-2"}

type gen struct {
	r         *lib.Rand
	irregular bool // the same block type may have different label counts in one body
	useDyn    bool
	useUnk    bool
	maxDepth  int
	budget    int
}

func newGen(r *lib.Rand) *gen {
	return &gen{r: r, irregular: r.Chance(1, 6), useDyn: r.Chance(2, 3), useUnk: r.Chance(1, 4), maxDepth: 1 + r.Intn(3), budget: 6 + r.Intn(25)}
}

func (g *gen) scalar() cty.Value {
	switch g.r.Intn(8) {
	case 0:
		return cty.NumberIntVal(int64(g.r.Intn(100)))
	case 1:
		return cty.NumberFloatVal(float64(g.r.Intn(20)) + 0.5)
	case 2:
		return cty.BoolVal(g.r.Chance(1, 2))
	case 3:
		return cty.StringVal(g.r.Pick([]string{"", "s", "hello world", "q\"t", "back\\slash", "nl\nx", "${lit}", "%{lit}", "é日本", "a$b", "100%", "$${", "tab\t"}))
	default:
		return cty.StringVal(g.r.Pick([]string{"v1", "v2", "v3", "w"}))
	}
}

func (g *gen) literal(depth int) cty.Value {
	if depth <= 0 || g.r.Chance(3, 5) {
		if g.r.Chance(1, 12) {
			return cty.NullVal(cty.DynamicPseudoType)
		}
		return g.scalar()
	}
	if g.r.Chance(1, 2) {
		n := g.r.Intn(4)
		vs := make([]cty.Value, n)
		for i := range vs {
			vs[i] = g.literal(depth - 1)
		}
		return cty.TupleVal(vs)
	}
	m := map[string]cty.Value{}
	for i := g.r.Intn(4); i > 0; i-- {
		m[g.r.Pick([]string{"k1", "k2", "k 3", "for", "x-y"})] = g.literal(depth - 1)
	}
	return cty.ObjectVal(m)
}

// iterInfo describes one iterator in scope while generating dynamic content.
type iterInfo struct {
	name    string
	objElem bool // elements are objects {n, items}
	unknown bool
}

// attrExpr makes an attribute value; scope lists the iterators usable here.
func (g *gen) attrExpr(scope []iterInfo) *texpr {
	if len(scope) > 0 && g.r.Chance(3, 5) {
		it := scope[g.r.Intn(len(scope))]
		switch g.r.Intn(4) {
		case 0:
			return &texpr{kind: tIterKey, name: it.name}
		case 1:
			return &texpr{kind: tIterVal, name: it.name}
		case 2:
			if it.objElem {
				return &texpr{kind: tIterFld, name: it.name, fld: g.r.Pick([]string{"n", "items"})}
			}
			return &texpr{kind: tIterVal, name: it.name}
		default:
			return &texpr{kind: tConcat, name: it.name, pre: g.r.Pick([]string{"", "p-", "é "})}
		}
	}
	if g.r.Chance(1, 6) {
		return &texpr{kind: tVar, name: g.r.Pick([]string{"vstr", "vnum", "vlist", "vmap", "vtup", "vobjs", "vbool", "vset"})}
	}
	return &texpr{kind: tLit, lit: g.literal(2)}
}

// forEach picks a collection expression; returns whether elements are objects and whether it is unknown.
func (g *gen) forEach(scope []iterInfo, allowUnknown bool) (*texpr, bool, bool) {
	if allowUnknown && g.useUnk && g.r.Chance(1, 3) {
		return &texpr{kind: tVar, name: g.r.Pick([]string{"vunk", "vdyn"})}, false, true
	}
	// nested: iterate over the items of an outer object element
	for _, it := range scope {
		if it.objElem && g.r.Chance(1, 2) {
			return &texpr{kind: tIterFld, name: it.name, fld: "items"}, false, it.unknown
		}
	}
	switch g.r.Intn(9) {
	case 0:
		return &texpr{kind: tVar, name: "vlist"}, false, false
	case 1:
		return &texpr{kind: tVar, name: "vmap"}, false, false
	case 2:
		return &texpr{kind: tVar, name: "vset"}, false, false
	case 3:
		return &texpr{kind: tVar, name: g.r.Pick([]string{"vempty", "vlist3", "vtup"})}, false, false
	case 4:
		return &texpr{kind: tVar, name: "vobjs"}, true, false
	case 5:
		// object literal (map-like)
		m := map[string]cty.Value{}
		for i := g.r.Intn(4); i > 0; i-- {
			m[g.r.Pick([]string{"k1", "k2", "zz", "a b", "0"})] = g.scalar()
		}
		return &texpr{kind: tLit, lit: cty.ObjectVal(m)}, false, false
	case 6:
		// tuple of objects
		n := g.r.Intn(3)
		vs := make([]cty.Value, n)
		for i := range vs {
			var items []cty.Value
			for j := g.r.Intn(3); j > 0; j-- {
				items = append(items, cty.StringVal(g.r.Pick([]string{"i1", "i2", "i3"})))
			}
			vs[i] = cty.ObjectVal(map[string]cty.Value{"n": cty.StringVal(g.r.Pick([]string{"n1", "n2"})), "items": cty.TupleVal(items)})
		}
		return &texpr{kind: tLit, lit: cty.TupleVal(vs)}, true, false
	default:
		n := g.r.Intn(4)
		vs := make([]cty.Value, n)
		for i := range vs {
			if g.r.Chance(1, 2) {
				vs[i] = cty.StringVal(g.r.Pick([]string{"e1", "e2", "e 3", ""}))
			} else {
				vs[i] = cty.NumberIntVal(int64(g.r.Intn(50)))
			}
		}
		return &texpr{kind: tLit, lit: cty.TupleVal(vs)}, false, false
	}
}

// body generates a body. types fixes the label count per block type within this body (unless irregular).
func (g *gen) body(depth int, scope []iterInfo, used map[string]bool, inUnknown bool) *aBody {
	b := &aBody{}
	if used == nil {
		used = map[string]bool{}
	}
	labCount := map[string]int{}
	n := g.r.Intn(6)
	if depth == 0 {
		n = 2 + g.r.Intn(8)
	}
	for i := 0; i < n && g.budget > 0; i++ {
		g.budget--
		switch {
		case depth < g.maxDepth && g.r.Chance(1, 2):
			typ := g.r.Pick(typeNames[:2+g.r.Intn(len(typeNames)-1)])
			nl, ok := labCount[typ]
			if !ok || g.irregular && g.r.Chance(1, 3) {
				nl = []int{0, 0, 1, 1, 2, 3, 4, 4, 5}[g.r.Intn(9)]
				if !ok {
					labCount[typ] = nl
				}
			}
			if g.useDyn && g.r.Chance(2, 5) {
				b.items = append(b.items, aItem{d: g.dyn(typ, nl, depth, scope, inUnknown)})
				continue
			}
			blk := &aBlock{typ: typ}
			for j := 0; j < nl; j++ {
				blk.labels = append(blk.labels, g.r.Pick(labelAlphabet))
			}
			blk.body = g.body(depth+1, scope, nil, inUnknown)
			b.items = append(b.items, aItem{b: blk})
			if nl >= 2 && g.r.Chance(1, 3) {
				// siblings that share all labels but the last (one nested object per label level in JSON)
				for k := 1 + g.r.Intn(2); k > 0; k-- {
					sib := &aBlock{typ: typ, labels: append(append([]string{}, blk.labels[:nl-1]...), g.r.Pick(labelAlphabet))}
					sib.body = g.body(depth+1, scope, nil, inUnknown)
					b.items = append(b.items, aItem{b: sib})
				}
			}
		default:
			name := g.r.Pick(attrNames)
			if used[name] {
				continue
			}
			used[name] = true
			b.items = append(b.items, aItem{a: &aAttr{name: name, e: g.attrExpr(scope)}})
		}
	}
	return b
}

func (g *gen) dyn(typ string, nl int, depth int, scope []iterInfo, inUnknown bool) *aDyn {
	d := &aDyn{typ: typ}
	if g.r.Chance(1, 3) {
		d.iter = g.r.Pick(iterNames)
	}
	fe, objElem, unk := g.forEach(scope, true)
	d.forEach = fe
	unk = unk || inUnknown
	me := iterInfo{name: d.iterName(), objElem: objElem, unknown: unk}
	for j := 0; j < nl; j++ {
		switch {
		case unk || g.r.Chance(1, 3):
			// labels of a block generated from an unknown collection must not depend on the iterator
			d.labels = append(d.labels, &texpr{kind: tLit, lit: cty.StringVal(g.r.Pick(labelAlphabet))})
		case objElem:
			d.labels = append(d.labels, &texpr{kind: tIterFld, name: me.name, fld: "n"})
		default:
			switch g.r.Intn(3) {
			case 0:
				d.labels = append(d.labels, &texpr{kind: tIterKey, name: me.name})
			case 1:
				d.labels = append(d.labels, &texpr{kind: tIterVal, name: me.name})
			default:
				d.labels = append(d.labels, &texpr{kind: tConcat, name: me.name, pre: g.r.Pick([]string{"", "l-"})})
			}
		}
	}
	// inner scope: the new iterator shadows an outer one of the same name
	var inner []iterInfo
	for _, s := range scope {
		if s.name != me.name {
			inner = append(inner, s)
		}
	}
	inner = append(inner, me)
	d.content = g.body(depth+1, inner, nil, unk)
	return d
}
