// Package c18: dynamic blocks expand to exactly the blocks they describe.
package c18

import (
	"fmt"
	"strings"

	"github.com/zclconf/go-cty/cty"
	"github.com/zclconf/go-cty/cty/convert"

	"hx/lib"
	"hx/props/decgen"
)

// The abstract description of a body mixing static and dynamic blocks. Every expression is a literal, a
// reference to a root variable, or a reference to an iterator in scope (<it>.key, <it>.value,
// <it>.value.<field>), so that writing the expansion out needs no surgery on expressions: the harness
// evaluates these three forms itself and emits literals.

type dexpr struct {
	lit   cty.Value // literal (when it == nil and root == "")
	root  string    // root variable reference
	it    *iter     // iterator reference
	key   bool      // <it>.key
	field string    // <it>.value.<field> ("" : <it>.value)
	index bool      // written with index syntax: <it>.value["field"]
}

type dattr struct {
	name string
	e    dexpr
}

type dblock struct {
	typ    string
	labels []string
	body   *dbody
}

type ddyn struct {
	typ    string
	it     *iter
	labels []dexpr
	body   *dbody
	custom bool // an explicit `iterator = name`
	// the specification does not know the block type (a perturbation)
	unknownType bool
}

type ditem struct {
	attr   *dattr
	static *dblock
	dyn    *ddyn
}

type dbody struct{ items []ditem }

// field is one attribute of the element objects of an iterator's collection: gen must be type-stable
// (the same type for every path) so that lists, sets and maps stay homogeneous.
type field struct {
	name string
	gen  func(path []int) cty.Value
}

// iter is one dynamic block's iterator together with the description of its for_each collection.
type iter struct {
	name     string
	kind     string // "tuple", "list", "set", "map", "object"
	src      *iter  // the iterator whose element holds this collection (nil: a root variable or a literal)
	srcField string // field name in src's elements
	rootVar  string // root variable holding the collection ("" with src == nil: written as a literal)
	prim     bool   // elements are strings (only .key / .value can be used)
	fields   []*field
	kids     []*iter // iterators whose collection lives in this one's elements
	count    func(path []int) int
	marked   bool
	unknown  int // 0 known; 1 unknown of the collection's type; 2 cty.DynamicVal
	salt     int
}

func hashPath(salt int, path []int) int {
	h := uint32(2166136261) ^ uint32(salt*7919)
	for _, p := range path {
		h = (h ^ uint32(p+1)) * 16777619
	}
	return int(h % 1000)
}

// vary derives from a base literal a value of exactly the same type, depending on s.
func vary(base cty.Value, s int) cty.Value {
	if base.IsNull() || !base.IsKnown() {
		return base
	}
	t := base.Type()
	switch {
	case t == cty.String:
		if _, err := cty.ParseNumberVal(base.AsString()); err == nil || base.AsString() == "true" || base.AsString() == "false" {
			return base // may stand for a number or a bool: keep it convertible
		}
		return cty.StringVal(fmt.Sprintf("%s~%d", base.AsString(), s))
	case t == cty.Number:
		bf := base.AsBigFloat()
		if bf.IsInt() {
			return base.Add(cty.NumberIntVal(int64(s)))
		}
		return base
	case t == cty.Bool:
		return cty.BoolVal(s%2 == 0)
	case t.IsTupleType():
		var vs []cty.Value
		for it := base.ElementIterator(); it.Next(); {
			_, ev := it.Element()
			vs = append(vs, vary(ev, s))
		}
		return cty.TupleVal(vs)
	case t.IsObjectType():
		m := map[string]cty.Value{}
		for it := base.ElementIterator(); it.Next(); {
			kv, ev := it.Element()
			m[kv.AsString()] = vary(ev, s)
		}
		return cty.ObjectVal(m)
	}
	return base
}

// element builds element i (path ends with i) of the iterator's collection.
func (it *iter) element(path []int) cty.Value {
	if it.prim {
		return cty.StringVal(fmt.Sprintf("e%d_%d", it.salt, hashPath(it.salt, path)*10+path[len(path)-1]))
	}
	m := map[string]cty.Value{}
	for _, f := range it.fields {
		m[f.name] = f.gen(path)
	}
	for _, k := range it.kids {
		m[k.srcField] = k.materialize(path)
	}
	return cty.ObjectVal(m)
}

func (it *iter) keyName(i int) string { return fmt.Sprintf("mk%d_%d", it.salt%7, i) }

// materialize builds the collection for the given path of source-chain indices.
func (it *iter) materialize(path []int) cty.Value {
	n := it.count(path)
	elems := make([]cty.Value, n)
	for i := 0; i < n; i++ {
		elems[i] = it.element(append(append([]int{}, path...), i))
	}
	var v cty.Value
	switch it.kind {
	case "tuple":
		v = cty.TupleVal(elems)
	case "object":
		m := map[string]cty.Value{}
		for i, e := range elems {
			m[it.keyName(i)] = e
		}
		v = cty.ObjectVal(m)
	case "list", "set", "map":
		var ety cty.Type
		if n == 0 {
			ety = it.element(append(append([]int{}, path...), 0)).Type()
		}
		switch it.kind {
		case "list":
			if n == 0 {
				v = cty.ListValEmpty(ety)
			} else {
				v = cty.ListVal(elems)
			}
		case "set":
			if n == 0 {
				v = cty.SetValEmpty(ety)
			} else {
				v = cty.SetVal(elems)
			}
		default:
			if n == 0 {
				v = cty.MapValEmpty(ety)
			} else {
				m := map[string]cty.Value{}
				for i, e := range elems {
					m[it.keyName(i)] = e
				}
				v = cty.MapVal(m)
			}
		}
	}
	switch it.unknown {
	case 1:
		v = cty.UnknownVal(v.Type())
	case 2:
		v = cty.DynamicVal
	}
	if it.marked {
		v = v.Mark("c18-mark")
	}
	return v
}

// hetero: tuple and object collections change type with their length, so they may live only where no
// enclosing collection needs homogeneous elements.
func (it *iter) heteroOK() bool {
	for s := it.src; s != nil; s = s.src {
		if s.kind != "tuple" && s.kind != "object" {
			return false
		}
	}
	return true
}

// ---------------------------------------------------------------------------------------------
// Rendering the dynamic configuration.

func (e dexpr) text() string {
	switch {
	case e.it != nil:
		switch {
		case e.key:
			return e.it.name + ".key"
		case e.field == "":
			return e.it.name + ".value"
		case e.index:
			return e.it.name + ".value[" + decgen.Quote(e.field) + "]"
		}
		return e.it.name + ".value." + e.field
	case e.root != "":
		return e.root
	}
	return decgen.NativeValue(e.lit)
}

func (d *ddyn) forEachText() string {
	it := d.it
	switch {
	case it.src != nil:
		return it.src.name + ".value." + it.srcField
	case it.rootVar != "":
		return it.rootVar
	}
	v, _ := it.materialize(nil).Unmark()
	return decgen.NativeValue(v)
}

func renderDyn(sb *strings.Builder, b *dbody, ind int, r *lib.Rand) {
	pad := strings.Repeat("  ", ind)
	for _, it := range b.items {
		switch {
		case it.attr != nil:
			sb.WriteString(pad + it.attr.name + " = " + it.attr.e.text() + "\n")
		case it.static != nil:
			sb.WriteString(pad + it.static.typ)
			for _, l := range it.static.labels {
				sb.WriteString(" " + decgen.Quote(l))
			}
			sb.WriteString(" {\n")
			renderDyn(sb, it.static.body, ind+1, r)
			sb.WriteString(pad + "}\n")
		default:
			d := it.dyn
			sb.WriteString(pad + "dynamic " + decgen.Quote(d.typ) + " {\n")
			lines := []string{"for_each = " + d.forEachText()}
			if d.custom {
				lines = append(lines, "iterator = "+d.it.name)
			}
			if len(d.labels) > 0 {
				var ls []string
				for _, l := range d.labels {
					ls = append(ls, l.text())
				}
				lines = append(lines, "labels = ["+strings.Join(ls, ", ")+"]")
			}
			var csb strings.Builder
			csb.WriteString("content {\n")
			renderDyn(&csb, d.body, ind+2, r)
			csb.WriteString(pad + "  }")
			lines = append(lines, csb.String())
			for i := len(lines) - 1; i > 0; i-- {
				j := r.Intn(i + 1)
				lines[i], lines[j] = lines[j], lines[i]
			}
			for _, l := range lines {
				sb.WriteString(pad + "  " + l + "\n")
			}
			sb.WriteString(pad + "}\n")
		}
	}
}

// ---------------------------------------------------------------------------------------------
// Writing the expansion out (the README's "is interpreted as if it were written as follows").

type binding struct{ key, value cty.Value }

type expander struct {
	vars       map[string]cty.Value
	sawUnknown bool
	sawMarked  bool
	sawEmpty   bool
	// a dynamic block of a type the specification does not know iterates over an empty collection: written
	// out it is nothing at all, while the dynamic block itself is reported as an unsupported block type
	sawEmptyUnknownType bool
	nblocks    int
}

func (x *expander) eval(e dexpr, env map[*iter]binding) cty.Value {
	switch {
	case e.it != nil:
		b := env[e.it]
		if e.key {
			return b.key
		}
		if e.field == "" {
			return b.value
		}
		v, _ := b.value.Unmark()
		return v.GetAttr(e.field)
	case e.root != "":
		return x.vars[e.root]
	}
	return e.lit
}

// collection finds the for_each value of a dynamic block in the current environment.
func (x *expander) collection(d *ddyn, env map[*iter]binding) cty.Value {
	it := d.it
	if it.src != nil {
		v, _ := env[it.src].value.Unmark()
		return v.GetAttr(it.srcField)
	}
	if it.rootVar != "" {
		return x.vars[it.rootVar]
	}
	return it.materialize(nil)
}

// expand writes a body out: one block per element of each for_each collection, in iteration order, with
// the iterator's key and value substituted, at every depth, static blocks and attributes in place.
func (x *expander) expand(b *dbody, env map[*iter]binding) *decgen.Body {
	out := &decgen.Body{}
	for _, item := range b.items {
		switch {
		case item.attr != nil:
			if item.attr.e.root != "" {
				out.Items = append(out.Items, decgen.Item{Attr: &decgen.Attr{Name: item.attr.name, Val: x.vars[item.attr.e.root], Ref: item.attr.e.root}})
				continue
			}
			v, _ := x.eval(item.attr.e, env).UnmarkDeep()
			out.AddAttr(item.attr.name, v)
		case item.static != nil:
			x.nblocks++
			out.AddBlock(&decgen.Block{Type: item.static.typ, Labels: item.static.labels, Body: x.expand(item.static.body, env)})
		default:
			d := item.dyn
			coll, marks := x.collection(d, env).Unmark()
			if len(marks) > 0 {
				x.sawMarked = true
			}
			if !coll.IsKnown() {
				x.sawUnknown = true
				continue
			}
			if coll.LengthInt() == 0 {
				x.sawEmpty = true
				if d.unknownType {
					x.sawEmptyUnknownType = true
				}
			}
			// iteration order: positions for tuples and lists, sorted keys for maps and objects, cty's set
			// order for sets
			for ei := coll.ElementIterator(); ei.Next(); {
				k, v := ei.Element()
				env2 := map[*iter]binding{}
				for a, b := range env {
					env2[a] = b
				}
				env2[d.it] = binding{k, v}
				var labels []string
				for _, le := range d.labels {
					lv, _ := x.eval(le, env2).Unmark()
					sv, err := convert.Convert(lv, cty.String)
					if err != nil || sv.IsNull() || !sv.IsKnown() {
						labels = append(labels, "?")
						continue
					}
					labels = append(labels, sv.AsString())
				}
				x.nblocks++
				out.AddBlock(&decgen.Block{Type: d.typ, Labels: labels, Body: x.expand(d.body, env2)})
			}
		}
	}
	return out
}
