package c18

import (
	"fmt"
	"regexp"
	"sort"
	"strings"

	"github.com/hashicorp/hcl/v2"
	"github.com/hashicorp/hcl/v2/ext/dynblock"
	"github.com/hashicorp/hcl/v2/hcldec"
	"github.com/hashicorp/hcl/v2/hclsyntax"
	"github.com/zclconf/go-cty/cty"

	"hx/lib"
	"hx/props/c01"
)

// EXPAND correspondence: ties the Lean model of ext/dynblock (HclModel/Dyn/Expand.lean: XBody.content,
// XBody.partialContent, XAttr.value, resolveX, shapeX, expandVars, instantiated with the evaluator model) to
// the real code. The same scope, schema tree, source body and operation script go to both sides:
//
//	EXPAND <env> <stree> <body> <op>...
//	  <env>    ((name value) ...)                      c01.EnvSexp; one context for Expand and for evaluation
//	  <stree>  (st ((name 0|1) ...) ((type nlabels <stree>) ...))
//	  <body>   (body ((name <expr>) ...) (<block> ...))
//	  <block>  (static type (label ...) <body>) | (dyn type <for_each> nil|iterator nil|(<label expr> ...) <body>)
//	  <op>     (resolve) | (at i) | (partial <sch>) | (content <sch>)   <sch> = (sch ((name 0|1) ...) ((type nlabels) ...))
//
// (names in hex, expressions as c01.ExprSexp). Answer: one section per op joined by " | ", then V=<expand variables>:
//
//	R=<level>      <level> = ((A (name ok <value>)|(name err) ...) (E <error kind> ...) (B (blk type (label ...) m|- u|- <level>) ...))
//	AT=<type>|none
//	P=<level> C=<level>   (blocks without the nested level)
//	V=name ...|-
//
// The body and the expressions sent to the model are extracted from the syntax tree of the parsed source text.

type xTree struct {
	attrs  []hcl.AttributeSchema
	blocks []xTreeBlock
}

type xTreeBlock struct {
	typ     string
	nlabels int
	sub     *xTree
}

func xLabelNames(n int) []string {
	var ln []string
	for q := 0; q < n; q++ {
		ln = append(ln, fmt.Sprintf("name%d", q))
	}
	return ln
}

func (t *xTree) schema() *hcl.BodySchema {
	s := &hcl.BodySchema{Attributes: t.attrs}
	for _, b := range t.blocks {
		s.Blocks = append(s.Blocks, hcl.BlockHeaderSchema{Type: b.typ, LabelNames: xLabelNames(b.nlabels)})
	}
	return s
}

func (t *xTree) child(typ string) *xTree {
	for _, b := range t.blocks {
		if b.typ == typ {
			return b.sub
		}
	}
	return nil
}

func xBit(b bool) string {
	if b {
		return "1"
	}
	return "0"
}

func xAttrsSexp(as []hcl.AttributeSchema) string {
	var parts []string
	for _, a := range as {
		parts = append(parts, "("+lib.Hex(a.Name)+" "+xBit(a.Required)+")")
	}
	return "(" + strings.Join(parts, " ") + ")"
}

func (t *xTree) sexp() string {
	var bs []string
	for _, b := range t.blocks {
		bs = append(bs, fmt.Sprintf("(%s %d %s)", lib.Hex(b.typ), b.nlabels, b.sub.sexp()))
	}
	return "(st " + xAttrsSexp(t.attrs) + " (" + strings.Join(bs, " ") + "))"
}

func xSchemaSexp(s *hcl.BodySchema) string {
	var bs []string
	for _, b := range s.Blocks {
		bs = append(bs, fmt.Sprintf("(%s %d)", lib.Hex(b.Type), len(b.LabelNames)))
	}
	return "(sch " + xAttrsSexp(s.Attributes) + " (" + strings.Join(bs, " ") + "))"
}

var (
	xAttrNames  = []string{"a", "b", "c", "d"}
	xBlockTypes = []string{"blk", "svc", "x", "nest"}
)

// xIter is an iterator in scope while generating: its name and what its elements look like.
type xIter struct {
	name string
	elem string // "str": strings; "obj": objects {name, items, tags}; "any": unknown; "none": never iterated
}

type xGen struct {
	r     *lib.Rand
	count func(string)
	seq   int
}

func (g *xGen) tree(depth int) *xTree {
	r := g.r
	t := &xTree{}
	for _, a := range xAttrNames {
		if r.Chance(1, 2) {
			t.attrs = append(t.attrs, hcl.AttributeSchema{Name: a, Required: r.Chance(1, 6)})
		}
	}
	if depth > 0 {
		for _, ty := range xBlockTypes {
			if r.Chance(3, 5) {
				t.blocks = append(t.blocks, xTreeBlock{typ: ty, nlabels: []int{0, 0, 1, 1, 2}[r.Intn(5)], sub: g.tree(depth - 1)})
			}
		}
	}
	return t
}

// xScope builds the variables of a case.
func xScope(r *lib.Rand) map[string]cty.Value {
	elem := func(i int) cty.Value {
		var items []cty.Value
		for k := 0; k < (i+r.Intn(2))%3; k++ {
			items = append(items, cty.StringVal(fmt.Sprintf("i%d%d", i, k)))
		}
		iv := cty.ListValEmpty(cty.String)
		if len(items) > 0 {
			iv = cty.ListVal(items)
		}
		return cty.ObjectVal(map[string]cty.Value{
			"name":  cty.StringVal(fmt.Sprintf("e%d", i)),
			"items": iv,
			"tags":  cty.MapVal(map[string]cty.Value{"tk": cty.StringVal(fmt.Sprintf("tv%d", i))}),
		})
	}
	var es []cty.Value
	for i := 0; i < 1+r.Intn(3); i++ {
		es = append(es, elem(i))
	}
	objs := cty.ListVal(es)
	if r.Chance(1, 2) {
		objs = cty.TupleVal(es)
	}
	var ss []cty.Value
	for i := 0; i < 1+r.Intn(3); i++ {
		ss = append(ss, cty.StringVal(string(rune('a'+i))))
	}
	lst := cty.ListVal(ss)
	vars := map[string]cty.Value{
		"s":        cty.StringVal("sv"),
		"n":        cty.NumberIntVal(7),
		"t":        cty.BoolVal(r.Chance(1, 2)),
		"lst":      lst,
		"tup":      cty.TupleVal([]cty.Value{cty.StringVal("x"), cty.NumberIntVal(1), cty.True}),
		"mp":       cty.MapVal(map[string]cty.Value{"k1": cty.StringVal("v1"), "k2": cty.StringVal("v2")}),
		"obj":      cty.ObjectVal(map[string]cty.Value{"p": cty.StringVal("x"), "q": cty.StringVal("y")}),
		"objs":     objs,
		"omap":     cty.MapVal(map[string]cty.Value{"m1": elem(1), "m2": elem(2)}),
		"empty":    cty.ListValEmpty(cty.String),
		"emptyobj": cty.EmptyObjectVal,
		"nul":      cty.NullVal(cty.DynamicPseudoType),
		"nullst":   cty.NullVal(cty.List(cty.String)),
		"unkl":     cty.UnknownVal(cty.List(cty.String)),
		"unkm":     cty.UnknownVal(cty.Map(cty.String)),
		"unkd":     cty.DynamicVal,
		"unkobjs":  cty.UnknownVal(objs.Type()),
		"mlst":     lst.Mark("m"),
		"melems":   cty.ListVal([]cty.Value{cty.StringVal("p").Mark("m"), cty.StringVal("q")}),
		"mobjs":    objs.Mark("m"),
		"munk":     cty.UnknownVal(cty.List(cty.String)).Mark("m"),
		"partunk":  cty.TupleVal([]cty.Value{cty.StringVal("a"), cty.UnknownVal(cty.String)}),
		"mstr":     cty.StringVal("sec").Mark("m"),
		"ustr":     cty.UnknownVal(cty.String),
		"nulstr":   cty.NullVal(cty.String),
		"mnullst":  cty.NullVal(cty.List(cty.String)).Mark("m"),
		"munkd":    cty.DynamicVal.Mark("m"),
		"mnum":     cty.NumberIntVal(5).Mark("m"),
		"munkstr":  cty.UnknownVal(cty.String).Mark("m"),
		"mnulstr":  cty.NullVal(cty.String).Mark("m"),
		// scope variables named like block types: the default iterator of a dynamic block shadows them
		"blk": cty.StringVal("scope-blk"),
		"svc": cty.ObjectVal(map[string]cty.Value{"key": cty.StringVal("scope-key"), "value": cty.StringVal("scope-value")}),
	}
	return vars
}

func (g *xGen) pickIter(scope []xIter) (xIter, bool, bool) {
	if len(scope) == 0 {
		return xIter{}, false, false
	}
	if len(scope) == 1 || g.r.Chance(3, 5) {
		return scope[len(scope)-1], true, true
	}
	return scope[g.r.Intn(len(scope)-1)], false, true
}

// iterRef is one reference into an iterator, mostly valid for what its elements look like.
func (g *xGen) iterRef(it xIter) string {
	r := g.r
	if r.Chance(1, 14) {
		return it.name + r.Pick([]string{".value.nosuch", ".bogus"})
	}
	switch it.elem {
	case "obj":
		return it.name + r.Pick([]string{".key", ".value.name", ".value.name", ".value.items[0]", ".value.tags.tk", ".value.tags", ".value.items"})
	case "str":
		return it.name + r.Pick([]string{".key", ".value", ".value"})
	default:
		return it.name + r.Pick([]string{".key", ".value", ".value.name", ".value.items", ""})
	}
}

func (g *xGen) scopeRef() string {
	return g.r.Pick([]string{"s", "s", "n", "t", "mstr", "ustr", "nulstr", "blk", "lst[0]", `mp["k1"]`, "obj.p", "mlst[0]", "melems[0]",
		"melems[1]", "lst", "objs[0].name", "svc.key", "unkd", "partunk[1]", "nosuch"})
}

func (g *xGen) lit() string {
	return g.r.Pick([]string{`"lit"`, `"x"`, "12", "true", "null", `""`})
}

// atom is a leaf; the bool says whether it refers to an iterator.
func (g *xGen) atom(scope []xIter) string {
	r := g.r
	if it, own, ok := g.pickIter(scope); ok && r.Chance(3, 5) {
		if own {
			g.count("expand-gen:ref:own-iterator")
		} else {
			g.count("expand-gen:ref:outer-iterator")
		}
		return g.iterRef(it)
	}
	if r.Chance(1, 2) {
		return g.scopeRef()
	}
	return g.lit()
}

func (g *xGen) attrExpr(scope []xIter) string {
	r := g.r
	a := g.atom(scope)
	switch r.Intn(14) {
	case 0:
		return fmt.Sprintf(`"p-${%s}"`, a)
	case 1:
		return fmt.Sprintf(`"${%s}/${%s}"`, a, g.atom(scope))
	case 2:
		return fmt.Sprintf("[%s, %s]", a, g.atom(scope))
	case 3:
		return fmt.Sprintf("{ k = %s }", a)
	case 4:
		return fmt.Sprintf("%s == %s", a, g.atom(scope))
	case 5:
		return fmt.Sprintf("n + %s", a)
	case 6:
		return fmt.Sprintf("t ? %s : %s", a, g.atom(scope))
	case 7:
		return fmt.Sprintf(`[for v in lst : "${v}-${%s}"]`, a)
	case 8:
		return fmt.Sprintf("cat(%s, %s)", a, g.atom(scope))
	}
	return a
}

// labelExpr has at most one reference, so that a failing evaluation reports exactly one diagnostic.
func (g *xGen) labelExpr(own xIter, scope []xIter) string {
	r := g.r
	switch r.Intn(20) {
	case 0, 1, 2, 3, 4:
		g.count("expand-gen:label:literal")
		return fmt.Sprintf(`"l%d"`, r.Intn(3))
	case 5, 6, 7, 8, 9, 10:
		g.count("expand-gen:label:own-iterator")
		ref := g.iterRef(own)
		if r.Chance(1, 3) {
			return fmt.Sprintf(`"p-${%s}"`, ref)
		}
		return ref
	case 11, 12, 13:
		if it, own, ok := g.pickIter(scope); ok && !own {
			g.count("expand-gen:label:outer-iterator")
			return g.iterRef(it)
		}
		g.count("expand-gen:label:own-iterator")
		return own.name + ".key"
	case 14:
		g.count("expand-gen:label:non-string")
		return r.Pick([]string{"n", "t", "12", `["x"]`, "lst", "{}"})
	case 15:
		g.count("expand-gen:label:null")
		return r.Pick([]string{"null", "nulstr", "nul", "mnulstr"})
	case 16:
		g.count("expand-gen:label:unknown")
		return r.Pick([]string{"ustr", "unkd", "partunk[1]", "munkstr"})
	case 17:
		g.count("expand-gen:label:marked")
		return r.Pick([]string{"mstr", "melems[0]", "mlst[0]", `"p-${mstr}"`, "mnum"})
	case 18:
		g.count("expand-gen:label:eval-error")
		return r.Pick([]string{"nosuch", "lst[99]", "s.nosuch"})
	}
	g.count("expand-gen:label:scope-variable")
	return r.Pick([]string{"s", "blk", "obj.p"})
}

const xElemLit = `{ name = "%s", items = [%s], tags = { tk = "%s" } }`

// forEach picks the collection of a dynamic block: source text and what the elements look like.
func (g *xGen) forEach(scope []xIter) (string, string) {
	r := g.r
	pick := func(tag string, elem string, texts ...string) (string, string) {
		g.count("expand-gen:for_each:" + tag)
		return r.Pick(texts), elem
	}
	// from an outer iterator's value
	var holders []xIter
	for _, it := range scope {
		if it.elem == "obj" || it.elem == "any" {
			holders = append(holders, it)
		}
	}
	if len(holders) > 0 && r.Chance(1, 2) {
		h := holders[r.Intn(len(holders))]
		return pick("outer-iterator-value", "str", h.name+".value.items", h.name+".value.items", h.name+".value.tags")
	}
	switch r.Intn(24) {
	case 0, 1:
		return pick("literal-tuple", "str", `["a", "b"]`, `["a"]`, `["a", "b", "c"]`, `[s, "z"]`)
	case 2:
		return pick("literal-object", "str", `{ k1 = "v1", k2 = "v2" }`, `{ k = s }`)
	case 3, 4:
		e1 := fmt.Sprintf(xElemLit, "e1", `"i1", "i2"`, "t1")
		e2 := fmt.Sprintf(xElemLit, "e2", ``, "t2")
		e3 := fmt.Sprintf(xElemLit, "e3", `"i3"`, "t3")
		return pick("literal-tuple-of-objects", "obj", "["+e1+"]", "["+e1+", "+e2+"]", "["+e1+", "+e2+", "+e3+"]", "{ o1 = "+e1+", o2 = "+e3+" }")
	case 5:
		return pick("literal-empty", "none", "[]", "{}")
	case 6, 7:
		return pick("variable-list-or-tuple", "str", "lst", "lst", "tup")
	case 8:
		return pick("variable-map-or-object", "str", "mp", "obj")
	case 9, 10, 11:
		return pick("variable-collection-of-objects", "obj", "objs", "objs", "omap")
	case 12:
		return pick("variable-empty", "none", "empty", "emptyobj")
	case 13:
		return pick("null", "none", "nul", "nullst", "null", "mnullst")
	case 14:
		return pick("non-iterable", "none", "s", "n", "nulstr", "ustr", "mstr", `"x"`)
	case 15:
		return pick("unknown-typed", "any", "unkl", "unkm", "unkobjs")
	case 16:
		return pick("unknown-dynamic", "any", "unkd")
	case 17:
		return pick("marked-collection", "str", "mlst")
	case 18:
		return pick("marked-collection", "obj", "mobjs")
	case 19:
		return pick("marked-elements", "str", "melems")
	case 20:
		return pick("marked-unknown", "any", "munk", "munk", "munkd")
	case 21:
		return pick("eval-error", "none", "nosuch", "lst[99]", "obj.nosuch", "[nosuch]")
	case 22:
		return pick("known-with-unknown-element", "str", "partunk")
	}
	return pick("computed", "str", `[for v in lst : "${v}!"]`, `{ for k, v in mp : v => k }`, `t ? lst : mlst`, `objs[0].items`, `objs[*].name`)
}

func (g *xGen) iteratorName(typ string, scope []xIter) (string, bool) {
	r := g.r
	for _, s := range scope {
		if s.name == typ {
			g.count("expand-gen:iterator:default-shadows-outer-iterator")
		}
	}
	if !r.Chance(2, 5) {
		g.count("expand-gen:iterator:default")
		return typ, false
	}
	switch {
	case len(scope) > 0 && r.Chance(1, 3):
		g.count("expand-gen:iterator:custom-shadows-outer-iterator")
		return scope[r.Intn(len(scope))].name, true
	case r.Chance(1, 4):
		g.count("expand-gen:iterator:custom-shadows-scope-variable")
		return r.Pick([]string{"s", "lst", "n", "objs"}), true
	}
	g.count("expand-gen:iterator:custom")
	g.seq++
	return r.Pick([]string{"it", "each", fmt.Sprintf("it%d", g.seq)}), true
}

// body writes the items of one body level, guided by the schema tree (st may be nil: nothing is expected).
func (g *xGen) body(sb *strings.Builder, ind string, st *xTree, scope []xIter, depth int) {
	r := g.r
	if st == nil {
		st = &xTree{}
	}
	var items []func()
	inSchema := map[string]bool{}
	for _, a := range st.attrs {
		inSchema[a.Name] = true
	}
	for _, a := range xAttrNames {
		a := a
		if (inSchema[a] && r.Chance(4, 5)) || (!inSchema[a] && r.Chance(1, 10)) {
			if !inSchema[a] {
				g.count("expand-gen:attribute-not-in-schema")
			}
			items = append(items, func() { fmt.Fprintf(sb, "%s%s = %s\n", ind, a, g.attrExpr(scope)) })
		}
	}
	nb := 0
	if depth > 0 {
		nb = []int{0, 1, 1, 2, 2, 3}[r.Intn(6)]
		if len(st.blocks) == 0 && !r.Chance(1, 5) {
			// nothing is expected here: mostly nothing is written
			nb = 0
		}
	}
	for k := 0; k < nb; k++ {
		items = append(items, func() { g.block(sb, ind, st, scope, depth) })
	}
	// attributes and blocks interleaved
	for i := len(items) - 1; i > 0; i-- {
		j := r.Intn(i + 1)
		items[i], items[j] = items[j], items[i]
	}
	for _, f := range items {
		f()
	}
}

func (g *xGen) block(sb *strings.Builder, ind string, st *xTree, scope []xIter, depth int) {
	r := g.r
	typ := "zz"
	nlabels := r.Intn(2)
	var sub *xTree
	known := len(st.blocks) > 0 && !r.Chance(1, 9)
	if known {
		b := st.blocks[r.Intn(len(st.blocks))]
		typ, nlabels, sub = b.typ, b.nlabels, b.sub
	} else if r.Chance(1, 2) {
		typ = r.Pick(xBlockTypes)
		if st.child(typ) != nil {
			known = true
			for _, b := range st.blocks {
				if b.typ == typ {
					nlabels, sub = b.nlabels, b.sub
					break
				}
			}
		}
	}
	if !r.Chance(3, 5) {
		// static
		g.count("expand-gen:block:static")
		if len(scope) > 0 {
			g.count("expand-gen:block:static-inside-content")
		}
		if !known {
			g.count("expand-gen:block:static-of-unknown-type")
		}
		n := nlabels
		if r.Chance(1, 10) {
			n = (n + 1 + r.Intn(2)) % 3
			g.count("expand-gen:block:static-label-count-mismatch")
		}
		sb.WriteString(ind + typ)
		for q := 0; q < n; q++ {
			fmt.Fprintf(sb, ` "s%d"`, r.Intn(3))
		}
		sb.WriteString(" {\n")
		g.body(sb, ind+"  ", sub, scope, depth-1)
		sb.WriteString(ind + "}\n")
		return
	}
	g.count("expand-gen:block:dynamic")
	if len(scope) > 0 {
		g.count("expand-gen:block:dynamic-nested")
	}
	if !known {
		g.count("expand-gen:block:dynamic-of-unknown-type")
	}
	fe, elem := g.forEach(scope)
	name, custom := g.iteratorName(typ, scope)
	own := xIter{name: name, elem: elem}
	inner := append(append([]xIter{}, scope...), own)
	fmt.Fprintf(sb, "%sdynamic \"%s\" {\n", ind, typ)
	var lines []string
	lines = append(lines, fmt.Sprintf("%s  for_each = %s\n", ind, fe))
	if custom {
		lines = append(lines, fmt.Sprintf("%s  iterator = %s\n", ind, name))
	}
	// labels
	nl := -1 // no labels argument
	switch {
	case nlabels == 0 && r.Chance(1, 10):
		nl = r.Intn(2)
		g.count("expand-gen:labels:given-for-label-less-type")
	case nlabels > 0 && r.Chance(1, 10):
		g.count("expand-gen:labels:missing-for-labelled-type")
	case nlabels > 0 && r.Chance(1, 8):
		nl = (nlabels + 1 + r.Intn(2)) % 4
		if nl == nlabels {
			nl = nlabels - 1
		}
		g.count("expand-gen:labels:count-mismatch")
	case nlabels > 0:
		nl = nlabels
		g.count("expand-gen:labels:count-right")
	}
	if nl >= 0 {
		var ls []string
		for q := 0; q < nl; q++ {
			ls = append(ls, g.labelExpr(own, inner))
		}
		lines = append(lines, fmt.Sprintf("%s  labels = [%s]\n", ind, strings.Join(ls, ", ")))
	}
	var csb strings.Builder
	fmt.Fprintf(&csb, "%s  content {\n", ind)
	g.body(&csb, ind+"    ", sub, inner, depth-1)
	fmt.Fprintf(&csb, "%s  }\n", ind)
	lines = append(lines, csb.String())
	for i := len(lines) - 1; i > 0; i-- {
		j := r.Intn(i + 1)
		lines[i], lines[j] = lines[j], lines[i]
	}
	sb.WriteString(strings.Join(lines, ""))
	sb.WriteString(ind + "}\n")
}

func (g *xGen) randSchema() *hcl.BodySchema {
	r := g.r
	s := &hcl.BodySchema{}
	for j := r.Intn(4); j > 0; j-- {
		s.Attributes = append(s.Attributes, hcl.AttributeSchema{Name: r.Pick(append(xAttrNames, "zz")), Required: r.Chance(1, 4)})
	}
	for j := r.Intn(4); j > 0; j-- {
		s.Blocks = append(s.Blocks, hcl.BlockHeaderSchema{Type: r.Pick(append(xBlockTypes, "zz")), LabelNames: xLabelNames([]int{0, 0, 1, 1, 2}[r.Intn(5)])})
	}
	return s
}

// ---- extraction of the model's input from the syntax tree

type xRange struct {
	rng  hcl.Range
	kind string
}

type xCase struct {
	src    []byte
	ranges []xRange
	bad    string // why the body is outside what the model can express
	depth  int    // nesting depth of the level being printed (distribution only)
}

func (c *xCase) exprSexp(e hcl.Expression) string {
	se, ok := e.(hclsyntax.Expression)
	if !ok {
		c.bad = "expression-not-native"
		return "nil"
	}
	s, ok := c01.ExprSexp(se)
	if !ok {
		c.bad = "expression-not-translatable"
	}
	return s
}

func (c *xCase) bodySexp(b *hclsyntax.Body) string {
	names := make([]string, 0, len(b.Attributes))
	for n := range b.Attributes {
		names = append(names, n)
	}
	sort.Strings(names)
	var as, bs []string
	for _, n := range names {
		as = append(as, "("+lib.Hex(n)+" "+c.exprSexp(b.Attributes[n].Expr)+")")
	}
	for _, blk := range b.Blocks {
		if blk.Type == "dynamic" && len(blk.Labels) == 1 {
			bs = append(bs, c.dynSexp(blk))
			continue
		}
		if blk.Type == "dynamic" {
			c.bad = "dynamic-block-without-exactly-one-label"
		}
		var ls []string
		for _, l := range blk.Labels {
			ls = append(ls, lib.Hex(l))
		}
		bs = append(bs, "(static "+lib.Hex(blk.Type)+" ("+strings.Join(ls, " ")+") "+c.bodySexp(blk.Body)+")")
	}
	return "(body (" + strings.Join(as, " ") + ") (" + strings.Join(bs, " ") + "))"
}

func (c *xCase) dynSexp(blk *hclsyntax.Block) string {
	fe, it, labels := "nil", "nil", "nil"
	for n, a := range blk.Body.Attributes {
		switch n {
		case "for_each":
			fe = c.exprSexp(a.Expr)
			c.ranges = append(c.ranges, xRange{a.Expr.Range(), "for_each-eval"})
		case "iterator":
			tr, diags := hcl.AbsTraversalForExpr(a.Expr)
			if diags.HasErrors() || len(tr) != 1 {
				c.bad = "iterator-not-a-single-name"
			} else {
				it = lib.Hex(tr.RootName())
			}
		case "labels":
			es, diags := hcl.ExprList(a.Expr)
			if diags.HasErrors() {
				c.bad = "labels-not-a-list"
				break
			}
			var ls []string
			for _, e := range es {
				ls = append(ls, c.exprSexp(e))
			}
			labels = "(" + strings.Join(ls, " ") + ")"
			c.ranges = append(c.ranges, xRange{a.Expr.Range(), "label-eval"})
		default:
			c.bad = "dynamic-block-with-other-argument"
		}
	}
	if fe == "nil" {
		c.bad = "dynamic-block-without-for_each"
	}
	if len(blk.Body.Blocks) != 1 || blk.Body.Blocks[0].Type != "content" || len(blk.Body.Blocks[0].Labels) != 0 {
		c.bad = "dynamic-block-without-exactly-one-content-block"
		return "nil"
	}
	return "(dyn " + lib.Hex(blk.Labels[0]) + " " + fe + " " + it + " " + labels + " " + c.bodySexp(blk.Body.Blocks[0].Body) + ")"
}

var xQuoted = regexp.MustCompile(`"([^"]*)"`)

// errKind maps a diagnostic of the real code to the model's error kind (Dyn.errKind, decodeSpec, evalLabels,
// expandBlocks).
func (c *xCase) errKind(d *hcl.Diagnostic) string {
	q := ""
	if m := xQuoted.FindStringSubmatch(d.Detail); m != nil {
		q = m[1]
	}
	words := strings.Fields(d.Summary)
	lastWord := ""
	if len(words) > 0 {
		lastWord = words[len(words)-1]
	}
	switch {
	case d.Summary == "Missing required argument":
		if q == "labels" {
			return "missing-argument-labels"
		}
		return "missing-required:" + q
	case d.Summary == "Unsupported argument":
		if q == "labels" {
			return "unsupported-argument-labels"
		}
		return "unsupported-argument:" + q
	case d.Summary == "Unsupported block type":
		// the dynamic block's own complaint points at the quoted label of the `dynamic` block, the native
		// body's at the block type keyword
		if d.Subject != nil && d.Subject.Start.Byte < len(c.src) && c.src[d.Subject.Start.Byte] == '"' {
			return "unsupported-block-type"
		}
		return "unsupported-block:" + q
	case strings.HasPrefix(d.Summary, "Extraneous label for "):
		return "extraneous-label:" + lastWord
	case strings.HasPrefix(d.Summary, "Missing ") && strings.Contains(d.Summary, " for "):
		return "missing-label:" + lastWord
	case d.Summary == "Invalid dynamic for_each value":
		if strings.Contains(d.Detail, "null value") {
			return "for_each-null"
		}
		return "for_each-not-iterable"
	case d.Summary == "Extraneous dynamic block label":
		return "labels-extraneous"
	case d.Summary == "Insufficient dynamic block labels":
		return "labels-insufficient"
	case d.Summary == "Invalid dynamic block label":
		switch {
		case strings.Contains(d.Detail, "Cannot use this value as a dynamic block label"):
			return "label-conversion"
		case strings.Contains(d.Detail, "null value"):
			return "label-null"
		case strings.Contains(d.Detail, "not yet known"):
			return "label-unknown"
		case strings.Contains(d.Detail, "dynamic marks"):
			return "label-marked"
		}
	}
	if d.Subject != nil {
		for _, rg := range c.ranges {
			if d.Subject.Start.Byte >= rg.rng.Start.Byte && d.Subject.End.Byte <= rg.rng.End.Byte {
				return rg.kind
			}
		}
	}
	return "other:" + strings.ReplaceAll(d.Summary, " ", "_")
}

func xPar(items ...string) string { return "(" + strings.Join(items, " ") + ")" }

func xFlag(b bool, s string) string {
	if b {
		return s
	}
	return "-"
}

// level prints what one Content / PartialContent call returned; sub (may be nil) prints below a block.
func (c *xCase) level(cx *lib.Ctx, content *hcl.BodyContent, diags hcl.Diagnostics, ctx *hcl.EvalContext, sub func(*hcl.Block) (string, bool)) string {
	names := make([]string, 0, len(content.Attributes))
	for n := range content.Attributes {
		names = append(names, n)
	}
	sort.Strings(names)
	as := []string{"A"}
	for _, n := range names {
		v, ds := content.Attributes[n].Expr.Value(ctx)
		if ds.HasErrors() {
			as = append(as, xPar(lib.Hex(n), "err"))
			cx.Res.Count("expand-out:attribute-evaluation-error")
		} else {
			as = append(as, xPar(lib.Hex(n), "ok", lib.DumpValuePlain(v)))
			cx.Res.Count("expand-out:attribute-evaluated")
			if v.IsMarked() {
				cx.Res.Count("expand-out:attribute-value-marked")
			}
			if !v.IsKnown() {
				cx.Res.Count("expand-out:attribute-value-unknown")
			}
		}
	}
	es := []string{}
	for _, d := range diags {
		if d.Severity != hcl.DiagError {
			es = append(es, "warning:"+strings.ReplaceAll(d.Summary, " ", "_"))
			continue
		}
		k := c.errKind(d)
		es = append(es, k)
		cx.Res.Count("expand-out:error:" + strings.SplitN(k, ":", 2)[0])
	}
	sort.Strings(es)
	bs := []string{"B"}
	for _, blk := range content.Blocks {
		s := ""
		if sub != nil {
			var ok bool
			if s, ok = sub(blk); !ok {
				continue
			}
		}
		marked, unknown := false, false
		if mb, ok := blk.Body.(hcldec.MarkedBody); ok {
			marked = len(mb.BodyValueMarks()) > 0
		}
		if ub, ok := blk.Body.(hcldec.UnknownBody); ok {
			unknown = ub.Unknown()
		}
		var ls []string
		for _, l := range blk.Labels {
			ls = append(ls, lib.Hex(l))
		}
		parts := []string{"blk", lib.Hex(blk.Type), xPar(ls...), xFlag(marked, "m"), xFlag(unknown, "u")}
		if s != "" {
			parts = append(parts, s)
		}
		bs = append(bs, xPar(parts...))
		cx.Res.Count("expand-out:block")
		if sub != nil {
			cx.Res.Count(fmt.Sprintf("expand-out:block-at-depth:%d", c.depth+1))
		}
		if marked {
			cx.Res.Count("expand-out:block-with-marked-body")
		}
		if unknown {
			cx.Res.Count("expand-out:block-with-unknown-body")
		}
	}
	return xPar(xPar(as...), xPar(append([]string{"E"}, es...)...), xPar(bs...))
}

func (c *xCase) resolve(cx *lib.Ctx, body hcl.Body, st *xTree, ctx *hcl.EvalContext, depth int) string {
	if depth > 60 {
		return "(fuel)"
	}
	content, diags := body.Content(st.schema())
	c.depth = depth
	return c.level(cx, content, diags, ctx, func(blk *hcl.Block) (string, bool) {
		cst := st.child(blk.Type)
		if cst == nil {
			return "", false
		}
		s := c.resolve(cx, blk.Body, cst, ctx, depth+1)
		c.depth = depth
		return s, true
	})
}

func xWalkVars(node dynblock.WalkVariablesNode, st *xTree, out map[string]bool) {
	vars, children := node.Visit(st.schema())
	for _, tr := range vars {
		out[tr.RootName()] = true
	}
	for _, ch := range children {
		if cst := st.child(ch.BlockTypeName); cst != nil {
			xWalkVars(ch.Node, cst, out)
		}
	}
}

var xUnsupportedRe = regexp.MustCompile(`UNSUPPORTED[A-Za-z_:,\-]*`)

func corrExpand(cx *lib.Ctx) {
	if !cx.HasModel() {
		return
	}
	R := cx.R.Fork()
	n := cx.Scale(6000, 100000)
	t0 := cx.Elapsed()
	for i := 0; i < n; i++ {
		corrExpandOne(cx, R.Fork())
	}
	cx.Res.Notes = append(cx.Res.Notes, fmt.Sprintf("EXPAND correspondence: %d generated cases in %.1fs", n, (cx.Elapsed()-t0).Seconds()))
}

func corrExpandOne(cx *lib.Ctx, r *lib.Rand) {
	res := cx.Res
	g := &xGen{r: r, count: res.Count}
	st := g.tree(1 + r.Intn(3))
	vars := xScope(r)
	var sb strings.Builder
	g.body(&sb, "", st, nil, 3)
	src := sb.String()
	f, diags := hclsyntax.ParseConfig([]byte(src), "expand.hcl", hcl.InitialPos)
	if diags.HasErrors() {
		res.Fail(lib.Failure{Kind: "corr", Key: "EXPAND:unparseable", Desc: "generated body does not parse: " + diags.Error(), Input: src})
		return
	}
	c := &xCase{src: []byte(src)}
	bodyS := c.bodySexp(f.Body.(*hclsyntax.Body))
	if c.bad != "" {
		res.Count("expand-skip:" + c.bad)
		return
	}
	ctx := &hcl.EvalContext{Variables: vars, Functions: c01.Funcs()}
	line := "EXPAND " + c01.EnvSexp(vars) + " " + st.sexp() + " " + bodyS

	var outs []string
	var failed bool
	func() {
		defer func() {
			if p := recover(); p != nil {
				failed = true
				res.Fail(lib.Failure{Kind: "oracle", Key: "panic:EXPAND:" + lib.Trunc(fmt.Sprint(p), 60), Desc: fmt.Sprintf("the real code panicked while the expanded body was consumed: %v\n%s", p, src), Input: line})
			}
		}()
		// everything, level by level
		line += " (resolve)"
		outs = append(outs, "R="+c.resolve(cx, dynblock.Expand(f.Body, ctx), st, ctx, 0))
		// a chain of PartialContent / Content calls on the root body or on a nested one
		body := dynblock.Expand(f.Body, ctx)
		cur := st
		alive := true
		if r.Chance(1, 2) {
			for k := 1 + r.Intn(2); k > 0 && alive; k-- {
				content, _ := body.Content(cur.schema())
				if len(content.Blocks) == 0 && !r.Chance(1, 6) {
					break // nothing to descend into: the chain runs here
				}
				idx := r.Intn(3)
				if len(content.Blocks) > 0 && r.Chance(4, 5) {
					idx = r.Intn(len(content.Blocks))
					// prefer the bodies that carry state: unknown ones and marked ones
					var special []int
					for bi, blk := range content.Blocks {
						ub, isU := blk.Body.(hcldec.UnknownBody)
						mb, isM := blk.Body.(hcldec.MarkedBody)
						if (isU && ub.Unknown()) || (isM && len(mb.BodyValueMarks()) > 0) {
							special = append(special, bi)
						}
					}
					if len(special) > 0 && r.Chance(2, 3) {
						idx = special[r.Intn(len(special))]
					}
				}
				line += fmt.Sprintf(" (at %d)", idx)
				if idx >= len(content.Blocks) || cur.child(content.Blocks[idx].Type) == nil {
					outs = append(outs, "AT=none")
					alive = false
					res.Count("expand-gen:chain:descent-finds-no-block")
					break
				}
				blk := content.Blocks[idx]
				outs = append(outs, "AT="+lib.Hex(blk.Type))
				body, cur = blk.Body, cur.child(blk.Type)
				res.Count("expand-gen:chain:descent")
			}
			if alive && cur != st {
				res.Count("expand-gen:chain:on-nested-body")
				if ub, ok := body.(hcldec.UnknownBody); ok && ub.Unknown() {
					res.Count("expand-gen:chain:on-unknown-body")
				}
				if mb, ok := body.(hcldec.MarkedBody); ok && len(mb.BodyValueMarks()) > 0 {
					res.Count("expand-gen:chain:on-marked-body")
				}
			}
		}
		if alive {
			nops := 1 + r.Intn(4)
			for k := 0; k < nops; k++ {
				s := g.randSchema()
				if k == nops-1 && r.Chance(2, 3) || r.Chance(1, 8) {
					line += " (content " + xSchemaSexp(s) + ")"
					content, ds := body.Content(s)
					outs = append(outs, "C="+c.level(cx, content, ds, ctx, nil))
					res.Count("expand-gen:chain:content")
				} else {
					line += " (partial " + xSchemaSexp(s) + ")"
					content, remain, ds := body.PartialContent(s)
					outs = append(outs, "P="+c.level(cx, content, ds, ctx, nil))
					body = remain
					res.Count("expand-gen:chain:partial")
				}
			}
		}
		// the variables needed for expansion
		seen := map[string]bool{}
		xWalkVars(dynblock.WalkExpandVariables(f.Body), st, seen)
		var vs []string
		for v := range seen {
			if !strings.HasPrefix(v, "%") {
				vs = append(vs, v)
			}
		}
		sort.Strings(vs)
		for i, v := range vs {
			vs[i] = lib.Hex(v)
		}
		if len(vs) == 0 {
			outs = append(outs, "V=-")
		} else {
			outs = append(outs, "V="+strings.Join(vs, " "))
		}
	}()
	if failed {
		return
	}
	impl := strings.Join(outs, " | ")
	model := cx.Ask(line)
	if strings.Contains(model, "UNSUPPORTED") {
		res.Count("expand-skip:model-" + xUnsupportedRe.FindString(model))
		return
	}
	if strings.HasPrefix(model, "unsupported-input") || model == "bad-op" || model == "unimplemented" {
		res.Fail(lib.Failure{Kind: "corr", Key: "EXPAND:bad-answer", Desc: "the model driver answered " + lib.Trunc(model, 200) + "\n" + src, Input: line})
		return
	}
	res.CorrChecked++
	res.Count("expand-compared")
	if model != impl {
		ms, is := strings.Split(model, " | "), strings.Split(impl, " | ")
		if len(ms) != len(is) {
			res.Fail(lib.Failure{Kind: "corr", Key: "EXPAND:sections", Desc: "the model answered a different number of sections\n" + src, Input: line, Model: model, Impl: impl})
			return
		}
		reported := map[string]bool{}
		for k := range is {
			sec := strings.SplitN(is[k], "=", 2)[0]
			if ms[k] != is[k] && !reported[sec] {
				reported[sec] = true
				res.Fail(lib.Failure{Kind: "corr", Key: "EXPAND:" + sec, Desc: fmt.Sprintf("dynblock.Expand consumed through Content/PartialContent/Visit differs from the model in section %d (%s: %s)\n%s", k, sec, xSections[sec], src), Input: line, Model: ms[k], Impl: is[k]})
			}
		}
	}
}

var xSections = map[string]string{
	"R":  "level-by-level Content with the schema tree",
	"AT": "descent into a nested body",
	"P":  "PartialContent in a chain",
	"C":  "Content in a chain",
	"V":  "WalkExpandVariables + Visit",
}
