package c18

import (
	"fmt"

	"github.com/hashicorp/hcl/v2"
	"github.com/hashicorp/hcl/v2/ext/dynblock"
	"github.com/hashicorp/hcl/v2/ext/typeexpr"
	"github.com/hashicorp/hcl/v2/hclsyntax"
	"github.com/hashicorp/hcl/v2/hcldec"
	"github.com/zclconf/go-cty/cty"

	"hx/lib"
)

// directedStatic: attributes of generated blocks that are read by STATIC analysis rather than by evaluation — a
// type constraint (typeexpr.TypeConstraintType, decoded from the expression's syntax), hcl.ExprList / ExprCall /
// AbsTraversalForExpr on the attribute expression. A generated block must answer these exactly like the block
// written out by hand, whether the for_each collection is plain, marked as a whole, or marked element by element.
func directedStatic(cx *lib.Ctx) {
	res := cx.Res
	spec := &hcldec.BlockListSpec{TypeName: "field", Nested: hcldec.ObjectSpec{
		"name": &hcldec.AttrSpec{Name: "name", Type: cty.String},
		"type": &hcldec.AttrSpec{Name: "type", Type: typeexpr.TypeConstraintType},
	}}
	colls := map[string]cty.Value{
		"plain":           cty.ListVal([]cty.Value{cty.StringVal("a"), cty.StringVal("b")}),
		"marked-whole":    cty.ListVal([]cty.Value{cty.StringVal("a"), cty.StringVal("b")}).Mark("sensitive"),
		"marked-elements": cty.ListVal([]cty.Value{cty.StringVal("a").Mark("sensitive"), cty.StringVal("b")}),
		"marked-set":      cty.SetVal([]cty.Value{cty.StringVal("a"), cty.StringVal("b")}).Mark("sensitive"),
		"marked-map":      cty.MapVal(map[string]cty.Value{"x": cty.StringVal("a"), "y": cty.StringVal("b")}).Mark("sensitive"),
	}
	typeTexts := []string{"list(string)", "map(object({ a = number, b = optional(bool) }))", "tuple([string, any])", "string"}
	for cname, coll := range colls {
		for _, tt := range typeTexts {
			dyn := "dynamic \"field\" {\n  for_each = names\n  content {\n    name = field.value\n    type = " + tt + "\n    refs = [a.b, c]\n    call = f(field.key, 1)\n    tr = a.b[0]\n  }\n}\n"
			ucoll, _ := coll.UnmarkDeep()
			written := ""
			for it := ucoll.ElementIterator(); it.Next(); {
				_, ev := it.Element()
				written += "field {\n  name = \"" + ev.AsString() + "\"\n  type = " + tt + "\n  refs = [a.b, c]\n  call = f(0, 1)\n  tr = a.b[0]\n}\n"
			}
			input := fmt.Sprintf("for_each %s:\n%s", cname, dyn)
			fd, d1 := hclsyntax.ParseConfig([]byte(dyn), "", hcl.InitialPos)
			fw, d2 := hclsyntax.ParseConfig([]byte(written), "", hcl.InitialPos)
			if d1.HasErrors() || d2.HasErrors() {
				res.Fail(lib.Failure{Kind: "oracle", Key: "harness:directed-static-unparseable", Input: input})
				continue
			}
			ctx := &hcl.EvalContext{Variables: map[string]cty.Value{"names": coll}}
			// (1) the decoded value, marks aside; the extra attributes are not in the spec: decode partially
			var vd, vw cty.Value
			var dd, dw hcl.Diagnostics
			if !cx.Guard("directed-static", input, func() {
				vd, _, dd = hcldec.PartialDecode(dynblock.Expand(fd.Body, ctx), spec, ctx)
				vw, _, dw = hcldec.PartialDecode(fw.Body, spec, ctx)
			}) {
				continue
			}
			res.Count("directed-static:cases")
			res.Case("directed-static|"+cname+"|"+tt, true)
			uvd, _ := vd.UnmarkDeep()
			uvw, _ := vw.UnmarkDeep()
			if dd.HasErrors() != dw.HasErrors() || lib.DumpValue(uvd) != lib.DumpValue(uvw) {
				res.Fail(lib.Failure{Kind: "oracle", Key: "expand-differs:static-attribute:type-constraint:" + cname,
					Desc:  "a type-constraint attribute of a generated block decodes differently from the block written out",
					Input: input, Impl: fmt.Sprintf("expanded: %s errors=%v %s\nwritten:  %s errors=%v", lib.DumpValue(uvd), dd.HasErrors(), dd.Error(), lib.DumpValue(uvw), dw.HasErrors())})
				continue
			}
			// (2) static views of the generated blocks' attributes
			sch := &hcl.BodySchema{Blocks: []hcl.BlockHeaderSchema{{Type: "field"}}}
			inner := &hcl.BodySchema{Attributes: []hcl.AttributeSchema{{Name: "name"}, {Name: "type"}, {Name: "refs"}, {Name: "call"}, {Name: "tr"}}}
			shape := func(b hcl.Body) string {
				out := ""
				c, _ := b.Content(sch)
				if c == nil {
					return "nil"
				}
				for _, blk := range c.Blocks {
					ic, _ := blk.Body.Content(inner)
					if ic == nil {
						out += "nil;"
						continue
					}
					if a, ok := ic.Attributes["refs"]; ok {
						l, d := hcl.ExprList(a.Expr)
						out += fmt.Sprintf("list=%d/%v ", len(l), d.HasErrors())
						for _, e := range l {
							t, d := hcl.AbsTraversalForExpr(e)
							out += fmt.Sprintf("[%s/%v]", lib.DumpTraversal(t), d.HasErrors())
						}
					}
					if a, ok := ic.Attributes["call"]; ok {
						c, d := hcl.ExprCall(a.Expr)
						if c != nil {
							out += fmt.Sprintf(" call=%s/%d/%v", c.Name, len(c.Arguments), d.HasErrors())
						} else {
							out += fmt.Sprintf(" call=nil/%v", d.HasErrors())
						}
					}
					if a, ok := ic.Attributes["tr"]; ok {
						t, d := hcl.AbsTraversalForExpr(a.Expr)
						out += fmt.Sprintf(" tr=%s/%v", lib.DumpTraversal(t), d.HasErrors())
					}
					if a, ok := ic.Attributes["type"]; ok {
						ty, d := typeexpr.TypeConstraint(a.Expr)
						out += fmt.Sprintf(" type=%s/%v", lib.DumpType(ty), d.HasErrors())
					}
					out += ";"
				}
				return out
			}
			var sd, sw string
			if !cx.Guard("directed-static-views", input, func() {
				sd = shape(dynblock.Expand(fd.Body, ctx))
				sw = shape(fw.Body)
			}) {
				continue
			}
			if sd != sw {
				res.Fail(lib.Failure{Kind: "oracle", Key: "expand-differs:static-views:" + cname,
					Desc:  "ExprList / ExprCall / AbsTraversalForExpr / TypeConstraint on the attributes of generated blocks differ from those of the blocks written out",
					Input: input, Impl: "expanded: " + sd + "\nwritten:  " + sw})
			}
		}
	}
}
