package c18

import (
	"encoding/json"
	"fmt"
	"sort"
	"strings"

	"github.com/hashicorp/hcl/v2"
	"github.com/hashicorp/hcl/v2/ext/dynblock"
	"github.com/hashicorp/hcl/v2/hcldec"
	"github.com/hashicorp/hcl/v2/hclsyntax"
	"github.com/zclconf/go-cty/cty"

	"hx/lib"
	"hx/props/decgen"
)

func init() { lib.Register("C18", run) }

type caseInput struct {
	Seed    uint64 `json:"seed"`
	Depth   int    `json:"depth"`
	Check   string `json:"check,omitempty"`
	Spec    string `json:"spec,omitempty"`
	Dynamic string `json:"dynamic,omitempty"`
	Written string `json:"written_out,omitempty"`
	Vars    string `json:"variables,omitempty"`
}

// gen turns a literal configuration into one that produces blocks with dynamic blocks.
type gen struct {
	r       *lib.Rand
	vars    map[string]cty.Value
	iters   []*iter
	seq     int
	mode    string // "plain", "marked", "unknown"
	count   func(string)
	special int // number of marked / unknown collections made
	smap    map[*decgen.Body]*decgen.SNode
	flags   map[string]bool
	// canaries are the distinctive literal strings written inside the content of dynamic blocks whose
	// for_each is unknown: none of them may show up as a known value in the decoded result
	canaries []string
}

// canary tags a literal string that sits under an unknown dynamic block.
func (g *gen) canary(v cty.Value, scope []*iter) cty.Value {
	under := false
	for _, s := range scope {
		if s.unknown > 0 {
			under = true
		}
	}
	if !under || !v.IsKnown() || v.IsNull() || v.Type() != cty.String {
		return v
	}
	str := v.AsString()
	if _, err := cty.ParseNumberVal(str); err == nil || str == "true" || str == "false" {
		return v
	}
	c := fmt.Sprintf("%s~CANARY%d", str, len(g.canaries))
	g.canaries = append(g.canaries, c)
	return cty.StringVal(c)
}

func (g *gen) inAttrsBody(b *decgen.Body) bool {
	n := g.smap[b]
	return n != nil && n.Kind == decgen.KBlockAttrs
}

// reservedRootName: root variable names already given to a for_each because they equal the block's iterator
var reservedRootName = map[*gen]map[string]bool{}

func (g *gen) fresh(prefix string) string {
	g.seq++
	return fmt.Sprintf("%s%d", prefix, g.seq)
}

// visible returns the iterators of the scope that can be referred to by name (not shadowed).
func visible(scope []*iter) []*iter {
	var out []*iter
	seen := map[string]bool{}
	for i := len(scope) - 1; i >= 0; i-- {
		if !seen[scope[i].name] {
			seen[scope[i].name] = true
			out = append(out, scope[i])
		}
	}
	return out
}

func srcPathLen(it *iter) int {
	n := 1
	for s := it.src; s != nil; s = s.src {
		n++
	}
	return n
}

// derive makes an expression that yields, in every iteration, a value of the same type as base.
func (g *gen) derive(base cty.Value, scope []*iter, own bool) (dexpr, bool) {
	vis := visible(scope)
	if len(vis) == 0 {
		return dexpr{}, false
	}
	it := vis[g.r.Intn(len(vis))]
	if own {
		it = vis[0]
	}
	if it != vis[0] {
		g.count("ref:outer-iterator")
	} else {
		g.count("ref:own-iterator")
	}
	isStr := base.IsKnown() && !base.IsNull() && base.Type() == cty.String
	isNum := base.IsKnown() && !base.IsNull() && base.Type() == cty.Number
	keyIsString := it.kind == "map" || it.kind == "object" || it.kind == "set"
	if g.r.Chance(1, 3) {
		if isStr && keyIsString {
			g.count("ref:key")
			return dexpr{it: it, key: true}, true
		}
		if isNum && !keyIsString {
			g.count("ref:key")
			return dexpr{it: it, key: true}, true
		}
	}
	if it.prim {
		if isStr {
			g.count("ref:value")
			return dexpr{it: it}, true
		}
		return dexpr{}, false
	}
	f := &field{name: g.fresh("f")}
	salt := g.r.Intn(1000)
	f.gen = func(path []int) cty.Value { return vary(base, hashPath(salt, path)) }
	it.fields = append(it.fields, f)
	g.count("ref:value-field")
	return dexpr{it: it, field: f.name, index: g.r.Chance(1, 5)}, true
}

func (g *gen) attrExpr(a *decgen.Attr, scope []*iter, inAttrs bool) dexpr {
	r := g.r
	// references from inside a BlockAttrs body run into a recorded defect (the body is handed over
	// unwrapped): kept, but rare, so that most cases exercise everything else
	if inAttrs && !r.Chance(1, 8) {
		return dexpr{lit: g.canary(a.Val, scope)}
	}
	if len(scope) > 0 && r.Chance(3, 5) {
		if e, ok := g.derive(a.Val, scope, false); ok {
			if inAttrs {
				g.flags["iterator-ref-in-blockattrs-body"] = true
			}
			return e
		}
	}
	if r.Chance(1, 8) {
		name := g.fresh("v")
		g.vars[name] = g.canary(a.Val, scope)
		g.count("ref:root-variable")
		if inAttrs {
			g.flags["root-variable-in-blockattrs-body"] = true
		}
		return dexpr{root: name}
	}
	return dexpr{lit: g.canary(a.Val, scope)}
}

func (g *gen) dynamize(b *decgen.Body, scope []*iter) *dbody {
	r := g.r
	out := &dbody{}
	inAttrs := g.inAttrsBody(b)
	for _, item := range b.Items {
		if item.Attr != nil {
			out.items = append(out.items, ditem{attr: &dattr{name: item.Attr.Name, e: g.attrExpr(item.Attr, scope, inAttrs)}})
			continue
		}
		k := item.Block
		if !r.Chance(3, 5) {
			out.items = append(out.items, ditem{static: &dblock{typ: k.Type, labels: k.Labels, body: g.dynamize(k.Body, scope)}})
			g.count("block:static")
			continue
		}
		var node *decgen.SNode
		if sn := g.smap[b]; sn != nil && sn.Kind != decgen.KBlockAttrs {
			sn.SameBody(func(m *decgen.SNode) {
				if m.IsBlockKind() && m.Name == k.Type && node == nil {
					node = m
				}
			})
		}
		out.items = append(out.items, ditem{dyn: g.dynamic(k, scope, node)})
	}
	return out
}

func (g *gen) dynamic(k *decgen.Block, scope []*iter, node *decgen.SNode) *ddyn {
	r := g.r
	// mostly keep the result valid for the spec: one element where a single block (or a bounded number)
	// is expected, computed key labels where labels must be unique
	single := false
	keyLabels := 0
	if node == nil {
		g.count("dynamic-block-type-unknown-to-spec")
	}
	if node != nil && r.Chance(24, 25) {
		switch node.Kind {
		case decgen.KBlock, decgen.KBlockAttrs:
			single = true
		case decgen.KBlockList, decgen.KBlockTuple, decgen.KBlockSet:
			single = node.Max > 0
		case decgen.KBlockMap, decgen.KBlockObject:
			keyLabels = len(node.LabelNames)
		}
	}
	it := &iter{salt: r.Intn(100000)}
	d := &ddyn{typ: k.Type, it: it, unknownType: node == nil}
	if r.Chance(1, 2) {
		d.custom = true
		it.name = g.fresh("it")
		if r.Chance(1, 6) {
			it.name = []string{"each", "item", "self"}[r.Intn(3)]
		}
		g.count("iterator:custom")
	} else {
		it.name = k.Type
		g.count("iterator:default")
	}
	for _, s := range scope {
		if s.name == it.name {
			g.count("iterator:shadows-outer")
			break
		}
	}
	// where the collection comes from
	var holders []*iter
	for _, s := range visible(scope) {
		if !s.prim {
			holders = append(holders, s)
		}
	}
	switch {
	case len(holders) > 0 && r.Chance(2, 3):
		it.src = holders[r.Intn(len(holders))]
		it.srcField = g.fresh("c")
		it.src.kids = append(it.src.kids, it)
		g.count("for_each:from-outer-iterator-value")
	case r.Chance(1, 2):
		it.rootVar = g.fresh("v")
		g.count("for_each:root-variable")
		// a caller-provided variable named like this block's own iterator: for_each does not see the iterator,
		// so the name refers to the root variable there (and must be reported as needed), while inside the
		// content it is shadowed
		if r.Chance(1, 5) && !reservedRootName[g][it.name] {
			clash := false
			for _, s := range scope {
				if s.name == it.name {
					clash = true
				}
			}
			if _, used := g.vars[it.name]; !clash && !used {
				if reservedRootName[g] == nil {
					reservedRootName[g] = map[string]bool{}
				}
				reservedRootName[g][it.name] = true
				it.rootVar = it.name
				g.count("for_each:root-variable-named-like-own-iterator")
			}
		}
	default:
		g.count("for_each:literal")
	}
	kinds := []string{"list", "set", "map"}
	if it.heteroOK() {
		kinds = append(kinds, "tuple", "object", "tuple", "object")
	}
	if it.src == nil && it.rootVar == "" {
		kinds = []string{"tuple", "object"}
	}
	// a collection written as a literal (directly, or inside the elements of a literal outer collection)
	// is a tuple or an object whatever it is meant to be; that changes nothing for lists and maps, but a
	// set's keys are its values, so sets are given through variables only
	rootIt := it
	for rootIt.src != nil {
		rootIt = rootIt.src
	}
	if rootIt.rootVar == "" {
		var ks []string
		for _, k := range kinds {
			if k != "set" {
				ks = append(ks, k)
			}
		}
		kinds = ks
	}
	it.kind = kinds[r.Intn(len(kinds))]
	it.prim = it.kind == "set" || r.Chance(1, 4)
	g.count("for_each-kind:" + it.kind)
	depth := srcPathLen(it)
	if it.src == nil {
		n := []int{0, 1, 1, 2, 2, 3, 4}[r.Intn(7)]
		if single {
			n = 1
		}
		it.count = func([]int) int { return n }
		g.count(fmt.Sprintf("for_each-size:%d", n))
	} else {
		salt := it.salt
		it.count = func(path []int) int {
			if single {
				return 1
			}
			return []int{0, 1, 2, 2, 3}[hashPath(salt, path)%5]
		}
		g.count("for_each-size:varies-per-outer-element")
	}
	_ = depth
	if it.rootVar != "" && g.mode == "marked" && r.Chance(1, 2) {
		it.marked = true
		g.special++
		g.count("for_each:marked")
	}
	if it.rootVar != "" && g.mode == "unknown" && r.Chance(1, 2) {
		it.unknown = 1 + r.Intn(2)
		g.special++
		g.count("for_each:unknown")
	}
	g.iters = append(g.iters, it)
	inner := append(append([]*iter{}, scope...), it)
	for li, l := range k.Labels {
		lit := dexpr{lit: cty.StringVal(l)}
		if r.Chance(2, 3) || li == keyLabels-1 {
			if e, ok := g.derive(cty.StringVal(l), inner, li == keyLabels-1); ok {
				d.labels = append(d.labels, e)
				g.count("label:computed")
				continue
			}
		}
		d.labels = append(d.labels, lit)
		g.count("label:literal")
	}
	d.body = g.dynamize(k.Body, inner)
	g.count("block:dynamic")
	if len(scope) > 0 {
		g.count("block:dynamic-nested")
	}
	return d
}

// finish materialises the root-variable collections (after every field has been registered).
func (g *gen) finish() {
	for _, it := range g.iters {
		if it.rootVar != "" {
			g.vars[it.rootVar] = it.materialize(nil)
		}
	}
}

type c18case struct {
	in    caseInput
	spec  *decgen.SNode
	db    *dbody
	g     *gen
	w     *decgen.Body
	x     *expander
	dyn   string
	wtext string
	ctx   *hcl.EvalContext
}

func build(cx *lib.Ctx, seed uint64, depth int) *c18case {
	r := lib.NewRand(seed)
	c := &c18case{in: caseInput{Seed: seed, Depth: depth}}
	count := func(k string) { cx.Res.Count(k) }
	sg := &decgen.SpecGen{R: r, Count: nil, Plain: true}
	bg := &decgen.BodyGen{R: r, Plain: true, MixDynamic: 0}
	var base *decgen.Body
	for try := 0; try < 8; try++ {
		// prefer configurations that have blocks, and nested ones
		c.spec = sg.Gen(depth)
		base = bg.Body(c.spec)
		nested := false
		for _, k := range base.Blocks() {
			if len(k.Body.Blocks()) > 0 {
				nested = true
			}
		}
		if nested || (try >= 4 && len(base.Blocks()) > 0) {
			break
		}
	}
	if r.Chance(1, 5) {
		base, _ = bg.Perturb(c.spec, base)
		count("base:perturbed")
	}
	mode := []string{"plain", "plain", "plain", "marked", "unknown", "unknown"}[r.Intn(6)]
	c.g = &gen{r: r, vars: map[string]cty.Value{}, mode: mode, count: count, smap: decgen.BodySpecs(c.spec, base), flags: map[string]bool{}}
	c.db = c.g.dynamize(base, nil)
	c.g.finish()
	if c.g.special == 0 {
		c.g.mode = "plain"
	}
	count("mode:" + c.g.mode)
	c.ctx = &hcl.EvalContext{Variables: c.g.vars}
	var sb strings.Builder
	renderDyn(&sb, c.db, 0, r)
	c.dyn = sb.String()
	c.x = &expander{vars: c.g.vars}
	c.w = c.x.expand(c.db, map[*iter]binding{})
	c.wtext = decgen.Native(c.w, nil)
	c.in.Spec = c.spec.Dump()
	c.in.Dynamic = c.dyn
	c.in.Written = c.wtext
	var vs []string
	for _, k := range decgen.SortedKeys(c.g.vars) {
		vs = append(vs, k+" = "+lib.DumpValue(c.g.vars[k]))
	}
	c.in.Vars = strings.Join(vs, "\n")
	return c
}

func (c *c18case) input(check string) string {
	in := c.in
	in.Check = check
	b, _ := json.Marshal(in)
	return string(b)
}

type outcome struct {
	val      cty.Value
	diags    hcl.Diagnostics
	panicked interface{}
}

func decode(body hcl.Body, spec hcldec.Spec, ctx *hcl.EvalContext) (o outcome) {
	defer func() {
		if p := recover(); p != nil {
			o.panicked = p
		}
	}()
	o.val, o.diags = hcldec.Decode(body, spec, ctx)
	return
}

func sameOutcome(a, b outcome, modMarks bool) (bool, string) {
	if (a.panicked != nil) != (b.panicked != nil) {
		return false, "panic-on-one-side"
	}
	if a.panicked != nil {
		return true, ""
	}
	if a.diags.HasErrors() != b.diags.HasErrors() {
		return false, "error-on-one-side"
	}
	av, bv := a.val, b.val
	if modMarks {
		av, _ = av.UnmarkDeep()
		bv, _ = bv.UnmarkDeep()
	}
	if lib.DumpValue(av) != lib.DumpValue(bv) {
		return false, "value-differs"
	}
	return true, ""
}

func nErrors(d hcl.Diagnostics) int {
	n := 0
	for _, x := range d {
		if x.Severity == hcl.DiagError {
			n++
		}
	}
	return n
}

func describeU(o outcome, unmark bool) string {
	if unmark && o.panicked == nil {
		o.val, _ = o.val.UnmarkDeep()
	}
	return describe(o)
}

// firstDiff shows where two dumps part.
func firstDiff(a, b string) string {
	i := 0
	for i < len(a) && i < len(b) && a[i] == b[i] {
		i++
	}
	lo := i - 80
	if lo < 0 {
		lo = 0
	}
	cut := func(s string) string {
		hi := i + 120
		if hi > len(s) {
			hi = len(s)
		}
		if lo > len(s) {
			return ""
		}
		return s[lo:hi]
	}
	return fmt.Sprintf("first difference at byte %d: expanded ...%s... vs written-out ...%s...", i, cut(a), cut(b))
}

func describe(o outcome) string {
	if o.panicked != nil {
		return fmt.Sprintf("PANIC %v", o.panicked)
	}
	return lib.DumpValue(o.val) + " ; diagnostics: " + decgen.DiagText(o.diags)
}

func specAfter(n *decgen.SNode) string {
	s := ""
	for _, k := range decgen.SortedKeys(decgen.SpecFlags(n)) {
		s += "+after:" + k
	}
	return s
}

// after renders the case's recorded-defect triggers as a signature suffix.
func (c *c18case) after() string {
	s := ""
	for _, k := range decgen.SortedKeys(c.g.flags) {
		s += "+after:" + k
	}
	return s
}

// specKinds lists the block spec kinds that consume dynamic blocks in this case (for the signature).
func (c *c18case) kindsOfDynamicTypes() string {
	types := map[string]bool{}
	var walk func(b *dbody)
	walk = func(b *dbody) {
		for _, it := range b.items {
			if it.dyn != nil {
				types[it.dyn.typ] = true
				walk(it.dyn.body)
			} else if it.static != nil {
				walk(it.static.body)
			}
		}
	}
	walk(c.db)
	kinds := map[string]bool{}
	c.spec.Walk(func(n *decgen.SNode) {
		if n.IsBlockKind() && types[n.Name] {
			kinds[string(n.Kind)] = true
		}
	})
	ks := decgen.SortedKeys(kinds)
	return strings.Join(ks, ",")
}

func rootNames(ts []hcl.Traversal) map[string]bool {
	m := map[string]bool{}
	for _, t := range ts {
		m[t.RootName()] = true
	}
	return m
}

func prune(vars map[string]cty.Value, keep map[string]bool) *hcl.EvalContext {
	m := map[string]cty.Value{}
	for k, v := range vars {
		if keep[k] {
			m[k] = v
		}
	}
	return &hcl.EvalContext{Variables: m}
}

func (c *c18case) runAll(cx *lib.Ctx) {
	res := cx.Res
	df, dd := hclsyntax.ParseConfig([]byte(c.dyn), "dynamic.hcl", hcl.InitialPos)
	if dd.HasErrors() {
		res.Fail(lib.Failure{Kind: "oracle", Key: "harness:dynamic-text-does-not-parse", Desc: dd.Error(), Input: c.input("parse")})
		return
	}
	wf, wd := hclsyntax.ParseConfig([]byte(c.wtext), "written.hcl", hcl.InitialPos)
	if wd.HasErrors() {
		res.Fail(lib.Failure{Kind: "oracle", Key: "harness:written-out-text-does-not-parse", Desc: wd.Error(), Input: c.input("parse")})
		return
	}
	spec := c.spec.Spec
	expanded := decode(dynblock.Expand(df.Body, c.ctx), spec, c.ctx)
	iterNames := map[string]bool{}
	for _, it := range c.g.iters {
		iterNames[it.name] = true
	}
	// a root variable may carry the name of an iterator (a for_each does not see its own block's iterator):
	// such a name is legitimately reported
	for _, it := range c.g.iters {
		if it.rootVar != "" {
			delete(iterNames, it.rootVar)
		}
	}

	if c.x.sawUnknown {
		// unknown for_each: the result is still of the implied type, with the affected part unknown
		res.Count("check:unknown-conformance")
		if expanded.panicked != nil {
			written := decode(wf.Body, spec, c.ctx)
			if written.panicked == nil {
				res.Fail(lib.Failure{Kind: "oracle", Key: "unknown-for_each:panic:" + decgen.PanicKey(expanded.panicked) + specAfter(c.spec), Desc: fmt.Sprintf("decoding the expanded body panics: %v", expanded.panicked), Input: c.input("unknown")})
			}
			return
		}
		implied := hcldec.ImpliedType(spec)
		uv, _ := expanded.val.UnmarkDeep()
		if !decgen.LooseConforms(uv.Type(), implied) {
			blame := decgen.Blame(c.spec, uv, func(g, w cty.Type) bool { return !decgen.LooseConforms(g, w) })
			den, _ := decgen.SafeDenote(c.spec, c.w, false)
			for k := range decgen.SpecFlags(c.spec) {
				if den.Flags == nil {
					den.Flags = map[string]bool{}
				}
				den.Flags[k] = true
			}
			delete(den.Flags, "required-attr-under-default")
			key := "unknown-for_each:nonconforming:" + blame
			if decgen.HasDiag(expanded.diags, "Unconsistent argument types") && (strings.HasSuffix(blame, "blocklist[unknown]:dyn-vs-list") || strings.HasSuffix(blame, "blockset[unknown]:dyn-vs-set")) {
				key = "unknown-for_each:nonconforming:blocklist-or-set-inconsistent-types-returns-dynamicval"
			}
			if !strings.Contains(key, "blockmap[empty]") {
				key += decgen.After(den)
			}
			res.Fail(lib.Failure{Kind: "oracle", Key: key, Desc: "with an unknown for_each the decoded value's type does not conform to ImpliedType(spec)", Input: c.input("unknown"), Impl: "value type " + lib.DumpType(uv.Type()) + " ; implied " + lib.DumpType(implied) + " ; " + decgen.DiagText(expanded.diags)})
		}
		// the affected part is unknown: nothing written inside the content of a block whose existence is
		// unknown comes out as a known value
		dump := lib.DumpValue(uv)
		for _, cn := range c.g.canaries {
			if strings.Contains(dump, fmt.Sprintf("%x", cn)) {
				res.Fail(lib.Failure{Kind: "oracle", Key: "unknown-for_each:content-of-unknown-block-is-known", Desc: "a literal written inside the content of a dynamic block whose for_each is unknown (" + cn + ") appears as a known value in the result", Input: c.input("unknown"), Impl: dump})
				break
			}
		}
		res.Count(fmt.Sprintf("unknown-content-canaries:%d", min(len(c.g.canaries), 3)))
		// the unaffected part is what it would be anyway: an entry of the root object that only looks at block
		// types written without any dynamic block (at any depth) decodes exactly as in the written-out body
		if os, ok := spec.(hcldec.ObjectSpec); ok && uv.Type().IsObjectType() {
			touched := map[string]bool{}
			var hasDyn func(b *dbody) bool
			hasDyn = func(b *dbody) bool {
				for _, it := range b.items {
					if it.dyn != nil || (it.static != nil && hasDyn(it.static.body)) {
						return true
					}
				}
				return false
			}
			for _, it := range c.db.items {
				switch {
				case it.dyn != nil:
					touched[it.dyn.typ] = true
				case it.static != nil && hasDyn(it.static.body):
					touched[it.static.typ] = true
				}
			}
			written := decode(wf.Body, spec, c.ctx)
			if written.panicked == nil && !written.diags.HasErrors() && !expanded.diags.HasErrors() {
				wv, _ := written.val.UnmarkDeep()
				for k, sub := range os {
					clean := true
					for _, bs := range hcldec.ImpliedSchema(sub).Blocks {
						if touched[bs.Type] {
							clean = false
						}
					}
					if !clean || !uv.Type().HasAttribute(k) || !wv.Type().IsObjectType() || !wv.Type().HasAttribute(k) {
						continue
					}
					res.Count("check:unknown-unaffected-entry")
					if a, b := lib.DumpValue(uv.GetAttr(k)), lib.DumpValue(wv.GetAttr(k)); a != b {
						res.Fail(lib.Failure{Kind: "oracle", Key: "unknown-for_each:unaffected-entry-differs" + specAfter(c.spec),
							Desc:  "entry " + k + " of the specification only looks at block types written without any dynamic block, yet with an unknown for_each elsewhere in the body it decodes differently from the written-out body",
							Input: c.input("unknown"), Impl: a, Model: b})
						break
					}
				}
			}
		}
		return
	}

	// (A) expansion equals the written-out configuration
	written := decode(wf.Body, spec, c.ctx)
	res.Count("check:expand-vs-written-out")
	if written.panicked != nil {
		res.Count("written-out-decode-panics(recorded C08 defect)")
	} else if written.diags.HasErrors() {
		res.Count("outcome:errors-on-both-sides")
		first := ""
		for _, d := range written.diags {
			if k := decgen.SummaryKey(d.Summary); d.Severity == hcl.DiagError && (first == "" || k < first) {
				first = k
			}
		}
		res.Count("written-out-error:" + first)
	} else {
		res.Count("outcome:values-compared")
	}
	if expanded.panicked == nil && written.panicked == nil && (c.x.sawEmpty && nErrors(expanded.diags) > nErrors(written.diags) || c.x.sawEmptyUnknownType) {
		// A dynamic block over an empty collection writes out as nothing, yet Expand still validates the
		// dynamic block itself (block type known to the schema, label count, content block): the extra
		// error is about the template, not about a difference in the blocks produced.
		res.Count("outcome:error-about-unexpanded-template-tolerated")
		return
	}
	if ok, why := sameOutcome(expanded, written, c.x.sawMarked); !ok {
		res.Fail(lib.Failure{Kind: "oracle", Key: "expand-differs:" + why + c.after(), Desc: "decoding dynblock.Expand(body) differs from decoding the configuration written out by hand (" + why + "); " + firstDiff(describeU(expanded, c.x.sawMarked), describeU(written, c.x.sawMarked)), Input: c.input("expand-vs-written-out"), Impl: describe(expanded), Model: describe(written)})
		return
	}
	// PartialDecode sees the same thing
	func() {
		defer func() { recover() }()
		pv, _, pdg := hcldec.PartialDecode(dynblock.Expand(df.Body, c.ctx), spec, c.ctx)
		wv, _, wdg := hcldec.PartialDecode(wf.Body, spec, c.ctx)
		if c.x.sawEmpty && nErrors(pdg) > nErrors(wdg) {
			return
		}
		if ok, why := sameOutcome(outcome{val: pv, diags: pdg}, outcome{val: wv, diags: wdg}, c.x.sawMarked); !ok {
			res.Fail(lib.Failure{Kind: "oracle", Key: "expand-differs-partial:" + why + c.after(), Desc: "PartialDecode of dynblock.Expand(body) differs from PartialDecode of the written-out configuration", Input: c.input("expand-vs-written-out-partial"), Impl: describe(outcome{val: pv, diags: pdg}), Model: describe(outcome{val: wv, diags: wdg})})
		}
	}()

	// (A') two passes over a split of the specification, with the usual queries in between: the remaining body of
	// the first pass is asked for its variables / source range / content (results discarded) before it is
	// decoded.  Asking must not change what it holds; and the whole flow must agree with the same flow on
	// the written-out configuration.
	if os, ok := spec.(hcldec.ObjectSpec); ok && len(os) >= 2 && expanded.panicked == nil {
		func() {
			defer func() {
				if p := recover(); p != nil {
					res.Count("two-pass:panic(not compared)")
				}
			}()
			keys := decgen.SortedKeys(func() map[string]bool {
				m := map[string]bool{}
				for k := range os {
					m[k] = true
				}
				return m
			}())
			specA, specB := hcldec.ObjectSpec{}, hcldec.ObjectSpec{}
			for i, k := range keys {
				if (c.in.Seed>>uint(i%60))&1 == 0 {
					specA[k] = os[k]
				} else {
					specB[k] = os[k]
				}
			}
			if len(specA) == 0 || len(specB) == 0 {
				specA, specB = hcldec.ObjectSpec{keys[0]: os[keys[0]]}, hcldec.ObjectSpec{}
				for _, k := range keys[1:] {
					specB[k] = os[k]
				}
			}
			flow := func(body hcl.Body, queries bool) (outcome, outcome) {
				va, remain, da := hcldec.PartialDecode(body, specA, c.ctx)
				if queries {
					_ = hcldec.Variables(remain, specB)
					_ = hcldec.SourceRange(remain, specB)
					_, _, _ = remain.PartialContent(hcldec.ImpliedSchema(specB))
					_, _, _ = hcldec.PartialDecode(remain, specB, c.ctx)
				}
				vb, db := hcldec.Decode(remain, specB, c.ctx)
				return outcome{val: va, diags: da}, outcome{val: vb, diags: db}
			}
			ea, eb := flow(dynblock.Expand(df.Body, c.ctx), true)
			na, nb := flow(dynblock.Expand(df.Body, c.ctx), false)
			wa, wb := flow(wf.Body, true)
			res.Count("check:two-pass-with-queries")
			for _, p := range []struct {
				what   string
				x, y   outcome
				versus string
			}{{"first-pass", ea, na, "without-queries"}, {"second-pass", eb, nb, "without-queries"}, {"first-pass", ea, wa, "written-out"}, {"second-pass", eb, wb, "written-out"}} {
				if p.versus == "written-out" && (c.x.sawEmpty || c.x.sawEmptyUnknownType) && nErrors(p.x.diags) > nErrors(p.y.diags) {
					continue
				}
				if p.what == "second-pass" && ea.diags.HasErrors() {
					// an invalid configuration: the first pass has reported it on both sides; which of the
					// passes repeats the complaint is a difference in diagnostics, not in what is decoded
					res.Count("two-pass:first-pass-errors(second pass not compared)")
					continue
				}
				if ok, why := sameOutcome(p.x, p.y, c.x.sawMarked); !ok {
					res.Fail(lib.Failure{Kind: "oracle", Key: "two-pass-differs:" + p.what + ":vs-" + p.versus + ":" + why + c.after(),
						Desc:  "PartialDecode with one part of the specification, queries on the remaining body (variables, source range, content; results discarded), then Decode of the remaining body with the other part: the " + p.what + " result differs from the same flow " + map[string]string{"without-queries": "without the queries", "written-out": "on the written-out configuration"}[p.versus],
						Input: c.input("two-pass"), Impl: describe(p.x), Model: describe(p.y)})
					return
				}
			}
		}()
	}

	// (D) the reported variables are sufficient, and iterator names are not reported
	if expanded.panicked != nil {
		return
	}
	res.Count("check:variables")
	var all, forExpand []hcl.Traversal
	if !decgen.Guard(cx, "VariablesHCLDec", "", c.input("variables"), func() {
		all = dynblock.VariablesHCLDec(df.Body, spec)
		forExpand = dynblock.ExpandVariablesHCLDec(df.Body, spec)
	}) {
		return
	}
	for _, set := range []map[string]bool{rootNames(all), rootNames(forExpand)} {
		var bad []string
		for n := range set {
			if iterNames[n] {
				bad = append(bad, n)
			}
		}
		if len(bad) > 0 {
			sort.Strings(bad)
			res.Fail(lib.Failure{Kind: "oracle", Key: "variables:iterator-name-reported" + c.after(), Desc: "an iterator name is reported as a needed root variable: " + strings.Join(bad, ","), Input: c.input("variables")})
			return
		}
	}
	pruned := prune(c.g.vars, rootNames(all))
	o1 := decode(dynblock.Expand(df.Body, pruned), spec, pruned)
	if ok, why := sameOutcome(o1, expanded, false); !ok {
		res.Fail(lib.Failure{Kind: "oracle", Key: "variables:VariablesHCLDec-insufficient:" + why + c.after(), Desc: "decoding with an EvalContext pruned to the roots reported by VariablesHCLDec differs from decoding with the full context; reported: " + strings.Join(decgen.SortedKeys(rootNames(all)), ","), Input: c.input("variables"), Impl: describe(o1), Model: describe(expanded)})
		return
	}
	// the README's two-step flow: ExpandVariablesHCLDec for Expand, hcldec.Variables(expanded) for Decode
	ectx := prune(c.g.vars, rootNames(forExpand))
	eb := dynblock.Expand(df.Body, ectx)
	var dvars []hcl.Traversal
	if !decgen.Guard(cx, "hcldec.Variables", "", c.input("variables-two-step"), func() { dvars = hcldec.Variables(eb, spec) }) {
		return
	}
	for n := range rootNames(dvars) {
		if iterNames[n] {
			res.Fail(lib.Failure{Kind: "oracle", Key: "variables:iterator-name-reported-by-hcldec-Variables" + c.after(), Desc: "hcldec.Variables on the expanded body reports the iterator name " + n, Input: c.input("variables-two-step")})
			return
		}
	}
	dctx := prune(c.g.vars, rootNames(dvars))
	o2 := decode(eb, spec, dctx)
	if ok, why := sameOutcome(o2, expanded, false); !ok {
		res.Fail(lib.Failure{Kind: "oracle", Key: "variables:two-step-insufficient:" + why + c.after(), Desc: "Expand with the roots of ExpandVariablesHCLDec then Decode with the roots of hcldec.Variables(expanded) differs from decoding with the full context; expand roots: " + strings.Join(decgen.SortedKeys(rootNames(forExpand)), ",") + " decode roots: " + strings.Join(decgen.SortedKeys(rootNames(dvars)), ","), Input: c.input("variables-two-step"), Impl: describe(o2), Model: describe(expanded)})
	}
}

func run(cx *lib.Ctx) {
	res := cx.Res
	res.Rule = "a random hcldec spec (every kind) and a configuration conforming to it (perturbed in 1 of 5 cases), in which about half of the blocks at every depth are replaced by dynamic blocks (template = the block; for_each = literal tuple/object, root variable holding a tuple/list/set/map/object, or a field of an outer iterator's value; sizes 0..4; default or custom iterator names, possibly shadowing; labels and attributes computed from own or outer iterators' key/value/value.field, or root variables); the harness writes the expansion out as text and compares decode(Expand(dynamic)) with decode(written out), then decodes with contexts pruned to the reported variables; marked and unknown for_each in 1 of 3 cases; non-trivial = at least one dynamic block; distinct by dynamic text"
	if cx.Replay != "" {
		var in caseInput
		if err := json.Unmarshal([]byte(lib.ReplayInput(cx.Replay)), &in); err != nil {
			res.Fail(lib.Failure{Kind: "oracle", Key: "harness:bad-replay-input", Desc: err.Error()})
			return
		}
		c := build(cx, in.Seed, in.Depth)
		c.runAll(cx)
		res.Case(c.dyn, true)
		res.Sample(c.in)
		return
	}
	root := cx.R.Fork()
	n := cx.Scale(8000, 200000)
	for i := 0; i < n; i++ {
		seed := root.U64()
		depth := 2 + int(seed%3)
		c := build(cx, seed, depth)
		c.runAll(cx)
		res.Case(c.dyn, len(c.g.iters) > 0)
		if len(c.g.iters) == 0 {
			res.Count("case:no-dynamic-block")
		}
		if i < 3 {
			res.Sample(c.in)
		}
	}
	directedStatic(cx)
	corrExpand(cx)
}
