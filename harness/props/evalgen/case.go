package evalgen

import (
	"encoding/json"
	"fmt"

	"github.com/hashicorp/hcl/v2"
	"github.com/hashicorp/hcl/v2/hclsyntax"
	"github.com/zclconf/go-cty/cty"

	"hx/lib"
)

// Case is one generated (scope, expression) pair.
type Case struct {
	Scope  Scope
	Node   *lib.Node
	Src    string
	Expr   hclsyntax.Expression
	Target cty.Type
}

// Options tune a generated case.
type Options struct {
	Arb, Wild, Clash int      // see Gen; negative = default
	MaxDepth         int      // 0 = default distribution (1..5)
	Prefer           []string // variables to favour
	Scope            Scope    // nil = NewScope
	Forbidden        []string // texts that must not appear in the source (see Gen.Forbidden)
	NoBlockAttrs     bool     // bodies: no hcldec.BlockAttrsSpec items
}

// NewCase draws a scope and a typed expression over it, renders and parses it. ok=false when the
// rendering does not parse (counted by the callers; expected to be (almost) never).
func NewCase(r *lib.Rand, o Options) (*Case, bool) {
	s := o.Scope
	if s == nil {
		s = NewScope(r)
	}
	g := NewGen(r, s, o.Forbidden...)
	if o.Arb >= 0 {
		g.Arb = o.Arb
	}
	if o.Wild >= 0 {
		g.Wild = o.Wild
	}
	if o.Clash >= 0 {
		g.Clash = o.Clash
	}
	g.Prefer = o.Prefer
	d := o.MaxDepth
	if d == 0 {
		d = 1 + r.Weighted([]int{10, 25, 30, 22, 13})
	}
	ty := g.SomeType()
	// the root: 80 % of the requested type, else arbitrary (the per-node Arb applies below the root)
	var n *lib.Node
	if r.Chance(1, 5) {
		n = g.typed(arbTypes[r.Intn(len(arbTypes))], d)
	} else {
		n = g.typed(ty, d)
	}
	c := &Case{Scope: s, Node: n, Target: ty}
	return c, c.Render()
}

// Default options (negative fields mean "use the generator's default").
func Defaults() Options { return Options{Arb: -1, Wild: -1, Clash: -1} }

// Render (re)computes Src and Expr from Node.
func (c *Case) Render() bool {
	c.Src = Source(c.Node)
	e, diags := Parse(c.Src)
	if diags.HasErrors() {
		return false
	}
	c.Expr = e
	return true
}

// Files is the file map for the diagnostic text writer.
func (c *Case) Files() map[string]*hcl.File {
	return map[string]*hcl.File{Filename: {Bytes: []byte(c.Src)}}
}

// CaseJSON is the replayable form of a case. Extra carries the property-specific part.
type CaseJSON struct {
	Prop  string             `json:"prop"`
	Mode  string             `json:"mode"`
	Src   string             `json:"src"`
	Node  *lib.Node          `json:"node,omitempty"`
	Scope map[string]*EncVal `json:"scope"`
	Extra json.RawMessage    `json:"extra,omitempty"`
}

// Encode builds the replay document.
func (c *Case) Encode(prop, mode string, extra interface{}) string {
	cj := CaseJSON{Prop: prop, Mode: mode, Src: c.Src, Node: c.Node, Scope: EncodeScope(c.Scope)}
	if extra != nil {
		b, err := json.Marshal(extra)
		if err == nil {
			cj.Extra = b
		}
	}
	return JSONString(cj)
}

// DecodeCase parses a replay document back into a case (the source text is authoritative; the node
// tree, when present, is only used for minimisation and syntactic cross-checks).
func DecodeCase(doc string) (*Case, *CaseJSON, error) {
	var cj CaseJSON
	if err := json.Unmarshal([]byte(doc), &cj); err != nil {
		return nil, nil, err
	}
	s, err := DecodeScope(cj.Scope)
	if err != nil {
		return nil, nil, err
	}
	c := &Case{Scope: s, Node: cj.Node, Src: cj.Src}
	if cj.Mode == "" || cj.Mode == "expr" {
		e, diags := Parse(cj.Src)
		if diags.HasErrors() {
			return nil, nil, fmt.Errorf("replay source does not parse: %s", diags.Error())
		}
		c.Expr = e
	}
	return c, &cj, nil
}

// Eval evaluates the case's expression in a scope.
func (c *Case) Eval(s Scope) (cty.Value, hcl.Diagnostics) {
	return c.Expr.Value(Ctx(s))
}

// SafeValue evaluates and converts a panic into ok=false with the panic text.
func SafeValue(e hcl.Expression, ctx *hcl.EvalContext) (v cty.Value, diags hcl.Diagnostics, panicText string) {
	defer func() {
		if r := recover(); r != nil {
			panicText = fmt.Sprint(r)
			v = cty.NilVal
		}
	}()
	v, diags = e.Value(ctx)
	return
}
