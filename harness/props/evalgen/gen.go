package evalgen

import (
	"fmt"
	"math/big"
	"sort"
	"strings"

	"github.com/zclconf/go-cty/cty"

	"hx/lib"
)

// Gen is the type-directed expression generator over one scope. Expr(ty, depth) builds, with
// probability 1-Arb%, an expression whose value has (or converts to) the requested type; otherwise an
// expression of an arbitrary other type, and with probability Wild% a completely untyped tree.
type Gen struct {
	R     *lib.Rand
	Scope Scope
	Arb   int // percent: arbitrary target type instead of the requested one
	Wild  int // percent: untyped lib.ExprGen subtree
	Clash int // percent: a binder takes the name of a scope variable instead of a fresh name
	// Prefer lists variables that path choices favour (e.g. the marked / secret ones of C06 and C19).
	Prefer []string
	// Forbidden texts never appear in the generated source: map keys and attribute names containing one of
	// them are not used as traversal steps (C19: secrets that are keys of a marked collection).
	Forbidden []string

	paths  []pathEnt
	locals []local
	inTmpl int
	// nonNullIter makes iterSource choose only traversals whose current value is a non-null collection
	nonNullIter bool
	// AvoidNull makes every traversal choice skip variables and elements that are currently null (used
	// for bodies, where one failing expression among many spoils the whole decode)
	AvoidNull bool
}

type local struct {
	name string
	ty   cty.Type
}

type pstep struct {
	attr string    // object attribute / map key reached by name
	key  cty.Value // string or number key (NilVal when attr is used)
}

type pathEnt struct {
	root  string
	steps []pstep
	ty    cty.Type
	local bool
	null  bool
	val   cty.Value // current value (scope traversals only)
}

// NewGen prepares the generator: it enumerates every traversal into the scope's values (to depth 3).
func NewGen(r *lib.Rand, s Scope, forbidden ...string) *Gen {
	g := &Gen{R: r, Scope: s, Arb: 9, Wild: 2, Clash: 30, Forbidden: forbidden}
	for _, name := range s.Names() {
		g.walk(name, nil, s[name], 0)
	}
	return g
}

func (g *Gen) forbidden(text string) bool {
	for _, f := range g.Forbidden {
		if f != "" && strings.Contains(text, f) {
			return true
		}
	}
	return false
}

func (g *Gen) walk(root string, steps []pstep, v cty.Value, depth int) {
	v, _ = v.Unmark()
	g.paths = append(g.paths, pathEnt{root: root, steps: append([]pstep{}, steps...), ty: v.Type(), null: v.IsNull(), val: v})
	if depth >= 3 || !v.IsKnown() || v.IsNull() {
		return
	}
	ty := v.Type()
	switch {
	case ty.IsListType() || ty.IsTupleType():
		i := 0
		for it := v.ElementIterator(); it.Next() && i < 3; i++ {
			k, ev := it.Element()
			g.walk(root, append(steps, pstep{key: k}), ev, depth+1)
		}
	case ty.IsMapType():
		i := 0
		for it := v.ElementIterator(); it.Next() && i < 3; i++ {
			k, ev := it.Element()
			if g.forbidden(k.AsString()) {
				continue
			}
			g.walk(root, append(steps, pstep{key: k}), ev, depth+1)
		}
	case ty.IsObjectType():
		for _, name := range AttrNames(ty) {
			if g.forbidden(name) {
				continue
			}
			g.walk(root, append(steps, pstep{attr: name}), v.GetAttr(name), depth+1)
		}
	}
}

// typePaths enumerates traversals into a local of the given type (type-level only: object attributes and
// tuple elements, never list indices or map keys, whose existence depends on the value).
func typePaths(name string, steps []pstep, ty cty.Type, depth int, out *[]pathEnt) {
	*out = append(*out, pathEnt{root: name, steps: append([]pstep{}, steps...), ty: ty, local: true})
	if depth >= 2 {
		return
	}
	switch {
	case ty.IsObjectType():
		for _, a := range AttrNames(ty) {
			typePaths(name, append(steps, pstep{attr: a}), ty.AttributeType(a), depth+1, out)
		}
	case ty.IsTupleType():
		for i, ety := range ty.TupleElementTypes() {
			typePaths(name, append(steps, pstep{key: cty.NumberIntVal(int64(i))}), ety, depth+1, out)
		}
	}
}

func (g *Gen) localPaths() []pathEnt {
	var out []pathEnt
	for _, l := range g.locals {
		typePaths(l.name, nil, l.ty, 0, &out)
	}
	return out
}

func (g *Gen) shadowed(name string) bool {
	for _, l := range g.locals {
		if l.name == name {
			return true
		}
	}
	return false
}

// pick chooses a traversal whose type satisfies ok: locals are favoured inside binders, preferred
// variables are favoured otherwise. Scope paths whose root is shadowed by a local are excluded.
func (g *Gen) pick(ok func(cty.Type) bool) (pathEnt, bool) {
	var loc, pref, rest []pathEnt
	for _, p := range g.localPaths() {
		if ok(p.ty) {
			loc = append(loc, p)
		}
	}
	for _, p := range g.paths {
		if !ok(p.ty) || g.shadowed(p.root) || (g.AvoidNull && p.null) {
			continue
		}
		isPref := false
		for _, n := range g.Prefer {
			if n == p.root {
				isPref = true
			}
		}
		if isPref {
			pref = append(pref, p)
		} else {
			rest = append(rest, p)
		}
	}
	if len(loc) > 0 && g.R.Chance(3, 5) {
		return loc[g.R.Intn(len(loc))], true
	}
	if len(pref) > 0 && g.R.Chance(1, 2) {
		return pref[g.R.Intn(len(pref))], true
	}
	all := append(append(rest, pref...), loc...)
	if len(all) == 0 {
		return pathEnt{}, false
	}
	// prefer short traversals a little so that whole variables are used too
	p := all[g.R.Intn(len(all))]
	if len(p.steps) > 1 && g.R.Chance(1, 3) {
		p = all[g.R.Intn(len(all))]
	}
	return p, true
}

func isExactly(t cty.Type) func(cty.Type) bool { return func(x cty.Type) bool { return x.Equals(t) } }

func isIterable(t cty.Type) bool {
	return t.IsListType() || t.IsSetType() || t.IsMapType() || t.IsTupleType() || t.IsObjectType()
}

// ---------------------------------------------------------------------------
// node helpers

func V(name string) *lib.Node { return &lib.Node{K: "var", S: name} }
func Str(s string) *lib.Node  { return &lib.Node{K: "str", S: s} }
func Num(s string) *lib.Node  { return &lib.Node{K: "num", S: s} }
func Bin(op string, a, b *lib.Node) *lib.Node {
	return &lib.Node{K: "binop", S: op, Kids: []*lib.Node{a, b}}
}
func Attr(src *lib.Node, name string) *lib.Node {
	return &lib.Node{K: "attr", S: name, Kids: []*lib.Node{src}}
}
func Index(src, key *lib.Node) *lib.Node { return &lib.Node{K: "index", Kids: []*lib.Node{src, key}} }
func Call(name string, args ...*lib.Node) *lib.Node {
	return &lib.Node{K: "call", S: name, Kids: args}
}
func Cond(c, a, b *lib.Node) *lib.Node { return &lib.Node{K: "cond", Kids: []*lib.Node{c, a, b}} }
func Tuple(elems ...*lib.Node) *lib.Node {
	return &lib.Node{K: "tuple", Kids: elems}
}

// NumLit renders a number value as a literal expression (negative numbers through unary minus).
func NumLit(v cty.Value) *lib.Node {
	f := v.AsBigFloat()
	neg := f.Sign() < 0
	a := new(big.Float).Abs(f)
	s := a.Text('f', -1)
	n := Num(s)
	if neg {
		return &lib.Node{K: "unop", S: "-", Kids: []*lib.Node{n}}
	}
	return n
}

func (g *Gen) pathNode(p pathEnt) *lib.Node {
	n := V(p.root)
	for _, st := range p.steps {
		switch {
		case st.attr != "":
			if lib.ValidIdent(st.attr) && g.R.Chance(4, 5) {
				n = Attr(n, st.attr)
			} else {
				n = Index(n, Str(st.attr))
			}
		case st.key.Type() == cty.String:
			k := st.key.AsString()
			if lib.ValidIdent(k) && g.R.Chance(1, 2) {
				n = Attr(n, k)
			} else {
				n = Index(n, Str(k))
			}
		default:
			i, _ := st.key.AsBigFloat().Int64()
			switch g.R.Intn(8) {
			case 0:
				n = &lib.Node{K: "legacy", S: fmt.Sprintf("%d", i), Kids: []*lib.Node{n}}
			case 1:
				// computed index with the same value
				n = Index(n, Bin("+", Num(fmt.Sprintf("%d", i)), Num("0")))
			default:
				n = Index(n, Num(fmt.Sprintf("%d", i)))
			}
		}
	}
	return n
}

// ---------------------------------------------------------------------------
// entry points

var arbTypes = []cty.Type{cty.Number, cty.String, cty.Bool, cty.List(cty.Number), cty.List(cty.String), cty.Map(cty.String),
	objItemType, cty.List(objItemType), cty.Set(cty.String), cty.DynamicPseudoType, cty.EmptyTuple, cty.Tuple([]cty.Type{cty.Number, cty.String})}

// SomeType draws a target type for a whole expression.
func (g *Gen) SomeType() cty.Type {
	switch g.R.Weighted([]int{22, 18, 14, 8, 6, 5, 5, 6, 4, 4, 4, 4}) {
	case 0:
		return cty.Number
	case 1:
		return cty.String
	case 2:
		return cty.Bool
	case 3:
		return cty.List(cty.Number)
	case 4:
		return cty.List(cty.String)
	case 5:
		return cty.List(objItemType)
	case 6:
		return cty.Map(cty.String)
	case 7:
		return cty.Map(cty.Number)
	case 8:
		return cty.Set(RandPrimType(g.R))
	case 9:
		return cty.Tuple([]cty.Type{RandPrimType(g.R), RandPrimType(g.R)})
	case 10:
		return cty.Object(map[string]cty.Type{"a": RandPrimType(g.R), "b": cty.List(cty.Number)})
	default:
		return RandType(g.R, 2)
	}
}

// Expr builds an expression for the target type (cty.DynamicPseudoType = any type).
func (g *Gen) Expr(ty cty.Type, d int) *lib.Node {
	if g.R.Intn(100) < g.Arb {
		ty = arbTypes[g.R.Intn(len(arbTypes))]
	}
	if d > 0 && g.R.Intn(100) < g.Wild {
		return g.wild(d)
	}
	return g.typed(ty, d)
}

func (g *Gen) wild(d int) *lib.Node {
	vars := g.Scope.Names()
	for _, l := range g.locals {
		vars = append(vars, l.name)
	}
	if len(vars) == 0 {
		vars = []string{"n1"}
	}
	eg := &lib.ExprGen{R: g.R, Vars: vars, Funcs: FuncNames, Strings: []string{"", "a", "12", "x y", "k1"}}
	if d > 2 {
		d = 2
	}
	return eg.Expr(d)
}

func (g *Gen) typed(ty cty.Type, d int) *lib.Node {
	switch {
	case ty == cty.DynamicPseudoType:
		return g.typed(g.SomeType(), d)
	case ty == cty.Number:
		return g.num(d)
	case ty == cty.String:
		return g.str(d)
	case ty == cty.Bool:
		return g.boolean(d)
	case ty.IsListType():
		return g.seq(ty.ElementType(), d)
	case ty.IsSetType():
		return g.set(ty.ElementType(), d)
	case ty.IsMapType():
		return g.mapping(ty.ElementType(), d)
	case ty.IsTupleType():
		if p, ok := g.pick(isExactly(ty)); ok && g.R.Chance(1, 3) {
			return g.pathNode(p)
		}
		n := &lib.Node{K: "tuple"}
		for _, ety := range ty.TupleElementTypes() {
			n.Kids = append(n.Kids, g.Expr(ety, d-1))
		}
		return n
	case ty.IsObjectType():
		if p, ok := g.pick(isExactly(ty)); ok && g.R.Chance(1, 3) {
			return g.pathNode(p)
		}
		n := &lib.Node{K: "object"}
		for _, a := range AttrNames(ty) {
			n.Kids = append(n.Kids, g.objKey(a), g.Expr(ty.AttributeType(a), d-1))
		}
		return n
	}
	return g.num(d)
}

func (g *Gen) objKey(name string) *lib.Node {
	if lib.ValidIdent(name) && name != "for" && g.R.Chance(3, 4) {
		return &lib.Node{K: "ident", S: name}
	}
	return Str(name)
}

// leaf returns a literal or a traversal of the type.
func (g *Gen) leaf(ty cty.Type) *lib.Node {
	if p, ok := g.pick(isExactly(ty)); ok && g.R.Chance(3, 4) {
		return g.pathNode(p)
	}
	switch {
	case ty == cty.Number:
		return NumLit(RandNumber(g.R))
	case ty == cty.String:
		return Str(RandString(g.R).AsString())
	case ty == cty.Bool:
		return &lib.Node{K: "bool", S: g.R.Pick([]string{"true", "false"})}
	}
	return g.typed(ty, 0)
}

// ---------------------------------------------------------------------------
// numbers

func (g *Gen) num(d int) *lib.Node {
	if d <= 0 {
		return g.leaf(cty.Number)
	}
	switch g.R.Weighted([]int{6, 22, 18, 4, 9, 8, 5, 4, 5, 2, 3, 2, 3, 2, 2, 3}) {
	case 0:
		return NumLit(RandNumber(g.R))
	case 1:
		return g.leaf(cty.Number)
	case 2:
		op := g.R.Pick([]string{"+", "+", "-", "*", "*", "/", "%"})
		rhs := g.num(d - 1)
		if (op == "/" || op == "%") && g.R.Chance(3, 4) {
			rhs = Num(fmt.Sprintf("%d", 1<<uint(g.R.Intn(4))))
		}
		return Bin(op, g.num(d-1), rhs)
	case 3:
		return &lib.Node{K: "unop", S: "-", Kids: []*lib.Node{g.num(d - 1)}}
	case 4:
		return g.indexInto(cty.Number, d)
	case 5:
		return Cond(g.boolean(d-1), g.num(d-1), g.num(d-1))
	case 6:
		var arg *lib.Node
		if g.R.Chance(1, 3) {
			arg = g.str(d - 1)
		} else if p, ok := g.pick(func(t cty.Type) bool { return isIterable(t) }); ok {
			arg = g.pathNode(p)
		} else {
			arg = g.seq(cty.Number, d-1)
		}
		return Call("length", arg)
	case 7:
		n := Call("min", g.num(d-1))
		for i := g.R.Intn(3); i > 0; i-- {
			n.Kids = append(n.Kids, g.num(d-1))
		}
		return n
	case 8:
		n := Call("sum")
		if g.R.Chance(1, 2) {
			for i := g.R.Intn(3); i > 0; i-- {
				n.Kids = append(n.Kids, g.num(d-1))
			}
			n.Kids = append(n.Kids, g.seq(cty.Number, d-1))
			n.Flag = true
		} else {
			for i := g.R.Intn(4); i > 0; i-- {
				n.Kids = append(n.Kids, g.num(d-1))
			}
		}
		return n
	case 9:
		return &lib.Node{K: "paren", Kids: []*lib.Node{g.num(d - 1)}}
	case 10:
		if _, ok := g.Scope["snum"]; ok && !g.shadowed("snum") && g.R.Chance(1, 2) {
			return V("snum")
		}
		return Str(g.R.Pick([]string{"12", "3.5", "-7", "0"}))
	case 11:
		return &lib.Node{K: "tmpl", Kids: []*lib.Node{{K: "interp", Kids: []*lib.Node{g.num(d - 1)}}}}
	case 12:
		return Index(g.forTuple(cty.Number, d-1), Num("0"))
	case 13:
		return Call("coalesce", g.num(d-1), g.num(d-1))
	case 14:
		return Call("ns::id", g.num(d-1))
	default:
		if n := g.splat(cty.Number, d-1); n != nil {
			// parentheses: a bare index after a splat would apply to every element instead
			return Index(&lib.Node{K: "paren", Kids: []*lib.Node{n}}, Num("0"))
		}
		return g.leaf(cty.Number)
	}
}

// indexInto indexes a sequence or mapping variable holding elements of the type.
func (g *Gen) indexInto(ety cty.Type, d int) *lib.Node {
	p, ok := g.pick(func(t cty.Type) bool {
		return (t.IsListType() || t.IsMapType()) && t.ElementType().Equals(ety)
	})
	if !ok {
		return Index(g.seq(ety, d-1), Num("0"))
	}
	src := g.pathNode(p)
	n := 0
	if p.val != cty.NilVal && p.val.IsKnown() && !p.val.IsNull() {
		n = p.val.LengthInt()
	}
	if p.ty.IsMapType() {
		if n > 0 && g.R.Chance(4, 5) {
			// an existing key
			i, pickAt := 0, g.R.Intn(n)
			for it := p.val.ElementIterator(); it.Next(); i++ {
				if k, _ := it.Element(); i == pickAt && !g.forbidden(k.AsString()) {
					return Index(src, Str(k.AsString()))
				}
			}
		}
		if g.R.Chance(1, 2) {
			return Index(src, g.str(d-1))
		}
		return Index(src, Str(KeyPool[g.R.Intn(len(KeyPool))]))
	}
	valid := 0
	if n > 0 {
		valid = g.R.Intn(n)
	}
	switch g.R.Intn(8) {
	case 0:
		return Index(src, g.num(d-1))
	case 1:
		return &lib.Node{K: "legacy", S: fmt.Sprintf("%d", valid), Kids: []*lib.Node{src}}
	case 2:
		return Index(src, Bin("-", Call("length", g.pathNode(p)), Num("1")))
	case 3:
		return Index(src, Num(fmt.Sprintf("%d", g.R.Intn(3))))
	default:
		return Index(src, Num(fmt.Sprintf("%d", valid)))
	}
}

// ---------------------------------------------------------------------------
// booleans

func (g *Gen) boolean(d int) *lib.Node {
	if d <= 0 {
		return g.leaf(cty.Bool)
	}
	switch g.R.Weighted([]int{4, 12, 25, 14, 15, 6, 6, 5, 6, 2, 3}) {
	case 0:
		return &lib.Node{K: "bool", S: g.R.Pick([]string{"true", "false"})}
	case 1:
		return g.leaf(cty.Bool)
	case 2:
		return Bin(g.R.Pick([]string{"<", "<=", ">", ">="}), g.num(d-1), g.num(d-1))
	case 3:
		t := []cty.Type{cty.Number, cty.String, cty.Bool, cty.List(cty.Number), cty.Map(cty.String)}[g.R.Intn(5)]
		return Bin(g.R.Pick([]string{"==", "!="}), g.typed(t, d-1), g.typed(t, d-1))
	case 4:
		return Bin(g.R.Pick([]string{"&&", "||"}), g.boolean(d-1), g.boolean(d-1))
	case 5:
		return &lib.Node{K: "unop", S: "!", Kids: []*lib.Node{g.boolean(d - 1)}}
	case 6:
		return Cond(g.boolean(d-1), g.boolean(d-1), g.boolean(d-1))
	case 7:
		return Bin(">", Call("length", g.seq(cty.String, d-1)), Num("0"))
	case 8:
		if p, ok := g.pick(func(cty.Type) bool { return true }); ok {
			return Bin(g.R.Pick([]string{"==", "!="}), g.pathNode(p), &lib.Node{K: "null", S: "null"})
		}
		return g.leaf(cty.Bool)
	case 9:
		return &lib.Node{K: "paren", Kids: []*lib.Node{g.boolean(d - 1)}}
	default:
		// string "true"/"false" converts to bool
		return Str(g.R.Pick([]string{"true", "false"}))
	}
}

// ---------------------------------------------------------------------------
// strings and templates

func (g *Gen) str(d int) *lib.Node {
	if d <= 0 {
		return g.leaf(cty.String)
	}
	switch g.R.Weighted([]int{6, 20, 24, 8, 6, 8, 7, 3, 2, 2}) {
	case 0:
		return Str(RandString(g.R).AsString())
	case 1:
		return g.leaf(cty.String)
	case 2:
		return g.Tmpl(d)
	case 3:
		return Call("upper", g.str(d-1))
	case 4:
		n := Call("join", Str(g.R.Pick([]string{",", "", "-", ", "})), g.seq(cty.String, d-1))
		if g.R.Chance(1, 4) {
			n.Kids = append(n.Kids, g.seq(cty.String, d-1))
		}
		return n
	case 5:
		return Cond(g.boolean(d-1), g.str(d-1), g.str(d-1))
	case 6:
		return g.indexInto(cty.String, d)
	case 7:
		n := Call("coalesce", g.str(d-1), g.str(d-1))
		if g.R.Chance(1, 3) {
			n = Call("coalesce", Tuple(g.str(d-1), g.str(d-1)))
			n.Flag = true
		}
		return n
	case 8:
		return &lib.Node{K: "tmpl", Kids: []*lib.Node{{K: "interp", Kids: []*lib.Node{g.str(d - 1)}}}}
	default:
		return Call("ns::id", g.str(d-1))
	}
}

var tlitPool = []string{"a", "x ", " - ", "hello", "pre", "${", "%{", "\"q\"", "é", "n\nl", ": ", "#", "12", "", "$", "%"}

func (g *Gen) stripFlags(n int) []int {
	out := make([]int, n)
	for i := range out {
		if g.R.Chance(1, 6) {
			out[i] |= 1
		}
		if g.R.Chance(1, 6) {
			out[i] |= 2
		}
	}
	return out
}

// Tmpl builds a template with literal parts, interpolations (with strip markers), if and for directives.
func (g *Gen) Tmpl(d int) *lib.Node {
	n := &lib.Node{K: "tmpl"}
	g.inTmpl++
	defer func() { g.inTmpl-- }()
	parts := 1 + g.R.Intn(4)
	for i := 0; i < parts; i++ {
		switch w := g.R.Weighted([]int{30, 45, 12, 13}); {
		case w == 0 || d <= 0:
			n.Kids = append(n.Kids, &lib.Node{K: "tlit", S: tlitPool[g.R.Intn(len(tlitPool))]})
		case w == 1:
			t := []cty.Type{cty.String, cty.String, cty.Number, cty.Bool}[g.R.Intn(4)]
			p := &lib.Node{K: "interp", Kids: []*lib.Node{g.Expr(t, d-1)}}
			if g.R.Chance(1, 6) {
				p.S = "~"
			}
			if g.R.Chance(1, 6) {
				p.S2 = "~"
			}
			n.Kids = append(n.Kids, p)
		case w == 2:
			p := &lib.Node{K: "tif", Kids: []*lib.Node{g.boolean(d - 1), g.Tmpl(d - 2)}, Sep: g.stripFlags(3)}
			if g.R.Chance(1, 2) {
				p.Kids = append(p.Kids, g.Tmpl(d-2))
			}
			n.Kids = append(n.Kids, p)
		default:
			src, cty_ := g.iterSource(d - 1)
			b := g.bind(cty_, g.R.Chance(1, 3))
			p := &lib.Node{K: "tfor", S: b.val, S2: b.key, Kids: []*lib.Node{src}, Sep: g.stripFlags(2)}
			g.locals = append(g.locals, b.locals...)
			p.Kids = append(p.Kids, g.Tmpl(d-2))
			g.locals = g.locals[:len(g.locals)-len(b.locals)]
			n.Kids = append(n.Kids, p)
		}
	}
	// merge adjacent literals the way the parser does, and keep a literal from ending in a bare introducer
	var merged []*lib.Node
	for _, p := range n.Kids {
		if p.K == "tlit" && len(merged) > 0 && merged[len(merged)-1].K == "tlit" {
			merged[len(merged)-1].S += p.S
			continue
		}
		merged = append(merged, p)
	}
	for _, p := range merged {
		if p.K == "tlit" {
			for len(p.S) > 0 && (p.S[len(p.S)-1] == '$' || p.S[len(p.S)-1] == '%') {
				p.S = p.S[:len(p.S)-1]
			}
		}
	}
	n.Kids = merged
	if g.inTmpl == 1 && g.R.Chance(1, 12) {
		n.Flag = true // heredoc
		if g.R.Chance(1, 3) {
			n.Sep = []int{1} // <<-
		}
	}
	return n
}

// ---------------------------------------------------------------------------
// binders

type binding struct {
	val, key string
	locals   []local
}

func elemTypes(coll cty.Type) (cty.Type, cty.Type) {
	switch {
	case coll.IsListType():
		return cty.Number, coll.ElementType()
	case coll.IsMapType():
		return cty.String, coll.ElementType()
	case coll.IsSetType():
		return coll.ElementType(), coll.ElementType()
	case coll.IsTupleType():
		etys := coll.TupleElementTypes()
		ety := cty.DynamicPseudoType
		for i, t := range etys {
			if i == 0 {
				ety = t
			} else if !t.Equals(ety) {
				ety = cty.DynamicPseudoType
			}
		}
		return cty.Number, ety
	case coll.IsObjectType():
		ety := cty.DynamicPseudoType
		for i, a := range AttrNames(coll) {
			t := coll.AttributeType(a)
			if i == 0 {
				ety = t
			} else if !t.Equals(ety) {
				ety = cty.DynamicPseudoType
			}
		}
		return cty.String, ety
	}
	return cty.DynamicPseudoType, cty.DynamicPseudoType
}

func (g *Gen) binderName(avoid string) string {
	if g.R.Intn(100) < g.Clash {
		names := g.Scope.Names()
		if len(names) > 0 {
			if n := names[g.R.Intn(len(names))]; n != avoid {
				return n
			}
		}
	}
	for {
		n := BinderNames[g.R.Intn(len(BinderNames))]
		if n != avoid {
			return n
		}
	}
}

func (g *Gen) bind(coll cty.Type, withKey bool) binding {
	kty, vty := elemTypes(coll)
	b := binding{val: g.binderName("")}
	if withKey {
		b.key = g.binderName(b.val)
		b.locals = append(b.locals, local{b.key, kty})
	}
	b.locals = append(b.locals, local{b.val, vty})
	return b
}

// iterSource returns a collection expression together with its static type (DynamicPseudoType elements
// when unknown).
func (g *Gen) iterSource(d int) (*lib.Node, cty.Type) {
	if g.R.Chance(4, 5) {
		for try := 0; try < 4; try++ {
			if p, ok := g.pick(isIterable); ok && !(g.nonNullIter && p.null) {
				return g.pathNode(p), p.ty
			}
		}
	}
	switch g.R.Intn(4) {
	case 0:
		t := RandPrimType(g.R)
		n := &lib.Node{K: "tuple"}
		for i := 1 + g.R.Intn(3); i > 0; i-- {
			n.Kids = append(n.Kids, g.Expr(t, d-1))
		}
		etys := make([]cty.Type, len(n.Kids))
		for i := range etys {
			etys[i] = t
		}
		return n, cty.Tuple(etys)
	case 1:
		t := RandPrimType(g.R)
		n := &lib.Node{K: "object"}
		atys := map[string]cty.Type{}
		for _, a := range []string{"a", "b", "k1"}[:1+g.R.Intn(3)] {
			n.Kids = append(n.Kids, g.objKey(a), g.Expr(t, d-1))
			atys[a] = t
		}
		return n, cty.Object(atys)
	case 2:
		t := RandPrimType(g.R)
		return g.seq(t, d-1), cty.List(t)
	default:
		return g.mapping(cty.String, d-1), cty.Map(cty.String)
	}
}

func (g *Gen) forTuple(ety cty.Type, d int) *lib.Node {
	src, cty_ := g.iterSource(d)
	b := g.bind(cty_, g.R.Chance(1, 2))
	n := &lib.Node{K: "fortuple", S: b.val, S2: b.key, Kids: []*lib.Node{src}}
	g.locals = append(g.locals, b.locals...)
	n.Kids = append(n.Kids, g.Expr(ety, d-1))
	if g.R.Chance(1, 3) {
		n.Kids = append(n.Kids, g.boolean(d-1))
	}
	g.locals = g.locals[:len(g.locals)-len(b.locals)]
	return n
}

func (g *Gen) forObject(ety cty.Type, d int) *lib.Node {
	src, cty_ := g.iterSource(d)
	kty, _ := elemTypes(cty_)
	b := g.bind(cty_, g.R.Chance(3, 4))
	n := &lib.Node{K: "forobj", S: b.val, S2: b.key, Kids: []*lib.Node{src}}
	g.locals = append(g.locals, b.locals...)
	var key *lib.Node
	switch {
	case b.key != "" && kty == cty.String && g.R.Chance(2, 3):
		key = V(b.key)
	case b.key != "" && g.R.Chance(2, 3):
		key = &lib.Node{K: "tmpl", Kids: []*lib.Node{{K: "tlit", S: "k"}, {K: "interp", Kids: []*lib.Node{V(b.key)}}}}
	default:
		key = g.str(d - 1)
	}
	n.Kids = append(n.Kids, key, g.Expr(ety, d-1))
	n.Flag = g.R.Chance(1, 4)
	if g.R.Chance(1, 3) {
		n.Kids = append(n.Kids, g.boolean(d-1))
	}
	g.locals = g.locals[:len(g.locals)-len(b.locals)]
	return n
}

// ---------------------------------------------------------------------------
// collections

// splat builds source[*].attr / source.*.attr over a list, set or tuple of objects (or a single object,
// which is upgraded to a one-element tuple) whose attribute has the element type; nil when the scope has
// no candidate.
func (g *Gen) splat(ety cty.Type, d int) *lib.Node {
	type cand struct {
		p     pathEnt
		attrs []string
	}
	var cands []cand
	consider := func(p pathEnt) {
		var oty cty.Type
		switch {
		case (p.ty.IsListType() || p.ty.IsSetType()) && p.ty.ElementType().IsObjectType():
			oty = p.ty.ElementType()
		case p.ty.IsObjectType():
			oty = p.ty
		case p.ty.IsTupleType():
			etys := p.ty.TupleElementTypes()
			if len(etys) == 0 || !etys[0].IsObjectType() {
				return
			}
			for _, t := range etys {
				if !t.Equals(etys[0]) {
					return
				}
			}
			oty = etys[0]
		default:
			return
		}
		var attrs []string
		for _, a := range AttrNames(oty) {
			if oty.AttributeType(a).Equals(ety) && lib.ValidIdent(a) {
				attrs = append(attrs, a)
			}
		}
		if len(attrs) > 0 {
			cands = append(cands, cand{p, attrs})
		}
	}
	for _, p := range g.localPaths() {
		consider(p)
	}
	for _, p := range g.paths {
		if !g.shadowed(p.root) {
			consider(p)
		}
	}
	if len(cands) == 0 {
		return nil
	}
	c := cands[g.R.Intn(len(cands))]
	kind := "fsplat"
	if g.R.Chance(1, 3) {
		kind = "asplat"
	}
	n := &lib.Node{K: kind, Kids: []*lib.Node{g.pathNode(c.p)}}
	return Attr(n, c.attrs[g.R.Intn(len(c.attrs))])
}

func (g *Gen) seq(ety cty.Type, d int) *lib.Node {
	lt := cty.List(ety)
	if d <= 0 {
		if p, ok := g.pick(isExactly(lt)); ok && g.R.Chance(2, 3) {
			return g.pathNode(p)
		}
		n := &lib.Node{K: "tuple"}
		for i := g.R.Intn(3); i > 0; i-- {
			n.Kids = append(n.Kids, g.leaf(ety))
		}
		return n
	}
	switch g.R.Weighted([]int{20, 25, 20, 10, 5, 6, 6, 4, 2}) {
	case 0:
		if p, ok := g.pick(isExactly(lt)); ok {
			return g.pathNode(p)
		}
		fallthrough
	case 1:
		n := &lib.Node{K: "tuple"}
		for i := g.R.Intn(4); i > 0; i-- {
			n.Kids = append(n.Kids, g.Expr(ety, d-1))
		}
		return n
	case 2:
		return g.forTuple(ety, d)
	case 3:
		if n := g.splat(ety, d); n != nil {
			return n
		}
		return g.forTuple(ety, d)
	case 4:
		return Call("tolist", g.seq(ety, d-1))
	case 5:
		return Call("concat", g.seq(ety, d-1), g.seq(ety, d-1))
	case 6:
		return Cond(g.boolean(d-1), g.seq(ety, d-1), g.seq(ety, d-1))
	case 7:
		if ety == cty.String {
			return Call("keys", g.mapping(RandPrimType(g.R), d-1))
		}
		return g.forTuple(ety, d)
	default:
		return &lib.Node{K: "paren", Kids: []*lib.Node{g.seq(ety, d-1)}}
	}
}

func (g *Gen) set(ety cty.Type, d int) *lib.Node {
	if p, ok := g.pick(isExactly(cty.Set(ety))); ok && (d <= 0 || g.R.Chance(2, 5)) {
		return g.pathNode(p)
	}
	if d > 1 && g.R.Chance(1, 8) {
		return Cond(g.boolean(d-1), g.set(ety, d-1), g.set(ety, d-1))
	}
	return Call("toset", g.seq(ety, d-1))
}

func (g *Gen) mapping(ety cty.Type, d int) *lib.Node {
	mt := cty.Map(ety)
	if p, ok := g.pick(isExactly(mt)); ok && (d <= 0 || g.R.Chance(1, 4)) {
		return g.pathNode(p)
	}
	if d <= 0 {
		n := &lib.Node{K: "object"}
		for _, a := range []string{"a", "b"}[:g.R.Intn(3)] {
			n.Kids = append(n.Kids, g.objKey(a), g.leaf(ety))
		}
		return n
	}
	switch g.R.Weighted([]int{40, 40, 10, 10}) {
	case 0:
		n := &lib.Node{K: "object"}
		used := map[string]bool{}
		for i := g.R.Intn(4); i > 0; i-- {
			var k *lib.Node
			switch g.R.Intn(6) {
			case 0:
				k = g.str(d - 1) // computed key (parenthesised unless it is a template)
			case 1:
				k = &lib.Node{K: "tmpl", Kids: []*lib.Node{{K: "tlit", S: "k"}, {K: "interp", Kids: []*lib.Node{g.num(d - 1)}}}}
			default:
				name := KeyPool[g.R.Intn(len(KeyPool))]
				if used[name] {
					continue
				}
				used[name] = true
				k = g.objKey(name)
			}
			n.Kids = append(n.Kids, k, g.Expr(ety, d-1))
		}
		if len(n.Kids) > 0 && n.Kids[0].K == "ident" && n.Kids[0].S == "for" {
			n.Kids[0] = Str("for")
		}
		return n
	case 1:
		return g.forObject(ety, d)
	case 2:
		return Cond(g.boolean(d-1), g.mapping(ety, d-1), g.mapping(ety, d-1))
	default:
		return &lib.Node{K: "paren", Kids: []*lib.Node{g.mapping(ety, d-1)}}
	}
}

// ---------------------------------------------------------------------------
// statistics and analysis

// Depth is the height of the tree.
func Depth(n *lib.Node) int {
	m := 0
	for _, k := range n.Kids {
		if d := Depth(k); d > m {
			m = d
		}
	}
	return m + 1
}

// HasVar reports whether any variable reference occurs in the subtree.
func HasVar(n *lib.Node) bool {
	found := false
	n.Walk(func(x *lib.Node) {
		if x.K == "var" {
			found = true
		}
	})
	return found
}

// CountStats records the node-kind histogram, the depth bucket and the share of conditionals with a
// constant condition.
func CountStats(res *lib.Result, n *lib.Node) {
	n.Walk(func(x *lib.Node) {
		res.Count("kind:" + x.K)
		switch x.K {
		case "cond":
			res.Count("cond-total")
			if !HasVar(x.Kids[0]) {
				res.Count("cond-constant-condition")
			}
		case "call":
			if x.Flag {
				res.Count("call-expansion")
			}
			res.Count("call:" + x.S)
		case "forobj":
			if x.Flag {
				res.Count("forobj-group")
			}
			if len(x.Kids) > 3 {
				res.Count("for-filter")
			}
			if x.S2 != "" {
				res.Count("for-keyvar")
			}
		case "fortuple":
			if len(x.Kids) > 2 {
				res.Count("for-filter")
			}
			if x.S2 != "" {
				res.Count("for-keyvar")
			}
		case "interp":
			if x.S != "" || x.S2 != "" {
				res.Count("tmpl-strip-marker")
			}
		case "tif", "tfor":
			for _, s := range x.Sep {
				if s != 0 {
					res.Count("tmpl-strip-marker")
					break
				}
			}
		case "tmpl":
			if x.Flag {
				res.Count("tmpl-heredoc")
			}
		}
	})
	d := Depth(n)
	if d > 9 {
		d = 9
	}
	res.Count(fmt.Sprintf("depth:%d", d))
}

// SubExprs lists the direct sub-expressions of a node (looking through template parts; object keys
// written as bare identifiers are not expressions).
func SubExprs(n *lib.Node) []*lib.Node {
	var out []*lib.Node
	switch n.K {
	case "tmpl":
		for _, p := range n.Kids {
			switch p.K {
			case "interp":
				out = append(out, p.Kids[0])
			case "tif", "tfor":
				out = append(out, p.Kids...)
			}
		}
	case "object":
		for i, k := range n.Kids {
			if i%2 == 0 && k.K == "ident" {
				continue
			}
			out = append(out, k)
		}
	default:
		out = append(out, n.Kids...)
	}
	return out
}

// FreeVars lists the free variable occurrences of a tree in walk order (one entry per reference).
func FreeVars(n *lib.Node) []string {
	var out []string
	freeVars(n, nil, &out)
	return out
}

func freeVars(n *lib.Node, bound []string, out *[]string) {
	isBound := func(s string) bool {
		for _, b := range bound {
			if b == s {
				return true
			}
		}
		return false
	}
	switch n.K {
	case "var":
		if !isBound(n.S) {
			*out = append(*out, n.S)
		}
	case "fortuple", "forobj":
		freeVars(n.Kids[0], bound, out)
		nb := append(append([]string{}, bound...), n.S)
		if n.S2 != "" {
			nb = append(nb, n.S2)
		}
		for _, k := range n.Kids[1:] {
			freeVars(k, nb, out)
		}
	case "tfor":
		freeVars(n.Kids[0], bound, out)
		nb := append(append([]string{}, bound...), n.S)
		if n.S2 != "" {
			nb = append(nb, n.S2)
		}
		freeVars(n.Kids[1], nb, out)
	case "object":
		for i, k := range n.Kids {
			if i%2 == 0 && k.K == "ident" {
				continue
			}
			freeVars(k, bound, out)
		}
	case "raw", "ident", "tlit":
	default:
		for _, k := range n.Kids {
			freeVars(k, bound, out)
		}
	}
}

// FreeRoots is the sorted set of free variable names.
func FreeRoots(n *lib.Node) []string {
	seen := map[string]bool{}
	var out []string
	for _, v := range FreeVars(n) {
		if !seen[v] {
			seen[v] = true
			out = append(out, v)
		}
	}
	sort.Strings(out)
	return out
}

// Minimize descends into sub-expressions for which the predicate still holds and returns the smallest
// failing subtree found on that path (the whole tree when no sub-expression fails on its own). Below a
// binder (for expression, template for directive) the body is tried with the bound names replaced by
// literals of the first elements of the collection, as evaluated in the given scope.
func Minimize(n *lib.Node, fails func(*lib.Node) bool, scope ...Scope) *lib.Node {
	for steps := 0; steps < 40; steps++ {
		var next *lib.Node
		cands := SubExprs(n)
		if len(scope) > 0 {
			cands = append(cands, instantiatedBodies(n, scope[0])...)
		}
		for _, c := range cands {
			if c.K == "ident" || c.K == "tlit" {
				continue
			}
			if fails(c) {
				next = c
				break
			}
		}
		if next == nil {
			return n
		}
		n = next
	}
	return n
}

// ValueNode writes a value as a literal expression (ok=false for sets, marked, unknown values).
func ValueNode(v cty.Value) (*lib.Node, bool) {
	if v.IsMarked() || !v.IsKnown() {
		return nil, false
	}
	if v.IsNull() {
		return &lib.Node{K: "null", S: "null"}, true
	}
	ty := v.Type()
	switch {
	case ty == cty.Number:
		if v.RawEquals(cty.PositiveInfinity) || v.RawEquals(cty.NegativeInfinity) {
			return nil, false
		}
		return NumLit(v), true
	case ty == cty.String:
		return Str(v.AsString()), true
	case ty == cty.Bool:
		if v.True() {
			return &lib.Node{K: "bool", S: "true"}, true
		}
		return &lib.Node{K: "bool", S: "false"}, true
	case ty.IsListType() || ty.IsTupleType():
		n := &lib.Node{K: "tuple"}
		for it := v.ElementIterator(); it.Next(); {
			_, ev := it.Element()
			k, ok := ValueNode(ev)
			if !ok {
				return nil, false
			}
			n.Kids = append(n.Kids, k)
		}
		return n, true
	case ty.IsMapType() || ty.IsObjectType():
		n := &lib.Node{K: "object"}
		for it := v.ElementIterator(); it.Next(); {
			kv, ev := it.Element()
			k, ok := ValueNode(ev)
			if !ok {
				return nil, false
			}
			n.Kids = append(n.Kids, Str(kv.AsString()), k)
		}
		return n, true
	}
	return nil, false
}

// substitute copies a tree replacing free occurrences of the names by the given nodes.
func substitute(n *lib.Node, repl map[string]*lib.Node) *lib.Node {
	if n.K == "var" {
		if r, ok := repl[n.S]; ok {
			return &lib.Node{K: "paren", Kids: []*lib.Node{r}}
		}
		return n
	}
	c := *n
	c.Kids = make([]*lib.Node, len(n.Kids))
	for i, k := range n.Kids {
		inner := repl
		if (n.K == "fortuple" || n.K == "forobj" || n.K == "tfor") && i > 0 {
			// names re-bound by an inner binder are no longer ours
			if _, a := repl[n.S]; a || repl[n.S2] != nil {
				inner = map[string]*lib.Node{}
				for name, r := range repl {
					if name != n.S && name != n.S2 {
						inner[name] = r
					}
				}
			}
		}
		c.Kids[i] = substitute(k, inner)
	}
	return &c
}

// instantiatedBodies returns, for a binder node, its scoped children with the bound names replaced by
// the first two elements of the collection (as index expressions, or as literals for sets).
func instantiatedBodies(n *lib.Node, s Scope) []*lib.Node {
	var binders []*lib.Node
	switch n.K {
	case "fortuple", "forobj":
		binders = []*lib.Node{n}
	case "tmpl":
		for _, p := range n.Kids {
			if p.K == "tfor" {
				binders = append(binders, p)
			}
		}
	}
	var out []*lib.Node
	for _, b := range binders {
		coll, _ := EvalNode(b.Kids[0], s)
		if coll == cty.NilVal {
			continue
		}
		coll, _ = coll.Unmark()
		if !coll.IsKnown() || coll.IsNull() || !coll.CanIterateElements() {
			continue
		}
		i := 0
		for it := coll.ElementIterator(); it.Next() && i < 2; i++ {
			k, v := it.Element()
			repl := map[string]*lib.Node{}
			kn, kok := ValueNode(k)
			if kok && !coll.Type().IsSetType() {
				// the element as an index expression: marks and unknown parts keep flowing from the scope
				repl[b.S] = Index(&lib.Node{K: "paren", Kids: []*lib.Node{b.Kids[0]}}, kn)
			} else if vn, ok := ValueNode(v); ok {
				repl[b.S] = vn
			}
			if b.S2 != "" && kok {
				repl[b.S2] = kn
			}
			if len(repl) == 0 {
				continue
			}
			for _, body := range b.Kids[1:] {
				out = append(out, substitute(body, repl))
			}
		}
	}
	return out
}
