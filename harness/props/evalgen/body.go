package evalgen

import (
	"encoding/json"
	"fmt"
	"sort"

	"github.com/hashicorp/hcl/v2"
	"github.com/hashicorp/hcl/v2/hcldec"
	"github.com/hashicorp/hcl/v2/hclsyntax"
	"github.com/zclconf/go-cty/cty"

	"hx/lib"
)

// SpecItem is the serialisable description of one entry of an hcldec.ObjectSpec.
type SpecItem struct {
	Kind     string          `json:"kind"` // attr block blocklist blocktuple blockset blockmap blockobject blockattrs label
	Name     string          `json:"name"` // key in the object spec = attribute name / block type name
	Type     json.RawMessage `json:"type,omitempty"`
	Required bool            `json:"required,omitempty"`
	Labels   []string        `json:"labels,omitempty"`
	Index    int             `json:"index,omitempty"`
	Nested   []SpecItem      `json:"nested,omitempty"`
}

func (it SpecItem) attrType() cty.Type {
	if len(it.Type) == 0 {
		return cty.DynamicPseudoType
	}
	t, err := decType(it.Type)
	if err != nil {
		return cty.DynamicPseudoType
	}
	return t
}

// IsBlock reports whether the item describes nested blocks.
func (it SpecItem) IsBlock() bool { return it.Kind != "attr" && it.Kind != "label" }

// BuildItem builds the hcldec spec of one item.
func BuildItem(it SpecItem) hcldec.Spec {
	nested := func() hcldec.Spec { return BuildSpec(it.Nested) }
	switch it.Kind {
	case "attr":
		return &hcldec.AttrSpec{Name: it.Name, Type: it.attrType(), Required: it.Required}
	case "label":
		return &hcldec.BlockLabelSpec{Index: it.Index, Name: it.Name}
	case "block":
		return &hcldec.BlockSpec{TypeName: it.Name, Nested: nested(), Required: it.Required}
	case "blocklist":
		return &hcldec.BlockListSpec{TypeName: it.Name, Nested: nested()}
	case "blocktuple":
		return &hcldec.BlockTupleSpec{TypeName: it.Name, Nested: nested()}
	case "blockset":
		return &hcldec.BlockSetSpec{TypeName: it.Name, Nested: nested()}
	case "blockmap":
		return &hcldec.BlockMapSpec{TypeName: it.Name, LabelNames: it.Labels, Nested: nested()}
	case "blockobject":
		return &hcldec.BlockObjectSpec{TypeName: it.Name, LabelNames: it.Labels, Nested: nested()}
	case "blockattrs":
		return &hcldec.BlockAttrsSpec{TypeName: it.Name, ElementType: it.attrType(), Required: it.Required}
	}
	panic("BuildItem: unknown kind " + it.Kind)
}

// BuildSpec builds the object spec of a list of items.
func BuildSpec(items []SpecItem) hcldec.Spec {
	o := hcldec.ObjectSpec{}
	for _, it := range items {
		o[it.Name] = BuildItem(it)
	}
	return o
}

// BodyCase is a generated body with its decoding specification and scope.
type BodyCase struct {
	Scope Scope
	Items []SpecItem
	Tree  *lib.Node // K="body" tree (lib.BodyGen conventions; dynamic blocks are ordinary block nodes)
	Src   string
	File  *hcl.File
	Body  hcl.Body
}

// BodyFilename is the file name of every parsed body.
const BodyFilename = "body.hcl"

// RenderBody renders and parses the tree; false when the text does not parse.
func (b *BodyCase) RenderBody() bool {
	var toks []lib.Tk
	(&lib.Renderer{}).BodyTokens(&toks, lowerBody(b.Tree))
	b.Src = (&lib.Layout{}).Render(toks, true)
	f, diags := hclsyntax.ParseConfig([]byte(b.Src), BodyFilename, hcl.InitialPos)
	if diags.HasErrors() {
		return false
	}
	b.File = f
	b.Body = f.Body
	return true
}

func lowerBody(n *lib.Node) *lib.Node {
	c := *n
	c.Kids = make([]*lib.Node, len(n.Kids))
	for i, k := range n.Kids {
		switch k.K {
		case "attrdef":
			a := *k
			a.Kids = []*lib.Node{lower(k.Kids[0])}
			c.Kids[i] = &a
		case "block":
			bl := *k
			bl.Kids = append([]*lib.Node{}, k.Kids...)
			bl.Kids[len(bl.Kids)-1] = lowerBody(k.Kids[len(k.Kids)-1])
			c.Kids[i] = &bl
		default:
			c.Kids[i] = k
		}
	}
	return &c
}

// Files is the file map for diagnostic rendering.
func (b *BodyCase) Files() map[string]*hcl.File {
	return map[string]*hcl.File{BodyFilename: b.File}
}

// BodyJSON is the replayable form of a body case.
type BodyJSON struct {
	Prop  string             `json:"prop"`
	Mode  string             `json:"mode"`
	Src   string             `json:"src"`
	Items []SpecItem         `json:"spec"`
	Tree  *lib.Node          `json:"tree,omitempty"`
	Scope map[string]*EncVal `json:"scope"`
	Extra json.RawMessage    `json:"extra,omitempty"`
}

func (b *BodyCase) Encode(prop, mode string, extra interface{}) string {
	bj := BodyJSON{Prop: prop, Mode: mode, Src: b.Src, Items: b.Items, Tree: b.Tree, Scope: EncodeScope(b.Scope)}
	if extra != nil {
		if raw, err := json.Marshal(extra); err == nil {
			bj.Extra = raw
		}
	}
	return JSONString(bj)
}

// DecodeBodyCase parses a replay document of a body case.
func DecodeBodyCase(doc string) (*BodyCase, *BodyJSON, error) {
	var bj BodyJSON
	if err := json.Unmarshal([]byte(doc), &bj); err != nil {
		return nil, nil, err
	}
	s, err := DecodeScope(bj.Scope)
	if err != nil {
		return nil, nil, err
	}
	f, diags := hclsyntax.ParseConfig([]byte(bj.Src), BodyFilename, hcl.InitialPos)
	if diags.HasErrors() {
		return nil, nil, fmt.Errorf("replay body does not parse: %s", diags.Error())
	}
	return &BodyCase{Scope: s, Items: bj.Items, Tree: bj.Tree, Src: bj.Src, File: f, Body: f.Body}, &bj, nil
}

// ---------------------------------------------------------------------------
// generation

// BodyGen generates specs and bodies that fit them.
type BodyGen struct {
	G   *Gen
	Dyn int // percent: a block position is filled by a "dynamic" block
	// BadShare (percent) of attributes get an expression of an arbitrary type instead of the spec's type
	BadShare int
	// NoBlockAttrs leaves out BlockAttrsSpec items
	NoBlockAttrs bool
}

var attrItemNames = []string{"a", "b", "name", "count", "cfg", "tags", "enabled"}
var blockItemNames = []string{"blk", "item", "svc", "rule", "grp"}
var attrItemTypes = []cty.Type{cty.Number, cty.String, cty.Bool, cty.List(cty.String), cty.Map(cty.Number), cty.DynamicPseudoType, cty.List(cty.Number),
	cty.Object(map[string]cty.Type{"a": cty.Number, "b": cty.String}), cty.Set(cty.String)}

// Items draws the items of an object spec. homog is set below list / set / map block specs, where hcldec
// requires a statically known uniform type (it panics by design for dynamically-typed attributes there,
// and tuple / object block specs have a dynamic implied type as well).
func (bg *BodyGen) Items(depth int, homog bool) []SpecItem {
	r := bg.G.R
	var out []SpecItem
	used := map[string]bool{}
	n := 1 + r.Intn(4)
	for i := 0; i < n; i++ {
		if depth > 0 && r.Chance(1, 2) {
			name := blockItemNames[r.Intn(len(blockItemNames))]
			if used[name] {
				continue
			}
			used[name] = true
			kinds := []string{"block", "blocklist", "blocklist", "blockset", "blockmap", "blockattrs", "blocktuple", "blockobject"}
			if homog {
				kinds = kinds[:6]
			}
			it := SpecItem{Kind: kinds[r.Intn(len(kinds))], Name: name}
			if it.Kind == "blockattrs" && bg.NoBlockAttrs {
				it.Kind = "blocklist"
			}
			switch it.Kind {
			case "blockattrs":
				// (hcldec panics in cty.MapVal for a dynamically-typed BlockAttrsSpec whose attributes differ in type)
				it.Type = encType([]cty.Type{cty.String, cty.Number}[r.Intn(2)])
			case "blockmap", "blockobject":
				it.Labels = []string{"key"}
				if it.Kind == "blockobject" && r.Chance(1, 4) {
					// (a BlockMapSpec with two labels and no blocks decodes to a one-level empty map, which
					// makes an enclosing list/map constructor panic: not generated)
					it.Labels = []string{"key", "sub"}
				}
				it.Nested = bg.Items(depth-1, homog || it.Kind == "blockmap")
			default:
				it.Nested = bg.Items(depth-1, homog || it.Kind == "blocklist" || it.Kind == "blockset")
			}
			if it.Kind != "blockattrs" && r.Chance(1, 5) {
				// a label spec in the nested spec demands one more label on every block of this type
				it.Nested = append(it.Nested, SpecItem{Kind: "label", Name: "lbl", Index: 0})
			}
			out = append(out, it)
			continue
		}
		name := attrItemNames[r.Intn(len(attrItemNames))]
		if used[name] {
			continue
		}
		used[name] = true
		aty := attrItemTypes[r.Intn(len(attrItemTypes))]
		if aty == cty.DynamicPseudoType && homog {
			aty = cty.String
		}
		out = append(out, SpecItem{Kind: "attr", Name: name, Type: encType(aty), Required: r.Chance(1, 8)})
	}
	return out
}

// LabelCount is the number of labels every block of the item's type must have.
func (it SpecItem) LabelCount() int {
	n := len(it.Labels)
	for _, k := range it.Nested {
		if k.Kind == "label" {
			n++
		}
	}
	return n
}

func attrDef(name string, e *lib.Node) *lib.Node {
	return &lib.Node{K: "attrdef", S: name, Kids: []*lib.Node{e}}
}

func blockNode(typ string, labels []string, body *lib.Node) *lib.Node {
	b := &lib.Node{K: "block", S: typ}
	for _, l := range labels {
		b.Kids = append(b.Kids, &lib.Node{K: "label", S: l, Flag: true})
	}
	b.Kids = append(b.Kids, body)
	return b
}

// Body builds a body for the items. exprDepth bounds the expressions.
func (bg *BodyGen) Body(items []SpecItem, exprDepth, dynDepth int) *lib.Node {
	g := bg.G
	r := g.R
	body := &lib.Node{K: "body"}
	for _, it := range items {
		switch it.Kind {
		case "label":
		case "attr":
			if !it.Required && r.Chance(1, 10) {
				continue
			}
			ty := it.attrType()
			if r.Intn(100) < bg.BadShare {
				ty = arbTypes[r.Intn(len(arbTypes))]
			}
			body.Kids = append(body.Kids, attrDef(it.Name, g.Expr(ty, r.Intn(exprDepth+1))))
		case "blockattrs":
			mk := func() *lib.Node {
				inner := &lib.Node{K: "body"}
				for _, k := range []string{"k1", "k2", "x"}[:r.Intn(4)] {
					inner.Kids = append(inner.Kids, attrDef(k, g.Expr(it.attrType(), r.Intn(exprDepth+1))))
				}
				return inner
			}
			if r.Intn(100) < bg.Dyn && dynDepth > 0 {
				body.Kids = append(body.Kids, bg.dynamic(it, exprDepth, dynDepth, func() *lib.Node { return mk() }))
			} else if r.Chance(4, 5) {
				body.Kids = append(body.Kids, blockNode(it.Name, nil, mk()))
			}
		default:
			single := it.Kind == "block"
			nStatic := r.Intn(3)
			if single {
				nStatic = r.Intn(2)
			}
			useDyn := r.Intn(100) < bg.Dyn && dynDepth > 0
			if single && useDyn {
				nStatic = 0
			}
			mk := func() *lib.Node { return bg.Body(it.Nested, exprDepth, dynDepth-1) }
			for i := 0; i < nStatic; i++ {
				var labels []string
				for j := 0; j < it.LabelCount(); j++ {
					labels = append(labels, fmt.Sprintf("s%d%c", i, 'a'+j))
				}
				body.Kids = append(body.Kids, blockNode(it.Name, labels, mk()))
			}
			if useDyn {
				body.Kids = append(body.Kids, bg.dynamic(it, exprDepth, dynDepth, mk))
			}
		}
	}
	return body
}

// dynamic builds   dynamic "<type>" { for_each = ...; [iterator = ...]; [labels = [...]]; content { ... } }
func (bg *BodyGen) dynamic(it SpecItem, exprDepth, dynDepth int, content func() *lib.Node) *lib.Node {
	g := bg.G
	r := g.R
	g.nonNullIter = !r.Chance(1, 12)
	coll, collTy := g.iterSource(1 + r.Intn(2))
	g.nonNullIter = false
	iter := it.Name
	inner := &lib.Node{K: "body"}
	inner.Kids = append(inner.Kids, attrDef("for_each", coll))
	if r.Chance(2, 5) {
		iter = g.binderName("")
		if r.Chance(1, 2) {
			iter = "it"
		}
		inner.Kids = append(inner.Kids, attrDef("iterator", V(iter)))
	}
	// now and then the collection is a root variable that has the very name of this block's iterator: for_each
	// is evaluated outside the iterator's scope, so that variable is a genuine dependency
	if coll.K == "var" && r.Chance(1, 5) {
		if v, ok := g.Scope[coll.S]; ok {
			if _, taken := g.Scope[iter]; !taken {
				g.Scope[iter] = v
				coll = V(iter)
				inner.Kids[0] = attrDef("for_each", coll)
			}
		}
	}
	kty, vty := elemTypes(collTy)
	g.locals = append(g.locals, local{iter, cty.Object(map[string]cty.Type{"key": kty, "value": vty})})
	if it.LabelCount() > 0 {
		lab := &lib.Node{K: "tuple"}
		for j := 0; j < it.LabelCount(); j++ {
			var e *lib.Node
			switch {
			case j == 0 && kty == cty.String && r.Chance(2, 3):
				e = Attr(V(iter), "key")
			case r.Chance(3, 4):
				e = &lib.Node{K: "tmpl", Kids: []*lib.Node{{K: "tlit", S: fmt.Sprintf("l%d-", j)}, {K: "interp", Kids: []*lib.Node{Attr(V(iter), "key")}}}}
			default:
				e = g.str(1)
			}
			lab.Kids = append(lab.Kids, e)
		}
		inner.Kids = append(inner.Kids, attrDef("labels", lab))
	}
	inner.Kids = append(inner.Kids, blockNode("content", nil, content()))
	g.locals = g.locals[:len(g.locals)-1]
	return blockNode("dynamic", []string{it.Name}, inner)
}

// NewBodyCase draws a scope, a spec and a fitting body.
func NewBodyCase(r *lib.Rand, o Options, dyn, bad int) (*BodyCase, bool) {
	s := o.Scope
	if s == nil {
		s = NewScope(r)
	}
	g := NewGen(r, s, o.Forbidden...)
	g.Arb, g.Wild, g.AvoidNull = 2, 0, true
	if o.Arb >= 0 {
		g.Arb = o.Arb
		g.AvoidNull = false
	}
	if o.Wild >= 0 {
		g.Wild = o.Wild
	}
	if o.Clash >= 0 {
		g.Clash = o.Clash
	}
	g.Prefer = o.Prefer
	bg := &BodyGen{G: g, Dyn: dyn, BadShare: bad, NoBlockAttrs: o.NoBlockAttrs}
	items := bg.Items(2, false)
	b := &BodyCase{Scope: s, Items: items, Tree: bg.Body(items, 2, 2)}
	return b, b.RenderBody()
}

// ---------------------------------------------------------------------------
// analysis of body trees

type dynParts struct {
	typ      string
	forEach  *lib.Node
	iterator string
	labels   *lib.Node
	content  []*lib.Node // bodies of content blocks
}

func dynamicParts(blk *lib.Node) dynParts {
	d := dynParts{}
	if len(blk.Kids) >= 2 {
		d.typ = blk.Kids[0].S
	}
	d.iterator = d.typ
	inner := blk.Kids[len(blk.Kids)-1]
	for _, k := range inner.Kids {
		switch {
		case k.K == "attrdef" && k.S == "for_each":
			d.forEach = k.Kids[0]
		case k.K == "attrdef" && k.S == "iterator":
			if k.Kids[0].K == "var" {
				d.iterator = k.Kids[0].S
			}
		case k.K == "attrdef" && k.S == "labels":
			d.labels = k.Kids[0]
		case k.K == "block" && k.S == "content":
			d.content = append(d.content, k.Kids[len(k.Kids)-1])
		}
	}
	return d
}

func without(names []string, bound map[string]bool) []string {
	var out []string
	for _, n := range names {
		if !bound[n] {
			out = append(out, n)
		}
	}
	return out
}

// BodyFreeRoots computes, from the tree, the variable names a body needs from the root scope: all of them
// (expandOnly=false: attribute values, for_each and labels; iterator names bound by enclosing dynamic
// blocks are excluded) or only those needed to expand dynamic blocks (for_each and labels).
func BodyFreeRoots(body *lib.Node, expandOnly bool) []string {
	seen := map[string]bool{}
	var walk func(b *lib.Node, bound map[string]bool)
	add := func(names []string) {
		for _, n := range names {
			seen[n] = true
		}
	}
	walk = func(b *lib.Node, bound map[string]bool) {
		for _, k := range b.Kids {
			switch {
			case k.K == "attrdef":
				if !expandOnly {
					add(without(FreeVars(k.Kids[0]), bound))
				}
			case k.K == "block" && k.S == "dynamic":
				d := dynamicParts(k)
				if d.forEach != nil {
					add(without(FreeVars(d.forEach), bound))
				}
				nb := map[string]bool{d.iterator: true}
				for n := range bound {
					nb[n] = true
				}
				if d.labels != nil {
					add(without(FreeVars(d.labels), nb))
				}
				for _, c := range d.content {
					walk(c, nb)
				}
			case k.K == "block":
				walk(k.Kids[len(k.Kids)-1], bound)
			}
		}
	}
	walk(body, map[string]bool{})
	out := make([]string, 0, len(seen))
	for n := range seen {
		out = append(out, n)
	}
	sort.Strings(out)
	return out
}

// BodyStats counts structural features of a body tree.
func BodyStats(res *lib.Result, body *lib.Node, depth int) {
	for _, k := range body.Kids {
		switch {
		case k.K == "attrdef":
			res.Count("body:attribute")
		case k.K == "block" && k.S == "dynamic":
			res.Count("body:dynamic-block")
			if depth > 0 {
				res.Count("body:dynamic-block-nested")
			}
			d := dynamicParts(k)
			if d.iterator != d.typ {
				res.Count("body:dynamic-custom-iterator")
			}
			if d.labels != nil {
				res.Count("body:dynamic-labels")
			}
			for _, c := range d.content {
				BodyStats(res, c, depth+1)
			}
		case k.K == "block":
			res.Count("body:static-block")
			BodyStats(res, k.Kids[len(k.Kids)-1], depth+1)
		}
	}
}
