package evalgen

import (
	"encoding/json"
	"strings"

	"github.com/hashicorp/hcl/v2"
	"github.com/hashicorp/hcl/v2/hclsyntax"

	"hx/lib"
)

// Template extensions on top of lib's node kinds (all ignored by lib.Renderer, handled by lowering):
//   tmpl.Flag            heredoc form  <<EOT ... EOT  (rendered inside parentheses)
//   tif.Sep / tfor.Sep   strip markers: Sep[i]&1 = "~" after "%{", Sep[i]&2 = "~" before "}" of the i-th
//                        directive tag (if, else, endif / for, endfor)

func tmplNeedsLowering(n *lib.Node) bool {
	if n.Flag {
		return true
	}
	for _, p := range n.Kids {
		switch p.K {
		case "tif", "tfor":
			for _, s := range p.Sep {
				if s != 0 {
					return true
				}
			}
			for _, b := range p.Kids[1:] {
				if b.K == "tmpl" && tmplNeedsLowering(b) {
					return true
				}
			}
		}
	}
	return false
}

func sepAt(p *lib.Node, i int) (string, string) {
	l, r := "", ""
	if i < len(p.Sep) {
		if p.Sep[i]&1 != 0 {
			l = "~"
		}
		if p.Sep[i]&2 != 0 {
			r = "~"
		}
	}
	return l, r
}

func escapeHeredocLit(s string) string {
	s = strings.ReplaceAll(s, "${", "$${")
	s = strings.ReplaceAll(s, "%{", "%%{")
	s = strings.ReplaceAll(s, "\r", "")
	return s
}

// tmplBody renders the inside of a template. mode: 'q' quoted (HCL escapes), 'h' heredoc, 'j' bare template
// (JSON string content before JSON escaping).
func tmplBody(n *lib.Node, mode byte) string {
	var sb strings.Builder
	for _, p := range n.Kids {
		switch p.K {
		case "tlit":
			if mode == 'q' {
				sb.WriteString(lib.EscapeQuoted(p.S))
			} else {
				sb.WriteString(escapeHeredocLit(p.S))
			}
		case "interp":
			sb.WriteString("${" + p.S + " " + exprText(p.Kids[0]) + " " + p.S2 + "}")
		case "tif":
			l, r := sepAt(p, 0)
			sb.WriteString("%{" + l + " if " + exprText(p.Kids[0]) + " " + r + "}")
			sb.WriteString(tmplBody(p.Kids[1], mode))
			if len(p.Kids) > 2 {
				l, r = sepAt(p, 1)
				sb.WriteString("%{" + l + " else " + r + "}")
				sb.WriteString(tmplBody(p.Kids[2], mode))
			}
			l, r = sepAt(p, 2)
			sb.WriteString("%{" + l + " endif " + r + "}")
		case "tfor":
			l, r := sepAt(p, 0)
			vars := p.S
			if p.S2 != "" {
				vars = p.S2 + ", " + p.S
			}
			sb.WriteString("%{" + l + " for " + vars + " in " + exprText(p.Kids[0]) + " " + r + "}")
			sb.WriteString(tmplBody(p.Kids[1], mode))
			l, r = sepAt(p, 1)
			sb.WriteString("%{" + l + " endfor " + r + "}")
		}
	}
	return sb.String()
}

func exprText(n *lib.Node) string {
	var toks []lib.Tk
	(&lib.Renderer{}).Expr(&toks, lower(n))
	return (&lib.Layout{}).Render(toks, true)
}

// lower replaces templates that use the extensions above by "raw" nodes holding their source text.
func lower(n *lib.Node) *lib.Node {
	if n == nil {
		return nil
	}
	if n.K == "tmpl" && tmplNeedsLowering(n) {
		if n.Flag {
			marker := "<<EOT"
			if len(n.Sep) > 0 && n.Sep[0] != 0 {
				marker = "<<-EOT"
			}
			return &lib.Node{K: "raw", S: "(" + marker + "\n" + tmplBody(n, 'h') + "\nEOT\n)"}
		}
		return &lib.Node{K: "raw", S: `"` + tmplBody(n, 'q') + `"`}
	}
	if n.K == "tmpl" {
		// plain template: lib.Renderer renders it, but nested expressions may need lowering
		c := *n
		c.Kids = make([]*lib.Node, len(n.Kids))
		for i, p := range n.Kids {
			c.Kids[i] = lowerPart(p)
		}
		return &c
	}
	c := *n
	c.Kids = make([]*lib.Node, len(n.Kids))
	for i, k := range n.Kids {
		c.Kids[i] = lower(k)
	}
	return &c
}

func lowerPart(p *lib.Node) *lib.Node {
	c := *p
	c.Kids = make([]*lib.Node, len(p.Kids))
	for i, k := range p.Kids {
		if k.K == "tmpl" && (p.K == "tif" || p.K == "tfor") && i >= 1 {
			// directive bodies are rendered inline by lib.Renderer.tmplText
			b := *k
			b.Kids = make([]*lib.Node, len(k.Kids))
			for j, q := range k.Kids {
				b.Kids[j] = lowerPart(q)
			}
			c.Kids[i] = &b
		} else {
			c.Kids[i] = lower(k)
		}
	}
	return &c
}

// Source renders an expression tree to native syntax with lib.Renderer and the canonical lib.Layout.
func Source(n *lib.Node) string { return exprText(n) }

// TemplateSource renders a tmpl node as a bare template (for hclsyntax.ParseTemplate and JSON strings).
func TemplateSource(n *lib.Node) string { return tmplBody(n, 'j') }

// Filename is the file name of every parsed case (diagnostic snippets need a matching file map).
const Filename = "case.hcl"

// Parse parses native expression source.
func Parse(src string) (hclsyntax.Expression, hcl.Diagnostics) {
	return hclsyntax.ParseExpression([]byte(src), Filename, hcl.InitialPos)
}

// ---------------------------------------------------------------------------
// JSON syntax

func jsonStr(s string) string {
	b, _ := json.Marshal(s)
	// encoding/json escapes <, > and & as \u00XX, which is still valid JSON
	return string(b)
}

func templateEscapeLit(s string) string {
	s = strings.ReplaceAll(s, "${", "$${")
	s = strings.ReplaceAll(s, "%{", "%%{")
	return s
}

// JSONSource renders a tree as a JSON-syntax expression: tuples become arrays, objects with constant or
// template keys become JSON objects (keys are templates), strings and templates become JSON strings (which
// the JSON syntax evaluates as templates), plain literals become JSON literals, and everything else
// becomes a string holding a single interpolation of the native source. structural is the chance
// (percent) to use the structural form where possible. ok=false when the tree has no faithful rendering
// (duplicate object keys).
func JSONSource(r *lib.Rand, n *lib.Node, structural int) (string, bool) {
	use := func() bool { return r == nil || r.Intn(100) < structural }
	switch n.K {
	case "num":
		if validJSONNumber(n.S) && use() {
			return n.S, true
		}
	case "bool", "null":
		if use() {
			return n.S, true
		}
	case "str":
		return jsonStr(templateEscapeLit(n.S)), true
	case "tmpl":
		return jsonStr(tmplBody(n, 'j')), true
	case "tuple":
		if use() {
			parts := make([]string, len(n.Kids))
			for i, k := range n.Kids {
				s, ok := JSONSource(r, k, structural)
				if !ok {
					return "", false
				}
				parts[i] = s
			}
			return "[" + strings.Join(parts, ", ") + "]", true
		}
	case "object":
		if use() {
			seen := map[string]bool{}
			var parts []string
			okAll := true
			for i := 0; i+1 < len(n.Kids); i += 2 {
				k := n.Kids[i]
				var key string
				switch k.K {
				case "ident":
					key = templateEscapeLit(k.S)
				case "str":
					key = templateEscapeLit(k.S)
				case "tmpl":
					key = tmplBody(k, 'j')
				default:
					key = "${ " + exprText(k) + " }"
				}
				if seen[key] {
					okAll = false
					break
				}
				seen[key] = true
				v, ok := JSONSource(r, n.Kids[i+1], structural)
				if !ok {
					okAll = false
					break
				}
				parts = append(parts, jsonStr(key)+": "+v)
			}
			if okAll {
				return "{" + strings.Join(parts, ", ") + "}", true
			}
		}
	}
	return jsonStr("${ " + exprText(n) + " }"), true
}

func validJSONNumber(s string) bool {
	var f json.Number
	if err := json.Unmarshal([]byte(s), &f); err != nil {
		return false
	}
	return len(s) > 0 && (s[0] >= '0' && s[0] <= '9')
}
