// Package evalgen is the shared typed generator for the evaluation properties (C05, C06, C07, C19):
// random scopes of cty values drawn from every cty kind, type-directed expression trees (lib.Node)
// over those scopes, a small library of pure functions, body + hcldec spec generators, and a JSON
// codec that makes every case replayable.
package evalgen

import (
	"fmt"
	"math/big"
	"sort"

	"github.com/zclconf/go-cty/cty"

	"hx/lib"
)

// Scope maps variable names to values.
type Scope map[string]cty.Value

// Names returns the variable names in sorted order (map iteration order must never influence a run).
func (s Scope) Names() []string {
	out := make([]string, 0, len(s))
	for k := range s {
		out = append(out, k)
	}
	sort.Strings(out)
	return out
}

// Clone copies the map.
func (s Scope) Clone() Scope {
	out := make(Scope, len(s))
	for k, v := range s {
		out[k] = v
	}
	return out
}

// StrPool is the alphabet of benign string contents: empty, plain, numeric-looking, boolean-looking,
// multi-byte, a combining sequence and an emoji with modifier (both matter for string-prefix refinements).
var StrPool = []string{"", "a", "b", "hello", "12", "3.5", "-7", "0", "007", "true", "false", "null", "x y", "\u00e9", "e\u0301x", "\u65e5\u672c", "A", "zz", "k1", "1e3", "\U0001F44D\U0001F3FD", "\u0301", "he", "hello world"}

// KeyPool is the alphabet of map keys / object attribute names (identifier-like ones can be reached by
// attribute syntax, the others only by index syntax).
var KeyPool = []string{"a", "b", "name", "n", "id", "tags", "k1", "x-y", "key one", "12", "sub", "list"}

var attrPool = []string{"a", "b", "name", "n", "id", "tags", "k1", "sub", "list", "x-y"}

// Dyadic builds the exact number num / 2^shift.
func Dyadic(num int64, shift uint) cty.Value {
	f := new(big.Float).SetPrec(512).SetInt64(num)
	if shift > 0 {
		d := new(big.Float).SetPrec(512).SetInt64(1 << shift)
		f.Quo(f, d)
	}
	return cty.NumberVal(f)
}

// RandNumber draws small integers, zero, negative numbers, dyadic fractions and one large integer.
func RandNumber(r *lib.Rand) cty.Value {
	switch r.Intn(10) {
	case 0:
		return cty.Zero
	case 1, 2, 3, 4:
		return cty.NumberIntVal(int64(r.Intn(6)))
	case 5:
		return cty.NumberIntVal(int64(-1 - r.Intn(7)))
	case 6:
		return Dyadic(int64(r.Intn(41)-20), uint(1+r.Intn(3)))
	case 7:
		return cty.NumberIntVal(int64(10 + r.Intn(90)))
	case 8:
		return cty.NumberIntVal(1 << 40)
	default:
		return cty.NumberIntVal(int64(r.Intn(13)))
	}
}

func RandString(r *lib.Rand) cty.Value {
	s := StrPool[r.Intn(len(StrPool))]
	if r.Chance(1, 6) {
		s += StrPool[r.Intn(len(StrPool))]
	}
	return cty.StringVal(s)
}

// RandPrimType picks one of the three primitive types.
func RandPrimType(r *lib.Rand) cty.Type {
	switch r.Intn(5) {
	case 0, 1:
		return cty.Number
	case 2, 3:
		return cty.String
	default:
		return cty.Bool
	}
}

// RandType draws a type nested to at most the given depth. Types never contain DynamicPseudoType.
func RandType(r *lib.Rand, depth int) cty.Type {
	if depth <= 0 {
		return RandPrimType(r)
	}
	switch r.Intn(9) {
	case 0, 1:
		return RandPrimType(r)
	case 2, 3:
		return cty.List(RandType(r, depth-1))
	case 4:
		// sets of primitives or of flat objects
		if r.Chance(2, 3) {
			return cty.Set(RandPrimType(r))
		}
		return cty.Set(cty.Object(map[string]cty.Type{"a": RandPrimType(r), "b": RandPrimType(r)}))
	case 5:
		return cty.Map(RandType(r, depth-1))
	case 6:
		n := r.Intn(4)
		etys := make([]cty.Type, n)
		for i := range etys {
			etys[i] = RandType(r, depth-1)
		}
		return cty.Tuple(etys)
	default:
		n := r.Intn(4)
		atys := map[string]cty.Type{}
		for i := 0; i < n; i++ {
			atys[attrPool[r.Intn(len(attrPool))]] = RandType(r, depth-1)
		}
		return cty.Object(atys)
	}
}

// RandValue draws a wholly known value of exactly the given type. nullPct is the chance (in percent) of a
// null at every level. A DynamicPseudoType anywhere in ty is instantiated with a random type (or a null).
func RandValue(r *lib.Rand, ty cty.Type, nullPct int) cty.Value {
	if ty == cty.DynamicPseudoType {
		if r.Intn(100) < nullPct {
			return cty.NullVal(cty.DynamicPseudoType)
		}
		return RandValue(r, RandType(r, 2), nullPct)
	}
	if r.Intn(100) < nullPct {
		return cty.NullVal(ty)
	}
	switch {
	case ty == cty.Number:
		return RandNumber(r)
	case ty == cty.String:
		return RandString(r)
	case ty == cty.Bool:
		return cty.BoolVal(r.Chance(1, 2))
	case ty.IsListType():
		n := randLen(r)
		if n == 0 {
			return cty.ListValEmpty(ty.ElementType())
		}
		vs := make([]cty.Value, n)
		for i := range vs {
			vs[i] = RandValue(r, ty.ElementType(), nullPct/2)
		}
		return cty.ListVal(vs)
	case ty.IsSetType():
		n := randLen(r)
		if n == 0 {
			return cty.SetValEmpty(ty.ElementType())
		}
		vs := make([]cty.Value, n)
		for i := range vs {
			vs[i] = RandValue(r, ty.ElementType(), 0)
		}
		return cty.SetVal(vs)
	case ty.IsMapType():
		n := randLen(r)
		if n == 0 {
			return cty.MapValEmpty(ty.ElementType())
		}
		m := map[string]cty.Value{}
		for i := 0; i < n; i++ {
			m[KeyPool[r.Intn(len(KeyPool))]] = RandValue(r, ty.ElementType(), nullPct/2)
		}
		return cty.MapVal(m)
	case ty.IsTupleType():
		etys := ty.TupleElementTypes()
		vs := make([]cty.Value, len(etys))
		for i, ety := range etys {
			vs[i] = RandValue(r, ety, nullPct/2)
		}
		return cty.TupleVal(vs)
	case ty.IsObjectType():
		m := map[string]cty.Value{}
		for _, name := range AttrNames(ty) {
			m[name] = RandValue(r, ty.AttributeType(name), nullPct/2)
		}
		return cty.ObjectVal(m)
	}
	panic(fmt.Sprintf("RandValue: unsupported type %#v", ty))
}

// AttrNames returns the attribute names of an object type in sorted order.
func AttrNames(ty cty.Type) []string {
	atys := ty.AttributeTypes()
	out := make([]string, 0, len(atys))
	for n := range atys {
		out = append(out, n)
	}
	sort.Strings(out)
	return out
}

func randLen(r *lib.Rand) int {
	switch r.Intn(8) {
	case 0:
		return 0
	case 1, 2:
		return 1
	case 3, 4, 5:
		return 2
	case 6:
		return 3
	default:
		return 4
	}
}

// The fixed part of the scope vocabulary. Every name is present with high probability and holds a random
// value of the stated type, so that the expression generator finds variables of every kind.
var objItemType = cty.Object(map[string]cty.Type{
	"name": cty.String,
	"n":    cty.Number,
	"tags": cty.List(cty.String),
	"sub":  cty.Object(map[string]cty.Type{"id": cty.Number, "list": cty.List(cty.Number)}),
})

var nestedObjType = cty.Object(map[string]cty.Type{
	"a":    cty.Number,
	"b":    cty.String,
	"k1":   cty.Bool,
	"list": cty.List(cty.Number),
	"sub": cty.Object(map[string]cty.Type{
		"id":   cty.Number,
		"name": cty.String,
		"tags": cty.Map(cty.String),
		"sub":  cty.Object(map[string]cty.Type{"n": cty.Number, "list": cty.List(cty.String)}),
	}),
})

type scopeSlot struct {
	name string
	ty   cty.Type
	null bool // the variable holds a null of the type
}

var scopeSlots = []scopeSlot{
	{"n1", cty.Number, false}, {"n2", cty.Number, false},
	{"s1", cty.String, false}, {"s2", cty.String, false},
	{"b1", cty.Bool, false}, {"b2", cty.Bool, false},
	{"z_str", cty.String, true}, {"z_num", cty.Number, true}, {"z_dyn", cty.DynamicPseudoType, true},
	{"z_list", cty.List(cty.String), true}, {"z_obj", cty.Object(map[string]cty.Type{"a": cty.Number}), true},
	{"ln", cty.List(cty.Number), false}, {"ls", cty.List(cty.String), false}, {"lb", cty.List(cty.Bool), false},
	{"lo", cty.List(objItemType), false}, {"ll", cty.List(cty.List(cty.Number)), false},
	{"sset", cty.Set(cty.String), false}, {"nset", cty.Set(cty.Number), false},
	{"ms", cty.Map(cty.String), false}, {"mn", cty.Map(cty.Number), false}, {"mo", cty.Map(objItemType), false},
	{"ob", nestedObjType, false},
}

// NewScope draws a scope: the fixed slots (each present with probability 7/8), numeric-looking strings,
// empty collections, a mixed tuple, and a few variables of random type nested to depth 3. Some
// variables are named like the names the generator binds in for expressions ("x", "v", "k", "i").
func NewScope(r *lib.Rand) Scope {
	s := Scope{}
	for _, sl := range scopeSlots {
		if !r.Chance(7, 8) {
			continue
		}
		if sl.null {
			s[sl.name] = cty.NullVal(sl.ty)
		} else {
			s[sl.name] = RandValue(r, sl.ty, 4)
		}
	}
	s["snum"] = cty.StringVal([]string{"12", "3.5", "-7", "0", "1e3"}[r.Intn(5)])
	if r.Chance(3, 4) {
		s["le"] = cty.ListValEmpty(RandPrimType(r))
	}
	if r.Chance(3, 4) {
		s["me"] = cty.MapValEmpty(RandPrimType(r))
	}
	if r.Chance(1, 2) {
		s["oe"] = cty.EmptyObjectVal
	}
	if r.Chance(1, 2) {
		s["te"] = cty.EmptyTupleVal
	}
	if r.Chance(7, 8) {
		s["tp"] = cty.TupleVal([]cty.Value{RandNumber(r), RandString(r), cty.BoolVal(r.Chance(1, 2)), RandValue(r, cty.List(cty.Number), 0)})
	}
	for i := 0; i < 3; i++ {
		if r.Chance(3, 4) {
			s[fmt.Sprintf("r%d", i+1)] = RandValue(r, RandType(r, 3), 5)
		}
	}
	for _, n := range BinderNames {
		if r.Chance(1, 3) {
			s[n] = RandValue(r, RandType(r, 1), 5)
		}
	}
	return s
}

// BinderNames are the names bound by generated for expressions and template for directives.
var BinderNames = []string{"x", "v", "k", "i"}

// TypeKind names the kind of a type ("number", "list", "object", ...) for failure signatures.
func TypeKind(t cty.Type) string {
	switch {
	case t == cty.DynamicPseudoType:
		return "dynamic"
	case t == cty.Number:
		return "number"
	case t == cty.String:
		return "string"
	case t == cty.Bool:
		return "bool"
	case t.IsListType():
		return "list"
	case t.IsSetType():
		return "set"
	case t.IsMapType():
		return "map"
	case t.IsTupleType():
		return "tuple"
	case t.IsObjectType():
		return "object"
	}
	return "other"
}
