package evalgen

import (
	"errors"
	"sort"
	"strings"

	"github.com/hashicorp/hcl/v2"
	"github.com/zclconf/go-cty/cty"
	"github.com/zclconf/go-cty/cty/convert"
	"github.com/zclconf/go-cty/cty/function"
)

// The function library: pure, total on the types they declare, known results for wholly known arguments,
// sound for unknown arguments (the cty call wrapper returns an unknown of the declared type when an
// argument is unknown; the implementations below check nested unknowns themselves), never AllowMarked
// (so the call wrapper re-applies the marks of all arguments to the result), and with constant error
// messages that never echo an argument.

var errNotCollection = errors.New("a collection or string is required")
var errNotSequence = errors.New("a list, set or tuple is required")
var errNoArgs = errors.New("at least one argument is required")
var errAllNull = errors.New("no non-null arguments")
var errNoCommonType = errors.New("arguments have no common type")
var errNotMapping = errors.New("a map or object is required")

func seqElemType(args []cty.Value) (cty.Type, error) {
	// the unified element type of list/set/tuple typed arguments; cty.DynamicPseudoType when it cannot
	// be decided yet (only when some argument or element is an unknown of unknown type). Known nulls of
	// unknown type do not constrain the element type, so known arguments always get a definite type.
	var etys []cty.Type
	elems := 0
	for _, a := range args {
		ty := a.Type()
		if !(ty.IsListType() || ty.IsSetType() || ty.IsTupleType()) {
			return cty.NilType, errNotSequence
		}
		if !a.IsKnown() || a.IsNull() {
			if ty.IsTupleType() {
				etys = append(etys, ty.TupleElementTypes()...)
			} else {
				etys = append(etys, ty.ElementType())
			}
			continue
		}
		if !ty.IsTupleType() && ty.ElementType() != cty.DynamicPseudoType {
			etys = append(etys, ty.ElementType())
			continue
		}
		// a known tuple, or a known collection whose element type is not decided (it can only hold
		// nulls and unknowns of unknown type)
		for it := a.ElementIterator(); it.Next(); {
			_, ev := it.Element()
			elems++
			if ev.Type() == cty.DynamicPseudoType && ev.IsKnown() {
				continue // null of unknown type
			}
			etys = append(etys, ev.Type())
		}
	}
	for _, t := range etys {
		if t == cty.DynamicPseudoType {
			return cty.DynamicPseudoType, nil
		}
	}
	if len(etys) == 0 && elems > 0 {
		return cty.String, nil // only nulls of unknown type: a conventional element type
	}
	if len(etys) == 0 {
		return cty.NilType, nil // nothing constrains the element type (only empty tuples / nulls of unknown type)
	}
	ety, _ := convert.UnifyUnsafe(etys)
	if ety == cty.NilType {
		return cty.NilType, errNoCommonType
	}
	return ety, nil
}

var funcUpper = function.New(&function.Spec{
	Params: []function.Parameter{{Name: "str", Type: cty.String}},
	Type:   function.StaticReturnType(cty.String),
	Impl: func(args []cty.Value, retType cty.Type) (cty.Value, error) {
		return cty.StringVal(strings.ToUpper(args[0].AsString())), nil
	},
})

var funcLength = function.New(&function.Spec{
	Params: []function.Parameter{{Name: "value", Type: cty.DynamicPseudoType}},
	Type: func(args []cty.Value) (cty.Type, error) {
		ty := args[0].Type()
		if ty == cty.String || ty.IsCollectionType() || ty.IsTupleType() || ty.IsObjectType() {
			return cty.Number, nil
		}
		return cty.NilType, function.NewArgError(0, errNotCollection)
	},
	Impl: func(args []cty.Value, retType cty.Type) (cty.Value, error) {
		v := args[0]
		if v.Type() == cty.String {
			return cty.NumberIntVal(int64(len([]rune(v.AsString())))), nil
		}
		if v.Type().IsObjectType() {
			return cty.NumberIntVal(int64(len(v.Type().AttributeTypes()))), nil
		}
		return v.Length(), nil // unknown (refined) for a set with unknown elements
	},
})

var funcJoin = function.New(&function.Spec{
	Params:   []function.Parameter{{Name: "sep", Type: cty.String}},
	VarParam: &function.Parameter{Name: "lists", Type: cty.List(cty.String)},
	Type:     function.StaticReturnType(cty.String),
	Impl: func(args []cty.Value, retType cty.Type) (cty.Value, error) {
		var parts []string
		for _, l := range args[1:] {
			if !l.IsWhollyKnown() {
				return cty.UnknownVal(cty.String), nil
			}
			for it := l.ElementIterator(); it.Next(); {
				_, v := it.Element()
				if v.IsNull() {
					return cty.NilVal, errors.New("list elements must not be null")
				}
				parts = append(parts, v.AsString())
			}
		}
		return cty.StringVal(strings.Join(parts, args[0].AsString())), nil
	},
})

var funcConcat = function.New(&function.Spec{
	VarParam: &function.Parameter{Name: "seqs", Type: cty.DynamicPseudoType},
	Type: func(args []cty.Value) (cty.Type, error) {
		if len(args) == 0 {
			return cty.NilType, errNoArgs
		}
		ety, err := seqElemType(args)
		if err != nil {
			return cty.NilType, err
		}
		if ety == cty.DynamicPseudoType {
			return cty.DynamicPseudoType, nil
		}
		if ety == cty.NilType {
			// no element type information at all: the empty tuple converts to every sequence type
			return cty.EmptyTuple, nil
		}
		return cty.List(ety), nil
	},
	Impl: func(args []cty.Value, retType cty.Type) (cty.Value, error) {
		if retType == cty.DynamicPseudoType {
			return cty.DynamicVal, nil
		}
		if retType.Equals(cty.EmptyTuple) {
			return cty.EmptyTupleVal, nil
		}
		var out []cty.Value
		for _, a := range args {
			for it := a.ElementIterator(); it.Next(); {
				_, v := it.Element()
				cv, err := convert.Convert(v, retType.ElementType())
				if err != nil {
					return cty.NilVal, errNoCommonType
				}
				out = append(out, cv)
			}
		}
		if len(out) == 0 {
			return cty.ListValEmpty(retType.ElementType()), nil
		}
		return cty.ListVal(out), nil
	},
})

var funcMin = function.New(&function.Spec{
	Params:   []function.Parameter{{Name: "first", Type: cty.Number}},
	VarParam: &function.Parameter{Name: "nums", Type: cty.Number},
	Type:     function.StaticReturnType(cty.Number),
	Impl: func(args []cty.Value, retType cty.Type) (cty.Value, error) {
		m := args[0]
		for _, a := range args[1:] {
			if a.LessThan(m).True() {
				m = a
			}
		}
		return m, nil
	},
})

var funcSum = function.New(&function.Spec{
	VarParam: &function.Parameter{Name: "nums", Type: cty.Number},
	Type:     function.StaticReturnType(cty.Number),
	Impl: func(args []cty.Value, retType cty.Type) (cty.Value, error) {
		s := cty.Zero
		for _, a := range args {
			s = s.Add(a)
		}
		return s, nil
	},
})

var funcCoalesce = function.New(&function.Spec{
	VarParam: &function.Parameter{Name: "vals", Type: cty.DynamicPseudoType, AllowNull: true, AllowDynamicType: true},
	Type: func(args []cty.Value) (cty.Type, error) {
		if len(args) == 0 {
			return cty.NilType, errNoArgs
		}
		var tys []cty.Type
		for _, a := range args {
			if a.Type() == cty.DynamicPseudoType {
				if !a.IsKnown() {
					return cty.DynamicPseudoType, nil
				}
				continue // a null of unknown type does not constrain the result
			}
			tys = append(tys, a.Type())
		}
		if len(tys) == 0 {
			return cty.DynamicPseudoType, nil
		}
		ty, _ := convert.UnifyUnsafe(tys)
		if ty == cty.NilType {
			return cty.NilType, errNoCommonType
		}
		return ty, nil
	},
	Impl: func(args []cty.Value, retType cty.Type) (cty.Value, error) {
		for _, a := range args {
			if a.IsNull() {
				continue
			}
			cv, err := convert.Convert(a, retType)
			if err != nil {
				return cty.NilVal, errNoCommonType
			}
			return cv, nil
		}
		return cty.NilVal, errAllNull
	},
})

var funcToList = function.New(&function.Spec{
	Params: []function.Parameter{{Name: "seq", Type: cty.DynamicPseudoType}},
	Type: func(args []cty.Value) (cty.Type, error) {
		ety, err := seqElemType(args)
		if err != nil {
			return cty.NilType, function.NewArgError(0, err)
		}
		if ety == cty.DynamicPseudoType {
			return cty.DynamicPseudoType, nil
		}
		if ety == cty.NilType {
			return cty.EmptyTuple, nil
		}
		return cty.List(ety), nil
	},
	Impl: func(args []cty.Value, retType cty.Type) (cty.Value, error) {
		if retType == cty.DynamicPseudoType {
			return cty.DynamicVal, nil
		}
		if retType.Equals(cty.EmptyTuple) {
			return cty.EmptyTupleVal, nil
		}
		cv, err := convert.Convert(args[0], retType)
		if err != nil {
			return cty.NilVal, errNoCommonType
		}
		return cv, nil
	},
})

var funcToSet = function.New(&function.Spec{
	Params: []function.Parameter{{Name: "seq", Type: cty.DynamicPseudoType}},
	Type: func(args []cty.Value) (cty.Type, error) {
		ety, err := seqElemType(args)
		if err != nil {
			return cty.NilType, function.NewArgError(0, err)
		}
		if ety == cty.DynamicPseudoType {
			return cty.DynamicPseudoType, nil
		}
		if ety == cty.NilType {
			return cty.EmptyTuple, nil
		}
		return cty.Set(ety), nil
	},
	Impl: func(args []cty.Value, retType cty.Type) (cty.Value, error) {
		if retType == cty.DynamicPseudoType {
			return cty.DynamicVal, nil
		}
		if retType.Equals(cty.EmptyTuple) {
			return cty.EmptyTupleVal, nil
		}
		cv, err := convert.Convert(args[0], retType)
		if err != nil {
			return cty.NilVal, errNoCommonType
		}
		return cv, nil
	},
})

var funcKeys = function.New(&function.Spec{
	Params: []function.Parameter{{Name: "mapping", Type: cty.DynamicPseudoType}},
	Type: func(args []cty.Value) (cty.Type, error) {
		ty := args[0].Type()
		if ty.IsMapType() || ty.IsObjectType() {
			return cty.List(cty.String), nil
		}
		return cty.NilType, function.NewArgError(0, errNotMapping)
	},
	Impl: func(args []cty.Value, retType cty.Type) (cty.Value, error) {
		var ks []string
		for it := args[0].ElementIterator(); it.Next(); {
			k, _ := it.Element()
			ks = append(ks, k.AsString())
		}
		sort.Strings(ks)
		if len(ks) == 0 {
			return cty.ListValEmpty(cty.String), nil
		}
		vs := make([]cty.Value, len(ks))
		for i, k := range ks {
			vs[i] = cty.StringVal(k)
		}
		return cty.ListVal(vs), nil
	},
})

// funcIdentity is registered under a namespaced name.
var funcIdentity = function.New(&function.Spec{
	Params: []function.Parameter{{Name: "value", Type: cty.DynamicPseudoType, AllowNull: true, AllowDynamicType: true}},
	Type:   func(args []cty.Value) (cty.Type, error) { return args[0].Type(), nil },
	Impl:   func(args []cty.Value, retType cty.Type) (cty.Value, error) { return args[0], nil },
})

// Funcs is the fixed function table of every evaluation context.
func Funcs() map[string]function.Function {
	return map[string]function.Function{
		"upper":    funcUpper,
		"length":   funcLength,
		"join":     funcJoin,
		"concat":   funcConcat,
		"min":      funcMin,
		"sum":      funcSum,
		"coalesce": funcCoalesce,
		"tolist":   funcToList,
		"toset":    funcToSet,
		"keys":     funcKeys,
		"ns::id":   funcIdentity,
		// functions whose parameters are typed collections: the conversion of an argument descends into its
		// elements (not used by the random generators)
		"mapnum":  typedParam(cty.Map(cty.Number)),
		"listnum": typedParam(cty.List(cty.Number)),
		"objab":   typedParam(cty.Object(map[string]cty.Type{"a": cty.Number, "b": cty.String})),
		"nested":  typedParam(cty.Map(cty.Map(cty.Number))),
		"setnum":  typedParam(cty.Set(cty.Number)),
	}
}

func typedParam(t cty.Type) function.Function {
	return function.New(&function.Spec{
		Params: []function.Parameter{{Name: "v", Type: t, AllowMarked: true, AllowNull: true, AllowUnknown: true}},
		Type:   function.StaticReturnType(cty.Number),
		Impl: func(args []cty.Value, _ cty.Type) (cty.Value, error) {
			return cty.NumberIntVal(int64(args[0].LengthInt())).WithSameMarks(args[0]), nil
		},
	})
}

// FuncNames lists the function names (sorted).
var FuncNames = []string{"coalesce", "concat", "join", "keys", "length", "min", "ns::id", "sum", "tolist", "toset", "upper"}

// Ctx builds an evaluation context over a scope with the function library.
func Ctx(s Scope) *hcl.EvalContext {
	vars := make(map[string]cty.Value, len(s))
	for k, v := range s {
		vars[k] = v
	}
	return &hcl.EvalContext{Variables: vars, Functions: Funcs()}
}
