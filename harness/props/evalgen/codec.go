package evalgen

import (
	"encoding/json"
	"fmt"
	"math"
	"math/big"
	"sort"

	"github.com/zclconf/go-cty/cty"

	"hx/lib"
)

// EncVal is the JSON form of a cty value: exact numbers, nulls and unknowns with their types, refinements
// and marks at every level. It round-trips through EncodeValue / DecodeValue (checked by the runners'
// replay path and by SelfTestCodec).
type EncVal struct {
	K     string             `json:"k"` // null unk num str bool list set map tuple object mark
	Ty    json.RawMessage    `json:"ty,omitempty"`
	V     string             `json:"v,omitempty"`
	B     bool               `json:"b,omitempty"`
	E     []*EncVal          `json:"e,omitempty"`
	M     map[string]*EncVal `json:"m,omitempty"`
	Marks []string           `json:"marks,omitempty"`
	Inner *EncVal            `json:"inner,omitempty"`
	// refinements of an unknown
	NotNull bool    `json:"notnull,omitempty"`
	Prefix  *string `json:"prefix,omitempty"`
	Lo      *string `json:"lo,omitempty"`
	LoInc   bool    `json:"loinc,omitempty"`
	Hi      *string `json:"hi,omitempty"`
	HiInc   bool    `json:"hiinc,omitempty"`
	LenLo   *int    `json:"lenlo,omitempty"`
	LenHi   *int    `json:"lenhi,omitempty"`
}

func encType(t cty.Type) json.RawMessage {
	b, err := t.MarshalJSON()
	if err != nil {
		panic(err)
	}
	return b
}

func decType(b json.RawMessage) (cty.Type, error) {
	var t cty.Type
	err := t.UnmarshalJSON(b)
	return t, err
}

func parseRat(s string) (cty.Value, error) {
	r, ok := new(big.Rat).SetString(s)
	if !ok {
		return cty.NilVal, fmt.Errorf("bad number %q", s)
	}
	f := new(big.Float).SetPrec(512).SetRat(r)
	return cty.NumberVal(f), nil
}

// EncodeValue converts a value into its JSON form. Marks must be strings.
func EncodeValue(v cty.Value) *EncVal {
	if v.IsMarked() {
		uv, marks := v.Unmark()
		var names []string
		for m := range marks {
			names = append(names, fmt.Sprintf("%v", m))
		}
		sort.Strings(names)
		return &EncVal{K: "mark", Marks: names, Inner: EncodeValue(uv)}
	}
	t := v.Type()
	if !v.IsKnown() {
		e := &EncVal{K: "unk", Ty: encType(t)}
		if t == cty.DynamicPseudoType {
			return e
		}
		rng := v.Range()
		e.NotNull = rng.DefinitelyNotNull()
		switch {
		case t == cty.String:
			if p := rng.StringPrefix(); p != "" {
				e.Prefix = &p
			}
		case t == cty.Number:
			lo, loInc := rng.NumberLowerBound()
			hi, hiInc := rng.NumberUpperBound()
			if lo.IsKnown() && !lo.RawEquals(cty.NegativeInfinity) {
				s := lib.RatString(lo.AsBigFloat())
				e.Lo, e.LoInc = &s, loInc
			}
			if hi.IsKnown() && !hi.RawEquals(cty.PositiveInfinity) {
				s := lib.RatString(hi.AsBigFloat())
				e.Hi, e.HiInc = &s, hiInc
			}
		case t.IsCollectionType():
			lo, hi := rng.LengthLowerBound(), rng.LengthUpperBound()
			if lo != 0 {
				e.LenLo = &lo
			}
			if hi != math.MaxInt {
				e.LenHi = &hi
			}
		}
		return e
	}
	if v.IsNull() {
		return &EncVal{K: "null", Ty: encType(t)}
	}
	switch {
	case t == cty.String:
		return &EncVal{K: "str", V: v.AsString()}
	case t == cty.Number:
		return &EncVal{K: "num", V: lib.RatString(v.AsBigFloat())}
	case t == cty.Bool:
		return &EncVal{K: "bool", B: v.True()}
	case t.IsListType() || t.IsSetType() || t.IsTupleType():
		k := "list"
		if t.IsSetType() {
			k = "set"
		} else if t.IsTupleType() {
			k = "tuple"
		}
		e := &EncVal{K: k, E: []*EncVal{}}
		if !t.IsTupleType() {
			e.Ty = encType(t.ElementType())
		}
		for it := v.ElementIterator(); it.Next(); {
			_, ev := it.Element()
			e.E = append(e.E, EncodeValue(ev))
		}
		return e
	case t.IsMapType() || t.IsObjectType():
		k := "map"
		if t.IsObjectType() {
			k = "object"
		}
		e := &EncVal{K: k, M: map[string]*EncVal{}}
		if t.IsMapType() {
			e.Ty = encType(t.ElementType())
		}
		for it := v.ElementIterator(); it.Next(); {
			kv, ev := it.Element()
			e.M[kv.AsString()] = EncodeValue(ev)
		}
		return e
	}
	panic(fmt.Sprintf("EncodeValue: unsupported type %#v", t))
}

// DecodeValue is the inverse of EncodeValue.
func DecodeValue(e *EncVal) (cty.Value, error) {
	if e == nil {
		return cty.NilVal, fmt.Errorf("missing value")
	}
	switch e.K {
	case "mark":
		v, err := DecodeValue(e.Inner)
		if err != nil {
			return cty.NilVal, err
		}
		for _, m := range e.Marks {
			v = v.Mark(m)
		}
		return v, nil
	case "null":
		t, err := decType(e.Ty)
		if err != nil {
			return cty.NilVal, err
		}
		return cty.NullVal(t), nil
	case "unk":
		t, err := decType(e.Ty)
		if err != nil {
			return cty.NilVal, err
		}
		if t == cty.DynamicPseudoType {
			return cty.DynamicVal, nil
		}
		v := cty.UnknownVal(t)
		if !e.NotNull && e.Prefix == nil && e.Lo == nil && e.Hi == nil && e.LenLo == nil && e.LenHi == nil {
			return v, nil
		}
		b := v.Refine()
		if e.NotNull {
			b = b.NotNull()
		}
		if e.Prefix != nil {
			b = b.StringPrefixFull(*e.Prefix)
		}
		if e.Lo != nil {
			lo, err := parseRat(*e.Lo)
			if err != nil {
				return cty.NilVal, err
			}
			b = b.NumberRangeLowerBound(lo, e.LoInc)
		}
		if e.Hi != nil {
			hi, err := parseRat(*e.Hi)
			if err != nil {
				return cty.NilVal, err
			}
			b = b.NumberRangeUpperBound(hi, e.HiInc)
		}
		if e.LenLo != nil {
			b = b.CollectionLengthLowerBound(*e.LenLo)
		}
		if e.LenHi != nil {
			b = b.CollectionLengthUpperBound(*e.LenHi)
		}
		return b.NewValue(), nil
	case "str":
		return cty.StringVal(e.V), nil
	case "num":
		return parseRat(e.V)
	case "bool":
		return cty.BoolVal(e.B), nil
	case "list", "set", "tuple":
		vs := make([]cty.Value, len(e.E))
		for i, x := range e.E {
			v, err := DecodeValue(x)
			if err != nil {
				return cty.NilVal, err
			}
			vs[i] = v
		}
		if e.K == "tuple" {
			return cty.TupleVal(vs), nil
		}
		ety, err := decType(e.Ty)
		if err != nil {
			return cty.NilVal, err
		}
		if len(vs) == 0 {
			if e.K == "list" {
				return cty.ListValEmpty(ety), nil
			}
			return cty.SetValEmpty(ety), nil
		}
		if e.K == "list" {
			return cty.ListVal(vs), nil
		}
		return cty.SetVal(vs), nil
	case "map", "object":
		m := make(map[string]cty.Value, len(e.M))
		for k, x := range e.M {
			v, err := DecodeValue(x)
			if err != nil {
				return cty.NilVal, err
			}
			m[k] = v
		}
		if e.K == "object" {
			return cty.ObjectVal(m), nil
		}
		ety, err := decType(e.Ty)
		if err != nil {
			return cty.NilVal, err
		}
		if len(m) == 0 {
			return cty.MapValEmpty(ety), nil
		}
		return cty.MapVal(m), nil
	}
	return cty.NilVal, fmt.Errorf("unknown value kind %q", e.K)
}

// EncodeScope / DecodeScope convert whole scopes.
func EncodeScope(s Scope) map[string]*EncVal {
	out := make(map[string]*EncVal, len(s))
	for k, v := range s {
		out[k] = EncodeValue(v)
	}
	return out
}

func DecodeScope(m map[string]*EncVal) (Scope, error) {
	out := make(Scope, len(m))
	for k, e := range m {
		v, err := DecodeValue(e)
		if err != nil {
			return nil, fmt.Errorf("variable %s: %w", k, err)
		}
		out[k] = v
	}
	return out, nil
}

// JSONString marshals anything (map keys sorted by encoding/json) for Failure.Input.
func JSONString(x interface{}) string {
	b, err := json.Marshal(x)
	if err != nil {
		return fmt.Sprintf("{\"marshal_error\":%q}", err.Error())
	}
	return string(b)
}

// RoundTrips reports whether a value survives the codec exactly (used as an internal sanity check).
func RoundTrips(v cty.Value) bool {
	b, err := json.Marshal(EncodeValue(v))
	if err != nil {
		return false
	}
	var e EncVal
	if err := json.Unmarshal(b, &e); err != nil {
		return false
	}
	w, err := DecodeValue(&e)
	if err != nil {
		return false
	}
	return lib.DumpValue(v) == lib.DumpValue(w)
}
