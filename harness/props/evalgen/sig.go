package evalgen

import (
	"github.com/zclconf/go-cty/cty"

	"hx/lib"
)

// EvalNode renders, parses and evaluates a tree in a scope (NilVal when it does not parse or panics).
func EvalNode(n *lib.Node, s Scope) (cty.Value, bool) {
	e, diags := Parse(Source(n))
	if diags.HasErrors() {
		return cty.NilVal, false
	}
	v, d, p := SafeValue(e, Ctx(s))
	if p != "" || d.HasErrors() {
		return v, false
	}
	return v, true
}

// Sig is the stable signature of a (minimised) failing expression: the node kind plus the operator, the
// function name, or the kind of the type of the value being indexed / traversed / iterated.
func Sig(n *lib.Node, s Scope) string {
	srcKind := func() string {
		if len(n.Kids) == 0 {
			return "?"
		}
		v, _ := EvalNode(n.Kids[0], s)
		if v == cty.NilVal {
			return "?"
		}
		return TypeKind(v.Type())
	}
	switch n.K {
	case "binop", "unop":
		return n.K + ":" + n.S
	case "call":
		if n.Flag {
			return "call:" + n.S + ":expand"
		}
		return "call:" + n.S
	case "index", "attr", "legacy", "fsplat", "asplat", "fortuple", "forobj":
		k := n.K + ":" + srcKind()
		if n.K == "forobj" && n.Flag {
			k += ":group"
		}
		if (n.K == "attr" || n.K == "index" || n.K == "legacy") && len(n.Kids) > 0 && (n.Kids[0].K == "fsplat" || n.Kids[0].K == "asplat") {
			k = n.Kids[0].K + "-each"
		}
		return k
	}
	return n.K
}
