// Package c17 is the direct oracle for C17: a parsed configuration can be evaluated concurrently, provided
// each concurrent evaluation uses its own evaluation context.
//
// Data races: the unified hx binary is built without -race. To run the same workload under the race
// detector, bin/check builds a second binary
//
//	cd /verif/harness && GOFLAGS=-mod=mod GOPROXY=off GOTOOLCHAIN=local go1.26 build -race -tags verif -o <race-hx> ./cmd/hx
//
// and passes its path in the environment variable HX_RACE_BIN. When HX_RACE_BIN is set (and HX_RACE_CHILD is
// not), the runner executes that binary as a child process with the same arguments (only -out is redirected
// to a temporary file), HX_RACE_CHILD=1 and GORACE="halt_on_error=1 exitcode=66"; the child's result is taken
// over, and an exit code 66 or a "WARNING: DATA RACE" in the child's stderr becomes a failure with key
// "data-race" carrying the first 2000 bytes of the race report. A child that dies of a Go runtime fatal error
// ("concurrent map writes" ...) becomes "fatal:concurrent-map-access" / "child-crashed". Without HX_RACE_BIN
// the same (non-race) binary is executed as the child, only to survive such a runtime abort; with
// HX_C17_INPROCESS=1, or in the child itself (HX_RACE_CHILD set), the workload runs in-process. In a race-enabled binary the number of rounds is divided by 3, at most 12
// goroutines run at once and every goroutine makes at most 2 passes (the detector costs 5-20x), unless
// HX_RACE_FULL=1.
package c17

import (
	"bytes"
	"encoding/json"
	"fmt"
	"os"
	"os/exec"
	"runtime"
	"runtime/debug"
	"sort"
	"strings"
	"sync"
	"sync/atomic"
	"time"

	"github.com/hashicorp/hcl/v2"
	"github.com/hashicorp/hcl/v2/ext/dynblock"
	"github.com/hashicorp/hcl/v2/hcldec"
	"github.com/hashicorp/hcl/v2/hclsyntax"
	hcljson "github.com/hashicorp/hcl/v2/json"
	"github.com/zclconf/go-cty/cty"
	"github.com/zclconf/go-cty/cty/function"
	"github.com/zclconf/go-cty/cty/function/stdlib"

	"hx/lib"
)

func init() { lib.Register("C17", run) }

// ---- the yield function: lets the scheduler in while a splat's per-context value is set ----

var yieldCounter atomic.Uint64
var yieldEnabled atomic.Bool // off while the expected results are computed alone

func doYield() {
	if !yieldEnabled.Load() {
		return
	}
	n := yieldCounter.Add(1)
	switch n % 8 {
	case 0, 3:
		runtime.Gosched()
	case 1:
		if n%32 == 1 {
			time.Sleep(time.Duration(n%17) * time.Microsecond)
		}
	case 2:
		runtime.Gosched()
		runtime.Gosched()
	}
}

var yieldFunc = function.New(&function.Spec{
	Params: []function.Parameter{{Name: "v", Type: cty.DynamicPseudoType, AllowNull: true, AllowUnknown: true, AllowDynamicType: true, AllowMarked: true}},
	Type:   func(args []cty.Value) (cty.Type, error) { return args[0].Type(), nil },
	Impl: func(args []cty.Value, retType cty.Type) (cty.Value, error) {
		doYield()
		return args[0], nil
	},
})

func sharedFunctions() map[string]function.Function {
	return map[string]function.Function{
		"upper": stdlib.UpperFunc, "length": stdlib.LengthFunc, "join": stdlib.JoinFunc, "concat": stdlib.ConcatFunc, "flatten": stdlib.FlattenFunc,
		"keys": stdlib.KeysFunc, "values": stdlib.ValuesFunc, "tostring": stdlib.MakeToFunc(cty.String), "yield": yieldFunc,
	}
}

// ---- canonical results ----

// diagList is the sorted list of diagnostics (severity, summary, detail, subject): several implementation
// paths emit diagnostics in Go map order, which is not part of any contract.
func diagList(diags hcl.Diagnostics) string {
	parts := make([]string, 0, len(diags))
	for _, d := range diags {
		subj := ""
		if d.Subject != nil {
			subj = d.Subject.String()
		}
		parts = append(parts, fmt.Sprintf("{%d|%s|%s|%s}", d.Severity, d.Summary, d.Detail, subj))
	}
	sort.Strings(parts)
	return strings.Join(parts, "")
}

func dumpVal(v cty.Value, diags hcl.Diagnostics) string {
	return lib.DumpValue(v) + " diags=" + diagList(diags)
}

func dumpTraversals(ts []hcl.Traversal) string {
	var parts []string
	for _, t := range ts {
		parts = append(parts, lib.DumpTraversal(t))
	}
	sort.Strings(parts) // hcldec walks its specs in Go map order
	return strings.Join(parts, " ")
}

func dumpContent(c *hcl.BodyContent, diags hcl.Diagnostics) string {
	if c == nil {
		return "nil diags=" + diagList(diags)
	}
	var names []string
	for n, a := range c.Attributes {
		names = append(names, n+"@"+a.Range.String()+"/"+a.NameRange.String())
	}
	sort.Strings(names)
	var sb strings.Builder
	sb.WriteString("attrs[" + strings.Join(names, ",") + "] blocks[")
	for _, b := range c.Blocks {
		fmt.Fprintf(&sb, "%s%q@%s;", b.Type, b.Labels, b.DefRange.String())
	}
	sb.WriteString("] missing=" + c.MissingItemRange.String() + " diags=" + diagList(diags))
	return sb.String()
}

// ---- one round ----

// op is one call of the implementation, returning its canonical result for the given goroutine.
type op struct {
	kind string // defect-class part of the failure key
	name string
	f    func(gs *gstate) string
}

type gstate struct {
	idx      int
	ctx      *hcl.EvalContext // the goroutine's own context
	ctx2     *hcl.EvalContext // a grandchild of it (own as well)
	expected []string
}

type round struct {
	seed       uint64
	goroutines int
	iters      int
	flat       bool // contexts are not children of a shared parent: every goroutine has its own copy of everything
	docs       []*document
	parent     *hcl.EvalContext
	ops        []op
	native     []*hclsyntax.Body // every natively parsed body, for the residue check
	setupErr   string
}

type roundInput struct {
	RoundSeed  uint64   `json:"round_seed"`
	Goroutines int      `json:"goroutines"`
	Iterations int      `json:"iterations"`
	Documents  []string `json:"documents,omitempty"` // informative: the sources generated from round_seed
	Op         string   `json:"op,omitempty"`        // informative: the call whose result differed
}

var goroutineChoices = []int{2, 2, 3, 4, 4, 6, 8, 8, 12, 16, 16, 24, 32, 48, 64}

func exprsOf(b hcl.Body, schema *hcl.BodySchema) (map[string]hcl.Expression, hcl.Blocks) {
	c, _, _ := b.PartialContent(schema)
	out := map[string]hcl.Expression{}
	if c == nil {
		return out, nil
	}
	for n, a := range c.Attributes {
		out[n] = a.Expr
	}
	return out, c.Blocks
}

func sortedKeys(m map[string]hcl.Expression) []string {
	ks := make([]string, 0, len(m))
	for k := range m {
		ks = append(ks, k)
	}
	sort.Strings(ks)
	return ks
}

// buildRound generates the round's workload from its seed: documents, parsed once, and the list of calls.
func buildRound(seed uint64, stats map[string]int) *round {
	r := lib.NewRand(seed)
	rd := &round{seed: seed}
	rd.goroutines = goroutineChoices[r.Intn(len(goroutineChoices))]
	switch {
	case rd.goroutines <= 4:
		rd.iters = 4 + r.Intn(4)
	case rd.goroutines <= 16:
		rd.iters = 2 + r.Intn(2)
	default:
		rd.iters = 1 + r.Intn(2)
	}
	if raceEnabled && os.Getenv("HX_RACE_FULL") == "" {
		// the race detector needs overlapping accesses, not many goroutines; it costs 5-20x
		if rd.goroutines > 12 {
			rd.goroutines = 12
		}
		if rd.iters > 2 {
			rd.iters = 2
		}
	}
	rd.flat = r.Chance(1, 5)
	rd.parent = &hcl.EvalContext{Variables: sharedVars(), Functions: sharedFunctions()}
	kinds := []docKind{kindPlain, kindDynamic, kindDynShared, kindHammer}
	for _, k := range kinds {
		rd.docs = append(rd.docs, genDocument(r.Fork(), k, stats))
	}

	for di, d := range rd.docs {
		d := d
		spec := d.spec()
		for _, syntax := range []string{"native", "json"} {
			if d.kind == kindHammer && syntax == "json" {
				continue // JSON expressions are re-parsed on every call: nothing shared to hammer on
			}
			var body hcl.Body
			tag := fmt.Sprintf("%s:doc%d", syntax, di)
			if syntax == "native" {
				f, diags := hclsyntax.ParseConfig([]byte(d.native), tag+".hcl", hcl.InitialPos)
				if diags.HasErrors() {
					rd.setupErr = "generated native document does not parse: " + diags.Error() + "\n" + d.native
					return rd
				}
				body = f.Body
				rd.native = append(rd.native, f.Body.(*hclsyntax.Body))
			} else {
				f, diags := hcljson.Parse([]byte(d.json), tag+".json")
				if diags.HasErrors() {
					rd.setupErr = "generated JSON document does not parse: " + diags.Error() + "\n" + d.json
					return rd
				}
				body = f.Body
			}
			rawSchema := d.schema(true)
			expSchema := d.schema(false)
			add := func(kind, name string, f func(gs *gstate) string) {
				rd.ops = append(rd.ops, op{kind: kind + ":" + syntax, name: tag + ":" + name, f: f})
			}
			if d.kind == kindHammer {
				top, _ := exprsOf(body, d.schema(false))
				for _, n := range sortedKeys(top) {
					e := top[n]
					add("value", "Value(long-list "+n+")", func(gs *gstate) string { return dumpVal(e.Value(gs.ctx)) })
					add("value", "Value-in-grandchild(long-list "+n+")", func(gs *gstate) string { return dumpVal(e.Value(gs.ctx2)) })
				}
				add("hcldec-decode", "hcldec.Decode(long-list)", func(gs *gstate) string { return dumpVal(hcldec.Decode(body, spec, gs.ctx)) })
				continue
			}

			// structure extraction on the shared body
			add("content", "Content", func(gs *gstate) string { return dumpContent(body.Content(rawSchema)) })
			half := &hcl.BodySchema{Attributes: rawSchema.Attributes[:len(rawSchema.Attributes)/2], Blocks: rawSchema.Blocks[:1]}
			rest := &hcl.BodySchema{Attributes: rawSchema.Attributes[len(rawSchema.Attributes)/2:], Blocks: rawSchema.Blocks[1:]}
			add("partial-content", "PartialContent", func(gs *gstate) string {
				c, remain, diags := body.PartialContent(half)
				s := dumpContent(c, diags)
				if remain != nil {
					s += " || remain: " + dumpContent(remain.Content(rest))
					c2, remain2, d2 := remain.PartialContent(&hcl.BodySchema{Blocks: rest.Blocks})
					s += " || remain-partial: " + dumpContent(c2, d2)
					if remain2 != nil {
						at, d3 := remain2.JustAttributes()
						var ns []string
						for n := range at {
							ns = append(ns, n)
						}
						sort.Strings(ns)
						s += " || remain2-attrs: " + strings.Join(ns, ",") + " diags=" + diagList(d3)
					}
				}
				return s
			})
			// a "remaining content" body made once and shared by all goroutines
			if _, sharedRemain, _ := body.PartialContent(half); sharedRemain != nil {
				restAttrsOnly := &hcl.BodySchema{Attributes: rest.Attributes}
				restFirst := &hcl.BodySchema{Attributes: rest.Attributes[:len(rest.Attributes)/2], Blocks: rest.Blocks}
				add("partial-content", "shared-remain.PartialContent", func(gs *gstate) string {
					schema := restAttrsOnly
					if gs.idx%2 == 1 {
						schema = restFirst
					}
					c, remain2, diags := sharedRemain.PartialContent(schema)
					s := dumpContent(c, diags)
					if remain2 != nil {
						s += " || " + dumpContent(remain2.Content(rest))
					}
					return s
				})
				add("content", "shared-remain.Content", func(gs *gstate) string { return dumpContent(sharedRemain.Content(rest)) })
				add("just-attributes", "shared-remain.JustAttributes", func(gs *gstate) string {
					at, diags := sharedRemain.JustAttributes()
					var ns []string
					for n := range at {
						ns = append(ns, n)
					}
					sort.Strings(ns)
					return strings.Join(ns, ",") + " diags=" + diagList(diags)
				})
			}
			add("just-attributes", "JustAttributes", func(gs *gstate) string {
				at, diags := body.JustAttributes()
				var ns []string
				for n, a := range at {
					ns = append(ns, n+"@"+a.Range.String())
				}
				sort.Strings(ns)
				return strings.Join(ns, ",") + " diags=" + diagList(diags)
			})
			add("content", "NestedContent", func(gs *gstate) string {
				c, _ := body.Content(rawSchema)
				var sb strings.Builder
				if c != nil {
					for _, b := range c.Blocks {
						if b.Type == "blk" {
							bc, bd := b.Body.Content(blkSchema)
							sb.WriteString(dumpContent(bc, bd) + " ## ")
							if bc != nil {
								for _, ib := range bc.Blocks {
									if ib.Type == "inner" {
										sb.WriteString(dumpContent(ib.Body.Content(innerSchema)) + " # ")
									}
								}
							}
						}
					}
				}
				return sb.String()
			})

			// expressions shared by all goroutines: taken once from the parsed body
			top, blocks := exprsOf(body, rawSchema)
			all := map[string]hcl.Expression{}
			for n, e := range top {
				all[n] = e
			}
			for bi, b := range blocks {
				if b.Type != "blk" {
					continue
				}
				be, inner := exprsOf(b.Body, blkSchema)
				for n, e := range be {
					all[fmt.Sprintf("blk%d.%s", bi, n)] = e
				}
				for ii, ib := range inner {
					if ib.Type == "inner" {
						ie, _ := exprsOf(ib.Body, innerSchema)
						for n, e := range ie {
							all[fmt.Sprintf("blk%d.inner%d.%s", bi, ii, n)] = e
						}
					}
				}
			}
			for ni, n := range sortedKeys(all) {
				e := all[n]
				// a JSON expression re-parses its template on every call and shares no mutable state: a third of
				// them is enough (they are the most expensive calls of the workload)
				if syntax == "json" && ni > 0 && !r.Chance(1, 3) {
					continue
				}
				add("variables", "Variables("+n+")", func(gs *gstate) string { return dumpTraversals(e.Variables()) })
				add("value", "Value("+n+")", func(gs *gstate) string { return dumpVal(e.Value(gs.ctx)) })
				if r.Chance(1, 3) {
					add("value", "Value-in-grandchild("+n+")", func(gs *gstate) string { return dumpVal(e.Value(gs.ctx2)) })
				}
			}

			// hcldec
			switch d.kind {
			case kindPlain:
				add("hcldec-decode", "hcldec.Decode", func(gs *gstate) string { return dumpVal(hcldec.Decode(body, spec, gs.ctx)) })
				add("variables", "hcldec.Variables", func(gs *gstate) string { return dumpTraversals(hcldec.Variables(body, spec)) })
				add("hcldec-decode", "hcldec.PartialDecode", func(gs *gstate) string {
					v, _, diags := hcldec.PartialDecode(body, spec, gs.ctx2)
					return dumpVal(v, diags)
				})
			case kindDynamic, kindDynShared:
				// expansion with the goroutine's own context over the shared parsed body
				add("dynblock-decode", "Decode(Expand(own ctx))", func(gs *gstate) string {
					return dumpVal(hcldec.Decode(dynblock.Expand(body, gs.ctx), spec, gs.ctx))
				})
				add("variables", "dynblock.VariablesHCLDec", func(gs *gstate) string {
					return dumpTraversals(dynblock.VariablesHCLDec(body, spec)) + " || " + dumpTraversals(dynblock.ExpandVariablesHCLDec(body, spec))
				})
				add("dynblock-content", "Expand.Content+Value", func(gs *gstate) string {
					eb := dynblock.Expand(body, gs.ctx)
					c, diags := eb.Content(expSchema)
					s := dumpContent(c, diags)
					if c != nil {
						for _, b := range c.Blocks {
							if b.Type != "dyn" {
								continue
							}
							attrs, ad := b.Body.JustAttributes()
							s += " dyn-attrs-diags=" + diagList(ad)
							for _, n := range []string{"v", "w"} {
								if a, ok := attrs[n]; ok {
									s += " " + n + "=" + dumpVal(a.Expr.Value(gs.ctx))
								}
							}
						}
					}
					return s
				})
				if d.kind == kindDynShared {
					// one expanded body shared by all goroutines: its for_each expressions (splat-free, shared
					// variables only) are evaluated in the read-only shared parent context
					sharedExp := dynblock.Expand(body, rd.parent)
					add("dynblock-decode", "Decode(shared Expand)", func(gs *gstate) string { return dumpVal(hcldec.Decode(sharedExp, spec, gs.ctx)) })
					if _, expRemain, _ := sharedExp.PartialContent(&hcl.BodySchema{Blocks: []hcl.BlockHeaderSchema{{Type: "dyn"}}}); expRemain != nil {
						add("dynblock-content", "shared Expand-remain.PartialContent", func(gs *gstate) string {
							schema := &hcl.BodySchema{Attributes: expSchema.Attributes}
							if gs.idx%2 == 1 {
								schema = &hcl.BodySchema{Blocks: expSchema.Blocks[:1]}
							}
							c, r2, diags := expRemain.PartialContent(schema)
							s := dumpContent(c, diags)
							if r2 != nil {
								s += " || " + dumpContent(r2.Content(&hcl.BodySchema{Attributes: expSchema.Attributes, Blocks: expSchema.Blocks[:1]}))
							}
							return s
						})
					}
					add("dynblock-content", "shared Expand.PartialContent", func(gs *gstate) string {
						c, remain, diags := sharedExp.PartialContent(&hcl.BodySchema{Blocks: []hcl.BlockHeaderSchema{{Type: "dyn"}}})
						s := dumpContent(c, diags)
						if remain != nil {
							s += " || " + dumpContent(remain.Content(&hcl.BodySchema{Attributes: expSchema.Attributes, Blocks: expSchema.Blocks[:1]}))
						}
						return s
					})
				}
			}
		}
	}
	return rd
}

func (rd *round) newGState(i int) *gstate {
	gs := &gstate{idx: i}
	if rd.flat {
		vars := sharedVars()
		for k, v := range goroutineVars(i) {
			vars[k] = v
		}
		gs.ctx = &hcl.EvalContext{Variables: vars, Functions: sharedFunctions()}
	} else {
		gs.ctx = rd.parent.NewChild()
		gs.ctx.Variables = goroutineVars(i)
	}
	gs.ctx2 = gs.ctx.NewChild()
	gs.ctx2.Variables = map[string]cty.Value{"extra": cty.NumberIntVal(int64(i))}
	return gs
}

func safeCall(o op, gs *gstate) (res string) {
	defer func() {
		if r := recover(); r != nil {
			res = fmt.Sprintf("PANIC: %v\n%s", r, lib.Trunc(string(debug.Stack()), 1800))
		}
	}()
	return o.f(gs)
}

func (rd *round) residue() (int, string) {
	total, where := 0, ""
	for _, b := range rd.native {
		_ = hclsyntax.VisitAll(b, func(n hclsyntax.Node) hcl.Diagnostics {
			if s, ok := n.(*hclsyntax.SplatExpr); ok {
				if live := hclsyntax.VerifSplatLive(s); live != 0 {
					total += live
					if where == "" {
						where = s.Range().String()
					}
				}
			}
			return nil
		})
	}
	return total, where
}

type mismatch struct {
	g        int
	op       op
	expected string
	got      string
}

type roundStats struct {
	calls      int
	okValues   int
	errValues  int
	splatExprs int
}

// runRound computes every call's result alone (sequentially, per goroutine context), then runs all
// goroutines at once and compares.
func runRound(cx *lib.Ctx, rd *round) roundStats {
	var st roundStats
	in := roundInput{RoundSeed: rd.seed, Goroutines: rd.goroutines, Iterations: rd.iters}
	for _, d := range rd.docs {
		in.Documents = append(in.Documents, d.native, d.json)
	}
	input := func(opName string) string {
		in.Op = opName
		b, _ := json.Marshal(in)
		return string(b)
	}
	if rd.setupErr != "" {
		cx.Res.Fail(lib.Failure{Kind: "oracle", Key: "harness:generated-document-invalid", Desc: rd.setupErr, Input: input("")})
		return st
	}
	for _, b := range rd.native {
		_ = hclsyntax.VisitAll(b, func(n hclsyntax.Node) hcl.Diagnostics {
			if _, ok := n.(*hclsyntax.SplatExpr); ok {
				st.splatExprs++
			}
			return nil
		})
	}

	// phase 1: alone
	t0 := time.Now()
	defer func() {
		if os.Getenv("HX_C17_DEBUG") != "" {
			fmt.Fprintf(os.Stderr, "round %d: G=%d iters=%d ops=%d calls=%d total=%v\n", rd.seed, rd.goroutines, rd.iters, len(rd.ops), st.calls, time.Since(t0))
		}
	}()
	gss := make([]*gstate, rd.goroutines)
	for i := range gss {
		gs := rd.newGState(i)
		gs.expected = make([]string, len(rd.ops))
		for k, o := range rd.ops {
			gs.expected[k] = safeCall(o, gs)
			if strings.HasPrefix(gs.expected[k], "PANIC:") {
				cx.Res.Fail(lib.Failure{Kind: "oracle", Key: "panic:" + o.kind, Desc: "panic in a call made alone (no concurrency): " + o.name + "\n" + gs.expected[k], Input: input(o.name)})
			}
			if strings.HasPrefix(o.kind, "value") || strings.Contains(o.kind, "decode") {
				if strings.Contains(gs.expected[k], "{1|") {
					st.errValues++
				} else {
					st.okValues++
				}
			}
		}
		// determinism of the call itself: a second solo run must agree, otherwise the comparison is void
		// (checked with the first two contexts only: it is a property of the call, not of the context)
		for k, o := range rd.ops {
			if i >= 2 {
				break
			}
			if again := safeCall(o, gs); again != gs.expected[k] {
				// a call on the parsed configuration changed what the same call returns later: state kept in the
				// shared tree leaks from one use to the next even without concurrency
				cx.Res.Fail(lib.Failure{Kind: "oracle", Key: "sequential-result-differs:" + o.kind, Desc: "the same call with the same context gives two different results when run alone twice (a use of the parsed configuration left state behind in it): " + o.name, Input: input(o.name), Impl: "first:  " + lib.Trunc(gs.expected[k], 1500) + "\nsecond: " + lib.Trunc(again, 1500)})
				gs.expected[k] = "" // excluded from the concurrent comparison
			}
		}
		gss[i] = gs
	}
	if live, where := rd.residue(); live != 0 {
		cx.Res.Fail(lib.Failure{Kind: "oracle", Key: "splat-residue:sequential", Desc: fmt.Sprintf("%d per-context values are still held by splat expressions after all sequential evaluations finished (first at %s)", live, where), Input: input("")})
	}

	// phase 2: all at once
	if os.Getenv("HX_C17_DEBUG") != "" {
		fmt.Fprintf(os.Stderr, "   solo phase %v\n", time.Since(t0))
	}
	var wg sync.WaitGroup
	var mu sync.Mutex
	var mismatches []mismatch
	var calls atomic.Int64
	start := make(chan struct{})
	for i := range gss {
		wg.Add(1)
		go func(gs *gstate) {
			defer wg.Done()
			r := lib.NewRand(rd.seed ^ (uint64(gs.idx)+1)*0x9E3779B97F4A7C15)
			order := make([]int, len(rd.ops))
			<-start
			for it := 0; it < rd.iters; it++ {
				for k := range order {
					order[k] = k
				}
				for k := len(order) - 1; k > 0; k-- {
					j := r.Intn(k + 1)
					order[k], order[j] = order[j], order[k]
				}
				for _, k := range order {
					if gs.expected[k] == "" {
						continue
					}
					switch r.Intn(12) {
					case 0, 1:
						runtime.Gosched()
					case 2:
						time.Sleep(time.Duration(r.Intn(40)) * time.Microsecond)
					case 3, 4:
						for s := r.Intn(200); s > 0; s-- {
							_ = s * s
						}
					}
					got := safeCall(rd.ops[k], gs)
					calls.Add(1)
					if got != gs.expected[k] {
						mu.Lock()
						if len(mismatches) < 50 {
							mismatches = append(mismatches, mismatch{gs.idx, rd.ops[k], gs.expected[k], got})
						}
						mu.Unlock()
					}
				}
			}
		}(gss[i])
	}
	yieldEnabled.Store(true)
	close(start)
	wg.Wait()
	yieldEnabled.Store(false)
	st.calls = int(calls.Load())

	for _, m := range mismatches {
		key := "concurrent-result-differs:" + m.op.kind
		if strings.HasPrefix(m.got, "PANIC:") {
			key = "panic:" + m.op.kind
		}
		cx.Res.Fail(lib.Failure{Kind: "oracle", Key: key,
			Desc:  fmt.Sprintf("goroutine %d of %d: %s returned a different result when run concurrently with the other goroutines (each with its own EvalContext) than when run alone with the same context", m.g, rd.goroutines, m.op.name),
			Input: input(m.op.name), Impl: "alone:      " + lib.Trunc(m.expected, 1500) + "\nconcurrent: " + lib.Trunc(m.got, 1500)})
	}
	// phase 3: no residue
	if live, where := rd.residue(); live != 0 {
		cx.Res.Fail(lib.Failure{Kind: "oracle", Key: "splat-residue", Desc: fmt.Sprintf("%d per-context values are still held by splat expressions after all goroutines finished (first at %s)", live, where), Input: input("")})
	}
	return st
}

// ---- runner ----

func workload(cx *lib.Ctx) {
	res := cx.Res
	res.Rule = "each round generates from the seed four configurations (plain, with dynamic blocks, with dynamic blocks expandable in the shared context, and plain splats over a 120-element list) whose attribute expressions are random compositions of splat expressions ([*] and .*, nested, inside for expressions, templates, conditionals, function calls, index keys), parses them once as native syntax and as the equivalent JSON document, and lets 2-64 goroutines, each with its own EvalContext (child of a shared parent, plus a grandchild; per-goroutine variable values all differ), call Content / PartialContent / JustAttributes / Variables / Value / hcldec.Decode / dynblock.Expand+Decode repeatedly in random order with random yields (and a yield() function that yields inside splat evaluation); every result (canonical value dump + diagnostics) must equal the result of the same call made alone beforehand with the same context, and no splat expression may hold a per-context value afterwards; non-trivial = the call involves at least one goroutine besides the caller; distinct by round source + call name. The same seed gives the same workload but not the same interleaving: scheduling is not deterministic, so a failure may need several runs (replay repeats the round up to 12 times)"
	if cx.Replay != "" {
		var in roundInput
		raw := lib.ReplayInput(cx.Replay)
		if strings.HasPrefix(raw, "FIRSTUSE ") {
			// a failure of the first-use stream: the stream is a function of the seed; run it again
			firstUse(cx)
			return
		}
		if err := json.Unmarshal([]byte(raw), &in); err != nil {
			res.Fail(lib.Failure{Kind: "oracle", Key: "replay-input", Desc: "cannot read the replay input: " + err.Error(), Input: raw})
			return
		}
		for rep := 0; rep < 12 && len(res.Failures) == 0 && cx.Elapsed() < 50*time.Second; rep++ {
			rd := buildRound(in.RoundSeed, nil)
			if in.Goroutines > 0 {
				rd.goroutines = in.Goroutines
			}
			st := runRound(cx, rd)
			res.Evaluations += st.calls
			res.Case(fmt.Sprintf("replay %d", rep), true)
		}
		return
	}
	stats := map[string]int{}
	rounds := cx.Scale(20, 500)
	if raceEnabled && os.Getenv("HX_RACE_FULL") == "" {
		rounds = (rounds + 2) / 3
		res.Notes = append(res.Notes, "race detector enabled: number of rounds divided by 3, at most 12 goroutines, at most 2 passes")
	}
	// safety net for an overloaded machine (the nominal workload takes 10-20 s on 16 idle cores)
	budget := time.Duration(cx.Scale(42, 13*60)) * time.Second
	if raceEnabled {
		budget = time.Duration(cx.Scale(32, 12*60)) * time.Second
	}
	for i := 0; i < rounds; i++ {
		if cx.Elapsed() > budget {
			res.Notes = append(res.Notes, fmt.Sprintf("time budget reached after %d of %d rounds", i, rounds))
			break
		}
		seed := cx.R.U64()
		rd := buildRound(seed, stats)
		st := runRound(cx, rd)
		// one Case per (round, call); the concurrent repetitions are added to the evaluation count
		for _, o := range rd.ops {
			res.Case(fmt.Sprintf("%d|%s", seed, o.name), rd.goroutines >= 2)
			res.Count("call:" + o.kind)
		}
		if extra := st.calls - len(rd.ops); extra > 0 {
			res.Evaluations += extra
		}
		res.Count(fmt.Sprintf("goroutines:%02d", rd.goroutines))
		if rd.flat {
			res.Count("contexts:independent")
		} else {
			res.Count("contexts:children-of-shared-parent")
		}
		res.Distribution["concurrent-calls"] += st.calls
		res.Distribution["solo-results:without-error"] += st.okValues
		res.Distribution["solo-results:with-error-diagnostics"] += st.errValues
		res.Distribution["splat-expressions-in-native-trees"] += st.splatExprs
		if i < 2 {
			res.Sample(rd.docs[i%len(rd.docs)].native)
			res.Sample(rd.docs[(i+1)%len(rd.docs)].json)
		}
	}
	for k, v := range stats {
		res.Distribution[k] = v
	}
	firstUse(cx)
}

// runChild executes bin with the same arguments and takes over its result.
func runChild(cx *lib.Ctx, bin string) {
	tmp, err := os.CreateTemp("", "hx-c17-*.json")
	if err != nil {
		cx.Res.Notes = append(cx.Res.Notes, "cannot create a temporary file for the race child: "+err.Error()+"; running in-process")
		workload(cx)
		return
	}
	tmp.Close()
	defer os.Remove(tmp.Name())
	args := []string{"C17", "-tier", cx.Tier, "-seed", fmt.Sprint(cx.Seed), "-out", tmp.Name()}
	if cx.Replay != "" {
		args = append(args, "-replay", cx.Replay)
	}
	cmd := exec.Command(bin, args...)
	cmd.Env = append(os.Environ(), "HX_RACE_CHILD=1", "GORACE=halt_on_error=1 exitcode=66")
	var stderr bytes.Buffer
	cmd.Stderr = &stderr
	cmd.Stdout = nil
	runErr := cmd.Run()
	code := 0
	if runErr != nil {
		ee, ok := runErr.(*exec.ExitError)
		if !ok {
			// the child could not be started at all
			cx.Res.Notes = append(cx.Res.Notes, "cannot execute "+bin+": "+runErr.Error()+"; running in-process")
			workload(cx)
			return
		}
		code = ee.ExitCode()
	}
	// take over the child's result when it wrote one
	if b, err := os.ReadFile(tmp.Name()); err == nil && len(b) > 0 {
		var child lib.Result
		if json.Unmarshal(b, &child) == nil {
			cx.Res.Evaluations = child.Evaluations
			cx.Res.Distinct = child.Distinct
			cx.Res.Rule = child.Rule
			cx.Res.Samples = child.Samples
			for k, v := range child.Distribution {
				if !strings.HasPrefix(k, "fail:") {
					cx.Res.Distribution[k] = v
				}
			}
			for _, f := range child.Failures {
				cx.Res.Fail(f)
			}
			for _, n := range child.Notes {
				if n != "failure counts per signature:" {
					cx.Res.Notes = append(cx.Res.Notes, n)
				}
			}
		}
	}
	cx.Res.Notes = append(cx.Res.Notes, fmt.Sprintf("workload executed by child %s (exit code %d)", bin, code))
	errText := stderr.String()
	switch {
	case code == 66 || strings.Contains(errText, "WARNING: DATA RACE"):
		rep := errText
		if i := strings.Index(rep, "WARNING: DATA RACE"); i >= 0 {
			rep = rep[i:]
		}
		cx.Res.Fail(lib.Failure{Kind: "oracle", Key: "data-race", Desc: "the race detector reports a data race while goroutines with distinct EvalContexts use one parsed configuration:\n" + lib.Trunc(rep, 2000),
			Input: fmt.Sprintf(`{"seed":%d,"tier":%q}`, cx.Seed, cx.Tier)})
	case strings.Contains(errText, "fatal error: concurrent map"):
		rep := errText[strings.Index(errText, "fatal error: concurrent map"):]
		cx.Res.Fail(lib.Failure{Kind: "oracle", Key: "fatal:concurrent-map-access", Desc: "the Go runtime aborted the workload:\n" + lib.Trunc(rep, 2000), Input: fmt.Sprintf(`{"seed":%d,"tier":%q}`, cx.Seed, cx.Tier)})
	case code != 0:
		cx.Res.Fail(lib.Failure{Kind: "oracle", Key: "child-crashed", Desc: fmt.Sprintf("the workload process ended with exit code %d:\n%s", code, lib.Trunc(errText, 2000)), Input: fmt.Sprintf(`{"seed":%d,"tier":%q}`, cx.Seed, cx.Tier)})
	}
	if cx.Res.Rule == "" {
		cx.Res.Rule = "workload executed in a child process that did not write a result (see failures)"
	}
}

func run(cx *lib.Ctx) {
	if os.Getenv("HX_RACE_CHILD") == "" && cx.Replay == "" {
		corrSymtab(cx)
	}
	if os.Getenv("HX_RACE_CHILD") == "" {
		if bin := os.Getenv("HX_RACE_BIN"); bin != "" {
			runChild(cx, bin)
			return
		}
		// No race binary: the workload is still isolated in a child process (this same binary), because an
		// unsynchronised map access makes the Go runtime abort the whole process ("fatal error: concurrent map
		// writes"), which cannot be recovered and would leave no result. HX_C17_INPROCESS=1 disables this.
		if os.Getenv("HX_C17_INPROCESS") == "" {
			if self, err := os.Executable(); err == nil {
				runChild(cx, self)
				return
			}
		}
	}
	workload(cx)
}
