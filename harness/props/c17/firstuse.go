package c17

import (
	"fmt"
	"strings"
	"sync"

	"github.com/hashicorp/hcl/v2"
	"github.com/hashicorp/hcl/v2/hclsyntax"
	hcljson "github.com/hashicorp/hcl/v2/json"
	"github.com/zclconf/go-cty/cty"

	"hx/lib"
)

// firstUse covers the *first* concurrent use of a freshly parsed configuration.  The main workload computes
// every expected result alone, on the same parsed tree, before the goroutines start; whatever a syntax tree
// initialises lazily on first use (the per-context table of a splat's anonymous symbol, a parsed template kept
// for later, …) is then already in place and a faulty lazy initialisation is never exercised.  Here every
// round parses the source twice: one copy gives the expected results (each goroutine's context, alone), the
// other is used for the first time by all goroutines at once, released together from a barrier.
// Native expressions (tuples of splats, so that many first uses overlap) and the equivalent JSON documents
// (string attributes are templates parsed at evaluation time; variable analysis and evaluation mixed).
func firstUse(cx *lib.Ctx) {
	res := cx.Res
	R := cx.R.Fork()
	rounds := cx.Scale(300, 12000)
	if raceEnabled {
		rounds = cx.Scale(120, 2500)
	}
	goroutines := 8
	for i := 0; i < rounds; i++ {
		r := R.Fork()
		nsplat := 16 + r.Intn(48)
		var parts, jparts []string
		for k := 0; k < nsplat; k++ {
			var e string
			switch r.Intn(4) {
			case 0:
				e = "v[*].a"
			case 1:
				e = "v.*.b"
			case 2:
				e = "[for x in v[*].a : \"${x}!\"]"
			default:
				e = "w[*]"
			}
			parts = append(parts, e)
			jparts = append(jparts, fmt.Sprintf("%q: %q", fmt.Sprintf("k%d", k), "${"+strings.ReplaceAll(e, `"`, `\"`)+"}"))
		}
		src := "[" + strings.Join(parts, ", ") + "]"
		jsrc := "{" + strings.Join(jparts, ", ") + "}"
		ctxs := make([]*hcl.EvalContext, goroutines)
		for g := range ctxs {
			var objs []cty.Value
			for e := 0; e < 3; e++ {
				objs = append(objs, cty.ObjectVal(map[string]cty.Value{
					"a": cty.StringVal(fmt.Sprintf("a%d.%d", g, e)),
					"b": cty.NumberIntVal(int64(100*g + e)),
				}))
			}
			v := cty.TupleVal(objs)
			switch {
			case g%4 == 3:
				// a known, empty source: the splat has no item to bind, it only clears the symbol
				v = cty.EmptyTupleVal
			case g == 5:
				v = cty.ListValEmpty(cty.Object(map[string]cty.Type{"a": cty.String, "b": cty.Number}))
			}
			ctxs[g] = &hcl.EvalContext{Variables: map[string]cty.Value{"v": v, "w": cty.StringVal(fmt.Sprintf("w%d", g))}}
		}
		asJSON := i%3 == 2
		// the calls: evaluate everything (native: one expression; JSON: every attribute, variables first for odd goroutines)
		type parsed struct {
			expr  hcl.Expression
			attrs hcl.Attributes
			names []string
		}
		parse := func() (*parsed, bool) {
			if !asJSON {
				e, diags := hclsyntax.ParseExpression([]byte(src), "", hcl.InitialPos)
				if diags.HasErrors() {
					return nil, false
				}
				return &parsed{expr: e}, true
			}
			f, diags := hcljson.Parse([]byte(jsrc), "x.json")
			if diags.HasErrors() {
				return nil, false
			}
			attrs, diags := f.Body.JustAttributes()
			if diags.HasErrors() {
				return nil, false
			}
			p := &parsed{attrs: attrs}
			for k := 0; k < nsplat; k++ {
				p.names = append(p.names, fmt.Sprintf("k%d", k))
			}
			return p, true
		}
		call := func(p *parsed, g int) (out string) {
			defer func() {
				if x := recover(); x != nil {
					out = fmt.Sprintf("PANIC: %v", x)
				}
			}()
			if p.expr != nil {
				v, diags := p.expr.Value(ctxs[g])
				return lib.DumpValue(v) + " " + diagList(diags)
			}
			var sb strings.Builder
			for _, n := range p.names {
				a := p.attrs[n]
				if g%2 == 1 {
					sb.WriteString(dumpTraversals(a.Expr.Variables()))
				}
				v, diags := a.Expr.Value(ctxs[g])
				sb.WriteString(lib.DumpValue(v) + " " + diagList(diags) + ";")
			}
			return sb.String()
		}
		ref, ok1 := parse()
		fresh, ok2 := parse()
		if !ok1 || !ok2 {
			res.Fail(lib.Failure{Kind: "oracle", Key: "harness:first-use-unparseable", Input: src})
			continue
		}
		expected := make([]string, goroutines)
		for g := range expected {
			expected[g] = call(ref, g)
		}
		got := make([]string, goroutines)
		var start, done sync.WaitGroup
		start.Add(1)
		for g := 0; g < goroutines; g++ {
			done.Add(1)
			go func(g int) {
				defer done.Done()
				start.Wait()
				got[g] = call(fresh, g)
			}(g)
		}
		start.Done()
		done.Wait()
		kind := "native"
		if asJSON {
			kind = "json"
		}
		res.Count("first-use-rounds:" + kind)
		res.Evaluations += goroutines
		res.Case(fmt.Sprintf("first-use|%d|%s", i, kind), true)
		for g := range got {
			if got[g] != expected[g] {
				in := src
				if asJSON {
					in = jsrc
				}
				res.Fail(lib.Failure{Kind: "oracle", Key: "first-use-differs:" + kind,
					Desc:  fmt.Sprintf("goroutine %d of %d: the first, concurrent evaluation of a freshly parsed configuration gives a different result than the same evaluation with the same context made alone on another parse of the same source", g, goroutines),
					Input: "FIRSTUSE " + kind + " " + in, Impl: "alone:      " + lib.Trunc(expected[g], 1200) + "\nconcurrent: " + lib.Trunc(got[g], 1200)})
				break
			}
		}
		if len(res.Failures) > 3 {
			break
		}
	}
	firstUseBody(cx)
	sharedSchema(cx)
	nilContext(cx)
	deepDynamic(cx)
	partialTrees(cx)
	userFunctions(cx)
}

// firstUseBody: the first content extraction on a freshly parsed body, by all goroutines at once, with schemas
// naming one or several block types (Content, PartialContent and the remaining body's Content).
func firstUseBody(cx *lib.Ctx) {
	res := cx.Res
	R := cx.R.Fork()
	rounds := cx.Scale(250, 10000)
	if raceEnabled {
		rounds = cx.Scale(100, 2000)
	}
	goroutines := 8
	types := []string{"svc", "net", "vol"}
	for i := 0; i < rounds; i++ {
		r := R.Fork()
		var sb strings.Builder
		nblocks := 20 + r.Intn(60)
		for k := 0; k < nblocks; k++ {
			fmt.Fprintf(&sb, "%s \"l%d\" {\n  n = %d\n}\n", types[r.Intn(len(types))], k, k)
		}
		sb.WriteString("top = 1\n")
		src := sb.String()
		schemas := make([]*hcl.BodySchema, goroutines)
		for g := range schemas {
			sc := &hcl.BodySchema{Attributes: []hcl.AttributeSchema{{Name: "top"}}}
			nt := 1
			if g%3 == 2 {
				nt = 2
			}
			for _, t := range types[(g % 3):][:1] {
				sc.Blocks = append(sc.Blocks, hcl.BlockHeaderSchema{Type: t, LabelNames: []string{"name"}})
			}
			if nt == 2 {
				sc.Blocks = append(sc.Blocks, hcl.BlockHeaderSchema{Type: types[(g+1)%3], LabelNames: []string{"name"}})
			}
			schemas[g] = sc
		}
		dump := func(c *hcl.BodyContent, d hcl.Diagnostics) string {
			var out []string
			for _, b := range c.Blocks {
				out = append(out, b.Type+":"+strings.Join(b.Labels, ","))
			}
			return fmt.Sprintf("attrs=%d blocks=[%s] %s", len(c.Attributes), strings.Join(out, " "), diagList(d))
		}
		call := func(body hcl.Body, g int) (out string) {
			defer func() {
				if x := recover(); x != nil {
					out = fmt.Sprintf("PANIC: %v", x)
				}
			}()
			if g%2 == 0 {
				c, rest, d := body.PartialContent(schemas[g])
				s := dump(c, d)
				c2, _, d2 := rest.PartialContent(schemas[(g+1)%goroutines])
				return s + " || " + dump(c2, d2)
			}
			c, d := body.Content(&hcl.BodySchema{Attributes: schemas[g].Attributes, Blocks: []hcl.BlockHeaderSchema{
				{Type: "svc", LabelNames: []string{"name"}}, {Type: "net", LabelNames: []string{"name"}}, {Type: "vol", LabelNames: []string{"name"}}}})
			c1, _, d1 := body.PartialContent(schemas[g])
			return dump(c, d) + " || " + dump(c1, d1)
		}
		parse := func() hcl.Body {
			f, diags := hclsyntax.ParseConfig([]byte(src), "", hcl.InitialPos)
			if diags.HasErrors() {
				return nil
			}
			return f.Body
		}
		ref, fresh := parse(), parse()
		if ref == nil || fresh == nil {
			continue
		}
		expected := make([]string, goroutines)
		for g := range expected {
			expected[g] = call(ref, g)
		}
		got := make([]string, goroutines)
		var start, done sync.WaitGroup
		start.Add(1)
		for g := 0; g < goroutines; g++ {
			done.Add(1)
			go func(g int) {
				defer done.Done()
				start.Wait()
				got[g] = call(fresh, g)
			}(g)
		}
		start.Done()
		done.Wait()
		res.Count("first-use-rounds:body")
		res.Evaluations += goroutines
		res.Case(fmt.Sprintf("first-use-body|%d", i), true)
		for g := range got {
			if got[g] != expected[g] {
				res.Fail(lib.Failure{Kind: "oracle", Key: "first-use-differs:body",
					Desc:  fmt.Sprintf("goroutine %d of %d: the first, concurrent content extraction on a freshly parsed body gives a different result than the same calls made alone on another parse of the same source", g, goroutines),
					Input: "FIRSTUSE body " + src, Impl: "alone:      " + lib.Trunc(expected[g], 1200) + "\nconcurrent: " + lib.Trunc(got[g], 1200)})
				break
			}
		}
		if len(res.Failures) > 3 {
			break
		}
	}
}
