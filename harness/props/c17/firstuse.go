package c17

import (
	"fmt"
	"strings"
	"sync"

	"github.com/hashicorp/hcl/v2"
	"github.com/hashicorp/hcl/v2/hclsyntax"
	hcljson "github.com/hashicorp/hcl/v2/json"
	"github.com/zclconf/go-cty/cty"

	"hx/lib"
)

// firstUse covers the *first* concurrent use of a freshly parsed configuration.  The main workload computes
// every expected result alone, on the same parsed tree, before the goroutines start; whatever a syntax tree
// initialises lazily on first use (the per-context table of a splat's anonymous symbol, a parsed template kept
// for later, …) is then already in place and a faulty lazy initialisation is never exercised.  Here every
// round parses the source twice: one copy gives the expected results (each goroutine's context, alone), the
// other is used for the first time by all goroutines at once, released together from a barrier.
// Native expressions (tuples of splats, so that many first uses overlap) and the equivalent JSON documents
// (string attributes are templates parsed at evaluation time; variable analysis and evaluation mixed).
func firstUse(cx *lib.Ctx) {
	res := cx.Res
	R := cx.R.Fork()
	rounds := cx.Scale(300, 12000)
	if raceEnabled {
		rounds = cx.Scale(120, 2500)
	}
	goroutines := 8
	for i := 0; i < rounds; i++ {
		r := R.Fork()
		nsplat := 16 + r.Intn(48)
		var parts, jparts []string
		for k := 0; k < nsplat; k++ {
			var e string
			switch r.Intn(4) {
			case 0:
				e = "v[*].a"
			case 1:
				e = "v.*.b"
			case 2:
				e = "[for x in v[*].a : \"${x}!\"]"
			default:
				e = "w[*]"
			}
			parts = append(parts, e)
			jparts = append(jparts, fmt.Sprintf("%q: %q", fmt.Sprintf("k%d", k), "${"+strings.ReplaceAll(e, `"`, `\"`)+"}"))
		}
		src := "[" + strings.Join(parts, ", ") + "]"
		jsrc := "{" + strings.Join(jparts, ", ") + "}"
		ctxs := make([]*hcl.EvalContext, goroutines)
		for g := range ctxs {
			var objs []cty.Value
			for e := 0; e < 3; e++ {
				objs = append(objs, cty.ObjectVal(map[string]cty.Value{
					"a": cty.StringVal(fmt.Sprintf("a%d.%d", g, e)),
					"b": cty.NumberIntVal(int64(100*g + e)),
				}))
			}
			ctxs[g] = &hcl.EvalContext{Variables: map[string]cty.Value{"v": cty.TupleVal(objs), "w": cty.StringVal(fmt.Sprintf("w%d", g))}}
		}
		asJSON := i%3 == 2
		// the calls: evaluate everything (native: one expression; JSON: every attribute, variables first for odd goroutines)
		type parsed struct {
			expr  hcl.Expression
			attrs hcl.Attributes
			names []string
		}
		parse := func() (*parsed, bool) {
			if !asJSON {
				e, diags := hclsyntax.ParseExpression([]byte(src), "", hcl.InitialPos)
				if diags.HasErrors() {
					return nil, false
				}
				return &parsed{expr: e}, true
			}
			f, diags := hcljson.Parse([]byte(jsrc), "x.json")
			if diags.HasErrors() {
				return nil, false
			}
			attrs, diags := f.Body.JustAttributes()
			if diags.HasErrors() {
				return nil, false
			}
			p := &parsed{attrs: attrs}
			for k := 0; k < nsplat; k++ {
				p.names = append(p.names, fmt.Sprintf("k%d", k))
			}
			return p, true
		}
		call := func(p *parsed, g int) (out string) {
			defer func() {
				if x := recover(); x != nil {
					out = fmt.Sprintf("PANIC: %v", x)
				}
			}()
			if p.expr != nil {
				v, diags := p.expr.Value(ctxs[g])
				return lib.DumpValue(v) + " " + diagList(diags)
			}
			var sb strings.Builder
			for _, n := range p.names {
				a := p.attrs[n]
				if g%2 == 1 {
					sb.WriteString(dumpTraversals(a.Expr.Variables()))
				}
				v, diags := a.Expr.Value(ctxs[g])
				sb.WriteString(lib.DumpValue(v) + " " + diagList(diags) + ";")
			}
			return sb.String()
		}
		ref, ok1 := parse()
		fresh, ok2 := parse()
		if !ok1 || !ok2 {
			res.Fail(lib.Failure{Kind: "oracle", Key: "harness:first-use-unparseable", Input: src})
			continue
		}
		expected := make([]string, goroutines)
		for g := range expected {
			expected[g] = call(ref, g)
		}
		got := make([]string, goroutines)
		var start, done sync.WaitGroup
		start.Add(1)
		for g := 0; g < goroutines; g++ {
			done.Add(1)
			go func(g int) {
				defer done.Done()
				start.Wait()
				got[g] = call(fresh, g)
			}(g)
		}
		start.Done()
		done.Wait()
		kind := "native"
		if asJSON {
			kind = "json"
		}
		res.Count("first-use-rounds:" + kind)
		res.Evaluations += goroutines
		res.Case(fmt.Sprintf("first-use|%d|%s", i, kind), true)
		for g := range got {
			if got[g] != expected[g] {
				in := src
				if asJSON {
					in = jsrc
				}
				res.Fail(lib.Failure{Kind: "oracle", Key: "first-use-differs:" + kind,
					Desc:  fmt.Sprintf("goroutine %d of %d: the first, concurrent evaluation of a freshly parsed configuration gives a different result than the same evaluation with the same context made alone on another parse of the same source", g, goroutines),
					Input: "FIRSTUSE " + kind + " " + in, Impl: "alone:      " + lib.Trunc(expected[g], 1200) + "\nconcurrent: " + lib.Trunc(got[g], 1200)})
				break
			}
		}
		if len(res.Failures) > 3 {
			break
		}
	}
}
