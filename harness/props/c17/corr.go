package c17

import (
	"fmt"
	"strings"

	"github.com/hashicorp/hcl/v2"
	"github.com/hashicorp/hcl/v2/hclsyntax"
	"github.com/zclconf/go-cty/cty"

	"hx/lib"
)

// corrSymtab drives the real per-context table of an anonymous symbol (setValue / clearValue / Value, through
// the verif hooks) and the Lean model `HclModel.Conc` with the same random operation sequences and compares
// every observed value and the final number of live entries.
func corrSymtab(cx *lib.Ctx) {
	if !cx.HasModel() {
		return
	}
	n := cx.Scale(400, 20000)
	for i := 0; i < n; i++ {
		r := cx.R.Fork()
		sym := &hclsyntax.AnonSymbolExpr{}
		nctx := 1 + r.Intn(5)
		ctxs := make([]*hcl.EvalContext, nctx)
		parent := &hcl.EvalContext{}
		for k := range ctxs {
			if r.Chance(1, 2) {
				ctxs[k] = parent.NewChild()
			} else {
				ctxs[k] = &hcl.EvalContext{}
			}
		}
		var ops, got []string
		for j := 1 + r.Intn(25); j > 0; j-- {
			k := r.Intn(nctx)
			switch r.Intn(3) {
			case 0:
				v := r.Intn(1000)
				hclsyntax.VerifAnonSet(sym, ctxs[k], cty.NumberIntVal(int64(v)))
				ops = append(ops, fmt.Sprintf("s:%d:%d", k, v))
			case 1:
				hclsyntax.VerifAnonClear(sym, ctxs[k])
				ops = append(ops, fmt.Sprintf("c:%d", k))
			default:
				val, _ := sym.Value(ctxs[k])
				ops = append(ops, fmt.Sprintf("g:%d", k))
				if val.RawEquals(cty.DynamicVal) {
					got = append(got, "-")
				} else {
					bf := val.AsBigFloat()
					iv, _ := bf.Int64()
					got = append(got, fmt.Sprint(iv))
				}
			}
		}
		impl := strings.Join(got, " ") + " | " + fmt.Sprint(hclsyntax.VerifAnonLive(sym))
		line := "SYMTAB " + strings.Join(ops, " ")
		model := cx.Ask(line)
		cx.Res.CorrChecked++
		if model != impl {
			cx.Res.Fail(lib.Failure{Kind: "corr", Key: "SYMTAB", Desc: "per-context symbol table differs from the model", Input: line, Model: model, Impl: impl})
		}
	}
}
