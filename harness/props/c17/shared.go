package c17

import (
	"fmt"
	"reflect"
	"sort"
	"strings"
	"sync"

	"github.com/hashicorp/hcl/v2"
	"github.com/hashicorp/hcl/v2/ext/dynblock"
	"github.com/hashicorp/hcl/v2/hclsyntax"
	hcljson "github.com/hashicorp/hcl/v2/json"

	"hx/lib"
)

// sharedSchema: what callers share besides the parsed tree — the *schema*.  One hcl.BodySchema value (with
// required attributes that the configuration does not set, so that the "missing" path runs) is handed to
// Content / PartialContent of every kind of body, first twice in a row and then by all goroutines at once.
// Bodies: native, JSON in object form, JSON in array-of-objects form (first object with 3, 5, 6, 7 properties),
// merged (native + JSON), and dynblock.Expand over the native and the merged one.  Every result must equal the
// result of the same call made alone on another parse with its own copy of the schema, and the shared schema
// must be unchanged at the end.  (Under the race detector the same stream looks for writes to the schema or to
// the parsed tree.)
func sharedSchema(cx *lib.Ctx) {
	res := cx.Res
	R := cx.R.Fork()
	rounds := cx.Scale(150, 5000)
	if raceEnabled {
		rounds = cx.Scale(80, 1500)
	}
	goroutines := 8
	for i := 0; i < rounds; i++ {
		r := R.Fork()
		nprops := []int{3, 5, 6, 7, 9, 2, 4}[r.Intn(7)]
		var nsb, j1, j2 strings.Builder
		j1.WriteString("{")
		for k := 0; k < nprops; k++ {
			fmt.Fprintf(&nsb, "a%d = %d\n", k, k)
			if k > 0 {
				j1.WriteString(",")
			}
			fmt.Fprintf(&j1, "\"j%d\": %d", k, k)
		}
		j1.WriteString("}")
		nblocks := 1 + r.Intn(4)
		j2.WriteString("{\"svc\": {")
		for k := 0; k < nblocks; k++ {
			fmt.Fprintf(&nsb, "svc \"n%d\" {\n  v = %d\n}\n", k, k)
			if k > 0 {
				j2.WriteString(",")
			}
			fmt.Fprintf(&j2, "\"j%d\": {\"v\": %d}", k, k)
		}
		j2.WriteString("}}")
		nsb.WriteString("dynamic \"svc\" {\n  for_each = [1, 2]\n  labels = [\"d${svc.key}\"]\n  content {\n    v = svc.value\n  }\n}\n")
		nsrc := nsb.String()
		jobj := strings.TrimSuffix(j1.String(), "}") + "," + strings.TrimPrefix(j2.String(), "{")
		jarr := "[" + j1.String() + "," + j2.String() + "]"

		mkSchema := func() *hcl.BodySchema {
			s := &hcl.BodySchema{Blocks: []hcl.BlockHeaderSchema{{Type: "svc", LabelNames: []string{"name"}}, {Type: "dynamic", LabelNames: []string{"type"}}}}
			for k := 0; k < nprops; k++ {
				s.Attributes = append(s.Attributes, hcl.AttributeSchema{Name: fmt.Sprintf("a%d", k)}, hcl.AttributeSchema{Name: fmt.Sprintf("j%d", k)})
			}
			// required and absent everywhere, in the middle and at the end of the list
			s.Attributes = append(s.Attributes[:2], append([]hcl.AttributeSchema{{Name: "needed_1", Required: true}}, s.Attributes[2:]...)...)
			s.Attributes = append(s.Attributes, hcl.AttributeSchema{Name: "needed_2", Required: true})
			return s
		}
		type kit struct {
			names  []string
			bodies map[string]hcl.Body
		}
		build := func() *kit {
			nf, d1 := hclsyntax.ParseConfig([]byte(nsrc), "n.hcl", hcl.InitialPos)
			jo, d2 := hcljson.Parse([]byte(jobj), "o.json")
			ja, d3 := hcljson.Parse([]byte(jarr), "a.json")
			if d1.HasErrors() || d2.HasErrors() || d3.HasErrors() {
				return nil
			}
			ctx := &hcl.EvalContext{}
			merged := hcl.MergeBodies([]hcl.Body{nf.Body, ja.Body})
			k := &kit{bodies: map[string]hcl.Body{
				"native": nf.Body, "json-object": jo.Body, "json-array": ja.Body, "merged": merged,
				"expanded-native": dynblock.Expand(nf.Body, ctx), "expanded-merged": dynblock.Expand(merged, ctx),
			}}
			for n := range k.bodies {
				k.names = append(k.names, n)
			}
			sort.Strings(k.names)
			return k
		}
		dump := func(c *hcl.BodyContent, d hcl.Diagnostics) string {
			var as, bs []string
			for n := range c.Attributes {
				as = append(as, n)
			}
			sort.Strings(as)
			for _, b := range c.Blocks {
				bs = append(bs, b.Type+":"+strings.Join(b.Labels, ","))
			}
			return fmt.Sprintf("attrs=%v blocks=%v %s", as, bs, diagList(d))
		}
		call := func(k *kit, schema *hcl.BodySchema, g int) (out string) {
			defer func() {
				if x := recover(); x != nil {
					out = fmt.Sprintf("PANIC: %v", x)
				}
			}()
			var sb strings.Builder
			for bi, n := range k.names {
				b := k.bodies[n]
				if (g+bi)%2 == 0 {
					c, _, d := b.PartialContent(schema)
					sb.WriteString(n + " P " + dump(c, d) + "\n")
				} else {
					c, d := b.Content(schema)
					sb.WriteString(n + " C " + dump(c, d) + "\n")
				}
			}
			return sb.String()
		}
		ref, fresh := build(), build()
		if ref == nil || fresh == nil {
			res.Fail(lib.Failure{Kind: "oracle", Key: "harness:shared-schema-unparseable", Input: nsrc + "\n" + jarr})
			continue
		}
		expected := make([]string, goroutines)
		for g := range expected {
			expected[g] = call(ref, mkSchema(), g) // alone: own tree, own schema
		}
		shared := mkSchema()
		pristine := mkSchema()
		input := "SHAREDSCHEMA\n" + nsrc + "\n" + jobj + "\n" + jarr
		// twice in a row with the shared schema …
		for rep := 0; rep < 2; rep++ {
			if got := call(fresh, shared, 0); got != expected[0] {
				res.Fail(lib.Failure{Kind: "oracle", Key: "shared-schema:sequential-result-differs",
					Desc:  fmt.Sprintf("use %d of one schema value gives a different result than the same calls with a schema of their own", rep+1),
					Input: input, Impl: "own schema:    " + lib.Trunc(expected[0], 1500) + "\nshared schema: " + lib.Trunc(got, 1500)})
				break
			}
		}
		// … then by everybody at once
		got := make([]string, goroutines)
		var start, done sync.WaitGroup
		start.Add(1)
		for g := 0; g < goroutines; g++ {
			done.Add(1)
			go func(g int) {
				defer done.Done()
				start.Wait()
				got[g] = call(fresh, shared, g)
			}(g)
		}
		start.Done()
		done.Wait()
		res.Count("shared-schema-rounds")
		res.Evaluations += goroutines + 2
		res.Case(fmt.Sprintf("shared-schema|%d", i), true)
		for g := range got {
			if got[g] != expected[g] {
				res.Fail(lib.Failure{Kind: "oracle", Key: "shared-schema:concurrent-result-differs",
					Desc:  fmt.Sprintf("goroutine %d of %d: content extraction with a schema shared between the callers gives a different result than the same calls made alone", g, goroutines),
					Input: input, Impl: "alone:      " + lib.Trunc(expected[g], 1500) + "\nconcurrent: " + lib.Trunc(got[g], 1500)})
				break
			}
		}
		if !reflect.DeepEqual(shared, pristine) {
			res.Fail(lib.Failure{Kind: "oracle", Key: "shared-schema:schema-modified",
				Desc:  "the caller's schema value was modified by Content / PartialContent",
				Input: input, Impl: fmt.Sprintf("before: %+v\nafter:  %+v", *pristine, *shared)})
		}
		if len(res.Failures) > 3 {
			break
		}
	}
}
