package c17

import (
	"fmt"
	"reflect"
	"sort"
	"strings"
	"sync"

	"github.com/hashicorp/hcl/v2"
	"github.com/hashicorp/hcl/v2/ext/dynblock"
	"github.com/hashicorp/hcl/v2/hclsyntax"
	hcljson "github.com/hashicorp/hcl/v2/json"

	"hx/lib"
)

// sharedSchema: what callers share besides the parsed tree — the *schema*.  One hcl.BodySchema value (with
// required attributes that the configuration does not set, so that the "missing" path runs) is handed to
// Content / PartialContent of every kind of body, first twice in a row and then by all goroutines at once.
// Bodies: native, JSON in object form, JSON in array-of-objects form (first object with 3, 5, 6, 7 properties),
// merged (native + JSON), and dynblock.Expand over the native and the merged one.  Every result must equal the
// result of the same call made alone on another parse with its own copy of the schema, and the shared schema
// must be unchanged at the end.  (Under the race detector the same stream looks for writes to the schema or to
// the parsed tree.)
func sharedSchema(cx *lib.Ctx) {
	res := cx.Res
	R := cx.R.Fork()
	rounds := cx.Scale(150, 5000)
	if raceEnabled {
		rounds = cx.Scale(80, 1500)
	}
	goroutines := 8
	for i := 0; i < rounds; i++ {
		r := R.Fork()
		nprops := []int{3, 5, 6, 7, 9, 2, 4}[r.Intn(7)]
		var nsb, j1, j2 strings.Builder
		j1.WriteString("{")
		for k := 0; k < nprops; k++ {
			fmt.Fprintf(&nsb, "a%d = %d\n", k, k)
			if k > 0 {
				j1.WriteString(",")
			}
			fmt.Fprintf(&j1, "\"j%d\": %d", k, k)
		}
		j1.WriteString("}")
		nblocks := 1 + r.Intn(4)
		j2.WriteString("{\"svc\": {")
		for k := 0; k < nblocks; k++ {
			fmt.Fprintf(&nsb, "svc \"n%d\" {\n  v = %d\n}\n", k, k)
			if k > 0 {
				j2.WriteString(",")
			}
			fmt.Fprintf(&j2, "\"j%d\": {\"v\": %d}", k, k)
		}
		j2.WriteString("}}")
		nsb.WriteString("dynamic \"svc\" {\n  for_each = [1, 2]\n  labels = [\"d${svc.key}\"]\n  content {\n    v = svc.value\n  }\n}\n")
		nsrc := nsb.String()
		jobj := strings.TrimSuffix(j1.String(), "}") + "," + strings.TrimPrefix(j2.String(), "{")
		jarr := "[" + j1.String() + "," + j2.String() + "]"

		mkSchema := func() *hcl.BodySchema {
			s := &hcl.BodySchema{Blocks: []hcl.BlockHeaderSchema{{Type: "svc", LabelNames: []string{"name"}}, {Type: "dynamic", LabelNames: []string{"type"}}}}
			for k := 0; k < nprops; k++ {
				s.Attributes = append(s.Attributes, hcl.AttributeSchema{Name: fmt.Sprintf("a%d", k)}, hcl.AttributeSchema{Name: fmt.Sprintf("j%d", k)})
			}
			// required and absent everywhere, in the middle and at the end of the list
			s.Attributes = append(s.Attributes[:2], append([]hcl.AttributeSchema{{Name: "needed_1", Required: true}}, s.Attributes[2:]...)...)
			s.Attributes = append(s.Attributes, hcl.AttributeSchema{Name: "needed_2", Required: true})
			return s
		}
		type kit struct {
			names  []string
			bodies map[string]hcl.Body
		}
		build := func() *kit {
			nf, d1 := hclsyntax.ParseConfig([]byte(nsrc), "n.hcl", hcl.InitialPos)
			jo, d2 := hcljson.Parse([]byte(jobj), "o.json")
			ja, d3 := hcljson.Parse([]byte(jarr), "a.json")
			if d1.HasErrors() || d2.HasErrors() || d3.HasErrors() {
				return nil
			}
			ctx := &hcl.EvalContext{}
			merged := hcl.MergeBodies([]hcl.Body{nf.Body, ja.Body})
			k := &kit{bodies: map[string]hcl.Body{
				"native": nf.Body, "json-object": jo.Body, "json-array": ja.Body, "merged": merged,
				"expanded-native": dynblock.Expand(nf.Body, ctx), "expanded-merged": dynblock.Expand(merged, ctx),
			}}
			for n := range k.bodies {
				k.names = append(k.names, n)
			}
			sort.Strings(k.names)
			return k
		}
		dump := func(c *hcl.BodyContent, d hcl.Diagnostics) string {
			var as, bs []string
			for n := range c.Attributes {
				as = append(as, n)
			}
			sort.Strings(as)
			for _, b := range c.Blocks {
				bs = append(bs, b.Type+":"+strings.Join(b.Labels, ","))
			}
			return fmt.Sprintf("attrs=%v blocks=%v %s", as, bs, diagList(d))
		}
		call := func(k *kit, schema *hcl.BodySchema, g int) (out string) {
			defer func() {
				if x := recover(); x != nil {
					out = fmt.Sprintf("PANIC: %v", x)
				}
			}()
			var sb strings.Builder
			for bi, n := range k.names {
				b := k.bodies[n]
				if (g+bi)%2 == 0 {
					c, _, d := b.PartialContent(schema)
					sb.WriteString(n + " P " + dump(c, d) + "\n")
				} else {
					c, d := b.Content(schema)
					sb.WriteString(n + " C " + dump(c, d) + "\n")
				}
			}
			return sb.String()
		}
		ref, fresh := build(), build()
		if ref == nil || fresh == nil {
			res.Fail(lib.Failure{Kind: "oracle", Key: "harness:shared-schema-unparseable", Input: nsrc + "\n" + jarr})
			continue
		}
		expected := make([]string, goroutines)
		for g := range expected {
			expected[g] = call(ref, mkSchema(), g) // alone: own tree, own schema
		}
		shared := mkSchema()
		pristine := mkSchema()
		input := "SHAREDSCHEMA\n" + nsrc + "\n" + jobj + "\n" + jarr
		// twice in a row with the shared schema …
		for rep := 0; rep < 2; rep++ {
			if got := call(fresh, shared, 0); got != expected[0] {
				res.Fail(lib.Failure{Kind: "oracle", Key: "shared-schema:sequential-result-differs",
					Desc:  fmt.Sprintf("use %d of one schema value gives a different result than the same calls with a schema of their own", rep+1),
					Input: input, Impl: "own schema:    " + lib.Trunc(expected[0], 1500) + "\nshared schema: " + lib.Trunc(got, 1500)})
				break
			}
		}
		// … then by everybody at once
		got := make([]string, goroutines)
		var start, done sync.WaitGroup
		start.Add(1)
		for g := 0; g < goroutines; g++ {
			done.Add(1)
			go func(g int) {
				defer done.Done()
				start.Wait()
				got[g] = call(fresh, shared, g)
			}(g)
		}
		start.Done()
		done.Wait()
		res.Count("shared-schema-rounds")
		res.Evaluations += goroutines + 2
		res.Case(fmt.Sprintf("shared-schema|%d", i), true)
		for g := range got {
			if got[g] != expected[g] {
				res.Fail(lib.Failure{Kind: "oracle", Key: "shared-schema:concurrent-result-differs",
					Desc:  fmt.Sprintf("goroutine %d of %d: content extraction with a schema shared between the callers gives a different result than the same calls made alone", g, goroutines),
					Input: input, Impl: "alone:      " + lib.Trunc(expected[g], 1500) + "\nconcurrent: " + lib.Trunc(got[g], 1500)})
				break
			}
		}
		if !reflect.DeepEqual(shared, pristine) {
			res.Fail(lib.Failure{Kind: "oracle", Key: "shared-schema:schema-modified",
				Desc:  "the caller's schema value was modified by Content / PartialContent",
				Input: input, Impl: fmt.Sprintf("before: %+v\nafter:  %+v", *pristine, *shared)})
		}
		if len(res.Failures) > 3 {
			break
		}
	}
}

// nilContext: evaluation without any EvalContext (what gohcl.DecodeBody(body, nil, …) and hclsimple do for
// configurations without variables).  There is then no context of the caller's to key per-evaluation state on:
// every goroutine evaluating the same parsed splat over literal data must still see only its own items.
func nilContext(cx *lib.Ctx) {
	res := cx.Res
	R := cx.R.Fork()
	rounds := cx.Scale(60, 1500)
	if raceEnabled {
		rounds = cx.Scale(30, 500)
	}
	goroutines := 8
	for i := 0; i < rounds; i++ {
		r := R.Fork()
		n := 12 + r.Intn(40)
		var items []string
		for k := 0; k < n; k++ {
			items = append(items, fmt.Sprintf("{ a = \"item%d\", b = %d, c = [%d, %d] }", k, k, k, -k))
		}
		lit := "[" + strings.Join(items, ", ") + "]"
		src := "[" + lit + "[*].a, " + lit + ".*.b, " + lit + "[*].c[0], [for x in " + lit + "[*].a : \"${x}!\"], " + lit + "[*].c[*]]"
		e, diags := hclsyntax.ParseExpression([]byte(src), "", hcl.InitialPos)
		ref, d2 := hclsyntax.ParseExpression([]byte(src), "", hcl.InitialPos)
		if diags.HasErrors() || d2.HasErrors() {
			res.Fail(lib.Failure{Kind: "oracle", Key: "harness:nil-context-unparseable", Input: src})
			continue
		}
		eval := func(x hclsyntax.Expression) (out string) {
			defer func() {
				if p := recover(); p != nil {
					out = fmt.Sprintf("PANIC: %v", p)
				}
			}()
			v, d := x.Value(nil)
			return lib.DumpValue(v) + " " + diagList(d)
		}
		want := eval(ref)
		got := make([]string, goroutines)
		var start, done sync.WaitGroup
		start.Add(1)
		for g := 0; g < goroutines; g++ {
			done.Add(1)
			go func(g int) {
				defer done.Done()
				start.Wait()
				for k := 0; k < 6; k++ {
					if o := eval(e); o != want {
						got[g] = o
						return
					}
				}
				got[g] = want
			}(g)
		}
		start.Done()
		done.Wait()
		res.Count("nil-context-rounds")
		res.Evaluations += goroutines * 6
		res.Case(fmt.Sprintf("nil-context|%d", i), true)
		for g := range got {
			if got[g] != want {
				res.Fail(lib.Failure{Kind: "oracle", Key: "nil-context:concurrent-result-differs",
					Desc:  fmt.Sprintf("goroutine %d of %d: evaluating one parsed expression with a nil EvalContext concurrently gives a different result than evaluating it alone", g, goroutines),
					Input: "NILCONTEXT " + lib.Trunc(src, 600), Impl: "alone:      " + lib.Trunc(want, 1200) + "\nconcurrent: " + lib.Trunc(got[g], 1200)})
				break
			}
		}
		if len(res.Failures) > 3 {
			break
		}
	}
}

// deepDynamic: dynamic blocks nested four and five levels deep, every level with several elements, the innermost
// attribute naming the iterator of every level.  The expanded tree is walked down to the third level; then the
// sibling bodies of that level are processed (a) interleaved — all of them are asked for their blocks before any
// attribute is evaluated — and (b) by one goroutine each.  Every sibling must see its own iterators, exactly as
// in a depth-first walk of a separate expansion.
func deepDynamic(cx *lib.Ctx) {
	res := cx.Res
	R := cx.R.Fork()
	rounds := cx.Scale(40, 800)
	if raceEnabled {
		rounds = cx.Scale(20, 300)
	}
	for i := 0; i < rounds; i++ {
		r := R.Fork()
		levels := 4 + r.Intn(2)
		names := []string{"a", "b", "c", "d", "e"}[:levels]
		var sb strings.Builder
		for li, n := range names {
			ind := strings.Repeat("  ", li*2)
			fmt.Fprintf(&sb, "%sdynamic %q {\n%s  for_each = [%s]\n%s  content {\n", ind, n, ind, func() string {
				k := 2 + r.Intn(3)
				var xs []string
				for j := 0; j < k; j++ {
					xs = append(xs, fmt.Sprintf("\"%s%d\"", n, j))
				}
				return strings.Join(xs, ", ")
			}(), ind)
		}
		var refs []string
		for _, n := range names {
			refs = append(refs, "${"+n+".value}")
		}
		fmt.Fprintf(&sb, "%sv = \"%s\"\n", strings.Repeat("  ", levels*2), strings.Join(refs, "/"))
		for li := levels - 1; li >= 0; li-- {
			ind := strings.Repeat("  ", li*2)
			fmt.Fprintf(&sb, "%s  }\n%s}\n", ind, ind)
		}
		src := sb.String()
		f, diags := hclsyntax.ParseConfig([]byte(src), "deep.hcl", hcl.InitialPos)
		if diags.HasErrors() {
			res.Fail(lib.Failure{Kind: "oracle", Key: "harness:deep-dynamic-unparseable", Desc: diags.Error(), Input: src})
			continue
		}
		ctx := &hcl.EvalContext{}
		schemaFor := func(level int) *hcl.BodySchema {
			if level == levels {
				return &hcl.BodySchema{Attributes: []hcl.AttributeSchema{{Name: "v"}}}
			}
			return &hcl.BodySchema{Blocks: []hcl.BlockHeaderSchema{{Type: names[level]}}}
		}
		// the bodies of one level, in order
		descend := func(bodies []hcl.Body, level int) ([]hcl.Body, bool) {
			var out []hcl.Body
			for _, b := range bodies {
				c, d := b.Content(schemaFor(level))
				if d.HasErrors() {
					return nil, false
				}
				for _, blk := range c.Blocks {
					out = append(out, blk.Body)
				}
			}
			return out, true
		}
		leafValues := func(b hcl.Body, level int) (out []string) {
			// depth-first from a body of `level` down to the values
			defer func() {
				if p := recover(); p != nil {
					out = []string{fmt.Sprintf("PANIC: %v", p)}
				}
			}()
			var walk func(b hcl.Body, level int)
			walk = func(b hcl.Body, level int) {
				c, d := b.Content(schemaFor(level))
				if d.HasErrors() {
					out = append(out, "ERR "+diagList(d))
					return
				}
				if level == levels {
					v, vd := c.Attributes["v"].Expr.Value(ctx)
					out = append(out, lib.DumpValue(v)+" "+diagList(vd))
					return
				}
				for _, blk := range c.Blocks {
					walk(blk.Body, level+1)
				}
			}
			walk(b, level)
			return out
		}
		third := func() ([]hcl.Body, bool) {
			bodies := []hcl.Body{dynblock.Expand(f.Body, ctx)}
			ok := true
			for level := 0; level < 3 && ok; level++ {
				bodies, ok = descend(bodies, level)
			}
			return bodies, ok
		}
		refBodies, ok1 := third()
		if !ok1 {
			res.Fail(lib.Failure{Kind: "oracle", Key: "harness:deep-dynamic-error", Input: src})
			continue
		}
		var want [][]string
		for _, b := range refBodies {
			want = append(want, leafValues(b, 3)) // depth-first, one sibling after the other
		}
		res.Count("deep-dynamic-rounds")
		res.Case(fmt.Sprintf("deep-dynamic|%d", i), true)
		// (a) interleaved: ask every sibling for its blocks first, evaluate afterwards
		if bodies, ok := third(); ok {
			var next [][]hcl.Body
			good := true
			for _, b := range bodies {
				nb, ok := descend([]hcl.Body{b}, 3)
				good = good && ok
				next = append(next, nb)
			}
			for si := range bodies {
				if !good {
					break
				}
				var got []string
				for _, nb := range next[si] {
					got = append(got, leafValues(nb, 4)...)
				}
				if strings.Join(got, "\n") != strings.Join(want[si], "\n") {
					res.Fail(lib.Failure{Kind: "oracle", Key: "deep-dynamic:interleaved-result-differs",
						Desc:  fmt.Sprintf("sibling %d of the third level: asking all siblings for their blocks before evaluating gives other values than a depth-first walk", si),
						Input: "DEEPDYNAMIC\n" + src, Impl: "depth-first: " + lib.Trunc(strings.Join(want[si], " | "), 800) + "\ninterleaved: " + lib.Trunc(strings.Join(got, " | "), 800)})
					break
				}
			}
		}
		// (b) one goroutine per sibling
		if bodies, ok := third(); ok {
			got := make([][]string, len(bodies))
			var start, done sync.WaitGroup
			start.Add(1)
			for si := range bodies {
				done.Add(1)
				go func(si int) {
					defer done.Done()
					start.Wait()
					got[si] = leafValues(bodies[si], 3)
				}(si)
			}
			start.Done()
			done.Wait()
			res.Evaluations += len(bodies)
			for si := range bodies {
				if strings.Join(got[si], "\n") != strings.Join(want[si], "\n") {
					res.Fail(lib.Failure{Kind: "oracle", Key: "deep-dynamic:concurrent-result-differs",
						Desc:  fmt.Sprintf("sibling %d of the third level, processed by its own goroutine, sees other values than in a depth-first walk", si),
						Input: "DEEPDYNAMIC\n" + src, Impl: "depth-first: " + lib.Trunc(strings.Join(want[si], " | "), 800) + "\nconcurrent:  " + lib.Trunc(strings.Join(got[si], " | "), 800)})
					break
				}
			}
		}
		if len(res.Failures) > 3 {
			break
		}
	}
}
