package c17

import (
	"encoding/json"
	"fmt"
	"strings"

	"github.com/hashicorp/hcl/v2"
	"github.com/hashicorp/hcl/v2/hcldec"
	"github.com/zclconf/go-cty/cty"

	"hx/lib"
)

// ---- documents ----

// attrDef / blockDef / bodyDef describe a configuration independently of its syntax; it is rendered once
// as native syntax and once as the equivalent JSON document (expressions as "${...}" template strings).
type attrDef struct {
	name string
	expr string // native expression text
	bare bool   // render bare in JSON too (keyword-like: the dynamic block's iterator name)
}

type blockDef struct {
	typ    string
	labels []string
	body   *bodyDef
}

type bodyDef struct {
	attrs  []attrDef
	blocks []blockDef
}

func (b *bodyDef) native(sb *strings.Builder, indent string) {
	for _, a := range b.attrs {
		fmt.Fprintf(sb, "%s%s = %s\n", indent, a.name, a.expr)
	}
	for _, bl := range b.blocks {
		sb.WriteString(indent + bl.typ)
		for _, l := range bl.labels {
			fmt.Fprintf(sb, " %q", l)
		}
		sb.WriteString(" {\n")
		bl.body.native(sb, indent+"  ")
		sb.WriteString(indent + "}\n")
	}
}

func jsonExpr(a attrDef) interface{} {
	if a.bare {
		return a.expr
	}
	return "${" + a.expr + "}"
}

// jsonValue renders the body as a JSON-syntax body: blocks of one type are gathered under one property, as
// an array of label-nesting objects (order preserving).
func (b *bodyDef) jsonValue() interface{} {
	type kv struct {
		k string
		v interface{}
	}
	var props []kv
	for _, a := range b.attrs {
		props = append(props, kv{a.name, jsonExpr(a)})
	}
	seen := map[string]int{}
	for _, bl := range b.blocks {
		var v interface{} = bl.body.jsonValue()
		for i := len(bl.labels) - 1; i >= 0; i-- {
			v = orderedObj{{bl.labels[i], v}}
		}
		if i, ok := seen[bl.typ]; ok {
			props[i].v = append(props[i].v.([]interface{}), v)
			continue
		}
		seen[bl.typ] = len(props)
		props = append(props, kv{bl.typ, []interface{}{v}})
	}
	o := orderedObj{}
	for _, p := range props {
		o = append(o, orderedKV{p.k, p.v})
	}
	return o
}

type orderedKV struct {
	k string
	v interface{}
}
type orderedObj []orderedKV

func (o orderedObj) MarshalJSON() ([]byte, error) {
	var sb strings.Builder
	sb.WriteByte('{')
	for i, kv := range o {
		if i > 0 {
			sb.WriteByte(',')
		}
		k, _ := json.Marshal(kv.k)
		v, err := json.Marshal(kv.v)
		if err != nil {
			return nil, err
		}
		sb.Write(k)
		sb.WriteByte(':')
		sb.Write(v)
	}
	sb.WriteByte('}')
	return []byte(sb.String()), nil
}

// ---- expression generator (splat-rich) ----

type exprGen struct {
	r      *lib.Rand
	shared bool // only the shared parent's variables (for for_each of a shared expanded body): no splats
	extra  []string
	stats  map[string]int
}

func (g *exprGen) count(k string) {
	if g.stats != nil {
		g.stats[k]++
	}
}

// itemSrc is an expression whose splat elements are "item" objects {name, n, tags, nested}.
func (g *exprGen) itemSrc() string {
	xs := []string{"g.items", "g.items", "g.items", "g.items", "shared.items", "shared.items", "g.single", "[for x in g.items : x]", "[g.single, g.single]", "g.marked", "g.unklist", "g.mp.a",
		`[{ name = "lit", tags = ["a", "b"], n = 1, nested = [] }]`, "concat(g.items, shared.items)", "(g.id % 2 == 0 ? g.items : shared.items)"}
	xs = append(xs, g.extra...)
	return g.r.Pick(xs)
}

func (g *exprGen) itemTrail(attrOnly bool) string {
	steps := []string{".name", ".name", ".n", ".tags", ".tags[0]", ".tags[g.idx]", ".tags[yield(0)]", ".tags[yield(g.idx)]", ".nested", ".nested[*].v", ".nested[*].w[0]", ".nested[*].w[*]",
		".nested.*.v", ".tags[*]", ".tags[length(shared.items[*].name) - 3]", ".nested[*].w[yield(1)]", ""}
	if attrOnly {
		steps = []string{".name", ".tags", ".n", ".nested", ".name", ""}
	}
	if g.r.Chance(1, 25) {
		return ".missing"
	}
	return g.r.Pick(steps)
}

// oddSplat covers the special sources: non-sequences (auto-upgrade to a one-element tuple), null, unknown,
// sets, tuples with mixed element types, maps, and splats that fail.
func (g *exprGen) oddSplat() string {
	return g.r.Pick([]string{"g.tup[*]", "g.set[*]", "g.nul[*]", "g.nul[*].name", "g.nullist[*]", "g.unk[*]", "g.id[*]", "g.mp[*].a[*].name", "values(g.mp)[*][*].name", "g.tup[*].name", "g.single[*].tags[*]",
		"g.tup[3][*].tags", "g.set.*", "g.items[*].name[*]", "g.unklist[*].nested[*].v", "g.mp.*.a", "keys(g.mp)[*]", "g.items[0].nested[*].w", "g.items[yield(0)].nested.*.v"})
}

func (g *exprGen) splat() string {
	g.count("expr:splat")
	if g.r.Chance(1, 5) {
		g.count("expr:odd-source-splat")
		return g.oddSplat()
	}
	if g.r.Chance(1, 4) {
		g.count("expr:attr-splat")
		return g.itemSrc() + ".*" + g.itemTrail(true)
	}
	return g.itemSrc() + "[*]" + g.itemTrail(false)
}

func (g *exprGen) strSplat() string {
	return g.r.Pick([]string{"g.items[*].name", "g.items.*.name", "shared.items[*].name", "g.items[*].tags[g.idx]", "g.items[*].nested[0].v", "g.set[*]", "g.single[*].name", "g.items[*].tags[yield(0)]"})
}

func (g *exprGen) expr(depth int) string {
	r := g.r
	if g.shared {
		return r.Pick([]string{"shared.items", "shared.names", "shared.m", "[for x in shared.items : x.name]", "shared.items[0].tags", "[shared.idx, 1]"})
	}
	top := 16
	if depth <= 0 {
		top = 3
	}
	switch r.Intn(top) {
	case 0, 1, 2:
		return g.splat()
	case 3:
		g.count("expr:for-over-splat")
		body := r.Pick([]string{"x", "[x]", "{ k = x }", "yield(x)", "[g.id, yield(x)]", "x == null ? g.id : yield(x)"})
		cond := ""
		if r.Chance(1, 4) {
			cond = " if x != null"
		}
		return "[for x in " + g.splat() + " : " + body + cond + "]"
	case 4:
		g.count("expr:object-for-over-splat")
		return "{ for i, x in " + g.splat() + " : tostring(i) => x }"
	case 5:
		g.count("expr:template-with-splat")
		return `"pre-${join(",", ` + g.strSplat() + `)}-${g.id}"`
	case 6:
		g.count("expr:template-for-directive")
		return `"%{ for x in ` + g.strSplat() + ` }<${yield(x)}>%{ endfor }"`
	case 7:
		g.count("expr:conditional")
		return "g.id % 2 == 0 ? " + g.expr(depth-1) + " : " + g.expr(depth-1)
	case 8:
		g.count("expr:function-call")
		switch r.Intn(6) {
		case 4, 5:
			// the final argument expanded: the argument list is rebuilt from the collection's elements on
			// every call (empty, unknown, null and non-sequence collections included)
			g.count("expr:call-with-expansion")
			return r.Pick([]string{
				"concat(" + g.itemSrc() + "[*].tags...)", "concat(g.items[*].tags...)", "concat([g.id], g.items[*].tags...)", "concat(shared.names, g.items[*].tags...)",
				`join("-", g.items[*].tags...)`, `join("-", [for x in g.items : x.tags]...)`, "concat(g.items[*].nested[*].w...)", "flatten(g.items[*].nested[*].w...)",
				"concat(g.tup...)", "concat(g.nullist...)", "concat(g.unklist[*].tags...)", "concat(g.marked[*].tags...)", "length(g.items...)", "yield(g.items...)", "upper(g.set...)",
				"concat(" + g.strSplat() + ", g.items[*].tags...)",
			})
		case 0:
			return "length(" + g.splat() + ")"
		case 1:
			return "concat(" + g.strSplat() + ", " + g.strSplat() + ")"
		case 2:
			return "flatten([" + g.splat() + ", " + g.splat() + "])"
		default:
			return "yield(" + g.expr(depth-1) + ")"
		}
	case 9:
		return "[" + g.expr(depth-1) + ", " + g.expr(depth-1) + "]"
	case 10:
		return "{ a = " + g.expr(depth-1) + ", b = " + g.expr(depth-1) + " }"
	case 11:
		g.count("expr:splat-in-for-body")
		return r.Pick([]string{"[for x in g.items : x.nested[*].v]", "[for x in g.items : x.tags[*]]", "[for x in g.items : [for y in x.nested[*].w : y[*]]]", "{ for x in g.items : x.name => x.nested[*].w[yield(0)] }",
			"[for i, x in g.items : shared.items[*].tags[i % 2]]"})
	case 12:
		g.count("expr:nested-splat")
		return r.Pick([]string{"g.items[*].nested[*].w[*]", "g.items[*].nested[*].v", "[g.items, g.items][*][*].name", "g.items[*].nested[*].w[yield(g.idx)]", "shared.items[*].tags[*]", "g.mp[*].a[*].name"})
	case 13:
		g.count("expr:splat-in-index-of-splat")
		return "g.items[*].tags[length(" + g.strSplat() + ") % 2]"
	case 14:
		g.count("expr:binary-over-splats")
		return "length(" + g.splat() + ") + length(" + g.splat() + ") == g.id"
	default:
		g.count("expr:parenthesised-splat-index")
		return "(" + g.splat() + ")[0]"
	}
}

// ---- bodies, schemas, specs ----

type docKind int

const (
	kindPlain     docKind = iota // attributes and nested blocks
	kindDynamic                  // also dynamic blocks; expanded per goroutine with the goroutine's own context
	kindDynShared                // dynamic blocks whose for_each uses only shared, splat-free expressions: expanded once
	kindHammer                   // plain splats over a 120-element list: many set/read pairs of the anonymous symbol per call
)

var hammerExprs = []string{
	"g.long[*].name", "g.long[*].n", "g.long.*.name", "g.long[*].tags[0]", "g.long[*].tags[g.idx]", "g.long[*].nested[*].v", "g.long[*].nested[*].w[*]", "[for x in g.long[*].name : x]",
	"g.long[*].tags[*]", "length(g.long[*].n)", "{ for i, x in g.long[*].n : tostring(i) => x }", "g.long[*].nested[0].w[1]", "[g.long[*].name, g.long[*].n]", "concat(g.long, g.long)[*].name",
}

type document struct {
	kind    docKind
	def     *bodyDef
	native  string
	json    string
	nAttrs  int
	innerOf map[string]bool
}

func dynSpec() hcldec.Spec {
	return &hcldec.BlockTupleSpec{TypeName: "dyn", Nested: hcldec.ObjectSpec{
		"v":   &hcldec.AttrSpec{Name: "v", Type: cty.DynamicPseudoType},
		"w":   &hcldec.AttrSpec{Name: "w", Type: cty.DynamicPseudoType},
		"sub": &hcldec.BlockTupleSpec{TypeName: "sub", Nested: hcldec.ObjectSpec{"z": &hcldec.AttrSpec{Name: "z", Type: cty.DynamicPseudoType}}},
	}}
}

// spec is the hcldec specification of a generated document (expanded form when it has dynamic blocks).
func (d *document) spec() hcldec.Spec {
	o := hcldec.ObjectSpec{}
	for _, a := range d.def.attrs {
		o[a.name] = &hcldec.AttrSpec{Name: a.name, Type: cty.DynamicPseudoType}
	}
	o["blk"] = &hcldec.BlockObjectSpec{TypeName: "blk", LabelNames: []string{"name"}, Nested: hcldec.ObjectSpec{
		"p":     &hcldec.AttrSpec{Name: "p", Type: cty.DynamicPseudoType},
		"q":     &hcldec.AttrSpec{Name: "q", Type: cty.DynamicPseudoType},
		"inner": &hcldec.BlockTupleSpec{TypeName: "inner", Nested: hcldec.ObjectSpec{"r": &hcldec.AttrSpec{Name: "r", Type: cty.DynamicPseudoType}}},
		"dyn":   dynSpec(),
	}}
	o["dyn"] = dynSpec()
	return o
}

func (d *document) schema(withDynamic bool) *hcl.BodySchema {
	s := &hcl.BodySchema{}
	for _, a := range d.def.attrs {
		s.Attributes = append(s.Attributes, hcl.AttributeSchema{Name: a.name})
	}
	s.Blocks = []hcl.BlockHeaderSchema{{Type: "blk", LabelNames: []string{"name"}}, {Type: "dyn"}}
	if withDynamic {
		s.Blocks = append(s.Blocks, hcl.BlockHeaderSchema{Type: "dynamic", LabelNames: []string{"type"}})
	}
	return s
}

var blkSchema = &hcl.BodySchema{
	Attributes: []hcl.AttributeSchema{{Name: "p"}, {Name: "q"}},
	Blocks:     []hcl.BlockHeaderSchema{{Type: "inner"}, {Type: "dyn"}, {Type: "dynamic", LabelNames: []string{"type"}}},
}
var innerSchema = &hcl.BodySchema{Attributes: []hcl.AttributeSchema{{Name: "r"}}}

func genDynamic(r *lib.Rand, eg *exprGen, kind docKind, depth int) blockDef {
	it := "dyn"
	body := &bodyDef{}
	var fe string
	if kind == kindDynShared {
		fe = (&exprGen{r: r, shared: true}).expr(0)
	} else {
		fe = r.Pick([]string{"g.items", "g.items[*].name", "g.items.*.tags", "g.mp", "g.set", "g.items[*].nested[*].v", "[for x in g.items[*].name : upper(x)]", "g.tup", "g.single[*]", "shared.items[*].name", "g.unklist[*]", "g.nul[*]", "g.items[*].nested"})
	}
	body.attrs = append(body.attrs, attrDef{name: "for_each", expr: fe})
	if r.Chance(1, 2) {
		it = "it"
		body.attrs = append(body.attrs, attrDef{name: "iterator", expr: it, bare: true})
	}
	content := &bodyDef{}
	inner := &exprGen{r: r, extra: []string{it + ".value", "[" + it + ".value]"}, stats: eg.stats}
	content.attrs = append(content.attrs, attrDef{name: "v", expr: r.Pick([]string{it + ".value", it + ".key", "[" + it + ".key, " + it + ".value]", it + ".value[*]", `"${g.id}-${` + it + `.key}"`})})
	if r.Chance(2, 3) {
		content.attrs = append(content.attrs, attrDef{name: "w", expr: inner.expr(2)})
	}
	if depth > 0 && r.Chance(1, 3) {
		// a nested dynamic block whose for_each may use the outer iterator
		sub := blockDef{typ: "dynamic", labels: []string{"sub"}, body: &bodyDef{}}
		sfe := r.Pick([]string{"g.items[*].name", it + ".value[*]", "g.set", "[" + it + ".key]"})
		if kind == kindDynShared {
			sfe = r.Pick([]string{"shared.names", "[" + it + ".key]", "shared.items"})
		}
		sub.body.attrs = append(sub.body.attrs, attrDef{name: "for_each", expr: sfe})
		sub.body.blocks = append(sub.body.blocks, blockDef{typ: "content", body: &bodyDef{attrs: []attrDef{{name: "z", expr: r.Pick([]string{"sub.value", "[sub.key, " + it + ".key]", "g.items[*].tags[yield(0)]", "sub.value[*]"})}}}})
		content.blocks = append(content.blocks, sub)
	}
	if r.Chance(1, 4) {
		content.blocks = append(content.blocks, blockDef{typ: "sub", body: &bodyDef{attrs: []attrDef{{name: "z", expr: inner.expr(1)}}}})
	}
	body.blocks = append(body.blocks, blockDef{typ: "content", body: content})
	return blockDef{typ: "dynamic", labels: []string{"dyn"}, body: body}
}

func genDocument(r *lib.Rand, kind docKind, stats map[string]int) *document {
	eg := &exprGen{r: r, stats: stats}
	def := &bodyDef{}
	if kind == kindHammer {
		n := 4 + r.Intn(3)
		for i := 0; i < n; i++ {
			def.attrs = append(def.attrs, attrDef{name: fmt.Sprintf("a%d", i), expr: hammerExprs[r.Intn(len(hammerExprs))]})
		}
		var sb strings.Builder
		def.native(&sb, "")
		js, _ := json.Marshal(def.jsonValue())
		return &document{kind: kind, def: def, native: sb.String(), json: string(js), nAttrs: n}
	}
	na := 3 + r.Intn(4)
	for i := 0; i < na; i++ {
		def.attrs = append(def.attrs, attrDef{name: fmt.Sprintf("a%d", i), expr: eg.expr(3)})
	}
	nb := r.Intn(3)
	for j := 0; j < nb; j++ {
		b := &bodyDef{}
		b.attrs = append(b.attrs, attrDef{name: "p", expr: eg.expr(2)})
		if r.Chance(1, 2) {
			b.attrs = append(b.attrs, attrDef{name: "q", expr: eg.expr(2)})
		}
		for k := r.Intn(3); k > 0; k-- {
			b.blocks = append(b.blocks, blockDef{typ: "inner", body: &bodyDef{attrs: []attrDef{{name: "r", expr: eg.expr(2)}}}})
		}
		if kind != kindPlain && r.Chance(1, 3) {
			b.blocks = append(b.blocks, genDynamic(r, eg, kind, 0))
		}
		def.blocks = append(def.blocks, blockDef{typ: "blk", labels: []string{fmt.Sprintf("l%d", j)}, body: b})
	}
	if kind != kindPlain {
		for k := 1 + r.Intn(2); k > 0; k-- {
			def.blocks = append(def.blocks, genDynamic(r, eg, kind, 1))
		}
		if r.Chance(1, 2) {
			def.blocks = append(def.blocks, blockDef{typ: "dyn", body: &bodyDef{attrs: []attrDef{{name: "v", expr: eg.expr(2)}}}})
		}
	}
	var sb strings.Builder
	def.native(&sb, "")
	js, _ := json.Marshal(def.jsonValue())
	return &document{kind: kind, def: def, native: sb.String(), json: string(js), nAttrs: na}
}

// ---- variables ----

func sharedVars() map[string]cty.Value {
	item := func(i int) cty.Value {
		return cty.ObjectVal(map[string]cty.Value{
			"name": cty.StringVal(fmt.Sprintf("s%d", i)),
			"n":    cty.NumberIntVal(int64(i)),
			"tags": cty.ListVal([]cty.Value{cty.StringVal(fmt.Sprintf("st%d-0", i)), cty.StringVal(fmt.Sprintf("st%d-1", i))}),
			"nested": cty.ListVal([]cty.Value{cty.ObjectVal(map[string]cty.Value{
				"v": cty.StringVal(fmt.Sprintf("s%d-v", i)),
				"w": cty.ListVal([]cty.Value{cty.NumberIntVal(int64(7000 + i)), cty.NumberIntVal(int64(-7000 - i))}),
			})}),
		})
	}
	return map[string]cty.Value{"shared": cty.ObjectVal(map[string]cty.Value{
		"items": cty.ListVal([]cty.Value{item(0), item(1), item(2)}),
		"names": cty.ListVal([]cty.Value{cty.StringVal("x"), cty.StringVal("y"), cty.StringVal("z")}),
		"m":     cty.MapVal(map[string]cty.Value{"a": cty.NumberIntVal(1), "b": cty.NumberIntVal(2)}),
		"idx":   cty.NumberIntVal(0),
	})}
}

// goroutineVars builds the per-goroutine variable "g": every string and number in it carries the goroutine
// number, and the collection lengths differ between goroutines, so that a value leaking from one evaluation
// into another shows up as a wrong result.
func goroutineVars(i int) map[string]cty.Value {
	nestedTy := cty.Object(map[string]cty.Type{"v": cty.String, "w": cty.List(cty.Number)})
	itemTy := cty.Object(map[string]cty.Type{"name": cty.String, "n": cty.Number, "tags": cty.List(cty.String), "nested": cty.List(nestedTy)})
	item := func(j int) cty.Value {
		nn := 1 + (i+j)%3
		nested := cty.ListValEmpty(nestedTy)
		if nn > 0 {
			var ns []cty.Value
			for k := 0; k < nn; k++ {
				ns = append(ns, cty.ObjectVal(map[string]cty.Value{
					"v": cty.StringVal(fmt.Sprintf("g%d-i%d-v%d", i, j, k)),
					"w": cty.ListVal([]cty.Value{cty.NumberIntVal(int64(1000*i + 10*j + k)), cty.NumberIntVal(int64(-i))}),
				}))
			}
			nested = cty.ListVal(ns)
		}
		return cty.ObjectVal(map[string]cty.Value{
			"name":   cty.StringVal(fmt.Sprintf("g%d-n%d", i, j)),
			"n":      cty.NumberIntVal(int64(100*i + j)),
			"tags":   cty.ListVal([]cty.Value{cty.StringVal(fmt.Sprintf("g%d-t%d-a", i, j)), cty.StringVal(fmt.Sprintf("g%d-t%d-b", i, j))}),
			"nested": nested,
		})
	}
	n := 1 + i%4 // 1..4 items; every seventh goroutine has an empty list
	if i%7 == 6 {
		n = 0
	}
	items := cty.ListValEmpty(itemTy)
	if n > 0 {
		var xs []cty.Value
		for j := 0; j < n; j++ {
			xs = append(xs, item(j))
		}
		items = cty.ListVal(xs)
	}
	unk := cty.UnknownVal(cty.String)
	unklist := cty.UnknownVal(cty.List(itemTy))
	if i%3 == 0 {
		unk = cty.StringVal(fmt.Sprintf("known%d", i))
		unklist = cty.ListVal([]cty.Value{item(7)})
	}
	long := make([]cty.Value, 120)
	for j := range long {
		long[j] = item(1000 + j)
	}
	g := cty.ObjectVal(map[string]cty.Value{
		"long":    cty.ListVal(long),
		"id":      cty.NumberIntVal(int64(i)),
		"idx":     cty.NumberIntVal(int64(i % 2)),
		"items":   items,
		"tup":     cty.TupleVal([]cty.Value{cty.StringVal(fmt.Sprintf("g%d", i)), cty.NumberIntVal(int64(i)), cty.True, item(9)}),
		"single":  item(8),
		"nul":     cty.NullVal(cty.DynamicPseudoType),
		"nullist": cty.NullVal(cty.List(cty.String)),
		"unk":     unk,
		"unklist": unklist,
		"set":     cty.SetVal([]cty.Value{cty.StringVal(fmt.Sprintf("a%d", i)), cty.StringVal(fmt.Sprintf("b%d", i))}),
		"marked":  cty.ListVal([]cty.Value{item(5), item(6)}).Mark(fmt.Sprintf("mark%d", i%2)),
		"mp":      cty.MapVal(map[string]cty.Value{"a": cty.ListVal([]cty.Value{item(1)}), fmt.Sprintf("k%d", i): cty.ListVal([]cty.Value{item(2), item(3)})}),
	})
	return map[string]cty.Value{"g": g}
}
