package c17

import (
	"bytes"
	"fmt"
	"strings"
	"sync"

	"github.com/hashicorp/hcl/v2"
	"github.com/hashicorp/hcl/v2/hclsyntax"
	"github.com/zclconf/go-cty/cty"

	"hx/lib"
)

// partialTrees: a configuration with syntax errors is still "parsed": the parser returns a partial tree whose
// holes are placeholder expressions carrying the parser's own diagnostics, and applications evaluate what is
// there. The placeholders sit below traversal steps, index brackets, template interpolations, call arguments and
// operators. Each goroutine evaluates the shared partial tree in its own context; what it gets back — value,
// diagnostics, the rendering of each diagnostic by the text writer (which prints the values the diagnostic's
// expression refers to, taken from the context recorded in the diagnostic), and that recorded context itself —
// must be what the same evaluation gives on a tree of its own, and must never refer to another goroutine's
// context.
var partialSources = []string{
	"greeting = \"hello ${tenants.[tenant.id].name}\"\n",
	"a = tenants.[0]\n",
	"a = foo..bar\n",
	"a = tenants.[tenant.id]\n",
	"a = [tenant.id, tenants.[tenant.id].name, 1]\n",
	"a = upper(tenants.[tenant.id].name)\n",
	"a = tenants[tenant.].name\n",
	"a = \"${tenant.id}-${tenants..name}\"\n",
	"a = tenant.id == \"x\" ? tenants..name : tenants.[0]\n",
	"a = [for t in tenants : t..name if tenant.id != \"\"]\n",
	"a = {k = tenants.[tenant.id].name, id = tenant.id}\n",
	"a = tenants.*.[tenant.id]\n",
	"a = tenants[*].[tenant.id].name\n",
	"a = tenant.id\nb = tenants.[tenant.id].name[0]\n",
}

func partialTrees(cx *lib.Ctx) {
	res := cx.Res
	goroutines := 8
	reps := cx.Scale(3, 40)
	mkCtx := func(parent *hcl.EvalContext, g int) *hcl.EvalContext {
		c := parent.NewChild()
		c.Variables = map[string]cty.Value{
			"tenant": cty.ObjectVal(map[string]cty.Value{"id": cty.StringVal(fmt.Sprintf("tenant-of-goroutine-%d", g))}),
			"foo":    cty.ObjectVal(map[string]cty.Value{"bar": cty.NumberIntVal(int64(g))}),
		}
		return c
	}
	render := func(diags hcl.Diagnostics, files map[string]*hcl.File) string {
		var buf bytes.Buffer
		wr := hcl.NewDiagnosticTextWriter(&buf, files, 0, false)
		for _, d := range diags {
			_ = wr.WriteDiagnostic(d)
		}
		return buf.String()
	}
	rootOf := func(c *hcl.EvalContext) *hcl.EvalContext {
		for c != nil && c.Parent() != nil {
			c = c.Parent()
		}
		return c
	}
	for rep := 0; rep < reps; rep++ {
		for si, src := range partialSources {
			shared, d0 := hclsyntax.ParseConfig([]byte(src), "partial.hcl", hcl.InitialPos)
			if !d0.HasErrors() || shared == nil {
				res.Fail(lib.Failure{Kind: "oracle", Key: "harness:partial-source-without-error", Input: src})
				continue
			}
			files := map[string]*hcl.File{"partial.hcl": shared}
			attrsOf := func(f *hcl.File) []*hclsyntax.Attribute {
				b, ok := f.Body.(*hclsyntax.Body)
				if !ok {
					return nil
				}
				var as []*hclsyntax.Attribute
				for _, n := range []string{"greeting", "a", "b"} {
					if a, ok := b.Attributes[n]; ok {
						as = append(as, a)
					}
				}
				return as
			}
			sharedAttrs := attrsOf(shared)
			if len(sharedAttrs) == 0 {
				res.Count("partial:no-attribute-in-partial-tree")
				continue
			}
			parent := &hcl.EvalContext{Variables: map[string]cty.Value{"tenants": cty.ListVal([]cty.Value{
				cty.ObjectVal(map[string]cty.Value{"name": cty.StringVal("n0")}), cty.ObjectVal(map[string]cty.Value{"name": cty.StringVal("n1")})})},
				Functions: sharedFunctions()}
			// the expected results: every goroutine's evaluation on a tree of its own, one after the other
			want := make([]string, goroutines)
			for g := 0; g < goroutines; g++ {
				own, _ := hclsyntax.ParseConfig([]byte(src), "partial.hcl", hcl.InitialPos)
				ctx := mkCtx(parent, g)
				var sb strings.Builder
				for _, a := range attrsOf(own) {
					v, d := safeEval(a.Expr, ctx)
					sb.WriteString(v + " " + diagList(d) + "\n" + render(d, files))
				}
				want[g] = sb.String()
			}
			got := make([]string, goroutines)
			foreign := make([]string, goroutines)
			var start, done sync.WaitGroup
			start.Add(1)
			for g := 0; g < goroutines; g++ {
				done.Add(1)
				go func(g int) {
					defer done.Done()
					ctx := mkCtx(parent, g)
					start.Wait()
					for k := 0; k < 4; k++ {
						var sb strings.Builder
						for _, a := range sharedAttrs {
							v, d := safeEval(a.Expr, ctx)
							for _, dd := range d {
								if dd.EvalContext != nil && dd.EvalContext != ctx && rootOf(dd.EvalContext) == parent {
									// a context below the shared parent that is not this goroutine's own
									own := false
									for c := dd.EvalContext; c != nil; c = c.Parent() {
										if c == ctx {
											own = true
										}
									}
									if !own {
										foreign[g] = dd.Summary
									}
								}
							}
							sb.WriteString(v + " " + diagList(d) + "\n" + render(d, files))
						}
						if o := sb.String(); o != want[g] {
							got[g] = o
							return
						}
						doYield()
					}
					got[g] = want[g]
				}(g)
			}
			start.Done()
			done.Wait()
			res.Count("partial-tree-rounds")
			res.Evaluations += goroutines * 4 * len(sharedAttrs)
			res.Case(fmt.Sprintf("partial|%d|%d", si, rep), true)
			for g := 0; g < goroutines; g++ {
				if foreign[g] != "" {
					res.Fail(lib.Failure{Kind: "oracle", Key: "partial-tree:diagnostic-refers-to-another-goroutines-context",
						Desc:  fmt.Sprintf("goroutine %d of %d received a diagnostic (%s) whose EvalContext belongs to another goroutine", g, goroutines, foreign[g]),
						Input: "PARTIAL " + src})
					break
				}
				if got[g] != want[g] {
					res.Fail(lib.Failure{Kind: "oracle", Key: "partial-tree:concurrent-result-differs",
						Desc:  fmt.Sprintf("goroutine %d of %d: evaluating a shared partial tree (syntax error below a traversal) concurrently gives a different value, diagnostics or rendering than evaluating a tree of its own", g, goroutines),
						Input: "PARTIAL " + src, Impl: "alone:      " + lib.Trunc(want[g], 1500) + "\nconcurrent: " + lib.Trunc(got[g], 1500)})
					break
				}
			}
			if len(res.Failures) > 3 {
				return
			}
		}
	}
}

func safeEval(e hcl.Expression, ctx *hcl.EvalContext) (out string, diags hcl.Diagnostics) {
	defer func() {
		if p := recover(); p != nil {
			out = fmt.Sprintf("PANIC: %v", p)
		}
	}()
	v, d := e.Value(ctx)
	return lib.DumpValue(v), d
}
