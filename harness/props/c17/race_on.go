//go:build race

package c17

// raceEnabled reports whether this binary was built with the race detector.
const raceEnabled = true
