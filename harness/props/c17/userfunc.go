package c17

import (
	"fmt"
	"sync"

	"github.com/hashicorp/hcl/v2"
	"github.com/hashicorp/hcl/v2/ext/userfunc"
	"github.com/hashicorp/hcl/v2/hclsyntax"
	"github.com/zclconf/go-cty/cty"

	"hx/lib"
)

// userFunctions: functions declared in the configuration (ext/userfunc) live in the shared parent context; their
// result expressions are parts of the parsed configuration like any other. Goroutines call the same functions at
// the same time, each with its own child context and its own argument values (same types, so that nothing but the
// values tells the calls apart); each must get what the same call returns alone.
func userFunctions(cx *lib.Ctx) {
	res := cx.Res
	decl := `
function "add" {
  params = [a, b]
  result = a + b
}
function "tag" {
  params = [prefix]
  variadic_param = names
  result = [for n in names : "${prefix}-${n}"]
}
function "pick" {
  params = [items, i]
  result = items[*].name[i]
}
`
	use := "sum = add(x, y)\ntags = tag(p, \"a\", \"b\", q)\nname = pick(objs, idx)\nnested = add(add(x, 1), add(y, x))\n"
	df, d0 := hclsyntax.ParseConfig([]byte(decl), "funcs.hcl", hcl.InitialPos)
	uf, d1 := hclsyntax.ParseConfig([]byte(use), "use.hcl", hcl.InitialPos)
	if d0.HasErrors() || d1.HasErrors() {
		res.Fail(lib.Failure{Kind: "oracle", Key: "harness:userfunc-unparseable", Input: decl + use})
		return
	}
	parent := &hcl.EvalContext{Variables: map[string]cty.Value{}}
	funcs, _, fd := userfunc.DecodeUserFunctions(df.Body, "function", func() *hcl.EvalContext { return parent })
	if fd.HasErrors() {
		res.Fail(lib.Failure{Kind: "oracle", Key: "harness:userfunc-declarations", Desc: fd.Error(), Input: decl})
		return
	}
	parent.Functions = funcs
	attrs := uf.Body.(*hclsyntax.Body).Attributes
	names := []string{"sum", "tags", "name", "nested"}
	goroutines := 16
	mkCtx := func(g int) *hcl.EvalContext {
		c := parent.NewChild()
		c.Variables = map[string]cty.Value{
			"x": cty.NumberIntVal(int64(1000 * g)), "y": cty.NumberIntVal(int64(g)),
			"p": cty.StringVal(fmt.Sprintf("g%d", g)), "q": cty.StringVal(fmt.Sprintf("q%d", g)),
			"objs": cty.ListVal([]cty.Value{cty.ObjectVal(map[string]cty.Value{"name": cty.StringVal(fmt.Sprintf("n%d-0", g))}), cty.ObjectVal(map[string]cty.Value{"name": cty.StringVal(fmt.Sprintf("n%d-1", g))})}),
			"idx":  cty.NumberIntVal(int64(g % 2)),
		}
		return c
	}
	evalAll := func(ctx *hcl.EvalContext) string {
		out := ""
		for _, n := range names {
			v, d := safeEval(attrs[n].Expr, ctx)
			out += n + "=" + v + " " + diagList(d) + "; "
		}
		return out
	}
	rounds := cx.Scale(40, 600)
	if raceEnabled {
		rounds = cx.Scale(15, 200)
	}
	want := make([]string, goroutines)
	for g := range want {
		want[g] = evalAll(mkCtx(g))
	}
	for round := 0; round < rounds; round++ {
		got := make([]string, goroutines)
		var start, done sync.WaitGroup
		start.Add(1)
		for g := 0; g < goroutines; g++ {
			done.Add(1)
			go func(g int) {
				defer done.Done()
				ctx := mkCtx(g)
				start.Wait()
				for k := 0; k < 8; k++ {
					if o := evalAll(ctx); o != want[g] {
						got[g] = o
						return
					}
					if k%2 == 0 {
						doYield()
					}
				}
				got[g] = want[g]
			}(g)
		}
		start.Done()
		done.Wait()
		res.Count("userfunc-rounds")
		res.Evaluations += goroutines * 8 * len(names)
		res.Case(fmt.Sprintf("userfunc|%d", round), true)
		for g := range got {
			if got[g] != want[g] {
				res.Fail(lib.Failure{Kind: "oracle", Key: "userfunc:concurrent-result-differs",
					Desc:  fmt.Sprintf("goroutine %d of %d calling functions declared in the configuration gets a different result than the same calls made alone", g, goroutines),
					Input: "USERFUNC " + decl + use, Impl: "alone:      " + lib.Trunc(want[g], 900) + "\nconcurrent: " + lib.Trunc(got[g], 900)})
				return
			}
		}
	}
}
